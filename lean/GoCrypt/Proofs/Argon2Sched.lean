import GoCrypt.Gen.Kernels

/-!
# Argon2 lane scheduling (support for C09)

Three parts.

* **A. Reference set.**  The generated `indexAlpha` (translated from
  `argon2/argon2crypto/argon2.go`) is brought into a closed arithmetic form (`indexAlpha_eq`) and
  the position of the referenced block relative to the block being written is characterised
  (`refset_core`).
* **B. Phase theorem.**  A generic statement about `L` tasks whose steps write inside pairwise
  disjoint regions and read only their own region and a frozen area: every schedule leaves every
  region exactly as the solo run of its task (`schedule_independent`); complete schedules all
  produce the same memory, the one obtained by running the tasks one after the other.
* **C. Instantiation.**  One phase `(n, slice)` of the Argon2 fill as such a system
  (`argon2Phase`), its locality from part A (`argon2_phase_local`), and the whole fill.
-/

namespace GoCrypt.Argon2Sched
open GoCrypt.Gen.argon2crypto

/-! ## A. the reference set of `indexAlpha` -/

theorem and32 (x : Nat) : x &&& 4294967295 = x % 4294967296 := by
  have := @Nat.and_two_pow_sub_one_eq_mod x 32
  simpa using this

theorem shr32 (x : Nat) : x >>> 32 = x / 4294967296 := by
  simp [Nat.shiftRight_eq_div_pow]

theorem Id_run_pure' {α : Type} (a : α) : Id.run (pure a : Id α) = a := rfl

/-- `p` of `phi` without the (vacuous) `uint64` reductions:
`p = ((x*x) >> 32) * m >> 32` with `x = rand & 0xFFFFFFFF`. -/
def phiP (rand m : Nat) : Nat :=
  (rand % 4294967296) * (rand % 4294967296) / 4294967296 * m / 4294967296

/-- `p < m`: the subtraction `s + m - (p + 1)` in `phi` never wraps. -/
theorem phiP_lt (rand m : Nat) (hm : 1 ≤ m) : phiP rand m < m := by
  unfold phiP
  have hx : rand % 4294967296 < 4294967296 := Nat.mod_lt _ (by decide)
  have hxx : rand % 4294967296 * (rand % 4294967296) < 4294967296 * 4294967296 :=
    Nat.mul_lt_mul'' hx hx
  have hp1 : rand % 4294967296 * (rand % 4294967296) / 4294967296 < 4294967296 :=
    Nat.div_lt_of_lt_mul hxx
  apply Nat.div_lt_of_lt_mul
  exact Nat.mul_lt_mul_of_pos_right hp1 (by omega)

/-- Closed form of the generated `phi` when nothing wraps. -/
theorem phi_eq (rand m s lane lanes : Nat) (hm : 1 ≤ m) (hm32 : m < 4294967296)
    (hs : s + m < 18446744073709551616) (hlanes : 0 < lanes)
    (hl : lane * lanes + lanes ≤ 4294967296) :
    phi rand m s lane lanes = lane * lanes + (s + m - (phiP rand m + 1)) % lanes := by
  have hlt := phiP_lt rand m hm
  unfold phi
  dsimp only []
  rw [Id_run_pure', and32, shr32, shr32]
  have hx : rand % 4294967296 < 4294967296 := Nat.mod_lt _ (by decide)
  have hxx : rand % 4294967296 * (rand % 4294967296) < 4294967296 * 4294967296 :=
    Nat.mul_lt_mul'' hx hx
  have hp1 : rand % 4294967296 * (rand % 4294967296) / 4294967296 < 4294967296 :=
    Nat.div_lt_of_lt_mul hxx
  have hp1m : rand % 4294967296 * (rand % 4294967296) / 4294967296 * m
      < 4294967296 * 4294967296 := Nat.mul_lt_mul'' hp1 hm32
  rw [Nat.mod_eq_of_lt
      (show rand % 4294967296 * (rand % 4294967296) < 18446744073709551616 from hxx),
    Nat.mod_eq_of_lt
      (show rand % 4294967296 * (rand % 4294967296) / 4294967296 * m < 18446744073709551616
        from hp1m)]
  unfold phiP at hlt ⊢
  generalize rand % 4294967296 * (rand % 4294967296) / 4294967296 * m / 4294967296 = p at hlt ⊢
  have hmod : (s + m - (p + 1)) % lanes < lanes := Nat.mod_lt _ hlanes
  have e1 : ((s + m) % 18446744073709551616 + 18446744073709551616 -
      (p + 1) % 18446744073709551616) % 18446744073709551616 = s + m - (p + 1) := by omega
  rw [e1]
  generalize (s + m - (p + 1)) % lanes = y at hmod ⊢
  omega

/-- The lane the reference points into. -/
def refLaneOf (rand threads n slice lane : Nat) : Nat :=
  if n = 0 ∧ slice = 0 then lane else rand / 4294967296 % 4294967296 % threads

/-- Size `m` of the reference window. -/
def mOf (segments n slice lane index refLane : Nat) : Nat :=
  (if n = 0 then slice * segments + (if slice = 0 ∨ lane = refLane then index else 0)
   else 3 * segments + (if lane = refLane then index else 0))
    - (if index = 0 ∨ lane = refLane then 1 else 0)

/-- Start `s` of the reference window (a position inside the lane). -/
def sOf (segments n slice : Nat) : Nat := if n = 0 then 0 else (slice + 1) % 4 * segments

theorem refLaneOf_lt (rand threads n slice lane : Nat) (hthr : 1 ≤ threads) (hlane : lane < threads) :
    refLaneOf rand threads n slice lane < threads := by
  unfold refLaneOf
  split
  · exact hlane
  · exact Nat.mod_lt _ (by omega)

theorem phi_congr {rand m m' s s' R lanes : Nat} (h1 : m = m') (h2 : s = s') :
    phi rand m s R lanes = phi rand m' s' R lanes := by
  subst h1 h2; rfl

/-- The generated `indexAlpha` is `phi` of the window `(m, s)` in lane `refLane`; the `uint32`
reductions are no-ops because `4 * segments < 2^32`. -/
theorem indexAlpha_phi (rand lanes segments threads n slice lane index : Nat)
    (hseg : 2 ≤ segments) (hseg32 : 4 * segments < 4294967296) (hslice : slice < 4)
    (hidx : index < segments) (h0 : n = 0 ∧ slice = 0 → 2 ≤ index) :
    indexAlpha rand lanes segments threads n slice lane index =
      phi rand (mOf segments n slice lane index (refLaneOf rand threads n slice lane))
        (sOf segments n slice) (refLaneOf rand threads n slice lane) lanes := by
  unfold indexAlpha
  dsimp only [Id.run, bind, pure]
  rw [shr32]
  unfold refLaneOf mOf sOf
  generalize rand / 4294967296 % 4294967296 % threads = R
  have hsl : slice = 0 ∨ slice = 1 ∨ slice = 2 ∨ slice = 3 := by omega
  by_cases hn : n = 0 <;> by_cases hl : lane = R <;> by_cases hi : index = 0 <;>
    by_cases hs : slice = 0 <;>
    simp only [hn, hl, hi, hs, beq_iff_eq, Bool.and_eq_true, Bool.or_eq_true, if_true, if_false,
      and_self, and_true, or_true, or_self, and_false, or_false] <;>
    first
      | (exfalso; omega)
      | (apply phi_congr <;> rcases hsl with rfl | rfl | rfl | rfl <;>
          (try simp only [Nat.reduceAdd, Nat.reduceMod]) <;> omega)

theorem mOf_bounds (segments n slice lane index R : Nat)
    (hseg : 2 ≤ segments) (hslice : slice < 4)
    (hidx : index < segments) (h0 : n = 0 ∧ slice = 0 → 2 ≤ index) :
    1 ≤ mOf segments n slice lane index R ∧ mOf segments n slice lane index R < 4 * segments ∧
      sOf segments n slice < 4 * segments := by
  unfold mOf sOf
  have hsl : slice = 0 ∨ slice = 1 ∨ slice = 2 ∨ slice = 3 := by omega
  by_cases hn : n = 0 <;> by_cases hl : lane = R <;> by_cases hi : index = 0 <;>
    rcases hsl with rfl | rfl | rfl | rfl <;> simp [hn, hl, hi] <;> omega

/-- **Closed form of the generated `indexAlpha`.** -/
theorem indexAlpha_eq (rand lanes segments threads n slice lane index : Nat)
    (hseg : 2 ≤ segments) (hlanes : lanes = 4 * segments) (hthr : 1 ≤ threads)
    (hmem : threads * lanes < 4294967296) (hslice : slice < 4) (hlane : lane < threads)
    (hidx : index < segments) (h0 : n = 0 ∧ slice = 0 → 2 ≤ index) :
    indexAlpha rand lanes segments threads n slice lane index =
      refLaneOf rand threads n slice lane * lanes +
        (sOf segments n slice + mOf segments n slice lane index (refLaneOf rand threads n slice lane)
          - (phiP rand (mOf segments n slice lane index (refLaneOf rand threads n slice lane)) + 1))
          % lanes := by
  have hR := refLaneOf_lt rand threads n slice lane hthr hlane
  have hle : lanes ≤ threads * lanes := Nat.le_mul_of_pos_left _ hthr
  have hseg32 : 4 * segments < 4294967296 := by omega
  obtain ⟨hm1, hm2, hs⟩ :=
    mOf_bounds segments n slice lane index (refLaneOf rand threads n slice lane) hseg hslice hidx h0
  rw [indexAlpha_phi rand lanes segments threads n slice lane index hseg hseg32 hslice hidx h0]
  apply phi_eq _ _ _ _ _ hm1 (by omega) (by omega) (by omega)
  have : (refLaneOf rand threads n slice lane + 1) * lanes ≤ threads * lanes :=
    Nat.mul_le_mul_right _ hR
  rw [Nat.add_mul, Nat.one_mul] at this
  omega

/-! ### where the reference lands -/

theorem mod_cases (X L : Nat) (h : X < 2 * L) :
    (X < L ∧ X % L = X) ∨ (L ≤ X ∧ X % L = X - L) := by
  rcases Nat.lt_or_ge X L with h1 | h1
  · exact Or.inl ⟨h1, Nat.mod_eq_of_lt h1⟩
  · refine Or.inr ⟨h1, ?_⟩
    rw [Nat.mod_eq_sub_mod h1, Nat.mod_eq_of_lt (by omega)]

theorem div_mod_of_eq (a b y : Nat) (hy : y < b) : (a * b + y) / b = a ∧ (a * b + y) % b = y := by
  constructor
  · rw [Nat.mul_comm, Nat.mul_add_div (by omega), Nat.div_eq_of_lt hy]; rfl
  · rw [Nat.mul_comm, Nat.mul_add_mod, Nat.mod_eq_of_lt hy]

/-- A position inside a lane is (slice `q`, index `t`). -/
theorem locate (segments pos : Nat) (hseg : 0 < segments) (hpos : pos < 4 * segments) :
    ∃ q t, q < 4 ∧ t < segments ∧ pos = q * segments + t ∧ pos / segments = q ∧
      pos % segments = t := by
  refine ⟨pos / segments, pos % segments, ?_, Nat.mod_lt _ hseg, ?_, rfl, rfl⟩
  · exact Nat.div_lt_of_lt_mul (by omega)
  · have := Nat.div_add_mod pos segments
    rw [Nat.mul_comm] at this
    exact this.symm

/-- **Reference-set core.**  `R` is the referenced lane, `p < m` the value computed by `phi`;
`pos` is the position of the referenced block inside lane `R`. -/
theorem refset_core (segments lanes n slice lane index R p : Nat)
    (hseg : 2 ≤ segments) (hlanes : lanes = 4 * segments) (hslice : slice < 4)
    (hidx : index < segments) (h0 : n = 0 ∧ slice = 0 → 2 ≤ index)
    (hR0 : n = 0 ∧ slice = 0 → R = lane)
    (hp : p < mOf segments n slice lane index R) :
    (sOf segments n slice + mOf segments n slice lane index R - (p + 1)) % lanes < lanes ∧
    (R ≠ lane →
      (sOf segments n slice + mOf segments n slice lane index R - (p + 1)) % lanes / segments ≠ slice ∧
      (n = 0 →
        (sOf segments n slice + mOf segments n slice lane index R - (p + 1)) % lanes / segments
          < slice)) ∧
    (R = lane →
      ((sOf segments n slice + mOf segments n slice lane index R - (p + 1)) % lanes / segments ≠ slice ∨
        ((sOf segments n slice + mOf segments n slice lane index R - (p + 1)) % lanes / segments = slice ∧
         (sOf segments n slice + mOf segments n slice lane index R - (p + 1)) % lanes % segments
          < index)) ∧
      (sOf segments n slice + mOf segments n slice lane index R - (p + 1)) % lanes
        ≠ slice * segments + index ∧
      (n = 0 →
        (sOf segments n slice + mOf segments n slice lane index R - (p + 1)) % lanes
          < slice * segments + index)) := by
  obtain ⟨hm1, hm2, hs⟩ := mOf_bounds segments n slice lane index R hseg hslice hidx h0
  generalize hmdef : mOf segments n slice lane index R = m at *
  generalize hsdef : sOf segments n slice = s at *
  have hX : s + m - (p + 1) < 2 * lanes := by omega
  have hmodlt : (s + m - (p + 1)) % lanes < lanes := Nat.mod_lt _ (by omega)
  obtain ⟨q, t, hq, ht, hqt, hdiv, hmod⟩ :=
    locate segments ((s + m - (p + 1)) % lanes) (by omega) (by omega)
  rw [hdiv, hmod]
  have hcases := mod_cases _ lanes hX
  generalize (s + m - (p + 1)) % lanes = pos at *
  refine ⟨hmodlt, ?_⟩
  unfold mOf at hmdef
  unfold sOf at hsdef
  have hsl : slice = 0 ∨ slice = 1 ∨ slice = 2 ∨ slice = 3 := by omega
  have hql : q = 0 ∨ q = 1 ∨ q = 2 ∨ q = 3 := by omega
  by_cases hn : n = 0 <;> by_cases hl : lane = R <;> by_cases hi : index = 0 <;>
    rcases hsl with rfl | rfl | rfl | rfl <;> simp [hn, hl, hi] at hmdef hsdef <;>
    rcases hql with rfl | rfl | rfl | rfl <;> omega

/-! ### the reference-set theorem for the generated `indexAlpha` -/

/-- The shape of an Argon2 memory: `threads` lanes of `lanes = 4 * segments` blocks, with
`memory = threads * lanes` a `uint32`. -/
structure Geom (lanes segments threads : Nat) : Prop where
  seg : 2 ≤ segments
  lanes_eq : lanes = 4 * segments
  thr : 1 ≤ threads
  mem : threads * lanes < 4294967296

/-- **Reference-set theorem** (all clauses at once; `GoCrypt.C09` splits it). -/
theorem refset {lanes segments threads : Nat} (geo : Geom lanes segments threads)
    (rand n slice lane index : Nat) (hslice : slice < 4) (hlane : lane < threads)
    (hidx : index < segments) (h0 : n = 0 ∧ slice = 0 → 2 ≤ index) :
    let r := indexAlpha rand lanes segments threads n slice lane index
    r < threads * lanes ∧ r / lanes < threads ∧
    (r / lanes ≠ lane →
      r % lanes / segments ≠ slice ∧ (n = 0 → r % lanes / segments < slice)) ∧
    (r / lanes = lane →
      (r % lanes / segments ≠ slice ∨
        (r % lanes / segments = slice ∧ r % lanes % segments < index)) ∧
      r ≠ lane * lanes + slice * segments + index ∧
      (n = 0 → r % lanes < slice * segments + index)) := by
  intro r
  have hr : r = _ := indexAlpha_eq rand lanes segments threads n slice lane index geo.seg geo.lanes_eq
    geo.thr geo.mem hslice hlane hidx h0
  have hR := refLaneOf_lt rand threads n slice lane geo.thr hlane
  have hR0 : n = 0 ∧ slice = 0 → refLaneOf rand threads n slice lane = lane := by
    intro h; unfold refLaneOf; rw [if_pos h]
  obtain ⟨hm1, -, -⟩ := mOf_bounds segments n slice lane index
    (refLaneOf rand threads n slice lane) geo.seg hslice hidx h0
  have hp := phiP_lt rand _ hm1
  obtain ⟨c1, c2, c3⟩ := refset_core segments lanes n slice lane index
    (refLaneOf rand threads n slice lane) _ geo.seg geo.lanes_eq hslice hidx h0 hR0 hp
  generalize refLaneOf rand threads n slice lane = R at *
  generalize (sOf segments n slice + mOf segments n slice lane index R -
    (phiP rand (mOf segments n slice lane index R) + 1)) % lanes = pos at *
  obtain ⟨hdiv, hmod⟩ := div_mod_of_eq R lanes pos c1
  rw [← hr] at hdiv hmod
  rw [hdiv, hmod]
  have hle : (R + 1) * lanes ≤ threads * lanes := Nat.mul_le_mul_right _ hR
  rw [Nat.add_mul, Nat.one_mul] at hle
  refine ⟨by omega, hR, c2, ?_⟩
  intro hRl
  obtain ⟨d1, d2, d3⟩ := c3 hRl
  refine ⟨d1, ?_, d3⟩
  subst hRl
  omega

/-! ## B. the phase theorem -/

/-- Memory: cell number ↦ content (`V` = block contents; the theorem is generic in it). -/
abbrev Mem (V : Type) := Nat → V

/-- One step of a task: write cell `w` with a value computed from the memory. -/
structure Step (V : Type) where
  w : Nat
  f : Mem V → V

variable {V : Type}

def Step.run (st : Step V) (m : Mem V) : Mem V := fun i => if i = st.w then st.f m else m i

def runList : List (Step V) → Mem V → Mem V
  | [], m => m
  | s :: ss, m => runList ss (s.run m)

/-- `st` writes inside region `R` and reads only `R ∪ F`. -/
def Local (R F : Nat → Prop) (st : Step V) : Prop :=
  R st.w ∧ ∀ m m' : Mem V, (∀ i, R i ∨ F i → m i = m' i) → st.f m = st.f m'

/-- `L` tasks with pairwise disjoint write regions `R l`, all disjoint from the frozen area `F`. -/
structure Sys (V : Type) (L : Nat) where
  tasks : Fin L → List (Step V)
  R : Fin L → Nat → Prop
  F : Nat → Prop
  disj : ∀ l l' i, R l i → R l' i → l = l'
  frozen : ∀ l i, R l i → ¬ F i
  loc : ∀ l, ∀ st ∈ tasks l, Local (R l) F st

/-- Scheduler state: a program counter per task, and the shared memory. -/
structure St (V : Type) (L : Nat) where
  pc : Fin L → Nat
  mem : Mem V

/-- Task `l` performs its next step (nothing happens if it has finished). -/
def Sys.step {L} (S : Sys V L) (s : St V L) (l : Fin L) : St V L :=
  match (S.tasks l)[s.pc l]? with
  | none => s
  | some st => { pc := fun k => if k = l then s.pc l + 1 else s.pc k, mem := st.run s.mem }

/-- Run a schedule: a list of task indices, one atomic step each. -/
def Sys.exec {L} (S : Sys V L) (s : St V L) : List (Fin L) → St V L
  | [] => s
  | l :: ls => S.exec (S.step s l) ls

/-- The first `n` steps of task `l` run alone on `m0`. -/
def solo {L} (S : Sys V L) (l : Fin L) (n : Nat) (m0 : Mem V) : Mem V :=
  runList ((S.tasks l).take n) m0

theorem runList_append (a b : List (Step V)) (m : Mem V) :
    runList (a ++ b) m = runList b (runList a m) := by
  induction a generalizing m with
  | nil => rfl
  | cons x xs ih => simp [runList, ih]

theorem solo_succ {L} (S : Sys V L) (l : Fin L) (n : Nat) (m0 : Mem V) (st : Step V)
    (h : (S.tasks l)[n]? = some st) : solo S l (n+1) m0 = st.run (solo S l n m0) := by
  unfold solo
  have hn : n < (S.tasks l).length := by
    rcases Nat.lt_or_ge n (S.tasks l).length with h' | h'
    · exact h'
    · simp [List.getElem?_eq_none h'] at h
  have hst : (S.tasks l)[n] = st := by
    have := List.getElem?_eq_getElem hn
    rw [this] at h; exact Option.some.inj h
  rw [List.take_succ_eq_append_getElem hn, runList_append, hst]; rfl

/-- Invariant: every task sees, on its own region and the frozen area, exactly its solo run. -/
def LaneInv {L} (S : Sys V L) (m0 : Mem V) (s : St V L) : Prop :=
  ∀ l i, (S.R l i ∨ S.F i) → s.mem i = solo S l (s.pc l) m0 i

theorem inv_step {L} (S : Sys V L) (m0 : Mem V) (s : St V L) (k : Fin L) (h : LaneInv S m0 s) :
    LaneInv S m0 (S.step s k) := by
  unfold Sys.step
  cases hst : (S.tasks k)[s.pc k]? with
  | none => simpa using h
  | some st =>
    have hmem : st ∈ S.tasks k := List.mem_of_getElem? hst
    obtain ⟨hw, hfr⟩ := S.loc k st hmem
    intro l i hi
    by_cases hlk : l = k
    · subst hlk
      simp only [if_true]
      rw [solo_succ S l (s.pc l) m0 st hst]
      unfold Step.run
      by_cases hiw : i = st.w
      · simp only [hiw, if_true]
        exact hfr _ _ (fun j hj => h l j hj)
      · simp only [hiw, if_false]
        exact h l i hi
    · simp only [hlk, if_false]
      have hne : i ≠ st.w := by
        intro e; subst e
        rcases hi with hi | hi
        · exact hlk (S.disj l k _ hi hw)
        · exact S.frozen k _ hw hi
      unfold Step.run
      simp only [hne, if_false]
      exact h l i hi

theorem inv_exec {L} (S : Sys V L) (m0 : Mem V) (s : St V L) (sched : List (Fin L))
    (h : LaneInv S m0 s) : LaneInv S m0 (S.exec s sched) := by
  induction sched generalizing s with
  | nil => exact h
  | cons l ls ih => exact ih _ (inv_step S m0 s l h)

/-- **Phase theorem.**  Under ANY schedule, task `l`'s region holds exactly what task `l` running
alone would have produced after as many steps as it has taken. -/
theorem schedule_independent {L} (S : Sys V L) (m0 : Mem V) (sched : List (Fin L)) (l : Fin L)
    (i : Nat) (hi : S.R l i) :
    (S.exec ⟨fun _ => 0, m0⟩ sched).mem i
      = solo S l ((S.exec ⟨fun _ => 0, m0⟩ sched).pc l) m0 i := by
  have h0 : LaneInv S m0 ⟨fun _ => 0, m0⟩ := by intro l i _; simp [solo, runList]
  exact inv_exec S m0 _ sched h0 l i (Or.inl hi)

/-! ### complete schedules -/

/-- A schedule is complete when it gives every task at least as many turns as it has steps
(so every task has run to its end — the `WaitGroup` barrier). -/
def Sys.Complete {L} (S : Sys V L) (sched : List (Fin L)) : Prop :=
  ∀ l, (S.tasks l).length ≤ sched.count l

theorem pc_step {L} (S : Sys V L) (s : St V L) (k l : Fin L)
    (h : s.pc l ≤ (S.tasks l).length) :
    (S.step s k).pc l = min (S.tasks l).length (s.pc l + if k = l then 1 else 0) := by
  unfold Sys.step
  cases hst : (S.tasks k)[s.pc k]? with
  | none =>
    by_cases hkl : k = l
    · subst hkl
      have := List.getElem?_eq_none_iff.mp hst
      simp only [if_true]; omega
    · simp only [hkl, if_false]; omega
  | some st =>
    by_cases hkl : k = l
    · subst hkl
      have : s.pc k < (S.tasks k).length := by
        rcases Nat.lt_or_ge (s.pc k) (S.tasks k).length with h' | h'
        · exact h'
        · simp [List.getElem?_eq_none h'] at hst
      simp only [if_true]; omega
    · have hlk : ¬ l = k := fun e => hkl e.symm
      simp only [hkl, hlk, if_false]; omega

theorem pc_exec {L} (S : Sys V L) (s : St V L) (sched : List (Fin L)) (l : Fin L)
    (h : s.pc l ≤ (S.tasks l).length) :
    (S.exec s sched).pc l = min (S.tasks l).length (s.pc l + sched.count l) := by
  induction sched generalizing s with
  | nil => simp [Sys.exec]; omega
  | cons k ks ih =>
    have h1 := pc_step S s k l h
    have h2 : (S.step s k).pc l ≤ (S.tasks l).length := by rw [h1]; exact Nat.min_le_left _ _
    simp only [Sys.exec]
    rw [ih _ h2, h1, List.count_cons]
    by_cases hkl : k = l
    · subst hkl; simp only [if_true, beq_self_eq_true]; omega
    · have : (k == l) = false := by simpa using hkl
      simp only [hkl, this, if_false]; simp; omega

theorem pc_complete {L} (S : Sys V L) (m0 : Mem V) (sched : List (Fin L))
    (hc : S.Complete sched) (l : Fin L) :
    (S.exec ⟨fun _ => 0, m0⟩ sched).pc l = (S.tasks l).length := by
  rw [pc_exec S _ sched l (Nat.zero_le _)]
  have := hc l
  simp only []; omega

theorem solo_full {L} (S : Sys V L) (l : Fin L) (m0 : Mem V) :
    solo S l (S.tasks l).length m0 = runList (S.tasks l) m0 := by
  unfold solo; rw [List.take_length]

/-- After a complete schedule, region `l` holds the result of task `l` run alone from the
initial memory. -/
theorem complete_region {L} (S : Sys V L) (m0 : Mem V) (sched : List (Fin L))
    (hc : S.Complete sched) (l : Fin L) (i : Nat) (hi : S.R l i) :
    (S.exec ⟨fun _ => 0, m0⟩ sched).mem i = runList (S.tasks l) m0 i := by
  rw [schedule_independent S m0 sched l i hi, pc_complete S m0 sched hc, solo_full]

/-- A cell is either untouched or belongs to some task's region. -/
theorem frame_step {L} (S : Sys V L) (s : St V L) (k : Fin L) (i : Nat) :
    (S.step s k).mem i = s.mem i ∨ ∃ l, S.R l i := by
  unfold Sys.step
  cases hst : (S.tasks k)[s.pc k]? with
  | none => exact Or.inl rfl
  | some st =>
    have hmem : st ∈ S.tasks k := List.mem_of_getElem? hst
    by_cases hiw : i = st.w
    · exact Or.inr ⟨k, hiw ▸ (S.loc k st hmem).1⟩
    · left; simp [Step.run, hiw]

theorem frame_exec {L} (S : Sys V L) (s : St V L) (sched : List (Fin L)) (i : Nat) :
    (S.exec s sched).mem i = s.mem i ∨ ∃ l, S.R l i := by
  induction sched generalizing s with
  | nil => exact Or.inl rfl
  | cons k ks ih =>
    rcases ih (S.step s k) with h | h
    · rcases frame_step S s k i with h' | h'
      · left; simp only [Sys.exec]; rw [h, h']
      · exact Or.inr h'
    · exact Or.inr h

/-- **Two complete schedules produce the same memory** (every cell, not only the regions). -/
theorem complete_schedules_agree {L} (S : Sys V L) (m0 : Mem V) (sched sched' : List (Fin L))
    (hc : S.Complete sched) (hc' : S.Complete sched') (i : Nat) :
    (S.exec ⟨fun _ => 0, m0⟩ sched).mem i = (S.exec ⟨fun _ => 0, m0⟩ sched').mem i := by
  have key : ∀ l, S.R l i →
      (S.exec ⟨fun _ => 0, m0⟩ sched).mem i = (S.exec ⟨fun _ => 0, m0⟩ sched').mem i := by
    intro l hl
    rw [complete_region S m0 sched hc l i hl, complete_region S m0 sched' hc' l i hl]
  rcases frame_exec S ⟨fun _ => 0, m0⟩ sched i with h | ⟨l, hl⟩
  · rcases frame_exec S ⟨fun _ => 0, m0⟩ sched' i with h' | ⟨l, hl⟩
    · rw [h, h']
    · exact key l hl
  · exact key l hl

/-! ### the sequential schedule -/

/-- Run the tasks of `order` one after the other, each to its end. -/
def Sys.seqRun {L} (S : Sys V L) (order : List (Fin L)) (m : Mem V) : Mem V :=
  order.foldl (fun m l => runList (S.tasks l) m) m

/-- The schedule that does so. -/
def Sys.seqSched {L} (S : Sys V L) (order : List (Fin L)) : List (Fin L) :=
  order.flatMap (fun l => List.replicate (S.tasks l).length l)

theorem exec_append {L} (S : Sys V L) (s : St V L) (a b : List (Fin L)) :
    S.exec s (a ++ b) = S.exec (S.exec s a) b := by
  induction a generalizing s with
  | nil => rfl
  | cons x xs ih => simp [Sys.exec, ih]

theorem exec_replicate {L} (S : Sys V L) (l : Fin L) (j : Nat) (s : St V L)
    (h : s.pc l + j ≤ (S.tasks l).length) :
    (S.exec s (List.replicate j l)).mem = runList (((S.tasks l).drop (s.pc l)).take j) s.mem ∧
    ∀ k, (S.exec s (List.replicate j l)).pc k = if k = l then s.pc l + j else s.pc k := by
  induction j generalizing s with
  | zero => simp [Sys.exec, runList]
  | succ j ih =>
    have hlt : s.pc l < (S.tasks l).length := by omega
    have hst : (S.tasks l)[s.pc l]? = some (S.tasks l)[s.pc l] := List.getElem?_eq_getElem hlt
    have hstep : S.step s l = { pc := fun k => if k = l then s.pc l + 1 else s.pc k,
                                mem := ((S.tasks l)[s.pc l]).run s.mem } := by
      unfold Sys.step; rw [hst]
    simp only [List.replicate_succ, Sys.exec]
    rw [hstep]
    have := ih { pc := fun k => if k = l then s.pc l + 1 else s.pc k,
                 mem := ((S.tasks l)[s.pc l]).run s.mem } (by simp only [if_true]; omega)
    obtain ⟨h1, h2⟩ := this
    constructor
    · rw [h1]
      simp only [if_true]
      rw [List.drop_eq_getElem_cons hlt, List.take_succ_cons]
      rfl
    · intro k
      rw [h2 k]
      by_cases hk : k = l
      · simp only [hk, if_true]; omega
      · simp only [hk, if_false]

theorem exec_seqSched {L} (S : Sys V L) (order : List (Fin L)) (s : St V L)
    (hnd : order.Nodup) (h0 : ∀ l ∈ order, s.pc l = 0) :
    (S.exec s (S.seqSched order)).mem = S.seqRun order s.mem := by
  induction order generalizing s with
  | nil => rfl
  | cons l ls ih =>
    have hl0 : s.pc l = 0 := h0 l (List.mem_cons_self ..)
    obtain ⟨h1, h2⟩ := exec_replicate S l (S.tasks l).length s (by omega)
    simp only [Sys.seqSched, List.flatMap_cons, exec_append, Sys.seqRun, List.foldl_cons]
    have hnd' := List.nodup_cons.mp hnd
    have := ih (S.exec s (List.replicate (S.tasks l).length l)) hnd'.2 (by
      intro k hk
      rw [h2 k]
      have hne : k ≠ l := fun e => hnd'.1 (e ▸ hk)
      simp only [hne, if_false]
      exact h0 k (List.mem_cons_of_mem _ hk))
    simp only [Sys.seqSched, Sys.seqRun] at this
    rw [this, h1, hl0, List.drop_zero, List.take_length]

theorem count_seqSched {L} (S : Sys V L) (order : List (Fin L)) (l : Fin L) (hl : l ∈ order) :
    (S.tasks l).length ≤ (S.seqSched order).count l := by
  induction order with
  | nil => cases hl
  | cons k ks ih =>
    simp only [Sys.seqSched, List.flatMap_cons, List.count_append]
    rcases List.mem_cons.mp hl with rfl | h
    · simp
    · have := ih h
      simp only [Sys.seqSched] at this
      omega

theorem seqSched_complete {L} (S : Sys V L) : S.Complete (S.seqSched (List.finRange L)) :=
  fun l => count_seqSched S _ l (List.mem_finRange l)

/-- **Every complete schedule computes what the tasks compute when run one after the other**
(`lane = 0, 1, …`, the order of the sequential model). -/
theorem complete_eq_sequential {L} (S : Sys V L) (m0 : Mem V) (sched : List (Fin L))
    (hc : S.Complete sched) (i : Nat) :
    (S.exec ⟨fun _ => 0, m0⟩ sched).mem i = S.seqRun (List.finRange L) m0 i := by
  rw [complete_schedules_agree S m0 sched _ hc (seqSched_complete S) i,
    exec_seqSched S (List.finRange L) ⟨fun _ => 0, m0⟩ (List.nodup_finRange L) (fun _ _ => rfl)]

/-! ### several phases, each closed by a barrier -/

/-- Phases run one after the other; phase `p` runs under the schedule `p.2`. -/
def parFill {L} (ps : List (Sys V L × List (Fin L))) (m0 : Mem V) : Mem V :=
  ps.foldl (fun m p => (p.1.exec ⟨fun _ => 0, m⟩ p.2).mem) m0

/-- The same phases, every one run sequentially (`lane = 0, 1, …`). -/
def seqFill {L} (Ss : List (Sys V L)) (m0 : Mem V) : Mem V :=
  Ss.foldl (fun m S => S.seqRun (List.finRange L) m) m0

theorem parFill_eq_seqFill {L} (ps : List (Sys V L × List (Fin L)))
    (hc : ∀ p ∈ ps, p.1.Complete p.2) (m0 : Mem V) :
    parFill ps m0 = seqFill (ps.map Prod.fst) m0 := by
  induction ps generalizing m0 with
  | nil => rfl
  | cons p ps ih =>
    have hp : (p.1.exec ⟨fun _ => 0, m0⟩ p.2).mem = p.1.seqRun (List.finRange L) m0 :=
      funext (complete_eq_sequential p.1 m0 p.2 (hc p (List.mem_cons_self ..)))
    simp only [parFill, seqFill, List.foldl_cons, List.map_cons]
    rw [hp]
    exact ih (fun q hq => hc q (List.mem_cons_of_mem _ hq)) _

/-! ## C. one phase of the Argon2 fill as a system of lane tasks -/

section Instantiation
variable {V : Type}

/-- `offset` of block (`lane`, `slice`, `index`): `lane*lanes + slice*segments + index`. -/
def offsetOf (lanes segments slice lane index : Nat) : Nat :=
  lane * lanes + slice * segments + index

/-- `prev` of the Go loop: `offset - 1`, and the LAST block of the same lane when
`index = 0 ∧ slice = 0`. -/
def prevOf (lanes segments slice lane index : Nat) : Nat :=
  if index = 0 ∧ slice = 0 then offsetOf lanes segments slice lane index + lanes - 1
  else offsetOf lanes segments slice lane index - 1

/-- First `index` of the segment loop (`2` in the very first segment of a lane). -/
def startIndex (n slice : Nat) : Nat := if n = 0 ∧ slice = 0 then 2 else 0

/-- Lane `l`'s current segment: the cells the goroutine of lane `l` writes in phase `(n, slice)`. -/
def curSeg (lanes segments slice l : Nat) (i : Nat) : Prop :=
  i / lanes = l ∧ i % lanes / segments = slice

/-- Frozen area: the cells that are in no lane's current segment (every other slice). -/
def frozenArea (lanes segments slice : Nat) (i : Nat) : Prop :=
  i % lanes / segments ≠ slice

/-- One iteration of the `for index < segments` loop of `processSegment`, as a step:
it WRITES `B[offset]` and READS `B[offset]` (XOR variant), `B[prev]` and `B[newOffset]` where
`newOffset = indexAlpha(random, …)`.  `G out prev ref` is `processBlock`/`processBlockXOR`;
`rnd lane index B[prev]` is the address source (`addresses[index % 128]` in the data-independent
modes, `B[prev][0]` otherwise) — both are parameters: only WHICH cells are touched matters. -/
def argon2Step (lanes segments threads : Nat) (G : V → V → V → V) (rnd : Nat → Nat → V → Nat)
    (n slice lane index : Nat) : Step V where
  w := offsetOf lanes segments slice lane index
  f := fun m =>
    G (m (offsetOf lanes segments slice lane index))
      (m (prevOf lanes segments slice lane index))
      (m (indexAlpha (rnd lane index (m (prevOf lanes segments slice lane index)))
            lanes segments threads n slice lane index))

/-- The goroutine of lane `lane` in phase `(n, slice)`. -/
def argon2Tasks (lanes segments threads : Nat) (G : V → V → V → V) (rnd : Nat → Nat → V → Nat)
    (n slice lane : Nat) : List (Step V) :=
  (List.range' (startIndex n slice) (segments - startIndex n slice)).map
    (argon2Step lanes segments threads G rnd n slice lane)

variable {lanes segments threads : Nat}

theorem offsetOf_loc (geo : Geom lanes segments threads) (slice lane index : Nat)
    (hslice : slice < 4) (hidx : index < segments) :
    offsetOf lanes segments slice lane index / lanes = lane ∧
    offsetOf lanes segments slice lane index % lanes = slice * segments + index ∧
    (slice * segments + index) / segments = slice ∧ (slice * segments + index) % segments = index := by
  have hy : slice * segments + index < lanes := by
    have := geo.lanes_eq
    have hsl : slice = 0 ∨ slice = 1 ∨ slice = 2 ∨ slice = 3 := by omega
    rcases hsl with rfl | rfl | rfl | rfl <;> omega
  have h1 := div_mod_of_eq lane lanes (slice * segments + index) hy
  have h2 := div_mod_of_eq slice segments index hidx
  unfold offsetOf
  rw [Nat.add_assoc]
  exact ⟨h1.1, h1.2, h2.1, h2.2⟩

theorem prevOf_lane (geo : Geom lanes segments threads) (slice lane index : Nat)
    (hslice : slice < 4) (hidx : index < segments) :
    prevOf lanes segments slice lane index / lanes = lane ∧
    prevOf lanes segments slice lane index < (lane + 1) * lanes := by
  have hl := geo.lanes_eq
  have hs := geo.seg
  have key : ∃ y, y < lanes ∧ prevOf lanes segments slice lane index = lane * lanes + y := by
    unfold prevOf offsetOf
    have hsl : slice = 0 ∨ slice = 1 ∨ slice = 2 ∨ slice = 3 := by omega
    by_cases hi : index = 0
    · rcases hsl with rfl | rfl | rfl | rfl
      · exact ⟨lanes - 1, by omega, by simp [hi]; omega⟩
      · exact ⟨1 * segments - 1, by omega, by simp [hi]; omega⟩
      · exact ⟨2 * segments - 1, by omega, by simp [hi]; omega⟩
      · exact ⟨3 * segments - 1, by omega, by simp [hi]; omega⟩
    · refine ⟨slice * segments + index - 1, ?_, ?_⟩
      · rcases hsl with rfl | rfl | rfl | rfl <;> omega
      · rw [if_neg (fun h => hi h.1)]
        generalize slice * segments = a
        generalize lane * lanes = b
        omega
  obtain ⟨y, hy, he⟩ := key
  rw [he, Nat.add_mul, Nat.one_mul]
  exact ⟨(div_mod_of_eq lane lanes y hy).1, by omega⟩

/-- The `uint32` computation of `prev` in the Go code / the sequential model
(`prev := offset - 1; if index == 0 && slice == 0 { prev += lanes }`, both wrapping) yields
`prevOf`. -/
theorem prevOf_u32 (geo : Geom lanes segments threads) (slice lane index : Nat)
    (hslice : slice < 4) (hlane : lane < threads) (hidx : index < segments) :
    (if index = 0 ∧ slice = 0
      then ((offsetOf lanes segments slice lane index + 4294967296 - 1) % 4294967296 + lanes)
            % 4294967296
      else (offsetOf lanes segments slice lane index + 4294967296 - 1) % 4294967296)
    = prevOf lanes segments slice lane index := by
  have hl := geo.lanes_eq
  have hs := geo.seg
  have hm := geo.mem
  have hle : (lane + 1) * lanes ≤ threads * lanes := Nat.mul_le_mul_right _ hlane
  rw [Nat.add_mul, Nat.one_mul] at hle
  unfold prevOf offsetOf
  have hsl : slice = 0 ∨ slice = 1 ∨ slice = 2 ∨ slice = 3 := by omega
  generalize lane * lanes = b at *
  by_cases hc : index = 0 ∧ slice = 0
  · rw [if_pos hc, if_pos hc]
    obtain ⟨rfl, rfl⟩ := hc
    omega
  · rw [if_neg hc, if_neg hc]
    rcases hsl with rfl | rfl | rfl | rfl <;> omega

/-- A cell of lane `l` is in lane `l`'s current segment or frozen. -/
theorem own_lane (slice l a : Nat) (h : a / lanes = l) :
    curSeg lanes segments slice l a ∨ frozenArea lanes segments slice a := by
  by_cases h' : a % lanes / segments = slice
  · exact Or.inl ⟨h, h'⟩
  · exact Or.inr h'

/-- **Locality of one step**, from the reference-set theorem: the step writes inside its lane's
current segment; `prev` and `newOffset` are never in ANOTHER lane's current segment (they are in
the own segment or in the frozen area). -/
theorem argon2_step_local (geo : Geom lanes segments threads) (G : V → V → V → V)
    (rnd : Nat → Nat → V → Nat) (n slice lane index : Nat)
    (hslice : slice < 4) (hlane : lane < threads) (hidx : index < segments)
    (h0 : n = 0 ∧ slice = 0 → 2 ≤ index) :
    Local (curSeg lanes segments slice lane) (frozenArea lanes segments slice)
      (argon2Step lanes segments threads G rnd n slice lane index) := by
  obtain ⟨o1, o2, o3, -⟩ := offsetOf_loc geo slice lane index hslice hidx
  have hw : curSeg lanes segments slice lane (offsetOf lanes segments slice lane index) :=
    ⟨o1, by rw [o2, o3]⟩
  refine ⟨hw, ?_⟩
  intro m m' hag
  have hprev : m (prevOf lanes segments slice lane index) = m' (prevOf lanes segments slice lane index) :=
    hag _ (own_lane slice lane _ (prevOf_lane geo slice lane index hslice hidx).1)
  have hoff := hag _ (Or.inl hw)
  simp only [argon2Step]
  rw [hprev, hoff]
  generalize rnd lane index (m' (prevOf lanes segments slice lane index)) = rand
  obtain ⟨-, -, hx, -⟩ := refset geo rand n slice lane index hslice hlane hidx h0
  have href : m (indexAlpha rand lanes segments threads n slice lane index)
      = m' (indexAlpha rand lanes segments threads n slice lane index) := by
    apply hag
    by_cases hl : indexAlpha rand lanes segments threads n slice lane index / lanes = lane
    · exact own_lane slice lane _ hl
    · exact Or.inr (hx hl).1
  rw [href]

/-- Every access of a step is inside the memory `B[0 .. threads*lanes)`. -/
theorem argon2_step_in_bounds (geo : Geom lanes segments threads)
    (rand n slice lane index : Nat)
    (hslice : slice < 4) (hlane : lane < threads) (hidx : index < segments)
    (h0 : n = 0 ∧ slice = 0 → 2 ≤ index) :
    offsetOf lanes segments slice lane index < threads * lanes ∧
    prevOf lanes segments slice lane index < threads * lanes ∧
    indexAlpha rand lanes segments threads n slice lane index < threads * lanes := by
  have hle : (lane + 1) * lanes ≤ threads * lanes := Nat.mul_le_mul_right _ hlane
  obtain ⟨o1, o2, -, -⟩ := offsetOf_loc geo slice lane index hslice hidx
  have hpos : 0 < lanes := by have := geo.lanes_eq; have := geo.seg; omega
  refine ⟨?_, Nat.lt_of_lt_of_le (prevOf_lane geo slice lane index hslice hidx).2 hle,
    (refset geo rand n slice lane index hslice hlane hidx h0).1⟩
  have h1 := Nat.div_add_mod (offsetOf lanes segments slice lane index) lanes
  have h2 := Nat.mod_lt (offsetOf lanes segments slice lane index) hpos
  rw [o1] at h1
  rw [Nat.add_mul, Nat.one_mul, Nat.mul_comm] at hle
  omega

/-- **`argon2_phase_local`**: every step of the goroutine of lane `l` in phase `(n, slice)` is
local to (current segment of `l`) ∪ (frozen area). -/
theorem argon2_phase_local (geo : Geom lanes segments threads) (G : V → V → V → V)
    (rnd : Nat → Nat → V → Nat) (n : Nat) (slice : Fin 4) (l : Fin threads) :
    ∀ st ∈ argon2Tasks lanes segments threads G rnd n slice.val l.val,
      Local (curSeg lanes segments slice.val l.val) (frozenArea lanes segments slice.val) st := by
  intro st hst
  unfold argon2Tasks at hst
  obtain ⟨index, hi, rfl⟩ := List.mem_map.mp hst
  have hr := List.mem_range'_1.mp hi
  have hs := geo.seg
  have hidx : index < segments := by
    have : startIndex n slice.val ≤ 2 := by unfold startIndex; split <;> omega
    omega
  have h0 : n = 0 ∧ slice.val = 0 → 2 ≤ index := by
    intro h
    have : startIndex n slice.val = 2 := by unfold startIndex; rw [if_pos h]
    omega
  exact argon2_step_local geo G rnd n slice.val l.val index slice.isLt l.isLt hidx h0

/-- Phase `(n, slice)` of the fill: `threads` goroutines, one per lane. -/
def argon2Phase (geo : Geom lanes segments threads) (G : V → V → V → V)
    (rnd : Nat → Nat → V → Nat) (n : Nat) (slice : Fin 4) : Sys V threads where
  tasks l := argon2Tasks lanes segments threads G rnd n slice.val l.val
  R l := curSeg lanes segments slice.val l.val
  F := frozenArea lanes segments slice.val
  disj := fun _ _ _ h h' => Fin.ext (h.1.symm.trans h'.1)
  frozen := fun _ _ h hF => hF h.2
  loc := argon2_phase_local geo G rnd n slice

/-- **One phase is schedule independent**: whatever interleaving of the lane goroutines the Go
scheduler picks, once all of them have finished (`wg.Wait()`), the memory is the one obtained by
running the lanes one after the other (`lane = 0, 1, …` — the sequential model's order). -/
theorem argon2_phase_schedule_independent (geo : Geom lanes segments threads)
    (G : V → V → V → V) (rnd : Nat → Nat → V → Nat) (n : Nat) (slice : Fin 4) (m0 : Mem V)
    (sched : List (Fin threads)) (hc : (argon2Phase geo G rnd n slice).Complete sched) (i : Nat) :
    ((argon2Phase geo G rnd n slice).exec ⟨fun _ => 0, m0⟩ sched).mem i
      = (argon2Phase geo G rnd n slice).seqRun (List.finRange threads) m0 i :=
  complete_eq_sequential _ m0 sched hc i

/-- All phases of a fill with `time` passes, in program order: pass `n`, slice `0..3`. -/
def argon2Phases (geo : Geom lanes segments threads) (G : V → V → V → V)
    (rnd : Nat → Nat → Nat → Nat → V → Nat) (time : Nat) : List (Sys V threads) :=
  (List.range time).flatMap fun n =>
    (List.finRange 4).map fun s => argon2Phase geo G (rnd n s.val) n s

/-- **The whole fill is schedule independent.**  Give every phase an arbitrary complete schedule
(`scheds`): the memory after the last phase equals the sequential fill
(pass, slice, lane, index — the order of `Model/Kdf/Argon2.lean`). -/
theorem argon2_fill_schedule_independent (geo : Geom lanes segments threads)
    (G : V → V → V → V) (rnd : Nat → Nat → Nat → Nat → V → Nat) (time : Nat)
    (scheds : List (List (Fin threads)))
    (hlen : scheds.length = (argon2Phases geo G rnd time).length)
    (hc : ∀ p ∈ (argon2Phases geo G rnd time).zip scheds, p.1.Complete p.2) (m0 : Mem V) :
    parFill ((argon2Phases geo G rnd time).zip scheds) m0
      = seqFill (argon2Phases geo G rnd time) m0 := by
  rw [parFill_eq_seqFill _ hc, List.map_fst_zip (by omega)]

end Instantiation

end GoCrypt.Argon2Sched
