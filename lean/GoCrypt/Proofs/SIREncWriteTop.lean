import GoCrypt.Proofs.SIREncWrite

/-!
# Stream IR of `hash/base64le`: `(*encoder).Write` — after the leading loop, and the whole function

Helper lemmas only; the property theorems are in `Props/SIREncoder.lean`.
-/

namespace GoCrypt.SIR
open GoCrypt.B64IR (Buf Heap Slice Res sliceBytes writeList padInt decodeMapBytes encVal)
open GoCrypt.Base64LE GoCrypt.Stream GoCrypt.Gen.base64leStream GoCrypt.Gen.base64le

/-! ## The leading fringe after its loop -/

/-- `n += i; p = p[i:]; if e.nbuf < 3 { return }` with the buffer still short. -/
theorem leadRest_short (c : Ctx) (L : EncLayout) (H : Heap) (O : List Obj) (X : List Ext) (bp plen t nb : Nat) (v5 v6 : Val)
    (hobj : O[L.d]? = some (encoderObj L.ae L.k L.bb L.bo none nb)) (hnb : nb < 3) (ht : t ≤ plen) (hsz : plen < 2 ^ 62) :
    exec c wLeadRest ⟨H, O, X⟩ [.ptr L.d, .slice ⟨bp, 0, plen, plen⟩, .int 0, .err none, .int t, v5, v6] =
      .ret ⟨H, O, X⟩ [.int t, .err none] := by
  simp only [encoderObj] at hobj
  simp only [wLeadRest, wLeadBlock, wLead, Stmt.iteThen, Stmt.head, Stmt.drop, encoderWriteIR]
  b64_simp [hobj, Int.zero_add]

set_option maxHeartbeats 1000000 in
/-- … with the buffer full: encode the three bytes, hand the four symbols to the writer. -/
theorem leadRest_full (n' : Nat) (hlib : EncLibSpec lib) (L : EncLayout) (e : Encoding) (st : EncSt) (herr : st.err = none)
    (H : Heap) (O : List Obj) (X : List Ext) (B1 Ob : Buf) (bp plen t : Nat) (v5 v6 : Val)
    (henc : EncAt H O L.ae L.b1 L.b2 e)
    (hobj : O[L.d]? = some (encoderObj L.ae L.k L.bb L.bo none 3))
    (hwr : X[L.k]? = some (writerOf st))
    (hB : H[L.bb]? = some B1) (hBs : B1.size = 3) (hOb : H[L.bo]? = some Ob) (hObs : Ob.size = 1024)
    (hne1 : L.bb ≠ L.bo) (hne6 : L.d ≠ L.ae) (ht : t ≤ plen) (hsz : plen < 2 ^ 62) :
    exec { call := callIn program lib (n' + 1) } wLeadRest ⟨H, O, X⟩
        [.ptr L.d, .slice ⟨bp, 0, plen, plen⟩, .int 0, .err none, .int t, v5, v6] =
      if (st.wWrite (encode e B1.toList)).err.isSome then
        .ret ⟨H.set L.bo (writeAt Ob 0 (encode e B1.toList)),
            O.set L.d (encoderObj L.ae L.k L.bb L.bo (st.wWrite (encode e B1.toList)).err 3),
            X.set L.k (writerOf (st.wWrite (encode e B1.toList)))⟩
          [.int t, .err (st.wWrite (encode e B1.toList)).err]
      else
        .norm ⟨H.set L.bo (writeAt Ob 0 (encode e B1.toList)), O.set L.d (encoderObj L.ae L.k L.bb L.bo none 0),
            X.set L.k (writerOf (st.wWrite (encode e B1.toList)))⟩
          [.ptr L.d, .slice ⟨bp, t, plen - t, plen - t⟩, .int t, .err none, .int t, v5, v6] := by
  have hdl : L.d < O.length := lt_of_getElem? hobj
  have hbol : L.bo < H.length := lt_of_getElem? hOb
  have hae := henc.obj
  have hE := hlib.encode e H O X L.ae L.b1 L.b2 henc L.bo L.bb Ob B1 0 3 3 hOb hB (Ne.symm hne1) (by omega)
    (by rw [hObs, encodedLen_mul3 e 3 rfl]; omega) (by omega)
  rw [hObs] at hE
  have hfull : (B1.toList.drop 0).take 3 = B1.toList := by
    rw [List.drop_zero]; apply List.take_of_length_le; simp [hBs]
  rw [hfull] at hE
  have hlen : (encode e B1.toList).length = 4 := by
    rw [Base64LE.encode_length_eq, Array.length_toList, hBs, encodedLen_mul3 e 3 rfl]
  have hsb : sliceBytes (H.set L.bo (writeAt Ob 0 (encode e B1.toList))) ⟨L.bo, 0, 4, 1024⟩ = some (encode e B1.toList) := by
    have := sliceBytes_written H L.bo Ob (encode e B1.toList) 1024 hbol (by omega)
    rw [hlen] at this; exact this
  have hW := extWrite_eq_wWrite st herr (H.set L.bo (writeAt Ob 0 (encode e B1.toList))) O X L.k _ _ hwr hsb
  have hcE : ∀ W vals, callIn program lib (n' + 1) "Encoding.Encode" W vals = lib "Encoding.Encode" W vals :=
    fun W vals => callIn_lib program lib n' _ W vals lookup_Encode
  simp only [encoderObj] at hobj
  simp only [wLeadRest, wLeadBlock, wLead, Stmt.iteThen, Stmt.head, Stmt.drop, encoderWriteIR]
  cases hres : (st.wWrite (encode e B1.toList)).err with
  | none =>
    rw [hres] at hW
    b64_simp [hobj, hcE, hE, hW, hae, encObj, Option.isNone_none, Nat.sub_zero, Int.sub_zero, Option.isSome_none, Int.zero_add]
    simp only [encoderObj]
    rfl
  | some cerr =>
    rw [hres] at hW
    b64_simp [hobj, hcE, hE, hW, hae, encObj, Option.isNone_some, Nat.sub_zero, Int.sub_zero, Option.isSome_some, Int.zero_add]
    simp only [encoderObj]
    rfl

end GoCrypt.SIR

namespace GoCrypt.SIR
open GoCrypt.B64IR (Buf Heap Slice Res sliceBytes writeList padInt decodeMapBytes encVal)
open GoCrypt.Base64LE GoCrypt.Stream GoCrypt.Gen.base64leStream GoCrypt.Gen.base64le

/-! ## The whole function -/

theorem wWrite_setBuf (st : EncSt) (b d : Bytes) : ({ st with buf := b }).wWrite d = { (st.wWrite d) with buf := b } := by
  obtain ⟨err, buf, writes, script⟩ := st
  cases script with
  | nil => rfl
  | cons r rest =>
    cases r with
    | none => rfl
    | some ek => rfl

/-- The buffer of `e.buf` after the leading loop: the old `m` bytes, then `t` bytes of `p`. -/
theorem leadBuf_toList (B : Buf) (m t : Nat) (buf ptake : Bytes) (hBs : B.size = 3) (hBt : B.toList.take m = buf)
    (hm : buf.length = m) (hpt : ptake.length = t) (hmt : m + t ≤ 3) :
    (writeList B m ptake).toList.take (m + t) = buf ++ ptake := by
  rw [B64IR.writeList_eq_writeAt, writeAt_toList _ _ _ (by omega), hBt, ← List.append_assoc,
    List.take_append_of_le_length (by simp; omega)]
  apply List.take_of_length_le; simp; omega

set_option maxHeartbeats 2000000 in
theorem write_proc (n' : Nat) (hlib : EncLibSpec lib) (L : EncLayout) (e : Encoding) (st : EncSt) (H : Heap) (O : List Obj)
    (X : List Ext) (hrep : EncRep L e st H O X) (hlt : st.err = none → st.buf.length < 3) (P : Buf) (bp : Nat)
    (hP : H[bp]? = some P) (hnb : L.bb ≠ bp) (hno : L.bo ≠ bp) (hPz : P.size < 2 ^ 61) :
    WriteOK L e H O X (encWrite e st P.toList)
      (execProc { call := callIn program lib (n' + 1) } encoderWriteIR ⟨H, O, X⟩ [.ptr L.d, .slice ⟨bp, 0, P.size, P.size⟩]) := by
  obtain ⟨B, hB, hBs, hBt⟩ := hrep.buf
  obtain ⟨Ob, hOb, hObs⟩ := hrep.out
  have hobj := hrep.obj
  have hdl : L.d < O.length := lt_of_getElem? hobj
  have hbl : L.bb < H.length := lt_of_getElem? hB
  have hbol : L.bo < H.length := lt_of_getElem? hOb
  have hkl : L.k < X.length := lt_of_getElem? hrep.wr
  rw [execProc_eq _ _ _ _ rfl, exec_take_drop _ _ _ 3]
  show WriteOK L e H O X _ (procResult ((exec _ wPre ⟨H, O, X⟩
    ([.ptr L.d, .slice ⟨bp, 0, P.size, P.size⟩] ++ List.replicate 5 .undef)).andThen (exec _ (encoderWriteIR.body.drop 3))))
  cases herr : st.err with
  | some cerr =>
    have hpre : exec { call := callIn program lib (n' + 1) } wPre ⟨H, O, X⟩
        ([.ptr L.d, .slice ⟨bp, 0, P.size, P.size⟩] ++ List.replicate 5 .undef) = .ret ⟨H, O, X⟩ [.int 0, .err (some cerr)] := by
      rw [herr] at hobj
      simp only [encoderObj] at hobj
      simp only [wPre, Stmt.take, encoderWriteIR]
      b64_simp [hobj, Option.isNone_some]
    rw [hpre, procResult_andThen_ret, encWrite_of_err e st _ (by simp [herr])]
    refine ⟨H, O, ?_, ?_, fun _ _ _ => rfl, fun _ _ => rfl, rfl, rfl⟩
    · rw [list_set_self X L.k _ hrep.wr, herr]; rfl
    · rw [list_set_self X L.k _ hrep.wr]; exact hrep
  | none =>
    have hm3 := hlt herr
    rw [herr] at hobj
    have hpre : exec { call := callIn program lib (n' + 1) } wPre ⟨H, O, X⟩
        ([.ptr L.d, .slice ⟨bp, 0, P.size, P.size⟩] ++ List.replicate 5 .undef) =
        .norm ⟨H, O, X⟩ [.ptr L.d, .slice ⟨bp, 0, P.size, P.size⟩, .int 0, .err none, .undef, .undef, .undef] := by
      have hobj' := hobj
      simp only [encoderObj] at hobj'
      simp only [wPre, Stmt.take, encoderWriteIR]
      b64_simp [hobj', Option.isNone_none]
    rw [hpre, andThen_norm, wBody_split, exec_seq, wLead_eq, exec_ite]
    have hcond : (eval ⟨H, O, X⟩ [.ptr L.d, .slice ⟨bp, 0, P.size, P.size⟩, .int 0, .err none, .undef, .undef, .undef] wLead.iteCond >>= asBool) =
        .ok (decide (st.buf.length > 0)) := by
      have hobj' := hobj
      simp only [encoderObj] at hobj'
      simp only [wLead, Stmt.iteCond, Stmt.head, Stmt.drop, encoderWriteIR]
      b64_simp [hobj']
      exact congrArg Res.ok (by simp)
    rw [hcond, bindR_ok]
    by_cases hm : st.buf.length > 0
    · -- leading fringe
      rw [decide_eq_true hm, if_pos rfl, exec_take_drop _ _ _ 2 wLeadBlock]
      have h2 : exec { call := callIn program lib (n' + 1) } (wLeadBlock.take 2) ⟨H, O, X⟩
          [.ptr L.d, .slice ⟨bp, 0, P.size, P.size⟩, .int 0, .err none, .undef, .undef, .undef] =
          .norm (leadSt L H O X B P bp st.buf.length .undef .undef 0).1 (leadSt L H O X B P bp st.buf.length .undef .undef 0).2 := by
        simp only [leadSt, List.take_zero, writeList, B64IR.heap_set_self H L.bb B hB, Nat.add_zero, list_set_self O L.d _ hobj]
        simp only [wLeadBlock, wLead, Stmt.iteThen, Stmt.take, Stmt.head, Stmt.drop, encoderWriteIR]
        b64_simp []
      rw [h2, andThen_norm, wLeadBlock_split, exec_seq,
        leadLoop _ L H O X B P bp st.buf.length .undef .undef hdl hB hBs hP hnb hm3 (by omega), andThen_norm]
      simp only [leadSt]
      have hB1l := leadBuf_toList B st.buf.length (min P.size (3 - st.buf.length)) st.buf
        (P.toList.take (min P.size (3 - st.buf.length))) hBs hBt rfl (by simp) (by omega)
      have hB1 : (H.set L.bb (writeList B st.buf.length (P.toList.take (min P.size (3 - st.buf.length)))))[L.bb]? =
          some (writeList B st.buf.length (P.toList.take (min P.size (3 - st.buf.length)))) := List.getElem?_set_self hbl
      have hO1 : ∀ nb, (O.set L.d (encoderObj L.ae L.k L.bb L.bo none nb))[L.d]? = some (encoderObj L.ae L.k L.bb L.bo none nb) :=
        fun nb => List.getElem?_set_self hdl
      by_cases hs : st.buf.length + min P.size (3 - st.buf.length) < 3
      · -- still short
        rw [leadRest_short _ L _ _ X bp P.size _ _ .undef .undef (hO1 _) hs (by omega) (by omega), andThen_ret,
          procResult_ret, encWrite_of_short' e st _ herr hm (by simpa using hs)]
        refine ⟨H.set L.bb (writeList B st.buf.length (P.toList.take (min P.size (3 - st.buf.length)))),
          O.set L.d (encoderObj L.ae L.k L.bb L.bo none (st.buf.length + min P.size (3 - st.buf.length))), ?_, ?_, ?_, ?_, by simp, by simp⟩
        · rw [list_set_self X L.k _ (by exact hrep.wr)]; simp
        · refine hrep.update _ _ _ _ Ob ?_ ?_ ?_ hB1 (by simp [hBs]) ?_ ?_ hObs
          · intro b h1 _; exact List.getElem?_set_ne (Ne.symm h1)
          · intro a ha; exact List.getElem?_set_ne (Ne.symm ha)
          · rw [hO1]; simp [herr]
          · simp only [List.length_append, List.length_take, Array.length_toList]
            simpa using hB1l
          · rw [List.getElem?_set_ne hrep.ne1]; exact hOb
        · intro b h1 _; exact List.getElem?_set_ne (Ne.symm h1)
        · intro a ha; exact List.getElem?_set_ne (Ne.symm ha)
      · -- buffer full: encode and write it
        have hfull : st.buf.length + min P.size (3 - st.buf.length) = 3 := by omega
        have hB1full : (writeList B st.buf.length (P.toList.take (min P.size (3 - st.buf.length)))).toList =
            st.buf ++ P.toList.take (min P.size (3 - st.buf.length)) := by
          rw [← hB1l, hfull]; symm; apply List.take_of_length_le; simp [hBs]
        have henc1 : EncAt (H.set L.bb (writeList B st.buf.length (P.toList.take (min P.size (3 - st.buf.length)))))
            (O.set L.d (encoderObj L.ae L.k L.bb L.bo none (st.buf.length + min P.size (3 - st.buf.length)))) L.ae L.b1 L.b2 e :=
          hrep.enc.mono _ _ (List.getElem?_set_ne hrep.ne6) (List.getElem?_set_ne hrep.ne2) (List.getElem?_set_ne hrep.ne3)
        have hlr := leadRest_full n' hlib L e st herr _ _ X _ Ob bp P.size (min P.size (3 - st.buf.length)) .undef .undef henc1
          (by rw [hO1, hfull]) hrep.wr hB1 (by simp [hBs]) (by rw [List.getElem?_set_ne hrep.ne1]; exact hOb) hObs hrep.ne1 hrep.ne6
          (by omega) (by omega)
        rw [hlr, hB1full, encWrite_of_full' e st _ herr hm (by simpa using hs)]
        simp only [wWrite_setBuf, Array.length_toList]
        cases hres : (st.wWrite (encode e (st.buf ++ P.toList.take (min P.size (3 - st.buf.length))))).err with
        | some c2 =>
          simp only [hres, Option.isSome_some, if_true, andThen_ret, procResult_ret]
          refine ⟨(H.set L.bb (writeList B st.buf.length (P.toList.take (min P.size (3 - st.buf.length))))).set L.bo
              (writeAt Ob 0 (encode e (st.buf ++ P.toList.take (min P.size (3 - st.buf.length))))),
            (O.set L.d (encoderObj L.ae L.k L.bb L.bo none (st.buf.length + min P.size (3 - st.buf.length)))).set L.d
              (encoderObj L.ae L.k L.bb L.bo (some c2) 3), ?_, ?_, ?_, ?_, by simp, by simp⟩
          · rfl
          · refine hrep.update _ _ _ (writeList B st.buf.length (P.toList.take (min P.size (3 - st.buf.length)))) _ ?_ ?_ ?_ ?_
              (by simp [hBs]) ?_ (List.getElem?_set_self (by simpa using hbol)) (by rw [B64IR.writeAt_size]; exact hObs)
            · intro b h1 h2; rw [List.getElem?_set_ne (Ne.symm h2), List.getElem?_set_ne (Ne.symm h1)]
            · intro a ha; rw [List.getElem?_set_ne (Ne.symm ha), List.getElem?_set_ne (Ne.symm ha)]
            · rw [List.set_set, List.getElem?_set_self hdl]
              simp [hres, hfull]
            · rw [List.getElem?_set_ne (Ne.symm hrep.ne1)]; exact hB1
            · simp only [List.length_append, List.length_take, Array.length_toList]
              simpa using hB1l
          · intro b h1 h2; rw [List.getElem?_set_ne (Ne.symm h2), List.getElem?_set_ne (Ne.symm h1)]
          · intro a ha; rw [List.getElem?_set_ne (Ne.symm ha), List.getElem?_set_ne (Ne.symm ha)]
        | none =>
          simp only [hres, Option.isSome_none, Bool.false_eq_true, if_false, andThen_norm]
          rw [List.set_set]
          have htr := tail_run n' hlib L e st
            { err := none, buf := [],
              writes := (st.wWrite (encode e (st.buf ++ P.toList.take (min P.size (3 - st.buf.length))))).writes,
              script := (st.wWrite (encode e (st.buf ++ P.toList.take (min P.size (3 - st.buf.length))))).script }
            H ((H.set L.bb (writeList B st.buf.length (P.toList.take (min P.size (3 - st.buf.length))))).set L.bo
              (writeAt Ob 0 (encode e (st.buf ++ P.toList.take (min P.size (3 - st.buf.length))))))
            O (O.set L.d (encoderObj L.ae L.k L.bb L.bo none 0)) X
            (X.set L.k (writerOf (st.wWrite (encode e (st.buf ++ P.toList.take (min P.size (3 - st.buf.length)))))))
            hrep P bp (min P.size (3 - st.buf.length)) (P.size - min P.size (3 - st.buf.length)) (min P.size (3 - st.buf.length))
            (.int (min P.size (3 - st.buf.length) : Nat)) .undef .undef
            (by intro b h1 h2; rw [List.getElem?_set_ne (Ne.symm h2), List.getElem?_set_ne (Ne.symm h1)])
            (by simp)
            (by intro a ha; exact List.getElem?_set_ne (Ne.symm ha))
            (by simp) rfl (List.getElem?_set_self hdl) rfl rfl
            ⟨_, by rw [List.getElem?_set_ne (Ne.symm hrep.ne1)]; exact hB1, by simp [hBs]⟩
            ⟨_, List.getElem?_set_self (by simpa using hbol), by rw [B64IR.writeAt_size]; exact hObs⟩
            hP hnb hno (by omega) (by omega) (by omega)
          exact htr
    · -- nothing buffered
      have hb : st.buf = [] := List.eq_nil_of_length_eq_zero (by omega)
      rw [decide_eq_false hm, if_neg (by simp), exec_skip, andThen_norm, encWrite_of_nil e st _ herr hb]
      have hobj0 : O[L.d]? = some (encoderObj L.ae L.k L.bb L.bo none 0) := by rw [hobj, hb]; rfl
      exact tail_run n' hlib L e st st H H O O X X hrep P bp 0 P.size 0 .undef .undef .undef (fun _ _ _ => rfl) rfl (fun _ _ => rfl) rfl
        (list_set_self X L.k _ hrep.wr).symm hobj0 herr hb ⟨B, hB, hBs⟩ ⟨Ob, hOb, hObs⟩ hP hnb hno (by omega) (by omega) (by omega)

end GoCrypt.SIR
