import GoCrypt.Proofs.A2IRSpecs

/-!
# Block IR: specs of the byte-level procedures (`blake2bHash`, `initHash`, `initBlocks`, `extractKey`)
-/

namespace GoCrypt.A2IR
open GoCrypt.Kdf GoCrypt.Argon2Sched

/-- `blake2bHash(out, in)`: `out` is the window `[off, off+len)` of buffer `ro`; afterwards that window holds the
model's `blake2bHash len in`, everything else is unchanged (`in` is read before `out` is written, so the two may
overlap).  `len = 0` is outside the domain (`blake2b.New(0)` fails and the nil hash is used: Go panics). -/
def Blake2bHashSpec (c : Ctx) : Prop :=
  ∀ (h : Heap) (ro : Ref) (off len cap : Nat) (inV : Val) (buf inp : Bytes),
    h.get ro = some (.bytes buf) → off + cap ≤ buf.length → len ≤ cap → 1 ≤ len → len < 4294967296 →
    viewBytes h inV = .ok inp →
    c.call "blake2bHash" h [.bytes ro off len cap, inV] =
      .ok (h.set ro (.bytes (buf.take off ++ Argon2.blake2bHash len inp ++ buf.drop (off + len))), [])

/-- `initHash(password, salt, nil, nil, time, memory, threads, keyLen, mode, version)` returns the 72-byte array. -/
def InitHashSpec (c : Ctx) : Prop :=
  ∀ (h : Heap) (pwV saltV : Val) (pw salt : Bytes) (time memory threads keyLen mode version : Nat),
    viewBytes h pwV = .ok pw → viewBytes h saltV = .ok salt →
    c.call "initHash" h
        [pwV, saltV, .nilBytes, .nilBytes, .u32 time, .u32 memory, .u32 threads, .u32 keyLen, .int mode, .int version] =
      .ok (h, [.arr (Argon2.initHash pw salt time memory threads keyLen mode version)])

/-- `initBlocks(&h0, memory, threads)` on the rounded memory: allocates the memory (a new `mem` object) holding the
model's `initBlocks`; the last 8 bytes of `h0` are scratch space (left in some state `h0'`). -/
def InitBlocksSpec (c : Ctx) : Prop :=
  ∀ (h : Heap) (r0 : Ref) (h0 : Bytes) (memory threads : Nat),
    h.get r0 = some (.bytes h0) → h0.length = 72 →
    Geom (memory / threads) (memory / threads / 4) threads → memory = threads * (memory / threads) →
    ∃ h0' : Bytes,
      c.call "initBlocks" h [.parr r0, .u32 memory, .u32 threads] =
        .ok ((h.set r0 (.bytes h0')).alloc (.blocks (Argon2.initBlocks h0 memory threads)), [.blks (.mem h.mem.length)])

/-- `extractKey(B, memory, threads, keyLen)`: returns a fresh `[]byte` (a new `mem` object) holding the model's
`extractKey`; the last block of `B` is used as an accumulator (memory left in some state `B'`). -/
def ExtractKeySpec (c : Ctx) : Prop :=
  ∀ (h : Heap) (rB : Ref) (B : Array Block) (memory threads keyLen : Nat),
    h.get rB = some (.blocks B) → B.size = memory → Blocks128 B →
    Geom (memory / threads) (memory / threads / 4) threads → memory = threads * (memory / threads) →
    1 ≤ keyLen → keyLen < 4294967296 →
    ∃ B' : Array Block,
      c.call "extractKey" h [.blks rB, .u32 memory, .u32 threads, .u32 keyLen] =
        .ok ((h.set rB (.blocks B')).alloc (.bytes (Argon2.extractKey B memory threads keyLen)),
             [.bytes (.mem h.mem.length) 0 keyLen keyLen])

end GoCrypt.A2IR
