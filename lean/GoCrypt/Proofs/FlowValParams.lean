import GoCrypt.Proofs.FlowValCheck

/-!
# `Gen.<pkg>.flowParams` / `flowSalt` evaluates to `Scheme.params <pkg>`

Same script as `Proofs/FlowValCheck.lean`, without the `Key` call: case on `unmarshal ti h`, normalise
the model's `checkArgs`, run the program, compare the returned tuple (packaged by `outcomeToParams`)
with the model's record.  One script, instantiated nine times.  nthash has no `Params`/`Salt` function.
-/

set_option linter.unusedSimpArgs false

namespace GoCrypt.FlowVal
open GoCrypt GoCrypt.Scheme GoCrypt.Codec GoCrypt.Flow GoCrypt.EndToEnd GoCrypt.Codec.Shapes GoCrypt.Kdf

theorem flowSalt_eq_model_md5 (h : Bytes) (ent : Entropy) :
    outcomeToParams md5 (run (paramsPrims md5) Gen.md5.flowSalt (paramsEnv md5 h) ent) =
      some (Scheme.params md5 h) := by
  unfold params Gen.md5.flowSalt
  rw [tiOf_md5]
  rcases hu : unmarshal md5TI h with e | out
  · flow_run [hu]
    simp [outcomeToParams]
  · simp only [checkArgs, md5_name]
    all_goals
      flow_run [hu]
      simp [outcomeToParams, keyArgs, optStr, optNat, optBool, litField, md5_name]

theorem flowParams_eq_model_sha256 (h : Bytes) (ent : Entropy) :
    outcomeToParams sha256 (run (paramsPrims sha256) Gen.sha256.flowParams (paramsEnv sha256 h) ent) =
      some (Scheme.params sha256 h) := by
  unfold params Gen.sha256.flowParams
  rw [tiOf_sha256]
  rcases hu : unmarshal sha256TI h with e | out
  · flow_run [hu]
    simp [outcomeToParams]
  · simp only [checkArgs, sha256_name]
    by_cases hr : fvNat (Scheme.fieldVal sha256TI (finalVals sha256TI out) "Rounds") = 0
    all_goals
      flow_run [hu, hr]
      simp [outcomeToParams, keyArgs, optStr, optNat, optBool, litField, sha256_name, hr]

theorem flowParams_eq_model_sha512 (h : Bytes) (ent : Entropy) :
    outcomeToParams sha512 (run (paramsPrims sha512) Gen.sha512.flowParams (paramsEnv sha512 h) ent) =
      some (Scheme.params sha512 h) := by
  unfold params Gen.sha512.flowParams
  rw [tiOf_sha512]
  rcases hu : unmarshal sha512TI h with e | out
  · flow_run [hu]
    simp [outcomeToParams]
  · simp only [checkArgs, sha512_name]
    by_cases hr : fvNat (Scheme.fieldVal sha512TI (finalVals sha512TI out) "Rounds") = 0
    all_goals
      flow_run [hu, hr, implicit512]
      simp [outcomeToParams, keyArgs, optStr, optNat, optBool, litField, sha512_name, hr, implicit512]

theorem flowParams_eq_model_sha1 (h : Bytes) (ent : Entropy) :
    outcomeToParams sha1 (run (paramsPrims sha1) Gen.sha1.flowParams (paramsEnv sha1 h) ent) =
      some (Scheme.params sha1 h) := by
  unfold params Gen.sha1.flowParams
  rw [tiOf_sha1]
  rcases hu : unmarshal sha1TI h with e | out
  · flow_run [hu]
    simp [outcomeToParams]
  · simp only [checkArgs, sha1_name]
    all_goals
      flow_run [hu]
      simp [outcomeToParams, keyArgs, optStr, optNat, optBool, litField, sha1_name]

theorem flowParams_eq_model_sunmd5 (h : Bytes) (ent : Entropy) :
    outcomeToParams sunmd5 (run (paramsPrims sunmd5) Gen.sunmd5.flowParams (paramsEnv sunmd5 h) ent) =
      some (Scheme.params sunmd5 h) := by
  unfold params Gen.sunmd5.flowParams
  rw [tiOf_sunmd5]
  rcases hu : unmarshal sunmd5TI h with e | out
  · flow_run [hu]
    simp [outcomeToParams]
  · simp only [checkArgs, sunmd5_name]
    rcases hb : (Scheme.fieldVal sunmd5TI (finalVals sunmd5TI out) "Separator" == FVal.nilPtr) with _ | _
    all_goals have hr := hb
    all_goals simp only [beq_eq_false_iff_ne, beq_iff_eq, ne_eq] at hr
    all_goals
      flow_run [hu, hr, hb]
      simp [outcomeToParams, keyArgs, optStr, optNat, optBool, litField, sunmd5_name, hr, hb]

theorem flowSalt_eq_model_des (h : Bytes) (ent : Entropy) :
    outcomeToParams des (run (paramsPrims des) Gen.des.flowSalt (paramsEnv des h) ent) =
      some (Scheme.params des h) := by
  unfold params Gen.des.flowSalt
  rw [tiOf_des]
  rcases hu : unmarshal desTI h with e | out
  · flow_run [hu]
    simp [outcomeToParams]
  · simp only [checkArgs, des_name]
    all_goals
      flow_run [hu]
      simp [outcomeToParams, keyArgs, optStr, optNat, optBool, litField, des_name]

theorem flowParams_eq_model_desext (h : Bytes) (ent : Entropy) :
    outcomeToParams desext (run (paramsPrims desext) Gen.desext.flowParams (paramsEnv desext h) ent) =
      some (Scheme.params desext h) := by
  unfold params Gen.desext.flowParams
  rw [tiOf_desext]
  rcases hu : unmarshal desextTI h with e | out
  · flow_run [hu]
    simp [outcomeToParams]
  · simp only [checkArgs, desext_name]
    all_goals
      flow_run [hu, Nat.mod_eq_of_lt (desext_rounds_lt h out hu)]
      simp [outcomeToParams, keyArgs, optStr, optNat, optBool, litField, desext_name, Nat.mod_eq_of_lt (desext_rounds_lt h out hu)]

theorem flowParams_eq_model_bcrypt (h : Bytes) (ent : Entropy) :
    outcomeToParams bcrypt (run (paramsPrims bcrypt) Gen.bcrypt.flowParams (paramsEnv bcrypt h) ent) =
      some (Scheme.params bcrypt h) := by
  unfold params Gen.bcrypt.flowParams
  rw [tiOf_bcrypt]
  rcases hu : unmarshal bcryptTI h with e | out
  · flow_run [hu]
    simp [outcomeToParams]
  · simp only [checkArgs, bcrypt_name]
    all_goals
      flow_run [hu]
      simp [outcomeToParams, keyArgs, optStr, optNat, optBool, litField, bcrypt_name]

theorem flowParams_eq_model_argon2 (h : Bytes) (ent : Entropy) :
    outcomeToParams argon2 (run (paramsPrims argon2) Gen.argon2.flowParams (paramsEnv argon2 h) ent) =
      some (Scheme.params argon2 h) := by
  unfold params Gen.argon2.flowParams
  rw [tiOf_argon2]
  rcases hu : unmarshal argon2TI h with e | out
  · flow_run [hu]
    simp [outcomeToParams]
  · simp only [checkArgs, argon2_name]
    by_cases hr : fvNat (Scheme.fieldVal argon2TI (finalVals argon2TI out) "Version") = 0
    all_goals
      flow_run [hu, hr]
      simp [outcomeToParams, keyArgs, optStr, optNat, optBool, litField, argon2_name, hr]

end GoCrypt.FlowVal
