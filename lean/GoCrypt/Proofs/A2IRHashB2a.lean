import GoCrypt.Proofs.A2IRHashLemmas

/-!
# Block IR: `blake2bHash` as regenerated, part 1 — the pieces

* the model's `blake2bHash` for `len > 64` as the loop states `hV` (contents of `buffer`) / `hO` (bytes written),
* list facts about overwriting a window of a buffer (`splice`),
* `int` cast rules,
* the early-return case `len ≤ 64` (whole body),
* one iteration of the loop (`b2_step`) and the code after the loop (`b2_tail`) on an arbitrary heap.
-/

namespace GoCrypt.A2IR
open GoCrypt.Gen.argon2IR GoCrypt.Kdf

/-! ## the model, long case -/

/-- the contents of `buffer` after `k` iterations of the loop (`V_{k+1}`, from `V_1 = v`) -/
def hV (v : Bytes) : Nat → Bytes
  | 0 => v
  | k + 1 => Prim.blake2b 64 (hV v k)

/-- the bytes written to `out` after `k` iterations of the loop -/
def hO (v : Bytes) : Nat → Bytes
  | 0 => v.take 32
  | k + 1 => hO v k ++ (Prim.blake2b 64 (hV v k)).take 32

theorem hV_length (v : Bytes) (hv : v.length = 64) (k : Nat) : (hV v k).length = 64 := by
  cases k with
  | zero => exact hv
  | succ k => exact Argon2Eq.blake2b_length 64 _ (by omega)

theorem hO_length (v : Bytes) (hv : v.length = 64) (k : Nat) : (hO v k).length = 32 * (k + 1) := by
  induction k with
  | zero => simp [hO, hv]
  | succ k ih =>
    simp only [hO, List.length_append, ih, List.length_take, Argon2Eq.blake2b_length 64 _ (Nat.le_refl _)]
    omega

open Argon2Eq in
theorem hFold (v : Bytes) (l : List Nat) : ∀ (k rest : Nat), hCount rest ≤ l.length →
    l.foldl (fun s _ => hStep s) (hV v k, hO v k, rest) =
      (hV v (k + hCount rest), hO v (k + hCount rest), rest - 32 * hCount rest) := by
  induction l with
  | nil =>
    intro k rest h
    have h0 : hCount rest = 0 := by simpa using h
    simp [h0]
  | cons a l ih =>
    intro k rest h
    rw [List.foldl_cons]
    by_cases hr : rest > 64
    · have hc : hCount rest = hCount (rest - 32) + 1 := by unfold hCount; omega
      have hs : hStep (hV v k, hO v k, rest) = (hV v (k + 1), hO v (k + 1), rest - 32) := by
        simp [hStep, hr, hV, hO]
      rw [hs, ih (k + 1) (rest - 32) (by simp at h; omega), hc]
      refine Prod.ext ?_ (Prod.ext ?_ ?_)
      · show hV v _ = hV v _; congr 1; omega
      · show hO v _ = hO v _; congr 1; omega
      · show _ - _ = _ - _; omega
    · have hc : hCount rest = 0 := by unfold hCount; omega
      have hs : hStep (hV v k, hO v k, rest) = (hV v k, hO v k, rest) := by simp [hStep, hr]
      rw [hs, ih k rest (by omega), hc]

open Argon2Eq in
/-- the model's `blake2bHash` for `len > 64`, as the loop states `hV`/`hO` -/
theorem blake2bHash_long (len : Nat) (inp : Bytes) (h : 64 < len) :
    Argon2.blake2bHash len inp =
      hO (Prim.blake2b 64 (Argon2.le32 len ++ inp)) (hCount (len - 32)) ++
        Prim.blake2b (len - 32 * (hCount (len - 32) + 1))
          (hV (Prim.blake2b 64 (Argon2.le32 len ++ inp)) (hCount (len - 32))) := by
  unfold Argon2.blake2bHash
  have h2 : ¬ len ≤ Argon2.blake2bSize := by simp [Argon2.blake2bSize]; omega
  simp only [Std.Legacy.Range.forIn_eq_forIn_range', h2, if_false]
  rw [hLoop_eq]
  have hsz : [:len / 32].size = len / 32 := by simp [Std.Legacy.Range.size]
  rw [hsz]
  have := hFold (Prim.blake2b Argon2.blake2bSize (Argon2.le32 len ++ inp)) (List.range' 0 (len / 32)) 0 (len - 32)
    (by simp; unfold hCount; omega)
  simp only [hV, hO, Nat.zero_add] at this
  rw [this]
  have hlast : (if len % 64 > 0 then len - 32 * ((len + 31) / 32 - 2) else 64)
      = len - 32 * (hCount (len - 32) + 1) := by
    unfold hCount; split <;> omega
  by_cases h3 : len % 64 > 0
  · rw [if_pos h3] at hlast
    simp [Argon2.blake2bSize, h3, hlast]
  · rw [if_neg h3] at hlast
    simp [Argon2.blake2bSize, h3, ← hlast]

/-! ## overwriting a window -/

theorem splice_length (buf o : Bytes) (off m : Nat) (hm : o.length = m) (hoff : off + m ≤ buf.length) :
    (buf.take off ++ o ++ buf.drop (off + m)).length = buf.length := by
  simp only [List.length_append, List.length_take, List.length_drop, hm]
  omega

theorem splice (buf o w : Bytes) (off m : Nat) (hm : o.length = m) (hoff : off + m ≤ buf.length) :
    (buf.take off ++ o ++ buf.drop (off + m)).take (off + m) ++ w ++
        (buf.take off ++ o ++ buf.drop (off + m)).drop (off + m + w.length) =
      buf.take off ++ (o ++ w) ++ buf.drop (off + m + w.length) := by
  have hA : (buf.take off ++ o).length = off + m := by
    simp only [List.length_append, List.length_take, hm]; omega
  rw [List.take_left' hA, List.drop_append, List.drop_eq_nil_of_le (by omega), hA, List.nil_append, List.drop_drop]
  simp only [List.append_assoc]
  congr 4
  omega

/-! ## casts -/

theorem tmod_natCast_ofNat (a k : Nat) :
    Int.tmod (a : Int) (no_index (OfNat.ofNat k) : Int) = ((a % (OfNat.ofNat k : Nat) : Nat) : Int) :=
  (Int.ofNat_tmod a (OfNat.ofNat k)).symm

theorem tdiv_natCast_ofNat (a k : Nat) :
    Int.tdiv (a : Int) (no_index (OfNat.ofNat k) : Int) = ((a / (OfNat.ofNat k : Nat) : Nat) : Int) :=
  (Int.ofNat_tdiv a (OfNat.ofNat k)).symm

theorem natCast_sub_ofNat (a k : Nat) (h : (OfNat.ofNat k : Nat) ≤ a) :
    (a : Int) - (no_index (OfNat.ofNat k) : Int) = ((a - (OfNat.ofNat k : Nat) : Nat) : Int) := by
  show (a : Int) - ((OfNat.ofNat k : Nat) : Int) = _
  omega

theorem ofNat_mul_natCast (a k : Nat) :
    (no_index (OfNat.ofNat k) : Int) * (a : Int) = (((OfNat.ofNat k : Nat) * a : Nat) : Int) := by
  show ((OfNat.ofNat k : Nat) : Int) * (a : Int) = _
  rw [Int.natCast_mul]

theorem natCast_sub_natCast (a b : Nat) (h : b ≤ a) : (a : Int) - (b : Int) = ((a - b : Nat) : Int) := by omega

theorem ofNat_lt_natCast (a k : Nat) : ((no_index (OfNat.ofNat k) : Int) < (a : Int)) = ((OfNat.ofNat k : Nat) < a) := by
  show (((OfNat.ofNat k : Nat) : Int) < (a : Int)) = _
  exact propext Int.ofNat_lt

theorem natCast_le_ofNat (a k : Nat) : ((a : Int) ≤ (no_index (OfNat.ofNat k) : Int)) = (a ≤ (OfNat.ofNat k : Nat)) := by
  show ((a : Int) ≤ ((OfNat.ofNat k : Nat) : Int)) = _
  exact propext Int.ofNat_le

/-! ## `len ≤ 64` -/

theorem le32_len (v : Nat) : (A2IR.le32 v).length = 4 := id rfl
theorem take4_le32_append (v : Nat) (l : Bytes) : List.take 4 (A2IR.le32 v ++ l) = A2IR.le32 v := id rfl

set_option maxHeartbeats 4000000 in
theorem blake2bHash_body_short (c : Ctx) (hH : B2Spec c.H) (h : Heap) (ro : Ref) (off len cap : Nat) (inV : Val)
    (buf inp : Bytes) (hg : h.get ro = some (.bytes buf)) (hcap : off + cap ≤ buf.length) (hlc : len ≤ cap)
    (h1 : 1 ≤ len) (h64 : len ≤ 64) (hin : viewBytes h inV = .ok inp) :
    procResult h.stk.length (exec c proc_blake2bHash.body h
        [.bytes ro off len cap, inV, .undef, .undef, .undef, .undef, .undef]) =
      .ok (h.set ro (.bytes (buf.take off ++ Argon2.blake2bHash len inp ++ buf.drop (off + len))), []) := by
  have hV := viewBytes_push hin
  have hr : ro.inH h := Ref.inH_of_get hg
  have hlen : ∀ m, (c.H len m).length = len := fun m => by rw [hH.eq]; exact Argon2Eq.blake2b_length len m (by omega)
  have hlen64 : ∀ m, (c.H 64 m).length = 64 := fun m => by rw [hH.eq]; exact Argon2Eq.blake2b_length 64 m (by omega)
  have hmod : len % 4294967296 = len := Nat.mod_eq_of_lt (by omega)
  simp only [proc_blake2bHash]
  by_cases hlt : len < 64 <;>
  rcases viewBytes_ok_cases hin with ⟨rfl, rfl⟩ | ⟨r1, o1, l1, c1, buf1, rfl, -, -, -, rfl⟩ <;>
  a2_simp [lenOf_bytes, lenOf_nilBytes, lenOf_parr, viewBytes_nilBytes, writeAt_def, sliceVal_parr, sliceVal_bytes, putLE_bytes, sumInto_bytes,
    hashOf_def, Heap.get_push_top, Heap.get_push_top0, Heap.set_push_top, Heap.set_push_top0, hV, hlen, hlen64, hmod, Nat.sub_zero, le32_len, take4_le32_append,
    viewBytes_push_top, viewBytes_push_top0, asIdx_nat, natCast_lt_ofNat,
    Heap.get_push_of_in _ _ _ hr, Heap.set_push_of_in _ _ _ _ hr, hg,
    List.take_zero, List.take_succ_cons, List.drop_zero, List.drop_succ_cons, List.length_append, List.append_nil]
  all_goals rw [procResult_ret _ _ _ rfl, Heap.popTo_push _ _ _ (Heap.stk_length_set _ _ _).symm]
  all_goals simp only [Argon2.blake2bHash, Argon2.blake2bSize, h64, if_true, hH.eq, le32_eq, List.append_nil]
  all_goals first | (have e : len = 64 := by omega); rw [e] | skip

/-! ## one iteration -/

/-- the loop `for len(out) > blake2b.Size { … }` of `blake2bHash` -/
def b2Loop : Stmt := (proc_blake2bHash.body.drop 13).head

theorem b2_step (c : Ctx) (hH : B2Spec c.H) (g : Heap) (n0 : Nat) (hn0 : n0 = g.stk.length) (ro : Ref) (o l cp : Nat)
    (B b : Bytes) (x1 x3 x5 x6 : Val) (hg : g.get ro = some (.bytes B)) (hb : b.length = 64)
    (hl : 32 ≤ l) (hlc : l ≤ cp) (hB : o + 32 ≤ B.length) :
    exec c b2Loop.forBody (g.push [.bytes b]) [.bytes ro o l cp, x1, .hash 64 [], x3, .parr (.stk n0), x5, x6] =
      .norm ((g.set ro (.bytes (B.take o ++ (Prim.blake2b 64 b).take 32 ++ B.drop (o + 32)))).push [.bytes (Prim.blake2b 64 b)])
        [.bytes ro (o + 32) (l - 32) (cp - 32), x1, .hash 64 [], x3, .parr (.stk n0), x5, x6] := by
  subst hn0
  have hr : ro.inH g := Ref.inH_of_get hg
  have hlen64 : ∀ m, (c.H 64 m).length = 64 := fun m => by rw [hH.eq]; exact Argon2Eq.blake2b_length 64 m (by omega)
  simp only [b2Loop, proc_blake2bHash, Stmt.drop, Stmt.head, Stmt.forBody]
  a2_simp [lenOf_bytes, lenOf_parr, writeAt_def, sliceVal_parr, sliceVal_bytes, sumInto_bytes,
    hashOf_def, Heap.get_push_top0, Heap.set_push_top0, hlen64, hb, Nat.sub_zero,
    viewBytes_push_top0, asIdx_nat,
    Heap.get_push_of_in _ _ _ hr, Heap.set_push_of_in _ _ _ _ hr, hg,
    List.take_zero, List.drop_zero, List.length_append, List.append_nil, List.nil_append, List.length_take, List.take_length]
  have t64 : List.take 64 b = b := List.take_of_length_le (by omega)
  have d64 : List.drop 64 b = [] := List.drop_eq_nil_of_le (by omega)
  have m1 : min l (min 32 64) = 32 := by omega
  have m2 : min l 32 = 32 := by omega
  simp only [t64, d64, List.append_nil, List.length_nil, Nat.add_zero, hH.eq, List.take_take, m1, m2]

/-! ## after the loop -/

set_option maxHeartbeats 1000000 in
theorem b2_tail (c : Ctx) (hH : B2Spec c.H) (g : Heap) (n0 : Nat) (hn0 : n0 = g.stk.length) (ro : Ref) (o l cp outLen : Nat)
    (B b : Bytes) (x1 x3 x6 : Val) (hg : g.get ro = some (.bytes B)) (hb : b.length = 64)
    (hl : 1 ≤ l) (hl64 : l ≤ 64) (hlc : l ≤ cp) (hB : o + l ≤ B.length) (ho : 64 < outLen) (ho32 : outLen < 4294967296)
    (hlast : (if outLen % 64 > 0 then outLen - 32 * ((outLen + 31) / 32 - 2) else 64) = l) :
    procResult n0 (exec c (proc_blake2bHash.body.drop 14) (g.push [.bytes b])
        [.bytes ro o l cp, x1, .hash 64 [], x3, .parr (.stk n0), .int outLen, x6]) =
      .ok (g.set ro (.bytes (B.take o ++ Prim.blake2b l b ++ B.drop (o + l))), []) := by
  subst hn0
  have hr : ro.inH g := Ref.inH_of_get hg
  have hlenl : ∀ m, (c.H l m).length = l := fun m => by rw [hH.eq]; exact Argon2Eq.blake2b_length l m (by omega)
  have t64 : List.take 64 b = b := List.take_of_length_le (by omega)
  simp only [proc_blake2bHash, Stmt.drop]
  by_cases h3 : outLen % 64 > 0
  · rw [if_pos h3] at hlast
    a2_simp [lenOf_bytes, lenOf_parr, writeAt_def, sliceVal_parr, sliceVal_bytes, sumInto_bytes,
      hashOf_def, Heap.get_push_top0, Heap.set_push_top0, hlenl, hb, Nat.sub_zero,
      viewBytes_push_top0, asIdx_nat, tmod_natCast_ofNat, tdiv_natCast_ofNat, natCast_sub_ofNat, ofNat_mul_natCast,
      natCast_sub_natCast, ofNat_lt_natCast, natCast_add_ofNat, wrapS64_natCast, h3, hlast,
      Heap.get_push_of_in _ _ _ hr, Heap.set_push_of_in _ _ _ _ hr, hg, t64,
      List.take_zero, List.drop_zero, List.length_append, List.append_nil, List.nil_append, List.length_take, List.take_length]
    rw [procResult_norm, Heap.popTo_push _ _ _ (Heap.stk_length_set _ _ _).symm, hH.eq]
  · rw [if_neg h3] at hlast
    subst hlast
    a2_simp [lenOf_bytes, lenOf_parr, writeAt_def, sliceVal_parr, sliceVal_bytes, sumInto_bytes,
      hashOf_def, Heap.get_push_top0, Heap.set_push_top0, hlenl, hb, Nat.sub_zero,
      viewBytes_push_top0, asIdx_nat, tmod_natCast_ofNat, ofNat_lt_natCast, h3,
      Heap.get_push_of_in _ _ _ hr, Heap.set_push_of_in _ _ _ _ hr, hg, t64,
      List.take_zero, List.drop_zero, List.length_append, List.append_nil, List.nil_append, List.length_take, List.take_length]
    rw [procResult_norm, Heap.popTo_push _ _ _ (Heap.stk_length_set _ _ _).symm, hH.eq]

end GoCrypt.A2IR
