import GoCrypt.Proofs.SIRDefs

/-!
# Stream IR of `hash/base64le`: the constructors `NewEncoding`, `Encoding.WithPadding`, `Encoding.Strict`

Helper lemmas only; the property theorems are in `Props/B64IRCtor.lean`.
-/

namespace GoCrypt.SIR
open GoCrypt.B64IR (Buf Heap Slice Res sliceBytes padInt decodeMapBytes encVal)
open GoCrypt.Base64LE GoCrypt.Gen.base64leStream

/-! ## The object store -/

theorem set_concat_length {α : Type} (l : List α) (x y : α) : (l ++ [x]).set l.length y = l ++ [y] := by simp

theorem get_append2_0 {α : Type} (l : List α) (x y : α) : (l ++ [x, y])[l.length]? = some x := by simp
theorem get_append2_1 {α : Type} (l : List α) (x y : α) : (l ++ [x, y])[l.length + 1]? = some y := by simp
theorem set_append2_0 {α : Type} (l : List α) (x y z : α) : (l ++ [x, y]).set l.length z = l ++ [z, y] := by simp
theorem set_append2_1 {α : Type} (l : List α) (x y z : α) : (l ++ [x, y]).set (l.length + 1) z = l ++ [x, z] := by
  rw [List.set_append_right _ _ (by omega)]
  simp

/-! ## Copying a value receiver -/

theorem sliceBytes_append_left (H : Heap) (x : List Buf) (s : Slice) (bs : Bytes) (h : sliceBytes H s = some bs) :
    sliceBytes (H ++ x) s = some bs := by
  unfold sliceBytes at h ⊢
  cases hb : H[s.buf]? with
  | none => rw [hb] at h; cases h
  | some b =>
    have hl : s.buf < H.length := by
      rcases Nat.lt_or_ge s.buf H.length with h' | h'
      · exact h'
      · rw [List.getElem?_eq_none h'] at hb; cases hb
    rw [List.getElem?_append_left hl, hb]
    rw [hb] at h
    exact h

theorem sliceBytes_length (H : Heap) (s : Slice) (bs : Bytes) (h : sliceBytes H s = some bs) : bs.length = s.len := by
  unfold sliceBytes at h
  cases hb : H[s.buf]? with
  | none => rw [hb] at h; cases h
  | some b =>
    rw [hb] at h
    simp only at h
    split at h
    · cases h
      simp only [List.length_take, List.length_drop, Array.length_toList]
      omega
    · cases h

/-- The field-by-field copy of an `Encoding` object: two fresh buffers with the contents of the arrays. -/
theorem cloneFields_enc (H : Heap) (b1 b2 : Nat) (al dm : Bytes) (p : Int) (s : Bool)
    (h1 : sliceBytes H ⟨b1, 0, 64, 64⟩ = some al) (h2 : sliceBytes H ⟨b2, 0, 256, 256⟩ = some dm) :
    cloneFields [0, 1] H 0 [.slice ⟨b1, 0, 64, 64⟩, .slice ⟨b2, 0, 256, 256⟩, .int p, .bool s] =
      .ok (H ++ [al.toArray, dm.toArray],
        [.slice ⟨H.length, 0, 64, 64⟩, .slice ⟨H.length + 1, 0, 256, 256⟩, .int p, .bool s]) := by
  have l1 : al.length = 64 := sliceBytes_length _ _ _ h1
  have l2 : dm.length = 256 := sliceBytes_length _ _ _ h2
  have h2' := sliceBytes_append_left H [al.toArray] _ _ h2
  have c0 : List.contains [0, 1] 0 = true := by decide
  have c1 : List.contains [0, 1] (0 + 1) = true := by decide
  have c2 : List.contains [0, 1] (0 + 1 + 1) = false := by decide
  have c3 : List.contains [0, 1] (0 + 1 + 1 + 1) = false := by decide
  simp only [cloneFields, c0, c1, c2, c3, h1, h2', if_true, l1, l2, List.length_append, List.length_cons, List.length_nil,
    List.append_assoc, List.cons_append, List.nil_append, Bool.false_eq_true, if_false]
  rfl

/-! ## `Encoding.Strict` -/

theorem strict_proc (c : Ctx) (e : Encoding) (H : Heap) (O : List Obj) (X : List Ext) (a b1 b2 : Nat)
    (he : EncAt H O a b1 b2 e) :
    execProc c strictIR ⟨H, O, X⟩ [.ptr a] =
      .ok (⟨H ++ [e.alphabet.toArray, (decodeMapBytes e).toArray],
          O ++ [encObj H.length (H.length + 1) { e with strict := true }], X⟩, [.ptr O.length]) := by
  have hcl := cloneFields_enc H b1 b2 _ _ (padInt e) e.strict he.alphaBytes he.dmapBytes
  have hO : O.length < (O ++ [encObj H.length (H.length + 1) e]).length := by simp
  rw [execProc_eq c strictIR _ _ rfl]
  simp only [strictIR]
  b64_simp [he.obj, encObj, hcl, List.getElem?_concat_length, set_concat_length]
  rfl

/-! ## `Encoding.WithPadding` -/

/-- `enc := *enc; if padding == '\r' || padding == '\n' || padding > 0xff { panic }; i := 0` -/
def wpPrefix : Stmt := withPaddingIR.body.take 3
/-- `for i < len(enc.encode) { if rune(enc.encode[i]) == padding { panic } }` -/
def wpFor : Stmt := (withPaddingIR.body.drop 3).head
def wpBody : Stmt := wpFor.forBody
/-- `enc.padChar = padding; return &enc` -/
def wpTail : Stmt := withPaddingIR.body.drop 4

theorem wpFor_eq : wpFor = .for_ wpFor.forFuel wpFor.forCond wpFor.forPost wpBody := rfl
theorem wpBody_split : withPaddingIR.body.drop 3 = (wpFor ;; wpTail) := rfl

theorem wpBody_step (c : Ctx) (H : Heap) (O : List Obj) (X : List Ext) (o b1 b2 : Nat) (e : Encoding) (A : Buf)
    (hO : O[o]? = some (encObj b1 b2 e)) (hH : H[b1]? = some A) (hA : A.size = 64) (p : Int) (k : Nat) (hk : k < 64) :
    exec c wpBody ⟨H, O, X⟩ [.ptr o, .int p, .int k] =
      if ((A[k]'(by omega)).toNat : Int) = p then .panic else .norm ⟨H, O, X⟩ [.ptr o, .int p, .int k] := by
  simp only [wpBody, wpFor, Stmt.forBody, Stmt.head, Stmt.drop, withPaddingIR]
  b64_simp [hO, encObj, hH, hA]

/-- Frame at the start of iteration `k` of the loop of `WithPadding`. -/
def wpSt (W : World) (o : Nat) (p : Int) (k : Nat) : World × Env := (W, [.ptr o, .int p, .int k])

theorem wpFor_fuel (W : World) (env : Env) : (eval W env wpFor.forFuel >>= asInt) = .ok 65 := by
  simp only [wpFor, Stmt.forFuel, Stmt.head, Stmt.drop, withPaddingIR]
  b64_simp []

theorem wpFor_cond (W : World) (o : Nat) (p : Int) (k : Nat) :
    (eval W [.ptr o, .int p, .int k] wpFor.forCond >>= asBool) = .ok (decide (k < 64)) := by
  simp only [wpFor, Stmt.forCond, Stmt.head, Stmt.drop, withPaddingIR]
  b64_simp []

theorem wpFor_post (c : Ctx) (W : World) (o : Nat) (p : Int) (k : Nat) (hk : k < 64) :
    exec c wpFor.forPost W [.ptr o, .int p, .int k] = .norm W [.ptr o, .int p, .int (k + 1 : Nat)] := by
  simp only [wpFor, Stmt.forPost, Stmt.head, Stmt.drop, withPaddingIR]
  b64_simp []

/-- The padding is not in the alphabet: the loop runs to its end and changes nothing. -/
theorem wpLoop_ok (c : Ctx) (H : Heap) (O : List Obj) (X : List Ext) (o b1 b2 : Nat) (e : Encoding) (A : Buf)
    (hO : O[o]? = some (encObj b1 b2 e)) (hH : H[b1]? = some A) (hA : A.size = 64) (p : Int)
    (hp : ∀ k (hk : k < 64), ((A[k]'(by omega)).toNat : Int) ≠ p) :
    exec c wpFor ⟨H, O, X⟩ [.ptr o, .int p, .int (0 : Nat)] = .norm ⟨H, O, X⟩ [.ptr o, .int p, .int (64 : Nat)] := by
  rw [wpFor_eq, exec_for, wpFor_fuel, bindR_ok]
  refine loop_count _ _ _ (wpSt ⟨H, O, X⟩ o p) 64 ?_ ?_ ?_ ?_ _ 0 (Nat.zero_le _) (by decide)
  · intro k hk
    simp only [wpSt, wpFor_cond, decide_eq_true hk]
  · simp only [wpSt, wpFor_cond]; rfl
  · intro k hk
    simp only [wpSt]
    rw [wpBody_step c H O X o b1 b2 e A hO hH hA p k hk, if_neg (hp k hk), andThen_norm, wpFor_post c _ o p k hk]
  · intro k hk
    simp only [wpSt]
    rw [wpBody_step c H O X o b1 b2 e A hO hH hA p k hk, if_neg (hp k hk)]
    exact ⟨_, _, rfl⟩

/-- The padding is in the alphabet, first at index `n`: the loop panics there. -/
theorem wpLoop_panic (c : Ctx) (H : Heap) (O : List Obj) (X : List Ext) (o b1 b2 : Nat) (e : Encoding) (A : Buf)
    (hO : O[o]? = some (encObj b1 b2 e)) (hH : H[b1]? = some A) (hA : A.size = 64) (p : Int) (n : Nat) (hn : n < 64)
    (hp : ∀ k (hk : k < n), ((A[k]'(by omega)).toNat : Int) ≠ p) (hx : ((A[n]'(by omega)).toNat : Int) = p) :
    exec c wpFor ⟨H, O, X⟩ [.ptr o, .int p, .int (0 : Nat)] = .panic := by
  rw [wpFor_eq, exec_for, wpFor_fuel, bindR_ok]
  refine loop_count_exit _ _ _ (wpSt ⟨H, O, X⟩ o p) n .panic (fun _ => rfl) ?_ ?_ ?_ ?_ _ 0 (Nat.zero_le _) (by show n - 0 < 65; omega)
  · intro k hk
    simp only [wpSt, wpFor_cond, decide_eq_true (show k < 64 by omega)]
  · intro k hk
    simp only [wpSt]
    rw [wpBody_step c H O X o b1 b2 e A hO hH hA p k (by omega), if_neg (hp k hk), andThen_norm, wpFor_post c _ o p k (by omega)]
  · intro k hk
    simp only [wpSt]
    rw [wpBody_step c H O X o b1 b2 e A hO hH hA p k (by omega), if_neg (hp k hk)]
    exact ⟨_, _, rfl⟩
  · simp only [wpSt]
    rw [wpBody_step c H O X o b1 b2 e A hO hH hA p n hn, if_pos hx]

theorem wpPrefix_ok (c : Ctx) (e : Encoding) (H : Heap) (O : List Obj) (X : List Ext) (a b1 b2 : Nat)
    (he : EncAt H O a b1 b2 e) (p : Int) (h13 : ¬ p = 13) (h10 : ¬ p = 10) (h255 : ¬ 255 < p) :
    exec c wpPrefix ⟨H, O, X⟩ [.ptr a, .int p, .undef] =
      .norm ⟨H ++ [e.alphabet.toArray, (decodeMapBytes e).toArray], O ++ [encObj H.length (H.length + 1) e], X⟩
        [.ptr O.length, .int p, .int (0 : Nat)] := by
  have hcl := cloneFields_enc H b1 b2 _ _ (padInt e) e.strict he.alphaBytes he.dmapBytes
  simp only [wpPrefix, Stmt.take, withPaddingIR]
  b64_simp [he.obj, encObj, hcl, h13, h10, h255]

theorem wpPrefix_panic (c : Ctx) (e : Encoding) (H : Heap) (O : List Obj) (X : List Ext) (a b1 b2 : Nat)
    (he : EncAt H O a b1 b2 e) (p : Int) (hp : p = 13 ∨ p = 10 ∨ 255 < p) :
    exec c wpPrefix ⟨H, O, X⟩ [.ptr a, .int p, .undef] = .panic := by
  have hcl := cloneFields_enc H b1 b2 _ _ (padInt e) e.strict he.alphaBytes he.dmapBytes
  simp only [wpPrefix, Stmt.take, withPaddingIR]
  rcases hp with hp | hp | hp
  · subst hp
    b64_simp [he.obj, encObj, hcl]
  · subst hp
    b64_simp [he.obj, encObj, hcl]
  · have h13 : ¬ p = 13 := by omega
    have h10 : ¬ p = 10 := by omega
    b64_simp [he.obj, encObj, hcl, h13, h10, hp]

theorem wpTail_run (c : Ctx) (H : Heap) (O : List Obj) (X : List Ext) (b1 b2 : Nat) (e : Encoding) (p : Int) (v : Val) :
    exec c wpTail ⟨H, O ++ [encObj b1 b2 e], X⟩ [.ptr O.length, .int p, v] =
      .ret ⟨H, O ++ [⟨"Encoding", [.slice ⟨b1, 0, 64, 64⟩, .slice ⟨b2, 0, 256, 256⟩, .int p, .bool e.strict]⟩], X⟩
        [.ptr O.length] := by
  simp only [wpTail, Stmt.drop, withPaddingIR]
  b64_simp [encObj, List.getElem?_concat_length, set_concat_length]

/-- The first index at which a decidable property holds. -/
theorem exists_first (P : Nat → Prop) [DecidablePred P] : ∀ n, P n → ∃ m, m ≤ n ∧ P m ∧ ∀ j, j < m → ¬ P j := by
  intro n
  induction n using Nat.strongRecOn with
  | _ n ih =>
    intro hn
    by_cases hex : ∃ j, j < n ∧ P j
    · obtain ⟨j, hj, hPj⟩ := hex
      obtain ⟨m, hm, hPm, hlt⟩ := ih j hj hPj
      exact ⟨m, by omega, hPm, hlt⟩
    · exact ⟨n, Nat.le_refl _, hn, fun j hj hPj => hex ⟨j, hj, hPj⟩⟩

theorem byte_ne_of_not_mem (al : Bytes) (p : Int) (h0 : 0 ≤ p) (hm : UInt8.ofNat p.toNat ∉ al) (k : Nat) (hk : k < al.length) :
    ((al[k]).toNat : Int) ≠ p := by
  intro h
  apply hm
  have : p.toNat = (al[k]).toNat := by omega
  rw [this, UInt8.ofNat_toNat]
  exact List.getElem_mem hk

theorem first_of_mem (al : Bytes) (p : Int) (h0 : 0 ≤ p) (h255 : p ≤ 255) (hm : UInt8.ofNat p.toNat ∈ al) :
    ∃ n, ∃ hn : n < al.length, ((al[n]).toNat : Int) = p ∧ ∀ k (hk : k < n), ((al[k]'(by omega)).toNat : Int) ≠ p := by
  obtain ⟨i, hi, hx⟩ := List.mem_iff_getElem.mp hm
  have hPi : (fun j => ∃ hj : j < al.length, ((al[j]).toNat : Int) = p) i := by
    refine ⟨hi, ?_⟩
    rw [hx, UInt8.toNat_ofNat']
    omega
  obtain ⟨m, hmi, ⟨hml, hPm⟩, hlt⟩ := exists_first (fun j => ∃ hj : j < al.length, ((al[j]).toNat : Int) = p) i hPi
  exact ⟨m, hml, hPm, fun k hk hx => hlt k hk ⟨by omega, hx⟩⟩

theorem padInt_with (e : Encoding) (p : Int) (hp : p = -1 ∨ (0 ≤ p ∧ p ≤ 255)) :
    padInt { e with pad := if p = -1 then none else some (UInt8.ofNat p.toNat) } = p := by
  rcases hp with hp | ⟨h0, h255⟩
  · subst hp; rfl
  · have : ¬ p = -1 := by omega
    simp only [padInt, this, if_false, UInt8.toNat_ofNat']
    omega

theorem withPadding_proc (c : Ctx) (e : Encoding) (H : Heap) (O : List Obj) (X : List Ext) (a b1 b2 : Nat)
    (he : EncAt H O a b1 b2 e) (p : Int)
    (hp : p = -1 ∨ (0 ≤ p ∧ p ≤ 255 ∧ p ≠ 10 ∧ p ≠ 13 ∧ UInt8.ofNat p.toNat ∉ e.alphabet)) :
    execProc c withPaddingIR ⟨H, O, X⟩ [.ptr a, .int p] =
      .ok (⟨H ++ [e.alphabet.toArray, (decodeMapBytes e).toArray],
          O ++ [encObj H.length (H.length + 1) { e with pad := if p = -1 then none else some (UInt8.ofNat p.toNat) }], X⟩,
        [.ptr O.length]) := by
  have hlen := he.len
  have hne : ∀ k (hk : k < 64), (((e.alphabet.toArray)[k]'(by simp; omega)).toNat : Int) ≠ p := by
    intro k hk
    rw [List.getElem_toArray]
    rcases hp with hp | ⟨h0, _, _, _, hm⟩
    · omega
    · exact byte_ne_of_not_mem _ p h0 hm k (by omega)
  rw [execProc_eq c withPaddingIR _ _ rfl, exec_take_drop c _ _ 3]
  show procResult ((exec c wpPrefix ⟨H, O, X⟩ [.ptr a, .int p, .undef]).andThen (exec c (withPaddingIR.body.drop 3))) = _
  rw [wpPrefix_ok c e H O X a b1 b2 he p (by omega) (by omega) (by omega), andThen_norm, wpBody_split, exec_seq,
    wpLoop_ok c _ _ X O.length H.length (H.length + 1) e e.alphabet.toArray List.getElem?_concat_length
      (by simp) (by simp; omega) p hne,
    andThen_norm, wpTail_run, procResult_ret]
  have hpi := padInt_with e p (by omega)
  simp only [encObj, hpi]

theorem withPadding_proc_panic (c : Ctx) (e : Encoding) (H : Heap) (O : List Obj) (X : List Ext) (a b1 b2 : Nat)
    (he : EncAt H O a b1 b2 e) (p : Int)
    (hp : p = 13 ∨ p = 10 ∨ p > 255 ∨ (0 ≤ p ∧ p ≤ 255 ∧ UInt8.ofNat p.toNat ∈ e.alphabet)) :
    execProc c withPaddingIR ⟨H, O, X⟩ [.ptr a, .int p] = .panic := by
  have hlen := he.len
  rw [execProc_eq c withPaddingIR _ _ rfl, exec_take_drop c _ _ 3]
  show procResult ((exec c wpPrefix ⟨H, O, X⟩ [.ptr a, .int p, .undef]).andThen (exec c (withPaddingIR.body.drop 3))) = _
  by_cases hpre : p = 13 ∨ p = 10 ∨ 255 < p
  · rw [wpPrefix_panic c e H O X a b1 b2 he p hpre]; rfl
  · have hin : 0 ≤ p ∧ p ≤ 255 ∧ UInt8.ofNat p.toNat ∈ e.alphabet := by
      rcases hp with hp | hp | hp | hp
      · exact absurd (Or.inl hp) hpre
      · exact absurd (Or.inr (Or.inl hp)) hpre
      · exact absurd (Or.inr (Or.inr hp)) hpre
      · exact hp
    obtain ⟨n, hn, hx, hlt⟩ := first_of_mem e.alphabet p hin.1 hin.2.1 hin.2.2
    rw [wpPrefix_ok c e H O X a b1 b2 he p (by omega) (by omega) (by omega), andThen_norm, wpBody_split, exec_seq,
      wpLoop_panic c _ _ X O.length H.length (H.length + 1) e e.alphabet.toArray List.getElem?_concat_length
        (by simp) (by simp; omega) p n (by omega)
        (fun k hk => by rw [List.getElem_toArray]; exact hlt k hk) (by rw [List.getElem_toArray]; exact hx)]
    rfl

/-! ## `NewEncoding`: the length check and the newline loop -/

/-- `if len(encoder) != 64 { panic }; i := 0` -/
def nePre : Stmt := newEncodingIR.body.take 2
/-- `for i < len(encoder) { if encoder[i] == '\n' || encoder[i] == '\r' { panic } }` -/
def neFor1 : Stmt := (newEncodingIR.body.drop 2).head
def neBody1 : Stmt := neFor1.forBody
/-- `e := new(Encoding); e.padChar = StdPadding; copy(e.encode[:], encoder); i := 0` -/
def neMid : Stmt := (newEncodingIR.body.drop 3).take 5
/-- `for i < len(e.decodeMap) { e.decodeMap[i] = 0xFF }` -/
def neFor2 : Stmt := (newEncodingIR.body.drop 8).head
def neBody2 : Stmt := neFor2.forBody
/-- `i := 0` -/
def neAsg : Stmt := (newEncodingIR.body.drop 9).head
/-- `for i < len(encoder) { e.decodeMap[encoder[i]] = byte(i) }` -/
def neFor3 : Stmt := (newEncodingIR.body.drop 10).head
def neBody3 : Stmt := neFor3.forBody
/-- `return e` -/
def neRet : Stmt := newEncodingIR.body.drop 11

theorem neFor1_eq : neFor1 = .for_ neFor1.forFuel neFor1.forCond neFor1.forPost neBody1 := rfl
theorem neFor2_eq : neFor2 = .for_ neFor2.forFuel neFor2.forCond neFor2.forPost neBody2 := rfl
theorem neFor3_eq : neFor3 = .for_ neFor3.forFuel neFor3.forCond neFor3.forPost neBody3 := rfl
theorem ne_split2 : newEncodingIR.body.drop 2 = (neFor1 ;; newEncodingIR.body.drop 3) := rfl
theorem ne_split8 : newEncodingIR.body.drop 8 = (neFor2 ;; neAsg ;; neFor3 ;; neRet) := rfl

theorem nePre_ok (c : Ctx) (W : World) (al : Bytes) (hal : al.length = 64) :
    exec c nePre W [.str al, .undef, .undef, .undef, .undef, .undef] =
      .norm W [.str al, .int (0 : Nat), .undef, .undef, .undef, .undef] := by
  simp only [nePre, Stmt.take, newEncodingIR]
  b64_simp [hal]

theorem nePre_panic (c : Ctx) (W : World) (al : Bytes) (hal : al.length ≠ 64) :
    exec c nePre W [.str al, .undef, .undef, .undef, .undef, .undef] = .panic := by
  simp only [nePre, Stmt.take, newEncodingIR]
  b64_simp [hal]

theorem neFor1_fuel (W : World) (al : Bytes) (hal : al.length = 64) (v1 v2 v3 v4 v5 : Val) :
    (eval W [.str al, v1, v2, v3, v4, v5] neFor1.forFuel >>= asInt) = .ok 65 := by
  simp only [neFor1, Stmt.forFuel, Stmt.head, Stmt.drop, newEncodingIR]
  b64_simp [hal]

theorem neFor1_cond (W : World) (al : Bytes) (hal : al.length = 64) (k : Nat) (v2 v3 v4 v5 : Val) :
    (eval W [.str al, .int k, v2, v3, v4, v5] neFor1.forCond >>= asBool) = .ok (decide (k < 64)) := by
  simp only [neFor1, Stmt.forCond, Stmt.head, Stmt.drop, newEncodingIR]
  b64_simp [hal]

theorem neFor1_post (c : Ctx) (W : World) (al : Bytes) (k : Nat) (hk : k < 64) (v2 v3 v4 v5 : Val) :
    exec c neFor1.forPost W [.str al, .int k, v2, v3, v4, v5] = .norm W [.str al, .int (k + 1 : Nat), v2, v3, v4, v5] := by
  simp only [neFor1, Stmt.forPost, Stmt.head, Stmt.drop, newEncodingIR]
  b64_simp []

theorem neBody1_ok (c : Ctx) (W : World) (al : Bytes) (hal : al.length = 64) (k : Nat) (hk : k < 64) (v2 v3 v4 v5 : Val)
    (h10 : ¬ (al.getD k 0).toNat = 10) (h13 : ¬ (al.getD k 0).toNat = 13) :
    exec c neBody1 W [.str al, .int k, v2, v3, v4, v5] = .norm W [.str al, .int k, v2, v3, v4, v5] := by
  simp only [neBody1, neFor1, Stmt.forBody, Stmt.head, Stmt.drop, newEncodingIR]
  b64_simp [h10, h13]

theorem neBody1_panic (c : Ctx) (W : World) (al : Bytes) (hal : al.length = 64) (k : Nat) (hk : k < 64) (v2 v3 v4 v5 : Val)
    (h : (al.getD k 0).toNat = 10 ∨ (al.getD k 0).toNat = 13) :
    exec c neBody1 W [.str al, .int k, v2, v3, v4, v5] = .panic := by
  simp only [neBody1, neFor1, Stmt.forBody, Stmt.head, Stmt.drop, newEncodingIR]
  rcases h with h | h
  · b64_simp [h]
  · b64_simp [h]

/-- Frame at the start of iteration `k` of the newline loop. -/
def neSt1 (W : World) (al : Bytes) (k : Nat) : World × Env := (W, [.str al, .int k, .undef, .undef, .undef, .undef])

/-- No newline in the alphabet: the loop runs to its end and changes nothing. -/
theorem neLoop1_ok (c : Ctx) (W : World) (al : Bytes) (hal : al.length = 64)
    (hnl : ∀ k, k < 64 → ¬ (al.getD k 0).toNat = 10 ∧ ¬ (al.getD k 0).toNat = 13) :
    exec c neFor1 W [.str al, .int (0 : Nat), .undef, .undef, .undef, .undef] =
      .norm W [.str al, .int (64 : Nat), .undef, .undef, .undef, .undef] := by
  rw [neFor1_eq, exec_for, neFor1_fuel W al hal, bindR_ok]
  refine loop_count _ _ _ (neSt1 W al) 64 ?_ ?_ ?_ ?_ _ 0 (Nat.zero_le _) (by decide)
  · intro k hk
    simp only [neSt1, neFor1_cond W al hal, decide_eq_true hk]
  · simp only [neSt1, neFor1_cond W al hal]; rfl
  · intro k hk
    simp only [neSt1]
    rw [neBody1_ok c W al hal k hk _ _ _ _ (hnl k hk).1 (hnl k hk).2, andThen_norm, neFor1_post c W al k hk]
  · intro k hk
    simp only [neSt1]
    rw [neBody1_ok c W al hal k hk _ _ _ _ (hnl k hk).1 (hnl k hk).2]
    exact ⟨_, _, rfl⟩

/-- The first newline is at index `n`: the loop panics there. -/
theorem neLoop1_panic (c : Ctx) (W : World) (al : Bytes) (hal : al.length = 64) (n : Nat) (hn : n < 64)
    (hnl : ∀ k, k < n → ¬ (al.getD k 0).toNat = 10 ∧ ¬ (al.getD k 0).toNat = 13)
    (hx : (al.getD n 0).toNat = 10 ∨ (al.getD n 0).toNat = 13) :
    exec c neFor1 W [.str al, .int (0 : Nat), .undef, .undef, .undef, .undef] = .panic := by
  rw [neFor1_eq, exec_for, neFor1_fuel W al hal, bindR_ok]
  refine loop_count_exit _ _ _ (neSt1 W al) n .panic (fun _ => rfl) ?_ ?_ ?_ ?_ _ 0 (Nat.zero_le _) (by show n - 0 < 65; omega)
  · intro k hk
    simp only [neSt1, neFor1_cond W al hal, decide_eq_true (show k < 64 by omega)]
  · intro k hk
    simp only [neSt1]
    rw [neBody1_ok c W al hal k (by omega) _ _ _ _ (hnl k hk).1 (hnl k hk).2, andThen_norm, neFor1_post c W al k (by omega)]
  · intro k hk
    simp only [neSt1]
    rw [neBody1_ok c W al hal k (by omega) _ _ _ _ (hnl k hk).1 (hnl k hk).2]
    exact ⟨_, _, rfl⟩
  · simp only [neSt1]
    rw [neBody1_panic c W al hal n hn _ _ _ _ hx]

/-! ## `NewEncoding`: allocation and `copy` -/

theorem neMid_run (c : Ctx) (H : Heap) (O : List Obj) (X : List Ext) (al : Bytes) (hal : al.length = 64) (v1 : Val) :
    exec c neMid ⟨H, O, X⟩ [.str al, v1, .undef, .undef, .undef, .undef] =
      .norm ⟨H ++ [al.toArray, Array.replicate 256 0],
          O ++ [⟨"Encoding", [.slice ⟨H.length, 0, 64, 64⟩, .slice ⟨H.length + 1, 0, 256, 256⟩, .int 61, .bool false]⟩], X⟩
        [.str al, v1, .ptr O.length, .int (0 : Nat), .undef, .ptr O.length] := by
  have htake : al.take 64 = al := List.take_of_length_le (by omega)
  have hw : B64IR.writeList (Array.replicate 64 0) 0 al = al.toArray := by
    rw [B64IR.writeList_eq_writeAt, ← hal]; exact B64IR.writeAt_zeros al
  simp only [neMid, Stmt.take, Stmt.drop, newEncodingIR]
  b64_simp [evalInits, hal, List.getElem?_concat_length, set_concat_length, srcBytes, copyVal, writeSlice,
    List.append_assoc, List.length_append, get_append2_0, set_append2_0, htake, hw, Array.size_replicate, Nat.le_refl]

/-! ## `NewEncoding`: filling `decodeMap` with 0xFF -/

theorem asByte_255 : asByte (.int 255) = .ok 255 := by decide

theorem neBody2_step (c : Ctx) (H : Heap) (O : List Obj) (X : List Ext) (o b2 : Nat) (f0 f2 f3 : Val) (D : Buf)
    (hO : O[o]? = some ⟨"Encoding", [f0, .slice ⟨b2, 0, 256, 256⟩, f2, f3]⟩) (hH : H[b2]? = some D) (hD : D.size = 256)
    (k : Nat) (hk : k < 256) (v0 v1 v4 v5 : Val) :
    exec c neBody2 ⟨H, O, X⟩ [v0, v1, .ptr o, .int k, v4, v5] =
      .norm ⟨H.set b2 (D.setIfInBounds k 255), O, X⟩ [v0, v1, .ptr o, .int k, v4, v5] := by
  simp only [neBody2, neFor2, Stmt.forBody, Stmt.head, Stmt.drop, newEncodingIR]
  b64_simp [hO, hH, hD, asByte_255]

theorem neFor2_fuel (W : World) (al : Bytes) (hal : al.length = 64) (v1 v2 v3 v4 v5 : Val) :
    (eval W [.str al, v1, v2, v3, v4, v5] neFor2.forFuel >>= asInt) = .ok 321 := by
  simp only [neFor2, Stmt.forFuel, Stmt.head, Stmt.drop, newEncodingIR]
  b64_simp [hal]

theorem neFor2_cond (W : World) (k : Nat) (v0 v1 v2 v4 v5 : Val) :
    (eval W [v0, v1, v2, .int k, v4, v5] neFor2.forCond >>= asBool) = .ok (decide (k < 256)) := by
  simp only [neFor2, Stmt.forCond, Stmt.head, Stmt.drop, newEncodingIR]
  b64_simp []

theorem neFor2_post (c : Ctx) (W : World) (k : Nat) (hk : k < 256) (v0 v1 v2 v4 v5 : Val) :
    exec c neFor2.forPost W [v0, v1, v2, .int k, v4, v5] = .norm W [v0, v1, v2, .int (k + 1 : Nat), v4, v5] := by
  simp only [neFor2, Stmt.forPost, Stmt.head, Stmt.drop, newEncodingIR]
  b64_simp []

/-- `decodeMap` after `k` iterations of the 0xFF loop. -/
def ffBuf : Nat → Buf
  | 0 => Array.replicate 256 0
  | k + 1 => (ffBuf k).setIfInBounds k 255

theorem ffBuf_size (k : Nat) : (ffBuf k).size = 256 := by
  induction k with
  | zero => simp [ffBuf]
  | succ k ih => simp [ffBuf, ih]

theorem ffBuf_get (k i : Nat) (hi : i < 256) : (ffBuf k)[i]'(by rw [ffBuf_size]; exact hi) = if i < k then 255 else 0 := by
  induction k with
  | zero => simp [ffBuf]
  | succ k ih =>
    show ((ffBuf k).setIfInBounds k 255)[i]'(by rw [Array.size_setIfInBounds, ffBuf_size]; exact hi) = _
    rw [Array.getElem_setIfInBounds (by rw [ffBuf_size]; exact hi), ih]
    by_cases h1 : k = i
    · subst h1; simp
    · have : (i < k + 1) = (i < k) := by apply propext; omega
      simp only [h1, if_false, this]

theorem ffBuf_full : ffBuf 256 = Array.replicate 256 255 := by
  apply Array.ext
  · simp [ffBuf_size]
  · intro i h1 h2
    have hi : i < 256 := by rw [ffBuf_size] at h1; exact h1
    rw [ffBuf_get 256 i hi]
    simp [hi]

/-- World and frame at the start of iteration `k` of the 0xFF loop. -/
def neSt2 (H : Heap) (O : List Obj) (X : List Ext) (b2 : Nat) (v0 v1 v2 v4 v5 : Val) (k : Nat) : World × Env :=
  (⟨H.set b2 (ffBuf k), O, X⟩, [v0, v1, v2, .int k, v4, v5])

theorem neLoop2 (c : Ctx) (H : Heap) (O : List Obj) (X : List Ext) (o b2 : Nat) (f0 f2 f3 : Val) (al : Bytes)
    (hal : al.length = 64)
    (hO : O[o]? = some ⟨"Encoding", [f0, .slice ⟨b2, 0, 256, 256⟩, f2, f3]⟩) (hH : H[b2]? = some (Array.replicate 256 0))
    (v1 v4 v5 : Val) :
    exec c neFor2 ⟨H, O, X⟩ [.str al, v1, .ptr o, .int (0 : Nat), v4, v5] =
      .norm ⟨H.set b2 (Array.replicate 256 255), O, X⟩ [.str al, v1, .ptr o, .int (256 : Nat), v4, v5] := by
  have hbl : b2 < H.length := B64IR.heap_lt_of_get hH
  have h0 : (⟨H, O, X⟩, [Val.str al, v1, .ptr o, .int (0 : Nat), v4, v5]) = neSt2 H O X b2 (.str al) v1 (.ptr o) v4 v5 0 := by
    simp only [neSt2, ffBuf, B64IR.heap_set_self H b2 _ hH]
  have h256 : (⟨H.set b2 (Array.replicate 256 255), O, X⟩, [Val.str al, v1, .ptr o, .int (256 : Nat), v4, v5]) =
      neSt2 H O X b2 (.str al) v1 (.ptr o) v4 v5 256 := by
    simp only [neSt2, ffBuf_full]
  rw [neFor2_eq, exec_for, neFor2_fuel _ al hal, bindR_ok]
  have := loop_count (fun W env => eval W env neFor2.forCond >>= asBool) (exec c neBody2) (exec c neFor2.forPost)
    (neSt2 H O X b2 (.str al) v1 (.ptr o) v4 v5) 256 ?_ ?_ ?_ ?_ (321 : Int).toNat 0 (Nat.zero_le _) (by decide)
  · rw [← h0, ← h256] at this; exact this
  · intro k hk
    simp only [neSt2, neFor2_cond, decide_eq_true hk]
  · simp only [neSt2, neFor2_cond]; rfl
  · intro k hk
    simp only [neSt2]
    rw [neBody2_step c _ O X o b2 f0 f2 f3 (ffBuf k) hO (List.getElem?_set_self hbl) (ffBuf_size k) k hk, andThen_norm,
      neFor2_post c _ k hk, List.set_set]
    rfl
  · intro k hk
    simp only [neSt2]
    rw [neBody2_step c _ O X o b2 f0 f2 f3 (ffBuf k) hO (List.getElem?_set_self hbl) (ffBuf_size k) k hk]
    exact ⟨_, _, rfl⟩

/-! ## `NewEncoding`: the table loop -/

theorem neBody3_step (c : Ctx) (H : Heap) (O : List Obj) (X : List Ext) (o b2 : Nat) (f0 f2 f3 : Val) (D : Buf)
    (hO : O[o]? = some ⟨"Encoding", [f0, .slice ⟨b2, 0, 256, 256⟩, f2, f3]⟩) (hH : H[b2]? = some D) (hD : D.size = 256)
    (al : Bytes) (hal : al.length = 64) (k : Nat) (hk : k < 64) (v1 v3 v5 : Val) :
    exec c neBody3 ⟨H, O, X⟩ [.str al, v1, .ptr o, v3, .int k, v5] =
      .norm ⟨H.set b2 (D.setIfInBounds (al.getD k 0).toNat (UInt8.ofNat k)), O, X⟩ [.str al, v1, .ptr o, v3, .int k, v5] := by
  have hx := (al.getD k 0).toNat_lt
  have hb := asByte_nat k (by omega)
  have hm : k % 256 = k := Nat.mod_eq_of_lt (by omega)
  simp only [neBody3, neFor3, Stmt.forBody, Stmt.head, Stmt.drop, newEncodingIR]
  b64_simp [hO, hH, hD, hb, hm]

theorem neFor3_fuel (W : World) (al : Bytes) (hal : al.length = 64) (v1 v2 v3 v4 v5 : Val) :
    (eval W [.str al, v1, v2, v3, v4, v5] neFor3.forFuel >>= asInt) = .ok 65 := by
  simp only [neFor3, Stmt.forFuel, Stmt.head, Stmt.drop, newEncodingIR]
  b64_simp [hal]

theorem neFor3_cond (W : World) (al : Bytes) (hal : al.length = 64) (k : Nat) (v1 v2 v3 v5 : Val) :
    (eval W [.str al, v1, v2, v3, .int k, v5] neFor3.forCond >>= asBool) = .ok (decide (k < 64)) := by
  simp only [neFor3, Stmt.forCond, Stmt.head, Stmt.drop, newEncodingIR]
  b64_simp [hal]

theorem neFor3_post (c : Ctx) (W : World) (k : Nat) (hk : k < 64) (v0 v1 v2 v3 v5 : Val) :
    exec c neFor3.forPost W [v0, v1, v2, v3, .int k, v5] = .norm W [v0, v1, v2, v3, .int (k + 1 : Nat), v5] := by
  simp only [neFor3, Stmt.forPost, Stmt.head, Stmt.drop, newEncodingIR]
  b64_simp []

theorem neAsg_run (c : Ctx) (W : World) (v0 v1 v2 v3 v4 v5 : Val) :
    exec c neAsg W [v0, v1, v2, v3, v4, v5] = .norm W [v0, v1, v2, v3, .int (0 : Nat), v5] := by
  simp only [neAsg, Stmt.head, Stmt.drop, newEncodingIR]
  b64_simp []

theorem neRet_run (c : Ctx) (W : World) (v0 v1 v3 v4 v5 : Val) (o : Nat) :
    exec c neRet W [v0, v1, .ptr o, v3, v4, v5] = .ret W [.ptr o] := by
  simp only [neRet, Stmt.drop, newEncodingIR]
  b64_simp []

/-- `decodeMap` after `k` iterations of the table loop. -/
def dmBuf (al : Bytes) : Nat → Buf
  | 0 => Array.replicate 256 255
  | k + 1 => (dmBuf al k).setIfInBounds (al.getD k 0).toNat (UInt8.ofNat k)

theorem dmBuf_size (al : Bytes) (k : Nat) : (dmBuf al k).size = 256 := by
  induction k with
  | zero => simp [dmBuf]
  | succ k ih => simp [dmBuf, ih]

/-- Entry `c` after `k` iterations: the model's fold over the first `k` alphabet positions. -/
theorem dmBuf_get (al : Bytes) (k c : Nat) (hc : c < 256) :
    (dmBuf al k)[c]'(by rw [dmBuf_size]; exact hc) =
      UInt8.ofNat ((List.range k).foldl (fun acc i => if al.getD i 0 = UInt8.ofNat c then i else acc) 255) := by
  induction k with
  | zero => simp [dmBuf]
  | succ k ih =>
    show ((dmBuf al k).setIfInBounds (al.getD k 0).toNat (UInt8.ofNat k))[c]'(by
      rw [Array.size_setIfInBounds, dmBuf_size]; exact hc) = _
    rw [Array.getElem_setIfInBounds (by rw [dmBuf_size]; exact hc), ih, List.range_succ, List.foldl_append]
    simp only [List.foldl_cons, List.foldl_nil]
    by_cases h1 : (al.getD k 0).toNat = c
    · have h2 : al.getD k 0 = UInt8.ofNat c := by rw [← h1, UInt8.ofNat_toNat]
      rw [if_pos h1, if_pos h2]
    · have h2 : ¬ al.getD k 0 = UInt8.ofNat c := by
        intro h
        apply h1
        rw [h, UInt8.toNat_ofNat']
        exact Nat.mod_eq_of_lt hc
      rw [if_neg h1, if_neg h2]

theorem dmBuf_full (al : Bytes) (hal : al.length = 64) (pad : Option UInt8) (st : Bool) :
    dmBuf al 64 = (decodeMapBytes ⟨al, pad, st⟩).toArray := by
  apply Array.ext
  · simp [dmBuf_size, decodeMapBytes]
  · intro i h1 h2
    have hi : i < 256 := by rw [dmBuf_size] at h1; exact h1
    rw [dmBuf_get al 64 i hi]
    simp only [decodeMapBytes, Encoding.dec, decodeMapOf, hal, List.getElem_toArray, List.getElem_map, List.getElem_range]

/-- World and frame at the start of iteration `k` of the table loop. -/
def neSt3 (H : Heap) (O : List Obj) (X : List Ext) (b2 : Nat) (al : Bytes) (v1 v2 v3 v5 : Val) (k : Nat) : World × Env :=
  (⟨H.set b2 (dmBuf al k), O, X⟩, [.str al, v1, v2, v3, .int k, v5])

theorem neLoop3 (c : Ctx) (H : Heap) (O : List Obj) (X : List Ext) (o b2 : Nat) (f0 f2 f3 : Val) (al : Bytes)
    (hal : al.length = 64)
    (hO : O[o]? = some ⟨"Encoding", [f0, .slice ⟨b2, 0, 256, 256⟩, f2, f3]⟩) (hH : H[b2]? = some (Array.replicate 256 255))
    (v1 v3 v5 : Val) :
    exec c neFor3 ⟨H, O, X⟩ [.str al, v1, .ptr o, v3, .int (0 : Nat), v5] =
      .norm ⟨H.set b2 (dmBuf al 64), O, X⟩ [.str al, v1, .ptr o, v3, .int (64 : Nat), v5] := by
  have hbl : b2 < H.length := B64IR.heap_lt_of_get hH
  have h0 : (⟨H, O, X⟩, [Val.str al, v1, .ptr o, v3, .int (0 : Nat), v5]) = neSt3 H O X b2 al v1 (.ptr o) v3 v5 0 := by
    simp only [neSt3, dmBuf, B64IR.heap_set_self H b2 _ hH]
  rw [neFor3_eq, exec_for, neFor3_fuel _ al hal, bindR_ok]
  have := loop_count (fun W env => eval W env neFor3.forCond >>= asBool) (exec c neBody3) (exec c neFor3.forPost)
    (neSt3 H O X b2 al v1 (.ptr o) v3 v5) 64 ?_ ?_ ?_ ?_ (65 : Int).toNat 0 (Nat.zero_le _) (by decide)
  · rw [← h0] at this; exact this
  · intro k hk
    simp only [neSt3, neFor3_cond _ al hal, decide_eq_true hk]
  · simp only [neSt3, neFor3_cond _ al hal]; rfl
  · intro k hk
    simp only [neSt3]
    rw [neBody3_step c _ O X o b2 f0 f2 f3 (dmBuf al k) hO (List.getElem?_set_self hbl) (dmBuf_size al k) al hal k hk,
      andThen_norm, neFor3_post c _ k hk, List.set_set]
    rfl
  · intro k hk
    simp only [neSt3]
    rw [neBody3_step c _ O X o b2 f0 f2 f3 (dmBuf al k) hO (List.getElem?_set_self hbl) (dmBuf_size al k) al hal k hk]
    exact ⟨_, _, rfl⟩

/-! ## `NewEncoding`: the whole function -/

theorem getD_of_getElem (al : Bytes) (k : Nat) (hk : k < al.length) : al.getD k 0 = al[k] := by
  simp [List.getD_eq_getElem?_getD, hk]

theorem newEncoding_proc (c : Ctx) (H : Heap) (O : List Obj) (X : List Ext) (al : Bytes) (hal : al.length = 64)
    (h10 : (10 : UInt8) ∉ al) (h13 : (13 : UInt8) ∉ al) :
    execProc c newEncodingIR ⟨H, O, X⟩ [.str al] =
      .ok (⟨H ++ [al.toArray, (decodeMapBytes ⟨al, some 61, false⟩).toArray],
          O ++ [encObj H.length (H.length + 1) ⟨al, some 61, false⟩], X⟩, [.ptr O.length]) := by
  have hnl : ∀ k, k < 64 → ¬ (al.getD k 0).toNat = 10 ∧ ¬ (al.getD k 0).toNat = 13 := by
    intro k hk
    rw [getD_of_getElem al k (by omega)]
    constructor
    · intro h; apply h10
      have : al[k] = 10 := by rw [← UInt8.ofNat_toNat (x := al[k]), h]; rfl
      rw [← this]; exact List.getElem_mem _
    · intro h; apply h13
      have : al[k] = 13 := by rw [← UInt8.ofNat_toNat (x := al[k]), h]; rfl
      rw [← this]; exact List.getElem_mem _
  rw [execProc_eq c newEncodingIR _ _ rfl, exec_take_drop c _ _ 2]
  show procResult ((exec c nePre ⟨H, O, X⟩ [.str al, .undef, .undef, .undef, .undef, .undef]).andThen
    (exec c (newEncodingIR.body.drop 2))) = _
  rw [nePre_ok c _ al hal, andThen_norm, ne_split2, exec_seq, neLoop1_ok c _ al hal hnl, andThen_norm,
    exec_take_drop c _ _ 5]
  show procResult ((exec c neMid ⟨H, O, X⟩ [.str al, .int (64 : Nat), .undef, .undef, .undef, .undef]).andThen
    (exec c (newEncodingIR.body.drop 8))) = _
  rw [neMid_run c H O X al hal, andThen_norm, ne_split8, exec_seq,
    neLoop2 c _ _ X O.length (H.length + 1) _ _ _ al hal List.getElem?_concat_length (get_append2_1 _ _ _),
    andThen_norm, exec_seq, neAsg_run, andThen_norm, exec_seq, set_append2_1,
    neLoop3 c _ _ X O.length (H.length + 1) _ _ _ al hal List.getElem?_concat_length (get_append2_1 _ _ _),
    andThen_norm, neRet_run, procResult_ret, set_append2_1, dmBuf_full al hal (some 61) false]
  rfl

theorem newEncoding_proc_panic (c : Ctx) (H : Heap) (O : List Obj) (X : List Ext) (al : Bytes)
    (hp : al.length ≠ 64 ∨ (10 : UInt8) ∈ al ∨ (13 : UInt8) ∈ al) :
    execProc c newEncodingIR ⟨H, O, X⟩ [.str al] = .panic := by
  rw [execProc_eq c newEncodingIR _ _ rfl, exec_take_drop c _ _ 2]
  show procResult ((exec c nePre ⟨H, O, X⟩ [.str al, .undef, .undef, .undef, .undef, .undef]).andThen
    (exec c (newEncodingIR.body.drop 2))) = _
  by_cases hal : al.length = 64
  · have hex : ∃ i, i < 64 ∧ ((al.getD i 0).toNat = 10 ∨ (al.getD i 0).toNat = 13) := by
      rcases hp with hp | hp | hp
      · exact absurd hal hp
      · obtain ⟨i, hi, hx⟩ := List.mem_iff_getElem.mp hp
        exact ⟨i, by omega, Or.inl (by rw [getD_of_getElem al i hi, hx]; rfl)⟩
      · obtain ⟨i, hi, hx⟩ := List.mem_iff_getElem.mp hp
        exact ⟨i, by omega, Or.inr (by rw [getD_of_getElem al i hi, hx]; rfl)⟩
    obtain ⟨i, hi, hPi⟩ := hex
    obtain ⟨n, hn, hPn, hlt⟩ := exists_first (fun j => (al.getD j 0).toNat = 10 ∨ (al.getD j 0).toNat = 13) i hPi
    rw [nePre_ok c _ al hal, andThen_norm, ne_split2, exec_seq,
      neLoop1_panic c _ al hal n (by omega) (fun k hk => ⟨fun h => hlt k hk (Or.inl h), fun h => hlt k hk (Or.inr h)⟩) hPn]
    rfl
  · rw [nePre_panic c _ al hal]; rfl

/-! ## The fresh object is an `Encoding`; the old ones stay -/

/-- The world every constructor returns: two fresh buffers and one fresh object hold the encoding `e`. -/
theorem encAt_fresh (H : Heap) (O : List Obj) (e : Encoding) (hlen : e.alphabet.length = 64) :
    EncAt (H ++ [e.alphabet.toArray, (decodeMapBytes e).toArray]) (O ++ [encObj H.length (H.length + 1) e])
      O.length H.length (H.length + 1) e :=
  ⟨List.getElem?_concat_length, get_append2_0 _ _ _, get_append2_1 _ _ _, hlen⟩

/-- Appending buffers and objects keeps every encoding that was there. -/
theorem EncAt.append {H O a b1 b2 e} (h : EncAt H O a b1 b2 e) (H' : Heap) (O' : List Obj) :
    EncAt (H ++ H') (O ++ O') a b1 b2 e := by
  have ha : a < O.length := by
    rcases Nat.lt_or_ge a O.length with h' | h'
    · exact h'
    · have := h.obj; rw [List.getElem?_eq_none h'] at this; cases this
  have h1 : b1 < H.length := B64IR.heap_lt_of_get h.alpha
  have h2 : b2 < H.length := B64IR.heap_lt_of_get h.dmap
  exact h.mono _ _ (List.getElem?_append_left ha) (List.getElem?_append_left h1) (List.getElem?_append_left h2)

end GoCrypt.SIR
