import Lean

/-! The simp set `tiir`: the rules that run a type-info-IR program symbolically (see `Proofs/TIIRBase.lean`). -/

register_simp_attr tiir
