import GoCrypt.Proofs.KdfIRSha2

/-!
# Hash-transcript IR: the HMAC loop of `sha1.Key` = the hand model `sha1Derive`

`Gen.sha1.keyIR` is the part of `sha1.Key` from `h := hmac.New(sha1.New, password)` to the end (the
guards before it are `Gen/Guards.lean`). The loop counts `rounds` down in a `uint32`; `h.Sum(b[:0])`
overwrites the array `b` because an HMAC-SHA1 digest has exactly `len(b)` bytes.
Helper lemmas only; the property theorem is `KdfIR.sha1_ir_eq_model`.
-/

namespace GoCrypt.HashIR
open GoCrypt.Kdf

structure Sha1Calls (c : Ctx) (pfx perm : Bytes) : Prop where
  permute : ∀ b t, c.call "cryptoutil.Permute" [.bytes b, .bytes t] = ofModel (permute b (t.map (·.toNat)))
  prefixBytes : c.globals "sha1.prefixBytes" = some (.bytes pfx)
  permFinal : c.globals "sha1.permFinal" = some (.bytes perm)

theorem sliceOf_full (b : Bytes) : sliceOf b 0 b.length = .ok (.bytes b) := by
  have := sliceOf_zero b b.length
  simpa [sliceTo] using this

attribute [local irreducible] exec in
theorem sha1_key_body (c : Ctx) {pfx perm : Bytes} (hc : Sha1Calls c pfx perm) (hHM : ∀ k m, (c.HM k m).length = 20)
    (pw salt : Bytes) (rounds : Nat) (h1 : 1 ≤ rounds) (hr : rounds < 2 ^ 32) :
    exec c Gen.sha1.keyIR.body (Env.ofList (Gen.sha1.keyIR.params.zip [.bytes pw, .bytes salt, .int rounds])) =
      match sha1Derive c.HM (perm.map (·.toNat)) pfx pw salt rounds with
      | some r => .ret (.bytes r)
      | none => .panic := by
  simp only [Gen.sha1.keyIR, List.zip_cons_cons, List.zip_nil_right, Env.ofList, sha1Derive]
  generalize hs0 : ((Env.empty.set "rounds" (.int rounds)).set "salt" (.bytes salt)).set "password" (.bytes pw) = s0
  have g1 : s0 "password" = some (.bytes pw) := by subst hs0; simp [Env.set]
  have g2 : s0 "salt" = some (.bytes salt) := by subst hs0; simp [Env.set]
  have g3 : s0 "rounds" = some (.int rounds) := by subst hs0; simp [Env.set]
  -- h := hmac.New(sha1.New, password); three writes
  refine exec_seq_ok c _ (exec_assign_ok c _ _ _ (.hmac pw []) (by simp [eval, lookup_some g1])) ?_
  refine exec_seq_ok c _ (exec_write_hmac c _ "h" _ pw [] salt (Env.set_same _ _ _)
    (by simp [eval, Env.set, g2])) ?_
  refine exec_seq_ok c _ (exec_write_hmac c _ "h" _ pw _ pfx (Env.set_same _ _ _)
    (by simp [eval, hc.prefixBytes])) ?_
  refine exec_seq_ok c _ (exec_write_hmac c _ "h" _ pw _ (Strconv.formatUint rounds 10) (Env.set_same _ _ _)
    (by
      have : (0 : Int) ≤ rounds := Int.natCast_nonneg _
      simp [eval, Env.set, g3, this])) ?_
  -- var b [sha1.Size]byte; h.Sum(b[:0])
  refine exec_seq_ok c _ (exec_assign_ok c _ _ _ (.bytes (List.replicate 20 0)) (by simp [eval])) ?_
  refine exec_seq_ok c _ (exec_sumInto_hmac c _ "b" "h" _ pw ([] ++ salt ++ pfx ++ Strconv.formatUint rounds 10)
    (Env.set_same _ _ _) ((Env.set_ne _ _ (by decide)).trans (Env.set_same _ _ _)) (by simp [hHM])) ?_
  simp only [List.nil_append]
  generalize hb0 : c.HM pw (salt ++ pfx ++ Strconv.formatUint rounds 10) = b0
  have hb0len : b0.length = 20 := hb0 ▸ hHM _ _
  -- rounds--
  have hdec : ∀ m : Nat, 1 ≤ m → m < 2 ^ 32 → ((m : Int) - 1) % (2 : Int) ^ 32 = ((m - 1 : Nat) : Int) := by
    intro m hm1 hm2
    have : ((m : Int) - 1) = ((m - 1 : Nat) : Int) := by omega
    rw [this]
    have hlt : m - 1 < 2 ^ 32 := by omega
    exact Int.emod_eq_of_lt (by omega) (by exact_mod_cast hlt)
  have hdecL : ((rounds : Int) - 1) % 4294967296 = ((rounds - 1 : Nat) : Int) := by
    simpa using hdec rounds h1 hr
  refine exec_seq_ok c _ (exec_assign_ok c _ _ _ (.int ((rounds - 1 : Nat) : Int))
    (by simp [eval, Env.set, g3, evalBin, hdecL])) ?_
  -- the loop: `f k` is the environment after `k` iterations
  let B : Nat → Bytes := fun k => sha1Iter c.HM pw k b0
  have hBlen : ∀ k, (B k).length = 20 := fun k => sha1Iter_length c.HM hHM pw b0 hb0len k
  let X : Nat → Bytes := fun k => if k = 0 then salt ++ pfx ++ Strconv.formatUint rounds 10 else B (k - 1)
  let f : Nat → Env := fun k => ((s0.set "h" (.hmac pw (X k))).set "b" (.bytes (B k))).set "rounds"
    (.int ((rounds - 1 - k : Nat) : Int))
  have hstart : (((((((s0.set "h" (.hmac pw [])).set "h" (.hmac pw salt)).set "h" (.hmac pw (salt ++ pfx))).set "h"
      (.hmac pw (salt ++ pfx ++ Strconv.formatUint rounds 10))).set "b" (.bytes (List.replicate 20 0))).set "b"
      (.bytes b0)).set "rounds" (.int ((rounds - 1 : Nat) : Int))) = f 0 := by
    simp only [f, X, B, sha1Iter, if_true, List.nil_append, Nat.sub_zero]
    env_ext
  rw [hstart]
  have hloop := exec_for_count c (.bin .add (.bin .sub (.var "rounds") (.int 0)) (.int 1))
    (.bin .gt (.var "rounds") (.int 0)) (.assign "rounds" (.wrap 32 (.bin .sub (.var "rounds") (.int 1))))
    (.reset "h" ;; .write "h" (.slice (.var "b") (.int 0) (.len (.var "b"))) ;; .sumInto "b" "h")
    f (rounds - 1) (((rounds - 1 : Nat) : Int) + 1)
    (by simp [f, eval, evalBin])
    (by omega)
    (by intro k hk; simp [f, eval, evalBin]; omega)
    (by simp [f, eval, evalBin])
    (by
      intro k hk
      have e1 : exec c (.reset "h") (f k) = .ok ((f k).set "h" (.hmac pw [])) :=
        exec_reset_hmac c _ "h" pw (X k) (by simp [f, Env.set])
      have e2 : exec c (.write "h" (.slice (.var "b") (.int 0) (.len (.var "b")))) ((f k).set "h" (.hmac pw [])) =
          .ok (((f k).set "h" (.hmac pw [])).set "h" (.hmac pw ([] ++ B k))) :=
        exec_write_hmac c _ "h" _ pw [] (B k) (Env.set_same _ _ _) (by simp [f, eval, Env.set, lenOf, sliceOf_full])
      have e3 : exec c (.sumInto "b" "h") (((f k).set "h" (.hmac pw [])).set "h" (.hmac pw ([] ++ B k))) =
          .ok ((((f k).set "h" (.hmac pw [])).set "h" (.hmac pw ([] ++ B k))).set "b" (.bytes (c.HM pw ([] ++ B k)))) :=
        exec_sumInto_hmac c _ "b" "h" (B k) pw _ (by simp [f, Env.set]) (Env.set_same _ _ _) (by simp [hHM, hBlen])
      rw [exec_seq_ok c _ e1 (exec_seq_ok c _ e2 e3), ok_bind]
      have hr' : ((((f k).set "h" (.hmac pw [])).set "h" (.hmac pw ([] ++ B k))).set "b" (.bytes (c.HM pw ([] ++ B k)))) "rounds" =
          some (.int ((rounds - 1 - k : Nat) : Int)) := by simp [f, Env.set]
      rw [exec_assign_ok c _ _ _ (.int ((rounds - 1 - (k + 1) : Nat) : Int))
        (by
          simp only [eval, lookup_some hr', ok_bind, asInt_int, evalBin, pure_eq_ok]
          rw [hdec (rounds - 1 - k) (by omega) (by omega)]
          congr 3)]
      congr 1
      simp only [f, X, B, Nat.add_one_ne_zero, if_false, Nat.add_sub_cancel, sha1Iter, List.nil_append]
      env_ext)
  refine exec_seq_ok c _ hloop ?_
  -- return cryptoutil.Permute(b[:], permFinal[:]), nil
  have hargs : evalArgs c (f (rounds - 1)) [.slice (.var "b") (.int 0) (.len (.var "b")),
      .slice (.global "sha1.permFinal") (.int 0) (.len (.global "sha1.permFinal"))] =
      .ok [.bytes (B (rounds - 1)), .bytes perm] := by
    simp [f, evalArgs, eval, Env.set, lenOf, sliceOf_full, hc.permFinal]
  have hperm := hc.permute (B (rounds - 1)) perm
  show exec c _ (f (rounds - 1)) = match permute (sha1Iter c.HM pw (rounds - 1) b0) (perm.map (·.toNat)) with
    | some r => .ret (.bytes r) | none => .panic
  cases hk : permute (sha1Iter c.HM pw (rounds - 1) b0) (perm.map (·.toNat)) with
  | none =>
    rw [show permute (B (rounds - 1)) _ = none from hk] at hperm
    exact exec_seq_panic c _ (exec_call_panic c _ _ _ _ _ hargs hperm)
  | some r =>
    rw [show permute (B (rounds - 1)) _ = some r from hk] at hperm
    refine exec_seq_ok c _ (exec_call_ok c _ _ _ _ _ _ hargs hperm) ?_
    simp [exec_ret, eval]

theorem sha1_key_proc (c : Ctx) {pfx perm : Bytes} (hc : Sha1Calls c pfx perm) (hHM : ∀ k m, (c.HM k m).length = 20)
    (pw salt : Bytes) (rounds : Nat) (h1 : 1 ≤ rounds) (hr : rounds < 2 ^ 32) :
    execProc c Gen.sha1.keyIR [.bytes pw, .bytes salt, .int rounds] =
      ofModel (sha1Derive c.HM (perm.map (·.toNat)) pfx pw salt rounds) := by
  have key := sha1_key_body c hc hHM pw salt rounds h1 hr
  cases hm : sha1Derive c.HM (perm.map (·.toNat)) pfx pw salt rounds with
  | none => rw [hm] at key; exact execProc_of_panic _ _ _ rfl key
  | some r => rw [hm] at key; exact execProc_of_ret _ _ _ _ rfl key

theorem sha1_calls (H : Bytes → Bytes) (HM : Bytes → Bytes → Bytes) (size d : Nat) :
    Sha1Calls (ctxOf H HM size Gen.sha1.kdfProgram (d + 1)) [36, 115, 104, 97, 49, 36]
      [2, 1, 0, 5, 4, 3, 8, 7, 6, 11, 10, 9, 14, 13, 12, 17, 16, 15, 0, 19, 18] :=
  ⟨fun b t => permute_proc _ b t, rfl, rfl⟩

end GoCrypt.HashIR
