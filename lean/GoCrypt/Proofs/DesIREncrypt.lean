import GoCrypt.Proofs.DesIRKeySched
import GoCrypt.Proofs.DesIter

/-!
# Word IR: `Encrypt` as regenerated is `Des.encrypt`

* `encInner_step`: one iteration of `for _, ks := range kss` is the model's `passStep` (two DES rounds);
* `inner_loop`: the whole `range` loop is the model's fold over the schedule pairs (induction on the list);
* `enc_loop`: `for ; rounds > 0; rounds--` runs the pass-and-swap `rounds` times (induction on the value
  of `rounds`, with the loop invariant "slots l, r hold `desLoop … (rounds₀ - rounds)`");
* `encrypt_body`: the function.

Helper lemmas only; the property theorems are in `Props/DesIR.lean`.
-/

namespace GoCrypt.DesIR
open GoCrypt.Gen.DesIR GoCrypt.Kdf GoCrypt.Kdf.Des GoCrypt.DesIter

/-- The `for ; rounds > 0; rounds--` statement of `Encrypt` and its parts. -/
def encFor : Stmt := proc_Encrypt.body.nth 5
def encRange : Stmt := encFor.forBody.nth 0
def encInner : Stmt := encRange.rangeBody

theorem globals_spe : globals "spe" = some (.tab [8, 64] 0 Gen.des_descrypt.spe) := rfl
theorem globals_ie3264 : globals "ie3264" = some (.tab [8, 16] 0 Gen.des_descrypt.ie3264) := rfl
theorem globals_cf6464 : globals "cf6464" = some (.tab [16, 16] 0 Gen.des_descrypt.cf6464) := rfl

theorem six_lt (x : UInt64) : (x &&& UInt64.ofNat 63).toNat < 64 := by
  have := toNat_and_le x (UInt64.ofNat 63)
  have e : (UInt64.ofNat 63).toNat = 63 := by decide
  omega

theorem indexVal_six (o : Nat) (t : Array Nat) (x : UInt64) :
    indexVal (.tab [64] o t) (x &&& UInt64.ofNat 63).toNat =
      .ok (.u64 (UInt64.ofNat (t.getD (o + (x &&& UInt64.ofNat 63).toNat) 0))) := by
  rw [indexVal_tab _ _ _ _ _ (six_lt x)]; rfl

/-- One iteration of `for _, ks := range kss`: the pair `ks = data[o], data[o+1]`. -/
theorem encInner_step (c : Ctx) (K I R KSS : Val) (s : UInt32) (l r : UInt64) (o : Nat) (D : Array Nat)
    (j8 j9 j10 j11 j12 : Val) :
    ∃ j8' j9' j10' j11' : Val,
    exec c globals encInner [K, I, .u32 s, R, KSS, .u64 l, .u64 r, .tab [2] o D, j8, j9, j10, j11, j12] =
      .norm [K, I, .u32 s, R, KSS,
        .u64 (passStep s.toUInt64 (l, r) (UInt64.ofNat (D.getD (o + 0) 0), UInt64.ofNat (D.getD (o + 1) 0))).1,
        .u64 (passStep s.toUInt64 (l, r) (UInt64.ofNat (D.getD (o + 0) 0), UInt64.ofNat (D.getD (o + 1) 0))).2,
        .tab [2] o D, j8', j9', j10', j11', j12] := by
  refine ⟨?_, ?_, ?_, ?_, ?_⟩
  rotate_left 4
  simp only [encInner, encRange, encFor, proc_Encrypt, Stmt.nth, Stmt.drop, Stmt.head, Stmt.rangeBody, Stmt.forBody,
    desir, indexVal_tab _ _ _ _ _ (by decide : 0 < 2), indexVal_tab _ _ _ _ _ (by decide : 1 < 2),
    eval_global _ _ _ _ globals_spe,
    indexVal_tab _ _ _ _ _ (by decide : 0 < 8), indexVal_tab _ _ _ _ _ (by decide : 1 < 8),
    indexVal_tab _ _ _ _ _ (by decide : 2 < 8), indexVal_tab _ _ _ _ _ (by decide : 3 < 8),
    indexVal_tab _ _ _ _ _ (by decide : 4 < 8), indexVal_tab _ _ _ _ _ (by decide : 5 < 8),
    indexVal_tab _ _ _ _ _ (by decide : 6 < 8), indexVal_tab _ _ _ _ _ (by decide : 7 < 8),
    indexVal_six]
  rfl

/-- The elements `vs` of a `[n][2]uint64` array hold the pairs `ps`. -/
def KsRel : List Val → List (UInt64 × UInt64) → Prop
  | [], [] => True
  | v :: vs, p :: ps =>
    (∃ o D, v = .tab [2] o D ∧ UInt64.ofNat (D.getD (o + 0) 0) = p.1 ∧ UInt64.ofNat (D.getD (o + 1) 0) = p.2) ∧
      KsRel vs ps
  | _, _ => False

theorem list6 (J : List Val) (h : J.length = 6) : ∃ a b c d e f, J = [a, b, c, d, e, f] := by
  match J, h with
  | [a, b, c, d, e, f], _ => exact ⟨a, b, c, d, e, f, rfl⟩

/-- `for _, ks := range kss { … }` is the model's fold of `passStep` over the pairs. Slots 7–12 (`ks`,
`ksEven`, `ksOdd`, `k`, `b`, `c`) hold whatever the iterations leave there. -/
theorem inner_loop (c : Ctx) (K I R KSS : Val) (s : UInt32) :
    ∀ (vs : List Val) (ps : List (UInt64 × UInt64)), KsRel vs ps →
      ∀ (i : Nat) (l r : UInt64) (J : List Val), J.length = 6 →
        ∃ J' : List Val, J'.length = 6 ∧
          rangeLoop none (some 7) (exec c globals encInner) i vs
              (K :: I :: .u32 s :: R :: KSS :: .u64 l :: .u64 r :: J) =
            .norm (K :: I :: .u32 s :: R :: KSS :: .u64 (ps.foldl (passStep s.toUInt64) (l, r)).1 ::
              .u64 (ps.foldl (passStep s.toUInt64) (l, r)).2 :: J') := by
  intro vs
  induction vs with
  | nil =>
    intro ps h i l r J hJ
    cases ps with
    | nil => exact ⟨J, hJ, rfl⟩
    | cons p ps => exact h.elim
  | cons v vs ih =>
    intro ps h i l r J hJ
    cases ps with
    | nil => exact h.elim
    | cons p ps =>
      obtain ⟨⟨o, D, rfl, h1, h2⟩, hrest⟩ := h
      obtain ⟨j7, j8, j9, j10, j11, j12, rfl⟩ := list6 J hJ
      rw [rangeLoop_cons]
      simp only [desir]
      obtain ⟨j8', j9', j10', j11', hstep⟩ := encInner_step c K I R KSS s l r o D j8 j9 j10 j11 j12
      rw [hstep, andThen_norm, h1, h2]
      obtain ⟨J', hJ', hl⟩ := ih ps hrest (i + 1) (passStep s.toUInt64 (l, r) p).1 (passStep s.toUInt64 (l, r) p).2
        [.tab [2] o D, j8', j9', j10', j11', j12] rfl
      exact ⟨J', hJ', hl⟩

theorem encFor_eq : encFor = .for_ (.var 3) (.bin .gt (.var 3) (.lit .u32 0))
    (.assign [3] [.bin .sub (.var 3) (.lit .u32 1)])
    (.range none (some 7) (.var 4) encInner ;;; .assign [5, 6] [.var 6, .var 5]) := rfl

theorem desLoop_succ' (kss : List (UInt64 × UInt64)) (σ : UInt64) (n : Nat) (l r : UInt64) :
    desLoop kss σ (n + 1) (l, r) =
      desLoop kss σ n ((kss.foldl (passStep σ) (l, r)).2, (kss.foldl (passStep σ) (l, r)).1) := by
  rw [desLoop, desPass_eq_foldl]

/-- Condition, body and post statement of the `rounds` loop as functions of the frame. -/
def encCond : Env → Res Bool := fun env => eval globals env (.bin .gt (.var 3) (.lit .u32 0)) >>= asBool
def encBodyF (c : Ctx) : Env → Out :=
  exec c globals (.range none (some 7) (.var 4) encInner ;;; .assign [5, 6] [.var 6, .var 5])
def encPostF (c : Ctx) : Env → Out := exec c globals (.assign [3] [.bin .sub (.var 3) (.lit .u32 1)])

theorem encCond_eval (K I S : Val) (rounds : UInt32) (rest : Env) :
    encCond (K :: I :: S :: .u32 rounds :: rest) = .ok (decide (UInt32.ofNat 0 < rounds)) := by
  simp only [encCond, desir]

theorem encPostF_eval (c : Ctx) (K I S : Val) (rounds : UInt32) (rest : Env) :
    encPostF c (K :: I :: S :: .u32 rounds :: rest) = .norm (K :: I :: S :: .u32 (rounds - UInt32.ofNat 1) :: rest) := by
  simp only [encPostF, desir]

theorem encBodyF_eval (c : Ctx) (K I R : Val) (d : List Nat) (o : Nat) (D : Array Nat) (s : UInt32)
    (vs : List Val) (ps : List (UInt64 × UInt64)) (hv : elems (.tab d o D) = .ok vs) (hr : KsRel vs ps)
    (l r : UInt64) (J : List Val) (hJ : J.length = 6) :
    ∃ J' : List Val, J'.length = 6 ∧
      encBodyF c (K :: I :: .u32 s :: R :: .tab d o D :: .u64 l :: .u64 r :: J) =
        .norm (K :: I :: .u32 s :: R :: .tab d o D :: .u64 (ps.foldl (passStep s.toUInt64) (l, r)).2 ::
          .u64 (ps.foldl (passStep s.toUInt64) (l, r)).1 :: J') := by
  obtain ⟨J1, hJ1, h1⟩ := inner_loop c K I R (.tab d o D) s vs ps hr 0 l r J hJ
  refine ⟨J1, hJ1, ?_⟩
  simp only [encBodyF, desir, hv]
  rw [h1]
  simp only [desir]

/-- `for ; rounds > 0; rounds-- { pass; l, r = r, l }` runs the model's `desLoop` for the value of `rounds`
on entry (induction on that value; the fuel only has to be at least as large). -/
theorem enc_loop (c : Ctx) (K I : Val) (d : List Nat) (o : Nat) (D : Array Nat) (s : UInt32)
    (vs : List Val) (ps : List (UInt64 × UInt64)) (hv : elems (.tab d o D) = .ok vs) (hr : KsRel vs ps) :
    ∀ (n fuel : Nat) (rounds : UInt32) (l r : UInt64) (J : List Val), J.length = 6 → rounds.toNat = n → n ≤ fuel →
      ∃ J' : List Val, J'.length = 6 ∧
        loop encCond (encBodyF c) (encPostF c) fuel
            (K :: I :: .u32 s :: .u32 rounds :: .tab d o D :: .u64 l :: .u64 r :: J) =
          .norm (K :: I :: .u32 s :: .u32 0 :: .tab d o D :: .u64 (desLoop ps s.toUInt64 n (l, r)).1 ::
            .u64 (desLoop ps s.toUInt64 n (l, r)).2 :: J') := by
  intro n
  induction n with
  | zero =>
    intro fuel rounds l r J hJ hn _
    have h0 : rounds = 0 := UInt32.toNat_inj.mp hn
    subst h0
    refine ⟨J, hJ, ?_⟩
    rw [loop_eq, encCond_eval]
    rfl
  | succ n ih =>
    intro fuel rounds l r J hJ hn hf
    obtain ⟨f, rfl⟩ : ∃ f, fuel = f + 1 := ⟨fuel - 1, by omega⟩
    have hpos : decide ((UInt32.ofNat 0) < rounds) = true := by
      rw [decide_eq_true_eq, UInt32.lt_iff_toNat_lt, hn]; exact Nat.succ_pos n
    have hle : (UInt32.ofNat 1) ≤ rounds := by
      rw [UInt32.le_iff_toNat_le, hn]; exact Nat.succ_le_succ (Nat.zero_le n)
    have hsub : (rounds - UInt32.ofNat 1).toNat = n := by
      rw [UInt32.toNat_sub_of_le _ _ hle, hn]; rfl
    obtain ⟨J1, hJ1, h1⟩ := encBodyF_eval c K I (.u32 rounds) d o D s vs ps hv hr l r J hJ
    obtain ⟨J', hJ', h2⟩ := ih f (rounds - UInt32.ofNat 1) (ps.foldl (passStep s.toUInt64) (l, r)).2
      (ps.foldl (passStep s.toUInt64) (l, r)).1 J1 hJ1 hsub (by omega)
    refine ⟨J', hJ', ?_⟩
    rw [loop_eq, encCond_eval, hpos, bindR_ok, if_pos rfl]
    show ((encBodyF c _).andThen (encPostF c)).andThen (loop encCond (encBodyF c) (encPostF c) f) = _
    rw [h1, andThen_norm, encPostF_eval, andThen_norm, h2, desLoop_succ']

/-- What `Encrypt` may assume about the functions it calls. -/
structure EncCalls (c : Ctx) : Prop where
  ks : ∀ key : UInt64, c.call "keySchedules" [.u64 key] = .ok (ksVal (keySchedules key))
  p816 : ∀ (x : UInt64) (t : Array Nat), c.call "permute816" [.u64 x, .tab [8, 16] 0 t] = .ok (.u64 (permuteNib t 8 x))
  p1616 : Perm1616Spec c

theorem ksFlat_append (a b : List (UInt64 × UInt64)) : ksFlat (a ++ b) = ksFlat a ++ ksFlat b := by
  simp [ksFlat, List.flatMap_append]

theorem ksFlat_length (a : List (UInt64 × UInt64)) : (ksFlat a).length = a.length * 2 := by
  induction a with
  | nil => rfl
  | cons p a ih => simp [ksFlat] at ih ⊢; omega

theorem getD_flat (A B : List Nat) (x y : Nat) (n : Nat) (h : A.length = n) :
    (A ++ x :: y :: B).toArray.getD n 0 = x ∧ (A ++ x :: y :: B).toArray.getD (n + 1) 0 = y := by
  subst h
  constructor
  · simp
  · simp

/-- Rows `pre.length …` of the array of the pairs `pre ++ l` hold the pairs `l`. -/
theorem ksRel_general (l : List (UInt64 × UInt64)) : ∀ pre : List (UInt64 × UInt64),
    KsRel ((List.range' pre.length l.length).map (tabElem [2] 0 (ksFlat (pre ++ l)).toArray)) l := by
  induction l with
  | nil => intro pre; exact trivial
  | cons p l ih =>
    intro pre
    rw [List.length_cons, List.range'_succ, List.map_cons]
    have e : ksFlat (pre ++ p :: l) = ksFlat pre ++ p.1.toNat :: p.2.toNat :: ksFlat l := by
      rw [ksFlat_append]; rfl
    have h := getD_flat (ksFlat pre) (ksFlat l) p.1.toNat p.2.toNat (pre.length * 2) (ksFlat_length pre)
    refine ⟨⟨0 + pre.length * dimsSize [2], _, rfl, ?_, ?_⟩, ?_⟩
    · rw [e]
      simp only [dimsSize, Nat.mul_one, Nat.zero_add, Nat.add_zero]
      rw [h.1]; exact UInt64.ofNat_toNat
    · rw [e]
      simp only [dimsSize, Nat.mul_one, Nat.zero_add]
      rw [h.2]; exact UInt64.ofNat_toNat
    · have := ih (pre ++ [p])
      rw [List.length_append, List.length_singleton, List.append_assoc, List.singleton_append] at this
      exact this

/-- The elements of a `[n][2]uint64` array of pairs (what `range` iterates over) are those pairs, for any `n`. -/
theorem ksVal_elems (l : List (UInt64 × UInt64)) : ∃ vs, elems (ksVal l) = .ok vs ∧ KsRel vs l := by
  refine ⟨_, rfl, ?_⟩
  have := ksRel_general l []
  rw [List.range_eq_range']
  exact this

/-- The statements of `Encrypt` before the `rounds` loop. -/
theorem enc_prefix (c : Ctx) (hc : EncCalls c) (key input : UInt64) (salt rounds : UInt32) :
    exec c globals (proc_Encrypt.body.take 5)
        [.u64 key, .u64 input, .u32 salt, .u32 rounds, .undef, .undef, .undef, .undef, .undef, .undef, .undef, .undef, .undef] =
      .norm [.u64 key, .u64 input, .u32 (expandSalt salt), .u32 rounds, ksVal (keySchedules key),
        .u64 (if input != 0 then permuteNib Gen.des_descrypt.ie3264 8 (((input >>> 31) &&& (0xAAAAAAAA : UInt64)) ||| (input &&& (0x55555555 : UInt64))) else 0),
        .u64 (if input != 0 then permuteNib Gen.des_descrypt.ie3264 8 (((input >>> 32) &&& (0xAAAAAAAA : UInt64)) ||| ((input >>> 1) &&& (0x55555555 : UInt64))) else 0),
        .undef, .undef, .undef, .undef, .undef, .undef] := by
  by_cases h : input = 0
  · subst h
    have hb : ((0 : UInt64) != UInt64.ofNat 0) = false := by decide
    simp only [proc_Encrypt, Stmt.take, desir, hc.ks, zeroVal, hb, Bool.false_eq_true, if_false]
    rfl
  · have hb : (input != UInt64.ofNat 0) = true := by simpa using h
    have hb' : (input != 0) = true := hb
    simp only [proc_Encrypt, Stmt.take, desir, hc.ks, zeroVal, hb, hb', if_true, eval_global _ _ _ _ globals_ie3264, hc.p816]
    rfl

theorem exec_encFor (c : Ctx) (env : Env) :
    exec c globals encFor env =
      bindR (eval globals env (.var 3) >>= asCount) fun n => loop encCond (encBodyF c) (encPostF c) n env := by
  rw [encFor_eq]; rfl

/-- `Encrypt(key, input, salt, rounds)` as regenerated is the model's `encrypt`. -/
theorem encrypt_body (c : Ctx) (hc : EncCalls c) (key input : UInt64) (salt rounds : UInt32) :
    execProc c globals proc_Encrypt [.u64 key, .u64 input, .u32 salt, .u32 rounds] =
      .ok (.u64 (encrypt key input salt rounds.toNat)) := by
  apply execProc_of_ret _ _ _ _ _ rfl
  show exec c globals proc_Encrypt.body
    [.u64 key, .u64 input, .u32 salt, .u32 rounds, .undef, .undef, .undef, .undef, .undef, .undef, .undef, .undef, .undef] = _
  rw [exec_take_drop c globals 5, enc_prefix c hc, andThen_norm]
  have hdrop : proc_Encrypt.body.drop 5 = (encFor ;;; proc_Encrypt.body.nth 6 ;;; proc_Encrypt.body.nth 7) := rfl
  obtain ⟨vs, hv, hr⟩ := ksVal_elems (keySchedules key)
  rw [hdrop, exec_seq, exec_encFor]
  unfold ksVal at hv ⊢
  simp only [desir]
  obtain ⟨J', hJ', hl⟩ := enc_loop c (.u64 key) (.u64 input) _ _ _ (expandSalt salt) vs (keySchedules key) hv hr
    rounds.toNat rounds.toNat rounds
    (if input != 0 then permuteNib Gen.des_descrypt.ie3264 8 (((input >>> 31) &&& (0xAAAAAAAA : UInt64)) ||| (input &&& (0x55555555 : UInt64))) else 0)
    (if input != 0 then permuteNib Gen.des_descrypt.ie3264 8 (((input >>> 32) &&& (0xAAAAAAAA : UInt64)) ||| ((input >>> 1) &&& (0x55555555 : UInt64))) else 0)
    [.undef, .undef, .undef, .undef, .undef, .undef] rfl rfl (Nat.le_refl _)
  obtain ⟨j7, j8, j9, j10, j11, j12, rfl⟩ := list6 J' hJ'
  rw [hl]
  simp only [proc_Encrypt, Stmt.nth, Stmt.drop, Stmt.head, desir, eval_global _ _ _ _ globals_cf6464, hc.p1616 _ _]
  unfold encrypt
  cases hb : (input != 0) <;> simp only [Bool.false_eq_true, if_true, if_false] <;> rfl

end GoCrypt.DesIR
