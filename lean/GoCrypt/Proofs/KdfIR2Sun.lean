import GoCrypt.Proofs.KdfIR2Base
import GoCrypt.Proofs.KdfIR2SunModel
import GoCrypt.Gen.KdfIR2

/-!
# Second-generation IR: the round loop of `sunmd5.Key` = the hand model

`Gen.KdfIR2.sunmd5.proc_Key` is `sunmd5.Key` from `rounds += BasicRounds` on (the statements after
`crypthash.Marshal`), with the closure `bit` lambda-lifted to `proc_Key_func1`. For every hash function
with 16-byte digests, interpreting it gives `Kdf.sunmd5Derive`. Helper lemmas only; the property
theorems are in `Props/KdfIR2.lean`.
-/

namespace GoCrypt.HashIR2
open GoCrypt.Gen.KdfIR2 GoCrypt.Kdf GoCrypt.SunMd5

set_option linter.unusedSimpArgs false

/-! ## The closure `bit` -/

/-- A byte's bit `k`, the way `bit` tests it (`b & (1 << k) != 0`) and the way the model reads it. -/
theorem byte_bit (b : Fin 256) (k : Fin 8) :
    (if (b.val &&& ((1 <<< k.val) % 256)) ≠ 0 then 1 else 0) = (b.val >>> k.val) % 2 := by
  revert b k; decide +kernel

theorem sunmd5_bit_proc (c : Ctx) (d : Bytes) (hd : d.length = 16) (off : Nat) :
    execProc c sunmd5.proc_Key_func1 [.bytes d, nat off] = .ok (nat (bitN d off)) := by
  apply execProc_of_ret _ _ _ _ rfl (by decide)
  simp only [sunmd5.proc_Key_func1, Env.init, List.map, List.length, List.replicate]
  have hi : off % 128 / 8 < d.length := by omega
  have e : ((1 <<< (off % 8) : Nat) : Int) % 256 = ((1 <<< (off % 8) % 256 : Nat) : Int) := by omega
  ir_simp [hi, e]
  have hb := byte_bit ⟨d[off % 128 / 8].toNat, d[off % 128 / 8].toNat_lt⟩ ⟨off % 8, by omega⟩
  have hk : off % 128 % 8 = off % 8 := by omega
  have hg : d.getD (off % 128 / 8) 0 = d[off % 128 / 8] := by simp [List.getD, hi]
  simp only [bitN, hk, hg, ← hb]
  by_cases h0 : d[off % 128 / 8].toNat &&& 1 <<< (off % 8) % 256 = 0
  · ir_simp [h0]
  · ir_simp [h0]

/-! ## `sunmd5.Key` from `rounds += BasicRounds` on -/

structure SunCalls (c : Ctx) (phrase perm : Bytes) : Prop where
  bit : ∀ d (off : Nat), d.length = 16 → c.call "sunmd5.Key.func1" [.bytes d, nat off] = .ok (nat (bitN d off))
  permute : ∀ b t, c.call "cryptoutil.Permute" [.bytes b, .bytes t] = ofModel (permute b (t.map (·.toNat)))
  phrase : c.globals "sunmd5.phrase" = some (.bytes phrase)
  permFinal : c.globals "sunmd5.permFinal" = some (.bytes perm)

/-- Overwriting a buffer front to back: element `m` of the new contents over the old ones. -/
theorem take_append_drop_set {α : Type} (A B : List α) (x : α) (m : Nat) (hA : m < A.length) (hB : A.length = B.length)
    (hx : A[m] = x) : (A.take m ++ B.drop m).set m x = A.take (m + 1) ++ B.drop (m + 1) := by
  have hlen : (A.take m).length = m := by simp only [List.length_take]; omega
  rw [List.set_append_right _ _ (by omega), hlen, Nat.sub_self]
  have hd : B.drop m = B[m] :: B.drop (m + 1) := by
    rw [List.drop_eq_getElem_cons (by omega)]
  rw [hd, List.set_cons_zero, List.take_succ_eq_append_getElem hA, hx, List.append_assoc]
  rfl

/-- The hash object at the start of round `k`. -/
def sunW (H : Bytes → Bytes) (phrase pw ss : Bytes) : Nat → Bytes
  | 0 => pw ++ ss
  | k + 1 =>
    let d := roundsN H phrase k (H (pw ++ ss))
    d ++ (if coinN d k then phrase else []) ++ Strconv.formatUint k 10

/-- The array `ind7` at the start of round `k`. -/
def sunI7 (H : Bytes → Bytes) (phrase pw ss : Bytes) : Nat → Bytes
  | 0 => List.replicate 16 0
  | k + 1 => (List.range 16).map fun j => UInt8.ofNat (i7 (roundsN H phrase k (H (pw ++ ss))) j)

theorem sunI7_length (H : Bytes → Bytes) (phrase pw ss : Bytes) : ∀ k, (sunI7 H phrase pw ss k).length = 16
  | 0 => by simp [sunI7]
  | k + 1 => by simp [sunI7]

theorem sunmd5_key_body (c : Ctx) {phrase perm : Bytes} (hc : SunCalls c phrase perm) (hH : ∀ x, (c.H x).length = 16)
    (pw ss : Bytes) (rounds : Nat) :
    exec c sunmd5.proc_Key.body (Env.init 21 [.bytes pw, nat rounds, .bytes ss]) =
      match permute (roundsN c.H phrase ((rounds + 4096) % 4294967296) (c.H (pw ++ ss))) (perm.map (·.toNat)) with
      | some r => .ret (.bytes r)
      | none => .panic := by
  simp only [sunmd5.proc_Key, Env.init, List.map, List.length, List.replicate]
  obtain ⟨n, hn⟩ : ∃ n : Nat, n = (rounds + 4096) % 4294967296 := ⟨_, rfl⟩
  have e : ((rounds : Int) + 4096) % 4294967296 = (n : Int) := by omega
  ir_simp [e]
  rw [← hn]
  have hnlt : n < 4294967296 := by omega
  generalize hd0 : c.H (pw ++ ss) = d0
  have hd0len : d0.length = 16 := hd0 ▸ hH _
  have hDlen : ∀ k, (roundsN c.H phrase k d0).length = 16 := roundsN_length c.H hH phrase d0 hd0len
  rw [exec_for_count c _ _ _ _ _ (fun k => [some (.bytes pw), some (nat n), some (.bytes ss),
      some (.hash (sunW c.H phrase pw ss k)), some (.bytes (roundsN c.H phrase k d0)),
      some (.bytes (sunI7 c.H phrase pw ss k)), some (nat k),
      none, none, none, none, none, none, none, none, none, none, none, none, none, none]) n ((n : Int) + 1)]
  · -- after the loop: return cryptoutil.Permute(digest, permFinal[:]), nil
    have hp := hc.permute (roundsN c.H phrase n d0) perm
    cases hk : permute (roundsN c.H phrase n d0) (perm.map (·.toNat)) with
    | none =>
      rw [hk] at hp
      ir_simp [hc.permFinal, sliceOf_full, hp, ofModel]
    | some r =>
      rw [hk] at hp
      ir_simp [hc.permFinal, sliceOf_full, hp, ofModel]
  · simp [sunW, sunI7, roundsN]
  · ir_simp
  · omega
  · intro k hk
    ir_simp
    omega
  · ir_simp
  · intro k hk
    generalize hd : roundsN c.H phrase k d0 = d
    have hdlen : d.length = 16 := hd ▸ hDlen k
    generalize hI : sunI7 c.H phrase pw ss k = I
    have hIlen : I.length = 16 := hI ▸ sunI7_length c.H phrase pw ss k
    generalize sunW c.H phrase pw ss k = w
    ir_simp
    -- first inner loop: ind7[j] for j < 16
    obtain ⟨L, hL⟩ : ∃ L : Bytes, L = (List.range 16).map fun j => UInt8.ofNat (i7 d j) := ⟨_, rfl⟩
    have hLlen : L.length = 16 := by simp [hL]
    rw [exec_for_count c _ _ _ _ _ (fun m => [some (.bytes pw), some (nat n), some (.bytes ss), some (.hash d),
        some (.bytes d), some (.bytes (L.take m ++ I.drop m)), some (nat k), some (nat m),
        none, none, none, none, none, none, none, none, none, none, none, none, none]) 16 17]
    rotate_left
    · simp
    · ir_simp
    · decide
    · intro m hm
      ir_simp
      omega
    · ir_simp
    · intro m hm
      have h15 : ∀ x : Nat, x &&& 15 < d.length := fun x => by rw [hdlen]; exact Nat.lt_succ_of_le Nat.and_le_right
      have hm1 : m < d.length := by omega
      have hm3 : (m + 3) % 16 < d.length := by omega
      have h127 : ∀ x : Nat, x &&& 127 < 256 := fun x => Nat.lt_of_le_of_lt Nat.and_le_right (by decide)
      have hbuf : m < (L.take m ++ I.drop m).length := by
        simp only [List.length_append, List.length_take, List.length_drop]; omega
      ir_simp [evalBin_rem_nonneg, hm1, hm3, h15, storeByte_nat _ _ _ (h127 _) hbuf]
      apply take_append_drop_set L I _ m (by omega) (by omega)
      have hg : ∀ j, (hj : j < d.length) → d[j]?.getD 0 = d[j] := fun j hj => by simp [hj]
      subst hL
      simp [i7, hg _ hm1, hg _ hm3, hg _ (h15 _)]
    have hfull : List.take 16 L ++ List.drop 16 I = L := by
      rw [List.take_of_length_le (by omega), List.drop_of_length_le (by omega), List.append_nil]
    ir_simp [hfull]
    -- second inner loop: indA, indB
    have hLget : ∀ j, (hj : j < L.length) → L[j].toNat = i7 d j := by
      intro j hj
      subst hL
      have := i7_lt d j
      simp only [List.getElem_map, List.getElem_range, UInt8.toNat_ofNat']
      omega
    have hbit : ∀ off : Nat, c.call "sunmd5.Key.func1" [.bytes d, nat off] = .ok (nat (bitN d off)) :=
      fun off => hc.bit d off hdlen
    have hbit2 : ∀ x, bitN d x < 2 := fun x => Nat.mod_lt _ (by decide)
    rw [exec_for_count c _ _ _ _ _ (fun m => [some (.bytes pw), some (nat n), some (.bytes ss), some (.hash d),
        some (.bytes d), some (.bytes L), some (nat k), none, none, none, none,
        some (nat (indN d 0 m)), some (nat (indN d 8 m)), some (nat m),
        none, none, none, none, none, none, none]) 8 9]
    rotate_left
    · simp [indN]
    · ir_simp
    · decide
    · intro m hm
      ir_simp
      omega
    · ir_simp
    · intro m hm
      obtain ⟨m8, hm8⟩ : ∃ m8 : Nat, m8 = m + 8 := ⟨_, rfl⟩
      have e8 : ((m : Int) + 8) % 18446744073709551616 = (m8 : Int) := by omega
      have hmL : m < L.length := by omega
      have hm8L : m8 < L.length := by omega
      have hsh : ∀ x, ((bitN d x <<< m : Nat) : Int) % 4294967296 = ((bitN d x <<< m : Nat) : Int) := by
        intro x
        have h1 := hbit2 x
        have h2 : bitN d x <<< m ≤ 1 <<< 7 := by
          rw [Nat.shiftLeft_eq, Nat.shiftLeft_eq]
          exact Nat.mul_le_mul (by omega) (Nat.pow_le_pow_right (by decide) (by omega))
        have h3 : (1 : Nat) <<< 7 = 128 := by decide
        generalize bitN d x <<< m = v at h2 ⊢
        omega
      ir_simp [e8, hmL, hm8L, hLget, hbit, hsh]
      subst hm8
      refine ⟨by simp [indN], by simp [indN], by omega⟩
    obtain ⟨k64, hk64⟩ : ∃ k64 : Nat, k64 = (k + 64) % 4294967296 := ⟨_, rfl⟩
    have e64 : ((k : Int) + 64) % 4294967296 = (k64 : Int) := by omega
    have ek1 : ((k : Int) + 1) % 4294967296 = (k : Int) + 1 := by omega
    have hW : sunW c.H phrase pw ss (k + 1) = d ++ (if coinN d k then phrase else []) ++ Strconv.formatUint k 10 := by
      simp only [sunW, hd0, hd]
    have hD1 : roundsN c.H phrase (k + 1) d0 =
        c.H (d ++ (if coinN d k then phrase else []) ++ Strconv.formatUint k 10) := by
      simp only [roundsN, hd]
    have hI1 : sunI7 c.H phrase pw ss (k + 1) = L := by simp only [sunI7, hd0, hd, hL]
    rw [hW, hD1, hI1]
    have hcoin : coinN d k = decide (bitN d (indN d 0 8 >>> bitN d k &&& 127) ^^^
        bitN d (indN d 8 8 >>> bitN d k64 &&& 127) = 1) := by
      simp only [coinN, hk64]; rfl
    by_cases hx : bitN d (indN d 0 8 >>> bitN d k &&& 127) ^^^ bitN d (indN d 8 8 >>> bitN d k64 &&& 127) = 1
    · rw [hcoin]
      have hxi : ((bitN d (indN d 0 8 >>> bitN d k &&& 127) ^^^ bitN d (indN d 8 8 >>> bitN d k64 &&& 127) : Nat) : Int) = 1 := by
        omega
      ir_simp [e64, ek1, hbit, hc.phrase, hx, hxi]
    · rw [hcoin]
      have hxi : ¬ ((bitN d (indN d 0 8 >>> bitN d k &&& 127) ^^^ bitN d (indN d 8 8 >>> bitN d k64 &&& 127) : Nat) : Int) = 1 := by
        omega
      ir_simp [e64, ek1, hbit, hc.phrase, hx, hxi]

theorem sunmd5_key_proc (c : Ctx) {phrase perm : Bytes} (hc : SunCalls c phrase perm) (hH : ∀ x, (c.H x).length = 16)
    (pw ss : Bytes) (rounds : Nat) :
    execProc c sunmd5.proc_Key [.bytes pw, nat rounds, .bytes ss] =
      ofModel (permute (roundsN c.H phrase ((rounds + 4096) % 4294967296) (c.H (pw ++ ss))) (perm.map (·.toNat))) := by
  have key := sunmd5_key_body c hc hH pw ss rounds
  cases hm : permute (roundsN c.H phrase ((rounds + 4096) % 4294967296) (c.H (pw ++ ss))) (perm.map (·.toNat)) with
  | none => rw [hm] at key; exact execProc_of_panic _ _ _ rfl (by decide) key
  | some r => rw [hm] at key; exact execProc_of_ret _ _ _ _ rfl (by decide) key

end GoCrypt.HashIR2
