import GoCrypt.Proofs.SIRDecShort

/-!
# Stream IR, decoder side: `(*decoder).Read` with at least 4 symbols buffered

`nr := d.nbuf / 4 * 4; nw := d.nbuf / 4 * 3`, then `Decode` into `d.outbuf` (if `p` is too small) or straight into
`p`, then the unused symbols move to the front of `d.buf`. Helper lemmas only.
-/

namespace GoCrypt.SIR
open GoCrypt.B64IR (Buf Heap Slice Res sliceBytes writeList writeList_size writeList_append heap_set_self heap_lt_of_get padInt)
open GoCrypt.Base64LE GoCrypt.Stream GoCrypt.Gen.base64leStream

def drMain : Stmt := decoderReadIR.body.drop 6
/-- `nr := d.nbuf / 4 * 4; nw := d.nbuf / 4 * 3` -/
def drMainPre : Stmt := drMain.take 2
/-- `if nw > len(p) { … } else { … }` -/
def drMainIte : Stmt := (drMain.drop 2).head
/-- `d.nbuf -= nr; copy(d.buf[:d.nbuf], d.buf[nr:]); return n, d.err` -/
def drMainPost : Stmt := drMain.drop 3

theorem drMain_split : drMain = (drMainPre.head ;; (drMainPre.drop 1).head ;; drMainIte ;; drMainPost) := rfl

theorem drMainPre_run (c : Ctx) (H : Heap) (O : List Obj) (X : List Ext) (d ae nf bb bo nbuf : Nat) (ow : Slice) (err rerr : Option Nat)
    (v1 v2 v3 v4 v5 v6 v7 : Val) (hobj : O[d]? = some (decObj err rerr ae nf bb nbuf ow bo)) (hnb : nbuf ≤ 1024) :
    exec c drMainPre ⟨H, O, X⟩ [.ptr d, v1, v2, v3, v4, v5, v6, v7] =
      .norm ⟨H, O, X⟩ [.ptr d, v1, v2, v3, v4, v5, .int (nbuf / 4 * 4 : Nat), .int (nbuf / 4 * 3 : Nat)] := by
  simp only [drMainPre, drMain, Stmt.take, Stmt.drop, decoderReadIR]
  b64_simp [hobj, decObj]

/-- `p` is too small: decode into `d.outbuf`, deliver what fits. -/
theorem drMainIte_small (c : Ctx) (H : Heap) (O : List Obj) (X : List Ext) (d ae nf bb bo bp nbuf plen nr nw rn : Nat) (ow : Slice)
    (err rerr re : Option Nat) (D' Bp : Buf) (v2 v3 v4 v5 : Val)
    (hobj : O[d]? = some (decObj err rerr ae nf bb nbuf ow bo))
    (hcall : c.call "Encoding.Decode" ⟨H, O, X⟩ [.ptr ae, .slice ⟨bo, 0, 768, 768⟩, .slice ⟨bb, 0, nr, 1024⟩] =
      .ok (⟨H.set bo D', O, X⟩, [.int rn, .err re]))
    (hbo : bo < H.length) (hD : D'.size = 768) (hrn : rn ≤ 768) (hnr : nr ≤ 1024)
    (hbp : H[bp]? = some Bp) (hne : bp ≠ bo) (hsz : plen ≤ Bp.size) (hnw : plen < nw) :
    exec c drMainIte ⟨H, O, X⟩ [.ptr d, .slice ⟨bp, 0, plen, plen⟩, v2, v3, v4, v5, .int nr, .int nw] =
      .norm ⟨(H.set bo D').set bp (writeList Bp 0 ((D'.toList.take rn).take plen)),
          O.set d (decObj re rerr ae nf bb nbuf ⟨bo, min plen rn, rn - min plen rn, 768 - min plen rn⟩ bo), X⟩
        [.ptr d, .slice ⟨bp, 0, plen, plen⟩, .int (min plen rn : Nat), v3, v4, v5, .int nr, .int rn] := by
  have hdl := lt_of_getElem? hobj
  have hsl := sliceBytes_prefixD (H.set bo D') bo rn 768 D' (List.getElem?_set_self hbo) (by omega)
  have hbp' : (H.set bo D')[bp]? = some Bp := (List.getElem?_set_ne (Ne.symm hne)).trans hbp
  simp only [drMainIte, drMain, Stmt.head, Stmt.drop, decoderReadIR]
  b64_simp [hobj, decObj, hcall, hsl, srcBytes, copyVal, writeSlice, hbp', List.length_take, hD, Nat.sub_zero, Int.sub_zero, hnw]
  have hm : min rn D'.toList.length = rn := by rw [Array.length_toList, hD]; omega
  rw [hm]

/-- `p` is large enough: decode straight into `p`. -/
theorem drMainIte_direct (c : Ctx) (H : Heap) (O : List Obj) (X : List Ext) (d ae nf bb bo bp nbuf plen nr nw rn : Nat) (ow : Slice)
    (err rerr re : Option Nat) (D' : Buf) (v2 v3 v4 v5 : Val)
    (hobj : O[d]? = some (decObj err rerr ae nf bb nbuf ow bo))
    (hcall : c.call "Encoding.Decode" ⟨H, O, X⟩ [.ptr ae, .slice ⟨bp, 0, plen, plen⟩, .slice ⟨bb, 0, nr, 1024⟩] =
      .ok (⟨H.set bp D', O, X⟩, [.int rn, .err re]))
    (hnr : nr ≤ 1024) (hnw : ¬ plen < nw) :
    exec c drMainIte ⟨H, O, X⟩ [.ptr d, .slice ⟨bp, 0, plen, plen⟩, v2, v3, v4, v5, .int nr, .int nw] =
      .norm ⟨H.set bp D', O.set d (decObj re rerr ae nf bb nbuf ow bo), X⟩
        [.ptr d, .slice ⟨bp, 0, plen, plen⟩, .int rn, v3, v4, v5, .int nr, .int nw] := by
  have hdl := lt_of_getElem? hobj
  simp only [drMainIte, drMain, Stmt.head, Stmt.drop, decoderReadIR]
  b64_simp [hobj, decObj, hcall, Nat.sub_zero, Int.sub_zero, hnw]

/-- The unused symbols move to the front of `d.buf`. -/
theorem drMainPost_run (c : Ctx) (H : Heap) (O : List Obj) (X : List Ext) (d ae nf bb bo nbuf nr n : Nat) (ow : Slice)
    (err rerr : Option Nat) (Bb : Buf) (v1 v3 v4 v5 v7 : Val)
    (hobj : O[d]? = some (decObj err rerr ae nf bb nbuf ow bo)) (hbb : H[bb]? = some Bb) (hsz : Bb.size = 1024)
    (hnb : nbuf ≤ 1024) (hnr : nr ≤ nbuf) :
    exec c drMainPost ⟨H, O, X⟩ [.ptr d, v1, .int n, v3, v4, v5, .int nr, v7] =
      .ret ⟨H.set bb (writeList Bb 0 ((Bb.toList.drop nr).take (nbuf - nr))),
          O.set d (decObj err rerr ae nf bb (nbuf - nr) ow bo), X⟩ [.int n, .err err] := by
  have hdl := lt_of_getElem? hobj
  have hsl : sliceBytes H ⟨bb, nr, 1024 - nr, 1024 - nr⟩ = some (Bb.toList.drop nr) := by
    simp only [sliceBytes, hbb]
    rw [if_pos (by omega), List.take_of_length_le (by simp; omega)]
  have h1024 : ((1024 : Int) - (nr : Int)).toNat = 1024 - nr := by omega
  simp only [drMainPost, drMain, Stmt.drop, decoderReadIR]
  b64_simp [hobj, decObj, hsl, srcBytes, copyVal, writeSlice, hbb, List.length_take, List.length_drop, Array.length_toList,
    hsz, Nat.sub_zero, Int.sub_zero, h1024]

end GoCrypt.SIR
