import GoCrypt.Proofs.SIRDecRep

/-!
# Stream IR, decoder side: `(*decoder).Read`, the paths that do not refill

The leftover path (`len(d.out) > 0`) and the sticky-error path (`d.err != nil`).
Helper lemmas only; the property theorems are in `Props/SIRDecoder.lean`.
-/

namespace GoCrypt.SIR
open GoCrypt.B64IR (Buf Heap Slice Res sliceBytes writeList writeList_size writeList_append heap_set_self heap_lt_of_get)
open GoCrypt.Base64LE GoCrypt.Stream GoCrypt.Gen.base64leStream

/-- `n, err` start as zero values; `if len(d.out) > 0 { … }` -/
def drHead : Stmt := decoderReadIR.body.take 3
/-- `if d.err != nil { return 0, d.err }` -/
def drSticky : Stmt := (decoderReadIR.body.drop 3).head

/-- The leftover path: `n = copy(p, d.out); d.out = d.out[n:]; return n, nil`. -/
theorem drHead_leftover (c : Ctx) (H : Heap) (O : List Obj) (X : List Ext) (d bp plen : Nat) (Bp : Buf) (ow : Slice) (out : Bytes)
    (f0 f1 f2 f3 f4 f5 f7 : Val)
    (hobj : O[d]? = some ⟨"decoder", [f0, f1, f2, f3, f4, f5, .slice ow, f7]⟩)
    (hout : sliceBytes H ow = some out) (hlen : ow.len = out.length) (hpos : 0 < out.length) (hcap : ow.len ≤ ow.cap)
    (hbp : H[bp]? = some Bp) (hsz : plen ≤ Bp.size) :
    exec c drHead ⟨H, O, X⟩ ([.ptr d, .slice ⟨bp, 0, plen, plen⟩] ++ List.replicate 6 .undef) =
      .ret ⟨H.set bp (writeList Bp 0 (out.take plen)),
        O.set d ⟨"decoder", [f0, f1, f2, f3, f4, f5,
          .slice ⟨ow.buf, ow.off + min plen out.length, ow.len - min plen out.length, ow.cap - min plen out.length⟩, f7]⟩, X⟩
        [.int ((min plen out.length : Nat) : Int), .err none] := by
  have h0 : ((0 : Int) < (out.length : Int)) = True := by simp; omega
  simp only [drHead, Stmt.take, decoderReadIR]
  b64_simp [hobj, hout, hlen, h0, srcBytes, copyVal, writeSlice, hbp, List.length_take]

/-- No leftover: the head falls through. -/
theorem drHead_skip (c : Ctx) (H : Heap) (O : List Obj) (X : List Ext) (d : Nat) (p : Val) (ow : Slice)
    (f0 f1 f2 f3 f4 f5 f7 : Val)
    (hobj : O[d]? = some ⟨"decoder", [f0, f1, f2, f3, f4, f5, .slice ow, f7]⟩) (hlen : ow.len = 0) :
    exec c drHead ⟨H, O, X⟩ ([.ptr d, p] ++ List.replicate 6 .undef) =
      .norm ⟨H, O, X⟩ [.ptr d, p, .int 0, .err none, .undef, .undef, .undef, .undef] := by
  simp only [drHead, Stmt.take, decoderReadIR]
  b64_simp [hobj, hlen]

/-- The sticky error path: `return 0, d.err`. -/
theorem drSticky_ret (c : Ctx) (W : World) (d : Nat) (env : Env) (e : Nat) (f1 f2 f3 f4 f5 f6 f7 : Val)
    (hobj : W.objs[d]? = some ⟨"decoder", [.err (some e), f1, f2, f3, f4, f5, f6, f7]⟩) (henv : env[0]? = some (.ptr d)) :
    exec c drSticky W env = .ret W [.int 0, .err (some e)] := by
  simp only [drSticky, Stmt.drop, Stmt.head, decoderReadIR]
  b64_simp [hobj, henv]
  rfl

theorem drSticky_skip (c : Ctx) (W : World) (d : Nat) (env : Env) (f1 f2 f3 f4 f5 f6 f7 : Val)
    (hobj : W.objs[d]? = some ⟨"decoder", [.err none, f1, f2, f3, f4, f5, f6, f7]⟩) (henv : env[0]? = some (.ptr d)) :
    exec c drSticky W env = .norm W env := by
  simp only [drSticky, Stmt.drop, Stmt.head, decoderReadIR]
  b64_simp [hobj, henv]
  rfl

/-! ## Windows -/

theorem sliceBytes_drop (H : Heap) (ow : Slice) (out : Bytes) (n c' : Nat) (h : sliceBytes H ow = some out) (hn : n ≤ ow.len) :
    sliceBytes H ⟨ow.buf, ow.off + n, ow.len - n, c'⟩ = some (out.drop n) := by
  unfold sliceBytes at h ⊢
  cases hb : H[ow.buf]? with
  | none => simp [hb] at h
  | some b =>
    simp only [hb] at h ⊢
    by_cases hle : ow.off + ow.len ≤ b.size
    · rw [if_pos hle] at h
      rw [if_pos (by omega)]
      have h' := Option.some.inj h
      rw [← h', List.drop_take, List.drop_drop]
    · rw [if_neg hle] at h; cases h

theorem sliceBytes_length (H : Heap) (ow : Slice) (out : Bytes) (h : sliceBytes H ow = some out) : out.length = ow.len := by
  unfold sliceBytes at h
  cases hb : H[ow.buf]? with
  | none => simp [hb] at h
  | some b =>
    simp only [hb] at h
    by_cases hle : ow.off + ow.len ≤ b.size
    · rw [if_pos hle] at h
      rw [← Option.some.inj h]; simp; omega
    · rw [if_neg hle] at h; cases h

/-- The first bytes of a buffer after `writeList` at its start. -/
theorem take_writeList_zero (B : Buf) (l : List UInt8) (h : l.length ≤ B.size) : (writeList B 0 l).toList.take l.length = l := by
  have := window_writeList B 0 l (by omega)
  simpa using this

/-! ## The two paths for a world that holds a decoder -/

/-- What the caller of `Read` sees: the results, the new representation, the delivered bytes in `p`'s buffer. -/
def ReadPost (L : DecLay) (e : Encoding) (bp plen : Nat) (r : DecSt × Bytes × Option Err) (res : Res (World × List Val)) : Prop :=
  ∃ W' ow' Bp', res = .ok (W', [.int r.2.1.length, .err r.2.2]) ∧ DecRep L e ow' r.1 W' ∧
    W'.heap[bp]? = some Bp' ∧ Bp'.size = plen ∧ Bp'.toList.take r.2.1.length = r.2.1

theorem decRead_leftover_eq (e : Encoding) (st : DecSt) (plen : Nat) (h : 0 < st.out.length) :
    decRead e st plen = ({ st with out := st.out.drop plen }, st.out.take plen, none) := by
  unfold decRead; rw [if_pos h]

theorem decRead_sticky_eq (e : Encoding) (st : DecSt) (plen : Nat) (h : ¬ 0 < st.out.length) (he : st.err.isSome) :
    decRead e st plen = (st, [], st.err) := by
  unfold decRead; rw [if_neg h, if_pos he]

theorem decoderRead_leftover_proc (c : Ctx) (L : DecLay) (e : Encoding) (ow : Slice) (st : DecSt) (H : Heap) (O : List Obj)
    (X : List Ext) (bp : Nat) (Bp : Buf) (hrep : DecRep L e ow st ⟨H, O, X⟩) (hbp : H[bp]? = some Bp)
    (h1 : bp ≠ L.b1) (h2 : bp ≠ L.b2) (hbb : bp ≠ L.bb) (hbo : bp ≠ L.bo) (hout : 0 < st.out.length) :
    ReadPost L e bp Bp.size (decRead e st Bp.size)
      (execProc c decoderReadIR ⟨H, O, X⟩ [.ptr L.d, .slice ⟨bp, 0, Bp.size, Bp.size⟩]) := by
  have hne : st.out ≠ [] := fun h => by rw [h] at hout; simp at hout
  obtain ⟨howb, hsl⟩ := hrep.out hne
  have hdl := lt_of_getElem? hrep.obj
  have hbpl := heap_lt_of_get hbp
  rw [decRead_leftover_eq e st _ hout, execProc_eq c decoderReadIR _ _ rfl, exec_take_drop c _ _ 3]
  show ReadPost _ _ _ _ _ (procResult ((exec c drHead ⟨H, O, X⟩ ([.ptr L.d, .slice ⟨bp, 0, Bp.size, Bp.size⟩] ++ List.replicate 6 .undef)).andThen _))
  rw [drHead_leftover c H O X L.d bp Bp.size Bp ow st.out _ _ _ _ _ _ _ hrep.obj hsl hrep.outLen hout hrep.outCap hbp (Nat.le_refl _),
    procResult_andThen_ret]
  have hmin : min Bp.size st.out.length = (st.out.take Bp.size).length := by simp
  refine ⟨⟨H.set bp (writeList Bp 0 (st.out.take Bp.size)), O.set L.d (decObj st.err st.readErr L.ae L.nf L.bb st.buf.length
      ⟨ow.buf, ow.off + min Bp.size st.out.length, ow.len - min Bp.size st.out.length, ow.cap - min Bp.size st.out.length⟩ L.bo), X⟩,
    ⟨ow.buf, ow.off + min Bp.size st.out.length, ow.len - min Bp.size st.out.length, ow.cap - min Bp.size st.out.length⟩,
    writeList Bp 0 (st.out.take Bp.size), by rw [hmin]; rfl, ?_, List.getElem?_set_self hbpl, by simp, ?_⟩
  · obtain ⟨Bb, hb1, hb2, hb3⟩ := hrep.buf
    obtain ⟨Bo, ho1, ho2⟩ := hrep.outbuf
    refine ⟨hrep.enc.mono _ _ ?_ ?_ ?_, ?_, hrep.rdr, ?_, hrep.nbuf, ⟨Bb, ?_, hb2, hb3⟩, ⟨Bo, ?_, ho2⟩, ?_, ?_, ?_,
      hrep.ne_bb_bo, hrep.ne_b1_bb, hrep.ne_b1_bo, hrep.ne_b2_bb, hrep.ne_b2_bo, hrep.ne_d_ae, hrep.ne_d_nf⟩
    · exact List.getElem?_set_ne hrep.ne_d_ae
    · exact List.getElem?_set_ne h1
    · exact List.getElem?_set_ne h2
    · exact (List.getElem?_set_ne hrep.ne_d_nf).trans hrep.nfr
    · exact List.getElem?_set_self hdl
    · exact (List.getElem?_set_ne hbb).trans hb1
    · exact (List.getElem?_set_ne hbo).trans ho1
    · show ow.len - min Bp.size st.out.length = (st.out.drop Bp.size).length
      rw [hrep.outLen, List.length_drop]; omega
    · show ow.len - min Bp.size st.out.length ≤ ow.cap - min Bp.size st.out.length
      have := hrep.outCap; omega
    · intro _
      refine ⟨howb, ?_⟩
      have hd : st.out.drop Bp.size = st.out.drop (min Bp.size st.out.length) := by
        by_cases h : Bp.size ≤ st.out.length
        · rw [Nat.min_eq_left h]
        · rw [Nat.min_eq_right (by omega), List.drop_eq_nil_of_le (by omega), List.drop_eq_nil_of_le (Nat.le_refl _)]
      show sliceBytes _ ⟨ow.buf, _, _, _⟩ = some (st.out.drop Bp.size)
      rw [hd]
      show sliceBytes (H.set bp _) ⟨ow.buf, _, _, _⟩ = _
      rw [sliceBytes_congr H _ ⟨ow.buf, _, _, _⟩ (by show (H.set bp _)[ow.buf]? = _; rw [howb]; exact List.getElem?_set_ne hbo)]
      exact sliceBytes_drop H ow st.out _ _ hsl (by rw [hrep.outLen]; exact Nat.min_le_right _ _)
  · exact take_writeList_zero Bp _ (by simp; omega)

theorem dr_split3 : decoderReadIR.body.drop 3 = (drSticky ;; decoderReadIR.body.drop 4) := rfl

/-- The environment after the head when there is no leftover output. -/
def drEnv0 (d : Nat) (p : Val) : Env := [.ptr d, p, .int 0, .err none, .undef, .undef, .undef, .undef]

/-- Without leftover output the body is the sticky-error check and the rest. -/
theorem dr_body_noleft (c : Ctx) (L : DecLay) (e : Encoding) (ow : Slice) (st : DecSt) (H : Heap) (O : List Obj)
    (X : List Ext) (p : Val) (hrep : DecRep L e ow st ⟨H, O, X⟩) (hout : ¬ 0 < st.out.length) :
    execProc c decoderReadIR ⟨H, O, X⟩ [.ptr L.d, p] =
      procResult ((exec c drSticky ⟨H, O, X⟩ (drEnv0 L.d p)).andThen (exec c (decoderReadIR.body.drop 4))) := by
  rw [execProc_eq c decoderReadIR _ _ rfl, exec_take_drop c _ _ 3]
  show procResult ((exec c drHead ⟨H, O, X⟩ ([.ptr L.d, p] ++ List.replicate 6 .undef)).andThen _) = _
  rw [drHead_skip c H O X L.d p ow _ _ _ _ _ _ _ hrep.obj (by rw [hrep.outLen]; omega), andThen_norm, dr_split3]
  rfl

theorem decoderRead_sticky_proc (c : Ctx) (L : DecLay) (e : Encoding) (ow : Slice) (st : DecSt) (H : Heap) (O : List Obj)
    (X : List Ext) (bp : Nat) (Bp : Buf) (hrep : DecRep L e ow st ⟨H, O, X⟩) (hbp : H[bp]? = some Bp)
    (hout : ¬ 0 < st.out.length) (herr : st.err.isSome) :
    ReadPost L e bp Bp.size (decRead e st Bp.size)
      (execProc c decoderReadIR ⟨H, O, X⟩ [.ptr L.d, .slice ⟨bp, 0, Bp.size, Bp.size⟩]) := by
  obtain ⟨code, hcode⟩ := Option.isSome_iff_exists.mp herr
  have hobj := hrep.obj
  rw [hcode] at hobj
  rw [decRead_sticky_eq e st _ hout herr, dr_body_noleft c L e ow st H O X _ hrep hout,
    drSticky_ret c ⟨H, O, X⟩ L.d _ code _ _ _ _ _ _ _ hobj rfl, procResult_andThen_ret]
  exact ⟨_, ow, Bp, by rw [hcode]; rfl, hrep, hbp, rfl, rfl⟩

end GoCrypt.SIR
