import Lean

/-! The simp set `b64ir`: the rules that run a buffer-IR program symbolically (see `Proofs/B64IRBase.lean`). -/

register_simp_attr b64ir
