import GoCrypt.Proofs.SIREncDefs

/-!
# Stream IR of `hash/base64le`: `(*encoder).Close` and `NewEncoder`

Helper lemmas only; the property theorems are in `Props/SIREncoder.lean`.
-/

namespace GoCrypt.SIR
open GoCrypt.B64IR (Buf Heap Slice Res sliceBytes writeList padInt decodeMapBytes encVal)
open GoCrypt.Base64LE GoCrypt.Stream GoCrypt.Gen.base64leStream GoCrypt.Gen.base64le

/-! ## Buffers -/

theorem writeAt_toList (D : Buf) (off : Nat) (bs : List UInt8) (h : off + bs.length ≤ D.size) :
    (writeAt D off bs).toList = D.toList.take off ++ (bs ++ D.toList.drop (off + bs.length)) := by
  have hD : D = (D.toList.take off ++ D.toList.drop off).toArray := by simp
  have hl : (D.toList.take off).length = off := by simp; omega
  have := Base64LE.writeAt_append bs (D.toList.take off) (D.toList.drop off) (by simp; omega)
  rw [hl] at this
  rw [← hD] at this
  rw [this]
  simp [Nat.add_comm]

/-- After `writeAt D 0 bs` the window `[0, bs.length)` of the buffer shows `bs`. -/
theorem sliceBytes_written (H : Heap) (d : Nat) (D : Buf) (bs : List UInt8) (cp : Nat) (hd : d < H.length)
    (h : bs.length ≤ D.size) :
    sliceBytes (H.set d (writeAt D 0 bs)) ⟨d, 0, bs.length, cp⟩ = some bs := by
  simp only [sliceBytes, List.getElem?_set_self hd, B64IR.writeAt_size]
  rw [if_pos (by omega), writeAt_toList D 0 bs (by omega)]
  simp

theorem sliceBytes_prefix (H : Heap) (b : Nat) (B : Buf) (n cp : Nat) (hb : H[b]? = some B) (hn : n ≤ B.size) :
    sliceBytes H ⟨b, 0, n, cp⟩ = some (B.toList.take n) := by
  simp [sliceBytes, hb, hn]

theorem encodedLen_le (e : Encoding) (n : Nat) (hn : n ≤ 768) : encodedLen e n ≤ 1024 := by
  simp only [encodedLen, Base64LE.EncodedLen_eq]; split <;> omega

/-! ## `Close` -/

theorem close_proc (n : Nat) (hlib : EncLibSpec lib) (L : EncLayout) (e : Encoding) (st : EncSt) (H : Heap) (O : List Obj)
    (X : List Ext) (hrep : EncRep L e st H O X) (hlt : st.buf.length ≤ 3) :
    ∃ H' O', execProc { call := callIn program lib (n + 1) } encoderCloseIR ⟨H, O, X⟩ [.ptr L.d] =
        .ok (⟨H', O', X.set L.k (writerOf (encClose e st).1)⟩, [.err (encClose e st).2]) ∧
      EncRep L e (encClose e st).1 H' O' (X.set L.k (writerOf (encClose e st).1)) ∧
      (∀ b, b ≠ L.bo → H'[b]? = H[b]?) ∧ (∀ a, a ≠ L.d → O'[a]? = O[a]?) ∧ H'.length = H.length ∧ O'.length = O.length := by
  obtain ⟨B, hB, hBs, hBt⟩ := hrep.buf
  obtain ⟨Ob, hOb, hObs⟩ := hrep.out
  have hdl : L.d < O.length := lt_of_getElem? hrep.obj
  have hkl : L.k < X.length := lt_of_getElem? hrep.wr
  have hbol : L.bo < H.length := lt_of_getElem? hOb
  have hobj := hrep.obj
  have hae := hrep.enc.obj
  have hne6 := hrep.ne6
  have hne1 := hrep.ne1
  simp only [encoderObj] at hobj
  by_cases hgo : st.err.isNone = true ∧ st.buf.length > 0
  · -- flush
    have herr : st.err = none := by simpa using hgo.1
    have hE := hlib.encode e H O X L.ae L.b1 L.b2 hrep.enc L.bo L.bb Ob B 0 st.buf.length 3 hOb hB
      (Ne.symm hrep.ne1) (by omega) (by rw [hObs]; exact encodedLen_le e _ (by omega)) (by omega)
    rw [hObs] at hE
    simp only [List.drop_zero, hBt] at hE
    have hEL := fun H' => hlib.encodedLen e H' O X L.ae L.b1 L.b2
    have hlen : (encode e st.buf).length = encodedLen e st.buf.length := Base64LE.encode_length_eq e st.buf
    have hle : encodedLen e st.buf.length ≤ 1024 := encodedLen_le e _ (by omega)
    have hencAt' : EncAt (H.set L.bo (writeAt Ob 0 (encode e st.buf))) O L.ae L.b1 L.b2 e :=
      hrep.enc.mono _ _ rfl (List.getElem?_set_ne hrep.ne4) (List.getElem?_set_ne hrep.ne5)
    have hEL' := hlib.encodedLen e (H.set L.bo (writeAt Ob 0 (encode e st.buf))) O X L.ae L.b1 L.b2 hencAt'
      st.buf.length (by omega)
    have hsb : sliceBytes (H.set L.bo (writeAt Ob 0 (encode e st.buf))) ⟨L.bo, 0, encodedLen e st.buf.length, 1024⟩ =
        some (encode e st.buf) := by
      rw [← hlen]; exact sliceBytes_written H L.bo Ob _ _ hbol (by omega)
    have hW := extWrite_eq_wWrite st herr (H.set L.bo (writeAt Ob 0 (encode e st.buf))) O X L.k _ _ hrep.wr hsb
    have hcE : ∀ W vals, callIn program lib (n + 1) "Encoding.Encode" W vals = lib "Encoding.Encode" W vals :=
      fun W vals => callIn_lib program lib n _ W vals lookup_Encode
    have hcL : ∀ W vals, callIn program lib (n + 1) "Encoding.EncodedLen" W vals = lib "Encoding.EncodedLen" W vals :=
      fun W vals => callIn_lib program lib n _ W vals lookup_EncodedLen
    refine ⟨H.set L.bo (writeAt Ob 0 (encode e st.buf)),
      O.set L.d (encoderObj L.ae L.k L.bb L.bo (st.wWrite (encode e st.buf)).err 0), ?_, ?_, ?_, ?_, ?_, ?_⟩
    · have hcl : encClose e st = ({ (st.wWrite (encode e st.buf)) with buf := [] }, (st.wWrite (encode e st.buf)).err) := by
        simp only [encClose, hgo, and_self, if_true]
      rw [hcl]
      simp only [execProc, encoderCloseIR]
      b64_simp [hobj, herr, hcE, hcL, hE, hEL', hW, hgo.2, hae, encObj, Option.isNone_none, Nat.sub_zero]
      simp only [encoderObj]
      rfl
    · have hcl : (encClose e st).1 = { (st.wWrite (encode e st.buf)) with buf := [] } := by
        simp only [encClose, hgo, and_self, if_true]
      rw [hcl]
      exact {
        enc := hencAt'.mono _ _ (List.getElem?_set_ne hrep.ne6) rfl rfl
        obj := by simp [List.getElem?_set_self hdl]
        wr := by simp [List.getElem?_set_self hkl]
        buf := ⟨B, by rw [List.getElem?_set_ne (Ne.symm hrep.ne1)]; exact hB, hBs, by simp⟩
        out := ⟨_, List.getElem?_set_self hbol, by rw [B64IR.writeAt_size]; exact hObs⟩
        ne1 := hrep.ne1, ne2 := hrep.ne2, ne3 := hrep.ne3, ne4 := hrep.ne4, ne5 := hrep.ne5, ne6 := hrep.ne6 }
    · intro b hb; exact List.getElem?_set_ne (Ne.symm hb)
    · intro a ha; exact List.getElem?_set_ne (Ne.symm ha)
    · simp
    · simp
  · -- nothing to do
    have hcl : encClose e st = (st, st.err) := by simp only [encClose, hgo, if_false]
    rw [hcl]
    refine ⟨H, O, ?_, ?_, fun _ _ => rfl, fun _ _ => rfl, rfl, rfl⟩
    · rw [list_set_self X L.k _ hrep.wr]
      simp only [execProc, encoderCloseIR]
      cases herr : st.err with
      | some c =>
        rw [herr] at hobj
        b64_simp [hobj, Option.isNone_some]
      | none =>
        have h0 : st.buf.length = 0 := by
          rcases Nat.eq_zero_or_pos st.buf.length with h | h
          · exact h
          · exact absurd ⟨by simp [herr], h⟩ hgo
        rw [herr, h0] at hobj
        b64_simp [hobj, Option.isNone_none]
    · rw [list_set_self X L.k _ hrep.wr]; exact hrep

end GoCrypt.SIR
