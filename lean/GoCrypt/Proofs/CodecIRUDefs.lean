import GoCrypt.Proofs.CodecIRDefs

/-!
# Codec IR, unmarshal side: error abstraction, primitive specifications, how the memory represents the model

Definitions (and witnesses) only.
-/

namespace GoCrypt.CIR
open GoCrypt.Codec GoCrypt.Gen.codecIR GoCrypt.Parse
open GoCrypt.TIIR (RType Res fiObj tiObj Reps RepOpt fiType)

/-- What the theorems assume about the `UnmarshalText` methods (pointer receiver), by class
(`Model/Codec.lean: storeValue`): a whitelist type stores an allowed string and refuses the others with
`unsupported prefix`; the DES integer type stores `descrypt.DecodeInt`; a type recognised only as a two-digit
MARSHALER, or not recognised at all, fails with its description. -/
structure UnmarshalTextSpec (f : TextCodec → Bytes → Option (Except String GVal)) : Prop where
  whitelist_ok : ∀ l s, l.contains s = true → f (.whitelist l) s = some (.ok (.str s))
  whitelist_no : ∀ l s, l.contains s = false → f (.whitelist l) s = some (.error "unsupported prefix")
  desInt : ∀ s, f .desInt s = some (.ok (.uint (desDecodeInt s)))
  twoDigit : ∀ s, f .twoDigit s = some (.error "opaque")
  opaque_ : ∀ d s, f (.opaque d) s = some (.error d)

def unmarshalTextRef : TextCodec → Bytes → Option (Except String GVal)
  | .whitelist l, s => if l.contains s then some (.ok (.str s)) else some (.error "unsupported prefix")
  | .desInt, s => some (.ok (.uint (desDecodeInt s)))
  | .twoDigit, _ => some (.error "opaque")
  | .opaque d, _ => some (.error d)
  | .none, _ => none

theorem unmarshalTextRef_spec : UnmarshalTextSpec unmarshalTextRef :=
  ⟨fun l s h => by show (if l.contains s = true then _ else _) = _; rw [if_pos h],
    fun l s h => by show (if l.contains s = true then _ else _) = _; rw [if_neg (by rw [h]; exact Bool.false_ne_true)],
    fun _ => rfl, fun _ => rfl, fun _ _ => rfl⟩

/-! ## Error values -/

def litOf (s : String) : Bytes := s.toUTF8.data.toList

/-- The `Value` field of an `UnmarshalTypeError`. -/
def kindName (b : Bytes) : Option String :=
  if b = [118, 97, 108, 117, 101] then some "value" else if b = [103, 114, 111, 117, 112] then some "group"
  else if b = [112, 114, 101, 102, 105, 120] then some "prefix" else if b = [69, 79, 70] then some "EOF" else none

def prefixNotFoundLit : Bytes := [112, 114, 101, 102, 105, 120, 32, 110, 111, 116, 32, 102, 111, 117, 110, 100]
def unexpectedEOFLit : Bytes := [117, 110, 101, 120, 112, 101, 99, 116, 101, 100, 32, 69, 79, 70]
def excessiveFragmentLit : Bytes := [101, 120, 99, 101, 115, 115, 105, 118, 101, 32, 102, 114, 97, 103, 109, 101, 110, 116]
def excessivePrefixLit : Bytes := [101, 120, 99, 101, 115, 115, 105, 118, 101, 32, 112, 114, 101, 102, 105, 120]
def unsupportedTypeLit : Bytes := [117, 110, 115, 117, 112, 112, 111, 114, 116, 101, 100, 32, 116, 121, 112, 101]
def notFoundSuffix : Bytes := [32, 110, 111, 116, 32, 102, 111, 117, 110, 100]
def valueLit : Bytes := [118, 97, 108, 117, 101]
def paramLit : Bytes := [112, 97, 114, 97, 109]
def groupedParamLit : Bytes := [103, 114, 111, 117, 112, 101, 100, 32, 112, 97, 114, 97, 109]

/-- The message class of the `Msg` field of an `UnmarshalTypeError`. -/
def msgClassU : Val → Option MsgClass
  | .str b =>
    if b = lengthMismatchLit then some .lengthMismatch
    else if b = prefixNotFoundLit then some .prefixNotFound
    else if b = unexpectedEOFLit then some .unexpectedEOF
    else if b = excessiveFragmentLit then some .excessiveFragment
    else if b = excessivePrefixLit then some .excessivePrefix
    else if b = unsupportedTypeLit then some .unsupportedType
    else if b = valueLit ++ notFoundSuffix then some (.notFound "value")
    else if b = paramLit ++ notFoundSuffix then some (.notFound "param")
    else if b = groupedParamLit ++ notFoundSuffix then some (.notFound "grouped param")
    else none
  | .msg [.lit b, .quotedRune c] =>
    if b = invalidCharLit ∧ 0 ≤ c ∧ c < 256 then some (.invalidChar (UInt8.ofNat c.toNat)) else none
  | .msg [.errText d] => some (.text d)
  | .msg [.numErrText r] => some (if r then .numRange else .numSyntax)
  | _ => none

/-- The model's `UErr` for an error VALUE of the program.  Compared: `Value` (node kind), `Offset`, `Field`
(`""` = struct level), the message class.  NOT compared: `Type`, `Struct`. -/
def absErrU (heap : TIIR.Heap) : Val → Option UErr
  | .recd tn [.str k, _, .int off, _, f, msg] =>
    if tn = "UnmarshalTypeError" ∧ 0 ≤ off then
      match kindName k, (match f with | .name n => some n | .str [] => some "" | _ => none), msgClassU msg with
      | some kind, some fld, some cls => some (.ute kind off.toNat fld cls)
      | _, _, _ => none
    else none
  | .parseErr o m => some (.syntax o m)
  | .tiErr v => (TIIR.absErr heap v).map .tag
  | _ => none

/-! ## The parse tree in memory -/

/-- The node at `a` is the model's value node `v`. -/
def RepVNode (m : Mem) (a : Nat) (v : VNode) : Prop := m.nodes[a]? = some (.value v.val v.pos v.fin)

/-- `(fieldInfo).String()` of typeinfo.go, called by name. -/
def FieldStringOk (ext : String → Mem → List Val → Res (Mem × List Val)) : Prop :=
  ∀ (m : Mem) (a : Nat) (fi : FieldInfo), m.heap[a]? = some (fiObj fi) →
    ext "fieldInfo.String" m [.ptr a] = .ok (m, [.str (litOf (fieldKindName fi))])

/-- `indirectType` of typeinfo.go (`Props/TypeInfoIR.lean: indirectType_eq`), called by name. -/
def IndirectTypeOk (ext : String → Mem → List Val → Res (Mem × List Val)) : Prop :=
  ∀ (m : Mem) (t : RType), ext "indirectType" m [.rtype t] = .ok (m, [.rtype { t with depth := 0 }])

end GoCrypt.CIR
