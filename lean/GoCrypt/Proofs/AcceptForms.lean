import GoCrypt.Proofs.AcceptRespellShapes

/-!
# Reading the fields back from the assignments `Unmarshal` makes, and the statement forms of `Props/Accept`
-/

namespace GoCrypt.Accept
open Bytes GoCrypt.Parse GoCrypt.Codec GoCrypt.Codec.Shapes GoCrypt.Respell

/-! ## Generic statement forms -/

theorem fields_form {α : Type} (u : Except UErr Vals) (G : Option α) (Out : α → Vals) (fieldsOf : Vals → Option α)
    (hmain : ∀ out, u = .ok out ↔ ∃ f, G = some f ∧ out = Out f)
    (hinv : ∀ f, G = some f → fieldsOf (Out f) = some f) (f : α) :
    (∃ out, u = .ok out ∧ fieldsOf out = some f) ↔ G = some f := by
  constructor
  · rintro ⟨out, hu, hf⟩
    obtain ⟨f', hG, rfl⟩ := (hmain out).1 hu
    rw [hinv f' hG] at hf
    cases hf
    exact hG
  · intro hG
    exact ⟨Out f, (hmain _).2 ⟨f, hG, rfl⟩, hinv f hG⟩

theorem accepted_form {α : Type} (u : Except UErr Vals) (G : Option α) (Out : α → Vals)
    (hmain : ∀ out, u = .ok out ↔ ∃ f, G = some f ∧ out = Out f) :
    (∃ out, u = .ok out) ↔ G.isSome = true := by
  constructor
  · rintro ⟨out, hu⟩
    obtain ⟨f, hG, -⟩ := (hmain out).1 hu
    simp [hG]
  · intro h
    cases hG : G with
    | none => simp [hG] at h
    | some f => exact ⟨Out f, (hmain _).2 ⟨f, hG, rfl⟩⟩

theorem rejected_form {α : Type} (u : Except UErr Vals) (G : Option α) (Out : α → Vals)
    (hmain : ∀ out, u = .ok out ↔ ∃ f, G = some f ∧ out = Out f) (hG : G = none) :
    ∀ out, u ≠ .ok out := by
  intro out hu
  obtain ⟨f, hG', -⟩ := (hmain out).1 hu
  rw [hG] at hG'; cases hG'

/-! ## The fields, read back from the assignments -/

def md5Fields : Vals → Option Grammar.Md5
  | [(_, .str _), (_, .bytes a), (_, .bytes b)] => some ⟨a, b⟩
  | _ => none

def sha1Fields : Vals → Option Grammar.Sha1
  | [(_, .str _), (_, .uint n), (_, .bytes a), (_, .bytes b)] => some ⟨n, a, b⟩
  | _ => none

def sha2Fields : Vals → Option Grammar.Sha2
  | [(_, .str _), (_, .uint n), (_, .bytes a), (_, .bytes b)] => some ⟨some n, a, b⟩
  | [(_, .str _), (_, .bytes a), (_, .bytes b)] => some ⟨none, a, b⟩
  | _ => none

def nthashFields : Vals → Option Grammar.NtHash
  | [(_, .str _), (_, .bytes _), (_, .bytes b)] => some ⟨b⟩
  | _ => none

def desFields : Vals → Option Grammar.Des
  | [(_, .bytes a), (_, .bytes b)] => some ⟨a, b⟩
  | _ => none

/-- the rounds value is shown as its canonical four-symbol text -/
def desextFields : Vals → Option Grammar.DesExt
  | [(_, .str _), (_, .uint r), (_, .bytes a), (_, .bytes b)] => some ⟨desEncodeInt (r % 4294967296), a, b⟩
  | _ => none

def bcryptFields : Vals → Option Grammar.Bcrypt
  | [(_, .str p), (_, .uint n), (_, .bytes a), (_, .bytes b)] => some ⟨p, n, a, b⟩
  | _ => none

def sunmd5Fields : Vals → Option Grammar.SunMd5
  | [(_, .str p), (_, .uint n), (_, .bytes d)] => some ⟨p, n, none, false, d⟩
  | [(_, .str p), (_, .uint n), (_, .bytes s), (_, .bytes d)] => some ⟨p, n, some s, false, d⟩
  | [(_, .str p), (_, .uint n), (_, .bytes s), (_, .str _), (_, .bytes d)] => some ⟨p, n, some s, true, d⟩
  | _ => none

def argon2Fields : Vals → Option Grammar.Argon2
  | [(_, .str p), (_, .uint m), (_, .uint t), (_, .uint pp), (_, .bytes s), (_, .bytes d)] =>
    some ⟨p, none, m, t, pp, s, d⟩
  | [(_, .str p), (_, .uint v), (_, .uint m), (_, .uint t), (_, .uint pp), (_, .bytes s), (_, .bytes d)] =>
    some ⟨p, some v, m, t, pp, s, d⟩
  | _ => none

theorem md5Fields_out (f : Grammar.Md5) : md5Fields (md5Out f) = some f := rfl
theorem sha1Fields_out (f : Grammar.Sha1) : sha1Fields (sha1Out f) = some f := rfl
theorem nthashFields_out (f : Grammar.NtHash) : nthashFields (nthashOut f) = some f := rfl
theorem desFields_out (f : Grammar.Des) : desFields (desOut f) = some f := rfl
theorem bcryptFields_out (f : Grammar.Bcrypt) : bcryptFields (bcryptOut f) = some f := rfl

theorem sha256Fields_out (f : Grammar.Sha2) : sha2Fields (sha256Out f) = some f := by
  obtain ⟨r, a, b⟩ := f
  cases r <;> rfl

theorem sha512Fields_out (f : Grammar.Sha2) : sha2Fields (sha512Out f) = some f := by
  obtain ⟨r, a, b⟩ := f
  cases r <;> rfl

/-- For sunmd5 the separator can only be written together with a salt; on that domain the fields are
read back exactly. -/
theorem sunmd5Fields_out (f : Grammar.SunMd5) (hf : f.sep = true → f.salt ≠ none) :
    sunmd5Fields (sunmd5Out f) = some f := by
  obtain ⟨p, n, s, e, d⟩ := f
  cases s <;> cases e <;> first | rfl | (simp at hf)

theorem argon2Fields_out (f : Grammar.Argon2) : argon2Fields (argon2Out f) = some f := by
  obtain ⟨p, v, m, t, pp, s, d⟩ := f
  cases v <;> rfl

theorem sunmd5_sep_salt (h : Bytes) (f : Grammar.SunMd5) (hG : Grammar.sunmd5 h = some f) :
    f.sep = true → f.salt ≠ none := by
  unfold Grammar.sunmd5 at hG
  cases hs : Grammar.stripAny Grammar.sunmd5Prefixes h with
  | none => simp [hs] at hG
  | some pr =>
    obtain ⟨p, rest⟩ := pr
    simp only [hs] at hG
    generalize Grammar.fragments rest = ps at hG
    match ps, hG with
    | [r, sum], hG =>
      simp only [Grammar.sunmd5Body] at hG
      cases hsr : Grammar.sunRounds r with
      | none => simp [hsr] at hG
      | some n =>
        simp only [hsr] at hG
        split at hG
        · cases hG; intro h; cases h
        · cases hG
    | [r, salt, sum], hG =>
      simp only [Grammar.sunmd5Body] at hG
      cases hsr : Grammar.sunRounds r with
      | none => simp [hsr] at hG
      | some n =>
        simp only [hsr] at hG
        split at hG
        · cases hG; intro _ h; cases h
        · cases hG
    | [r, salt, e, sum], hG =>
      simp only [Grammar.sunmd5Body] at hG
      cases hsr : Grammar.sunRounds r with
      | none => simp [hsr] at hG
      | some n =>
        simp only [hsr] at hG
        split at hG
        · cases hG; intro _ h; cases h
        · cases hG
    | [], hG => simp [Grammar.sunmd5Body] at hG
    | [_], hG => simp [Grammar.sunmd5Body] at hG
    | _ :: _ :: _ :: _ :: _ :: _, hG => simp [Grammar.sunmd5Body] at hG

theorem desextFields_out (h : Bytes) (f : Grammar.DesExt) (hG : Grammar.desext h = some f) :
    desextFields (desextOut f) = some f := by
  unfold Grammar.desext at hG
  cases hs : Grammar.strip [95] h with
  | none => simp [hs] at hG
  | some rest =>
    simp only [hs] at hG
    obtain ⟨x, -, hlen, hov, rfl⟩ := (desextBody_some _ _).1 hG
    rw [over_take_drop _ _ 4, Bool.and_eq_true] at hov
    show some (Grammar.DesExt.mk (desEncodeInt (desDecodeInt (x.take 4) % 4294967296)) _ _) = _
    rw [desEncode_decode (x.take 4) (by simp only [List.length_take]; omega) hov.1]

end GoCrypt.Accept
