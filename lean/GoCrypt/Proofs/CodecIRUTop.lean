import GoCrypt.Proofs.CodecIRULoop

/-!
# Codec IR: the top level of `Unmarshal` — the checks after the loop, and what is assumed of `parse.Parse`

PARTIAL (step 2c is not finished): `uTail_spec` (the two checks after the loop = the end of the model's `unmarshalTree`, no group open)
and the `Prop` `ParseOk` (the link hypothesis for the external `parse.Parse`).  Helper lemmas only.
-/

namespace GoCrypt.CIR
open GoCrypt.Codec GoCrypt.Gen.codecIR GoCrypt.Parse
open GoCrypt.TIIR (RType Res kindNum fiType fiObj tiObj encVal optsVals Reps RepOpt)

/-- What the theorems would assume about the external `parse.Parse(hash)`: it leaves heap and destination alone; on success it returns
a `*Tree` whose prefix node and fragment nodes — freshly allocated, so pairwise distinct — represent the model's `Parse.parse hash`
(`RepFA`), every text being at most `F` long; a syntax error is returned as the `*parse.SyntaxError` the model describes. -/
def ParseOk (ext : String → Mem → List Val → Res (Mem × List Val)) (F : Nat) : Prop :=
  ∀ (m : Mem) (hash : Bytes),
    match Parse.parse hash with
    | .ok tree => ∃ (nodes' : List PNode) (pv : Val) (lay : List FA),
        ext "parse.Parse" m [.str hash] = .ok ({ m with nodes := nodes' }, [.recd "Tree" [pv, .nodes (lay.map FA.addr)], .nil]) ∧
        (match tree.pfx with
         | some p => ∃ pa, pv = .node pa ∧ nodes'[pa]? = some (.pfx p) ∧ p.length ≤ F
         | none => pv = .nil) ∧
        All2 (RepFA { m with nodes := nodes' }) lay tree.frags ∧ (lay.flatMap FA.vaddrs).Nodup ∧
        (∀ v, Frag.value v ∈ tree.frags → v.val.length ≤ F)
    | .err o e => ext "parse.Parse" m [.str hash] = .ok (m, [.nil, .parseErr o e])
    | .nilInGroup => ext "parse.Parse" m [.str hash] = .ok (m, [.nil, .parseErr 0 99])

def uTail : Stmt := unmarshalTopIR.body.drop 16

theorem ext1_typeOf_dptr (t : RType) : ext1 .typeOf (.dptr t) = .ok (.rtype t) := rfl

/-- **After the loop** (no group open): a fragment left over is `excessive fragment` at struct level, otherwise `nil` — the end of the
model's `unmarshalTree`. -/
theorem uTail_spec (c : Ctx) (hash : Bytes) (t t0 : RType) (pv : Val) (as : List Nat) (tia : Nat) (addrs : List Nat) (heap0 : TIIR.Heap)
    (mm : Mem) (s : LoopSt) (fragIdx : Nat) (lay : List FA) (hinv : LInv heap0 as c.fuel mm s fragIdx lay)
    (ngv nv nr i : Int) (fiv fragv : Val) (j : List Val) :
    match s.frags with
    | [] => exec c uTail mm (tEnv hash t t0 pv as tia addrs fragIdx ngv .nil nv nr i fiv fragv j) = .ret mm [.nil]
    | f :: _ => ∃ v, exec c uTail mm (tEnv hash t t0 pv as tia addrs fragIdx ngv .nil nv nr i fiv fragv j) = .ret mm [v] ∧
        absErrU heap0 v = some (.ute (fragKind f) (fragEnd f) "" .excessiveFragment) := by
  cases hfr : s.frags with
  | nil =>
    have hlay : lay = [] := by have := hinv.frags; rw [hfr] at this; exact all2_right_nil this
    have hle : ¬ (fragIdx < as.length) := by
      have := hinv.addr; rw [hlay, List.map_nil, List.drop_eq_nil_iff] at this; omega
    simp only [uTail, unmarshalTopIR, Stmt.drop, tEnv]
    ci_simp [tree_frags, hle]
  | cons f frest =>
    have hfrags := hinv.frags
    rw [hfr] at hfrags
    obtain ⟨fa, lay', hlay, hrep, _⟩ := all2_right_cons hfrags
    have haddr := hinv.addr
    rw [hlay, List.map_cons] at haddr
    have hlt : fragIdx < as.length := by
      rcases Nat.lt_or_ge fragIdx as.length with h | h
      · exact h
      · rw [List.drop_eq_nil_iff.mpr h] at haddr; cases haddr
    have hfa : as[fragIdx]? = some fa.addr := by
      rw [List.drop_eq_getElem_cons hlt] at haddr
      rw [List.getElem?_eq_getElem hlt]; congr 1; exact (List.cons.inj haddr).1
    obtain ⟨hnt, hend⟩ := repFA_facts mm fa f hrep
    cases f with
    | value v =>
      refine ⟨topRec valueLit v.fin t excessiveFragmentLit, ?_, absErrU_topRec _ _ _ _ _ _ _ (by simp [kindName, valueLit, fragKind]) (by decide)⟩
      simp only [uTail, unmarshalTopIR, Stmt.drop, tEnv]
      ci_simp [tree_frags, hlt, indexVal_nodes as fragIdx fa.addr hfa, hnt, hend, ntypeString_2, ext1_typeOf_dptr, topRec, excessiveFragmentLit,
        fragEnd]
    | group g =>
      refine ⟨topRec [103, 114, 111, 117, 112] (groupEnd g) t excessiveFragmentLit, ?_,
        absErrU_topRec _ _ _ _ _ _ _ (by simp [kindName, fragKind]) (by decide)⟩
      simp only [uTail, unmarshalTopIR, Stmt.drop, tEnv]
      ci_simp [tree_frags, hlt, indexVal_nodes as fragIdx fa.addr hfa, hnt, hend, ntypeString_1, ext1_typeOf_dptr, topRec, excessiveFragmentLit,
        fragEnd]

end GoCrypt.CIR
