import GoCrypt.Proofs.Absorb2Defs
import GoCrypt.Proofs.CryptSpecs2Nt
import GoCrypt.Proofs.Kdf

/-!
# Absorption for NT hash: the transcoding is injective on well-formed UTF-8 (helper lemmas for `Props/C02b.lean`)
-/

namespace GoCrypt.Absorb2
open GoCrypt GoCrypt.Kdf GoCrypt.CryptSpec GoCrypt.CryptSpec2 GoCrypt.C03bProofs

/-! ## decoding inverts encoding on whole strings -/

theorem utf8Encode_ne_nil (c : Nat) : utf8Encode c ≠ [] := by
  unfold utf8Encode; split <;> (try split) <;> (try split) <;> simp

theorem go_encode_append (c : Nat) (rest : Bytes) (hc : IsScalar c) :
    utf8Scalars.go (utf8Encode c ++ rest) 0 = c :: utf8Scalars.go rest 0 := by
  have h := complete1 c rest hc
  cases he : utf8Encode c with
  | nil => exact absurd he (utf8Encode_ne_nil c)
  | cons b r =>
    rw [he] at h
    rw [List.cons_append, go_cons]
    rw [List.cons_append] at h
    rw [h]
    simp only []
    rw [← List.cons_append, List.drop_left]

theorem utf8Scalars_flatMap_encode (cs : List Nat) (h : ∀ c ∈ cs, IsScalar c) :
    utf8Scalars (cs.flatMap utf8Encode) = cs := by
  unfold utf8Scalars
  induction cs with
  | nil => rfl
  | cons c cs ih =>
    rw [List.flatMap_cons, go_encode_append c _ (h c (List.mem_cons_self ..)),
      ih (fun x hx => h x (List.mem_cons_of_mem _ hx))]

theorem utf8Scalars_scalar (s : Bytes) : ∀ c ∈ utf8Scalars s, IsScalar c := by
  unfold utf8Scalars
  rw [← decodeRunes_eq (s.length + 1) s (Nat.lt_succ_self _)]
  exact decodeRunes_scalar _ _

theorem wellFormedUtf8_iff (s : Bytes) : wellFormedUtf8 s = true ↔ WellFormedUtf8 s := by
  unfold wellFormedUtf8 WellFormedUtf8
  rw [beq_iff_eq]
  constructor
  · intro h; exact ⟨utf8Scalars s, utf8Scalars_scalar s, h.symm⟩
  · rintro ⟨cs, hcs, rfl⟩
    rw [utf8Scalars_flatMap_encode cs hcs]

/-! ## UTF-16 is injective on scalar values -/

theorem utf16Encode_ne_nil (c : Nat) : utf16Encode c ≠ [] := by
  unfold utf16Encode; split <;> simp

theorem utf16_flatMap_inj : ∀ (cs ds : List Nat), (∀ c ∈ cs, IsScalar c) → (∀ d ∈ ds, IsScalar d) →
    cs.flatMap utf16Encode = ds.flatMap utf16Encode → cs = ds := by
  intro cs
  induction cs with
  | nil =>
    intro ds _ _ h
    cases ds with
    | nil => rfl
    | cons d ds =>
      exfalso
      rw [List.flatMap_nil, List.flatMap_cons] at h
      have := congrArg List.length h
      have hne := utf16Encode_ne_nil d
      cases hd : utf16Encode d with
      | nil => exact hne hd
      | cons a l => rw [hd] at this; simp at this
  | cons c cs ih =>
    intro ds hcs hds h
    cases ds with
    | nil =>
      exfalso
      rw [List.flatMap_nil, List.flatMap_cons] at h
      have hne := utf16Encode_ne_nil c
      cases hd : utf16Encode c with
      | nil => exact hne hd
      | cons a l => rw [hd] at h; simp at h
    | cons d ds =>
      have hc := hcs c (List.mem_cons_self ..)
      have hd := hds d (List.mem_cons_self ..)
      unfold IsScalar at hc hd
      rw [List.flatMap_cons, List.flatMap_cons] at h
      have key : c = d ∧ cs.flatMap utf16Encode = ds.flatMap utf16Encode := by
        unfold utf16Encode at h
        by_cases h1 : c < 0x10000 <;> by_cases h2 : d < 0x10000
        · rw [if_pos h1, if_pos h2] at h
          simp only [List.cons_append, List.nil_append, List.cons.injEq] at h
          exact h
        · rw [if_pos h1, if_neg h2] at h
          simp only [List.cons_append, List.nil_append, List.cons.injEq] at h
          omega
        · rw [if_neg h1, if_pos h2] at h
          simp only [List.cons_append, List.nil_append, List.cons.injEq] at h
          omega
        · rw [if_neg h1, if_neg h2] at h
          simp only [List.cons_append, List.nil_append, List.cons.injEq] at h
          refine ⟨by omega, h.2.2⟩
      rw [key.1, ih ds (fun x hx => hcs x (List.mem_cons_of_mem _ hx)) (fun x hx => hds x (List.mem_cons_of_mem _ hx)) key.2]

theorem utf16Encode_lt (c : Nat) (hc : IsScalar c) : ∀ u ∈ utf16Encode c, u < 65536 := by
  unfold IsScalar at hc
  unfold utf16Encode
  intro u hu
  by_cases h1 : c < 0x10000
  · rw [if_pos h1] at hu; simp at hu; omega
  · rw [if_neg h1] at hu
    simp only [List.mem_cons, List.not_mem_nil, or_false] at hu
    omega

theorem le16_inj : ∀ (us vs : List Nat), (∀ u ∈ us, u < 65536) → (∀ v ∈ vs, v < 65536) → le16 us = le16 vs → us = vs := by
  intro us
  induction us with
  | nil =>
    intro vs _ _ h
    cases vs with
    | nil => rfl
    | cons v vs => simp [le16] at h
  | cons u us ih =>
    intro vs hus hvs h
    cases vs with
    | nil => simp [le16] at h
    | cons v vs =>
      have hu := hus u (List.mem_cons_self ..)
      have hv := hvs v (List.mem_cons_self ..)
      unfold le16 at h
      rw [List.flatMap_cons, List.flatMap_cons] at h
      simp only [List.cons_append, List.nil_append, List.cons.injEq] at h
      obtain ⟨h1, h2, h3⟩ := h
      have e1 := congrArg UInt8.toNat h1
      have e2 := congrArg UInt8.toNat h2
      rw [toNat_ofNat_lt _ (by omega), toNat_ofNat_lt _ (by omega)] at e1 e2
      have : u = v := by omega
      rw [this, ih vs (fun x hx => hus x (List.mem_cons_of_mem _ hx)) (fun x hx => hvs x (List.mem_cons_of_mem _ hx)) h3]

theorem specUtf16le_inj_on_valid (s s' : Bytes) (hs : WellFormedUtf8 s) (hs' : WellFormedUtf8 s')
    (h : CryptSpec2.utf16le s = CryptSpec2.utf16le s') : s = s' := by
  obtain ⟨cs, hcs, rfl⟩ := hs
  obtain ⟨ds, hds, rfl⟩ := hs'
  unfold CryptSpec2.utf16le at h
  rw [utf8Scalars_flatMap_encode cs hcs, utf8Scalars_flatMap_encode ds hds] at h
  have hlt : ∀ (l : List Nat), (∀ c ∈ l, IsScalar c) → ∀ u ∈ l.flatMap utf16Encode, u < 65536 := by
    intro l hl u hu
    rw [List.mem_flatMap] at hu
    obtain ⟨c, hc, hu⟩ := hu
    exact utf16Encode_lt c (hl c hc) u hu
  have := le16_inj _ _ (hlt cs hcs) (hlt ds hds) h
  rw [utf16_flatMap_inj cs ds hcs hds this]

theorem utf16le_inj_on_valid (s s' : Bytes) (hs : WellFormedUtf8 s) (hs' : WellFormedUtf8 s')
    (h : Kdf.utf16le s = Kdf.utf16le s') : s = s' := by
  rw [utf16le_eq, utf16le_eq] at h
  exact specUtf16le_inj_on_valid s s' hs hs' h

/-! ## the hex encoder of the digest is injective -/

theorem hexNibble_inj : ∀ a, a < 16 → ∀ b, b < 16 →
    (if a < 10 then UInt8.ofNat (48 + a) else UInt8.ofNat (87 + a)) =
      (if b < 10 then UInt8.ofNat (48 + b) else UInt8.ofNat (87 + b)) → a = b := by decide

theorem hexLower_inj : ∀ (b b' : Bytes), hexLower b = hexLower b' → b = b' := by
  intro b
  induction b with
  | nil =>
    intro b' h
    cases b' with
    | nil => rfl
    | cons c l => simp [hexLower] at h
  | cons c l ih =>
    intro b' h
    cases b' with
    | nil => simp [hexLower] at h
    | cons c' l' =>
      unfold hexLower at h
      rw [List.flatMap_cons, List.flatMap_cons] at h
      simp only [List.cons_append, List.nil_append, List.cons.injEq] at h
      obtain ⟨h1, h2, h3⟩ := h
      have hc := UInt8.toNat_lt c
      have hc' := UInt8.toNat_lt c'
      have e1 := hexNibble_inj _ (by omega) _ (by omega) h1
      have e2 := hexNibble_inj _ (Nat.mod_lt _ (by decide)) _ (Nat.mod_lt _ (by decide)) h2
      have : c = c' := by rw [← UInt8.toNat_inj]; omega
      rw [this, ih l' h3]

end GoCrypt.Absorb2
