import GoCrypt.Proofs.B64IRTop

/-!
# Buffer IR of `hash/base64le`: `decodeQuantum` on a prefix window of its source buffer

The lemmas of `B64IRQuantum.lean` again, for a source slice `⟨s, 0, src.size, cp⟩` that is a prefix
window of a heap buffer `S` which may be longer (`src` = the first `src.size` bytes of `S`) and whose
capacity `cp` is arbitrary. Helper lemmas only.
-/

namespace GoCrypt.B64IR
open GoCrypt.Base64LE GoCrypt.Gen.base64leIR GoCrypt.Gen.base64le GoCrypt.Spec.Base64Bits


/-- Frame of `decodeQuantum` with the slots the newline-skipping loops touch made explicit. -/
def skEnvW (v0 : Val) (ds : Slice) (s sn cp : Nat) (si : Nat) (r : List Val) : Env :=
  v0 :: .slice ds :: .slice ⟨s, 0, sn, cp⟩ :: .int si :: r

theorem dqSkip_loopW (c : Ctx) (H : Heap) (s : Nat) (S src : Buf) (hs : H[s]? = some S) (hle : src.size ≤ S.size)
    (hbr : ∀ (i : Nat) (h1 : i < S.size) (h2 : i < src.size), S[i]'h1 = src[i]'h2) (cp : Nat) (ds : Slice) (v0 : Val)
    (r : List Val) (hsz : src.size < 2 ^ 62) :
    ∀ fuel si, si ≤ src.size → src.size - si ≤ fuel →
    loop (fun h env => eval h env dqSkip.forCond >>= asBool) (exec c dqSkip.forBody) (exec c dqSkip.forPost) fuel H
      (skEnvW v0 ds s src.size cp si r) = .norm H (skEnvW v0 ds s src.size cp (skipNL src si) r) := by
  intro fuel
  induction fuel with
  | zero =>
    intro si h1 h2
    have : si = src.size := by omega
    subst this
    rw [skipNL_of_ge src _ (Nat.le_refl _)]
    apply loop_false
    simp only [dqSkip, dqBody, dqFor, Stmt.forCond, Stmt.forBody, Stmt.head, Stmt.drop, decodeQuantumIR, skEnvW]
    b64_simp []
  | succ fuel ih =>
    intro si h1 h2
    by_cases hlt : si < src.size
    · by_cases hnl : src[si].toNat = 10 ∨ src[si].toNat = 13
      · have hs1 : skipNL src si = skipNL src (si + 1) := by
          rw [skipNL]; simp [hlt, (isNL_iff _).2 hnl]
        have hcond : (eval H (skEnvW v0 ds s src.size cp si r) dqSkip.forCond >>= asBool) = .ok true := by
          simp only [dqSkip, dqBody, dqFor, Stmt.forCond, Stmt.forBody, Stmt.head, Stmt.drop, decodeQuantumIR, skEnvW]
          rcases hnl with hnl | hnl
          · b64_simp [hs, hbr, hnl]
          · b64_simp [hs, hbr, hnl]
        have hbody : exec c dqSkip.forBody H (skEnvW v0 ds s src.size cp si r) = .norm H (skEnvW v0 ds s src.size cp (si + 1) r) := by
          simp only [dqSkip, dqBody, dqFor, Stmt.forBody, Stmt.head, Stmt.drop, decodeQuantumIR, skEnvW]
          b64_simp []
        have hpost : dqSkip.forPost = .skip := rfl
        rw [loop_step _ _ _ _ _ _ hcond, hs1, hbody, hpost, afterBody_norm, exec_skip, afterPost_norm]
        exact ih (si + 1) (by omega) (by omega)
      · have hcond : (eval H (skEnvW v0 ds s src.size cp si r) dqSkip.forCond >>= asBool) = .ok false := by
          simp only [dqSkip, dqBody, dqFor, Stmt.forCond, Stmt.forBody, Stmt.head, Stmt.drop, decodeQuantumIR, skEnvW]
          have h10 : ¬ src[si].toNat = 10 := fun h => hnl (Or.inl h)
          have h13 : ¬ src[si].toNat = 13 := fun h => hnl (Or.inr h)
          b64_simp [hs, hbr, h10, h13]
        have hn : isNL (src.getD si 0) = false := by
          rw [arr_getD_eq hlt]
          cases h : isNL src[si]
          · rfl
          · exact absurd ((isNL_iff _).1 h) hnl
        rw [skipNL_of_not src si hlt hn]
        exact loop_false _ _ _ _ _ _ hcond
    · have : si = src.size := by omega
      subst this
      rw [skipNL_of_ge src _ (Nat.le_refl _)]
      apply loop_false
      simp only [dqSkip, dqBody, dqFor, Stmt.forCond, Stmt.forBody, Stmt.head, Stmt.drop, decodeQuantumIR, skEnvW]
      b64_simp []

theorem dqSkip_runW (c : Ctx) (H : Heap) (s : Nat) (S src : Buf) (hs : H[s]? = some S) (hle : src.size ≤ S.size)
    (hbr : ∀ (i : Nat) (h1 : i < S.size) (h2 : i < src.size), S[i]'h1 = src[i]'h2) (cp : Nat) (ds : Slice) (v0 : Val)
    (r : List Val) (hsz : src.size < 2 ^ 62) (si : Nat) (hsi : si ≤ src.size) :
    exec c dqSkip H (skEnvW v0 ds s src.size cp si r) = .norm H (skEnvW v0 ds s src.size cp (skipNL src si) r) := by
  rw [dqSkip_eq, exec_for]
  have hfuel : (eval H (skEnvW v0 ds s src.size cp si r) dqSkip.forFuel >>= asInt) =
      .ok ((1 + ds.len + src.size + 10 + 13 : Nat) : Int) := by
    simp only [dqSkip, dqBody, dqFor, Stmt.forFuel, Stmt.forBody, Stmt.head, Stmt.drop, decodeQuantumIR, skEnvW]
    b64_simp []
    congr 1
  rw [hfuel, bindR_ok, Int.toNat_natCast]
  exact dqSkip_loopW c H s S src hs hle hbr cp ds v0 r hsz _ si hsi (by omega)

/-! ## One iteration of the digit-collecting loop -/

/-- Frame of `decodeQuantum` inside its loop. -/
def dqEnvW (e : Encoding) (ds : Slice) (s sn cp si : Nat) (err : Val) (db : Bytes) (dlen : Nat) (j : Int) (v10 v11 v13 : Val) : Env :=
  skEnvW (encVal e) ds s sn cp si [.int 0, .int 0, err, .arr db, .int dlen, .int j, v10, v11, .undef, v13, .undef]

section steps
variable (c : Ctx) (e : Encoding) (hal : e.alphabet.length = 64) (H : Heap) (s : Nat) (S src : Buf) (hs : H[s]? = some S) (hle : src.size ≤ S.size)
    (hbr : ∀ (i : Nat) (h1 : i < S.size) (h2 : i < src.size), S[i]'h1 = src[i]'h2) (cp : Nat) (ds : Slice) (hsz : src.size < 2 ^ 62)

include hs hle hbr hsz in
/-- The newline-skipping loop as a rewrite rule on unfolded terms. -/
theorem sk_ruleW (v0 : Val) (r : List Val) (si : Nat) (hsi : si ≤ src.size) :
    exec c dqSkip H (v0 :: .slice ds :: .slice ⟨s, 0, src.size, cp⟩ :: .int si :: r) =
      .norm H (v0 :: .slice ds :: .slice ⟨s, 0, src.size, cp⟩ :: .int (skipNL src si : Nat) :: r) :=
  dqSkip_runW c H s S src hs hle hbr cp ds v0 r hsz si hsi

include hal hs hle hbr hsz in
theorem dqBody_digitW (K : Heap → Env → Out) (si : Nat) (db : Bytes) (j : Nat) (v10 v11 v13 : Val)
    (hsi : si < src.size) (hj : j < 4) (hdb : db.length = 4) (hout : e.dec src[si] ≠ 255) :
    afterBody (exec c dqPost) K (exec c dqBody H (dqEnvW e ds s src.size cp si (.err none) db 4 j v10 v11 v13)) =
      K H (dqEnvW e ds s src.size cp (si + 1) (.err none) (db.set j (UInt8.ofNat (e.dec src[si]))) 4 ((j + 1 : Nat) : Int)
        (.int src[si].toNat) (.int (e.dec src[si] : Nat)) v13) := by
  have hdm := decodeMap_index e hal src[si]
  have hlt : e.dec src[si] < 256 := by have := dec_range e hal src[si]; omega
  have hby := asByte_nat _ hlt
  simp only [dqBody, dqPost, dqFor, Stmt.forBody, Stmt.forPost, Stmt.head, Stmt.drop, decodeQuantumIR, dqEnvW, skEnvW, encVal]
  b64_simp [hs, hbr, hdm, hout, hdb, hby]

include hal hs hle hbr hsz in
theorem dqBody_newlineW (K : Heap → Env → Out) (si : Nat) (db : Bytes) (j : Nat) (v10 v11 v13 : Val)
    (hsi : si < src.size) (hj : j < 4) (hout : e.dec src[si] = 255)
    (hnl : src[si].toNat = 10 ∨ src[si].toNat = 13) :
    afterBody (exec c dqPost) K (exec c dqBody H (dqEnvW e ds s src.size cp si (.err none) db 4 j v10 v11 v13)) =
      K H (dqEnvW e ds s src.size cp (si + 1) (.err none) db 4 (j : Int) (.int src[si].toNat) (.int (255 : Nat)) v13) := by
  have hdm := decodeMap_index e hal src[si]
  simp only [dqBody, dqPost, dqFor, Stmt.forBody, Stmt.forPost, Stmt.head, Stmt.drop, decodeQuantumIR, dqEnvW, skEnvW, encVal]
  rcases hnl with hnl | hnl
  · b64_simp [hs, hbr, hdm, hout, eq_true hnl]
  · have h10 : ¬ src[si].toNat = 10 := by omega
    b64_simp [hs, hbr, hdm, hout, eq_true hnl, h10]

include hal hs hle hbr hsz in
theorem dqBody_badW (K : Heap → Env → Out) (si : Nat) (db : Bytes) (j : Nat) (v10 v11 v13 : Val)
    (hsi : si < src.size) (hj : j < 4) (hout : e.dec src[si] = 255)
    (h10 : ¬ src[si].toNat = 10) (h13 : ¬ src[si].toNat = 13) (hbad : ¬ (src[si].toNat : Int) = padInt e) :
    afterBody (exec c dqPost) K (exec c dqBody H (dqEnvW e ds s src.size cp si (.err none) db 4 j v10 v11 v13)) =
      .ret H [.int (si + 1 : Nat), .int 0, errVal (some si)] := by
  have hdm := decodeMap_index e hal src[si]
  simp only [dqBody, dqPost, dqFor, Stmt.forBody, Stmt.forPost, Stmt.head, Stmt.drop, decodeQuantumIR, dqEnvW, skEnvW, encVal, errVal]
  b64_simp [hs, hbr, hdm, hout, h10, h13, hbad]
  rfl

include hal hs hle hbr hsz in
theorem dqBody_pad01W (K : Heap → Env → Out) (si : Nat) (db : Bytes) (j : Nat) (v10 v11 v13 : Val)
    (hsi : si < src.size) (hj : j < 2) (hout : e.dec src[si] = 255)
    (h10 : ¬ src[si].toNat = 10) (h13 : ¬ src[si].toNat = 13) (hpad : (src[si].toNat : Int) = padInt e) :
    afterBody (exec c dqPost) K (exec c dqBody H (dqEnvW e ds s src.size cp si (.err none) db 4 j v10 v11 v13)) =
      .ret H [.int (si + 1 : Nat), .int 0, errVal (some si)] := by
  have hdm := decodeMap_index e hal src[si]
  simp only [dqBody, dqPost, dqFor, Stmt.forBody, Stmt.forPost, Stmt.head, Stmt.drop, decodeQuantumIR, dqEnvW, skEnvW, encVal, errVal]
  have hj' : j = 0 ∨ j = 1 := by omega
  rcases hj' with rfl | rfl
  · b64_simp [hs, hbr, hdm, hout, h10, h13, eq_true hpad]
    rfl
  · b64_simp [hs, hbr, hdm, hout, h10, h13, eq_true hpad]
    rfl

include hal hs hle hbr hsz in
theorem dqBody_pad3W (K : Heap → Env → Out) (si si4 : Nat) (db : Bytes) (v10 v11 v13 : Val)
    (hsi : si < src.size) (hout : e.dec src[si] = 255)
    (h10 : ¬ src[si].toNat = 10) (h13 : ¬ src[si].toNat = 13) (hpad : (src[si].toNat : Int) = padInt e)
    (hsi4 : skipNL src (si + 1) = si4) :
    afterBody (exec c dqPost) K (exec c dqBody H (dqEnvW e ds s src.size cp si (.err none) db 4 ((3 : Nat) : Int) v10 v11 v13)) =
      .norm H (dqEnvW e ds s src.size cp si4 (errVal (if si4 < src.size then some si4 else none)) db 3 3
        (.int src[si].toNat) (.int (255 : Nat)) (.int 3)) := by
  have hdm := decodeMap_index e hal src[si]
  have sk := sk_ruleW c H s S src hs hle hbr cp ds hsz
  simp only [dqSkip, dqBody, dqFor, Stmt.forBody, Stmt.head, Stmt.drop, decodeQuantumIR] at sk
  simp only [dqBody, dqPost, dqFor, Stmt.forBody, Stmt.forPost, Stmt.head, Stmt.drop, decodeQuantumIR, dqEnvW, skEnvW, encVal, errVal]
  by_cases h4 : si4 < src.size
  · b64_simp [hs, hbr, hdm, hout, h10, h13, eq_true hpad, sk, hsi4, h4]
    rfl
  · b64_simp [hs, hbr, hdm, hout, h10, h13, eq_true hpad, sk, hsi4, h4]
    rfl

include hal hs hle hbr hsz in
theorem dqBody_pad2_shortW (K : Heap → Env → Out) (si : Nat) (db : Bytes) (v10 v11 v13 : Val)
    (hsi : si < src.size) (hout : e.dec src[si] = 255)
    (h10 : ¬ src[si].toNat = 10) (h13 : ¬ src[si].toNat = 13) (hpad : (src[si].toNat : Int) = padInt e)
    (hsi2 : skipNL src (si + 1) = src.size) :
    afterBody (exec c dqPost) K (exec c dqBody H (dqEnvW e ds s src.size cp si (.err none) db 4 ((2 : Nat) : Int) v10 v11 v13)) =
      .ret H [.int (src.size : Nat), .int 0, errVal (some src.size)] := by
  have hdm := decodeMap_index e hal src[si]
  have sk := sk_ruleW c H s S src hs hle hbr cp ds hsz
  simp only [dqSkip, dqBody, dqFor, Stmt.forBody, Stmt.head, Stmt.drop, decodeQuantumIR] at sk
  simp only [dqBody, dqPost, dqFor, Stmt.forBody, Stmt.forPost, Stmt.head, Stmt.drop, decodeQuantumIR, dqEnvW, skEnvW, encVal, errVal]
  b64_simp [hs, hbr, hdm, hout, h10, h13, eq_true hpad, sk, hsi2]
  rfl

include hal hs hle hbr hsz in
theorem dqBody_pad2_badW (K : Heap → Env → Out) (si si2 : Nat) (db : Bytes) (v10 v11 v13 : Val)
    (hsi : si < src.size) (hout : e.dec src[si] = 255)
    (h10 : ¬ src[si].toNat = 10) (h13 : ¬ src[si].toNat = 13) (hpad : (src[si].toNat : Int) = padInt e)
    (hsi2 : skipNL src (si + 1) = si2) (hlt : si2 < src.size) (hpad2 : ¬ (src[si2].toNat : Int) = padInt e) :
    afterBody (exec c dqPost) K (exec c dqBody H (dqEnvW e ds s src.size cp si (.err none) db 4 ((2 : Nat) : Int) v10 v11 v13)) =
      .ret H [.int (si2 : Nat), .int 0, errVal (some (si2 - 1))] := by
  have hdm := decodeMap_index e hal src[si]
  have sk := sk_ruleW c H s S src hs hle hbr cp ds hsz
  have h1 : 1 ≤ si2 := by
    have := (skipNL_bounds src (si + 1) (by omega)).1
    omega
  simp only [dqSkip, dqBody, dqFor, Stmt.forBody, Stmt.head, Stmt.drop, decodeQuantumIR] at sk
  simp only [dqBody, dqPost, dqFor, Stmt.forBody, Stmt.forPost, Stmt.head, Stmt.drop, decodeQuantumIR, dqEnvW, skEnvW, encVal, errVal]
  b64_simp [hs, hbr, hdm, hout, h10, h13, eq_true hpad, sk, hsi2, hpad2]
  rfl

include hal hs hle hbr hsz in
theorem dqBody_pad2W (K : Heap → Env → Out) (si si2 si4 : Nat) (db : Bytes) (v10 v11 v13 : Val)
    (hsi : si < src.size) (hout : e.dec src[si] = 255)
    (h10 : ¬ src[si].toNat = 10) (h13 : ¬ src[si].toNat = 13) (hpad : (src[si].toNat : Int) = padInt e)
    (hsi2 : skipNL src (si + 1) = si2) (hlt : si2 < src.size) (hpad2 : (src[si2].toNat : Int) = padInt e)
    (hsi4 : skipNL src (si2 + 1) = si4) :
    afterBody (exec c dqPost) K (exec c dqBody H (dqEnvW e ds s src.size cp si (.err none) db 4 ((2 : Nat) : Int) v10 v11 v13)) =
      .norm H (dqEnvW e ds s src.size cp si4 (errVal (if si4 < src.size then some si4 else none)) db 2 2
        (.int src[si].toNat) (.int (255 : Nat)) (.int 2)) := by
  have hdm := decodeMap_index e hal src[si]
  have sk := sk_ruleW c H s S src hs hle hbr cp ds hsz
  simp only [dqSkip, dqBody, dqFor, Stmt.forBody, Stmt.head, Stmt.drop, decodeQuantumIR] at sk
  simp only [dqBody, dqPost, dqFor, Stmt.forBody, Stmt.forPost, Stmt.head, Stmt.drop, decodeQuantumIR, dqEnvW, skEnvW, encVal, errVal]
  by_cases h4 : si4 < src.size
  · b64_simp [hs, hbr, hdm, hout, h10, h13, eq_true hpad, sk, hsi2, eq_true hpad2, hsi4, h4]
    rfl
  · b64_simp [hs, hbr, hdm, hout, h10, h13, eq_true hpad, sk, hsi2, eq_true hpad2, hsi4, h4]
    rfl

/-! End of input -/

include hsz in
theorem dqBody_eof0W (K : Heap → Env → Out) (db : Bytes) (v10 v11 v13 : Val) :
    afterBody (exec c dqPost) K (exec c dqBody H (dqEnvW e ds s src.size cp src.size (.err none) db 4 ((0 : Nat) : Int) v10 v11 v13)) =
      .ret H [.int (src.size : Nat), .int 0, errVal none] := by
  simp only [dqBody, dqPost, dqFor, Stmt.forBody, Stmt.forPost, Stmt.head, Stmt.drop, decodeQuantumIR, dqEnvW, skEnvW, encVal, errVal]
  b64_simp []
  rfl

include hsz in
theorem dqBody_eof_errW (K : Heap → Env → Out) (db : Bytes) (j : Nat) (v10 v11 v13 : Val)
    (hj0 : j ≠ 0) (hj : j < 4) (hjs : j ≤ src.size) (hc : j = 1 ∨ ¬ padInt e = -1) :
    afterBody (exec c dqPost) K (exec c dqBody H (dqEnvW e ds s src.size cp src.size (.err none) db 4 j v10 v11 v13)) =
      .ret H [.int (src.size : Nat), .int 0, errVal (some (src.size - j))] := by
  simp only [dqBody, dqPost, dqFor, Stmt.forBody, Stmt.forPost, Stmt.head, Stmt.drop, decodeQuantumIR, dqEnvW, skEnvW, encVal, errVal]
  rcases hc with hc | hc
  · b64_simp [hj0, hc]
    rfl
  · by_cases h1 : j = 1
    · b64_simp [hj0, h1]
      rfl
    · b64_simp [hj0, h1, hc]
      rfl

include hsz in
theorem dqBody_eof_okW (K : Heap → Env → Out) (db : Bytes) (j : Nat) (v10 v11 v13 : Val)
    (hj : j = 2 ∨ j = 3) (hc : padInt e = -1) :
    afterBody (exec c dqPost) K (exec c dqBody H (dqEnvW e ds s src.size cp src.size (.err none) db 4 j v10 v11 v13)) =
      .norm H (dqEnvW e ds s src.size cp src.size (.err none) db j j v10 v11 v13) := by
  simp only [dqBody, dqPost, dqFor, Stmt.forBody, Stmt.forPost, Stmt.head, Stmt.drop, decodeQuantumIR, dqEnvW, skEnvW, encVal]
  rcases hj with rfl | rfl
  · b64_simp [hc]
  · b64_simp [hc]

end steps

/-- What the IR loop must produce, given what `collect` returns. -/
def DqRelW (e : Encoding) (H : Heap) (ds : Slice) (s : Nat) (src : Buf) (cp : Nat) :
    Sum (Nat × Option Nat) (Nat × Nat × List Nat × Option Nat) → Out → Prop
  | .inl (si', err), o => si' ≤ src.size ∧ o = .ret H [.int (si' : Nat), .int 0, errVal err]
  | .inr (si', dlen, dr, err), o =>
    si' ≤ src.size ∧ dr.length = dlen ∧ 2 ≤ dlen ∧ dlen ≤ 4 ∧ dlen ≤ si' ∧ (∀ x ∈ dr, x < 256) ∧
      ∃ vj v10 v11 v13, o = .norm H (dqEnvW e ds s src.size cp si' (errVal err) (arr4 dr.reverse) dlen vj v10 v11 v13)

theorem dqC_eqW (e : Encoding) (H : Heap) (ds : Slice) (s sn cp si : Nat) (err : Val) (db : Bytes) (dlen : Nat) (j : Nat)
    (v10 v11 v13 : Val) : dqC H (dqEnvW e ds s sn cp si err db dlen j v10 v11 v13) = .ok (decide (j < 4)) := by
  simp only [dqC, dqFor, Stmt.forCond, Stmt.head, Stmt.drop, decodeQuantumIR, dqEnvW, skEnvW]
  b64_simp []

theorem dqLoop_specW (c : Ctx) (e : Encoding) (hal : e.alphabet.length = 64) (H : Heap) (s : Nat) (S src : Buf) (hs : H[s]? = some S) (hle : src.size ≤ S.size)
    (hbr : ∀ (i : Nat) (h1 : i < S.size) (h2 : i < src.size), S[i]'h1 = src[i]'h2) (cp : Nat) (ds : Slice) (hsz : src.size < 2 ^ 62) :
    ∀ (n si j : Nat) (dr : List Nat) (v10 v11 v13 : Val) (fuel : Nat), src.size - si = n → si ≤ src.size →
      dr.length = j → j ≤ 4 → j ≤ si → (∀ x ∈ dr, x < 256) → src.size - si + 1 ≤ fuel →
      DqRelW e H ds s src cp (collect e src si j dr)
        (loop dqC (exec c dqBody) (exec c dqPost) fuel H
          (dqEnvW e ds s src.size cp si (.err none) (arr4 dr.reverse) 4 j v10 v11 v13)) := by
  intro n
  induction n using Nat.strongRecOn with
  | _ n ih =>
    intro si j dr v10 v11 v13 fuel hn hsi hdr hj4 hjs hdig hfuel
    by_cases hj : j = 4
    · -- four digits collected: the loop ends
      subst hj
      rw [collect_done, loop_false _ _ _ _ _ _ (by rw [dqC_eqW]; rfl)]
      exact ⟨hsi, hdr, by omega, by omega, by omega, hdig, _, _, _, _, rfl⟩
    · have hjlt : j < 4 := by omega
      obtain ⟨f, rfl⟩ : ∃ f, fuel = f + 1 := ⟨fuel - 1, by omega⟩
      rw [loop_step _ _ _ _ _ _ (by rw [dqC_eqW]; simp [hjlt])]
      by_cases hlt : si < src.size
      · -- a character is available
        by_cases hout : e.dec src[si] = 255
        · by_cases hnl : isNL src[si] = true
          · -- newline: skipped
            rw [dqBody_newlineW c e hal H s S src hs hle hbr cp ds hsz _ si _ j v10 v11 v13 hlt hjlt hout ((isNL_iff _).1 hnl),
              collect_nl e src si j dr hlt hjlt hout hnl]
            exact ih (src.size - (si + 1)) (by omega) (si + 1) j dr _ _ _ f rfl (by omega) hdr hj4 (by omega) hdig
              (by omega)
          · have hnl' : isNL src[si] = false := by simpa using hnl
            have h10 : ¬ src[si].toNat = 10 := fun h => hnl ((isNL_iff _).2 (Or.inl h))
            have h13 : ¬ src[si].toNat = 13 := fun h => hnl ((isNL_iff _).2 (Or.inr h))
            by_cases hp : some src[si] = e.pad
            · have hp' : (src[si].toNat : Int) = padInt e :=
                Decidable.byContradiction fun h => ((pad_ne_iff e _).2 h) hp
              -- padding
              have hjc : j < 2 ∨ j = 2 ∨ j = 3 := by omega
              rcases hjc with hj2 | rfl | rfl
              · rw [dqBody_pad01W c e hal H s S src hs hle hbr cp ds hsz _ si _ j v10 v11 v13 hlt hj2 hout h10 h13 hp',
                  collect_pad01 e src si j dr hlt hj2 hout hnl' hp]
                exact ⟨by omega, rfl⟩
              · -- "==" expected
                have hb := skipNL_bounds src (si + 1) (by omega)
                by_cases h2 : skipNL src (si + 1) = src.size
                · rw [dqBody_pad2_shortW c e hal H s S src hs hle hbr cp ds hsz _ si _ v10 v11 v13 hlt hout h10 h13 hp' h2,
                    collect_pad2_short e src si dr hlt hout hnl' hp h2]
                  exact ⟨Nat.le_refl _, rfl⟩
                · have hlt2 : skipNL src (si + 1) < src.size := by omega
                  by_cases hp2 : some src[skipNL src (si + 1)] = e.pad
                  · have hp2' : (src[skipNL src (si + 1)].toNat : Int) = padInt e :=
                      Decidable.byContradiction fun h => ((pad_ne_iff e _).2 h) hp2
                    have hb4 := skipNL_bounds src (skipNL src (si + 1) + 1) (by omega)
                    rw [dqBody_pad2W c e hal H s S src hs hle hbr cp ds hsz _ si _ _ _ v10 v11 v13 hlt hout h10 h13 hp' rfl hlt2 hp2' rfl,
                      collect_pad2_ok e src si dr _ _ hlt hout hnl' hp rfl hlt2 hp2 rfl]
                    exact ⟨hb4.2, hdr, by omega, by omega, by omega, hdig, _, _, _, _, rfl⟩
                  · have hp2' : ¬ (src[skipNL src (si + 1)].toNat : Int) = padInt e :=
                      (pad_ne_iff e src[skipNL src (si + 1)]).1 hp2
                    rw [dqBody_pad2_badW c e hal H s S src hs hle hbr cp ds hsz _ si _ _ v10 v11 v13 hlt hout h10 h13 hp' rfl hlt2 hp2',
                      collect_pad2_bad e src si dr _ hlt hout hnl' hp rfl hlt2 hp2]
                    exact ⟨by omega, rfl⟩
              · have hb4 := skipNL_bounds src (si + 1) (by omega)
                rw [dqBody_pad3W c e hal H s S src hs hle hbr cp ds hsz _ si _ _ v10 v11 v13 hlt hout h10 h13 hp' rfl,
                  collect_pad3' e src si dr _ hlt hout hnl' hp rfl]
                exact ⟨hb4.2, hdr, by omega, by omega, by omega, hdig, _, _, _, _, rfl⟩
            · -- neither digit, newline nor padding
              have hp' : ¬ (src[si].toNat : Int) = padInt e := (pad_ne_iff e src[si]).1 hp
              rw [dqBody_badW c e hal H s S src hs hle hbr cp ds hsz _ si _ j v10 v11 v13 hlt hjlt hout h10 h13 hp',
                collect_badc e src si j dr hlt hjlt hout hnl' hp]
              exact ⟨by omega, rfl⟩
        · -- a digit
          have hr := dec_range e hal src[si]
          rw [dqBody_digitW c e hal H s S src hs hle hbr cp ds hsz _ si _ j v10 v11 v13 hlt hjlt (arr4_length _) hout,
            collect_valid e src si j dr hlt hjlt (by rw [arr_getD_eq hlt]; exact hout), arr_getD_eq hlt]
          have hset : (arr4 dr.reverse).set j (UInt8.ofNat (e.dec src[si])) = arr4 (e.dec src[si] :: dr).reverse := by
            rw [List.reverse_cons, ← arr4_snoc _ _ (by simp; omega)]; simp [hdr]
          rw [hset]
          exact ih (src.size - (si + 1)) (by omega) (si + 1) (j + 1) (e.dec src[si] :: dr) _ _ _ f rfl (by omega)
            (by simp [hdr]) (by omega) (by omega)
            (by intro x hx; simp at hx; rcases hx with rfl | hx; · omega
                exact hdig x hx) (by omega)
      · -- end of input
        have hse : si = src.size := by omega
        subst hse
        by_cases hj0 : j = 0
        · subst hj0
          rw [dqBody_eof0W c e H s src cp ds hsz, collect_eof0 e src _ dr (Nat.le_refl _)]
          exact ⟨Nat.le_refl _, rfl⟩
        · by_cases hc : j = 1 ∨ e.pad.isSome = true
          · have hc' : j = 1 ∨ ¬ padInt e = -1 := by
              rcases hc with h | h
              · exact Or.inl h
              · right; rw [padInt_eq_neg_one]; cases hh : e.pad <;> simp_all
            rw [dqBody_eof_errW c e H s src cp ds hsz _ _ j v10 v11 v13 hj0 hjlt hjs hc',
              collect_eof_err e src _ j dr (Nat.le_refl _) hj0 hjlt hc]
            exact ⟨Nat.le_refl _, rfl⟩
          · have hj23 : j = 2 ∨ j = 3 := by omega
            have hpn : e.pad = none := by
              cases hh : e.pad with
              | none => rfl
              | some p => exact absurd (Or.inr (by simp [hh])) hc
            have hpi : padInt e = -1 := by simp [padInt, hpn]
            rw [dqBody_eof_okW c e H s src cp ds hsz _ _ j v10 v11 v13 hj23 hpi,
              collect_eof_ok e src _ j dr (Nat.le_refl _) hj23 hpn]
            exact ⟨Nat.le_refl _, hdr, by omega, by omega, by omega, hdig, _, _, _, _, rfl⟩


end GoCrypt.B64IR
