import GoCrypt.Proofs.FlowNI
import GoCrypt.Gen.Flow

/-!
# A concrete interpretation satisfying `Trusted`

Used (a) to show that the hypotheses of the non-interference theorems are satisfiable on a real
generated program, and (b) to exhibit, by evaluation, the leaks that `secretSafe` lets through.
The interpretation has one deliberately *leaky* function, `trim` (drops leading zero bytes; cost =
2 · number of bytes dropped + 1), standing for any ordinary data-dependent Go function.
-/

namespace GoCrypt.Flow.Demo
open GoCrypt.Flow

def blen : Val → Nat
  | .bytes b => b.length
  | _ => 0

def bytesOf : Val → List UInt8
  | .bytes b => b
  | _ => []

/-- Toy encoder: fills a buffer as long as `d` from the bytes of `s`. -/
def encOut (d s : Val) : Val :=
  .bytes ((List.range (blen d)).map fun i => (bytesOf s).getD i 0 + 1)

def isNil : Val → Bool
  | .nil => true
  | _ => false

def apply (f a : Val) : Val :=
  match f with
  | .fn n =>
    if n = "len" then .int (blen a)
    else if n = ctcName then .data "ctc1" [a]
    else if isEncodeFn n then .data "enc1" [a]
    else if n = "trim" then .bytes ((bytesOf a).dropWhile (· == 0))
    else if n = "crypthash.Unmarshal" then .data "unmarshal1" [a]
    else .data "app" [f, a]
  | .data tag [x] =>
    if tag = "ctc1" then
      (match x, a with
        | .bytes p, .bytes q => .int (if p = q then 1 else 0)
        | _, _ => .int 0)
    else if tag = "enc1" then encOut x a
    else if tag = "unmarshal1" then .nil
    else .data "app" [f, a]
  | _ => .data "app" [f, a]

def applyCost (f a : Val) : Nat :=
  match f with
  | .fn n =>
    if n = "trim" then 2 * ((bytesOf a).takeWhile (· == 0)).length + 1
    else if n = "len" then 1
    else 0
  | .data tag [x] =>
    if tag = "ctc1" then blen x + blen a
    else if tag = "enc1" then blen a
    else 7
  | _ => 7

def op (o : String) (a b : Val) : Val :=
  if o = "==" then
    (match a, b with
      | .int m, .int n => .int (if m = n then 1 else 0)
      | _, _ => .int 0)
  else if o = "!=" then .int (if isNil a && isNil b then 0 else 1)
  else .data "op" [a, b]

def demoI : Interp where
  const d := if d = "0" then .int 0 else if d = "nil" then .nil else .data d []
  apply := apply
  applyCost := applyCost
  op := op
  opCost _ _ _ := 1
  un _ v := v
  unCost _ _ := 0
  other _ _ := .nil
  otherCost _ _ := 0
  stmtOther _ env := (env, none, 0)
  zero x := if x = "b" then .bytes [0, 0, 0, 0] else .nil
  truthy v := match v with
    | .int n => n != 0
    | _ => false
  keyCost _ := 100

/-- A key oracle returning the given key and a `nil` error. -/
def keyIs (k : List UInt8) : KeyOracle := fun _ => (.bytes k, [.nil])

theorem shapeEq_cases {v v' : Val} (h : ShapeEq v v') :
    v = v' ∨ ∃ x y, v = .bytes x ∧ v' = .bytes y ∧ x.length = y.length := by
  cases v <;> cases v' <;> simp_all [ShapeEq, Val.shape]

theorem blen_shape {v v' : Val} (h : ShapeEq v v') : blen v = blen v' := by
  rcases shapeEq_cases h with rfl | ⟨x, y, rfl, rfl, hl⟩
  · rfl
  · exact hl

theorem encOut_shape (d s : Val) : (encOut d s).shape = .bytes (List.replicate (blen d) 0) := by
  simp [encOut, Val.shape]

theorem demo_trusted : Trusted demoI where
  slice v v' h := ⟨h, rfl⟩
  len v v' h := by
    simp [demoI, apply, applyCost, blen_shape h]
  ctc_cost a a' b b' ha hb := by
    simp [demoI, apply, applyCost, ctcName, blen_shape ha, blen_shape hb]
  ctc_val x y := by
    simp [demoI, apply, ctcName]
  enc f hf d d' s s' hd hs := by
    have h1 : f ≠ "len" := by rintro rfl; revert hf; decide
    have h2 : f ≠ ctcName := by rintro rfl; revert hf; decide
    have h3 : f ≠ "trim" := by rintro rfl; revert hf; decide
    simp [demoI, apply, applyCost, h1, h2, h3, hf, ShapeEq, encOut_shape, blen_shape hd,
      blen_shape hs]

theorem keyRel_of_length {k₁ k₂ : List UInt8} (h : k₁.length = k₂.length) :
    KeyRel (keyIs k₁) (keyIs k₂) := fun _ => ⟨shapeEq_bytes h, rfl⟩

end GoCrypt.Flow.Demo
