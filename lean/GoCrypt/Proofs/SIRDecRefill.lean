import GoCrypt.Proofs.SIRDecRead
import GoCrypt.Proofs.SIRDecRefillModel

/-!
# Stream IR, decoder side: the refill loop of `(*decoder).Read`

`for d.nbuf < 4 && d.readErr == nil { … nn, d.readErr = d.r.Read(d.buf[d.nbuf:nn]); d.nbuf += nn }` is the
model's `DecSt.refill`; the call `d.r.Read` is dispatched on the object's type to the translated
`newlineFilteringReader.Read`. Helper lemmas only.
-/

namespace GoCrypt.SIR
open GoCrypt.B64IR (Buf Heap Slice Res sliceBytes writeList writeList_size writeList_append heap_set_self heap_lt_of_get)
open GoCrypt.Base64LE GoCrypt.Stream GoCrypt.Gen.base64leStream

/-- `for d.nbuf < 4 && d.readErr == nil { … }` -/
def drFor : Stmt := (decoderReadIR.body.drop 4).head
def drForBody : Stmt := drFor.forBody
/-- `nn := len(p) / 3 * 4; if nn < 4 { nn = 4 }; if nn > len(d.buf) { nn = len(d.buf) }` -/
def drNN : Stmt := drForBody.take 3
/-- `nn, d.readErr = d.r.Read(d.buf[d.nbuf:nn]); d.nbuf += nn` -/
def drReadIn : Stmt := drForBody.drop 3

theorem drFor_eq : drFor = .for_ drFor.forFuel drFor.forCond .skip drForBody := rfl
theorem dr_split4 : decoderReadIR.body.drop 4 = (drFor ;; decoderReadIR.body.drop 5) := rfl

theorem drNN_run (c : Ctx) (W : World) (sp : Slice) (v0 v2 v3 v4 v5 v6 v7 : Val) (hp : sp.len < 2 ^ 59) :
    exec c drNN W [v0, .slice sp, v2, v3, v4, v5, v6, v7] =
      .norm W [v0, .slice sp, v2, v3, .int (refillNN sp.len), v5, v6, v7] := by
  unfold refillNN
  simp only [drNN, drForBody, drFor, Stmt.take, Stmt.forBody, Stmt.head, Stmt.drop, decoderReadIR]
  by_cases h1 : sp.len / 3 * 4 < 4
  · b64_simp [h1]
  · by_cases h2 : sp.len / 3 * 4 > 1024
    · b64_simp [h1, h2]
    · b64_simp [h1, h2]

theorem nfr_tag : "newlineFilteringReader" ++ "." ++ "Read" = "newlineFilteringReader.Read" := by decide

/-- The read into `d.buf[d.nbuf:nn]` and the bookkeeping. `c'` is the meaning of calls one level down. -/
theorem drReadIn_run (c c' : Ctx) (hcall : ∀ W args, c.call "newlineFilteringReader.Read" W args = execProc c' nfrReadIR W args)
    (H : Heap) (O : List Obj) (X : List Ext) (d ae nf k bb bo nbuf nn : Nat) (ow : Slice) (err : Option Nat) (Bb : Buf) (st : DecSt)
    (v1 v2 v3 v5 v6 v7 : Val)
    (hobj : O[d]? = some (decObj err none ae nf bb nbuf ow bo)) (hnf : O[nf]? = some (nfrObj k))
    (hk : X[k]? = some (readerOf st)) (hbb : H[bb]? = some Bb) (hsz : Bb.size = 1024)
    (hnb : nbuf < 4) (hnn : 4 ≤ nn ∧ nn ≤ 1024) :
    exec c drReadIn ⟨H, O, X⟩ [.ptr d, v1, v2, v3, .int nn, v5, v6, v7] =
      .norm ⟨H.set bb (nfrBuf nbuf (nn - nbuf) st Bb (st.pending + 2)),
          O.set d (decObj err (st.filteredRead (nn - nbuf) (st.pending + 2)).2.2 ae nf bb
            (nbuf + (st.filteredRead (nn - nbuf) (st.pending + 2)).2.1.length) ow bo),
          X.set k (readerOf (st.filteredRead (nn - nbuf) (st.pending + 2)).1)⟩
        [.ptr d, v1, v2, v3, .int (st.filteredRead (nn - nbuf) (st.pending + 2)).2.1.length, v5, v6, v7] := by
  have hx := nfrRead_proc c' H O X nf k bb nbuf (nn - nbuf) (1024 - nbuf) Bb st (st.pending + 2) hnf hk hbb (by omega) (by omega)
    (by omega) (Nat.le_refl _)
  have hdl := lt_of_getElem? hobj
  have hlen := filteredRead_length_le st (nn - nbuf) (st.pending + 2)
  simp only [drReadIn, drForBody, drFor, Stmt.forBody, Stmt.head, Stmt.drop, decoderReadIR]
  b64_simp [hobj, decObj, hnf, nfrObj, nfr_tag, hcall, hx]

theorem drForBody_eq (c : Ctx) (W : World) (env : Env) :
    exec c drForBody W env = (exec c drNN W env).andThen (exec c drReadIn) := exec_take_drop c W env 3 drForBody

theorem drCond (H : Heap) (O : List Obj) (X : List Ext) (d ae nf bb bo nbuf : Nat) (ow : Slice) (err rerr : Option Nat)
    (v1 v2 v3 v4 v5 v6 v7 : Val) (hobj : O[d]? = some (decObj err rerr ae nf bb nbuf ow bo)) :
    (eval ⟨H, O, X⟩ [.ptr d, v1, v2, v3, v4, v5, v6, v7] drFor.forCond >>= asBool) = .ok (decide (nbuf < 4) && rerr.isNone) := by
  simp only [drFor, Stmt.forCond, Stmt.head, Stmt.drop, decoderReadIR]
  b64_simp [hobj, decObj]
  by_cases h : nbuf < 4 <;> simp [h]

/-! ## One iteration keeps the representation -/

theorem refillStep_fields (st : DecSt) (plen : Nat) :
    (refillStep st plen).err = st.err ∧ (refillStep st plen).out = st.out ∧
    (refillStep st plen).buf = st.buf ++ (st.filteredRead (refillNN plen - st.buf.length) (st.pending + 2)).2.1 ∧
    (refillStep st plen).readErr = (st.filteredRead (refillNN plen - st.buf.length) (st.pending + 2)).2.2 ∧
    readerOf (refillStep st plen) = readerOf (st.filteredRead (refillNN plen - st.buf.length) (st.pending + 2)).1 := by
  have hf := filteredRead_fields st (refillNN plen - st.buf.length) (st.pending + 2)
  refine ⟨hf.1, hf.2.2.2, ?_, rfl, rfl⟩
  show (st.filteredRead _ _).1.buf ++ _ = _
  rw [hf.2.2.1]

theorem refillStep_rep (L : DecLay) (e : Encoding) (ow : Slice) (st : DecSt) (H : Heap) (O : List Obj) (X : List Ext) (plen : Nat)
    (Bb : Buf) (hrep : DecRep L e ow st ⟨H, O, X⟩) (hout : st.out = []) (hnb : st.buf.length < 4) (hbb : H[L.bb]? = some Bb) :
    DecRep L e ow (refillStep st plen)
      ⟨H.set L.bb (nfrBuf st.buf.length (refillNN plen - st.buf.length) st Bb (st.pending + 2)),
        O.set L.d (decObj st.err (st.filteredRead (refillNN plen - st.buf.length) (st.pending + 2)).2.2 L.ae L.nf L.bb
          (st.buf.length + (st.filteredRead (refillNN plen - st.buf.length) (st.pending + 2)).2.1.length) ow L.bo),
        X.set L.k (readerOf (st.filteredRead (refillNN plen - st.buf.length) (st.pending + 2)).1)⟩ := by
  obtain ⟨hf1, hf2, hf3, hf4, hf5⟩ := refillStep_fields st plen
  have hnn := refillNN_bounds plen
  have hlen := filteredRead_length_le st (refillNN plen - st.buf.length) (st.pending + 2)
  obtain ⟨Bb', hb1, hb2, hb3⟩ := hrep.buf
  have hBB : Bb' = Bb := Option.some.inj (hb1.symm.trans hbb)
  subst hBB
  obtain ⟨Bo, ho1, ho2⟩ := hrep.outbuf
  have hdl := lt_of_getElem? hrep.obj
  have hkl := lt_of_getElem? hrep.rdr
  have hbl := heap_lt_of_get hbb
  have hwin := nfrBuf_window st.buf.length (refillNN plen - st.buf.length) st Bb' (st.pending + 2) (by omega)
  refine ⟨hrep.enc.mono _ _ ?_ ?_ ?_, ?_, ?_, ?_, ?_, ⟨_, List.getElem?_set_self hbl, ?_, ?_⟩, ⟨Bo, ?_, ho2⟩, ?_, hrep.outCap, ?_,
    hrep.ne_bb_bo, hrep.ne_b1_bb, hrep.ne_b1_bo, hrep.ne_b2_bb, hrep.ne_b2_bo, hrep.ne_d_ae, hrep.ne_d_nf⟩
  · exact List.getElem?_set_ne hrep.ne_d_ae
  · exact List.getElem?_set_ne (Ne.symm hrep.ne_b1_bb)
  · exact List.getElem?_set_ne (Ne.symm hrep.ne_b2_bb)
  · exact (List.getElem?_set_ne hrep.ne_d_nf).trans hrep.nfr
  · show (X.set L.k _)[L.k]? = _
    rw [hf5]; exact List.getElem?_set_self hkl
  · show (O.set L.d _)[L.d]? = _
    rw [hf1, hf3, hf4, List.length_append]; exact List.getElem?_set_self hdl
  · rw [hf3, List.length_append]; omega
  · rw [nfrBuf_size]; exact hb2
  · rw [hf3, List.length_append, List.take_add, hwin]
    congr 1
    refine Eq.trans ?_ hb3
    apply List.ext_getElem?
    intro i
    by_cases hi : i < st.buf.length
    · rw [List.getElem?_take_of_lt hi, List.getElem?_take_of_lt hi, Array.getElem?_toList, Array.getElem?_toList,
        nfrBuf_outside _ _ _ _ _ _ (Or.inl hi)]
    · rw [List.getElem?_eq_none (by simp; omega), List.getElem?_eq_none (by simp; omega)]
  · exact (List.getElem?_set_ne hrep.ne_bb_bo).trans ho1
  · rw [hf2]; exact hrep.outLen
  · intro h; rw [hf2] at h; exact absurd hout h

/-! ## The loop -/

theorem cond_false (n : Nat) (r : Option Nat) (h : ¬ (n < 4 ∧ r.isNone)) : (decide (n < 4) && r.isNone) = false := by
  cases r <;> by_cases h1 : n < 4 <;> simp_all

/-- The refill loop from a world that holds `st` ends in a world that holds `st.refill`; only `d.buf`'s buffer, the
decoder object and the reader change. -/
theorem drRefill_loop (c c' : Ctx) (hcall : ∀ W args, c.call "newlineFilteringReader.Read" W args = execProc c' nfrReadIR W args)
    (L : DecLay) (e : Encoding) (ow : Slice) (sp : Slice) (hp : sp.len < 2 ^ 59) (v2 v3 v5 v6 v7 : Val) :
    ∀ (fuel F : Nat) (st : DecSt) (H : Heap) (O : List Obj) (X : List Ext) (v4 : Val),
      DecRep L e ow st ⟨H, O, X⟩ → Live st → st.out = [] →
      (st.buf.length < 4 ∧ st.readErr.isNone → st.pending + 1 ≤ fuel ∧ st.pending + 1 ≤ F) →
      ∃ H' O' X' v4',
        loop (fun W env => eval W env drFor.forCond >>= asBool) (exec c drForBody) (exec c .skip) fuel ⟨H, O, X⟩
            [.ptr L.d, .slice sp, v2, v3, v4, v5, v6, v7] =
          .norm ⟨H', O', X'⟩ [.ptr L.d, .slice sp, v2, v3, v4', v5, v6, v7] ∧
        DecRep L e ow (st.refill sp.len F) ⟨H', O', X'⟩ ∧ (∀ b, b ≠ L.bb → H'[b]? = H[b]?) ∧
        Live (st.refill sp.len F) ∧ (st.refill sp.len F).out = [] ∧
        ¬ ((st.refill sp.len F).buf.length < 4 ∧ (st.refill sp.len F).readErr.isNone) := by
  intro fuel
  induction fuel with
  | zero =>
    intro F st H O X v4 hrep hlive hout hfu
    have hcnd : ¬ (st.buf.length < 4 ∧ st.readErr.isNone) := fun h => by have := hfu h; omega
    refine ⟨H, O, X, v4, ?_, ?_, fun _ _ => rfl, ?_, ?_, ?_⟩
    · apply loop_false
      rw [drCond H O X L.d _ _ _ _ _ _ _ _ _ _ _ _ _ _ _ hrep.obj]
      rw [cond_false _ _ hcnd]
    all_goals (rw [refill_done st sp.len F hcnd]; assumption)
  | succ fuel ih =>
    intro F st H O X v4 hrep hlive hout hfu
    by_cases hcnd : st.buf.length < 4 ∧ st.readErr.isNone
    · obtain ⟨hfuel, hF⟩ := hfu hcnd
      obtain ⟨F, rfl⟩ : ∃ F', F = F' + 1 := ⟨F - 1, by omega⟩
      obtain ⟨hnb, hre⟩ := hcnd
      have hre' : st.readErr = none := Option.isNone_iff_eq_none.mp hre
      have hobj := hrep.obj
      rw [hre'] at hobj
      obtain ⟨Bb, hb1, hb2, hb3⟩ := hrep.buf
      have hnn := refillNN_bounds sp.len
      rw [loop_step _ _ _ _ _ _ (by
        rw [drCond H O X L.d _ _ _ _ _ _ _ _ _ _ _ _ _ _ _ hrep.obj]; simp [hnb, hre]),
        drForBody_eq, drNN_run c _ sp _ _ _ _ _ _ _ hp, andThen_norm,
        drReadIn_run c c' hcall H O X L.d L.ae L.nf L.k L.bb L.bo st.buf.length (refillNN sp.len) ow st.err Bb st _ _ _ _ _ _
          hobj hrep.nfr hrep.rdr hb1 hb2 hnb hnn, afterBody_norm, exec_skip, afterPost_norm]
      have hrep2 := refillStep_rep L e ow st H O X sp.len Bb hrep hout hnb hb1
      have hf := refillStep_fields st sp.len
      have hprog := filteredRead_progress st (refillNN sp.len - st.buf.length) (st.pending + 2) hlive (by omega) (by omega)
      have hlive2 : Live (refillStep st sp.len) := filteredRead_live st _ _ hlive
      obtain ⟨H', O', X', v4', h1, h2, h3, h4, h5, h6⟩ := ih F (refillStep st sp.len) _ _ _ _ hrep2 hlive2 (hf.2.1.trans hout)
        (fun hc => by
          have hpe : (refillStep st sp.len).pending = (st.filteredRead (refillNN sp.len - st.buf.length) (st.pending + 2)).1.pending := rfl
          rcases hprog with hp1 | hp1
          · rw [hf.2.2.2.1] at hc
            have := hc.2
            rw [Option.isNone_iff_eq_none] at this
            rw [this] at hp1; cases hp1
          · omega)
      refine ⟨H', O', X', v4', h1, ?_, ?_, ?_, ?_, ?_⟩
      · rw [refill_succ, if_pos ⟨hnb, hre⟩]; exact h2
      · intro b hb; rw [h3 b hb]; exact List.getElem?_set_ne (Ne.symm hb)
      all_goals (rw [refill_succ, if_pos ⟨hnb, hre⟩]; assumption)
    · refine ⟨H, O, X, v4, ?_, ?_, fun _ _ => rfl, ?_, ?_, ?_⟩
      · apply loop_false
        rw [drCond H O X L.d _ _ _ _ _ _ _ _ _ _ _ _ _ _ _ hrep.obj]
        rw [cond_false _ _ hcnd]
      all_goals (rw [refill_done st sp.len F hcnd]; assumption)

end GoCrypt.SIR
