import GoCrypt.Proofs.TIIRTag
import GoCrypt.Proofs.TIIRField
import GoCrypt.Proofs.TIIRNorm
import GoCrypt.Proofs.TIIRRaw
import GoCrypt.Proofs.TIIRTop
import GoCrypt.Proofs.TIIRExamples

/-!
# Type-info IR: with a sorting `sort.Slice`, no run is stuck

`Field.GoodSort sort`: the behaviour proposed for `sort.Slice` returns a permutation sorted by
`len(Index)` (ANY such permutation).  Then `field`, `normalize` and the cold path of `getTypeInfo` are
never stuck, so their results are exactly the model's.  Helper lemmas only.
-/

namespace GoCrypt.TIIR.Exact
open GoCrypt.Codec GoCrypt.Gen.typeinfoIR GoCrypt.TIIR

theorem callsFieldG_false (w : World) (hgood : Field.GoodSort w.sort) (d : Nat) :
    Norm.CallsFieldG False { structs := w.structs, fuel := w.fuel, sort := w.sort, call := callIn program w (d + 1) } := by
  intro h t strct hp root n addrs fields param h1 h2 h3 h4 h5
  right
  show FieldPost h addrs fields param (callIn program w (d + 1) 0 h [.ptr t, .str param])
  rw [callIn_succ program w d 0 h _ fieldIR (by rfl)]
  have hs := Field.field_spec { structs := w.structs, fuel := w.fuel, sort := w.sort, call := callIn program w d }
    h t strct hp root n addrs fields param h1 h2 h3 h4 h5
  have hns := Field.field_not_stuck_of_good
    { structs := w.structs, fuel := w.fuel, sort := w.sort, call := callIn program w d }
    h t strct hp root n addrs fields param h1 h2 h3 h4 hgood
  exact hs.resolve_left hns

theorem normCalls_false (w : World) (hgood : Field.GoodSort w.sort) : Top.NormCalls False w := by
  intro d h t st root addrs raw h1 h2 h3 h4 h5
  right
  rw [callIn_succ program w (d + 1) 1 h _ normalizeIR (by rfl)]
  exact Norm.norm_spec_exact { structs := w.structs, fuel := w.fuel, sort := w.sort, call := callIn program w (d + 1) }
    h t st root addrs raw (callsFieldG_false w hgood d) h1 h2 h3 h4 h5

theorem getTypeInfo_cold_exact (w : World) (hgood : Field.GoodSort w.sort)
    (depth : Nat) (h : Heap) (t : RType) (n : String) (s : GoStruct)
    (hk : t.kind = .structRef n) (hl : Codec.lookupStruct w.structs n = some s)
    (hfit : fitsFuel w.structs 8 s = true) (hemb : Top.EmbedPtrOk w.structs)
    (hdepth : 18 < depth) (ht : t.depth < w.fuel) (h8 : 8 < w.fuel)
    (hsz : ∀ s' ∈ w.structs, s'.fields.length < w.fuel ∧ ∀ f ∈ s'.fields, f.ptrDepth < w.fuel ∧ f.tag.length < w.fuel)
    (hlen : (rawFields w.structs 8 s).length < w.fuel) :
    Top.ColdPost t (typeInfoOf w.structs n) (callIn program w depth 4 h [.rtype t]) :=
  (Top.getTypeInfo_cold_gen False (Raw.raw_spec Tag.fieldPart_spec) w (normCalls_false w hgood) depth h t n s hk hl hfit
    hemb hdepth ht h8 hsz hlen).elim (fun hs => hs.1.elim) id

/-! ## The domain hypotheses are satisfiable: the example description `Outer` -/

section example_
open Examples

theorem ex_lookup : Codec.lookupStruct structs "Outer" = some outer := by decide
theorem ex_fit : fitsFuel structs 8 outer = true := by decide
theorem ex_emb : Top.EmbedPtrOk structs := by
  have h : ∀ s ∈ structs, ∀ f ∈ s.fields, f.anonymous = true → f.ptrDepth ≤ 1 := by decide
  intro s hs f hf ha _
  exact h s hs f hf ha
theorem ex_sz : ∀ s' ∈ structs, s'.fields.length < 200 ∧ ∀ f ∈ s'.fields, f.ptrDepth < 200 ∧ f.tag.length < 200 := by decide
theorem ex_len : (rawFields structs 8 outer).length < 200 := by decide

/-- The domain hypotheses of the cold-path theorem hold for the example description `Outer`: so the run
of the regenerated `getTypeInfo` on `*Outer` with merge sort is exactly the model's `typeInfoOf`. -/
theorem example_outer_cold :
    Top.ColdPost ⟨1, .structRef "Outer", "", .none, .none⟩ (typeInfoOf structs "Outer") (run Field.sortByLen "Outer" 1) :=
  getTypeInfo_cold_exact (world Field.sortByLen) Field.goodSort_sortByLen 40 [] _ "Outer" outer rfl ex_lookup ex_fit ex_emb
    (by decide) (by decide) (by decide) ex_sz ex_len
end example_

end GoCrypt.TIIR.Exact
