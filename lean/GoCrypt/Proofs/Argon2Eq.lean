import GoCrypt.Proofs.Argon2Eq.Hash
import GoCrypt.Proofs.Argon2Eq.Block
import GoCrypt.Proofs.Argon2Eq.Index
import GoCrypt.Proofs.Argon2Eq.Struct
import GoCrypt.Proofs.Argon2Eq.Segment
import GoCrypt.Proofs.Argon2Eq.Fill
import GoCrypt.Proofs.Argon2Eq.Bytes
import GoCrypt.Proofs.Argon2Eq.Blake2bLen
import GoCrypt.Proofs.Argon2Eq.Key

/-!
# Argon2: model (`GoCrypt.Kdf.Argon2`, code-shaped) = reference (`GoCrypt.Spec.Argon2Rfc`, RFC 9106 §3)

Helper lemmas for property C04, split over several files:

* `Argon2Eq/Hash.lean`  — `blake2bHash = H'`, the `H_0` pre-image and its injectivity;
* `Argon2Eq/Block.lean` — `gb = GB`, `blamka` = `P`, `processBlock` = `G`;
* `Argon2Eq/Index.lean` — the memory-size rule, closed form of the reference set `W`,
  `indexAlpha` = the RFC's indexing rule;
* `Argon2Eq/Struct.lean`  — both fill loops re-stated as `List.foldl`s of pure step functions;
* `Argon2Eq/Segment.lean` — one segment: `processSegment` = the reference's segment loop;
* `Argon2Eq/Fill.lean`    — all passes/slices/lanes (invariant: 128-word blocks, zero columns in pass 0);
* `Argon2Eq/Bytes.lean`   — `blockOfBytes`, `bytesOfBlock`: shift/or loops = Horner / div-mod;
* `Argon2Eq/Blake2bLen.lean` — `|BLAKE2b-k| = k`;
* `Argon2Eq/Key.lean`     — first two columns, final block, and `key_eq_rfc` for the whole derivation.

The property theorems are collected in `GoCrypt/Props/C04.lean`.
-/
