import GoCrypt.Proofs.Argon2Eq.Hash
import GoCrypt.Proofs.Argon2Eq.Block
import GoCrypt.Proofs.Argon2Eq.Index

/-!
# Argon2: model (`GoCrypt.Kdf.Argon2`, code-shaped) = reference (`GoCrypt.Spec.Argon2Rfc`, RFC 9106 §3)

Helper lemmas for property C04, split over three files:

* `Argon2Eq/Hash.lean`  — `blake2bHash = H'`, the `H_0` pre-image and its injectivity;
* `Argon2Eq/Block.lean` — `gb = GB`, `blamka` = `P`, `processBlock` = `G`;
* `Argon2Eq/Index.lean` — the memory-size rule, closed form of the reference set `W`,
  `indexAlpha` = the RFC's indexing rule.

The property theorems are collected in `GoCrypt/Props/C04.lean`.
-/
