import GoCrypt.Proofs.ParseFlowBase
import GoCrypt.Proofs.Parse

/-!
# The regenerated lexer against `Parse.lexFrag` / `Parse.tokens` (`Model/Parse.lean`)

`lexFragment` and `lexPrefix` (one call each), then the loop of `(*lexer).run` by induction, then `lex`.
-/

namespace GoCrypt.SFlowVal2
open GoCrypt GoCrypt.Flow GoCrypt.SFlow GoCrypt.SFlow2 GoCrypt.SFlowVal GoCrypt.Parse

/-! ## One call of `lexFragment`, symbolically -/

/-- A delimiter is found `i` bytes ahead: the value before it and the delimiter are sent, the lexer
stands right after the delimiter, the next state is `lexFragment`. -/
theorem lexFragment_run_some (fuel : Nat) (hp cp s) (pos : Int) (buf) (rest v w : Bytes) (i c : Int)
    (h1 : binop (ν := PVal) "[_:]" (.str s) (.int pos) = .ok (.str rest))
    (h2 : indexAny rest [36, 44] = i) (h2' : 0 ≤ i)
    (h3 : sliceStr (ν := PVal) s pos (pos + i) = .ok (.str v))
    (h4 : indexStr (ν := PVal) s (pos + i) = .ok (.int c))
    (h5 : c = 36 ∨ c = 44)
    (h6 : sliceStr (ν := PVal) s (pos + i) (pos + i + 1) = .ok (.str w)) :
    runFunc2 (pp1 fuel) fuel Gen.hash_parse.lexFragmentFlow [.ext (.ptr hp.length)] (LS hp cp s pos pos buf) =
      .ret [.func "lexFragment"]
        (LS hp cp s (pos + i + 1) (pos + i + 1) (buf ++ [⟨4, pos, v⟩, ⟨if c = 36 then 2 else 3, pos + i, w⟩])) := by
  have e1 := emit_spec fuel hp cp s (pos + i) pos buf 4 v h3
  have e2 := next_spec fuel hp cp s (pos + i) (pos + i) (buf ++ [⟨4, pos, v⟩]) c h4
  have e3 := fun t => emit_spec fuel hp cp s (pos + i + 1) (pos + i) (buf ++ [⟨4, pos, v⟩]) t w h6
  have hge : i ≥ 0 := h2'
  rcases h5 with h5 | h5 <;> subst h5 <;>
    simp [sflowval, Gen.hash_parse.lexFragmentFlow, h1, h2, hge, e1, e2, e3]

/-- No delimiter ahead: the rest (when not empty) is sent as a value, then EOF; the lexer stands at the
end of the input, the next state is nil. -/
theorem lexFragment_run_none (fuel : Nat) (hp cp s) (pos : Int) (buf) (rest v : Bytes)
    (h1 : binop (ν := PVal) "[_:]" (.str s) (.int pos) = .ok (.str rest))
    (h2 : indexAny rest [36, 44] = -1)
    (h3 : sliceStr (ν := PVal) s pos s.length = .ok (.str v))
    (h4 : sliceStr (ν := PVal) s s.length s.length = .ok (.str []))
    (hle : pos ≤ s.length) :
    runFunc2 (pp1 fuel) fuel Gen.hash_parse.lexFragmentFlow [.ext (.ptr hp.length)] (LS hp cp s pos pos buf) =
      .ret [.nil]
        (LS hp cp s s.length s.length
          (buf ++ (if (s.length : Int) > pos then [⟨4, pos, v⟩] else []) ++ [⟨5, s.length, []⟩])) := by
  by_cases hgt : (s.length : Int) > pos
  · have e1 := emit_spec fuel hp cp s s.length pos buf 4 v h3
    have e2 := emit_spec fuel hp cp s s.length s.length (buf ++ [⟨4, pos, v⟩]) 5 [] h4
    simp [sflowval, Gen.hash_parse.lexFragmentFlow, h1, h2, hgt, e1, e2]
  · have hp' : pos = s.length := by omega
    subst hp'
    have e2 := emit_spec fuel hp cp s s.length s.length buf 5 [] h4
    simp [sflowval, Gen.hash_parse.lexFragmentFlow, h1, h2, e2]

/-! ## One call of `lexPrefix` on a lexer standing at the start of its input -/

/-- What `lexPrefix` does, following the case analysis of `Parse.tokens`. -/
def lexPrefixOut (hp : List Obj) (cp : List Chan) (s : Bytes) (buf : List GoToken) : Outcome PSt PVal :=
  match s with
  | [] => .ret [.func "lexFragment"] (LS hp cp s 0 0 buf)
  | c :: rest =>
    if c = 36 then
      match indexDelim rest with
      | none => .ret [.nil] (LS hp cp s s.length 0 (buf ++ [⟨0, s.length, ascii "missing prefix end"⟩]))
      | some 0 => .ret [.nil] (LS hp cp s 1 0 (buf ++ [⟨0, 1, ascii "missing prefix identifier"⟩]))
      | some (i + 1) =>
        .ret [.func "lexFragment"] (LS hp cp s ((i + 3 : Nat) : Int) ((i + 3 : Nat) : Int) (buf ++ [⟨1, 0, s.take (i + 3)⟩]))
    else if c = 95 then .ret [.func "lexFragment"] (LS hp cp s 1 1 (buf ++ [⟨1, 0, [95]⟩]))
    else .ret [.func "lexFragment"] (LS hp cp s 0 0 buf)

theorem lexPrefix_run (fuel : Nat) (hp cp) (s : Bytes) (buf) :
    runFunc2 (pp1 fuel) fuel Gen.hash_parse.lexPrefixFlow2 [.ext (.ptr hp.length)] (LS hp cp s 0 0 buf) =
      lexPrefixOut hp cp s buf := by
  cases s with
  | nil => simp [sflowval, lexPrefixOut, Gen.hash_parse.lexPrefixFlow2]
  | cons c rest =>
    by_cases hc : c = 36
    · subst hc
      generalize hk : indexAny rest [36, 44] = k
      rcases indexAny_cases rest with ⟨hi, e⟩ | ⟨hi, e⟩ | ⟨i, hi, e⟩
      · have : k = -1 := by rw [← hk, e]
        subst this
        have er := errorf_spec fuel hp cp (36 :: rest) ((rest.length : Int) + 1) 0 buf _ msg2_no_verb
        simp [sflowval, lexPrefixOut, Gen.hash_parse.lexPrefixFlow2, hi, hk, er]
      · have : k = 0 := by rw [← hk, e]
        subst this
        have er := errorf_spec fuel hp cp (36 :: rest) 1 0 buf _ msg1_no_verb
        simp [sflowval, lexPrefixOut, Gen.hash_parse.lexPrefixFlow2, hi, hk, er]
      · have hlt := indexDelim_lt' rest (i + 1) hi
        have hk' : k = ((i + 1 : Nat) : Int) := by rw [← hk, e]
        have hk0 : 0 ≤ k := by omega
        have hk1 : ¬ k = 0 := by omega
        have hem := emit_spec fuel hp cp (36 :: rest) (1 + (k + 1)) 0 buf 1 ((36 :: rest).take (i + 3)) (by
          have e2 : 1 + (k + 1) = ((i + 3 : Nat) : Int) := by omega
          rw [e2]
          exact sliceStr_to _ _ (by simp; omega))
        simp [sflowval, lexPrefixOut, Gen.hash_parse.lexPrefixFlow2, hi, hk, hk0, hk1, hem]
        have e3 : 1 + (k + 1) = (i : Int) + 3 := by omega
        rw [e3]
    · have hc' : ((36 : UInt8) == c) = false := by
        simp only [beq_eq_false_iff_ne, ne_eq]; exact fun e => hc e.symm
      by_cases hu : c = 95
      · subst hu
        have hem := emit_spec fuel hp cp (95 :: rest) 1 0 buf 1 [95] (by
          show sliceStr (95 :: rest) 0 ((1 : Nat) : Int) = _
          exact sliceStr_to _ _ (by simp))
        simp [sflowval, lexPrefixOut, Gen.hash_parse.lexPrefixFlow2, hem]
      · have hu' : ((95 : UInt8) == c) = false := by
          simp only [beq_eq_false_iff_ne, ne_eq]; exact fun e => hu e.symm
        simp [sflowval, lexPrefixOut, Gen.hash_parse.lexPrefixFlow2, hc, hu, hc', hu']

/-! ## The model's `lexFrag`, unrolled delimiter by delimiter -/

/-- The delimiter token for byte `c` at offset `p`. -/
def delimTok (c : UInt8) (p : Nat) : Tok := if c = Bytes.dollar then .dollar p else .comma p

theorem lexFrag_of_none (r : Bytes) (st : Nat) (acc : Bytes) (h : indexDelim r = none) :
    lexFrag r st acc =
      (if acc.reverse ++ r = [] then [] else [Tok.value st (acc.reverse ++ r)]) ++ [Tok.eof (st + acc.length + r.length)] := by
  induction r generalizing acc with
  | nil => simp [lexFrag]
  | cons c cs ih =>
    unfold indexDelim at h
    by_cases hc : c = Bytes.dollar ∨ c = Bytes.comma
    · simp [hc] at h
    · simp only [hc, if_false, Option.map_eq_none_iff] at h
      have hd : ¬ c = Bytes.dollar := fun e => hc (Or.inl e)
      have hm : ¬ c = Bytes.comma := fun e => hc (Or.inr e)
      rw [lexFrag, if_neg hd, if_neg hm, ih (c :: acc) h]
      have e1 : (c :: acc).reverse ++ cs = acc.reverse ++ c :: cs := by simp
      have e2 : st + (c :: acc).length + cs.length = st + acc.length + (c :: cs).length := by
        simp only [List.length_cons]; omega
      rw [e1, e2]

theorem lexFrag_of_some (r : Bytes) (st : Nat) (acc : Bytes) (i : Nat) (h : indexDelim r = some i) :
    lexFrag r st acc =
      Tok.value st (acc.reverse ++ r.take i) :: delimTok (r.getD i 0) (st + acc.length + i) ::
        lexFrag (r.drop (i + 1)) (st + acc.length + i + 1) [] := by
  induction r generalizing acc i with
  | nil => simp [indexDelim] at h
  | cons c cs ih =>
    unfold indexDelim at h
    by_cases hd : c = Bytes.dollar
    · simp [hd] at h
      subst h
      simp [lexFrag, hd, delimTok]
    · by_cases hm : c = Bytes.comma
      · simp [hm] at h
        subst h
        have : ¬ Bytes.comma = Bytes.dollar := by decide
        simp [lexFrag, hm, delimTok, this]
      · have hc : ¬ (c = Bytes.dollar ∨ c = Bytes.comma) := fun e => e.elim hd hm
        simp only [hc, if_false, Option.map_eq_some_iff] at h
        obtain ⟨j, hj, e⟩ := h
        subst e
        rw [lexFrag, if_neg hd, if_neg hm, ih (c :: acc) j hj]
        have e1 : (c :: acc).reverse ++ cs.take j = acc.reverse ++ (c :: cs).take (j + 1) := by simp
        have e2 : st + (c :: acc).length + j = st + acc.length + (j + 1) := by
          simp only [List.length_cons]; omega
        have e3 : (c :: cs).getD (j + 1) 0 = cs.getD j 0 := by simp
        have e4 : (c :: cs).drop (j + 1 + 1) = cs.drop (j + 1) := by simp
        rw [e1, e2, e3, e4]

theorem indexDelim_getD (r : Bytes) (i : Nat) (h : indexDelim r = some i) :
    r.getD i 0 = Bytes.dollar ∨ r.getD i 0 = Bytes.comma := by
  induction r generalizing i with
  | nil => simp [indexDelim] at h
  | cons c cs ih =>
    unfold indexDelim at h
    by_cases hc : c = Bytes.dollar ∨ c = Bytes.comma
    · simp [hc] at h; subst h; simpa using hc
    · simp only [hc, if_false, Option.map_eq_some_iff] at h
      obtain ⟨j, hj, e⟩ := h
      subst e
      simpa using ih j hj

/-! ## Tokens of the model as Go tokens -/

/-- The Go token a model token stands for. -/
def goTok : Tok → GoToken
  | .error p m => ⟨0, p, if m = 1 then ascii "missing prefix identifier" else ascii "missing prefix end"⟩
  | .pfx p v => ⟨1, p, v⟩
  | .dollar p => ⟨2, p, [36]⟩
  | .comma p => ⟨3, p, [44]⟩
  | .value p v => ⟨4, p, v⟩
  | .eof p => ⟨5, p, []⟩

/-- `tokOf` reads it back (error tokens: the two messages the lexer has). -/
theorem tokOf_goTok (t : Tok) (h : ∀ p m, t = .error p m → m = 1 ∨ m = 2) : tokOf (goTok t) = some t := by
  cases t with
  | error p m =>
    rcases h p m rfl with e | e <;> subst e
    · exact tokOf_err1 p (by omega)
    · exact tokOf_err2 p (by omega)
  | pfx p v => simp [goTok, tokOf, Gen.hash_parse.tokenError, Gen.hash_parse.tokenPrefix]
  | dollar p => simp [goTok, tokOf, Gen.hash_parse.tokenError, Gen.hash_parse.tokenPrefix, Gen.hash_parse.tokenDollar]
  | comma p =>
    simp [goTok, tokOf, Gen.hash_parse.tokenError, Gen.hash_parse.tokenPrefix, Gen.hash_parse.tokenDollar,
      Gen.hash_parse.tokenComma]
  | value p v =>
    simp [goTok, tokOf, Gen.hash_parse.tokenError, Gen.hash_parse.tokenPrefix, Gen.hash_parse.tokenDollar,
      Gen.hash_parse.tokenComma, Gen.hash_parse.tokenValue]
  | eof p =>
    simp [goTok, tokOf, Gen.hash_parse.tokenError, Gen.hash_parse.tokenPrefix, Gen.hash_parse.tokenDollar,
      Gen.hash_parse.tokenComma, Gen.hash_parse.tokenValue, Gen.hash_parse.tokenEOF]

theorem mapM_tokOf_goTok (ts : List Tok) (h : ∀ t ∈ ts, ∀ p m, t = .error p m → m = 1 ∨ m = 2) :
    (ts.map goTok).mapM tokOf = some ts := by
  induction ts with
  | nil => rfl
  | cons t ts ih =>
    have h1 := tokOf_goTok t (h t (by simp))
    have h2 := ih (fun t' ht' => h t' (by simp [ht']))
    simp [h1, h2]

/-! ## `lexFragment` called as a state function, in the model's terms -/

/-- `s[a:b]` with `a ≤ b ≤ len(s)`. -/
theorem sliceStr_nat {ν} (s : Bytes) (a b : Nat) (hab : a ≤ b) (hb : b ≤ s.length) :
    sliceStr (ν := ν) s a b = .ok (.str ((s.drop a).take (b - a))) := by
  have h1 : (a : Int) ≤ (b : Int) := by omega
  have h2 : (b : Int) ≤ (s.length : Int) := by omega
  simp [sliceStr, h1, h2]

theorem indexStr_nat {ν} (s : Bytes) (a : Nat) (ha : a < s.length) :
    indexStr (ν := ν) s a = .ok (.int (s.getD a 0).toNat) := by
  have h1 : (a : Int) < (s.length : Int) := by omega
  simp [indexStr, h1]

theorem take_one_drop (s : Bytes) (a : Nat) (ha : a < s.length) : (s.drop a).take 1 = [s.getD a 0] := by
  induction s generalizing a with
  | nil => simp at ha
  | cons c cs ih =>
    cases a with
    | zero => simp
    | succ a => simpa using ih a (by simpa using ha)

theorem getD_drop (s : Bytes) (p i : Nat) : (s.drop p).getD i 0 = s.getD (p + i) 0 := by
  simp [List.getD, List.getElem?_drop]

/-- The pointer to the lexer, for a lexer that is the newest heap object. -/
abbrev lptr (hp : List Obj) : Val PVal := .ext (.ptr hp.length)

theorem lexFragment_ret_some (fuel : Nat) (hp cp) (s : Bytes) (p : Nat) (buf) (i : Nat)
    (hpl : p ≤ s.length) (hi : indexDelim (s.drop p) = some i) :
    runFunc2 (pp1 fuel) fuel Gen.hash_parse.lexFragmentFlow [lptr hp] (LS hp cp s p p buf) =
      .ret [.func "lexFragment"]
        (LS hp cp s ((p + i + 1 : Nat) : Int) ((p + i + 1 : Nat) : Int)
          (buf ++ [goTok (.value p ((s.drop p).take i)), goTok (delimTok ((s.drop p).getD i 0) (p + i))])) := by
  have hlt := indexDelim_lt' _ _ hi
  simp only [List.length_drop] at hlt
  have hpi : p + i < s.length := by omega
  have h1 : binop (ν := PVal) "[_:]" (.str s) (.int p) = .ok (.str (s.drop p)) := by
    rw [binop_sliceFrom]; exact sliceStr_from s p hpl
  have h2 : indexAny (s.drop p) [36, 44] = (i : Int) := by rw [indexAny_delims, hi]
  have h3 : sliceStr (ν := PVal) s p ((p : Int) + (i : Int)) = .ok (.str ((s.drop p).take i)) := by
    have := sliceStr_nat (ν := PVal) s p (p + i) (by omega) (by omega)
    simpa using this
  have h4 : indexStr (ν := PVal) s ((p : Int) + (i : Int)) = .ok (.int ((s.drop p).getD i 0).toNat) := by
    have := indexStr_nat (ν := PVal) s (p + i) hpi
    rw [getD_drop]
    simpa using this
  have h6 : sliceStr (ν := PVal) s ((p : Int) + (i : Int)) ((p : Int) + (i : Int) + 1) = .ok (.str [(s.drop p).getD i 0]) := by
    have := sliceStr_nat (ν := PVal) s (p + i) (p + i + 1) (by omega) (by omega)
    rw [getD_drop, ← take_one_drop s (p + i) hpi]
    simpa using this
  have hd := indexDelim_getD _ _ hi
  have h5 : (((s.drop p).getD i 0).toNat : Int) = 36 ∨ (((s.drop p).getD i 0).toNat : Int) = 44 := by
    rcases hd with e | e <;> rw [e]
    · left; rfl
    · right; rfl
  have run := lexFragment_run_some fuel hp cp s p buf (s.drop p) ((s.drop p).take i) [(s.drop p).getD i 0] i
    (((s.drop p).getD i 0).toNat) h1 h2 (by omega) h3 h4 h5 h6
  simp only [lptr, run]
  have ecast : ((p + i + 1 : Nat) : Int) = (p : Int) + (i : Int) + 1 := by push_cast; rfl
  rw [ecast]
  rcases hd with e | e <;> rw [e] <;> simp [goTok, delimTok, Bytes.dollar, Bytes.comma]

theorem lexFragment_step_some (fuel : Nat) (hp cp) (s : Bytes) (p : Nat) (buf) (i : Nat)
    (hpl : p ≤ s.length) (hi : indexDelim (s.drop p) = some i) :
    (pp2 fuel).apply (.func "lexFragment") [lptr hp] (LS hp cp s p p buf) =
      .ok (.func "lexFragment",
        LS hp cp s ((p + i + 1 : Nat) : Int) ((p + i + 1 : Nat) : Int)
          (buf ++ [goTok (.value p ((s.drop p).take i)), goTok (delimTok ((s.drop p).getD i 0) (p + i))])) := by
  rw [pp2_apply]
  simp only [String.reduceEq, if_false, if_true, lexFragment_ret_some fuel hp cp s p buf i hpl hi, callRes]

theorem lexFragment_ret_none (fuel : Nat) (hp cp) (s : Bytes) (p : Nat) (buf)
    (hpl : p ≤ s.length) (hi : indexDelim (s.drop p) = none) :
    runFunc2 (pp1 fuel) fuel Gen.hash_parse.lexFragmentFlow [lptr hp] (LS hp cp s p p buf) =
      .ret [.nil] (LS hp cp s s.length s.length (buf ++ (lexFrag (s.drop p) p []).map goTok)) := by
  have h1 : binop (ν := PVal) "[_:]" (.str s) (.int p) = .ok (.str (s.drop p)) := by
    rw [binop_sliceFrom]; exact sliceStr_from s p hpl
  have h2 : indexAny (s.drop p) [36, 44] = -1 := by rw [indexAny_delims, hi]
  have h3 : sliceStr (ν := PVal) s p s.length = .ok (.str (s.drop p)) := sliceStr_from s p hpl
  have h4 : sliceStr (ν := PVal) s s.length s.length = .ok (.str []) := by
    have := sliceStr_from (ν := PVal) s s.length (Nat.le_refl _)
    simpa using this
  have run := lexFragment_run_none fuel hp cp s p buf (s.drop p) (s.drop p) h1 h2 h3 h4 (by omega)
  simp only [lptr, run]
  rw [lexFrag_of_none _ _ _ hi]
  by_cases hlt : p < s.length
  · have hgt : (s.length : Int) > (p : Int) := by omega
    have hne : ¬ s.drop p = [] := by
      intro e
      have := congrArg List.length e
      simp at this; omega
    have e5 : p + (s.length - p) = s.length := by omega
    simp [hgt, hne, goTok, e5]
  · have hgt : ¬ (s.length : Int) > (p : Int) := by omega
    have he : s.drop p = [] := List.drop_eq_nil_of_le (by omega)
    have e5 : p = s.length := by omega
    simp [he, goTok, ← e5]

theorem lexFragment_step_none (fuel : Nat) (hp cp) (s : Bytes) (p : Nat) (buf)
    (hpl : p ≤ s.length) (hi : indexDelim (s.drop p) = none) :
    (pp2 fuel).apply (.func "lexFragment") [lptr hp] (LS hp cp s p p buf) =
      .ok (.nil, LS hp cp s s.length s.length (buf ++ (lexFrag (s.drop p) p []).map goTok)) := by
  rw [pp2_apply]
  simp only [String.reduceEq, if_false, if_true, lexFragment_ret_none fuel hp cp s p buf hpl hi, callRes]

/-! ## The loop of `(*lexer).run` -/

def runCond : FExpr := .op "!=" (.var "v1") (.const "nil")
def runBody : List PStmt := [.assign ["v1"] (.app (.var "v1") (.var "p1"))]

/-- The regenerated body of `run`: the state-function loop, then `close(l.tokens)`. -/
theorem lexerRunFlow_body : Gen.hash_parse.lexerRunFlow.body =
    [.loop "" [.define ["v1"] (.fn "lexPrefix")] (some runCond) [] runBody,
     .eval (.app (.fn "close") (.field "p1" "tokens"))] := rfl

/-- The environment of the loop: `state` in the scope of the `for` statement, `l` in the function's. -/
def runEnv (hp : List Obj) (state : Val PVal) : Env PVal := [[("v1", state)], [("p1", lptr hp)]]

/-- One iteration with `state` a function: `state = state(l)`. -/
theorem run_iter (fuel : Nat) (hp : List Obj) (g : String) (n : Nat) (st st' : PSt) (v : Val PVal)
    (h : (pp2 fuel).apply (.func g) [lptr hp] st = .ok (v, st')) :
    loopOf (pp2 fuel) fuel "" (some runCond) [] runBody (n + 1) (runEnv hp (.func g)) st =
      loopOf (pp2 fuel) fuel "" (some runCond) [] runBody n (runEnv hp v) st' := by
  rw [loopOf_succ]
  simp [sflowval, runCond, runBody, runEnv, lptr] at h ⊢
  simp [h]

/-- `state == nil`: the loop ends. -/
theorem run_exit (fuel : Nat) (hp : List Obj) (n : Nat) (st : PSt) :
    loopOf (pp2 fuel) fuel "" (some runCond) [] runBody (n + 1) (runEnv hp .nil) st = .next (runEnv hp .nil) st := by
  rw [loopOf_succ]
  simp [sflowval, runCond, runEnv]

/-- From state `lexFragment` at offset `p`: the loop sends `lexFrag (s.drop p) p []` and ends with the
lexer at the end of its input. -/
theorem run_loop_frag (fuel : Nat) (hp cp) (s : Bytes) :
    ∀ (k p : Nat) (buf : List GoToken) (N : Nat), p ≤ s.length → s.length - p ≤ k → k + 2 ≤ N →
      loopOf (pp2 fuel) fuel "" (some runCond) [] runBody N (runEnv hp (.func "lexFragment")) (LS hp cp s p p buf) =
        .next (runEnv hp .nil) (LS hp cp s s.length s.length (buf ++ (lexFrag (s.drop p) p []).map goTok)) := by
  intro k
  induction k with
  | zero =>
    intro p buf N hpl hk hN
    obtain ⟨n, rfl⟩ : ∃ n, N = n + 1 + 1 := ⟨N - 2, by omega⟩
    have hi : indexDelim (s.drop p) = none := by
      have : s.drop p = [] := List.drop_eq_nil_of_le (by omega)
      rw [this]; rfl
    rw [run_iter fuel hp _ _ _ _ _ (lexFragment_step_none fuel hp cp s p buf hpl hi), run_exit]
  | succ k ih =>
    intro p buf N hpl hk hN
    obtain ⟨n, rfl⟩ : ∃ n, N = n + 1 + 1 := ⟨N - 2, by omega⟩
    cases hi : indexDelim (s.drop p) with
    | none =>
      rw [run_iter fuel hp _ _ _ _ _ (lexFragment_step_none fuel hp cp s p buf hpl hi), run_exit]
    | some i =>
      have hlt := indexDelim_lt' _ _ hi
      simp only [List.length_drop] at hlt
      rw [run_iter fuel hp _ _ _ _ _ (lexFragment_step_some fuel hp cp s p buf i hpl hi)]
      rw [ih (p + i + 1) _ (n + 1) (by omega) (by omega) (by omega)]
      rw [lexFrag_of_some _ _ _ _ hi]
      have e1 : (s.drop p).drop (i + 1) = s.drop (p + i + 1) := by
        rw [List.drop_drop]; rfl
      simp [e1]

/-- The whole loop, from state `lexPrefix` on a fresh lexer: it sends `Parse.tokens s` and ends. -/
theorem run_loop (fuel : Nat) (hp cp) (s : Bytes) (buf : List GoToken) (N : Nat) (hN : s.length + 3 ≤ N) :
    ∃ pos start : Int,
      loopOf (pp2 fuel) fuel "" (some runCond) [] runBody N (runEnv hp (.func "lexPrefix")) (LS hp cp s 0 0 buf) =
        .next (runEnv hp .nil) (LS hp cp s pos start (buf ++ (tokens s).map goTok)) := by
  obtain ⟨n, rfl⟩ : ∃ n, N = n + 1 := ⟨N - 1, by omega⟩
  have hpre : (pp2 fuel).apply (.func "lexPrefix") [lptr hp] (LS hp cp s 0 0 buf) =
      callRes (lexPrefixOut hp cp s buf) := by
    rw [pp2_apply]
    simp only [if_true, lptr, lexPrefix_run]
  cases s with
  | nil =>
    refine ⟨((([] : Bytes).length : Nat) : Int), ((([] : Bytes).length : Nat) : Int), ?_⟩
    have h0 : (pp2 fuel).apply (.func "lexPrefix") [lptr hp] (LS hp cp [] 0 0 buf) =
        .ok (.func "lexFragment", LS hp cp [] ((0 : Nat) : Int) ((0 : Nat) : Int) buf) := by
      rw [hpre]; rfl
    rw [run_iter fuel hp _ _ _ _ _ h0, run_loop_frag fuel hp cp [] 0 0 buf n (by simp) (by simp) (by omega)]
    rfl
  | cons c rest =>
    by_cases hc : c = 36
    · subst hc
      have hd : Bytes.dollar = 36 := rfl
      cases hi : indexDelim rest with
      | none =>
        refine ⟨(((36 :: rest : Bytes).length : Nat) : Int), 0, ?_⟩
        have h0 : (pp2 fuel).apply (.func "lexPrefix") [lptr hp] (LS hp cp (36 :: rest) 0 0 buf) =
            .ok (.nil, LS hp cp (36 :: rest) (((36 :: rest : Bytes).length : Nat) : Int) 0
              (buf ++ [⟨0, (((36 :: rest : Bytes).length : Nat) : Int), ascii "missing prefix end"⟩])) := by
          rw [hpre]; simp only [lexPrefixOut, if_true, hi, callRes]
        obtain ⟨m, rfl⟩ : ∃ m, n = m + 1 := ⟨n - 1, by simp at hN; omega⟩
        rw [run_iter fuel hp _ _ _ _ _ h0, run_exit]
        simp [tokens, hi, hd, goTok]
      | some i =>
        cases i with
        | zero =>
          refine ⟨1, 0, ?_⟩
          have h0 : (pp2 fuel).apply (.func "lexPrefix") [lptr hp] (LS hp cp (36 :: rest) 0 0 buf) =
              .ok (.nil, LS hp cp (36 :: rest) 1 0 (buf ++ [⟨0, 1, ascii "missing prefix identifier"⟩])) := by
            rw [hpre]; simp only [lexPrefixOut, if_true, hi, callRes]
          obtain ⟨m, rfl⟩ : ∃ m, n = m + 1 := ⟨n - 1, by simp at hN; omega⟩
          rw [run_iter fuel hp _ _ _ _ _ h0, run_exit]
          simp [tokens, hi, hd, goTok]
        | succ i =>
          refine ⟨(((36 :: rest : Bytes).length : Nat) : Int), (((36 :: rest : Bytes).length : Nat) : Int), ?_⟩
          have hlt := indexDelim_lt' rest (i + 1) hi
          have h0 : (pp2 fuel).apply (.func "lexPrefix") [lptr hp] (LS hp cp (36 :: rest) 0 0 buf) =
              .ok (.func "lexFragment", LS hp cp (36 :: rest) ((i + 3 : Nat) : Int) ((i + 3 : Nat) : Int)
                (buf ++ [⟨1, 0, (36 :: rest).take (i + 3)⟩])) := by
            rw [hpre]; simp only [lexPrefixOut, if_true, hi, callRes]
          rw [run_iter fuel hp _ _ _ _ _ h0,
            run_loop_frag fuel hp cp (36 :: rest) ((36 :: rest : Bytes).length) (i + 3) _ n
              (by simp; omega) (by simp; omega) (by simp at hN ⊢; omega)]
          simp [tokens, hi, hd, goTok]
    · by_cases hu : c = 95
      · subst hu
        refine ⟨(((95 :: rest : Bytes).length : Nat) : Int), (((95 :: rest : Bytes).length : Nat) : Int), ?_⟩
        have h0 : (pp2 fuel).apply (.func "lexPrefix") [lptr hp] (LS hp cp (95 :: rest) 0 0 buf) =
            .ok (.func "lexFragment", LS hp cp (95 :: rest) ((1 : Nat) : Int) ((1 : Nat) : Int) (buf ++ [⟨1, 0, [95]⟩])) := by
          rw [hpre]; simp [lexPrefixOut, callRes]
        rw [run_iter fuel hp _ _ _ _ _ h0,
          run_loop_frag fuel hp cp (95 :: rest) ((95 :: rest : Bytes).length) 1 _ n
            (by simp) (by simp) (by simp at hN ⊢; omega)]
        simp [tokens, Bytes.dollar, Bytes.underscore, goTok]
      · refine ⟨(((c :: rest : Bytes).length : Nat) : Int), (((c :: rest : Bytes).length : Nat) : Int), ?_⟩
        have hcd : ¬ c = Bytes.dollar := hc
        have hcu : ¬ c = Bytes.underscore := hu
        have h0 : (pp2 fuel).apply (.func "lexPrefix") [lptr hp] (LS hp cp (c :: rest) 0 0 buf) =
            .ok (.func "lexFragment", LS hp cp (c :: rest) ((0 : Nat) : Int) ((0 : Nat) : Int) buf) := by
          rw [hpre]; simp [lexPrefixOut, callRes, hc, hu]
        rw [run_iter fuel hp _ _ _ _ _ h0,
          run_loop_frag fuel hp cp (c :: rest) ((c :: rest : Bytes).length) 0 _ n
            (by simp) (by simp) (by simp at hN ⊢; omega)]
        simp [tokens, hcd, hcu]

/-! ## `(*lexer).run` and `lex` -/

/-- The state when the lexer goroutine has finished: its channel closed, holding `toks`. -/
def LDone (hp : List Obj) (cp : List Chan) (s : Bytes) (pos start : Int) (toks : List GoToken) : PSt :=
  ⟨hp ++ [lexObj s pos start cp.length], cp ++ [⟨toks, true⟩]⟩

theorem LS_close (hp cp s) (pos start : Int) (buf) :
    pp0.call "close" [.ext (.chan cp.length)] (LS hp cp s pos start buf) = .ok (.unit, LDone hp cp s pos start buf) := by
  simp [LS, LDone, pp0_call_close]

/-- `l.run()` on a fresh lexer: sends `Parse.tokens s`, closes the channel, returns. -/
theorem run_spec (fuel : Nat) (hp cp) (s : Bytes) (buf : List GoToken) (hf : s.length + 3 ≤ fuel) :
    ∃ pos start : Int,
      runFunc2 (pp2 fuel) fuel Gen.hash_parse.lexerRunFlow [lptr hp] (LS hp cp s 0 0 buf) =
        .ret [] (LDone hp cp s pos start (buf ++ (tokens s).map goTok)) := by
  obtain ⟨pos, start, h⟩ := run_loop fuel hp cp s buf fuel hf
  refine ⟨pos, start, ?_⟩
  simp only [runEnv, lptr, runCond, runBody] at h
  have hc := LS_close hp cp s pos start (buf ++ (tokens s).map goTok)
  simp [sflowval, Gen.hash_parse.lexerRunFlow, lptr, h, hc, pp1_call]

/-- `lex(s)`: allocates the channel and the lexer, runs the lexer goroutine (to completion: the
modelling decision of `Spec/SFlowVal2Parse.lean`), returns the lexer. -/
theorem lex_spec (fuel : Nat) (h : List Obj) (cs : List Chan) (s : Bytes) (hf : s.length + 3 ≤ fuel) :
    ∃ pos start : Int,
      runFunc2 (pp3 fuel) fuel Gen.hash_parse.lexFlow [.str s] ⟨h, cs⟩ =
        .ret [.ext (.ptr h.length)] (LDone h cs s pos start ((tokens s).map goTok)) := by
  obtain ⟨pos, start, hr⟩ := run_spec fuel h cs s [] hf
  refine ⟨pos, start, ?_⟩
  have hn : newObj "lexer" [.kv "input" (.str s), .kv "tokens" (.ext (.chan cs.length))] = some (lexObj s 0 0 cs.length) := rfl
  have hnew : ∀ args st, pp0.call "new:lexer" args st =
      match newObj "lexer" args with
      | some o => .ok (.ext (.ptr st.heap.length), { st with heap := st.heap ++ [o] })
      | none => .stuck ("composite literal " ++ "new:lexer") := fun _ _ => rfl
  simp only [lptr, List.nil_append] at hr
  have hgo : (pp3 fuel).call "go:(*lexer).run" [Val.ext (PVal.ptr h.length)]
      { heap := h ++ [lexObj s 0 0 cs.length], chans := cs ++ [{}] } =
        .ok (.unit, LDone h cs s pos start ((tokens s).map goTok)) := by
    rw [pp3_call]
    simp only [if_true]
    have hr' : runFunc2 (pp2 fuel) fuel Gen.hash_parse.lexerRunFlow [Val.ext (PVal.ptr h.length)]
      { heap := h ++ [lexObj s 0 0 cs.length], chans := cs ++ [{}] } = _ := hr
    rw [hr']
  have hmk : ∀ st, (pp3 fuel).call "make:chan token" [] st = pp0.call "make:chan token" [] st := fun _ => rfl
  have hnw : ∀ args st, (pp3 fuel).call "new:lexer" args st = pp0.call "new:lexer" args st := fun _ _ => rfl
  simp [sflowval, Gen.hash_parse.lexFlow, hmk, hnw, hnew, hn, hgo]

/-- The only error tokens of `Parse.tokens` carry the messages 1 and 2. -/
theorem tokens_err_codes (s : Bytes) : ∀ t ∈ tokens s, ∀ p m, t = .error p m → m = 1 ∨ m = 2 := by
  intro t ht p m e
  subst e
  unfold tokens at ht
  cases s with
  | nil => exact absurd rfl (lexFrag_no_error _ _ _ _ ht p m)
  | cons c rest =>
    by_cases hc : c = Bytes.dollar
    · subst hc
      simp only [if_true] at ht
      cases hi : indexDelim rest with
      | none => simp [hi] at ht; exact Or.inr ht.2
      | some i =>
        cases i with
        | zero => simp [hi] at ht; exact Or.inl ht.2
        | succ i =>
          simp [hi] at ht
          exact absurd rfl (lexFrag_no_error _ _ _ _ ht p m)
    · by_cases hu : c = Bytes.underscore
      · subst hu
        have hne : Bytes.underscore ≠ Bytes.dollar := by decide
        simp [hne] at ht
        exact absurd rfl (lexFrag_no_error _ _ _ _ ht p m)
      · simp only [hc, hu, if_false] at ht
        exact absurd rfl (lexFrag_no_error _ _ _ _ ht p m)

/-- `evalLex` on the regenerated `lex`: the model's token stream. -/
theorem evalLex_eq (s : Bytes) : evalLex Gen.hash_parse.lexFlow s = some (tokens s) := by
  obtain ⟨pos, start, h⟩ := lex_spec (fuelFor s) [] [] s (by unfold fuelFor; omega)
  have hm : ((tokens s).map goTok).mapM tokOf = some (tokens s) := mapM_tokOf_goTok _ (tokens_err_codes s)
  unfold evalLex runLex
  rw [h]
  simp [LDone, lexObj, lget, Frame.get, hm]

/-! ## The iterated `lexFragment` on its own (`evalLexFragment`) -/

theorem iterState_frag (fuel : Nat) (s : Bytes) :
    ∀ (k p : Nat) (buf : List GoToken) (N : Nat), p ≤ s.length → s.length - p ≤ k → k + 1 ≤ N →
      iterState fuel Gen.hash_parse.lexFragmentFlow (lptr []) N (LS [] [] s p p buf) =
        some (LS [] [] s s.length s.length (buf ++ (lexFrag (s.drop p) p []).map goTok)) := by
  intro k
  induction k with
  | zero =>
    intro p buf N hpl hk hN
    obtain ⟨n, rfl⟩ : ∃ n, N = n + 1 := ⟨N - 1, by omega⟩
    have hi : indexDelim (s.drop p) = none := by
      have : s.drop p = [] := List.drop_eq_nil_of_le (by omega)
      rw [this]; rfl
    rw [iterState, lexFragment_ret_none fuel [] [] s p buf hpl hi]
  | succ k ih =>
    intro p buf N hpl hk hN
    obtain ⟨n, rfl⟩ : ∃ n, N = n + 1 := ⟨N - 1, by omega⟩
    cases hi : indexDelim (s.drop p) with
    | none => rw [iterState, lexFragment_ret_none fuel [] [] s p buf hpl hi]
    | some i =>
      have hlt := indexDelim_lt' _ _ hi
      simp only [List.length_drop] at hlt
      rw [iterState, lexFragment_ret_some fuel [] [] s p buf i hpl hi]
      have hname : Gen.hash_parse.lexFragmentFlow.name = "lexFragment" := rfl
      simp only [hname, if_true]
      rw [ih (p + i + 1) _ n (by omega) (by omega) (by omega)]
      rw [lexFrag_of_some _ _ _ _ hi]
      have e1 : (s.drop p).drop (i + 1) = s.drop (p + i + 1) := by
        rw [List.drop_drop]; rfl
      simp [e1]

theorem evalLexFragment_eq (s : Bytes) (p : Nat) (hp : p ≤ s.length) :
    evalLexFragment Gen.hash_parse.lexFragmentFlow s p = some (lexFrag (s.drop p) p []) := by
  have h := iterState_frag (fuelFor s) s (s.length - p) p [] (fuelFor s) hp (Nat.le_refl _) (by unfold fuelFor; omega)
  have hm : ((lexFrag (s.drop p) p []).map goTok).mapM tokOf = some (lexFrag (s.drop p) p []) := by
    apply mapM_tokOf_goTok
    intro t ht q m e
    subst e
    exact absurd rfl (lexFrag_no_error _ _ _ _ ht q m)
  unfold evalLexFragment
  have h' : iterState (fuelFor s) Gen.hash_parse.lexFragmentFlow (.ext (.ptr 0)) (fuelFor s) ⟨[lexObj s p p 0], [{}]⟩ = _ := h
  rw [h']
  simp [LS, hm]

end GoCrypt.SFlowVal2
