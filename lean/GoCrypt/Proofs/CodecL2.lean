import GoCrypt.Proofs.CodecSteps

/-!
# The general round trip, layers L2–L6: hypotheses and field-level lemmas

This file fixes the *hypotheses* of the general round-trip theorems (`Props/C10General.lean`) and proves
what `Unmarshal` computes on the text `Marshal` wrote for ONE field, for every field kind, tag option
and text codec the model supports.

The hypotheses are the calibrated predicates `CodecDomain.unambiguous` / `CodecDomain.representable`
themselves, conjoined with

* `tiWf` — what `getTypeInfo` guarantees for every struct type (valid tag combinations, an inline field
  has a length, a base in 2..36, distinct index paths and parameter names, `numReqValues` is the number
  of required stand-alone fields) and the field kinds / text codecs the model supports;
* `typed` — the value is a value of the struct type (kinds agree, integers fit, arrays have their length,
  `nil` only in pointer fields);
* the three classes on which the round trip of the real code (and of the model) FAILS although the
  calibrated predicates accept them — they are explicit hypotheses here, not silently assumed away:
  - `lastTextOk`: the last emitted text is not empty (known finding 12, the trailing-`$` tolerance),
  - `groupsSeparated`: two parameter groups are not separated by optional fields only (new finding A),
  - `noSteal`: the text following an omitted optional parameter `p` does not begin with `p=` (new
    finding B);
* a per-field layer restriction `Lk.fieldOk`.
-/

namespace GoCrypt.Codec
open Bytes GoCrypt.Parse

namespace Layers

/-! ## Shape side -/

def kindOk (f : FieldInfo) : Bool :=
  match f.kind with
  | .string => true | .bytes => true | .byteArray _ => true | .uint _ => true | .int _ => true
  | _ => false

def isUintKind (f : FieldInfo) : Bool :=
  match f.kind with
  | .uint _ => true
  | _ => false

/-- The (MarshalText, UnmarshalText) pairs the model gives a meaning to, with the kinds they need:
none; the crypt(3) 24-bit integer; the two-digit decimal cost (read back by `ParseUint`, so the base
must be 10); a whitelist of accepted strings. -/
def codecOk (f : FieldInfo) : Bool :=
  match f.marshalText, f.unmarshalText with
  | .none, .none => kindOk f
  | .desInt, .desInt => isUintKind f
  | .twoDigit, .none => isUintKind f && f.opts.base == 10
  | .none, .whitelist _ => f.kind == .string
  | .whitelist _, .whitelist _ => f.kind == .string
  | _, _ => false

/-- What `getTypeInfo` guarantees for a field of `ti.Fields`, plus a supported kind / codec. -/
def fieldWf (f : FieldInfo) : Bool :=
  validOpts f.opts && !f.opts.isPrefix && (!f.opts.inline || f.opts.hasLength) && baseOk f && codecOk f

/-- Number of required stand-alone fields (`typeInfo.NumReqValues`). -/
def reqCount (fs : List FieldInfo) : Nat :=
  (fs.filter fun f => !f.opts.group && !f.opts.omitEmpty && !f.opts.inline).length

def paramNames (fs : List FieldInfo) : List Bytes :=
  (fs.filter fun f => f.opts.param ≠ []).map (·.opts.param)

def tiWf (ti : TypeInfo) : Bool :=
  ti.fields.all fieldWf &&
  (match ti.hashPrefix with | some hp => L1.prefixField hp | none => true) &&
  decide ((ti.hashPrefix.toList ++ ti.fields).map (·.index)).Nodup &&
  decide (paramNames ti.fields).Nodup &&
  ti.numReqValues == reqCount ti.fields

/-- `(optional stand-alone field)* group field`: what must not follow a group. -/
def optRunThenGroup : List FieldInfo → Bool
  | [] => false
  | f :: rest => if f.opts.group then true else if f.opts.omitEmpty then optRunThenGroup rest else false

/-- New finding A: two parameter groups separated by optional fields only are written as ONE group
when those fields are empty (`a=1,b=2`), which Unmarshal rejects ("excessive fragment"). -/
def groupsSeparated : List FieldInfo → Bool
  | [] => true
  | f :: rest =>
    (!f.opts.group || (match rest with | [] => true | h :: _ => h.opts.group || !optRunThenGroup rest)) &&
    groupsSeparated rest

/-! ## Value side -/

def typedField (f : FieldInfo) (v : FVal) : Bool := valOk f v || (v == .nilPtr && decide (f.ptrDepth > 0))

def typed (ti : TypeInfo) (vals : Vals) : Bool :=
  (ti.hashPrefix.toList ++ ti.fields).all fun f => typedField f (fieldVal vals f)

/-- The text of one emitted field as it appears in the string. -/
def nt (vals : Vals) (f : FieldInfo) : Bytes := namedText f (textOf vals f)

def nextGroup : Option FieldInfo → Bool
  | some g => g.opts.group
  | none => false

/-- Put the text of `f` in front of the pieces of the fields emitted after it (`next` is the first of
them): glued to the next member after an inline field, a new member of the same piece between two
grouped params, a new piece otherwise. -/
def attach (vals : Vals) (f : FieldInfo) (next : Option FieldInfo) (ps : List (List Bytes)) : List (List Bytes) :=
  if f.opts.inline then
    (match ps with
     | (m :: ms) :: ps' => ((nt vals f ++ m) :: ms) :: ps'
     | _ => [[nt vals f]])
  else if f.opts.group && nextGroup next then
    (match ps with
     | ms :: ps' => (nt vals f :: ms) :: ps'
     | [] => [[nt vals f]])
  else [nt vals f] :: ps

/-- The `$`-separated pieces (each a list of `,`-separated members) Marshal writes for a list of
emitted fields. -/
def piecesE (vals : Vals) : List FieldInfo → List (List Bytes)
  | [] => []
  | f :: rest => attach vals f rest.head? (piecesE vals rest)

/-- The pieces Marshal writes for a field list. -/
def bodyPieces (vals : Vals) (fs : List FieldInfo) : List (List Bytes) :=
  piecesE vals (fs.filter (emitted vals))

/-- Known finding 12: the last text written is not empty (one trailing delimiter is tolerated by the
parser, so an empty last text is lost). -/
def lastTextOk (vals : Vals) (fs : List FieldInfo) : Bool :=
  match (bodyPieces vals fs).getLast? with
  | some ms => ms.getLast? != some []
  | none => true

/-- New finding B: an omitted optional (stand-alone) parameter `p` followed by a text that begins with
`p=` — Unmarshal gives that text to `p`. -/
def noSteal (vals : Vals) : List FieldInfo → Bool
  | [] => true
  | f :: rest =>
    (if f.opts.param ≠ [] && !f.opts.group && f.opts.omitEmpty && !emitted vals f then
       (match bodyPieces vals rest with
        | (m :: _) :: _ => !(f.opts.param ++ [equals]).isPrefixOf m
        | _ => true)
     else true) && noSteal vals rest

end Layers

open Layers

/-! ## Parameter keys -/

theorem isPrefixOf_iff_append (a b : Bytes) : a.isPrefixOf b = true ↔ ∃ t, b = a ++ t := by
  rw [List.isPrefixOf_iff_prefix]
  constructor
  · rintro ⟨t, rfl⟩; exact ⟨t, rfl⟩
  · rintro ⟨t, rfl⟩; exact ⟨t, rfl⟩

/-- Two keys `p=`, `q=` over `=`-free names: one is a prefix of a text beginning with the other only
when the names agree. -/
theorem key_prefix_eq (p q t : Bytes) (hp : equals ∉ p) (hq : equals ∉ q)
    (h : (p ++ [equals]).isPrefixOf (q ++ [equals] ++ t) = true) : p = q := by
  induction p generalizing q with
  | nil =>
    cases q with
    | nil => rfl
    | cons c cs =>
      simp only [List.nil_append, List.cons_append, List.isPrefixOf, Bool.and_eq_true, beq_iff_eq] at h
      exact absurd (by rw [← h.1]; simp) hq
  | cons a as ih =>
    cases q with
    | nil =>
      simp only [List.nil_append, List.cons_append, List.isPrefixOf, Bool.and_eq_true, beq_iff_eq] at h
      exact absurd (by rw [h.1]; simp) hp
    | cons c cs =>
      simp only [List.cons_append, List.isPrefixOf, Bool.and_eq_true, beq_iff_eq] at h
      obtain ⟨rfl, h2⟩ := h
      rw [ih cs (fun hm => hp (List.mem_cons_of_mem _ hm)) (fun hm => hq (List.mem_cons_of_mem _ hm))
        (by simpa using h2)]

theorem alnum_clean (p : Bytes) (h : p.all CodecDomain.isAlnum = true) :
    equals ∉ p ∧ NoDelim p := by
  simp only [List.all_eq_true] at h
  refine ⟨?_, ?_⟩
  · intro hm
    have := h _ hm
    revert this; decide
  · intro c hc
    have := h c hc
    refine ⟨?_, ?_⟩ <;> intro e <;> subst e <;> revert this <;> decide

/-! ## Values -/

/-- An omitted field holds its zero value. -/
theorem omitted_zero (f : FieldInfo) (v : FVal) (ht : typedField f v = true)
    (he : isEmptyVal f v = true) : v = zeroOf f.kind f.ptrDepth := by
  simp only [typedField, Bool.or_eq_true, Bool.and_eq_true, beq_iff_eq, decide_eq_true_eq] at ht
  cases v with
  | nilPtr =>
    rcases ht with ht | ht
    · simp [valOk] at ht
    · simp [zeroOf, ht.2]
  | other => simp [isEmptyVal] at he
  | str s =>
    simp only [isEmptyVal, Bool.and_eq_true, decide_eq_true_eq, List.isEmpty_iff] at he
    rcases ht with ht | ht
    · cases hk : f.kind <;> simp only [valOk, hk, Bool.false_eq_true] at ht
      simp [zeroOf, he.1, he.2]
    · cases ht.1
  | bytes b =>
    simp only [isEmptyVal, Bool.and_eq_true, decide_eq_true_eq, List.isEmpty_iff] at he
    rcases ht with ht | ht
    · cases hk : f.kind <;> simp only [valOk, hk, Bool.false_eq_true] at ht
      · simp [zeroOf, he.1, he.2]
      · rename_i n
        simp only [beq_iff_eq] at ht
        rw [he.2] at ht
        simp only [List.length_nil] at ht
        subst ht
        simp [zeroOf, he.1, he.2]
    · cases ht.1
  | int z =>
    simp only [isEmptyVal, Bool.and_eq_true, decide_eq_true_eq, beq_iff_eq] at he
    rcases ht with ht | ht
    · cases hk : f.kind <;> simp only [valOk, hk, Bool.false_eq_true] at ht
      simp [zeroOf, he.1, he.2]
    · cases ht.1
  | uint n =>
    simp only [isEmptyVal, Bool.and_eq_true, decide_eq_true_eq, beq_iff_eq] at he
    rcases ht with ht | ht
    · cases hk : f.kind <;> simp only [valOk, hk, Bool.false_eq_true] at ht
      simp [zeroOf, he.1, he.2]
    · cases ht.1

/-! ## `storeValue` on what `marshalRaw` wrote, all supported codecs -/

theorem parseUint_leadingZero (t : Bytes) (base bits : Nat) (ht : t ≠ []) (hb : 0 < base) :
    Strconv.parseUint (48 :: t) base bits = Strconv.parseUint t base bits := by
  unfold Strconv.parseUint
  have h0 : Strconv.digitVal 48 = some 0 := by decide
  have hp : (0 : Nat) < 2 ^ bits := Nat.pos_of_ne_zero (by simp)
  simp only [ht, if_false, List.cons_ne_nil, Strconv.parseDigits, h0, hb, if_true, Nat.zero_mul,
    Nat.add_zero, hp]

theorem twoDigit_parse_gen (n bits : Nat) (hn : n < 2 ^ bits) :
    Strconv.parseUint (twoDigit n) 10 bits = .ok n := by
  unfold twoDigit
  split
  · rw [parseUint_leadingZero _ _ _ (Strconv.formatUint_ne_nil n 10) (by decide)]
    exact Strconv.format_parse_uint 10 bits n (by decide) (by decide) hn
  · exact Strconv.format_parse_uint 10 bits n (by decide) (by decide) hn

theorem storeValue_codec (f : FieldInfo) (k : String) (e : Nat) (v : FVal) (t : Bytes)
    (hc : codecOk f = true) (hb : baseOk f = true) (hpfx : f.opts.isPrefix = false)
    (hv : valOk f v = true)
    (hwl : ∀ l, f.unmarshalText = .whitelist l → l.contains t = true)
    (hdes : ∀ n, f.marshalText = .desInt → v = .uint n → n < 16777216)
    (hr : marshalRaw f v = .ok t) : storeValue f k e t = .ok v := by
  unfold codecOk at hc
  cases hm : f.marshalText <;> cases hu : f.unmarshalText <;>
    simp only [hm, hu, Bool.false_eq_true, Bool.and_eq_true, beq_iff_eq] at hc
  · -- none / none
    exact storeValue_marshalRaw f k e v t hm hu hb hv hr
  · -- none / whitelist
    rename_i l
    cases v <;> simp only [valOk, hc, Bool.false_eq_true] at hv
    rename_i s
    simp only [marshalRaw, hm, hpfx, hc, Bool.false_and, Bool.false_eq_true, if_false,
      Except.ok.injEq] at hr
    subst hr
    simp only [storeValue, hu, hwl l hu, if_true]
  · -- whitelist / whitelist
    rename_i l' l
    cases v <;> simp only [valOk, hc, Bool.false_eq_true] at hv
    rename_i s
    simp only [marshalRaw, hm, Except.ok.injEq] at hr
    subst hr
    simp only [storeValue, hu, hwl l hu, if_true]
  · -- desInt / desInt
    unfold isUintKind at hc
    cases hk : f.kind <;> simp only [hk, Bool.false_eq_true] at hc
    cases v <;> simp only [valOk, hk, Bool.false_eq_true] at hv
    rename_i bits n
    have hn := hdes n hm rfl
    simp only [marshalRaw, hm, Except.ok.injEq] at hr
    subst hr
    have h1 : n % 4294967296 = n := Nat.mod_eq_of_lt (by omega)
    rw [h1, storeValue_desInt f k e _ hu, desInt_roundtrip n (by simpa using hn)]
  · -- twoDigit / none
    obtain ⟨hc1, hc2⟩ := hc
    unfold isUintKind at hc1
    cases hk : f.kind <;> simp only [hk, Bool.false_eq_true] at hc1
    cases v <;> simp only [valOk, hk, Bool.false_eq_true] at hv
    rename_i bits n
    simp only [decide_eq_true_eq] at hv
    simp only [marshalRaw, hm, Except.ok.injEq] at hr
    subst hr
    exact storeValue_uint f k e _ bits n hu hk hpfx (by rw [hc2]; exact twoDigit_parse_gen n bits hv)

end GoCrypt.Codec
