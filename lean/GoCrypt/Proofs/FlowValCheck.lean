import GoCrypt.Proofs.FlowValSchemes
import GoCrypt.Proofs.FlowValLen
import GoCrypt.Proofs.EndToEnd

/-!
# `Gen.<pkg>.flowCheck` evaluates to `Scheme.check <pkg>`

One proof script, instantiated for the ten schemes (the differences are the
case split a default-filling `ifAssign` or the `Separator` pointer needs, and for desext the range
of the unmarshalled round count).  Steps: case on `unmarshal ti h`; normalise the model's
`checkArgs`; run the program up to the `Key` call; abstract `key S _` on both sides and case on it;
in the `ok` case the encoder output fills the buffer exactly (`Proofs/FlowValLen.lean`), then case on
the comparison.  `unmarshal`, `key`, the KDFs and the encoders are never unfolded here.
-/

set_option linter.unusedSimpArgs false

namespace GoCrypt.FlowVal
open GoCrypt GoCrypt.Scheme GoCrypt.Codec GoCrypt.Flow GoCrypt.EndToEnd GoCrypt.Codec.Shapes GoCrypt.Kdf

attribute [flowval] tiOf_md5 tiOf_sha256 tiOf_sha512 tiOf_sha1 tiOf_sunmd5 tiOf_des tiOf_desext tiOf_bcrypt
  tiOf_nthash tiOf_argon2 md5_name sha256_name sha512_name sha1_name sunmd5_name des_name desext_name
  bcrypt_name nthash_name argon2_name

/-- The model uses sha256's constant for sha512's default as well; the IR uses sha512's own. -/
theorem implicit512 : Gen.sha512.ImplicitRounds = Gen.sha256.ImplicitRounds := rfl

/-! ## desext: `uint32(scheme.Rounds)` is the identity on what `Unmarshal` stores -/

theorem desDecodeInt_lt (b : Bytes) : desDecodeInt b < 4294967296 := by
  unfold desDecodeInt
  suffices ∀ (l : List (UInt8 × Nat)) (v : Nat), v < 4294967296 →
      l.foldl (fun v (c, i) => (v + ((hashDecode c <<< (i * 6)) % 4294967296)) % 4294967296) v < 4294967296 from
    this _ 0 (by decide)
  intro l
  induction l with
  | nil => intro v h; exact h
  | cons x xs ih => intro v _; exact ih _ (Nat.mod_lt _ (by decide))

theorem desext_rounds_lt (h : Bytes) (out : Vals) (hu : unmarshal desextTI h = .ok out) :
    fvNat (Scheme.fieldVal desextTI (finalVals desextTI out) "Rounds") < 4294967296 := by
  obtain ⟨f, -, rfl⟩ := (Accept.unmarshal_desext h out).1 hu
  exact desDecodeInt_lt f.rounds

/-! ## The ten schemes -/

theorem flowCheck_eq_model_md5 (h pw : Bytes) (rand : Nat) (ent : Entropy) :
    outcomeToCheckRes (run (prims md5 rand) Gen.md5.flowCheck (checkEnv h pw) ent) =
      some (Scheme.check md5 h pw rand) := by
  unfold check Gen.md5.flowCheck
  rw [tiOf_md5]
  rcases hu : unmarshal md5TI h with e | out
  · flow_run [hu]
    simp [outcomeToCheckRes]
  · simp only [checkArgs, md5_name]
    all_goals
      flow_run [hu]
      generalize hkr : key md5 _ = kr
      rcases kr with k | e | w | _
      · have hlen := sumLen_md5 _ _ hkr
        flow_run [writeBuf_exact _ _ hlen, md5_encodeSum]
        by_cases hc : ctEq (leEncode k) (fvBytes (Scheme.fieldVal md5TI (finalVals md5TI out) "Sum")) = true
        · flow_run [hc]
          simp [outcomeToCheckRes]
        · simp [outcomeToCheckRes, hc]
      all_goals
        flow_run
        simp [outcomeToCheckRes]

theorem flowCheck_eq_model_sha256 (h pw : Bytes) (rand : Nat) (ent : Entropy) :
    outcomeToCheckRes (run (prims sha256 rand) Gen.sha256.flowCheck (checkEnv h pw) ent) =
      some (Scheme.check sha256 h pw rand) := by
  unfold check Gen.sha256.flowCheck
  rw [tiOf_sha256]
  rcases hu : unmarshal sha256TI h with e | out
  · flow_run [hu]
    simp [outcomeToCheckRes]
  · simp only [checkArgs, sha256_name]
    by_cases hr : fvNat (Scheme.fieldVal sha256TI (finalVals sha256TI out) "Rounds") = 0
    all_goals
      flow_run [hu, hr]
      generalize hkr : key sha256 _ = kr
      rcases kr with k | e | w | _
      · have hlen := sumLen_sha256 _ _ hkr
        flow_run [writeBuf_exact _ _ hlen, sha256_encodeSum]
        by_cases hc : ctEq (leEncode k) (fvBytes (Scheme.fieldVal sha256TI (finalVals sha256TI out) "Sum")) = true
        · flow_run [hc]
          simp [outcomeToCheckRes]
        · simp [outcomeToCheckRes, hc]
      all_goals
        flow_run
        simp [outcomeToCheckRes]

theorem flowCheck_eq_model_sha512 (h pw : Bytes) (rand : Nat) (ent : Entropy) :
    outcomeToCheckRes (run (prims sha512 rand) Gen.sha512.flowCheck (checkEnv h pw) ent) =
      some (Scheme.check sha512 h pw rand) := by
  unfold check Gen.sha512.flowCheck
  rw [tiOf_sha512]
  rcases hu : unmarshal sha512TI h with e | out
  · flow_run [hu]
    simp [outcomeToCheckRes]
  · simp only [checkArgs, sha512_name]
    by_cases hr : fvNat (Scheme.fieldVal sha512TI (finalVals sha512TI out) "Rounds") = 0
    all_goals
      flow_run [hu, hr, implicit512]
      generalize hkr : key sha512 _ = kr
      rcases kr with k | e | w | _
      · have hlen := sumLen_sha512 _ _ hkr
        flow_run [writeBuf_exact _ _ hlen, sha512_encodeSum]
        by_cases hc : ctEq (leEncode k) (fvBytes (Scheme.fieldVal sha512TI (finalVals sha512TI out) "Sum")) = true
        · flow_run [hc]
          simp [outcomeToCheckRes]
        · simp [outcomeToCheckRes, hc]
      all_goals
        flow_run
        simp [outcomeToCheckRes]

theorem flowCheck_eq_model_sha1 (h pw : Bytes) (rand : Nat) (ent : Entropy) :
    outcomeToCheckRes (run (prims sha1 rand) Gen.sha1.flowCheck (checkEnv h pw) ent) =
      some (Scheme.check sha1 h pw rand) := by
  unfold check Gen.sha1.flowCheck
  rw [tiOf_sha1]
  rcases hu : unmarshal sha1TI h with e | out
  · flow_run [hu]
    simp [outcomeToCheckRes]
  · simp only [checkArgs, sha1_name]
    all_goals
      flow_run [hu]
      generalize hkr : key sha1 _ = kr
      rcases kr with k | e | w | _
      · have hlen := sumLen_sha1 _ _ hkr
        flow_run [writeBuf_exact _ _ hlen, sha1_encodeSum]
        by_cases hc : ctEq (leEncode k) (fvBytes (Scheme.fieldVal sha1TI (finalVals sha1TI out) "Sum")) = true
        · flow_run [hc]
          simp [outcomeToCheckRes]
        · simp [outcomeToCheckRes, hc]
      all_goals
        flow_run
        simp [outcomeToCheckRes]

theorem flowCheck_eq_model_sunmd5 (h pw : Bytes) (rand : Nat) (ent : Entropy) :
    outcomeToCheckRes (run (prims sunmd5 rand) Gen.sunmd5.flowCheck (checkEnv h pw) ent) =
      some (Scheme.check sunmd5 h pw rand) := by
  unfold check Gen.sunmd5.flowCheck
  rw [tiOf_sunmd5]
  rcases hu : unmarshal sunmd5TI h with e | out
  · flow_run [hu]
    simp [outcomeToCheckRes]
  · simp only [checkArgs, sunmd5_name]
    rcases hb : (Scheme.fieldVal sunmd5TI (finalVals sunmd5TI out) "Separator" == FVal.nilPtr) with _ | _
    all_goals have hr := hb
    all_goals simp only [beq_eq_false_iff_ne, beq_iff_eq, ne_eq] at hr
    all_goals
      flow_run [hu, hr, hb]
      generalize hkr : key sunmd5 _ = kr
      rcases kr with k | e | w | _
      · have hlen := sumLen_sunmd5 _ _ hkr
        flow_run [writeBuf_exact _ _ hlen, sunmd5_encodeSum]
        by_cases hc : ctEq (leEncode k) (fvBytes (Scheme.fieldVal sunmd5TI (finalVals sunmd5TI out) "Sum")) = true
        · flow_run [hc]
          simp [outcomeToCheckRes]
        · simp [outcomeToCheckRes, hc]
      all_goals
        flow_run
        simp [outcomeToCheckRes]

theorem flowCheck_eq_model_des (h pw : Bytes) (rand : Nat) (ent : Entropy) :
    outcomeToCheckRes (run (prims des rand) Gen.des.flowCheck (checkEnv h pw) ent) =
      some (Scheme.check des h pw rand) := by
  unfold check Gen.des.flowCheck
  rw [tiOf_des]
  rcases hu : unmarshal desTI h with e | out
  · flow_run [hu]
    simp [outcomeToCheckRes]
  · simp only [checkArgs, des_name]
    all_goals
      flow_run [hu]
      generalize hkr : key des _ = kr
      rcases kr with k | e | w | _
      · have hlen := sumLen_des _ _ hkr
        flow_run [writeBuf_exact _ _ hlen, des_encodeSum]
        by_cases hc : ctEq (beEncode k) (fvBytes (Scheme.fieldVal desTI (finalVals desTI out) "Sum")) = true
        · flow_run [hc]
          simp [outcomeToCheckRes]
        · simp [outcomeToCheckRes, hc]
      all_goals
        flow_run
        simp [outcomeToCheckRes]

theorem flowCheck_eq_model_desext (h pw : Bytes) (rand : Nat) (ent : Entropy) :
    outcomeToCheckRes (run (prims desext rand) Gen.desext.flowCheck (checkEnv h pw) ent) =
      some (Scheme.check desext h pw rand) := by
  unfold check Gen.desext.flowCheck
  rw [tiOf_desext]
  rcases hu : unmarshal desextTI h with e | out
  · flow_run [hu]
    simp [outcomeToCheckRes]
  · simp only [checkArgs, desext_name]
    all_goals
      flow_run [hu, Nat.mod_eq_of_lt (desext_rounds_lt h out hu)]
      generalize hkr : key desext _ = kr
      rcases kr with k | e | w | _
      · have hlen := sumLen_desext _ _ hkr
        flow_run [writeBuf_exact _ _ hlen, desext_encodeSum]
        by_cases hc : ctEq (beEncode k) (fvBytes (Scheme.fieldVal desextTI (finalVals desextTI out) "Sum")) = true
        · flow_run [hc]
          simp [outcomeToCheckRes]
        · simp [outcomeToCheckRes, hc]
      all_goals
        flow_run
        simp [outcomeToCheckRes]

theorem flowCheck_eq_model_bcrypt (h pw : Bytes) (rand : Nat) (ent : Entropy) :
    outcomeToCheckRes (run (prims bcrypt rand) Gen.bcrypt.flowCheck (checkEnv h pw) ent) =
      some (Scheme.check bcrypt h pw rand) := by
  unfold check Gen.bcrypt.flowCheck
  rw [tiOf_bcrypt]
  rcases hu : unmarshal bcryptTI h with e | out
  · flow_run [hu]
    simp [outcomeToCheckRes]
  · simp only [checkArgs, bcrypt_name]
    all_goals
      flow_run [hu]
      generalize hkr : key bcrypt _ = kr
      rcases kr with k | e | w | _
      · have hlen := sumLen_bcrypt _ _ hkr
        flow_run [writeBuf_exact _ _ hlen, bcrypt_encodeSum]
        by_cases hc : ctEq ((stdEncode bcryptAlphabet) k) (fvBytes (Scheme.fieldVal bcryptTI (finalVals bcryptTI out) "Sum")) = true
        · flow_run [hc]
          simp [outcomeToCheckRes]
        · simp [outcomeToCheckRes, hc]
      all_goals
        flow_run
        simp [outcomeToCheckRes]

theorem flowCheck_eq_model_nthash (h pw : Bytes) (rand : Nat) (ent : Entropy) :
    outcomeToCheckRes (run (prims nthash rand) Gen.nthash.flowCheck (checkEnv h pw) ent) =
      some (Scheme.check nthash h pw rand) := by
  unfold check Gen.nthash.flowCheck
  rw [tiOf_nthash]
  rcases hu : unmarshal nthashTI h with e | out
  · flow_run [hu]
    simp [outcomeToCheckRes]
  · simp only [checkArgs, nthash_name]
    all_goals
      flow_run [hu]
      generalize hkr : key nthash _ = kr
      rcases kr with k | e | w | _
      · have hlen := sumLen_nthash _ _ hkr
        flow_run [writeBuf_exact _ _ hlen, nthash_encodeSum]
        by_cases hc : ctEq (hexLower k) (fvBytes (Scheme.fieldVal nthashTI (finalVals nthashTI out) "Sum")) = true
        · flow_run [hc]
          simp [outcomeToCheckRes]
        · simp [outcomeToCheckRes, hc]
      all_goals
        flow_run
        simp [outcomeToCheckRes]

set_option maxHeartbeats 400000 in
theorem flowCheck_eq_model_argon2 (h pw : Bytes) (rand : Nat) (ent : Entropy) :
    outcomeToCheckRes (run (prims argon2 rand) Gen.argon2.flowCheck (checkEnv h pw) ent) =
      some (Scheme.check argon2 h pw rand) := by
  unfold check Gen.argon2.flowCheck
  rw [tiOf_argon2]
  rcases hu : unmarshal argon2TI h with e | out
  · flow_run [hu]
    simp [outcomeToCheckRes]
  · simp only [checkArgs, argon2_name]
    by_cases hr : fvNat (Scheme.fieldVal argon2TI (finalVals argon2TI out) "Version") = 0
    all_goals
      flow_run [hu, hr]
      generalize hkr : key argon2 _ = kr
      rcases kr with k | e | w | _
      · have hlen := sumLen_argon2 k
        flow_run [writeBuf_exact _ _ hlen, argon2_encodeSum]
        by_cases hc : ctEq ((stdEncode stdAlphabet) k) (fvBytes (Scheme.fieldVal argon2TI (finalVals argon2TI out) "Sum")) = true
        · flow_run [hc]
          simp [outcomeToCheckRes]
        · simp [outcomeToCheckRes, hc]
      all_goals
        flow_run
        simp [outcomeToCheckRes]

end GoCrypt.FlowVal
