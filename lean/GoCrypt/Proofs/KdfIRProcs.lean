import GoCrypt.Gen.KdfIR
import GoCrypt.Proofs.KdfIRBase
import GoCrypt.Model.Kdf.Hashed

/-!
# Hash-transcript IR: the helper functions

What the regenerated `newHash`, `sum` (both packages), `cryptoutil.Permute` and
`sha2crypt.duplicate` compute, for every context / hash function. Helper lemmas only.
-/

namespace GoCrypt.HashIR
open GoCrypt.Kdf

theorem execProc_of_ret (c : Ctx) (p : Proc) (args : List Val) (v : Val)
    (hlen : p.params.length = args.length)
    (h : exec c p.body (Env.ofList (p.params.zip args)) = .ret v) : execProc c p args = .ok v := by
  simp [execProc, hlen, h]

theorem execProc_of_panic (c : Ctx) (p : Proc) (args : List Val)
    (hlen : p.params.length = args.length)
    (h : exec c p.body (Env.ofList (p.params.zip args)) = .panic) : execProc c p args = .panic := by
  simp [execProc, hlen, h]

/-! ## `newHash(bytes...)`: a fresh object with all the arguments written, in order -/

theorem newHash_md5 (c : Ctx) (l : List Bytes) :
    execProc c Gen.md5_md5crypt.newHashIR [.list l] = .ok (.hash l.flatten) := by
  apply execProc_of_ret _ _ _ _ rfl
  simp only [Gen.md5_md5crypt.newHashIR, List.zip_cons_cons, List.zip_nil_right, Env.ofList]
  refine exec_seq_ok c _ (by simp only [exec_assign, eval, ok_bind]; rfl) ?_
  refine exec_seq_ok c _ (exec_forRange_list c "b" _ _ _ l
    (fun j => (Env.empty.set "bytes" (.list l)).set "h" (.hash (l.take j).flatten))
    (by simp [eval, Env.set]) (by simp) (by
      intro j h
      refine ⟨_, by simp [exec_write, eval, Env.set]; rfl, ?_⟩
      simp only [take_succ_flatten l j h]
      env_ext)) ?_
  simp [exec_ret, eval]

theorem newHash_sha2 (c : Ctx) (hid : Val) (l : List Bytes) :
    execProc c Gen.sha256_sha2crypt.newHashIR [hid, .list l] = .ok (.hash l.flatten) := by
  apply execProc_of_ret _ _ _ _ rfl
  simp only [Gen.sha256_sha2crypt.newHashIR, List.zip_cons_cons, List.zip_nil_right, Env.ofList]
  refine exec_seq_ok c _ (by simp only [exec_assign, eval, ok_bind]; rfl) ?_
  refine exec_seq_ok c _ (exec_forRange_list c "b" _ _ _ l
    (fun j => ((Env.empty.set "bytes" (.list l)).set "h" hid).set "hash" (.hash (l.take j).flatten))
    (by simp [eval, Env.set]) (by simp) (by
      intro j h
      refine ⟨_, by simp [exec_write, eval, Env.set]; rfl, ?_⟩
      simp only [take_succ_flatten l j h]
      env_ext)) ?_
  simp [exec_ret, eval]

/-! ## `sum(bytes...)` = `H` of the concatenation -/

theorem sum_md5 (c : Ctx) (l : List Bytes)
    (hnew : ∀ l, c.call "md5crypt.newHash" [.list l] = .ok (.hash l.flatten)) :
    execProc c Gen.md5_md5crypt.sumIR [.list l] = .ok (.bytes (c.H l.flatten)) := by
  apply execProc_of_ret _ _ _ _ rfl
  simp [Gen.md5_md5crypt.sumIR, Env.ofList, exec_seq, exec_call, exec_ret, evalArgs, eval, Env.set, hnew]

theorem sum_sha2 (c : Ctx) (hid : Val) (l : List Bytes)
    (hnew : ∀ hid l, c.call "sha2crypt.newHash" [hid, .list l] = .ok (.hash l.flatten)) :
    execProc c Gen.sha256_sha2crypt.sumIR [hid, .list l] = .ok (.bytes (c.H l.flatten)) := by
  apply execProc_of_ret _ _ _ _ rfl
  simp [Gen.sha256_sha2crypt.sumIR, Env.ofList, exec_seq, exec_call, exec_ret, evalArgs, eval, Env.set, hnew]

/-! ## `cryptoutil.Permute(b, t)`: `buf[i] = b[t[i]]`, panicking on an index out of range -/

/-- One iteration of the `range` loop of `Permute` (the loop body as `exec_forRange` presents it). -/
def permStep (c : Ctx) : Nat → Val → Env → Res Env := fun i x st =>
  exec c (.setIndex "buf" (.var "i") (.index (.var "b") (.var "j")))
    ((st.setOpt (some "i") (.int i)).setOpt (some "j") x) >>= fun st' =>
  .ok ((st'.eraseOpt (some "i")).eraseOpt (some "j"))

theorem permStep_eq (c : Ctx) (b buf : Bytes) (k : Nat) (t : UInt8) (st : Env)
    (hbuf : st "buf" = some (.bytes buf)) (hk : k < buf.length)
    (hb : st "b" = some (.bytes b)) (hi : st "i" = none) (hj : st "j" = none) :
    permStep c k (.int t.toNat) st =
      match b[t.toNat]? with
      | some y => .ok (st.set "buf" (.bytes (buf.set k y)))
      | none => .panic := by
  have e1 : lookup ((st.set "i" (.int k)).set "j" (.int t.toNat)) "buf" = .ok (.bytes buf) := by
    simp [lookup, Env.set, hbuf]
  have e2 : lookup ((st.set "i" (.int k)).set "j" (.int t.toNat)) "i" = .ok (.int k) := by simp [lookup, Env.set]
  have e3 : lookup ((st.set "i" (.int k)).set "j" (.int t.toNat)) "b" = .ok (.bytes b) := by simp [lookup, Env.set, hb]
  have e4 : lookup ((st.set "i" (.int k)).set "j" (.int t.toNat)) "j" = .ok (.int t.toNat) := by simp [lookup, Env.set]
  simp only [permStep, Env.setOpt_some, Env.eraseOpt_some, exec_setIndex, eval, e1, e2, e3, e4, ok_bind,
    asBytes_bytes, asInt_int, indexOf, Int.natCast_nonneg, if_true, Int.toNat_natCast]
  cases hbt : b[t.toNat]? with
  | none => simp
  | some y =>
    have hy : (0 : Int) ≤ y.toNat ∧ (y.toNat : Int) < 256 := ⟨Int.natCast_nonneg _, by have := UInt8.toNat_lt y; omega⟩
    have hkk : (0 : Int) ≤ k ∧ (k : Int) < (buf.length : Nat) := ⟨Int.natCast_nonneg _, by omega⟩
    simp only [ok_bind, asInt_int, storeByte, hy, hkk, and_self, if_true, Int.toNat_natCast, UInt8.ofNat_toNat]
    congr 1
    funext z
    simp only [Env.set, Env.erase]
    repeat' split
    all_goals first | rfl | simp_all

/-- The `range` loop of `Permute`: element `k` of `buf` becomes `b[t[k]]`, or the index panics. -/
theorem permute_loop (c : Ctx) (b : Bytes) : ∀ (ts : List UInt8) (k : Nat) (done : Bytes) (st : Env),
    st "buf" = some (.bytes (done ++ List.replicate ts.length 0)) → done.length = k →
    st "b" = some (.bytes b) → st "i" = none → st "j" = none →
    rangeLoop (permStep c) (ts.map fun x => .int x.toNat) k st =
    match permute b (ts.map (·.toNat)) with
    | some r => .ok (st.set "buf" (.bytes (done ++ r)))
    | none => .panic
  | [], k, done, st, hbuf, _, _, _, _ => by
    simp only [List.map_nil, rangeLoop, permute, List.mapM_nil, pure, List.append_nil]
    congr 1
    funext y
    simp only [Env.set]
    split
    · next h => rw [h, hbuf]; simp
    · rfl
  | t :: ts, k, done, st, hbuf, hk, hb, hi, hj => by
    simp only [List.map_cons, rangeLoop]
    rw [permStep_eq c b _ k t st hbuf (by simp; omega) hb hi hj]
    simp only [permute, List.mapM_cons]
    cases hbt : b[t.toNat]? with
    | none => simp
    | some y =>
      have hset : (done ++ List.replicate (ts.length + 1) (0 : UInt8)).set k y = (done ++ [y]) ++ List.replicate ts.length 0 := by
        subst hk
        simp [List.replicate_succ]
      simp only [List.length_cons, hset, ok_bind]
      rw [permute_loop c b ts (k + 1) (done ++ [y]) _ (by simp [Env.set]) (by simp [hk]) (by simp [Env.set, hb])
        (by simp [Env.set, hi]) (by simp [Env.set, hj])]
      simp only [permute]
      cases List.mapM (fun j => b[j]?) (List.map (fun x => x.toNat) ts) with
      | none => simp
      | some r => simp [Env.set_set]

theorem permute_proc (c : Ctx) (b t : Bytes) :
    execProc c Gen.internal_cryptoutil.permuteIR [.bytes b, .bytes t] = ofModel (permute b (t.map (·.toNat))) := by
  have hloop := permute_loop c b t 0 [] (((Env.empty.set "t" (.bytes t)).set "b" (.bytes b)).set "buf" (.bytes (List.replicate t.length 0)))
    (by simp) rfl (by simp [Env.set]) (by simp [Env.set, Env.empty]) (by simp [Env.set, Env.empty])
  have hmake : exec c (.assign "buf" (.make (.len (.var "t")) (.len (.var "t")))) ((Env.empty.set "t" (.bytes t)).set "b" (.bytes b)) =
      .ok (((Env.empty.set "t" (.bytes t)).set "b" (.bytes b)).set "buf" (.bytes (List.replicate t.length 0))) := by
    simp [exec_assign, eval, lookup, Env.set, lenOf]
  have hrange : exec c (.forRange (some "i") (some "j") (.var "t") (.setIndex "buf" (.var "i") (.index (.var "b") (.var "j"))))
      (((Env.empty.set "t" (.bytes t)).set "b" (.bytes b)).set "buf" (.bytes (List.replicate t.length 0))) =
      rangeLoop (permStep c) (t.map fun x => .int x.toNat) 0
        (((Env.empty.set "t" (.bytes t)).set "b" (.bytes b)).set "buf" (.bytes (List.replicate t.length 0))) := by
    rw [exec_forRange]
    have : eval c (((Env.empty.set "t" (.bytes t)).set "b" (.bytes b)).set "buf" (.bytes (List.replicate t.length 0))) (.var "t") = .ok (.bytes t) := by
      simp [eval, lookup, Env.set]
    rw [this]
    rfl
  cases hp : permute b (t.map (·.toNat)) with
  | none =>
    rw [hp] at hloop
    apply execProc_of_panic _ _ _ rfl
    simp only [Gen.internal_cryptoutil.permuteIR, List.zip_cons_cons, List.zip_nil_right, Env.ofList]
    refine exec_seq_ok c _ hmake ?_
    exact exec_seq_panic c _ (hrange.trans hloop)
  | some r =>
    rw [hp] at hloop
    apply execProc_of_ret _ _ _ _ rfl
    simp only [Gen.internal_cryptoutil.permuteIR, List.zip_cons_cons, List.zip_nil_right, Env.ofList]
    refine exec_seq_ok c _ hmake ?_
    refine exec_seq_ok c _ (hrange.trans hloop) ?_
    simp [exec_ret, eval, lookup]

/-! ## `sha2crypt.duplicate(h, b, n)` -/

def dupCond (c : Ctx) : Env → Res Bool := fun st => eval c st (.bin .ge (.var "i") .hsize) >>= asBool
def dupStep (c : Ctx) : Env → Res Env := fun st =>
  exec c (.assign "r" (.append (.var "r") (.slice (.var "b") (.int 0) .hsize))) st >>=
    exec c (.assign "i" (.bin .sub (.var "i") .hsize))
def dupTail (c : Ctx) : Env → Res Env := fun st =>
  exec c (.assign "r" (.append (.var "r") (.slice (.var "b") (.int 0) (.var "i"))) ;; .ret (.var "r")) st

theorem sliceOf_zero (b : Bytes) (n : Nat) :
    sliceOf b 0 n = match sliceTo b n with | some x => .ok (.bytes x) | none => .panic := by
  simp only [sliceOf, sliceTo]
  by_cases hle : n ≤ b.length
  · simp [hle]
  · simp [hle]

theorem dup_exit (c : Ctx) (b : Bytes) (F m i : Nat) (acc : Bytes) (st : Env) (hlt : i < c.size)
    (hr : st "r" = some (.bytes acc)) (hb : st "b" = some (.bytes b)) (hi : st "i" = some (.int i)) :
    (iter (dupCond c) (dupStep c) F st >>= dupTail c) =
      match duplicate c.size b m i with
      | some r => .ret (.bytes (acc ++ r))
      | none => .panic := by
  have hcond : dupCond c st = .ok false := by
    simp [dupCond, eval, hi, evalBin]; omega
  rw [iter_false _ _ _ _ hcond, ok_bind]
  have hmod : duplicate c.size b m i = sliceTo b i := by
    cases m <;> simp [duplicate]; omega
  rw [hmod]
  simp only [dupTail, exec_seq, exec_assign, eval, lookup_some hr, lookup_some hb, lookup_some hi, ok_bind,
    asBytes_bytes, asInt_int, sliceOf_zero]
  cases sliceTo b i with
  | none => rfl
  | some x => simp [exec_ret, eval]

theorem dup_iter (c : Ctx) (hs : 0 < c.size) (b : Bytes) : ∀ (F m i : Nat) (acc : Bytes) (st : Env),
    i + 1 ≤ F + c.size → i ≤ m → st "r" = some (.bytes acc) → st "b" = some (.bytes b) →
    st "i" = some (.int i) →
    (iter (dupCond c) (dupStep c) F st >>= dupTail c) =
      match duplicate c.size b m i with
      | some r => .ret (.bytes (acc ++ r))
      | none => .panic := by
  intro F
  induction F with
  | zero =>
    intro m i acc st hF hm hr hb hi
    exact dup_exit c b 0 m i acc st (by omega) hr hb hi
  | succ F ih =>
    intro m i acc st hF hm hr hb hi
    by_cases hlt : i < c.size
    · exact dup_exit c b _ m i acc st hlt hr hb hi
    · have hge : c.size ≤ i := by omega
      obtain ⟨m', rfl⟩ : ∃ m', m = m' + 1 := ⟨m - 1, by omega⟩
      have hcond : dupCond c st = .ok true := by
        simp [dupCond, eval, hi, evalBin]; omega
      rw [iter_true _ _ _ _ hcond]
      have hmod : duplicate c.size b (m' + 1) i =
          (do let whole ← sliceTo b c.size; let rest ← duplicate c.size b m' (i - c.size); pure (whole ++ rest)) := by
        simp [duplicate, hge, hs]
      rw [hmod]
      simp only [dupStep, exec_assign, eval, lookup_some hr, lookup_some hb, ok_bind, asBytes_bytes, asInt_int]
      rw [sliceOf_zero b c.size]
      cases hw : sliceTo b c.size with
      | none => rfl
      | some whole =>
        simp only [ok_bind, asBytes_bytes, pure_eq_ok, exec_assign, eval]
        have hi' : (st.set "r" (.bytes (acc ++ whole))) "i" = some (.int i) := by simp [Env.set, hi]
        simp only [lookup_some hi', ok_bind, asInt_int, evalBin]
        have hsub : ((i : Int) - (c.size : Int)) = ((i - c.size : Nat) : Int) := by omega
        rw [hsub]
        have := ih m' (i - c.size) (acc ++ whole) (((st.set "r" (.bytes (acc ++ whole))).set "i" (.int ((i - c.size : Nat) : Int))))
          (by omega) (by omega) (by simp [Env.set]) (by simp [Env.set, hb]) (by simp [Env.set])
        rw [this]
        cases duplicate c.size b m' (i - c.size) with
        | none => simp
        | some rest => simp

theorem duplicate_proc (c : Ctx) (hs : 0 < c.size) (hid : Val) (b : Bytes) (n : Nat) :
    execProc c Gen.sha256_sha2crypt.duplicateIR [hid, .bytes b, .int n] = ofModel (duplicate c.size b (n + 1) n) := by
  have key : exec c Gen.sha256_sha2crypt.duplicateIR.body
      (Env.ofList (Gen.sha256_sha2crypt.duplicateIR.params.zip [hid, .bytes b, .int n])) =
      match duplicate c.size b (n + 1) n with
      | some r => .ret (.bytes r)
      | none => .panic := by
    simp only [Gen.sha256_sha2crypt.duplicateIR, List.zip_cons_cons, List.zip_nil_right, Env.ofList]
    refine exec_seq_ok c _ (st' := (((Env.empty.set "n" (.int n)).set "b" (.bytes b)).set "h" hid).set "r" (.bytes [])) (by
      simp [exec_assign, eval, Env.set]) ?_
    refine exec_seq_ok c _ (by simp only [exec_assign, eval, ok_bind]; rfl) ?_
    refine exec_seq_ok c _ (st' := ((((Env.empty.set "n" (.int n)).set "b" (.bytes b)).set "h" hid).set "r" (.bytes [])).set "i" (.int n)) (by
      simp [exec_assign, eval, Env.set, Env.set_set]) ?_
    rw [exec_seq, exec_for]
    have hf : eval c (((((Env.empty.set "n" (.int n)).set "b" (.bytes b)).set "h" hid).set "r" (.bytes [])).set "i" (.int n))
        (.bin .add (.bin .sub (.var "i") .hsize) (.int 1)) = .ok (.int ((n : Int) - c.size + 1)) := by
      simp [eval, evalBin]
    rw [hf]
    simp only [ok_bind, asInt_int]
    have := dup_iter c hs b ((n : Int) - c.size + 1).toNat (n + 1) n []
      (((((Env.empty.set "n" (.int n)).set "b" (.bytes b)).set "h" hid).set "r" (.bytes [])).set "i" (.int n))
      (by omega) (by omega) (by simp [Env.set]) (by simp [Env.set]) (by simp [Env.set])
    simp only [List.nil_append] at this
    exact this
  cases hd : duplicate c.size b (n + 1) n with
  | none =>
    rw [hd] at key
    exact execProc_of_panic _ _ _ rfl key
  | some r =>
    rw [hd] at key
    exact execProc_of_ret _ _ _ _ rfl key

end GoCrypt.HashIR
