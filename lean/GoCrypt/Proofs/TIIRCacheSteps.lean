import GoCrypt.Proofs.TIIRCacheHist

/-!
# Type-info IR with cache state: `getTypeInfo`'s body as five steps of a thread

The body of the regenerated `getTypeInfo` is cut at its two `typeCache` operations into five pieces, all of
them sub-terms of the GENERATED text (`Gen/TypeInfoIR.lean`), named by position:

    pS0: typ := indirectType(t)                      (local)
    pA1: f, ok := typeCache.Load(typ)                (ONE atomic step on the shared cache)
    if !ok {
      pS1: info := getRawTypeInfo(typ); info.Struct = t; if err := info.normalize(); err != nil { return nil, err }
                                                     (local: allocates and writes fresh records only)
      pA2: f, _ = typeCache.LoadOrStore(typ, info)   (ONE atomic step on the shared cache)
    }
    pS2: ti := *f.(*typeInfo); ti.Struct = t; return &ti, nil     (reads the cached record, allocates the copy)

`Thr` is the state of one call in progress (which piece comes next, and its frame); `stepThr` runs the next piece
with `execC` on the shared cache state and heap.  `solo_run_is_the_call`: stepping one thread alone five times is
exactly the sequential interpretation `execProcC … getTypeInfoIR` — so the small-step system is the same
program, only with the places marked where another call may run in between.
Definitions and helper lemmas; results in `Props/TypeCacheIR.lean`.
-/

namespace GoCrypt.TIIR.Cache
open GoCrypt.Codec GoCrypt.Gen.typeinfoIR GoCrypt.TIIR

/-- `typ := indirectType(t)` -/
def pS0 : Stmt := getTypeInfoIR.body.head
/-- `f, ok := typeCache.Load(typ)` -/
def pA1 : Stmt := (getTypeInfoIR.body.drop 1).head
/-- `if !ok { … }` -/
def pIf : Stmt := (getTypeInfoIR.body.drop 2).head
/-- The miss branch up to (not including) `LoadOrStore`. -/
def pS1 : Stmt := pIf.iteThen.take 4
/-- `f, _ = typeCache.LoadOrStore(typ, info)` -/
def pA2 : Stmt := pIf.iteThen.drop 4
/-- `ti := *f.(*typeInfo); ti.Struct = t; return &ti, nil` -/
def pS2 : Stmt := getTypeInfoIR.body.drop 3

/-- The pieces are where the comments say: the two atomic ones are the two cache operations, and the others
contain none. -/
theorem pieces_shape :
    getTypeInfoIR.body = (pS0 ;; pA1 ;; pIf ;; pS2) ∧ pIf.iteElse.cacheFree = true ∧
      pS0.cacheFree = true ∧ pS1.cacheFree = true ∧ pS2.cacheFree = true ∧ pA1.cacheFree = false ∧ pA2.cacheFree = false := by
  refine ⟨rfl, ?_, ?_, ?_, ?_, ?_, ?_⟩ <;> decide

/-- One call in progress. -/
inductive Thr where
  | start (t : RType)          -- called with argument `t`, nothing run yet
  | s0 (env : Env)             -- `indirectType` done
  | a1 (env : Env)             -- `Load` done
  | s1 (env : Env)             -- miss: `info` computed and normalized, not yet stored
  | a2 (env : Env)             -- `LoadOrStore` done (or skipped after a hit)
  | done (vals : List Val)     -- returned
  | bad (o : Out)              -- the piece did not end the way the next one needs (panic, stuck, …)
  deriving Repr

def frame0 (t : RType) : Env := [.rtype t] ++ List.replicate (getTypeInfoIR.nslots - getTypeInfoIR.nparams) .undef

/-- Run the next piece of a thread on the shared cache state and heap. -/
def stepThr (cc : CtxC) (K : CacheSt) (h : Heap) : Thr → CacheSt × Heap × Thr
  | .start t =>
    match execC cc pS0 K h (frame0 t) with
    | (K', .norm h' env') => (K', h', .s0 env')
    | (K', o) => (K', h, .bad o)
  | .s0 env =>
    match execC cc pA1 K h env with
    | (K', .norm h' env') => (K', h', .a1 env')
    | (K', o) => (K', h, .bad o)
  | .a1 env =>
    match eval cc.structs h env pIf.iteCond >>= asBool with
    | .ok true =>
      (match execC cc pS1 K h env with
       | (K', .norm h' env') => (K', h', .s1 env')
       | (K', .ret h' vals) => (K', h', .done vals)
       | (K', o) => (K', h, .bad o))
    | .ok false => (K, h, .a2 env)
    | .panic => (K, h, .bad .panic)
    | .stuck w => (K, h, .bad (.stuck w))
  | .s1 env =>
    match execC cc pA2 K h env with
    | (K', .norm h' env') => (K', h', .a2 env')
    | (K', o) => (K', h, .bad o)
  | .a2 env =>
    match execC cc pS2 K h env with
    | (K', .ret h' vals) => (K', h', .done vals)
    | (K', o) => (K', h, .bad o)
  | .done vals => (K, h, .done vals)
  | .bad o => (K, h, .bad o)

/-- What the caller of a finished thread gets. -/
def finish : CacheSt × Heap × Thr → Res (CacheSt × Heap × List Val)
  | (K, h, .done vals) => .ok (K, h, vals)
  | (K, _, .bad o) => procResultC (K, o)
  | _ => .stuck "call still in progress"

def stepN (cc : CtxC) : Nat → CacheSt × Heap × Thr → CacheSt × Heap × Thr
  | 0, s => s
  | n + 1, s => stepN cc n (stepThr cc s.1 s.2.1 s.2.2)

theorem execC_take_drop (c : CtxC) (n : Nat) : ∀ (s : Stmt) (k : CacheSt) (h : Heap) (env : Env),
    execC c s k h env = (execC c (s.take n) k h env).andThen (execC c (s.drop n)) := by
  induction n with
  | zero => intro s k h env; simp [Stmt.take, Stmt.drop, execC_skip]
  | succ n ih =>
    intro s k h env
    cases s with
    | seq a b =>
      simp only [Stmt.take, Stmt.drop, execC_seq]
      rcases hx : execC c a k h env with ⟨k', o⟩
      cases o <;> simp only [OutC.andThen]
      exact ih _ _ _ _
    | _ =>
      simp only [Stmt.take, Stmt.drop]
      rcases hx : execC c _ k h env with ⟨k', o⟩
      cases o <;> simp [OutC.andThen, execC_skip]

/-- The sequential interpretation of the body is the pieces in order. -/
theorem body_is_the_pieces (cc : CtxC) (K : CacheSt) (h : Heap) (env : Env) :
    execC cc getTypeInfoIR.body K h env =
      (execC cc pS0 K h env).andThen fun K h env =>
      (execC cc pA1 K h env).andThen fun K h env =>
      (bindC (eval cc.structs h env pIf.iteCond >>= asBool) K fun b =>
        if b then (execC cc pS1 K h env).andThen (execC cc pA2) else (K, .norm h env)).andThen (execC cc pS2) := by
  have hb : getTypeInfoIR.body = (pS0 ;; pA1 ;; pIf ;; pS2) := rfl
  have hif : pIf = .ite pIf.iteCond pIf.iteThen .skip := rfl
  rw [hb, execC_seq]
  congr 1; funext K h env
  rw [execC_seq]
  congr 1; funext K h env
  rw [execC_seq]
  congr 1
  rw [hif, execC_ite]
  congr 1; funext b
  cases b
  · simp [execC_skip]
  · simp only [if_true]
    exact execC_take_drop cc 4 _ K h env

theorem stepN_done (cc : CtxC) (n : Nat) (K : CacheSt) (h : Heap) (v : List Val) :
    stepN cc n (K, h, .done v) = (K, h, .done v) := by
  induction n with
  | zero => rfl
  | succ n ih => simp only [stepN, stepThr, ih]

theorem stepN_bad (cc : CtxC) (n : Nat) (K : CacheSt) (h : Heap) (o : Out) :
    stepN cc n (K, h, .bad o) = (K, h, .bad o) := by
  induction n with
  | zero => rfl
  | succ n ih => simp only [stepN, stepThr, ih]

theorem stepN_succ (cc : CtxC) (n : Nat) (K : CacheSt) (h : Heap) (th : Thr) :
    stepN cc (n + 1) (K, h, th) = stepN cc n (stepThr cc K h th) := rfl

set_option linter.unusedSimpArgs false in
/-- **The small-step system is the same program.**  Stepping one thread alone five times and handing the
result to the caller is exactly the sequential interpretation of the regenerated `getTypeInfo`. -/
theorem solo_run_is_the_call (cc : CtxC) (K : CacheSt) (h : Heap) (t : RType) :
    finish (stepN cc 5 (K, h, .start t)) = execProcC cc getTypeInfoIR K h [.rtype t] := by
  rw [execProcC_eq _ _ _ _ _ (by rfl), body_is_the_pieces]
  show finish (stepN cc 5 (K, h, .start t)) = procResultC ((execC cc pS0 K h (frame0 t)).andThen _)
  rw [stepN_succ]
  simp only [stepThr]
  rcases h0 : execC cc pS0 K h (frame0 t) with ⟨K0, o0⟩
  cases o0 <;> simp only [stepN_bad, finish, OutC.andThen]
  rename_i h0' env0
  rw [stepN_succ]
  simp only [stepThr]
  rcases h1 : execC cc pA1 K0 h0' env0 with ⟨K1, o1⟩
  cases o1 <;> simp only [stepN_bad, finish, OutC.andThen]
  rename_i h1' env1
  rw [stepN_succ]
  simp only [stepThr]
  cases hc : eval cc.structs h1' env1 pIf.iteCond >>= asBool with
  | panic => simp only [stepN_bad, finish, bindC, OutC.andThen]
  | stuck w => simp only [stepN_bad, finish, bindC, OutC.andThen]
  | ok b =>
    cases b with
    | false =>
      simp only [bindC, OutC.andThen, Bool.false_eq_true, if_false]
      rw [stepN_succ]
      simp only [stepThr]
      rcases h4 : execC cc pS2 K1 h1' env1 with ⟨K4, o4⟩
      cases o4 <;> simp only [stepN_bad, stepN_done, finish, procResultC]
    | true =>
      simp only [bindC, if_true]
      rcases h2 : execC cc pS1 K1 h1' env1 with ⟨K2, o2⟩
      cases o2 <;> simp only [stepN_bad, stepN_done, finish, procResultC, OutC.andThen]
      rename_i h2' env2
      rw [stepN_succ]
      simp only [stepThr]
      rcases h3 : execC cc pA2 K2 h2' env2 with ⟨K3, o3⟩
      cases o3 <;> simp only [stepN_bad, finish, OutC.andThen]
      rename_i h3' env3
      rw [stepN_succ]
      simp only [stepThr]
      rcases h4 : execC cc pS2 K3 h3' env3 with ⟨K4, o4⟩
      cases o4 <;> simp only [stepN_bad, stepN_done, finish, procResultC]

end GoCrypt.TIIR.Cache
