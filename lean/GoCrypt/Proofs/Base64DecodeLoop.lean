import GoCrypt.Proofs.Base64DecodeVerdict

/-!
# Decoder vs reference, part 3: `decodeQuantum`, the three loops of `Decode`, `DecodeString`

The model of `Decode` (8-symbol and 4-symbol fast paths, `decodeQuantum`, destination buffer of
`DecodedLen` bytes) against `Base64Ref.refDecode`, for every text.
-/

namespace GoCrypt.Base64LE
open GoCrypt.Gen.base64le GoCrypt.Spec.Base64Bits GoCrypt.Spec.Base64Ref

/-! ## Bytes of a quantum -/

theorem leBytes3 (w : Nat) :
    leBytes w 3 = [UInt8.ofNat (w % 256), UInt8.ofNat (w / 256 % 256), UInt8.ofNat (w / 65536 % 256)] := by
  simp [leBytes, List.range_succ]

/-- The three bytes the kernels produce for a full quantum are the little-endian regrouping. -/
theorem qbytes {d0 d1 d2 d3 : Nat} (h0 : d0 < 64) (h1 : d1 < 64) (h2 : d2 < 64) (h3 : d3 < 64) :
    [UInt8.ofNat (decodeQuantum_out0 (decodeQuantum_val d0 d1 d2 d3)),
     UInt8.ofNat (decodeQuantum_out1 (decodeQuantum_val d0 d1 d2 d3)),
     UInt8.ofNat (decodeQuantum_out2 (decodeQuantum_val d0 d1 d2 d3))] =
    leBytes (leValue [d0, d1, d2, d3]) 3 := by
  rw [out0_val h0 h1 h2 h3, out1_val h0 h1 h2 h3, out2_val h0 h1 h2 h3, leBytes3]
  simp only [leValue]
  congr 1
  · congr 1; omega
  · congr 1
    · congr 1; omega
    · congr 1; congr 1; omega

theorem regroup_two (d0 d1 : Nat) : regroup [d0, d1] = [UInt8.ofNat ((d0 + 64 * d1) % 256)] := by
  simp [regroup, leBytes, leValue]

theorem regroup_three (d0 d1 d2 : Nat) :
    regroup [d0, d1, d2] = [UInt8.ofNat ((d0 + 64 * (d1 + 64 * d2)) % 256),
      UInt8.ofNat ((d0 + 64 * (d1 + 64 * d2)) / 256 % 256)] := by
  simp [regroup, leBytes, leValue, List.range_succ]

theorem unusedBits_two {d0 d1 : Nat} (h0 : d0 < 64) : unusedBits [d0, d1] = d1 / 4 := by
  simp [unusedBits, lastPartial, leValue]; omega

theorem unusedBits_three {d0 d1 d2 : Nat} (h0 : d0 < 64) (h1 : d1 < 64) :
    unusedBits [d0, d1, d2] = d2 / 16 := by
  simp [unusedBits, lastPartial, leValue]; omega

/-! ## Results -/

/-- What `Decode` reports: the bytes `dst[:n]`, or the offset of the error. -/
def resultOf (r : DRes) : Except Nat Bytes :=
  match r.err with
  | none => .ok (r.dst.toList.take r.n)
  | some off => .error off

theorem map_prepend (R : Except Nat Bytes) (a b : Bytes) :
    (R.map (b ++ ·)).map (a ++ ·) = R.map ((a ++ b) ++ ·) := by
  cases R <;> simp [Except.map]

/-! ## The reference over a full quantum -/

theorem refDecodeSig_cons4 {e : Encoding} (wf : WellFormed e) (len : Nat) (x0 x1 x2 x3 : UInt8 × Nat)
    (sg : List (UInt8 × Nat))
    (h0 : e.dec x0.1 ≠ 255) (h1 : e.dec x1.1 ≠ 255) (h2 : e.dec x2.1 ≠ 255) (h3 : e.dec x3.1 ≠ 255) :
    refDecodeSig e len (x0 :: x1 :: x2 :: x3 :: sg) =
      (refDecodeSig e len sg).map (leBytes (leValue [e.dec x0.1, e.dec x1.1, e.dec x2.1, e.dec x3.1]) 3 ++ ·) := by
  have s0 := (isSymbol_iff wf x0.1).2 h0
  have s1 := (isSymbol_iff wf x1.1).2 h1
  have s2 := (isSymbol_iff wf x2.1).2 h2
  have s3 := (isSymbol_iff wf x3.1).2 h3
  unfold refDecodeSig
  simp only [List.takeWhile_cons, List.dropWhile_cons, s0, s1, s2, s3, if_true, List.map_cons,
    symbolValue_eq wf s0, symbolValue_eq wf s1, symbolValue_eq wf s2, symbolValue_eq wf s3]
  exact verdict_cons4 e len _ _ _ _ _ _

/-- A list either starts with four elements satisfying `p`, or its leading `p`-run is shorter. -/
theorem run4_or_short {α : Type} (p : α → Bool) (l : List α) :
    (∃ x0 x1 x2 x3 l', l = x0 :: x1 :: x2 :: x3 :: l' ∧ p x0 = true ∧ p x1 = true ∧ p x2 = true ∧ p x3 = true) ∨
    (l.takeWhile p).length < 4 := by
  match l with
  | [] => right; simp
  | x0 :: l1 =>
    by_cases h0 : p x0 = true
    · match l1 with
      | [] => right; simp [h0]
      | x1 :: l2 =>
        by_cases h1 : p x1 = true
        · match l2 with
          | [] => right; simp [h0, h1]
          | x2 :: l3 =>
            by_cases h2 : p x2 = true
            · match l3 with
              | [] => right; simp [h0, h1, h2]
              | x3 :: l4 =>
                by_cases h3 : p x3 = true
                · left; exact ⟨x0, x1, x2, x3, l4, rfl, h0, h1, h2, h3⟩
                · right; simp [h0, h1, h2, h3]
            · right; simp [h0, h1, h2]
        · right; simp [h0, h1]
    · right; simp [h0]

theorem mem_takeWhile_sat {α : Type} (p : α → Bool) (l : List α) (x : α) (h : x ∈ l.takeWhile p) :
    p x = true := by
  induction l with
  | nil => simp at h
  | cons a l ih =>
    simp only [List.takeWhile_cons] at h
    split at h
    · rcases List.mem_cons.1 h with rfl | h'
      · assumption
      · exact ih h'
    · simp at h

theorem dropWhile_head_not {α : Type} (p : α → Bool) (l : List α) (a : α) (l' : List α)
    (h : l.dropWhile p = a :: l') : p a = false := by
  induction l with
  | nil => simp at h
  | cons b l ih =>
    simp only [List.dropWhile_cons] at h
    split at h
    · exact ih h
    · next hb =>
      simp only [List.cons.injEq] at h
      rw [← h.1]; simpa using hb

/-! ## `decodeQuantum` on a full quantum -/


theorem full_quantum {e : Encoding} (wf : WellFormed e) (text : Bytes) (si : Nat) (hsi : si ≤ text.length)
    (x0 x1 x2 x3 : UInt8 × Nat) (sg : List (UInt8 × Nat))
    (hsg : sigAt text si = x0 :: x1 :: x2 :: x3 :: sg)
    (h0 : e.dec x0.1 ≠ 255) (h1 : e.dec x1.1 ≠ 255) (h2 : e.dec x2.1 ≠ 255) (h3 : e.dec x3.1 ≠ 255)
    (pre t : List UInt8) (ht : 3 ≤ t.length) :
    decodeQuantum e (pre ++ t).toArray pre.length text.toArray si =
      some ⟨x3.2 + 1, 3, none,
        ((pre ++ leBytes (leValue [e.dec x0.1, e.dec x1.1, e.dec x2.1, e.dec x3.1]) 3) ++ t.drop 3).toArray⟩ := by
  have hcol : collect e text.toArray si 0 [] =
      .inr (x3.2 + 1, 4, [e.dec x3.1, e.dec x2.1, e.dec x1.1, e.dec x0.1], none) := by
    rw [collect_eq_collectS wf text _ si 0 [] (by omega) hsi hsg]
    obtain ⟨c0, i0⟩ := x0; obtain ⟨c1, i1⟩ := x1; obtain ⟨c2, i2⟩ := x2; obtain ⟨c3, i3⟩ := x3
    simp only at h0 h1 h2 h3
    simp [collectS, h0, h1, h2, h3]
  match t, ht with
  | t0 :: t1 :: t2 :: t', _ =>
    rw [dq_of_collect4 e _ _ _ _ _ _ _ _ _ hcol (by simp <;> omega)]
    rw [← qbytes (dec_lt wf h0) (dec_lt wf h1) (dec_lt wf h2) (dec_lt wf h3)]
    simp only [sIB_append, sIB_append0]
    simp

/-- Positions of a full quantum read from `si`. -/
theorem full_quantum_pos {text : Bytes} {si : Nat} {x0 x1 x2 x3 : UInt8 × Nat} {sg : List (UInt8 × Nat)}
    (hsg : sigAt text si = x0 :: x1 :: x2 :: x3 :: sg) :
    si + 3 ≤ x3.2 ∧ x3.2 < text.length ∧ sigAt text (x3.2 + 1) = sg := by
  obtain ⟨c0, i0⟩ := x0; obtain ⟨c1, i1⟩ := x1; obtain ⟨c2, i2⟩ := x2; obtain ⟨c3, i3⟩ := x3
  obtain ⟨a0, _, _, _, n0, _⟩ := sigAt_cons _ si (Nat.le_refl _) hsg
  obtain ⟨a1, _, _, _, n1, _⟩ := sigAt_cons _ (i0 + 1) (Nat.le_refl _) n0
  obtain ⟨a2, _, _, _, n2, _⟩ := sigAt_cons _ (i1 + 1) (Nat.le_refl _) n1
  obtain ⟨a3, b3, _, _, n3, _⟩ := sigAt_cons _ (i2 + 1) (Nat.le_refl _) n2
  exact ⟨by simp only; omega, b3, n3⟩

/-! ## `decodeQuantum` on an incomplete final quantum -/

theorem dq_inl (e : Encoding) (dst src : Array UInt8) (n si si' : Nat) (err : Option Nat)
    (hcol : collect e src si 0 [] = .inl (si', err)) :
    decodeQuantum e dst n src si = some ⟨si', 0, err, dst⟩ := by
  unfold decodeQuantum; rw [hcol]

theorem dq_two (e : Encoding) (pre t : List UInt8) (src : Array UInt8) (si si' d0 d1 : Nat) (err : Option Nat)
    (hcol : collect e src si 0 [] = .inr (si', 2, [d1, d0], err))
    (l0 : d0 < 64) (l1 : d1 < 64) (ht : 1 ≤ t.length) :
    decodeQuantum e (pre ++ t).toArray pre.length src si =
      some (if e.strict = true ∧ d1 / 4 ≠ 0
        then ⟨si', 0, some (si' - 2), (pre ++ t.set 0 (UInt8.ofNat ((d0 + 64 * d1) % 256))).toArray⟩
        else ⟨si', 1, err, (pre ++ t.set 0 (UInt8.ofNat ((d0 + 64 * d1) % 256))).toArray⟩) := by
  have o0 := out0_val l0 l1 (show 0 < 64 by omega) (show 0 < 64 by omega)
  have o1 := out1_val l0 l1 (show 0 < 64 by omega) (show 0 < 64 by omega)
  have o2 := out2_val l0 l1 (show 0 < 64 by omega) (show 0 < 64 by omega)
  simp only [Nat.zero_mod, Nat.zero_mul, Nat.add_zero, Nat.zero_div] at o1 o2
  have hb : d0 + d1 % 4 * 64 = (d0 + 64 * d1) % 256 := by omega
  have hn : pre.length < (pre ++ t).toArray.size := by simp; omega
  rw [← sIB_append0, ← hb, ← o0]
  unfold decodeQuantum
  rw [hcol]
  simp [setChk, o1, o2]
  have : 0 < t.length := by omega
  simp [this]
  split <;> rfl

theorem dq_three (e : Encoding) (pre t : List UInt8) (src : Array UInt8) (si si' d0 d1 d2 : Nat)
    (err : Option Nat)
    (hcol : collect e src si 0 [] = .inr (si', 3, [d2, d1, d0], err))
    (l0 : d0 < 64) (l1 : d1 < 64) (l2 : d2 < 64) (ht : 2 ≤ t.length) :
    ∃ dst', decodeQuantum e (pre ++ t).toArray pre.length src si =
      some (if e.strict = true ∧ d2 / 16 ≠ 0
        then ⟨si', 0, some (si' - 1), dst'⟩
        else ⟨si', 2, err, dst'⟩) ∧
      dst'.toList.take pre.length = pre ∧
      (¬ (e.strict = true ∧ d2 / 16 ≠ 0) → dst'.toList.take (pre.length + 2) =
        pre ++ [UInt8.ofNat ((d0 + 64 * (d1 + 64 * d2)) % 256),
                UInt8.ofNat ((d0 + 64 * (d1 + 64 * d2)) / 256 % 256)]) := by
  have o0 := out0_val l0 l1 l2 (show 0 < 64 by omega)
  have o1 := out1_val l0 l1 l2 (show 0 < 64 by omega)
  have o2 := out2_val l0 l1 l2 (show 0 < 64 by omega)
  simp only [Nat.zero_mul, Nat.add_zero] at o2
  have hb0 : d0 + d1 % 4 * 64 = (d0 + 64 * (d1 + 64 * d2)) % 256 := by omega
  have hb1 : d1 / 4 + d2 % 16 * 16 = (d0 + 64 * (d1 + 64 * d2)) / 256 % 256 := by omega
  match t, ht with
  | t0 :: t1 :: t', _ =>
    by_cases hs : e.strict = true ∧ d2 / 16 ≠ 0
    · refine ⟨(pre ++ (t0 :: t1 :: t').set 1 (UInt8.ofNat (decodeQuantum_out1 (decodeQuantum_val d0 d1 d2 0)))).toArray,
        ?_, by simp, fun h => absurd hs h⟩
      rw [← sIB_append]
      unfold decodeQuantum
      rw [hcol]
      simp [setChk, o2, hs]
    · refine ⟨(pre ++ [UInt8.ofNat ((d0 + 64 * (d1 + 64 * d2)) % 256),
          UInt8.ofNat ((d0 + 64 * (d1 + 64 * d2)) / 256 % 256)] ++ t').toArray, ?_, by simp,
          fun _ => by simp [List.take_length_add_append]⟩
      rw [← hb0, ← hb1, ← o0, ← o1]
      unfold decodeQuantum
      rw [hcol]
      simp only [if_neg hs]
      simp [setChk, o2]
      intro a; simp only [a, true_and] at hs; omega

/-- The quantum read at `si` when fewer than four symbols are ahead: `decodeQuantum` succeeds (no
out-of-range store), and either reports the reference's error offset, or consumes the rest of the
text and appends the reference's bytes. -/
theorem final_quantum {e : Encoding} (wf : WellFormed e) (text : Bytes) (si : Nat) (hsi : si ≤ text.length)
    (hshort : ((sigAt text si).takeWhile fun x => isSymbol e x.1).length < 4)
    (pre t : List UInt8) (hpre : pre.length % 3 = 0) (hpos : pre.length / 3 * 4 ≤ si)
    (hcap : pre.length + t.length = decodedLen e text.length) :
    ∃ q, decodeQuantum e (pre ++ t).toArray pre.length text.toArray si = some q ∧
      match q.err with
      | some off => refDecodeSig e text.length (sigAt text si) = .error off
      | none => q.si = text.length ∧ ∃ bytes, refDecodeSig e text.length (sigAt text si) = .ok bytes ∧
          q.dst.toList.take (pre.length + q.n) = pre ++ bytes := by
  generalize hsg : sigAt text si = sg at hshort
  -- split the significant bytes into the symbol run and the rest
  generalize hS : (sg.takeWhile fun x => isSymbol e x.1) = S at hshort
  generalize hT : (sg.dropWhile fun x => isSymbol e x.1) = T
  have hST : sg = S ++ T := by rw [← hS, ← hT]; exact (List.takeWhile_append_dropWhile).symm
  have hSsym : ∀ x ∈ S, isSymbol e x.1 = true := by
    intro x hx; rw [← hS] at hx; exact mem_takeWhile_sat (fun x : UInt8 × Nat => isSymbol e x.1) _ _ hx
  have hThead : ∀ c i T', T = (c, i) :: T' → e.dec c = 255 := by
    intro c i T' h
    have : ¬ isSymbol e c = true := by
      have := dropWhile_head_not (fun x : UInt8 × Nat => isSymbol e x.1) sg (c, i) T' (by rw [hT, h])
      simpa using this
    exact Classical.byContradiction fun hne => this ((isSymbol_iff wf c).2 hne)
  have hTlen : ∀ x ∈ T, x.2 < text.length := by
    intro x hx
    have hmem : x ∈ sigAt text si := by rw [hsg, hST]; exact List.mem_append_right _ hx
    unfold sigAt at hmem
    rw [← zipIdx_filter_eq_sigFrom] at hmem
    have := (List.mem_filter.1 hmem).1
    obtain ⟨a, b⟩ := x
    have := List.mem_zipIdx this
    simp only at this ⊢
    have h2 := this.2.1
    simp only [List.length_drop] at h2
    omega
  -- digits
  generalize hD : (S.map fun x => e.dec x.1) = D
  have hDlen : D.length = S.length := by rw [← hD]; simp
  have hDlt : ∀ d ∈ D, d < 64 := by
    intro d hd
    rw [← hD] at hd
    obtain ⟨x, hx, rfl⟩ := List.mem_map.1 hd
    exact dec_lt wf ((isSymbol_iff wf x.1).1 (hSsym x hx))
  have hDval : (S.map fun x => symbolValue e x.1) = D := by
    rw [← hD]
    apply List.map_congr_left
    intro x hx; exact symbolValue_eq wf (hSsym x hx)
  have href : refDecodeSig e text.length sg = verdict e text.length D T := by
    unfold refDecodeSig; rw [hS, hT, hDval]
  have hcol : collect e text.toArray si 0 [] = collectS e text.length T D.length D.reverse := by
    rw [collect_eq_collectS wf text sg si 0 [] (by omega) hsi hsg,
      collectS_run wf text.length sg 0 [] (by rw [hS]; omega), hS, hT, hD]
    simp [hDlen]
  have hsglen : sg.length + si ≤ text.length := by rw [← hsg]; exact sigAt_length text si hsi
  have hsgST : sg.length = D.length + T.length := by rw [hST, hDlen]; simp
  obtain ⟨tailL, tailR⟩ := collectS_tail e text.length T D hThead hTlen (by omega)
  rw [href]
  rcases hres : collectS e text.length T D.length D.reverse with ⟨si', err⟩ | ⟨si', dlen, dbuf, err⟩
  · -- early return
    have h := tailL si' err hres
    refine ⟨⟨si', 0, err, (pre ++ t).toArray⟩, dq_inl e _ _ _ _ _ _ (by rw [hcol, hres]), ?_⟩
    cases err with
    | none => simp only at h ⊢; exact ⟨h.1, [], h.2, by simp⟩
    | some off => exact h
  · -- two or three digits collected
    obtain ⟨hdlen, hk, hdbuf, hroom, hend, hver⟩ := tailR si' dlen dbuf err hres
    subst hdlen hdbuf
    rw [hver]
    have hcapN : (e.pad = none → pre.length + t.length = text.length * 6 / 8) ∧
        (e.pad ≠ none → pre.length + t.length = text.length / 4 * 3) := by
      rw [hcap]; unfold decodedLen; rw [DecodedLen_eq]
      cases e.pad <;> simp
    rcases hk with hk | hk
    · -- two digits
      obtain ⟨d0, d1, rfl⟩ : ∃ d0 d1, D = [d0, d1] := by
        match D, hk with
        | [d0, d1], _ => exact ⟨d0, d1, rfl⟩
      · have l0 : d0 < 64 := hDlt d0 (by simp)
        have l1 : d1 < 64 := hDlt d1 (by simp)
        have ht : 1 ≤ t.length := by
          simp only [List.length_cons, List.length_nil] at hsgST hroom
          rcases hroom with hp | h4
          · have := hcapN.1 hp; omega
          · by_cases hp : e.pad = none
            · have := hcapN.1 hp; omega
            · have := hcapN.2 hp; omega
        have hq := dq_two e pre t text.toArray si si' d0 d1 err (by rw [hcol, hres]; rfl) l0 l1 ht
        rw [checkUnused_len2, unusedBits_two l0]
        by_cases hs : e.strict = true ∧ d1 / 4 ≠ 0
        · rw [if_pos hs] at hq ⊢
          exact ⟨_, hq, rfl⟩
        · rw [if_neg hs] at hq ⊢
          refine ⟨_, hq, ?_⟩
          cases err with
          | none =>
            refine ⟨hend rfl, _, rfl, ?_⟩
            rw [regroup_two]
            match t, ht with
            | t0 :: t', _ => simp [List.take_length_add_append]
          | some off => rfl
    · -- three digits
      obtain ⟨d0, d1, d2, rfl⟩ : ∃ d0 d1 d2, D = [d0, d1, d2] := by
        match D, hk with
        | [d0, d1, d2], _ => exact ⟨d0, d1, d2, rfl⟩
      · have l0 : d0 < 64 := hDlt d0 (by simp)
        have l1 : d1 < 64 := hDlt d1 (by simp)
        have l2 : d2 < 64 := hDlt d2 (by simp)
        have ht : 2 ≤ t.length := by
          simp only [List.length_cons, List.length_nil] at hsgST hroom
          rcases hroom with hp | h4
          · have := hcapN.1 hp; omega
          · by_cases hp : e.pad = none
            · have := hcapN.1 hp; omega
            · have := hcapN.2 hp; omega
        obtain ⟨dst', hq, htake0, htake2⟩ :=
          dq_three e pre t text.toArray si si' d0 d1 d2 err (by rw [hcol, hres]; rfl) l0 l1 l2 ht
        rw [checkUnused_len3, unusedBits_three l0 l1]
        by_cases hs : e.strict = true ∧ d2 / 16 ≠ 0
        · rw [if_pos hs] at hq ⊢
          exact ⟨_, hq, rfl⟩
        · rw [if_neg hs] at hq ⊢
          refine ⟨_, hq, ?_⟩
          cases err with
          | none =>
            refine ⟨hend rfl, _, rfl, ?_⟩
            rw [regroup_three]
            exact htake2 hs
          | some off => rfl

/-! ## One iteration of `Decode` -/

theorem sigAt_symbol {e : Encoding} (wf : WellFormed e) (text : Bytes) (si : Nat) (h : si < text.length)
    (hd : e.dec (text.getD si 0) ≠ 255) :
    sigAt text si = (text.getD si 0, si) :: sigAt text (si + 1) := by
  have hg : text.getD si 0 = text[si] := by simp [List.getD_eq_getElem?_getD, h]
  rw [sigAt_step text si h, hg]
  rw [hg] at hd
  have : isNewline text[si] = false := by
    cases hnl : isNewline text[si]
    · rfl
    · exact absurd (dec_newline wf hnl) hd
  rw [this]; rfl

theorem loop_stop (e : Encoding) (src : Array UInt8) (phase si n : Nat) (dst : Array UInt8) (r : DRes)
    (h : si < src.size) (hs : decodeStep e src phase si n dst = .inl r) :
    decodeLoop e src phase si n dst = r := by
  rw [decodeLoop]; simp [h, hs]

/-- The invariant of `Decode`'s loops at a quantum boundary: `pre` is what has been decoded (whole
quanta), it was read from at least `4/3` as many bytes, and the buffer has `DecodedLen` bytes. -/
structure LoopInv (e : Encoding) (text : Bytes) (si : Nat) (pre t : List UInt8) : Prop where
  si_le : si ≤ text.length
  whole : pre.length % 3 = 0
  pos : pre.length / 3 * 4 ≤ si
  cap : pre.length + t.length = decodedLen e text.length

/-- One iteration of `Decode` at a quantum boundary, against the reference. -/
theorem decodeStep_ref {e : Encoding} (wf : WellFormed e) (text : Bytes) (si phase : Nat)
    (pre t : List UInt8) (hlt : si < text.length) (inv : LoopInv e text si pre t) :
    (∃ ph' si' n' dst' q t',
      decodeStep e text.toArray phase si pre.length (pre ++ t).toArray = .inr (ph', si', n', dst') ∧
      n' = (pre ++ q).length ∧ dst' = ((pre ++ q) ++ t').toArray ∧ si < si' ∧
      LoopInv e text si' (pre ++ q) t' ∧
      refDecodeSig e text.length (sigAt text si) =
        (refDecodeSig e text.length (sigAt text si')).map (q ++ ·)) ∨
    (∃ r, decodeStep e text.toArray phase si pre.length (pre ++ t).toArray = .inl r ∧ r.panic = false ∧
      resultOf r = (refDecodeSig e text.length (sigAt text si)).map (pre ++ ·)) ∨
    (∃ ph' n' dst',
      decodeStep e text.toArray phase si pre.length (pre ++ t).toArray = .inr (ph', text.length, n', dst') ∧
      resultOf ⟨n', none, dst', false⟩ = (refDecodeSig e text.length (sigAt text si)).map (pre ++ ·)) := by
  obtain ⟨hsi, hpre, hpos, hcap⟩ := inv
  have hcapN : (e.pad = none → pre.length + t.length = text.length * 6 / 8) ∧
      (e.pad ≠ none → pre.length + t.length = text.length / 4 * 3) := by
    rw [hcap]; unfold decodedLen; rw [DecodedLen_eq]
    cases e.pad <;> simp
  have hcap_le : ∀ k, si + k ≤ text.length → k ≤ 4 → (k = 4 → pre.length + 3 ≤ pre.length + t.length) := by
    intro k hk _ hk4
    by_cases hp : e.pad = none
    · have := hcapN.1 hp; omega
    · have := hcapN.2 hp; omega
  rcases decodeStep_cases e text.toArray phase si pre.length (pre ++ t).toArray with
    ⟨_, hsz, hdz, hflag, heq⟩ | ⟨hsz, hdz, hflag, heq⟩ | ⟨ph, heq⟩
  · -- 8-symbol fast path
    left
    simp only [toArray_getD] at hflag heq
    simp only [List.size_toArray, List.length_append] at hsz hdz
    have hfl := (assemble64_flag (dec_isDigit wf (text.getD si 0)) (dec_isDigit wf (text.getD (si+1) 0))
      (dec_isDigit wf (text.getD (si+2) 0)) (dec_isDigit wf (text.getD (si+3) 0))
      (dec_isDigit wf (text.getD (si+4) 0)) (dec_isDigit wf (text.getD (si+5) 0))
      (dec_isDigit wf (text.getD (si+6) 0)) (dec_isDigit wf (text.getD (si+7) 0)))
    rw [hflag] at hfl
    simp only [Bool.true_eq_false, false_iff, not_or] at hfl
    obtain ⟨n0, n1, n2, n3, n4, n5, n6, n7⟩ := hfl
    have l0 := dec_lt wf n0; have l1 := dec_lt wf n1; have l2 := dec_lt wf n2; have l3 := dec_lt wf n3
    have l4 := dec_lt wf n4; have l5 := dec_lt wf n5; have l6 := dec_lt wf n6; have l7 := dec_lt wf n7
    have hs : sigAt text si = (text.getD si 0, si) :: (text.getD (si+1) 0, si+1) :: (text.getD (si+2) 0, si+2) ::
        (text.getD (si+3) 0, si+3) :: (text.getD (si+4) 0, si+4) :: (text.getD (si+5) 0, si+5) ::
        (text.getD (si+6) 0, si+6) :: (text.getD (si+7) 0, si+7) :: sigAt text (si + 8) := by
      rw [sigAt_symbol wf text si (by omega) n0, sigAt_symbol wf text (si+1) (by omega) n1,
        sigAt_symbol wf text (si+2) (by omega) n2, sigAt_symbol wf text (si+3) (by omega) n3,
        sigAt_symbol wf text (si+4) (by omega) n4, sigAt_symbol wf text (si+5) (by omega) n5,
        sigAt_symbol wf text (si+6) (by omega) n6, sigAt_symbol wf text (si+7) (by omega) n7]
    refine ⟨0, si + 8, pre.length + 6, _,
      leBytes (leValue [e.dec (text.getD si 0), e.dec (text.getD (si+1) 0), e.dec (text.getD (si+2) 0),
        e.dec (text.getD (si+3) 0)]) 3 ++
      leBytes (leValue [e.dec (text.getD (si+4) 0), e.dec (text.getD (si+5) 0), e.dec (text.getD (si+6) 0),
        e.dec (text.getD (si+7) 0)]) 3, 0 :: 0 :: t.drop 8, heq, ?_, ?_, by omega, ?_, ?_⟩
    · simp [leBytes3]
    · rw [assemble64_val l0 l1 l2 l3 l4 l5 l6 l7, be8 _ _ (val_lt l4 l5 l6 l7),
        writeAt_append _ _ _ (by simp; omega)]
      rw [← qbytes l0 l1 l2 l3, ← qbytes l4 l5 l6 l7]
      simp
    · refine ⟨by omega, ?_, ?_, ?_⟩
      · simp [leBytes3]; omega
      · simp [leBytes3]; omega
      · simp [leBytes3]; omega
    · rw [hs, refDecodeSig_cons4 wf _ _ _ _ _ _ n0 n1 n2 n3, refDecodeSig_cons4 wf _ _ _ _ _ _ n4 n5 n6 n7,
        map_prepend]
  · -- 4-symbol fast path
    left
    simp only [toArray_getD] at hflag heq
    simp only [List.size_toArray, List.length_append] at hsz hdz
    have hfl := (assemble32_flag (dec_isDigit wf (text.getD si 0)) (dec_isDigit wf (text.getD (si+1) 0))
      (dec_isDigit wf (text.getD (si+2) 0)) (dec_isDigit wf (text.getD (si+3) 0)))
    rw [hflag] at hfl
    simp only [Bool.true_eq_false, false_iff, not_or] at hfl
    obtain ⟨n0, n1, n2, n3⟩ := hfl
    have l0 := dec_lt wf n0; have l1 := dec_lt wf n1; have l2 := dec_lt wf n2; have l3 := dec_lt wf n3
    have hs : sigAt text si = (text.getD si 0, si) :: (text.getD (si+1) 0, si+1) :: (text.getD (si+2) 0, si+2) ::
        (text.getD (si+3) 0, si+3) :: sigAt text (si + 4) := by
      rw [sigAt_symbol wf text si (by omega) n0, sigAt_symbol wf text (si+1) (by omega) n1,
        sigAt_symbol wf text (si+2) (by omega) n2, sigAt_symbol wf text (si+3) (by omega) n3]
    refine ⟨1, si + 4, pre.length + 3, _,
      leBytes (leValue [e.dec (text.getD si 0), e.dec (text.getD (si+1) 0), e.dec (text.getD (si+2) 0),
        e.dec (text.getD (si+3) 0)]) 3, 0 :: t.drop 4, heq, ?_, ?_, by omega, ?_, ?_⟩
    · simp [leBytes3]
    · rw [assemble32_val l0 l1 l2 l3, be4, writeAt_append _ _ _ (by simp; omega)]
      rw [← qbytes l0 l1 l2 l3]
      simp
    · refine ⟨by omega, ?_, ?_, ?_⟩
      · simp [leBytes3]; omega
      · simp [leBytes3]; omega
      · simp [leBytes3]; omega
    · rw [hs, refDecodeSig_cons4 wf _ _ _ _ _ _ n0 n1 n2 n3]
  · -- through `decodeQuantum`
    rw [heq, viaQ]
    rcases run4_or_short (fun x : UInt8 × Nat => isSymbol e x.1) (sigAt text si) with
      ⟨x0, x1, x2, x3, sg, hsg, s0, s1, s2, s3⟩ | hshort
    · -- a full quantum
      left
      have n0 := (isSymbol_iff wf x0.1).1 s0
      have n1 := (isSymbol_iff wf x1.1).1 s1
      have n2 := (isSymbol_iff wf x2.1).1 s2
      have n3 := (isSymbol_iff wf x3.1).1 s3
      obtain ⟨hp3, hl3, hnext⟩ := full_quantum_pos hsg
      have ht : 3 ≤ t.length := by have := hcap_le 4 (by omega) (by omega) rfl; omega
      rw [full_quantum wf text si hsi x0 x1 x2 x3 sg hsg n0 n1 n2 n3 pre t ht]
      refine ⟨ph, x3.2 + 1, pre.length + 3, _,
        leBytes (leValue [e.dec x0.1, e.dec x1.1, e.dec x2.1, e.dec x3.1]) 3, t.drop 3, rfl, ?_, rfl,
        by omega, ?_, ?_⟩
      · simp [leBytes3]
      · refine ⟨by omega, ?_, ?_, ?_⟩
        · simp [leBytes3]; omega
        · simp [leBytes3]; omega
        · simp [leBytes3]; omega
      · rw [hsg, hnext, refDecodeSig_cons4 wf _ _ _ _ _ _ n0 n1 n2 n3]
    · -- the final, incomplete quantum
      right
      obtain ⟨q, hq, hspec⟩ := final_quantum wf text si hsi hshort pre t hpre hpos hcap
      rw [hq]
      cases herr : q.err with
      | some off =>
        left
        rw [herr] at hspec
        simp only at hspec
        exact ⟨⟨pre.length + q.n, some off, q.dst, false⟩, by simp only [herr], rfl, by rw [hspec]; rfl⟩
      | none =>
        right
        rw [herr] at hspec
        obtain ⟨hqsi, bytes, href, htake⟩ := hspec
        refine ⟨ph, pre.length + q.n, q.dst, by simp only [herr, hqsi], ?_⟩
        rw [href]
        simp only [resultOf, htake]
        rfl

/-! ## The loops -/

theorem decodeLoop_ref {e : Encoding} (wf : WellFormed e) (text : Bytes) :
    ∀ (m si phase : Nat) (pre t : List UInt8), text.length - si ≤ m → LoopInv e text si pre t →
      (decodeLoop e text.toArray phase si pre.length (pre ++ t).toArray).panic = false ∧
      resultOf (decodeLoop e text.toArray phase si pre.length (pre ++ t).toArray) =
        (refDecodeSig e text.length (sigAt text si)).map (pre ++ ·) := by
  intro m
  induction m using Nat.strongRecOn with
  | _ m ih =>
    intro si phase pre t hm inv
    by_cases hlt : si < text.length
    · rcases decodeStep_ref wf text si phase pre t hlt inv with
        ⟨ph', si', n', dst', q, t', hs, hn', hdst', hlt', inv', href⟩ | ⟨r, hs, hpanic, hres⟩ |
        ⟨ph', n', dst', hs, hres⟩
      · rw [loop_step _ _ _ _ _ _ _ _ _ _ (by simpa using hlt) hs hlt', hn', hdst']
        have := ih (text.length - si') (by omega) si' ph' (pre ++ q) t' (Nat.le_refl _) inv'
        rw [href, map_prepend]
        exact this
      · rw [loop_stop _ _ _ _ _ _ _ (by simpa using hlt) hs]
        exact ⟨hpanic, hres⟩
      · rw [loop_step _ _ _ _ _ _ _ _ _ _ (by simpa using hlt) hs hlt,
          loop_end _ _ _ _ _ _ (by simp)]
        exact ⟨rfl, hres⟩
    · have hsi := inv.si_le
      rw [loop_end _ _ _ _ _ _ (by simp; omega), sigAt_of_ge text si (by omega)]
      refine ⟨rfl, ?_⟩
      simp [resultOf, refDecodeSig, verdict, regroup, leBytes, leValue, Except.map]

/-! ## `Decode` and `DecodeString` -/

/-- `DecodeString` as a result: the bytes when there is no error, the error offset otherwise. -/
def decodeResult (e : Encoding) (text : Bytes) : Except Nat Bytes :=
  match decodeString e text with
  | (b, none) => .ok b
  | (_, some off) => .error off

theorem decodeString_eq (e : Encoding) (text : Bytes) :
    decodeString e text =
      ((decode e (decodedLen e text.length) text).dst.toList.take (decode e (decodedLen e text.length) text).n,
       (decode e (decodedLen e text.length) text).err) := rfl

theorem decodeResult_eq (e : Encoding) (text : Bytes) :
    decodeResult e text = resultOf (decode e (decodedLen e text.length) text) := by
  unfold decodeResult resultOf
  rw [decodeString_eq]
  cases (decode e (decodedLen e text.length) text).err <;> rfl

theorem decode_ref {e : Encoding} (wf : WellFormed e) (text : Bytes) :
    (decode e (decodedLen e text.length) text).panic = false ∧
    resultOf (decode e (decodedLen e text.length) text) = refDecode e text := by
  unfold decode
  by_cases ht : text = []
  · subst ht
    simp [resultOf, refDecode, significant, refDecodeSig, verdict, regroup, leBytes, leValue]
  · simp only [ht, if_false]
    have inv : LoopInv e text 0 [] (List.replicate (decodedLen e text.length) 0) :=
      ⟨Nat.zero_le _, rfl, Nat.le_refl _, by simp⟩
    have := decodeLoop_ref wf text text.length 0 0 [] _ (by omega) inv
    simp only [List.nil_append, List.length_nil, List.toArray_replicate] at this
    rw [sigAt_zero] at this
    refine ⟨this.1, ?_⟩
    rw [this.2]
    unfold refDecode
    cases refDecodeSig e text.length (significant text) <;> rfl

end GoCrypt.Base64LE
