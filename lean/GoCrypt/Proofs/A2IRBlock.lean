import GoCrypt.Proofs.A2IRBlockBlamka
import GoCrypt.Proofs.Argon2Eq.Block

/-!
# Block IR, step 2b: `processBlockGeneric`, `processBlock`, `processBlockXOR` as regenerated = the model's `Argon2.processBlock`
-/

namespace GoCrypt.A2IR
open GoCrypt.Gen.argon2IR GoCrypt.Kdf

/-! ## the model's loops as folds -/

def xorFill (in1 in2 : Block) (k : Nat) : Block :=
  List.foldl (fun b a => Array.set! b a (in1[a]! ^^^ in2[a]!)) Argon2.zeroBlock (List.range' 0 k)

def rowsStep (b : Block) (a : Nat) : Block :=
  Argon2.blamka b (16 * a + 0) (16 * a + 1) (16 * a + 2) (16 * a + 3) (16 * a + 4) (16 * a + 5) (16 * a + 6) (16 * a + 7)
    (16 * a + 8) (16 * a + 9) (16 * a + 10) (16 * a + 11) (16 * a + 12) (16 * a + 13) (16 * a + 14) (16 * a + 15)

def colsStep (b : Block) (a : Nat) : Block :=
  Argon2.blamka b (2 * a) (2 * a + 1) (16 + 2 * a) (16 + 2 * a + 1) (32 + 2 * a) (32 + 2 * a + 1) (48 + 2 * a) (48 + 2 * a + 1)
    (64 + 2 * a) (64 + 2 * a + 1) (80 + 2 * a) (80 + 2 * a + 1) (96 + 2 * a) (96 + 2 * a + 1) (112 + 2 * a) (112 + 2 * a + 1)

def rowsFold (t : Block) (k : Nat) : Block := List.foldl rowsStep t (List.range' 0 k)
def colsFold (t : Block) (k : Nat) : Block := List.foldl colsStep t (List.range' 0 k)

def outStep (xor : Bool) (in1 in2 t : Block) (b : Block) (a : Nat) : Block :=
  if xor then Array.set! b a (b[a]! ^^^ (in1[a]! ^^^ in2[a]! ^^^ t[a]!)) else Array.set! b a (in1[a]! ^^^ in2[a]! ^^^ t[a]!)

def outFold (xor : Bool) (in1 in2 t out : Block) (k : Nat) : Block :=
  List.foldl (outStep xor in1 in2 t) out (List.range' 0 k)

theorem processBlock_unfold (out in1 in2 : Block) (xor : Bool) :
    Argon2.processBlock out in1 in2 xor =
      outFold xor in1 in2 (colsFold (rowsFold (xorFill in1 in2 128) 8) 8) out 128 := by
  unfold Argon2.processBlock
  simp only [Std.Legacy.Range.forIn_eq_forIn_range', List.forIn_pure_yield_eq_foldl]
  have s128 : [:Argon2.blockLength].size = 128 := by decide
  have s8 : [:Argon2.blockLength / 16].size = 8 := by decide
  rw [s128, s8]
  simp only [pure_bind]
  cases xor
  · simp only [Bool.false_eq_true, if_false, Id.run_pure]
    rfl
  · simp only [if_true, Id.run_pure]
    rfl

theorem foldl_range'_succ {β} (f : β → Nat → β) (b : β) (k : Nat) :
    List.foldl f b (List.range' 0 (k + 1)) = f (List.foldl f b (List.range' 0 k)) k := by
  rw [List.range'_concat, List.foldl_append]
  simp

theorem xorFill_succ (in1 in2 : Block) (k : Nat) :
    xorFill in1 in2 (k + 1) = (xorFill in1 in2 k).set! k (in1[k]! ^^^ in2[k]!) := foldl_range'_succ _ _ _
theorem rowsFold_succ (t : Block) (k : Nat) : rowsFold t (k + 1) = rowsStep (rowsFold t k) k := foldl_range'_succ _ _ _
theorem colsFold_succ (t : Block) (k : Nat) : colsFold t (k + 1) = colsStep (colsFold t k) k := foldl_range'_succ _ _ _
theorem outFold_succ (xor : Bool) (in1 in2 t out : Block) (k : Nat) :
    outFold xor in1 in2 t out (k + 1) = outStep xor in1 in2 t (outFold xor in1 in2 t out k) k := foldl_range'_succ _ _ _

theorem xorFill_size (in1 in2 : Block) (k : Nat) : (xorFill in1 in2 k).size = 128 := by
  induction k with
  | zero => rfl
  | succ k ih => rw [xorFill_succ, arr_size_set!, ih]

theorem blamka_size (t : Block) (i00 i01 i02 i03 i04 i05 i06 i07 i08 i09 i10 i11 i12 i13 i14 i15 : Nat) :
    (Argon2.blamka t i00 i01 i02 i03 i04 i05 i06 i07 i08 i09 i10 i11 i12 i13 i14 i15).size = t.size := by
  rw [blamka_unfold]
  simp only [arr_size_set!]

theorem rowsFold_size (t : Block) (k : Nat) : (rowsFold t k).size = t.size := by
  induction k with
  | zero => rfl
  | succ k ih => rw [rowsFold_succ, rowsStep, blamka_size, ih]

theorem colsFold_size (t : Block) (k : Nat) : (colsFold t k).size = t.size := by
  induction k with
  | zero => rfl
  | succ k ih => rw [colsFold_succ, colsStep, blamka_size, ih]

theorem outStep_size (xor : Bool) (in1 in2 t b : Block) (a : Nat) : (outStep xor in1 in2 t b a).size = b.size := by
  cases xor <;> simp only [outStep, Bool.false_eq_true, if_false, if_true, arr_size_set!]

theorem outFold_size (xor : Bool) (in1 in2 t out : Block) (k : Nat) : (outFold xor in1 in2 t out k).size = out.size := by
  induction k with
  | zero => rfl
  | succ k ih => rw [outFold_succ, outStep_size, ih]

/-- the final loop has not touched the words from `k` on -/
theorem outFold_get_ge (xor : Bool) (in1 in2 t out : Block) (k i : Nat) (hi : k ≤ i) :
    (outFold xor in1 in2 t out k)[i]! = out[i]! := by
  induction k with
  | zero => rfl
  | succ k ih =>
    rw [outFold_succ]
    have := ih (by omega)
    cases xor <;> simp only [outStep, Bool.false_eq_true, if_false, if_true] <;>
      rw [arr_get!_set!_ne _ _ _ _ (by omega)] <;> exact this


/-! ## heap access in the frame of `processBlockGeneric` -/

/-- reading the local block `t` -/
theorem readWord_top {h : Heap} {n : Nat} (T : Block) (k : Nat) (hn : n = h.stk.length) (hT : T.size = 128) (hk : k < 128) :
    readWord (h.push [.blocks #[T]]) (.stk n) 0 k = .ok (.u64 T[k]!) := by
  subst hn
  exact readWord_of_get (a := #[T]) (Heap.get_push_top0 h _) (by simp) (show (#[T] : Array Block)[0]!.size = 128 from hT) hk

/-- writing the local block `t` -/
theorem storeWord_top {h : Heap} {n : Nat} (T : Block) (k : Nat) (w : UInt64) (hn : n = h.stk.length) (hT : T.size = 128)
    (hk : k < 128) :
    storeWord (h.push [.blocks #[T]]) (.stk n) 0 k w = .ok (h.push [.blocks #[T.set! k w]]) := by
  subst hn
  rw [storeWord_of_get (a := #[T]) w (Heap.get_push_top0 h _) (by simp) (show (#[T] : Array Block)[0]!.size = 128 from hT) hk,
    Heap.set_push_top0]
  rfl

/-- reading through a pointer of the caller while `t` is allocated -/
theorem readWord_push {h : Heap} {r : Ref} {a : Array Block} {i : Nat} (os : List Obj) (k : Nat)
    (hg : h.get r = some (.blocks a)) (hi : i < a.size) (hs : a[i]!.size = 128) (hk : k < 128) :
    readWord (h.push os) r i k = .ok (.u64 a[i]![k]!) :=
  readWord_of_get (by rw [Heap.get_push_of_in _ _ _ (Ref.inH_of_get hg)]; exact hg) hi hs hk

/-- `blamkaGeneric` on the local block `t` -/
theorem blamka_top {c : Ctx} (hb : BlamkaSpec c) {h : Heap} {n : Nat} (T : Block) (hn : n = h.stk.length) (hT : T.size = 128)
    (i00 i01 i02 i03 i04 i05 i06 i07 i08 i09 i10 i11 i12 i13 i14 i15 : Nat)
    (h00 : i00 < 128) (h01 : i01 < 128) (h02 : i02 < 128) (h03 : i03 < 128) (h04 : i04 < 128) (h05 : i05 < 128)
    (h06 : i06 < 128) (h07 : i07 < 128) (h08 : i08 < 128) (h09 : i09 < 128) (h10 : i10 < 128) (h11 : i11 < 128)
    (h12 : i12 < 128) (h13 : i13 < 128) (h14 : i14 < 128) (h15 : i15 < 128) :
    c.call "blamkaGeneric" (h.push [.blocks #[T]])
      [.pword (.stk n) 0 i00, .pword (.stk n) 0 i01, .pword (.stk n) 0 i02, .pword (.stk n) 0 i03,
       .pword (.stk n) 0 i04, .pword (.stk n) 0 i05, .pword (.stk n) 0 i06, .pword (.stk n) 0 i07,
       .pword (.stk n) 0 i08, .pword (.stk n) 0 i09, .pword (.stk n) 0 i10, .pword (.stk n) 0 i11,
       .pword (.stk n) 0 i12, .pword (.stk n) 0 i13, .pword (.stk n) 0 i14, .pword (.stk n) 0 i15] =
      .ok (h.push [.blocks #[Argon2.blamka T i00 i01 i02 i03 i04 i05 i06 i07 i08 i09 i10 i11 i12 i13 i14 i15]], []) := by
  subst hn
  rw [hb (h.push [.blocks #[T]]) (.stk h.stk.length) 0 #[T] i00 i01 i02 i03 i04 i05 i06 i07 i08 i09 i10 i11 i12 i13 i14 i15
    (Heap.get_push_top0 h _) (by simp) (show (#[T] : Array Block)[0]!.size = 128 from hT) h00 h01 h02 h03 h04 h05 h06 h07 h08 h09 h10 h11 h12 h13 h14 h15,
    Heap.set_push_top0]
  rfl

/-! ## the frame -/

/-- The frame of `processBlockGeneric` after `var t block`. -/
abbrev GEnv (po p1 p2 : Val) (xor : Bool) (n : Nat) (s5 s6 s7 s8 s9 : Val) : Env :=
  [po, p1, p2, .bool xor, .pblk (.stk n) 0, s5, s6, s7, s8, s9]

/-- loop counter: unset before the first iteration -/
def cnt : Nat → Val
  | 0 => .undef
  | k + 1 => .int k

/-! ## `for i := range t { t[i] = in1[i] ^ in2[i] }` -/

section
variable (c : Ctx) (h : Heap) (ro r1 r2 : Ref) (io i1 i2 : Nat) (a1 a2 : Array Block) (xor : Bool)
  (hg1 : h.get r1 = some (.blocks a1)) (hg2 : h.get r2 = some (.blocks a2)) (hi1 : i1 < a1.size) (hi2 : i2 < a2.size)
  (hs1 : a1[i1]!.size = 128) (hs2 : a2[i2]!.size = 128)
include hg1 hg2 hi1 hi2 hs1 hs2

theorem pbg_fill_step (k : Nat) (hk : k < 128) (T : Block) (hT : T.size = 128) (s5 s6 s7 s8 s9 : Val) :
    (bindR (setSlot (GEnv (.pblk ro io) (.pblk r1 i1) (.pblk r2 i2) xor h.stk.length s5 s6 s7 s8 s9) 5 (.int k)) fun env' =>
      exec c (.assign [.word (.var 4) (.var 5)] [(.bin .xor (.word (.var 1) (.var 5)) (.word (.var 2) (.var 5)))])
        (h.push [.blocks #[T]]) env') =
    .norm (h.push [.blocks #[T.set! k (a1[i1]![k]! ^^^ a2[i2]![k]!)]])
      (GEnv (.pblk ro io) (.pblk r1 i1) (.pblk r2 i2) xor h.stk.length (.int k) s6 s7 s8 s9) := by
  have e1 := readWord_push [.blocks #[T]] k hg1 hi1 hs1 hk
  have e2 := readWord_push [.blocks #[T]] k hg2 hi2 hs2 hk
  have e3 := fun w => storeWord_top (h := h) T k w rfl hT hk
  simp only [GEnv]
  a2_simp [asIdx_nat, e1, e2, e3]

theorem pbg_fill (s6 s7 s8 s9 : Val) :
    exec c (.forN 5 128 (.assign [.word (.var 4) (.var 5)] [(.bin .xor (.word (.var 1) (.var 5)) (.word (.var 2) (.var 5)))]))
      (h.push [.blocks #[zeroBlock]]) (GEnv (.pblk ro io) (.pblk r1 i1) (.pblk r2 i2) xor h.stk.length .undef s6 s7 s8 s9) =
    .norm (h.push [.blocks #[xorFill a1[i1]! a2[i2]! 128]])
      (GEnv (.pblk ro io) (.pblk r1 i1) (.pblk r2 i2) xor h.stk.length (.int (127 : Nat)) s6 s7 s8 s9) := by
  rw [exec_forN]
  exact rangeLoop_count
    (fun i h env => bindR (setSlot env 5 (.int i)) fun env' =>
      exec c (.assign [.word (.var 4) (.var 5)] [(.bin .xor (.word (.var 1) (.var 5)) (.word (.var 2) (.var 5)))]) h env')
    (fun k => (h.push [.blocks #[xorFill a1[i1]! a2[i2]! k]],
      GEnv (.pblk ro io) (.pblk r1 i1) (.pblk r2 i2) xor h.stk.length (cnt k) s6 s7 s8 s9)) 0 128 0
    (by
      intro k _ hk
      simp only [Nat.zero_add]
      rw [pbg_fill_step c h ro r1 r2 io i1 i2 a1 a2 xor hg1 hg2 hi1 hi2 hs1 hs2 k (by omega) _
        (xorFill_size a1[i1]! a2[i2]! k) _ s6 s7 s8 s9, xorFill_succ]
      rfl)
end


/-! ## the two `blamkaGeneric` loops -/

def rowsCall : Stmt := .call [] "blamkaGeneric" [(.addrWord (.var 4) (.bin .add (.var 6) (.int 0))), (.addrWord (.var 4) (.bin .add (.var 6) (.int 1))), (.addrWord (.var 4) (.bin .add (.var 6) (.int 2))), (.addrWord (.var 4) (.bin .add (.var 6) (.int 3))), (.addrWord (.var 4) (.bin .add (.var 6) (.int 4))), (.addrWord (.var 4) (.bin .add (.var 6) (.int 5))), (.addrWord (.var 4) (.bin .add (.var 6) (.int 6))), (.addrWord (.var 4) (.bin .add (.var 6) (.int 7))), (.addrWord (.var 4) (.bin .add (.var 6) (.int 8))), (.addrWord (.var 4) (.bin .add (.var 6) (.int 9))), (.addrWord (.var 4) (.bin .add (.var 6) (.int 10))), (.addrWord (.var 4) (.bin .add (.var 6) (.int 11))), (.addrWord (.var 4) (.bin .add (.var 6) (.int 12))), (.addrWord (.var 4) (.bin .add (.var 6) (.int 13))), (.addrWord (.var 4) (.bin .add (.var 6) (.int 14))), (.addrWord (.var 4) (.bin .add (.var 6) (.int 15)))]
def colsCall : Stmt := .call [] "blamkaGeneric" [(.addrWord (.var 4) (.var 7)), (.addrWord (.var 4) (.bin .add (.var 7) (.int 1))), (.addrWord (.var 4) (.bin .add (.int 16) (.var 7))), (.addrWord (.var 4) (.bin .add (.bin .add (.int 16) (.var 7)) (.int 1))), (.addrWord (.var 4) (.bin .add (.int 32) (.var 7))), (.addrWord (.var 4) (.bin .add (.bin .add (.int 32) (.var 7)) (.int 1))), (.addrWord (.var 4) (.bin .add (.int 48) (.var 7))), (.addrWord (.var 4) (.bin .add (.bin .add (.int 48) (.var 7)) (.int 1))), (.addrWord (.var 4) (.bin .add (.int 64) (.var 7))), (.addrWord (.var 4) (.bin .add (.bin .add (.int 64) (.var 7)) (.int 1))), (.addrWord (.var 4) (.bin .add (.int 80) (.var 7))), (.addrWord (.var 4) (.bin .add (.bin .add (.int 80) (.var 7)) (.int 1))), (.addrWord (.var 4) (.bin .add (.int 96) (.var 7))), (.addrWord (.var 4) (.bin .add (.bin .add (.int 96) (.var 7)) (.int 1))), (.addrWord (.var 4) (.bin .add (.int 112) (.var 7))), (.addrWord (.var 4) (.bin .add (.bin .add (.int 112) (.var 7)) (.int 1)))]

section
variable (c : Ctx) (hb : BlamkaSpec c) (h : Heap) (po p1 p2 : Val) (xor : Bool)
include hb

theorem pbg_rows_step (k : Nat) (hk : k < 8) (T : Block) (hT : T.size = 128) (s5 s7 s8 s9 : Val) :
    exec c rowsCall (h.push [.blocks #[T]]) (GEnv po p1 p2 xor h.stk.length s5 (.int ((16 * k : Nat) : Int)) s7 s8 s9) =
    .norm (h.push [.blocks #[rowsStep T k]]) (GEnv po p1 p2 xor h.stk.length s5 (.int ((16 * k : Nat) : Int)) s7 s8 s9) := by
  have e := blamka_top hb (h := h) T rfl hT
  simp only [rowsCall, GEnv]
  a2_simp [natCast_add_ofNat, wrapS64_natCast, asIdx_nat, e]
  rfl

theorem pbg_cols_step (k : Nat) (hk : k < 8) (T : Block) (hT : T.size = 128) (s5 s6 s8 s9 : Val) :
    exec c colsCall (h.push [.blocks #[T]]) (GEnv po p1 p2 xor h.stk.length s5 s6 (.int ((2 * k : Nat) : Int)) s8 s9) =
    .norm (h.push [.blocks #[colsStep T k]]) (GEnv po p1 p2 xor h.stk.length s5 s6 (.int ((2 * k : Nat) : Int)) s8 s9) := by
  have e := blamka_top hb (h := h) T rfl hT
  simp only [colsCall, GEnv]
  a2_simp [natCast_add_ofNat, ofNat_add_natCast, wrapS64_natCast, asIdx_nat, e]
  rfl

theorem pbg_rows (T : Block) (hT : T.size = 128) (s5 s7 s8 s9 : Val) :
    exec c (.for_ (.int 128) (.bin .lt (.var 6) (.int 128)) (.assign [.var 6] [(.bin .add (.var 6) (.int 16))]) rowsCall)
      (h.push [.blocks #[T]]) (GEnv po p1 p2 xor h.stk.length s5 (.int 0) s7 s8 s9) =
    .norm (h.push [.blocks #[rowsFold T 8]]) (GEnv po p1 p2 xor h.stk.length s5 (.int 128) s7 s8 s9) := by
  rw [exec_for]
  have hf : (eval (h.push [.blocks #[T]]) (GEnv po p1 p2 xor h.stk.length s5 (.int 0) s7 s8 s9) (.int 128) >>= asIdx) = .ok 128 := by
    a2_simp [asIdx_lit]
  rw [hf, bindR_ok]
  exact loop_count _ _
    (fun k => (h.push [.blocks #[rowsFold T k]], GEnv po p1 p2 xor h.stk.length s5 (.int ((16 * k : Nat) : Int)) s7 s8 s9)) 8
    (by
      intro k hk
      have : decide (((16 * k : Nat) : Int) < 128) = true := by simp; omega
      simp only [GEnv]
      a2_simp [this])
    (by
      simp only [GEnv]
      a2_simp
      rfl)
    (by
      intro k hk
      simp only []
      rw [pbg_rows_step c hb h po p1 p2 xor k hk _ (by rw [rowsFold_size]; exact hT), andThen_norm, rowsFold_succ]
      simp only [GEnv]
      a2_simp [natCast_add_ofNat, wrapS64_natCast]
      rw [show 16 * (k + 1) = 16 * k + 16 by omega])
    128 0 (by omega) (by omega)

theorem pbg_cols (T : Block) (hT : T.size = 128) (s5 s6 s8 s9 : Val) :
    exec c (.for_ (.int 16) (.bin .lt (.var 7) (.int 16)) (.assign [.var 7] [(.bin .add (.var 7) (.int 2))]) colsCall)
      (h.push [.blocks #[T]]) (GEnv po p1 p2 xor h.stk.length s5 s6 (.int 0) s8 s9) =
    .norm (h.push [.blocks #[colsFold T 8]]) (GEnv po p1 p2 xor h.stk.length s5 s6 (.int 16) s8 s9) := by
  rw [exec_for]
  have hf : (eval (h.push [.blocks #[T]]) (GEnv po p1 p2 xor h.stk.length s5 s6 (.int 0) s8 s9) (.int 16) >>= asIdx) = .ok 16 := by
    a2_simp [asIdx_lit]
  rw [hf, bindR_ok]
  exact loop_count _ _
    (fun k => (h.push [.blocks #[colsFold T k]], GEnv po p1 p2 xor h.stk.length s5 s6 (.int ((2 * k : Nat) : Int)) s8 s9)) 8
    (by
      intro k hk
      have : decide (((2 * k : Nat) : Int) < 16) = true := by simp; omega
      simp only [GEnv]
      a2_simp [this])
    (by
      simp only [GEnv]
      a2_simp
      rfl)
    (by
      intro k hk
      simp only []
      rw [pbg_cols_step c hb h po p1 p2 xor k hk _ (by rw [colsFold_size]; exact hT), andThen_norm, colsFold_succ]
      simp only [GEnv]
      a2_simp [natCast_add_ofNat, wrapS64_natCast]
      rw [show 2 * (k + 1) = 2 * k + 2 by omega])
    16 0 (by omega) (by omega)

end


/-! ## the final loop: `out[i] (^)= in1[i] ^ in2[i] ^ t[i]`, where `out` may be `in1` or `in2` -/

def outXorStmt : Stmt :=
  .assign [.word (.var 0) (.var 8)] [(.bin .xor (.word (.var 0) (.var 8)) (.bin .xor (.bin .xor (.word (.var 1) (.var 8)) (.word (.var 2) (.var 8))) (.word (.var 4) (.var 8))))]
def outSetStmt : Stmt :=
  .assign [.word (.var 0) (.var 9)] [(.bin .xor (.bin .xor (.word (.var 1) (.var 9)) (.word (.var 2) (.var 9))) (.word (.var 4) (.var 9)))]

/-- The heap during the final loop: `X` is the current contents of `*out`, `T` the local block. -/
def HX (h : Heap) (ro : Ref) (io : Nat) (ao : Array Block) (T X : Block) : Heap :=
  (h.set ro (.blocks (ao.set! io X))).push [.blocks #[T]]

section
variable (h : Heap) (ro : Ref) (io : Nat) (ao : Array Block) (T : Block)
  (hgo : h.get ro = some (.blocks ao)) (hio : io < ao.size)
include hgo hio

theorem HX_init : h.push [.blocks #[T]] = HX h ro io ao T ao[io]! := by
  rw [HX, arr_set!_get!_self ao io hio, Heap.set_get_self h ro _ hgo]

omit hgo hio in
theorem HX_pop (X : Block) : (HX h ro io ao T X).popTo h.stk.length = h.set ro (.blocks (ao.set! io X)) :=
  Heap.popTo_push _ _ _ (Heap.stk_length_set h ro _).symm

omit hio in
theorem HX_get_out (X : Block) : (HX h ro io ao T X).get ro = some (.blocks (ao.set! io X)) := by
  have hr := Ref.inH_of_get hgo
  rw [HX, Heap.get_push_of_in _ _ _ ((Ref.inH_set ro ro h _).mpr hr), Heap.get_set_self _ _ _ hr]

theorem HX_read_out (X : Block) (hX : X.size = 128) (k : Nat) (hk : k < 128) :
    readWord (HX h ro io ao T X) ro io k = .ok (.u64 X[k]!) := by
  have := readWord_of_get (k := k) (HX_get_out h ro io ao T hgo X) (by rw [arr_size_set!]; exact hio)
    (by rw [arr_get!_set!_self _ _ _ hio]; exact hX) hk
  rw [arr_get!_set!_self _ _ _ hio] at this
  exact this

omit hgo hio in
theorem HX_read_t (X : Block) (hT : T.size = 128) (k : Nat) (hk : k < 128) :
    readWord (HX h ro io ao T X) (.stk h.stk.length) 0 k = .ok (.u64 T[k]!) :=
  readWord_top T k (Heap.stk_length_set h ro _).symm hT hk

theorem HX_store_out (X : Block) (hX : X.size = 128) (k : Nat) (hk : k < 128) (w : UInt64) :
    storeWord (HX h ro io ao T X) ro io k w = .ok (HX h ro io ao T (X.set! k w)) := by
  have hr := Ref.inH_of_get hgo
  rw [storeWord_of_get w (HX_get_out h ro io ao T hgo X) (by rw [arr_size_set!]; exact hio)
    (by rw [arr_get!_set!_self _ _ _ hio]; exact hX) hk]
  rw [arr_get!_set!_self _ _ _ hio, arr_set!_set!, HX, HX,
    Heap.set_push_of_in _ _ _ _ ((Ref.inH_set ro ro h _).mpr hr), Heap.set_set]

/-- Reading through `in1`/`in2`, which may be the pointer `out`: the word has not been overwritten yet. -/
theorem HX_read_in (X : Block) (hX : X.size = 128) (r1 : Ref) (i1 : Nat) (a1 : Array Block)
    (hg1 : h.get r1 = some (.blocks a1)) (hi1 : i1 < a1.size) (hs1 : a1[i1]!.size = 128) (k : Nat) (hk : k < 128)
    (hal : r1 = ro → i1 = io → X[k]! = a1[i1]![k]!) :
    readWord (HX h ro io ao T X) r1 i1 k = .ok (.u64 a1[i1]![k]!) := by
  by_cases er : r1 = ro
  · subst er
    have ea : a1 = ao := by
      have := hg1.symm.trans hgo
      injection this with this
      injection this
    subst ea
    by_cases ei : i1 = io
    · subst ei
      rw [HX_read_out h r1 i1 a1 T hgo hio X hX k hk, hal rfl rfl]
    · have := readWord_of_get (k := k) (HX_get_out h r1 io a1 T hgo X) (i := i1) (by rw [arr_size_set!]; exact hi1)
        (by rw [arr_get!_set!_ne _ _ _ _ (Ne.symm ei)]; exact hs1) hk
      rw [arr_get!_set!_ne _ _ _ _ (Ne.symm ei)] at this
      exact this
  · have hg : (HX h ro io ao T X).get r1 = some (.blocks a1) := by
      rw [HX, Heap.get_push_of_in _ _ _ ((Ref.inH_set r1 ro h _).mpr (Ref.inH_of_get hg1)),
        Heap.get_set_ne _ _ _ _ (Ne.symm er)]
      exact hg1
    exact readWord_of_get hg hi1 hs1 hk

end


/-! ## the final loop and the whole body -/

/-- aliasing: if `in` is the pointer `out`, the word `k` of `*out` is still the old one after `k` iterations -/
theorem pbg_alias (h : Heap) (ro : Ref) (io : Nat) (ao : Array Block) (hgo : h.get ro = some (.blocks ao))
    (xor : Bool) (in1 in2 T : Block) (r' : Ref) (i' : Nat) (a' : Array Block) (hg' : h.get r' = some (.blocks a')) (k : Nat) :
    r' = ro → i' = io → (outFold xor in1 in2 T ao[io]! k)[k]! = a'[i']![k]! := by
  intro er ei
  subst er ei
  have ea : a' = ao := by
    have := hg'.symm.trans hgo
    injection this with this
    injection this
  subst ea
  exact outFold_get_ge _ _ _ _ _ _ _ (Nat.le_refl _)

section
variable (c : Ctx) (h : Heap) (ro r1 r2 : Ref) (io i1 i2 : Nat) (ao a1 a2 : Array Block) (T : Block)
  (hgo : h.get ro = some (.blocks ao)) (hg1 : h.get r1 = some (.blocks a1)) (hg2 : h.get r2 = some (.blocks a2))
  (hio : io < ao.size) (hi1 : i1 < a1.size) (hi2 : i2 < a2.size)
  (hso : ao[io]!.size = 128) (hs1 : a1[i1]!.size = 128) (hs2 : a2[i2]!.size = 128) (hT : T.size = 128)
include hgo hg1 hg2 hio hi1 hi2 hs1 hs2 hT

theorem pbg_outXor_step (k : Nat) (hk : k < 128) (X : Block) (hX : X.size = 128)
    (hal1 : r1 = ro → i1 = io → X[k]! = a1[i1]![k]!) (hal2 : r2 = ro → i2 = io → X[k]! = a2[i2]![k]!)
    (xor : Bool) (s5 s6 s7 s8 s9 : Val) :
    (bindR (setSlot (GEnv (.pblk ro io) (.pblk r1 i1) (.pblk r2 i2) xor h.stk.length s5 s6 s7 s8 s9) 8 (.int k)) fun env' =>
      exec c outXorStmt (HX h ro io ao T X) env') =
    .norm (HX h ro io ao T (outStep true a1[i1]! a2[i2]! T X k))
      (GEnv (.pblk ro io) (.pblk r1 i1) (.pblk r2 i2) xor h.stk.length s5 s6 s7 (.int k) s9) := by
  have e0 := HX_read_out h ro io ao T hgo hio X hX k hk
  have e1 := HX_read_in h ro io ao T hgo hio X hX r1 i1 a1 hg1 hi1 hs1 k hk hal1
  have e2 := HX_read_in h ro io ao T hgo hio X hX r2 i2 a2 hg2 hi2 hs2 k hk hal2
  have e3 := HX_read_t h ro io ao T X hT k hk
  have e4 := HX_store_out h ro io ao T hgo hio X hX k hk
  simp only [GEnv, outXorStmt]
  a2_simp [asIdx_nat, e0, e1, e2, e3, e4]
  rfl

theorem pbg_outSet_step (k : Nat) (hk : k < 128) (X : Block) (hX : X.size = 128)
    (hal1 : r1 = ro → i1 = io → X[k]! = a1[i1]![k]!) (hal2 : r2 = ro → i2 = io → X[k]! = a2[i2]![k]!)
    (xor : Bool) (s5 s6 s7 s8 s9 : Val) :
    (bindR (setSlot (GEnv (.pblk ro io) (.pblk r1 i1) (.pblk r2 i2) xor h.stk.length s5 s6 s7 s8 s9) 9 (.int k)) fun env' =>
      exec c outSetStmt (HX h ro io ao T X) env') =
    .norm (HX h ro io ao T (outStep false a1[i1]! a2[i2]! T X k))
      (GEnv (.pblk ro io) (.pblk r1 i1) (.pblk r2 i2) xor h.stk.length s5 s6 s7 s8 (.int k)) := by
  have e1 := HX_read_in h ro io ao T hgo hio X hX r1 i1 a1 hg1 hi1 hs1 k hk hal1
  have e2 := HX_read_in h ro io ao T hgo hio X hX r2 i2 a2 hg2 hi2 hs2 k hk hal2
  have e3 := HX_read_t h ro io ao T X hT k hk
  have e4 := HX_store_out h ro io ao T hgo hio X hX k hk
  simp only [GEnv, outSetStmt]
  a2_simp [asIdx_nat, e1, e2, e3, e4]
  rfl

include hso

theorem pbg_outXor (xor : Bool) (s5 s6 s7 s9 : Val) :
    exec c (.forN 8 128 outXorStmt) (h.push [.blocks #[T]])
      (GEnv (.pblk ro io) (.pblk r1 i1) (.pblk r2 i2) xor h.stk.length s5 s6 s7 .undef s9) =
    .norm (HX h ro io ao T (outFold true a1[i1]! a2[i2]! T ao[io]! 128))
      (GEnv (.pblk ro io) (.pblk r1 i1) (.pblk r2 i2) xor h.stk.length s5 s6 s7 (.int (127 : Nat)) s9) := by
  rw [exec_forN, HX_init h ro io ao T hgo hio]
  exact rangeLoop_count
    (fun i h env => bindR (setSlot env 8 (.int i)) fun env' => exec c outXorStmt h env')
    (fun k => (HX h ro io ao T (outFold true a1[i1]! a2[i2]! T ao[io]! k),
      GEnv (.pblk ro io) (.pblk r1 i1) (.pblk r2 i2) xor h.stk.length s5 s6 s7 (cnt k) s9)) 0 128 0
    (by
      intro k _ hk
      simp only [Nat.zero_add]
      rw [pbg_outXor_step c h ro r1 r2 io i1 i2 ao a1 a2 T hgo hg1 hg2 hio hi1 hi2 hs1 hs2 hT k (by omega) _
        (by rw [outFold_size]; exact hso)
        (pbg_alias h ro io ao hgo true _ _ T r1 i1 a1 hg1 k)
        (pbg_alias h ro io ao hgo true _ _ T r2 i2 a2 hg2 k)
        xor s5 s6 s7 _ s9, outFold_succ]
      rfl)

theorem pbg_outSet (xor : Bool) (s5 s6 s7 s8 : Val) :
    exec c (.forN 9 128 outSetStmt) (h.push [.blocks #[T]])
      (GEnv (.pblk ro io) (.pblk r1 i1) (.pblk r2 i2) xor h.stk.length s5 s6 s7 s8 .undef) =
    .norm (HX h ro io ao T (outFold false a1[i1]! a2[i2]! T ao[io]! 128))
      (GEnv (.pblk ro io) (.pblk r1 i1) (.pblk r2 i2) xor h.stk.length s5 s6 s7 s8 (.int (127 : Nat))) := by
  rw [exec_forN, HX_init h ro io ao T hgo hio]
  exact rangeLoop_count
    (fun i h env => bindR (setSlot env 9 (.int i)) fun env' => exec c outSetStmt h env')
    (fun k => (HX h ro io ao T (outFold false a1[i1]! a2[i2]! T ao[io]! k),
      GEnv (.pblk ro io) (.pblk r1 i1) (.pblk r2 i2) xor h.stk.length s5 s6 s7 s8 (cnt k))) 0 128 0
    (by
      intro k _ hk
      simp only [Nat.zero_add]
      rw [pbg_outSet_step c h ro r1 r2 io i1 i2 ao a1 a2 T hgo hg1 hg2 hio hi1 hi2 hs1 hs2 hT k (by omega) _
        (by rw [outFold_size]; exact hso)
        (pbg_alias h ro io ao hgo false _ _ T r1 i1 a1 hg1 k)
        (pbg_alias h ro io ao hgo false _ _ T r2 i2 a2 hg2 k)
        xor s5 s6 s7 s8 _, outFold_succ]
      rfl)

end


/-! ## the body, the procedure, the callers -/

theorem pbg_body_eq : proc_processBlockGeneric.body =
    (.declBlock 4 ;;;
     .forN 5 128 (.assign [.word (.var 4) (.var 5)] [(.bin .xor (.word (.var 1) (.var 5)) (.word (.var 2) (.var 5)))]) ;;;
     .assign [.var 6] [(.int 0)] ;;;
     .for_ (.int 128) (.bin .lt (.var 6) (.int 128)) (.assign [.var 6] [(.bin .add (.var 6) (.int 16))]) rowsCall ;;;
     .assign [.var 7] [(.int 0)] ;;;
     .for_ (.int 16) (.bin .lt (.var 7) (.int 16)) (.assign [.var 7] [(.bin .add (.var 7) (.int 2))]) colsCall ;;;
     .ite (.var 3) (.forN 8 128 outXorStmt) (.forN 9 128 outSetStmt)) := id rfl

section
variable (c : Ctx) (hb : BlamkaSpec c) (h : Heap) (ro r1 r2 : Ref) (io i1 i2 : Nat) (ao a1 a2 : Array Block)
  (hgo : h.get ro = some (.blocks ao)) (hg1 : h.get r1 = some (.blocks a1)) (hg2 : h.get r2 = some (.blocks a2))
  (hio : io < ao.size) (hi1 : i1 < a1.size) (hi2 : i2 < a2.size)
  (hso : ao[io]!.size = 128) (hs1 : a1[i1]!.size = 128) (hs2 : a2[i2]!.size = 128)
include hb hgo hg1 hg2 hio hi1 hi2 hso hs1 hs2

theorem pbg_body (xor : Bool) :
    ∃ env', exec c proc_processBlockGeneric.body h
      ([.pblk ro io, .pblk r1 i1, .pblk r2 i2, .bool xor] ++ List.replicate 6 .undef) =
    .norm (HX h ro io ao (colsFold (rowsFold (xorFill a1[i1]! a2[i2]! 128) 8) 8)
      (Argon2.processBlock ao[io]! a1[i1]! a2[i2]! xor)) env' := by
  have hT1 := xorFill_size a1[i1]! a2[i2]! 128
  have hT2 : (rowsFold (xorFill a1[i1]! a2[i2]! 128) 8).size = 128 := by rw [rowsFold_size]; exact hT1
  have hT3 : (colsFold (rowsFold (xorFill a1[i1]! a2[i2]! 128) 8) 8).size = 128 := by rw [colsFold_size]; exact hT2
  have hd : exec c (.declBlock 4) h ([.pblk ro io, .pblk r1 i1, .pblk r2 i2, .bool xor] ++ List.replicate 6 .undef) =
      .norm (h.push [.blocks #[zeroBlock]])
        (GEnv (.pblk ro io) (.pblk r1 i1) (.pblk r2 i2) xor h.stk.length .undef .undef .undef .undef .undef) := by
    a2_simp
  have h6 : ∀ (H : Heap) (s5 s6 s7 s8 s9 : Val), exec c (.assign [.var 6] [(.int 0)]) H
      (GEnv (.pblk ro io) (.pblk r1 i1) (.pblk r2 i2) xor h.stk.length s5 s6 s7 s8 s9) =
      .norm H (GEnv (.pblk ro io) (.pblk r1 i1) (.pblk r2 i2) xor h.stk.length s5 (.int 0) s7 s8 s9) := by
    intro H s5 s6 s7 s8 s9
    simp only [GEnv]
    a2_simp
  have h7 : ∀ (H : Heap) (s5 s6 s7 s8 s9 : Val), exec c (.assign [.var 7] [(.int 0)]) H
      (GEnv (.pblk ro io) (.pblk r1 i1) (.pblk r2 i2) xor h.stk.length s5 s6 s7 s8 s9) =
      .norm H (GEnv (.pblk ro io) (.pblk r1 i1) (.pblk r2 i2) xor h.stk.length s5 s6 (.int 0) s8 s9) := by
    intro H s5 s6 s7 s8 s9
    simp only [GEnv]
    a2_simp
  have hite : ∀ (H : Heap) (A B : Stmt) (s5 s6 s7 s8 s9 : Val), exec c (.ite (.var 3) A B) H
      (GEnv (.pblk ro io) (.pblk r1 i1) (.pblk r2 i2) xor h.stk.length s5 s6 s7 s8 s9) =
      if xor then exec c A H (GEnv (.pblk ro io) (.pblk r1 i1) (.pblk r2 i2) xor h.stk.length s5 s6 s7 s8 s9)
      else exec c B H (GEnv (.pblk ro io) (.pblk r1 i1) (.pblk r2 i2) xor h.stk.length s5 s6 s7 s8 s9) := by
    intro H A B s5 s6 s7 s8 s9
    simp only [GEnv]
    a2_simp
  cases xor
  · apply Exists.intro
    rw [pbg_body_eq, exec_seq, hd, andThen_norm, exec_seq,
      pbg_fill c h ro r1 r2 io i1 i2 a1 a2 _ hg1 hg2 hi1 hi2 hs1 hs2, andThen_norm, exec_seq, h6, andThen_norm, exec_seq,
      pbg_rows c hb h _ _ _ _ _ hT1, andThen_norm, exec_seq, h7, andThen_norm, exec_seq,
      pbg_cols c hb h _ _ _ _ _ hT2, andThen_norm, hite, processBlock_unfold]
    rw [if_neg (by decide),
      pbg_outSet c h ro r1 r2 io i1 i2 ao a1 a2 _ hgo hg1 hg2 hio hi1 hi2 hso hs1 hs2 hT3]
  · apply Exists.intro
    rw [pbg_body_eq, exec_seq, hd, andThen_norm, exec_seq,
      pbg_fill c h ro r1 r2 io i1 i2 a1 a2 _ hg1 hg2 hi1 hi2 hs1 hs2, andThen_norm, exec_seq, h6, andThen_norm, exec_seq,
      pbg_rows c hb h _ _ _ _ _ hT1, andThen_norm, exec_seq, h7, andThen_norm, exec_seq,
      pbg_cols c hb h _ _ _ _ _ hT2, andThen_norm, hite, processBlock_unfold]
    rw [if_pos rfl,
      pbg_outXor c h ro r1 r2 io i1 i2 ao a1 a2 _ hgo hg1 hg2 hio hi1 hi2 hso hs1 hs2 hT3]

theorem pbg_proc (xor : Bool) :
    execProc c proc_processBlockGeneric h [.pblk ro io, .pblk r1 i1, .pblk r2 i2, .bool xor] =
      .ok (h.set ro (.blocks (ao.set! io (Argon2.processBlock ao[io]! a1[i1]! a2[i2]! xor))), []) := by
  rw [execProc_eq _ _ _ _ rfl]
  obtain ⟨env', he⟩ := pbg_body c hb h ro r1 r2 io i1 i2 ao a1 a2 hgo hg1 hg2 hio hi1 hi2 hso hs1 hs2 xor
  show procResult _ (exec c proc_processBlockGeneric.body h
      ([.pblk ro io, .pblk r1 i1, .pblk r2 i2, .bool xor] ++ List.replicate 6 .undef)) = _
  rw [he, procResult_norm, HX_pop]

end

/-- What a context must know about `processBlockGeneric`. -/
def ProcessBlockGenericSpec (c : Ctx) : Prop :=
  ∀ (h : Heap) (ro r1 r2 : Ref) (io i1 i2 : Nat) (ao a1 a2 : Array Block) (xor : Bool),
    h.get ro = some (.blocks ao) → h.get r1 = some (.blocks a1) → h.get r2 = some (.blocks a2) →
    io < ao.size → i1 < a1.size → i2 < a2.size →
    ao[io]!.size = 128 → a1[i1]!.size = 128 → a2[i2]!.size = 128 →
    c.call "processBlockGeneric" h [.pblk ro io, .pblk r1 i1, .pblk r2 i2, .bool xor] =
      .ok (h.set ro (.blocks (ao.set! io (Argon2.processBlock ao[io]! a1[i1]! a2[i2]! xor))), [])

theorem processBlockGenericSpec_ctxOf (H : Nat → Bytes → Bytes) (d : Nat) :
    ProcessBlockGenericSpec (ctxOf H program (d + 2)) := by
  intro h ro r1 r2 io i1 i2 ao a1 a2 xor hgo hg1 hg2 hio hi1 hi2 hso hs1 hs2
  rw [ctxOf_call, callIn_succ H program (d + 1) "processBlockGeneric" proc_processBlockGeneric rfl]
  exact pbg_proc _ (blamkaSpec_ctxOf H d) h ro r1 r2 io i1 i2 ao a1 a2 hgo hg1 hg2 hio hi1 hi2 hso hs1 hs2 xor

/-! ## `processBlock`, `processBlockXOR` -/

theorem processBlock_proc (c : Ctx) (hp : ProcessBlockGenericSpec c) (h : Heap) (ro r1 r2 : Ref) (io i1 i2 : Nat)
    (ao a1 a2 : Array Block)
    (hgo : h.get ro = some (.blocks ao)) (hg1 : h.get r1 = some (.blocks a1)) (hg2 : h.get r2 = some (.blocks a2))
    (hio : io < ao.size) (hi1 : i1 < a1.size) (hi2 : i2 < a2.size)
    (hso : ao[io]!.size = 128) (hs1 : a1[i1]!.size = 128) (hs2 : a2[i2]!.size = 128) :
    execProc c proc_processBlock h [.pblk ro io, .pblk r1 i1, .pblk r2 i2] =
      .ok (h.set ro (.blocks (ao.set! io (Argon2.processBlock ao[io]! a1[i1]! a2[i2]! false))), []) := by
  rw [execProc_eq _ _ _ _ rfl]
  show procResult _ (exec c (.call [] "processBlockGeneric" [(.var 0), (.var 1), (.var 2), (.bool false)]) h
    [.pblk ro io, .pblk r1 i1, .pblk r2 i2]) = _
  have e := hp h ro r1 r2 io i1 i2 ao a1 a2 false hgo hg1 hg2 hio hi1 hi2 hso hs1 hs2
  a2_simp [e]
  rw [procResult_norm, Heap.popTo_self _ _ (Heap.stk_length_set h ro _).symm]

theorem processBlockXOR_proc (c : Ctx) (hp : ProcessBlockGenericSpec c) (h : Heap) (ro r1 r2 : Ref) (io i1 i2 : Nat)
    (ao a1 a2 : Array Block)
    (hgo : h.get ro = some (.blocks ao)) (hg1 : h.get r1 = some (.blocks a1)) (hg2 : h.get r2 = some (.blocks a2))
    (hio : io < ao.size) (hi1 : i1 < a1.size) (hi2 : i2 < a2.size)
    (hso : ao[io]!.size = 128) (hs1 : a1[i1]!.size = 128) (hs2 : a2[i2]!.size = 128) :
    execProc c proc_processBlockXOR h [.pblk ro io, .pblk r1 i1, .pblk r2 i2] =
      .ok (h.set ro (.blocks (ao.set! io (Argon2.processBlock ao[io]! a1[i1]! a2[i2]! true))), []) := by
  rw [execProc_eq _ _ _ _ rfl]
  show procResult _ (exec c (.call [] "processBlockGeneric" [(.var 0), (.var 1), (.var 2), (.bool true)]) h
    [.pblk ro io, .pblk r1 i1, .pblk r2 i2]) = _
  have e := hp h ro r1 r2 io i1 i2 ao a1 a2 true hgo hg1 hg2 hio hi1 hi2 hso hs1 hs2
  a2_simp [e]
  rw [procResult_norm, Heap.popTo_self _ _ (Heap.stk_length_set h ro _).symm]

theorem processBlockSpec_ctxOf (H : Nat → Bytes → Bytes) (d : Nat) :
    ProcessBlockSpec (ctxOf H program (d + 3)) "processBlock" false := by
  intro h ro r1 r2 io i1 i2 ao a1 a2 hgo hg1 hg2 hio hi1 hi2 hso hs1 hs2
  rw [ctxOf_call, callIn_succ H program (d + 2) "processBlock" proc_processBlock rfl]
  exact processBlock_proc _ (processBlockGenericSpec_ctxOf H d) h ro r1 r2 io i1 i2 ao a1 a2 hgo hg1 hg2 hio hi1 hi2 hso hs1 hs2

theorem processBlockXORSpec_ctxOf (H : Nat → Bytes → Bytes) (d : Nat) :
    ProcessBlockSpec (ctxOf H program (d + 3)) "processBlockXOR" true := by
  intro h ro r1 r2 io i1 i2 ao a1 a2 hgo hg1 hg2 hio hi1 hi2 hso hs1 hs2
  rw [ctxOf_call, callIn_succ H program (d + 2) "processBlockXOR" proc_processBlockXOR rfl]
  exact processBlockXOR_proc _ (processBlockGenericSpec_ctxOf H d) h ro r1 r2 io i1 i2 ao a1 a2 hgo hg1 hg2 hio hi1 hi2 hso hs1 hs2

end GoCrypt.A2IR
