import GoCrypt.Spec.CryptSpecs2
import GoCrypt.Model.Kdf.Hashed
import GoCrypt.Proofs.Strconv
import GoCrypt.Proofs.Kdf

/-!
# sha1-crypt and Sun MD5: model = reference (helper lemmas for `Props/C03b`)
-/

namespace GoCrypt.C03bProofs
open GoCrypt.Kdf GoCrypt.CryptSpec2 GoCrypt

/-! ## `strconv.FormatUint(n, 10)` is `printf("%u")` -/

theorem digitChar_eq : ∀ d, d < 10 → UInt8.ofNat (Nat.digitChar d).toNat = Strconv.digitChar d := by decide

theorem decimal_eq_if (n : Nat) :
    decimal n = if n < 10 then [Strconv.digitChar n] else decimal (n / 10) ++ [Strconv.digitChar (n % 10)] := by
  unfold decimal
  rw [Nat.toDigits_eq_if (by decide : 1 < 10)]
  split
  · next h => simp [digitChar_eq n h]
  · simp [digitChar_eq (n % 10) (Nat.mod_lt _ (by decide))]

theorem digitsRev_decimal : ∀ fuel n, n < fuel →
    (Strconv.digitsRev 10 fuel n).reverse = if n = 0 then [] else decimal n := by
  intro fuel
  induction fuel with
  | zero => intro n h; omega
  | succ fuel ih =>
    intro n h
    by_cases hn : n = 0
    · simp [hn, Strconv.digitsRev]
    · rw [Strconv.digitsRev_reverse_succ 10 fuel n hn, if_neg hn, ih (n / 10) (by omega), decimal_eq_if n]
      by_cases h10 : n < 10
      · have : n / 10 = 0 := by omega
        have h' : n % 10 = n := by omega
        simp [this, h10, h']
      · have : n / 10 ≠ 0 := by omega
        simp [this, h10]

theorem formatUint_eq_decimal (n : Nat) : Strconv.formatUint n 10 = decimal n := by
  unfold Strconv.formatUint
  by_cases hn : n = 0
  · subst hn; rw [if_pos rfl, decimal_eq_if]; rfl
  · rw [if_neg hn, digitsRev_decimal (n + 1) n (Nat.lt_succ_self n), if_neg hn]

/-! ## sha1-crypt -/

theorem sha1Iter_eq_iterate (HM : Bytes → Bytes → Bytes) (pw : Bytes) (n : Nat) (b : Bytes) :
    sha1Iter HM pw n b = iterate (HM pw) n b := by
  induction n with
  | zero => rfl
  | succ n ih => simp [sha1Iter, iterate, ih]

theorem sha1crypt_eq_spec' (HM : Bytes → Bytes → Bytes) (perm : List Nat) (pw salt : Bytes) (rounds : Nat) :
    sha1Derive HM perm sha1Magic pw salt rounds = permute (sha1cryptSpec HM pw salt rounds) perm := by
  unfold sha1Derive sha1cryptSpec
  simp only [sha1Iter_eq_iterate, formatUint_eq_decimal]

/-! ## Sun MD5 -/


theorem sunBit_eq (D : Bytes) (hd : D.length = 16) (off : Nat) : sunBit D off = some (md5bit D off) := by
  have h : off % 128 / 8 < D.length := by omega
  simp only [sunBit, md5bit, List.getElem?_eq_getElem h, List.getD_eq_getElem?_getD, Option.getD_some,
    Option.bind_eq_bind, Option.bind_some, Option.pure_def]

theorem mapM_some_map {α β : Type} (f : α → Option β) (g : α → β) (l : List α) (h : ∀ x ∈ l, f x = some (g x)) :
    l.mapM f = some (l.map g) := by
  induction l with
  | nil => rfl
  | cons a l ih =>
    rw [List.mapM_cons, h a (List.mem_cons_self ..), ih (fun x hx => h x (List.mem_cons_of_mem _ hx))]; rfl

theorem forIn_some_foldl {α σ : Type} (l : List α) (f : α → σ → σ) (init : σ) :
    forIn l init (fun j s => (some (ForInStep.yield (f j s)) : Option _)) = some (l.foldl (fun s j => f j s) init) := by
  induction l generalizing init with
  | nil => rfl
  | cons a l ih => rw [List.forIn_cons]; exact ih _

def dB (D : Bytes) (i : Nat) : Nat := (D.getD i 0).toNat
def ind7 (D : Bytes) (i : Nat) : Nat :=
  (dB D ((dB D i >>> (dB D ((i + 3) % 16) % 5)) % 16) >>> ((dB D ((i + 3) % 16) >>> (dB D i % 8)) % 2)) % 128

theorem and15 (x : Nat) : x &&& 15 = x % 16 := Nat.and_two_pow_sub_one_eq_mod x 4
theorem and1 (x : Nat) : x &&& 1 = x % 2 := Nat.and_two_pow_sub_one_eq_mod x 1
theorem and127 (x : Nat) : x &&& 127 = x % 128 := Nat.and_two_pow_sub_one_eq_mod x 7

theorem md5bit_lt (D : Bytes) (n : Nat) : md5bit D n < 2 := Nat.mod_lt _ (by decide)

theorem or8b : ∀ b0 b1 b2 b3 b4 b5 b6 b7 : Bool,
    (0 ||| b0.toNat <<< 0 ||| b1.toNat <<< 1 ||| b2.toNat <<< 2 ||| b3.toNat <<< 3 ||| b4.toNat <<< 4 ||| b5.toNat <<< 5 ||| b6.toNat <<< 6 ||| b7.toNat <<< 7) =
      ofBitsLSB [b0.toNat, b1.toNat, b2.toNat, b3.toNat, b4.toNat, b5.toNat, b6.toNat, b7.toNat] := by decide

theorem lt2_toNat (a : Nat) (h : a < 2) : a = (decide (a = 1)).toNat := by
  have : a = 0 ∨ a = 1 := by omega
  rcases this with h | h <;> subst h <;> rfl

theorem or8 (a0 a1 a2 a3 a4 a5 a6 a7 : Nat) (h0 : a0 < 2) (h1 : a1 < 2) (h2 : a2 < 2) (h3 : a3 < 2) (h4 : a4 < 2)
    (h5 : a5 < 2) (h6 : a6 < 2) (h7 : a7 < 2) :
    (0 ||| a0 <<< 0 ||| a1 <<< 1 ||| a2 <<< 2 ||| a3 <<< 3 ||| a4 <<< 4 ||| a5 <<< 5 ||| a6 <<< 6 ||| a7 <<< 7) =
      ofBitsLSB [a0, a1, a2, a3, a4, a5, a6, a7] := by
  rw [lt2_toNat a0 h0, lt2_toNat a1 h1, lt2_toNat a2 h2, lt2_toNat a3 h3, lt2_toNat a4 h4, lt2_toNat a5 h5,
    lt2_toNat a6 h6, lt2_toNat a7 h7]
  exact or8b ..

theorem xor_ne : ∀ x < 2, ∀ y < 2, (x ^^^ y == 1) = (x != y) := by decide

theorem getD_map_range (f : Nat → Nat) (n j : Nat) (h : j < n) : ((List.range n).map f).getD j 0 = f j := by
  simp [List.getD_eq_getElem?_getD, List.getElem?_map, List.getElem?_range h]

theorem range8 : List.range 8 = [0, 1, 2, 3, 4, 5, 6, 7] := rfl

theorem sunCoinToss_unfold (D : Bytes) (round : Nat) : sunCoinToss D round =
    (md5bit D ((ofBitsLSB ((List.range 8).map fun i => md5bit D (ind7 D i)) >>> md5bit D round) % 128) !=
     md5bit D ((ofBitsLSB ((List.range 8).map fun i => md5bit D (ind7 D (i + 8))) >>> md5bit D (round + 64)) % 128)) := rfl

theorem md5bit_mod (D : Bytes) (n : Nat) : md5bit D (n % 4294967296) = md5bit D n := by
  unfold md5bit
  have : n % 4294967296 % 128 = n % 128 := by omega
  simp only [this]

theorem sunCoin_eq (D : Bytes) (hd : D.length = 16) (round : Nat) : sunCoin D round = some (sunCoinToss D round) := by
  unfold sunCoin
  simp only [sunBit_eq D hd]
  rw [mapM_some_map _ (ind7 D) (List.range 16) (by
    intro j hj
    have hj : j < D.length := by rw [hd]; exact List.mem_range.1 hj
    have hj3 : (j + 3) % 16 < D.length := by omega
    have h4 : (D[j].toNat >>> (D[(j + 3) % 16].toNat % 5)) &&& 15 < D.length := by
      rw [hd, and15]; omega
    simp only [List.getElem?_eq_getElem hj, List.getElem?_eq_getElem hj3, Option.bind_eq_bind, Option.bind_some,
      ind7, dB, List.getD_eq_getElem?_getD, Option.getD_some, and15, and1, and127,
      Option.pure_def]
    rw [and15] at h4
    simp only [List.getElem?_eq_getElem h4, Option.getD_some, Option.bind_some])]
  simp only [Option.bind_eq_bind, Option.bind_some, Option.pure_def]
  rw [forIn_some_foldl (List.range 8) (fun j (s : Nat × Nat) => (s.fst ||| md5bit D (((List.range 16).map (ind7 D)).getD j 0) <<< j,
      s.snd ||| md5bit D (((List.range 16).map (ind7 D)).getD (j + 8) 0) <<< j))]
  simp only [Option.bind_some, sunCoinToss_unfold, range8, List.foldl_cons, List.foldl_nil, List.map_cons, List.map_nil,
    md5bit_mod, and127]
  simp only [getD_map_range (ind7 D) 16 _ (by decide : 0 < 16), getD_map_range (ind7 D) 16 _ (by decide : 1 < 16),
    getD_map_range (ind7 D) 16 _ (by decide : 2 < 16), getD_map_range (ind7 D) 16 _ (by decide : 3 < 16),
    getD_map_range (ind7 D) 16 _ (by decide : 4 < 16), getD_map_range (ind7 D) 16 _ (by decide : 5 < 16),
    getD_map_range (ind7 D) 16 _ (by decide : 6 < 16), getD_map_range (ind7 D) 16 _ (by decide : 7 < 16),
    getD_map_range (ind7 D) 16 _ (by decide : 0 + 8 < 16), getD_map_range (ind7 D) 16 _ (by decide : 1 + 8 < 16),
    getD_map_range (ind7 D) 16 _ (by decide : 2 + 8 < 16), getD_map_range (ind7 D) 16 _ (by decide : 3 + 8 < 16),
    getD_map_range (ind7 D) 16 _ (by decide : 4 + 8 < 16), getD_map_range (ind7 D) 16 _ (by decide : 5 + 8 < 16),
    getD_map_range (ind7 D) 16 _ (by decide : 6 + 8 < 16), getD_map_range (ind7 D) 16 _ (by decide : 7 + 8 < 16)]
  rw [or8 _ _ _ _ _ _ _ _ (md5bit_lt ..) (md5bit_lt ..) (md5bit_lt ..) (md5bit_lt ..) (md5bit_lt ..) (md5bit_lt ..)
      (md5bit_lt ..) (md5bit_lt ..),
    or8 _ _ _ _ _ _ _ _ (md5bit_lt ..) (md5bit_lt ..) (md5bit_lt ..) (md5bit_lt ..) (md5bit_lt ..) (md5bit_lt ..)
      (md5bit_lt ..) (md5bit_lt ..)]
  rw [xor_ne _ (md5bit_lt ..) _ (md5bit_lt ..)]


theorem sunDigest_length (H : Bytes → Bytes) (hlen : ∀ x, (H x).length = 16) (phrase pw ss : Bytes) (n : Nat) :
    (sunDigest H phrase pw ss n).length = 16 := by
  cases n <;> exact hlen _

theorem sunRounds_eq (H : Bytes → Bytes) (hlen : ∀ x, (H x).length = 16) (phrase pw ss : Bytes) (n : Nat) :
    sunRounds H phrase n (H (pw ++ ss)) = some (sunDigest H phrase pw ss n) := by
  induction n with
  | zero => rfl
  | succ n ih =>
    rw [sunRounds_succ, ih, Option.bind_some, sunCoin_eq _ (sunDigest_length H hlen phrase pw ss n), Option.bind_some,
      formatUint_eq_decimal]
    rfl

/-- For every round count, including those at which the 32-bit counter of the Go code wraps. -/
theorem sunmd5_eq_spec_wrap' (H : Bytes → Bytes) (hlen : ∀ x, (H x).length = 16) (phrase : Bytes) (perm : List Nat)
    (pw ss : Bytes) (rounds : Nat) :
    sunmd5Derive H phrase perm pw ss rounds =
      permute (sunDigest H phrase pw ss ((rounds + 4096) % 4294967296)) perm := by
  unfold sunmd5Derive
  simp only [sunRounds_eq H hlen, Option.bind_eq_bind, Option.bind_some]

theorem sunmd5_eq_spec' (H : Bytes → Bytes) (hlen : ∀ x, (H x).length = 16) (phrase : Bytes) (perm : List Nat)
    (pw ss : Bytes) (rounds : Nat) (hr : rounds ≤ 4294967295 - 4096) :
    sunmd5Derive H phrase perm pw ss rounds = permute (sunmd5Spec H phrase pw ss rounds) perm := by
  rw [sunmd5_eq_spec_wrap' H hlen]
  unfold sunmd5Spec
  have : (rounds + 4096) % 4294967296 = 4096 + rounds := by omega
  rw [this]

end GoCrypt.C03bProofs
