import GoCrypt.Proofs.A2IRSegment
import GoCrypt.Proofs.A2IRBlockBlamka
import GoCrypt.Props.C09Core
import GoCrypt.Proofs.Argon2SchedLink

/-!
# Block IR, step 2 (continued): the loop of the lifted `processSegment` closure and the whole procedure

`seg_loop` runs the `for index < segments` loop with the model's state sequence `sSeq mStep (mInit …)` as invariant
(`SegInv`: index/offset without wrap-around, memory shape); the in-range facts for `B[offset]`, `B[prev]`,
`B[newOffset]` come from `C09.argon2_accesses_in_memory` (`seg_addr`).  `processSegment_proc` is the whole body.
-/

namespace GoCrypt.A2IR
open GoCrypt.Gen.argon2IR GoCrypt.Kdf GoCrypt.Argon2Sched GoCrypt.Argon2Eq

local macro "segEnv%" L:term:max rB:term:max rW:term:max time:term:max memory:term:max threads:term:max mode:term:max
    version:term:max lanes:term:max segments:term:max n:term:max slice:term:max lane:term:max
    index:term:max offset:term:max random:term:max p:term:max q:term:max : term =>
  `([Val.blks $rB, Val.u32 $time, Val.u32 $memory, Val.u32 $threads, Val.int ($mode : Nat), Val.int ($version : Nat), Val.u32 $lanes, Val.u32 $segments,
   Val.u32 $n, Val.u32 $slice, Val.u32 $lane, Val.pwg $rW,
   Val.pblk (Ref.stk $L) 0, Val.pblk (Ref.stk ($L + 1)) 0, Val.pblk (Ref.stk ($L + 2)) 0,
   Val.u32 $index, Val.u32 $offset, Val.u64 $random, $p, $q])

/-! ## the loop invariant on the model's state -/

/-- the model's state after `k` iterations -/
def sSeq (f : MState → MState) (s0 : MState) : Nat → MState
  | 0 => s0
  | k + 1 => f (sSeq f s0 k)

theorem foldl_sSeq (f : MState → MState) (s0 : MState) (m : Nat) : ∀ (a j : Nat),
    (List.range' a m).foldl (fun s _ => f s) (sSeq f s0 j) = sSeq f s0 (j + m) := by
  induction m with
  | zero => intro a j; rfl
  | succ m ih =>
    intro a j
    rw [List.range'_succ, List.foldl_cons]
    have := ih (a + 1) (j + 1)
    rw [show j + 1 + m = j + (m + 1) by omega] at this
    exact this

theorem sSeq_fix (f : MState → MState) (s0 : MState) (N : Nat) (hfix : f (sSeq f s0 N) = sSeq f s0 N) :
    ∀ j, sSeq f s0 (N + j) = sSeq f s0 N := by
  intro j
  induction j with
  | zero => rfl
  | succ j ih => rw [show N + (j + 1) = (N + j) + 1 by omega, sSeq, ih, hfix]

structure SegInv (threads lanes segments slice lane idx : Nat) (s : MState) : Prop where
  hidx : s.2.2.2.1 = idx
  off : s.2.2.2.2.1 = lane * lanes + slice * segments + idx
  bsz : s.1.size = threads * lanes
  b128 : Blocks128 s.1
  asz : s.2.1.size = 128
  isz : s.2.2.1.size = 128

theorem blocks128_set (B : Array Block) (o : Nat) (v : Block) (h : Blocks128 B) (hv : v.size = 128) : Blocks128 (B.set! o v) := by
  intro k hk
  have hk' : k < B.size := by simpa using hk
  by_cases e : o = k
  · subst e; simp [hk', hv]
  · have := h k hk'
    simp only [Array.set!_eq_setIfInBounds]
    rw [Argon2Eq.getElem!_lt _ _ (by simpa using hk'), Array.getElem_setIfInBounds (by simpa using hk'), if_neg e]
    rw [Argon2Eq.getElem!_lt _ _ hk'] at this
    exact this

/-- the addresses of one step are inside the memory and do not wrap -/
theorem seg_addr {lanes segments threads : Nat} (geo : Geom lanes segments threads) (n slice lane idx : Nat)
    (hslice : slice < 4) (hlane : lane < threads) (hidx : idx < segments) (h0 : n = 0 ∧ slice = 0 → 2 ≤ idx) :
    lane * lanes + slice * segments + idx < threads * lanes ∧
    prevM lanes slice idx (lane * lanes + slice * segments + idx) < threads * lanes ∧
    (∀ rand, Gen.argon2crypto.indexAlpha rand lanes segments threads n slice lane idx < threads * lanes) := by
  have hmem := geo.mem
  have h1 := fun rand => C09.argon2_accesses_in_memory geo rand n slice lane idx hslice hlane hidx h0
  have ho := (h1 0).1
  have hp := (h1 0).2.1
  simp only [offsetOf] at ho
  refine ⟨ho, ?_, fun rand => (h1 rand).2.2⟩
  simp only [prevOf, offsetOf] at hp
  have hl := geo.lanes_eq
  have hs := geo.seg
  unfold prevM Argon2.u32
  by_cases hc : idx = 0 ∧ slice = 0
  · rw [if_pos hc] at hp
    rw [if_pos (by simp [hc.1, hc.2])]
    obtain ⟨rfl, rfl⟩ := hc
    omega
  · rw [if_neg hc] at hp
    rw [if_neg (by simpa using hc)]
    have : 1 ≤ lane * lanes + slice * segments + idx := by
      by_cases hi : idx = 0
      · have : slice ≠ 0 := fun e => hc ⟨hi, e⟩
        have : 1 ≤ slice * segments := Nat.mul_pos (by omega) (by omega)
        omega
      · omega
    omega


theorem segInv_step {threads lanes segments mode version n slice lane idx : Nat} (geo : Geom lanes segments threads)
    (hslice : slice < 4) (hlane : lane < threads) (hlt : idx < segments) (h0 : n = 0 ∧ slice = 0 → 2 ≤ idx)
    (s : MState) (hI : SegInv threads lanes segments slice lane idx s) :
    SegInv threads lanes segments slice lane (idx + 1) (mStep threads mode version lanes segments n slice lane s) := by
  obtain ⟨B, a, i, index, offset, random⟩ := s
  obtain ⟨h1, h2, h3, h4, h5, h6⟩ := hI
  simp only at h1 h2 h3 h4 h5 h6
  subst h1
  obtain ⟨ho, hp, hno⟩ := seg_addr geo n slice lane index hslice hlane hlt h0
  rw [← h2] at ho hp
  have hmem := geo.mem
  have hoB : offset < B.size := by omega
  have hlt' : index < segments := hlt
  simp only [mStep, hlt', if_true]
  refine ⟨?_, ?_, ?_, ?_, ?_, ?_⟩
  · show Argon2.u32 (index + 1) = index + 1
    have := geo.lanes_eq; have := geo.thr
    have : lanes ≤ threads * lanes := Nat.le_mul_of_pos_left _ (by omega)
    unfold Argon2.u32; omega
  · show Argon2.u32 (offset + 1) = _
    unfold Argon2.u32; omega
  · show (Argon2.setB B offset _).size = _
    rw [setB_eq _ _ _ hoB, set!_size]; exact h3
  · show Blocks128 (Argon2.setB B offset _)
    rw [setB_eq _ _ _ hoB]
    exact blocks128_set _ _ _ h4 (processBlock_size _ _ _ _ (h4 _ hoB))
  · show (if _ then _ else _ : Block).size = 128
    split
    · exact processBlock_size _ _ _ _ (processBlock_size _ _ _ _ h5)
    · exact h5
  · show (if _ then _ else _ : Block).size = 128
    split
    · rw [set!_size]; exact h6
    · exact h6


/-! ## the loop -/

section loop
variable (h : Heap) (rB rW : Ref) (time memory threads mode version lanes segments n slice lane : Nat)

/-- `prev` / `newOffset` slots after `k` iterations -/
def segPQ (s0 : MState) : Nat → Val × Val
  | 0 => (.undef, .undef)
  | k + 1 =>
    let s := sSeq (mStep threads mode version lanes segments n slice lane) s0 k
    (.u32 (prevM lanes slice s.2.2.2.1 s.2.2.2.2.1),
     .u32 (Gen.argon2crypto.indexAlpha (mStep threads mode version lanes segments n slice lane s).2.2.2.2.2.toNat
        lanes segments threads n slice lane s.2.2.2.1))

/-- heap and frame at the head of the loop after `k` iterations -/
def segSt (s0 : MState) (k : Nat) : Heap × Env :=
  let s := sSeq (mStep threads mode version lanes segments n slice lane) s0 k
  let pq := segPQ threads mode version lanes segments n slice lane s0 k
  ((h.set rB (.blocks s.1)).push [.blocks #[s.2.1], .blocks #[s.2.2.1], .blocks #[Argon2.zeroBlock]],
   segEnv% h.stk.length rB rW time memory threads mode version lanes segments n slice lane
     s.2.2.2.1 s.2.2.2.2.1 s.2.2.2.2.2 pq.1 pq.2)

end loop

theorem segInv_seq {threads lanes segments mode version n slice lane i0 : Nat} (geo : Geom lanes segments threads)
    (hslice : slice < 4) (hlane : lane < threads) (h0 : n = 0 ∧ slice = 0 → 2 ≤ i0) (s0 : MState)
    (hI : SegInv threads lanes segments slice lane i0 s0) :
    ∀ k, i0 + k ≤ segments →
      SegInv threads lanes segments slice lane (i0 + k) (sSeq (mStep threads mode version lanes segments n slice lane) s0 k) := by
  intro k
  induction k with
  | zero => intro _; exact hI
  | succ k ih =>
    intro hk
    have hlt : i0 + k < segments := by omega
    have h0' : n = 0 ∧ slice = 0 → 2 ≤ i0 + k := fun e => by have := h0 e; omega
    exact segInv_step (idx := i0 + k) geo hslice hlane hlt h0' _ (ih (by omega))

set_option maxHeartbeats 1000000 in
theorem seg_loop (c : Ctx) (hpb : ProcessBlockSpec c "processBlock" false) (hpx : ProcessBlockSpec c "processBlockXOR" true)
    (hia : IndexAlphaSpec c) (h : Heap) (rB rW : Ref) (hrB : rB.inH h)
    (time memory threads mode version lanes segments n slice lane i0 : Nat) (geo : Geom lanes segments threads)
    (hslice : slice < 4) (hlane : lane < threads) (h0 : n = 0 ∧ slice = 0 → 2 ≤ i0) (hi0 : i0 ≤ segments) (s0 : MState)
    (hI : SegInv threads lanes segments slice lane i0 s0) :
    exec c segLoop (segSt h rB rW time memory threads mode version lanes segments n slice lane s0 0).1
        (segSt h rB rW time memory threads mode version lanes segments n slice lane s0 0).2 =
      .norm (segSt h rB rW time memory threads mode version lanes segments n slice lane s0 (segments - i0)).1
        (segSt h rB rW time memory threads mode version lanes segments n slice lane s0 (segments - i0)).2 := by
  have hl : segLoop = .for_ (.var 7) segLoop.forCond .skip segLoopBody := rfl
  have hinv := segInv_seq (mode := mode) (version := version) geo hslice hlane h0 s0 hI
  have hlanes : 0 < lanes := by have := geo.lanes_eq; have := geo.seg; omega
  have hl32 : lanes < 4294967296 := by
    have := geo.mem; have := geo.thr
    have : lanes ≤ threads * lanes := Nat.le_mul_of_pos_left _ (by omega)
    omega
  have hfuel : eval (segSt h rB rW time memory threads mode version lanes segments n slice lane s0 0).1
      (segSt h rB rW time memory threads mode version lanes segments n slice lane s0 0).2 (.var 7) = .ok (.u32 segments) := by
    rw [show segSt h rB rW time memory threads mode version lanes segments n slice lane s0 0 = (_, _) from rfl]
    a2_simp
  rw [hl, exec_for, hfuel]
  simp only [ok_bind, asIdx_u32, bindR_ok]
  have hcond : ∀ k, eval (segSt h rB rW time memory threads mode version lanes segments n slice lane s0 k).1
      (segSt h rB rW time memory threads mode version lanes segments n slice lane s0 k).2 segLoop.forCond =
      .ok (.bool (decide ((sSeq (mStep threads mode version lanes segments n slice lane) s0 k).2.2.2.1 < segments))) := by
    intro k
    rw [show segSt h rB rW time memory threads mode version lanes segments n slice lane s0 k = (_, _) from rfl]
    simp only [segLoop, segBody, proc_processSegment, Stmt.drop, Stmt.head, Stmt.forCond]
    a2_simp
  refine loop_count _ _ (segSt h rB rW time memory threads mode version lanes segments n slice lane s0) (segments - i0)
    ?_ ?_ ?_ segments 0 (Nat.zero_le _) (by omega)
  · intro k hk
    have := (hinv k (by omega)).hidx
    rw [hcond k, this]
    simp only [ok_bind, asBool_bool]
    rw [decide_eq_true (by omega)]
  · have := (hinv (segments - i0) (by omega)).hidx
    rw [hcond, this]
    simp only [ok_bind, asBool_bool]
    rw [decide_eq_false (by omega)]
  · intro k hk
    have hIk := hinv k (by omega)
    generalize hs : sSeq (mStep threads mode version lanes segments n slice lane) s0 k = s at hIk
    obtain ⟨B, a, i, index, offset, random⟩ := s
    obtain ⟨h1, h2, h3, h4, h5, h6⟩ := hIk
    simp only at h1 h2 h3 h4 h5 h6
    obtain ⟨ho, hp, hno⟩ := seg_addr geo n slice lane (i0 + k) hslice hlane (by omega) (fun e => by have := h0 e; omega)
    rw [← h1] at h2
    rw [← h1, ← h2] at ho hp
    rw [← h1] at hno
    have e1 : segSt h rB rW time memory threads mode version lanes segments n slice lane s0 k =
        ((h.set rB (.blocks B)).push [.blocks #[a], .blocks #[i], .blocks #[Argon2.zeroBlock]],
         segEnv% h.stk.length rB rW time memory threads mode version lanes segments n slice lane index offset random
           (segPQ threads mode version lanes segments n slice lane s0 k).1 (segPQ threads mode version lanes segments n slice lane s0 k).2) := by
      simp only [segSt, hs]
    have e2 : segSt h rB rW time memory threads mode version lanes segments n slice lane s0 (k + 1) =
        (let s' := mStep threads mode version lanes segments n slice lane (B, a, i, index, offset, random)
         ((h.set rB (.blocks s'.1)).push [.blocks #[s'.2.1], .blocks #[s'.2.2.1], .blocks #[Argon2.zeroBlock]],
          segEnv% h.stk.length rB rW time memory threads mode version lanes segments n slice lane s'.2.2.2.1 s'.2.2.2.2.1 s'.2.2.2.2.2
            (.u32 (prevM lanes slice index offset))
            (.u32 (Gen.argon2crypto.indexAlpha s'.2.2.2.2.2.toNat lanes segments threads n slice lane index)))) := by
      simp only [segSt, sSeq, segPQ, hs]
    rw [e1, e2]
    have hg : (h.set rB (.blocks B)).get rB = some (.blocks B) := Heap.get_set_self _ _ _ hrB
    rw [exec_take_drop c _ _ 2 segLoopBody]
    have hp1 := seg_prev c ((h.set rB (.blocks B)).push [.blocks #[a], .blocks #[i], .blocks #[Argon2.zeroBlock]])
      h.stk.length rB rW time memory threads mode version lanes segments n slice lane index offset random
      (segPQ threads mode version lanes segments n slice lane s0 k).1 (segPQ threads mode version lanes segments n slice lane s0 k).2
    rw [hp1, andThen_norm]
    have hr := seg_rest c hpb hpx hia (h.set rB (.blocks B)) rB rW B a i time memory threads mode version lanes segments n slice lane
      index offset random (segPQ threads mode version lanes segments n slice lane s0 k).2 hg h4 h5 h6 (by omega) (by omega) (by omega)
      (fun rand => by have := hno rand; omega) hlanes hl32 geo.thr
    simp only [Heap.stk_length_set, Heap.set_set] at hr
    rw [hr]
    simp only [andThen_norm, exec_skip]


/-! ## the whole procedure -/

theorem mStep_fix (threads mode version lanes segments n slice lane : Nat) (s : MState) (h : ¬ s.2.2.2.1 < segments) :
    mStep threads mode version lanes segments n slice lane s = s := by
  simp only [mStep, h, if_false]

theorem segInv_init {threads lanes segments : Nat} (geo : Geom lanes segments threads) (B : Array Block)
    (time memory mode n slice lane : Nat) (hslice : slice < 4) (hlane : lane < threads)
    (hB : B.size = threads * lanes) (h128 : Blocks128 B) :
    SegInv threads lanes segments slice lane (if n = 0 ∧ slice = 0 then 2 else 0)
      (mInit B time memory mode lanes segments n slice lane) := by
  have D := Argon2SchedLink.segDom_of_geom geo rfl slice lane hslice hlane
  have h1 := D.lane_le
  have h2 := D.slice_le
  have hmem := geo.mem
  have hseg := geo.seg
  rw [mInit_eq]
  have hin := in0M_size time memory mode n slice lane
  refine ⟨?_, ?_, hB, h128, ?_, ?_⟩
  · show (if (n == 0 && slice == 0) = true then 2 else 0) = _
    by_cases hn : n = 0 <;> by_cases hs : slice = 0 <;> simp [hn, hs]
  · show ((lane * lanes % 4294967296 + slice * segments % 4294967296) % 4294967296 +
        (if (n == 0 && slice == 0) = true then 2 else 0)) % 4294967296 = _
    have e : (if (n == 0 && slice == 0) = true then 2 else 0) = (if n = 0 ∧ slice = 0 then 2 else 0) := by
      by_cases hn : n = 0 <;> by_cases hs : slice = 0 <;> simp [hn, hs]
    rw [e]
    have : (if n = 0 ∧ slice = 0 then 2 else 0) ≤ 2 := by split <;> omega
    generalize (if n = 0 ∧ slice = 0 then 2 else 0) = i0 at this ⊢
    omega
  · show (if _ then _ else _ : Block).size = 128
    split
    · exact processBlock_size _ _ _ _ (processBlock_size _ _ _ _ zeroBlock_size)
    · exact zeroBlock_size
  · show (if _ then _ else _ : Block).size = 128
    split
    · rw [set!_size]; exact hin
    · exact hin

theorem processSegment_eq_sSeq {threads lanes segments : Nat} (geo : Geom lanes segments threads) (B : Array Block)
    (time memory mode version n slice lane : Nat) (hslice : slice < 4) (hlane : lane < threads)
    (hB : B.size = threads * lanes) (h128 : Blocks128 B) :
    Argon2.processSegment B time memory threads mode version lanes segments n slice lane =
      (sSeq (mStep threads mode version lanes segments n slice lane) (mInit B time memory mode lanes segments n slice lane)
        (segments - (if n = 0 ∧ slice = 0 then 2 else 0))).1 := by
  have hseg := geo.seg
  have hi0 : (if n = 0 ∧ slice = 0 then 2 else 0) ≤ segments := by split <;> omega
  have h0 : n = 0 ∧ slice = 0 → 2 ≤ (if n = 0 ∧ slice = 0 then 2 else 0) := fun e => by rw [if_pos e]; omega
  generalize hi : (if n = 0 ∧ slice = 0 then 2 else 0) = i0 at hi0 h0
  have hI := segInv_init geo B time memory mode n slice lane hslice hlane hB h128
  rw [hi] at hI
  have hN := (segInv_seq (mode := mode) (version := version) geo hslice hlane h0 _ hI (segments - i0) (by omega)).hidx
  rw [processSegment_eq_foldl]
  have := foldl_sSeq (mStep threads mode version lanes segments n slice lane) (mInit B time memory mode lanes segments n slice lane)
    segments 0 0
  rw [show sSeq _ (mInit B time memory mode lanes segments n slice lane) 0 = mInit B time memory mode lanes segments n slice lane from rfl] at this
  rw [this, show 0 + segments = (segments - i0) + i0 by omega]
  rw [sSeq_fix _ _ _ (mStep_fix _ _ _ _ _ _ _ _ _ (by omega))]

theorem wgDone_exec (c : Ctx) (G : Heap) (env : Env) (rW : Ref) (k : Int) (hk : 1 ≤ k) (hW : G.get rW = some (.wg k))
    (h11 : env[11]? = some (.pwg rW)) :
    exec c (.wgDone (.var 11)) G env = .norm (G.set rW (.wg (k - 1))) env := by
  have e : ¬ (k + -1 < 0) := by omega
  a2_simp [h11, wgAdd, hW, e]
  rfl


set_option maxHeartbeats 1000000 in
theorem processSegment_proc (c : Ctx) (hpb : ProcessBlockSpec c "processBlock" false)
    (hpx : ProcessBlockSpec c "processBlockXOR" true) (hia : IndexAlphaSpec c)
    (h : Heap) (rB rW : Ref) (B : Array Block) (k : Int)
    (time memory threads mode version lanes segments n slice lane : Nat)
    (hgB : h.get rB = some (.blocks B)) (hgW : h.get rW = some (.wg k)) (hk : 1 ≤ k)
    (geo : Geom lanes segments threads) (hB : B.size = threads * lanes) (h128 : Blocks128 B)
    (hslice : slice < 4) (hlane : lane < threads) :
    execProc c proc_processSegment h
        [.blks rB, .u32 time, .u32 memory, .u32 threads, .int mode, .int version, .u32 lanes, .u32 segments,
         .u32 n, .u32 slice, .u32 lane, .pwg rW] =
      .ok ((h.set rB (.blocks (Argon2.processSegment B time memory threads mode version lanes segments n slice lane))).set
              rW (.wg (k - 1)), []) := by
  have hrB := Ref.inH_of_get hgB
  have hrW := Ref.inH_of_get hgW
  have hne : rB ≠ rW := by intro e; rw [e, hgW] at hgB; cases hgB
  have hseg := geo.seg
  have hi0 : (if n = 0 ∧ slice = 0 then 2 else 0) ≤ segments := by split <;> omega
  have h0 : n = 0 ∧ slice = 0 → 2 ≤ (if n = 0 ∧ slice = 0 then 2 else 0) := fun e => by rw [if_pos e]; omega
  have hmodel := processSegment_eq_sSeq geo B time memory mode version n slice lane hslice hlane hB h128
  have hI := segInv_init geo B time memory mode n slice lane hslice hlane hB h128
  generalize hi : (if n = 0 ∧ slice = 0 then 2 else 0) = i0 at hi0 h0 hmodel hI
  rw [execProc_eq _ _ _ _ rfl]
  show procResult _ (exec c segBody h
      [.blks rB, .u32 time, .u32 memory, .u32 threads, .int mode, .int version, .u32 lanes, .u32 segments,
       .u32 n, .u32 slice, .u32 lane, .pwg rW, .undef, .undef, .undef, .undef, .undef, .undef, .undef, .undef]) = _
  rw [exec_take_drop c h _ 4 segBody, seg_pro1, andThen_norm, exec_take_drop c _ _ 4 (segBody.drop 4),
    seg_pro2 c hpb h rB rW B, andThen_norm]
  have e3 : (segBody.drop 4).drop 4 = (segLoop ;;; .wgDone (.var 11)) := rfl
  rw [e3, exec_seq]
  have est : segSt h rB rW time memory threads mode version lanes segments n slice lane
      (mInit B time memory mode lanes segments n slice lane) 0 =
      (let s := mInit B time memory mode lanes segments n slice lane
       (h.push [.blocks #[s.2.1], .blocks #[s.2.2.1], .blocks #[Argon2.zeroBlock]],
        segEnv% h.stk.length rB rW time memory threads mode version lanes segments n slice lane s.2.2.2.1 s.2.2.2.2.1 0
          .undef .undef)) := by
    simp only [segSt, sSeq, segPQ]
    rw [show (mInit B time memory mode lanes segments n slice lane).1 = B from rfl, Heap.set_get_self _ _ _ hgB]
    rfl
  have hloop := seg_loop c hpb hpx hia h rB rW hrB time memory threads mode version lanes segments n slice lane i0 geo hslice hlane
    h0 hi0 _ hI
  rw [est] at hloop
  rw [hloop, andThen_norm]
  generalize hs : sSeq (mStep threads mode version lanes segments n slice lane)
    (mInit B time memory mode lanes segments n slice lane) (segments - i0) = sN at hmodel
  have eN : segSt h rB rW time memory threads mode version lanes segments n slice lane
      (mInit B time memory mode lanes segments n slice lane) (segments - i0) =
      ((h.set rB (.blocks sN.1)).push [.blocks #[sN.2.1], .blocks #[sN.2.2.1], .blocks #[Argon2.zeroBlock]],
       segEnv% h.stk.length rB rW time memory threads mode version lanes segments n slice lane sN.2.2.2.1 sN.2.2.2.2.1 sN.2.2.2.2.2
         (segPQ threads mode version lanes segments n slice lane (mInit B time memory mode lanes segments n slice lane) (segments - i0)).1
         (segPQ threads mode version lanes segments n slice lane (mInit B time memory mode lanes segments n slice lane) (segments - i0)).2) := by
    simp only [segSt, hs]
  rw [eN]
  have hW' : ((h.set rB (.blocks sN.1)).push [.blocks #[sN.2.1], .blocks #[sN.2.2.1], .blocks #[Argon2.zeroBlock]]).get rW
      = some (.wg k) := by
    rw [Heap.get_push_of_in _ _ _ ((Ref.inH_set _ _ _ _).mpr hrW), Heap.get_set_ne _ _ _ _ hne]; exact hgW
  rw [wgDone_exec c _ _ rW k hk hW' rfl, procResult_norm, Heap.set_push_of_in _ _ _ _ ((Ref.inH_set _ _ _ _).mpr hrW),
    Heap.popTo_push _ _ _ (by simp), hmodel]

theorem processSegmentSpec_of (c : Ctx) (c' : Ctx) (hcall : ∀ h args, c.call "processSegment" h args = execProc c' proc_processSegment h args)
    (hpb : ProcessBlockSpec c' "processBlock" false) (hpx : ProcessBlockSpec c' "processBlockXOR" true) (hia : IndexAlphaSpec c') :
    ProcessSegmentSpec c := by
  intro h rB rW B k time memory threads mode version lanes segments n slice lane hgB hgW hk geo hB h128 hslice hlane
  rw [hcall]
  exact processSegment_proc c' hpb hpx hia h rB rW B k time memory threads mode version lanes segments n slice lane hgB hgW hk geo hB
    h128 hslice hlane

end GoCrypt.A2IR
