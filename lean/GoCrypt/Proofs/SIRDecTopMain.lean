import GoCrypt.Proofs.SIRDecTopShort

/-!
# Stream IR, decoder side: `(*decoder).Read` after the refill loop, at least 4 symbols buffered

Helper lemmas only.
-/

namespace GoCrypt.SIR
open GoCrypt.B64IR (Buf Heap Slice Res sliceBytes writeList writeList_size writeList_append heap_set_self heap_lt_of_get padInt)
open GoCrypt.Base64LE GoCrypt.Stream GoCrypt.Gen.base64leStream

/-! ## The model, branch by branch -/

def smallSt (e : Encoding) (st : DecSt) (plen : Nat) : DecSt :=
  { st with err := decErr (decode e 768 (st.buf.take (st.buf.length / 4 * 4))),
            out := ((decode e 768 (st.buf.take (st.buf.length / 4 * 4))).dst.toList.take
                      (decode e 768 (st.buf.take (st.buf.length / 4 * 4))).n).drop plen,
            buf := st.buf.drop (st.buf.length / 4 * 4) }

def smallRes (e : Encoding) (st : DecSt) (plen : Nat) : DecSt × Bytes × Option Err :=
  (smallSt e st plen, ((decode e 768 (st.buf.take (st.buf.length / 4 * 4))).dst.toList.take
      (decode e 768 (st.buf.take (st.buf.length / 4 * 4))).n).take plen, (smallSt e st plen).err)

def directSt (e : Encoding) (st : DecSt) (plen : Nat) : DecSt :=
  { st with err := decErr (decode e plen (st.buf.take (st.buf.length / 4 * 4))), buf := st.buf.drop (st.buf.length / 4 * 4) }

def directRes (e : Encoding) (st : DecSt) (plen : Nat) : DecSt × Bytes × Option Err :=
  (directSt e st plen, (decode e plen (st.buf.take (st.buf.length / 4 * 4))).dst.toList.take
      (decode e plen (st.buf.take (st.buf.length / 4 * 4))).n, (directSt e st plen).err)

theorem decRead_main_small (e : Encoding) (st : DecSt) (plen : Nat) (h1 : ¬ 0 < st.out.length) (h2 : ¬ st.err.isSome)
    (h3 : ¬ (st.refill plen (st.pending + 6)).buf.length < 4)
    (h4 : (st.refill plen (st.pending + 6)).buf.length / 4 * 3 > plen) :
    decRead e st plen = smallRes e (st.refill plen (st.pending + 6)) plen := by
  unfold decRead
  rw [if_neg h1, if_neg h2]
  simp only []
  rw [if_neg h3, if_pos h4]
  rfl

theorem decRead_main_direct (e : Encoding) (st : DecSt) (plen : Nat) (h1 : ¬ 0 < st.out.length) (h2 : ¬ st.err.isSome)
    (h3 : ¬ (st.refill plen (st.pending + 6)).buf.length < 4)
    (h4 : ¬ (st.refill plen (st.pending + 6)).buf.length / 4 * 3 > plen) :
    decRead e st plen = directRes e (st.refill plen (st.pending + 6)) plen := by
  unfold decRead
  rw [if_neg h1, if_neg h2]
  simp only []
  rw [if_neg h3, if_neg h4]
  rfl

/-! ## The generated code -/

theorem drShort_skip (c : Ctx) (L : DecLay) (e : Encoding) (ow : Slice) (st : DecSt) (H : Heap) (O : List Obj) (X : List Ext)
    (env : Env) (henv : env[0]? = some (.ptr L.d)) (hrep : DecRep L e ow st ⟨H, O, X⟩) (hge : ¬ st.buf.length < 4) :
    exec c drShort ⟨H, O, X⟩ env = .norm ⟨H, O, X⟩ env := by
  rw [drShort_eq, exec_ite, drShort_cond H O X L.d _ _ _ _ _ _ _ _ env henv hrep.obj, bindR_ok, decide_eq_false hge]
  rfl

theorem drMain_eq (c : Ctx) (W : World) (env : Env) :
    exec c drMain W env = ((exec c drMainPre W env).andThen (exec c drMainIte)).andThen (exec c drMainPost) := by
  rw [exec_take_drop c W env 2 drMain]
  show (exec c drMainPre W env).andThen (exec c (drMainIte ;; drMainPost)) = _
  cases exec c drMainPre W env <;> rfl

/-- `d.nbuf -= nr; copy(d.buf[:d.nbuf], d.buf[nr:]); return n, d.err` from a world that holds `st1`. -/
theorem drMainPost_post (c : Ctx) (L : DecLay) (e : Encoding) (ow1 : Slice) (st1 : DecSt) (H1 : Heap) (O1 : List Obj) (X : List Ext)
    (bp : Nat) (Bp1 : Buf) (plen nr n : Nat) (data : Bytes) (v1 v3 v4 v5 v7 : Val)
    (hrep1 : DecRep L e ow1 st1 ⟨H1, O1, X⟩) (hbp1 : H1[bp]? = some Bp1) (hsz : Bp1.size = plen) (hbb : bp ≠ L.bb)
    (hdata : Bp1.toList.take data.length = data) (hn : n = data.length) (hnr : nr ≤ st1.buf.length) :
    ReadPost L e bp plen ({ st1 with buf := st1.buf.drop nr }, data, st1.err)
      (procResult (exec c drMainPost ⟨H1, O1, X⟩ [.ptr L.d, v1, .int n, v3, v4, v5, .int nr, v7])) := by
  obtain ⟨Bb, hb1, hb2, hb3⟩ := hrep1.buf
  obtain ⟨Bo, ho1, ho2⟩ := hrep1.outbuf
  have hdl := lt_of_getElem? hrep1.obj
  have hbbl := heap_lt_of_get hb1
  rw [drMainPost_run c H1 O1 X L.d _ _ _ _ _ nr n _ _ _ Bb v1 v3 v4 v5 v7 hrep1.obj hb1 hb2 hrep1.nbuf hnr, procResult_ret]
  refine ⟨_, ow1, Bp1, by rw [hn], ?_, (List.getElem?_set_ne (Ne.symm hbb)).trans hbp1, hsz, hdata⟩
  have hnb := hrep1.nbuf
  refine hrep1.transfer ow1 _ _ _ X (List.getElem?_set_ne (Ne.symm hrep1.ne_b1_bb)) (List.getElem?_set_ne (Ne.symm hrep1.ne_b2_bb))
    (set_ne_all _ _ _) hrep1.rdr ?_ ?_ ⟨_, List.getElem?_set_self hbbl, by rw [writeList_size]; exact hb2, ?_⟩
    ⟨Bo, (List.getElem?_set_ne hrep1.ne_bb_bo).trans ho1, ho2⟩ hrep1.outLen hrep1.outCap ?_
  · show (O1.set L.d _)[L.d]? = _
    rw [List.getElem?_set_self hdl]
    simp only [List.length_drop]
  · simp only [List.length_drop]; omega
  · show List.take (st1.buf.drop nr).length _ = st1.buf.drop nr
    have hl : ((Bb.toList.drop nr).take (st1.buf.length - nr)).length = st1.buf.length - nr := by
      simp only [List.length_take, List.length_drop, Array.length_toList, hb2]; omega
    have := take_writeList_zero Bb ((Bb.toList.drop nr).take (st1.buf.length - nr)) (by rw [hl, hb2]; omega)
    rw [hl] at this
    rw [List.length_drop, this, ← List.drop_take, hb3]
  · intro hne
    obtain ⟨ha, hb⟩ := hrep1.out hne
    refine ⟨ha, ?_⟩
    show sliceBytes (H1.set L.bb _) ow1 = _
    rw [sliceBytes_congr H1 _ ow1 (by rw [ha]; exact List.getElem?_set_ne hrep1.ne_bb_bo)]
    exact hb

/-- `p` is too small for the decoded chunk. -/
theorem drMain_small {lib : Lib} (hlib : DecLibSpec lib) (c : Ctx)
    (hdec : ∀ W vals, c.call "Encoding.Decode" W vals = lib "Encoding.Decode" W vals)
    (L : DecLay) (e : Encoding) (hind : DecodeIndep e) (ow : Slice) (st : DecSt) (H : Heap) (O : List Obj) (X : List Ext)
    (bp : Nat) (Bp : Buf) (v2 v3 v4 v5 v6 v7 : Val)
    (hrep : DecRep L e ow st ⟨H, O, X⟩) (hbp : H[bp]? = some Bp)
    (h1 : bp ≠ L.b1) (h2 : bp ≠ L.b2) (hbb : bp ≠ L.bb) (hbo : bp ≠ L.bo)
    (hge : ¬ st.buf.length < 4) (hsmall : st.buf.length / 4 * 3 > Bp.size)
    (hnp : (decode e 768 (st.buf.take (st.buf.length / 4 * 4))).panic = false) :
    ReadPost L e bp Bp.size (smallRes e st Bp.size)
      (procResult (exec c drMain ⟨H, O, X⟩ [.ptr L.d, .slice ⟨bp, 0, Bp.size, Bp.size⟩, v2, v3, v4, v5, v6, v7])) := by
  obtain ⟨Bb, hb1, hb2, hb3⟩ := hrep.buf
  obtain ⟨Bo, ho1, ho2⟩ := hrep.outbuf
  have hnb := hrep.nbuf
  have hdl := lt_of_getElem? hrep.obj
  have hbol := heap_lt_of_get ho1
  have hbpl := heap_lt_of_get hbp
  have htake : Bb.toList.take (st.buf.length / 4 * 4) = st.buf.take (st.buf.length / 4 * 4) := by
    have : (Bb.toList.take st.buf.length).take (st.buf.length / 4 * 4) = Bb.toList.take (st.buf.length / 4 * 4) := by
      rw [List.take_take, Nat.min_eq_left (by omega)]
    rw [← this, hb3]
  obtain ⟨D', hcall, hDs, hrn, htk⟩ := decode_call hlib hind H O X L.ae L.b1 L.b2 hrep.enc L.bo L.bb Bo Bb (st.buf.length / 4 * 4) 1024
    ho1 hb1 (Ne.symm hrep.ne_bb_bo) (by omega) (by omega) (by omega) (by omega) (by omega) (by rw [ho2, htake]; exact hnp)
  simp only [ho2, htake] at hcall hDs hrn htk
  rw [← hdec] at hcall
  have hlenAll : ((decode e 768 (st.buf.take (st.buf.length / 4 * 4))).dst.toList.take
      (decode e 768 (st.buf.take (st.buf.length / 4 * 4))).n).length = (decode e 768 (st.buf.take (st.buf.length / 4 * 4))).n := by
    rw [← htk, List.length_take, Array.length_toList, hDs]; omega
  rw [drMain_eq, drMainPre_run c H O X L.d _ _ _ _ _ _ _ _ _ v2 v3 v4 v5 v6 v7 hrep.obj hnb, andThen_norm,
    drMainIte_small c H O X L.d L.ae L.nf L.bb L.bo bp st.buf.length Bp.size _ _ (decode e 768 (st.buf.take (st.buf.length / 4 * 4))).n
      ow st.err st.readErr (decErr (decode e 768 (st.buf.take (st.buf.length / 4 * 4)))) D' Bp v2 v3 v4 v5 hrep.obj hcall hbol hDs hrn
      (by omega) hbp hbo (Nat.le_refl _) hsmall, andThen_norm, htk]
  have hnlen : min Bp.size (decode e 768 (st.buf.take (st.buf.length / 4 * 4))).n =
      (((decode e 768 (st.buf.take (st.buf.length / 4 * 4))).dst.toList.take
        (decode e 768 (st.buf.take (st.buf.length / 4 * 4))).n).take Bp.size).length := by
    rw [List.length_take, hlenAll]
  refine drMainPost_post c L e ⟨L.bo, min Bp.size (decode e 768 (st.buf.take (st.buf.length / 4 * 4))).n,
      (decode e 768 (st.buf.take (st.buf.length / 4 * 4))).n - min Bp.size (decode e 768 (st.buf.take (st.buf.length / 4 * 4))).n,
      768 - min Bp.size (decode e 768 (st.buf.take (st.buf.length / 4 * 4))).n⟩
    { st with err := decErr (decode e 768 (st.buf.take (st.buf.length / 4 * 4))),
              out := ((decode e 768 (st.buf.take (st.buf.length / 4 * 4))).dst.toList.take
                        (decode e 768 (st.buf.take (st.buf.length / 4 * 4))).n).drop Bp.size }
    _ _ X bp _ Bp.size _ _ _ _ _ _ _ _ ?_ (List.getElem?_set_self (by rw [List.length_set]; exact hbpl)) (by rw [writeList_size]) hbb
    (take_writeList_zero Bp _ (by rw [← hnlen]; exact Nat.min_le_left _ _)) hnlen (Nat.div_mul_le_self _ _)
  refine hrep.transfer _ _ _ _ X ?_ ?_ (set_ne_all _ _ _) hrep.rdr (List.getElem?_set_self hdl) hnb ⟨Bb, ?_, hb2, hb3⟩ ⟨D', ?_, hDs⟩ ?_
    (by show _ - _ ≤ _ - _; omega) ?_
  · rw [List.getElem?_set_ne h1, List.getElem?_set_ne (Ne.symm hrep.ne_b1_bo)]
  · rw [List.getElem?_set_ne h2, List.getElem?_set_ne (Ne.symm hrep.ne_b2_bo)]
  · rw [List.getElem?_set_ne hbb, List.getElem?_set_ne (Ne.symm hrep.ne_bb_bo)]; exact hb1
  · rw [List.getElem?_set_ne hbo]; exact List.getElem?_set_self hbol
  · show _ - _ = (List.drop _ _).length
    rw [List.length_drop, hlenAll]; omega
  · intro _
    refine ⟨rfl, ?_⟩
    show sliceBytes _ ⟨L.bo, _, _, _⟩ = some (List.drop Bp.size _)
    rw [sliceBytes_congr (H.set L.bo D') _ ⟨L.bo, _, _, _⟩ (List.getElem?_set_ne hbo)]
    have hs0 := sliceBytes_prefixD (H.set L.bo D') L.bo (decode e 768 (st.buf.take (st.buf.length / 4 * 4))).n 768 D'
      (List.getElem?_set_self hbol) (by omega)
    have := sliceBytes_drop (H.set L.bo D') ⟨L.bo, 0, (decode e 768 (st.buf.take (st.buf.length / 4 * 4))).n, 768⟩ _
      (min Bp.size (decode e 768 (st.buf.take (st.buf.length / 4 * 4))).n)
      (768 - min Bp.size (decode e 768 (st.buf.take (st.buf.length / 4 * 4))).n) hs0 (Nat.min_le_right _ _)
    rw [Nat.zero_add, htk] at this
    have hdm := drop_min_length ((decode e 768 (st.buf.take (st.buf.length / 4 * 4))).dst.toList.take
      (decode e 768 (st.buf.take (st.buf.length / 4 * 4))).n) Bp.size
    rw [hlenAll] at hdm
    rw [this, hdm]

/-- `p` is large enough: the chunk is decoded straight into `p`. -/
theorem drMain_direct {lib : Lib} (hlib : DecLibSpec lib) (c : Ctx)
    (hdec : ∀ W vals, c.call "Encoding.Decode" W vals = lib "Encoding.Decode" W vals)
    (L : DecLay) (e : Encoding) (hind : DecodeIndep e) (ow : Slice) (st : DecSt) (H : Heap) (O : List Obj) (X : List Ext)
    (bp : Nat) (Bp : Buf) (v2 v3 v4 v5 v6 v7 : Val)
    (hrep : DecRep L e ow st ⟨H, O, X⟩) (hbp : H[bp]? = some Bp) (hpl : Bp.size < 2 ^ 59)
    (h1 : bp ≠ L.b1) (h2 : bp ≠ L.b2) (hbb : bp ≠ L.bb) (hbo : bp ≠ L.bo) (hout : st.out = [])
    (hge : ¬ st.buf.length < 4) (hlarge : ¬ st.buf.length / 4 * 3 > Bp.size)
    (hnp : (decode e Bp.size (st.buf.take (st.buf.length / 4 * 4))).panic = false) :
    ReadPost L e bp Bp.size (directRes e st Bp.size)
      (procResult (exec c drMain ⟨H, O, X⟩ [.ptr L.d, .slice ⟨bp, 0, Bp.size, Bp.size⟩, v2, v3, v4, v5, v6, v7])) := by
  obtain ⟨Bb, hb1, hb2, hb3⟩ := hrep.buf
  obtain ⟨Bo, ho1, ho2⟩ := hrep.outbuf
  have hnb := hrep.nbuf
  have hdl := lt_of_getElem? hrep.obj
  have hbpl := heap_lt_of_get hbp
  have htake : Bb.toList.take (st.buf.length / 4 * 4) = st.buf.take (st.buf.length / 4 * 4) := by
    have : (Bb.toList.take st.buf.length).take (st.buf.length / 4 * 4) = Bb.toList.take (st.buf.length / 4 * 4) := by
      rw [List.take_take, Nat.min_eq_left (by omega)]
    rw [← this, hb3]
  obtain ⟨D', hcall, hDs, hrn, htk⟩ := decode_call hlib hind H O X L.ae L.b1 L.b2 hrep.enc bp L.bb Bp Bb (st.buf.length / 4 * 4) 1024
    hbp hb1 hbb (by omega) (by omega) (by omega) (by omega) (by omega) (by rw [htake]; exact hnp)
  simp only [htake] at hcall hrn htk
  rw [← hdec] at hcall
  have hlenAll : ((decode e Bp.size (st.buf.take (st.buf.length / 4 * 4))).dst.toList.take
      (decode e Bp.size (st.buf.take (st.buf.length / 4 * 4))).n).length = (decode e Bp.size (st.buf.take (st.buf.length / 4 * 4))).n := by
    rw [← htk, List.length_take, Array.length_toList, hDs]; omega
  rw [drMain_eq, drMainPre_run c H O X L.d _ _ _ _ _ _ _ _ _ v2 v3 v4 v5 v6 v7 hrep.obj hnb, andThen_norm,
    drMainIte_direct c H O X L.d L.ae L.nf L.bb L.bo bp st.buf.length Bp.size _ _ (decode e Bp.size (st.buf.take (st.buf.length / 4 * 4))).n
      ow st.err st.readErr (decErr (decode e Bp.size (st.buf.take (st.buf.length / 4 * 4)))) D' v2 v3 v4 v5 hrep.obj hcall
      (by omega) (by omega), andThen_norm]
  refine drMainPost_post c L e ow { st with err := decErr (decode e Bp.size (st.buf.take (st.buf.length / 4 * 4))) }
    _ _ X bp D' Bp.size _ _ _ _ _ _ _ _ ?_ (List.getElem?_set_self hbpl) hDs hbb
    (by rw [hlenAll]; exact htk) hlenAll.symm (Nat.div_mul_le_self _ _)
  refine hrep.transfer _ _ _ _ X (List.getElem?_set_ne h1) (List.getElem?_set_ne h2) (set_ne_all _ _ _) hrep.rdr
    (List.getElem?_set_self hdl) hnb ⟨Bb, (List.getElem?_set_ne hbb).trans hb1, hb2, hb3⟩
    ⟨Bo, (List.getElem?_set_ne hbo).trans ho1, ho2⟩ hrep.outLen hrep.outCap (fun h => absurd hout h)

end GoCrypt.SIR
