import GoCrypt.Proofs.DesBits

/-!
# The nibble tables of `des/descrypt/const.go` are bit routings (kernel-checked table facts)

The routing descriptions `sig*` below were read off the tables (entry `(row, 2^k)` says where input
bit `4·row + k` goes); `*_routes` checks **every** entry of each table against its description, so
the five `permute816/1616` calls are the routings `sig*` on all 64-bit words.
-/

set_option maxRecDepth 100000

namespace GoCrypt.Bits
open GoCrypt.Kdf GoCrypt.Kdf.Des GoCrypt.Gen.des_descrypt

def ofList (l : List (Option Nat)) : Route := fun j => l.getD j none

def sigIEL : List (Option Nat) :=
  [none, none, some 24, some 1, some 9, some 17, some 25, some 6, none, none, some 27, some 0, some 8, some 16, some 24, some 1, none, none, some 26, some 3, some 11, some 19, some 27, some 0, none, none, some 29, some 2, some 10, some 18, some 26, some 3, none, none, some 28, some 5, some 13, some 21, some 29, some 2, none, none, some 31, some 4, some 12, some 20, some 28, some 5, none, none, some 30, some 7, some 15, some 23, some 31, some 4, none, none, some 25, some 6, some 14, some 22, some 30, some 7]
def sigIE : Route := ofList sigIEL

def sigCFL : List (Option Nat) :=
  [some 44, some 12, some 60, some 28, some 40, some 8, some 56, some 24, some 45, some 13, some 61, some 29, some 41, some 9, some 57, some 25, some 46, some 14, some 62, some 30, some 42, some 10, some 58, some 26, some 47, some 15, some 63, some 31, some 43, some 11, some 59, some 27, some 36, some 4, some 52, some 20, some 32, some 0, some 48, some 16, some 37, some 5, some 53, some 21, some 33, some 1, some 49, some 17, some 38, some 6, some 54, some 22, some 34, some 2, some 50, some 18, some 39, some 7, some 55, some 23, some 35, some 3, some 51, some 19]
def sigCF : Route := ofList sigCFL

def sigPC1L : List (Option Nat) :=
  [none, none, some 19, some 50, some 51, some 2, some 9, some 33, none, none, some 3, some 43, some 26, some 1, some 49, some 44, none, none, some 17, some 34, some 59, some 11, some 41, some 35, none, none, some 42, some 36, some 25, some 10, some 27, some 60, some 58, some 52, some 5, some 63, some 28, some 37, some 46, some 23, some 57, some 18, some 61, some 29, some 38, some 39, some 20, some 6, some 53, some 12, some 31, some 7, some 62, some 55, some 45, some 22, some 14, some 21, some 54, some 13, some 30, some 4, some 15, some 47]
def sigPC1 : Route := ofList sigPC1L

def sigPC2AL : List (Option Nat) :=
  [none, none, some 30, some 32, some 20, some 29, some 18, some 22, none, none, some 21, some 4, some 19, some 6, some 40, some 33, none, none, some 28, some 26, some 27, some 2, some 14, some 11, none, none, some 3, some 15, some 7, some 41, some 23, some 13, some 10, some 31, some 59, some 47, some 51, some 54, some 58, some 50, some 5, some 12, some 61, some 37, some 38, some 63, some 36, some 56, some 42, some 46, some 45, some 62, some 34, some 35, some 48, some 60, some 55, some 43, some 52, some 57, some 44, some 49, some 39, some 53]
def sigPC2A : Route := ofList sigPC2AL

def sigPC2BL : List (Option Nat) :=
  [none, none, some 23, some 10, some 27, some 41, some 28, some 14, none, none, some 2, some 20, some 26, some 18, some 5, some 31, none, none, some 7, some 3, some 15, some 30, some 40, some 4, none, none, some 32, some 33, some 22, some 12, some 11, some 6, some 21, some 13, some 57, some 56, some 62, some 48, some 52, some 45, some 29, some 19, some 49, some 54, some 58, some 53, some 51, some 55, some 61, some 36, some 63, some 39, some 59, some 47, some 42, some 44, some 60, some 37, some 34, some 43, some 38, some 46, some 50, some 35]
def sigPC2B : Route := ofList sigPC2BL

theorem ie3264_routes : TableRoutes ie3264 8 sigIE := by decide +kernel
theorem sigIE_lt : ∀ j, j < 64 → ∀ i, sigIE j = some i → i / 4 < 8 := by decide +kernel
theorem isRoute_ie3264 : IsRoute (permuteNib ie3264 8) sigIE := isRoute_permuteNib _ _ _ ie3264_routes sigIE_lt

theorem cf6464_routes : TableRoutes cf6464 16 sigCF := by decide +kernel
theorem sigCF_lt : ∀ j, j < 64 → ∀ i, sigCF j = some i → i / 4 < 16 := by decide +kernel
theorem isRoute_cf6464 : IsRoute (permuteNib cf6464 16) sigCF := isRoute_permuteNib _ _ _ cf6464_routes sigCF_lt

theorem pc1Rot_routes : TableRoutes pc1Rot 16 sigPC1 := by decide +kernel
theorem sigPC1_lt : ∀ j, j < 64 → ∀ i, sigPC1 j = some i → i / 4 < 16 := by decide +kernel
theorem isRoute_pc1Rot : IsRoute (permuteNib pc1Rot 16) sigPC1 := isRoute_permuteNib _ _ _ pc1Rot_routes sigPC1_lt

theorem pc2RotA_routes : TableRoutes pc2RotA 16 sigPC2A := by decide +kernel
theorem sigPC2A_lt : ∀ j, j < 64 → ∀ i, sigPC2A j = some i → i / 4 < 16 := by decide +kernel
theorem isRoute_pc2RotA : IsRoute (permuteNib pc2RotA 16) sigPC2A := isRoute_permuteNib _ _ _ pc2RotA_routes sigPC2A_lt

theorem pc2RotB_routes : TableRoutes pc2RotB 16 sigPC2B := by decide +kernel
theorem sigPC2B_lt : ∀ j, j < 64 → ∀ i, sigPC2B j = some i → i / 4 < 16 := by decide +kernel
theorem isRoute_pc2RotB : IsRoute (permuteNib pc2RotB 16) sigPC2B := isRoute_permuteNib _ _ _ pc2RotB_routes sigPC2B_lt

end GoCrypt.Bits
