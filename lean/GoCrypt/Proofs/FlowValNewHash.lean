import GoCrypt.Proofs.FlowValCheck

/-!
# `Gen.<pkg>.flowNewHash` evaluates to `Scheme.newHash <pkg>`

The model side is first put in the normal form of `Proofs/EndToEnd.lean` (`newHash_<pkg>_eq`:
`nhStrict` / `nhLenient` of `key S args` and a `Marshal` of the canonical field list); the program
is run up to the `Key` call, `key S _` is abstracted on both sides, and in the `ok` case the struct
value the program built (a list of field writes) is replaced by its canonical field list
(`marshal_canon_<pkg>`: `Marshal` sees a struct only through the value of each field).
One script, instantiated per scheme.

Hypotheses, where a theorem has any, are typing preconditions of the Go signature that the model's
untyped request record does not enforce (`cost uint8`, `rounds uint32`) or say that `crypto/rand`
delivers what it is asked for (bcrypt, argon2: the model would otherwise encode a short salt where
the Go buffer keeps its zero bytes).  sunmd5's `NewHash` needs no hypothesis (its `rounds uint32` is
never converted; the count reaches `Key` and `Marshal` as it is).
-/

set_option linter.unusedSimpArgs false

namespace GoCrypt.FlowVal
open GoCrypt GoCrypt.Scheme GoCrypt.Codec GoCrypt.Flow GoCrypt.EndToEnd GoCrypt.Codec.Shapes GoCrypt.Kdf

/-! ## md5 and des ignore `Key`'s error: it must not be an untyped one -/

theorem key_md5_not_internal (a : KeyArgs) (w : String) : key md5 a ≠ .internal w := by
  unfold key
  split
  · simp
  · show optToRes _ ≠ _
    cases md5cryptEncrypt _ _ _ _ _ <;> simp [optToRes]

theorem key_des_not_internal (a : KeyArgs) (w : String) : key des a ≠ .internal w := by
  unfold key
  split
  · simp
  · show KeyRes.ok _ ≠ _
    simp

/-! ## bcrypt and argon2 encode raw entropy into a salt buffer of fixed size -/

theorem bcrypt_draw : rawDecodedLen Gen.bcrypt.SaltLength = 16 := by decide
theorem argon2_draw : rawDecodedLen Gen.argon2.DefaultSaltLength = 8 := by decide

theorem bcrypt_salt_len (e : Bytes) (h : 16 ≤ e.length) :
    (stdEncode bcryptAlphabet (e.take 16)).length = Gen.bcrypt.SaltLength := by
  rw [stdEncode_length, List.length_take, Nat.min_eq_left h]; rfl

theorem argon2_salt_len (e : Bytes) (h : 8 ≤ e.length) :
    (stdEncode stdAlphabet (e.take 8)).length = Gen.argon2.DefaultSaltLength := by
  rw [stdEncode_length, List.length_take, Nat.min_eq_left h]; rfl

theorem encode_nil_md5 : leEncode [] = [] := rfl
theorem encode_nil_des : beEncode [] = [] := rfl

theorem flowNewHash_eq_model_md5 (r : NewHashReq) :
    outcomeToNewHash (run (prims md5) Gen.md5.flowNewHash (newHashEnv md5 r) ⟨r.entropy, 0⟩) =
      some (Scheme.newHash md5 r) := by
  rw [newHash_md5_eq]
  unfold Gen.md5.flowNewHash nhLenient md5Args md5Salt
  flow_run
  generalize hkr : key md5 _ = kr
  rcases kr with k | e | w | _
  · have hlen := sumLen_md5 _ _ hkr
    flow_run [writeBuf_exact _ _ hlen]
    rw [marshal_canon_md5 (_ :: _)]
    simp [fieldIndex_md5_HashPrefix, fieldIndex_md5_Salt, fieldIndex_md5_Sum, Codec.fieldVal, getVal, zeroOf, md5_HashPrefix, md5_Salt, md5_Sum, md5Vals, Gen.md5.DefaultSaltLength, Gen.md5.sumLength]
    generalize marshal md5TI _ = mr
    rcases mr with e | s
    all_goals
      flow_run
      simp [outcomeToNewHash, Gen.md5.DefaultSaltLength, Gen.md5.sumLength]
  · flow_run [encode_nil_md5, writeBuf]
    rw [marshal_canon_md5 (_ :: _)]
    simp [fieldIndex_md5_HashPrefix, fieldIndex_md5_Salt, fieldIndex_md5_Sum, Codec.fieldVal, getVal, zeroOf, md5_HashPrefix, md5_Salt, md5_Sum, md5Vals, Gen.md5.DefaultSaltLength, Gen.md5.sumLength]
    generalize marshal md5TI _ = mr
    rcases mr with e | s
    all_goals
      flow_run
      simp [outcomeToNewHash, Gen.md5.DefaultSaltLength, Gen.md5.sumLength]
  · exact absurd hkr (key_md5_not_internal _ _)
  · flow_run
    simp [outcomeToNewHash]

theorem flowNewHash_eq_model_des (r : NewHashReq) :
    outcomeToNewHash (run (prims des) Gen.des.flowNewHash (newHashEnv des r) ⟨r.entropy, 0⟩) =
      some (Scheme.newHash des r) := by
  rw [newHash_des_eq]
  unfold Gen.des.flowNewHash nhLenient desArgs desSalt
  flow_run
  generalize hkr : key des _ = kr
  rcases kr with k | e | w | _
  · have hlen := sumLen_des _ _ hkr
    flow_run [writeBuf_exact _ _ hlen]
    rw [marshal_canon_des (_ :: _)]
    simp [fieldIndex_des_HashPrefix, fieldIndex_des_Salt, fieldIndex_des_Sum, Codec.fieldVal, getVal, zeroOf, des_HashPrefix, des_Salt, des_Sum, desVals, Gen.des.SaltLength, Gen.des.sumLength]
    generalize marshal desTI _ = mr
    rcases mr with e | s
    all_goals
      flow_run
      simp [outcomeToNewHash, Gen.des.SaltLength, Gen.des.sumLength]
  · flow_run [encode_nil_des, writeBuf]
    rw [marshal_canon_des (_ :: _)]
    simp [fieldIndex_des_HashPrefix, fieldIndex_des_Salt, fieldIndex_des_Sum, Codec.fieldVal, getVal, zeroOf, des_HashPrefix, des_Salt, des_Sum, desVals, Gen.des.SaltLength, Gen.des.sumLength]
    generalize marshal desTI _ = mr
    rcases mr with e | s
    all_goals
      flow_run
      simp [outcomeToNewHash, Gen.des.SaltLength, Gen.des.sumLength]
  · exact absurd hkr (key_des_not_internal _ _)
  · flow_run
    simp [outcomeToNewHash]

theorem flowNewHash_eq_model_sha256 (r : NewHashReq) :
    outcomeToNewHash (run (prims sha256) Gen.sha256.flowNewHash (newHashEnv sha256 r) ⟨r.entropy, 0⟩) =
      some (Scheme.newHash sha256 r) := by
  rw [newHash_sha256_eq]
  unfold Gen.sha256.flowNewHash nhStrict sha256Args sha256Salt
  flow_run
  generalize hkr : key sha256 _ = kr
  rcases kr with k | e | w | _
  · have hlen := sumLen_sha256 _ _ hkr
    flow_run [writeBuf_exact _ _ hlen]
    rw [marshal_canon_sha256 (_ :: _)]
    simp [fieldIndex_sha256_HashPrefix, fieldIndex_sha256_Rounds, fieldIndex_sha256_Salt, fieldIndex_sha256_Sum, Codec.fieldVal, getVal, zeroOf, sha256_HashPrefix, sha256_Rounds, sha256_Salt, sha256_Sum, sha256Vals, Gen.sha256.DefaultSaltLength]
    generalize marshal sha256TI _ = mr
    rcases mr with e | s
    all_goals
      flow_run
      simp [outcomeToNewHash, Gen.sha256.DefaultSaltLength]
  all_goals
    flow_run
    simp [outcomeToNewHash]

theorem flowNewHash_eq_model_sha512 (r : NewHashReq) :
    outcomeToNewHash (run (prims sha512) Gen.sha512.flowNewHash (newHashEnv sha512 r) ⟨r.entropy, 0⟩) =
      some (Scheme.newHash sha512 r) := by
  rw [newHash_sha512_eq]
  unfold Gen.sha512.flowNewHash nhStrict sha512Args sha512Salt
  flow_run
  generalize hkr : key sha512 _ = kr
  rcases kr with k | e | w | _
  · have hlen := sumLen_sha512 _ _ hkr
    flow_run [writeBuf_exact _ _ hlen]
    rw [marshal_canon_sha512 (_ :: _)]
    simp [fieldIndex_sha512_HashPrefix, fieldIndex_sha512_Rounds, fieldIndex_sha512_Salt, fieldIndex_sha512_Sum, Codec.fieldVal, getVal, zeroOf, sha512_HashPrefix, sha512_Rounds, sha512_Salt, sha512_Sum, sha512Vals, Gen.sha512.DefaultSaltLength]
    generalize marshal sha512TI _ = mr
    rcases mr with e | s
    all_goals
      flow_run
      simp [outcomeToNewHash, Gen.sha512.DefaultSaltLength]
  all_goals
    flow_run
    simp [outcomeToNewHash]

theorem flowNewHash_eq_model_nthash (r : NewHashReq) :
    outcomeToNewHash (run (prims nthash) Gen.nthash.flowNewHash (newHashEnv nthash r) ⟨r.entropy, 0⟩) =
      some (Scheme.newHash nthash r) := by
  rw [newHash_nthash_eq]
  unfold Gen.nthash.flowNewHash nhStrict nthashArgs
  flow_run
  generalize hkr : key nthash _ = kr
  rcases kr with k | e | w | _
  · have hlen := sumLen_nthash _ _ hkr
    flow_run [writeBuf_exact _ _ hlen]
    rw [marshal_canon_nthash (_ :: _)]
    simp [fieldIndex_nthash_HashPrefix, fieldIndex_nthash_Empty, fieldIndex_nthash_Sum, Codec.fieldVal, getVal, zeroOf, nthash_HashPrefix, nthash_Empty, nthash_Sum, nthashVals]
    generalize marshal nthashTI _ = mr
    rcases mr with e | s
    all_goals
      flow_run
      simp [outcomeToNewHash]
  all_goals
    flow_run
    simp [outcomeToNewHash]

theorem flowNewHash_eq_model_sha1 (r : NewHashReq) :
    outcomeToNewHash (run (prims sha1) Gen.sha1.flowNewHash (newHashEnv sha1 r) ⟨r.entropy, 0⟩) =
      some (Scheme.newHash sha1 r) := by
  rw [newHash_sha1_eq]
  unfold Gen.sha1.flowNewHash nhStrict sha1Args sha1Salt sha1Rounds sha1Ent sha1Used sha1Word
  by_cases hr : r.rounds = Gen.sha1.RandomRounds
  all_goals simp only [hr, if_true, if_false]
  all_goals
    flow_run [hr]
    generalize hkr : key sha1 _ = kr
    rcases kr with k | e | w | _
    · have hlen := sumLen_sha1 _ _ hkr
      flow_run [writeBuf_exact _ _ hlen, hr]
      rw [marshal_canon_sha1 (_ :: _)]
      simp [fieldIndex_sha1_HashPrefix, fieldIndex_sha1_Rounds, fieldIndex_sha1_Salt, fieldIndex_sha1_Sum, Codec.fieldVal, getVal, zeroOf, sha1_HashPrefix, sha1_Rounds, sha1_Salt, sha1_Sum, sha1Vals, Gen.sha1.DefaultSaltLength]
      generalize marshal sha1TI _ = mr
      rcases mr with e | s
      all_goals
        flow_run
        simp [outcomeToNewHash, Gen.sha1.DefaultSaltLength]
    all_goals
      flow_run
      simp [outcomeToNewHash]

theorem flowNewHash_eq_model_desext (r : NewHashReq) (hr32 : r.rounds < 4294967296) :
    outcomeToNewHash (run (prims desext) Gen.desext.flowNewHash (newHashEnv desext r) ⟨r.entropy, 0⟩) =
      some (Scheme.newHash desext r) := by
  rw [newHash_desext_eq]
  unfold Gen.desext.flowNewHash nhStrict desextArgs desextSalt
  flow_run [Nat.mod_eq_of_lt hr32]
  generalize hkr : key desext _ = kr
  rcases kr with k | e | w | _
  · have hlen := sumLen_desext _ _ hkr
    flow_run [writeBuf_exact _ _ hlen, Nat.mod_eq_of_lt hr32]
    rw [marshal_canon_desext (_ :: _)]
    simp [fieldIndex_desext_HashPrefix, fieldIndex_desext_Rounds, fieldIndex_desext_Salt, fieldIndex_desext_Sum, Codec.fieldVal, getVal, zeroOf, desext_HashPrefix, desext_Rounds, desext_Salt, desext_Sum, desextVals, Gen.desext.SaltLength]
    generalize marshal desextTI _ = mr
    rcases mr with e | s
    all_goals
      flow_run
      simp [outcomeToNewHash, Gen.desext.SaltLength]
  all_goals
    flow_run
    simp [outcomeToNewHash]

theorem flowNewHash_eq_model_bcrypt (r : NewHashReq) (hcost : r.rounds < 256) (hent : 16 ≤ r.entropy.length) :
    outcomeToNewHash (run (prims bcrypt) Gen.bcrypt.flowNewHash (newHashEnv bcrypt r) ⟨r.entropy, 0⟩) =
      some (Scheme.newHash bcrypt r) := by
  rw [newHash_bcrypt_eq]
  unfold Gen.bcrypt.flowNewHash nhStrict bcryptArgs bcryptSalt
  flow_run [Nat.mod_eq_of_lt hcost, bcrypt_draw, writeBuf_exact _ _ (bcrypt_salt_len _ hent)]
  generalize hkr : key bcrypt _ = kr
  rcases kr with k | e | w | _
  · have hlen := sumLen_bcrypt _ _ hkr
    flow_run [writeBuf_exact _ _ hlen, Nat.mod_eq_of_lt hcost, bcrypt_draw, writeBuf_exact _ _ (bcrypt_salt_len _ hent)]
    rw [marshal_canon_bcrypt (_ :: _)]
    simp [fieldIndex_bcrypt_HashPrefix, fieldIndex_bcrypt_Cost, fieldIndex_bcrypt_Salt, fieldIndex_bcrypt_Sum, Codec.fieldVal, getVal, zeroOf, bcrypt_HashPrefix, bcrypt_Cost, bcrypt_Salt, bcrypt_Sum, bcryptVals]
    generalize marshal bcryptTI _ = mr
    rcases mr with e | s
    all_goals
      flow_run
      simp [outcomeToNewHash]
  all_goals
    flow_run
    simp [outcomeToNewHash]

theorem flowNewHash_eq_model_argon2 (r : NewHashReq) (hent : 8 ≤ r.entropy.length) :
    outcomeToNewHash (run (prims argon2) Gen.argon2.flowNewHash (newHashEnv argon2 r) ⟨r.entropy, 0⟩) =
      some (Scheme.newHash argon2 r) := by
  rw [newHash_argon2_eq]
  unfold Gen.argon2.flowNewHash nhStrict argon2Args argon2Salt
  flow_run [argon2_draw, writeBuf_exact _ _ (argon2_salt_len _ hent)]
  generalize hkr : key argon2 _ = kr
  rcases kr with k | e | w | _
  · have hlen := sumLen_argon2 k
    flow_run [writeBuf_exact _ _ hlen, argon2_draw, writeBuf_exact _ _ (argon2_salt_len _ hent)]
    rw [marshal_canon_argon2 (_ :: _)]
    simp [fieldIndex_argon2_HashPrefix, fieldIndex_argon2_Version, fieldIndex_argon2_Memory, fieldIndex_argon2_Time, fieldIndex_argon2_Threads, fieldIndex_argon2_Salt, fieldIndex_argon2_Sum, Codec.fieldVal, getVal, zeroOf, argon2_HashPrefix, argon2_Version, argon2_Memory, argon2_Time, argon2_Threads, argon2_Salt, argon2_Sum, argon2Vals]
    generalize marshal argon2TI _ = mr
    rcases mr with e | s
    all_goals
      flow_run
      simp [outcomeToNewHash]
  all_goals
    flow_run
    simp [outcomeToNewHash]

/-! ## sunmd5: the embedded `saltScheme` literal, the guarded assignments, `&separator` -/

attribute [flowval] tiOf_sunmd5 sunmd5_name

/-- `rounds == 0`: `$md5$`, no separator. -/
theorem flowNewHash_sunmd5_zero (r : NewHashReq) (hr : r.rounds = 0) :
    outcomeToNewHash (run (prims sunmd5) Gen.sunmd5.flowNewHash (newHashEnv sunmd5 r) ⟨r.entropy, 0⟩) =
      some (Scheme.newHash sunmd5 r) := by
  rw [newHash_sunmd5_eq]
  unfold Gen.sunmd5.flowNewHash nhStrict sunmd5Args sunmd5Salt sunmd5Prefix sunmd5Sep
  simp only [hr, if_true, if_false]
  flow_run [hr]
  generalize hkr : key sunmd5 _ = kr
  rcases kr with k | e | w | _
  · have hlen := sumLen_sunmd5 _ _ hkr
    clear hkr
    flow_run [writeBuf_exact _ _ hlen]
    rw [marshal_canon_sunmd5 (_ :: _)]
    simp [fieldIndex_sunmd5_HashPrefix, fieldIndex_sunmd5_Rounds, fieldIndex_sunmd5_Salt, fieldIndex_sunmd5_Separator, fieldIndex_sunmd5_Sum, Codec.fieldVal, getVal, zeroOf, sunmd5_HashPrefix, sunmd5_Rounds, sunmd5_Salt, sunmd5_Separator, sunmd5_Sum, sunmd5Vals, Gen.sunmd5.DefaultSaltLength]
    generalize marshal sunmd5TI _ = mr
    rcases mr with e | s
    all_goals
      flow_run
      simp [outcomeToNewHash, Gen.sunmd5.DefaultSaltLength]
  all_goals
    clear hkr
    flow_run
    simp [outcomeToNewHash]

/-- `rounds != 0`: `$md5,`, `Separator = &separator`. -/
theorem flowNewHash_sunmd5_nonzero (r : NewHashReq) (hr : r.rounds ≠ 0) :
    outcomeToNewHash (run (prims sunmd5) Gen.sunmd5.flowNewHash (newHashEnv sunmd5 r) ⟨r.entropy, 0⟩) =
      some (Scheme.newHash sunmd5 r) := by
  rw [newHash_sunmd5_eq]
  unfold Gen.sunmd5.flowNewHash nhStrict sunmd5Args sunmd5Salt sunmd5Prefix sunmd5Sep
  simp only [hr, if_true, if_false]
  flow_run [hr]
  generalize hkr : key sunmd5 _ = kr
  rcases kr with k | e | w | _
  · have hlen := sumLen_sunmd5 _ _ hkr
    clear hkr
    flow_run [writeBuf_exact _ _ hlen]
    rw [marshal_canon_sunmd5 (_ :: _)]
    simp [fieldIndex_sunmd5_HashPrefix, fieldIndex_sunmd5_Rounds, fieldIndex_sunmd5_Salt, fieldIndex_sunmd5_Separator, fieldIndex_sunmd5_Sum, Codec.fieldVal, getVal, zeroOf, sunmd5_HashPrefix, sunmd5_Rounds, sunmd5_Salt, sunmd5_Separator, sunmd5_Sum, sunmd5Vals, Gen.sunmd5.DefaultSaltLength]
    generalize marshal sunmd5TI _ = mr
    rcases mr with e | s
    all_goals
      flow_run
      simp [outcomeToNewHash, Gen.sunmd5.DefaultSaltLength]
  all_goals
    clear hkr
    flow_run
    simp [outcomeToNewHash]
theorem flowNewHash_eq_model_sunmd5 (r : NewHashReq) :
    outcomeToNewHash (run (prims sunmd5) Gen.sunmd5.flowNewHash (newHashEnv sunmd5 r) ⟨r.entropy, 0⟩) =
      some (Scheme.newHash sunmd5 r) := by
  by_cases hr : r.rounds = 0
  · exact flowNewHash_sunmd5_zero r hr
  · exact flowNewHash_sunmd5_nonzero r hr

end GoCrypt.FlowVal
