import GoCrypt.Proofs.SIRDecLibSpec
import GoCrypt.Proofs.B64IRTopW

/-!
# Stream IR of `hash/base64le`: the library function `Encoding.Decode` meets `DecLibSpec`

The regenerated buffer-IR program, called through `libB64` on a whole destination buffer and a prefix
window of a source buffer, is the model's `decodeLoop` on the window's bytes (`decode_programW`).
Helper lemmas only.
-/

namespace GoCrypt.SIR
open GoCrypt.B64IR (Buf Heap Slice Res sliceBytes encVal)
open GoCrypt.Base64LE

theorem program_procs_length : GoCrypt.Gen.base64leIR.program.procs.length = 7 + 2 := by rfl

theorem libB64_decLibSpec : DecLibSpec lib where
  decode := by
    intro e H O X ae b1 b2 henc d s dst S n cp hd hs hne hn hcp hdz hnz
    have hprog := GoCrypt.B64IR.decode_programW 7 e henc.len H d s dst S n cp hd hs hne hn hcp hdz hnz
    have hargs : argsToB ⟨H, O, X⟩ [.ptr ae, .slice ⟨d, 0, dst.size, dst.size⟩, .slice ⟨s, 0, n, cp⟩] =
        .ok [encVal e, .slice ⟨d, 0, dst.size, dst.size⟩, .slice ⟨s, 0, n, cp⟩] := by
      have h1 := toB_enc X henc
      have h2 : ∀ sl : Slice, toB ⟨H, O, X⟩ (.slice sl) = .ok (.slice sl) := fun _ => rfl
      simp only [argsToB, h1, h2]
      rfl
    have hrun : GoCrypt.B64IR.interp GoCrypt.Gen.base64leIR.program "Encoding.Decode" H
        [encVal e, .slice ⟨d, 0, dst.size, dst.size⟩, .slice ⟨s, 0, n, cp⟩] =
        if n = 0 then .ok (H, [.int 0, .err none])
        else GoCrypt.B64IR.ofD H d (decodeLoop e (S.toList.take n).toArray 0 0 0 dst) := by
      unfold GoCrypt.B64IR.interp
      rw [program_procs_length]
      exact hprog
    unfold lib libB64
    simp only [hargs, hrun]
    by_cases hz : n = 0
    · simp [hz, resultsOfB, ofB]
    · simp only [hz, if_false, ofDResW, GoCrypt.B64IR.ofD]
      cases hpan : (decodeLoop e (S.toList.take n).toArray 0 0 0 dst).panic
      · cases herr : (decodeLoop e (S.toList.take n).toArray 0 0 0 dst).err with
        | none => simp [resultsOfB, ofB, GoCrypt.B64IR.errVal]
        | some k =>
          simp [resultsOfB, ofB, GoCrypt.B64IR.errVal]
      · simp
