import GoCrypt.Proofs.EndToEnd

/-!
# Proofs of the C12 family of `Props/EndToEnd`: the hash `NewHash` returns is accepted by the independent
grammar recogniser with exactly the requested fields, and `Params` returns what was requested
-/

namespace GoCrypt.EndToEnd
open GoCrypt GoCrypt.Scheme GoCrypt.Codec GoCrypt.Codec.Shapes GoCrypt.Accept

/-- From the codec round trip to the grammar: the recogniser accepts `h`, and the fields it reads list to
the value that was marshalled. -/
theorem grammar_of_roundtrip {α : Type} (ti : TypeInfo) (G : Option α) (Out : α → Vals) (h : Bytes) (out vals : Vals)
    (hmain : ∀ out, unmarshal ti h = .ok out ↔ ∃ f, G = some f ∧ out = Out f)
    (hu : unmarshal ti h = .ok out) (hf : finalVals ti out = vals) :
    ∃ f, G = some f ∧ finalVals ti (Out f) = vals := by
  obtain ⟨f, hG, rfl⟩ := (hmain out).1 hu
  exact ⟨f, hG, hf⟩

theorem take_length_of_le (e : Bytes) (n : Nat) (h : n ≤ e.length) : (e.take n).length = n := by
  simp only [List.length_take]; omega

theorem over_of_overBase64 (b : Bytes) (h : OverBase64 b) : Grammar.over Grammar.B b = true := by
  unfold OverBase64 at h
  rw [firstInvalid_none_iff .base64 base64Alphabet rfl] at h
  simp only [Grammar.over, List.all_eq_true]
  intro c hc
  simpa [Grammar.B] using h c hc

/-! ## What the recogniser's fields list to, layout by layout -/

theorem finalVals_md5Out (f : Grammar.Md5) :
    finalVals md5TI (md5Out f) = md5Vals [36, 49, 36] f.salt f.sum := rfl

theorem finalVals_sha1Out (f : Grammar.Sha1) :
    finalVals sha1TI (sha1Out f) = sha1Vals [36, 115, 104, 97, 49, 36] f.rounds f.salt f.sum := rfl

theorem finalVals_sha256Out (f : Grammar.Sha2) :
    finalVals sha256TI (sha256Out f) = sha256Vals [36, 53, 36] (f.rounds.getD 0) f.salt f.sum := by
  obtain ⟨r, a, b⟩ := f; cases r <;> rfl

theorem finalVals_sha512Out (f : Grammar.Sha2) :
    finalVals sha512TI (sha512Out f) = sha512Vals [36, 54, 36] (f.rounds.getD 0) f.salt f.sum := by
  obtain ⟨r, a, b⟩ := f; cases r <;> rfl

theorem finalVals_nthashOut (f : Grammar.NtHash) :
    finalVals nthashTI (nthashOut f) = nthashVals [36, 51, 36] [] f.sum := rfl

theorem finalVals_desOut (f : Grammar.Des) : finalVals desTI (desOut f) = desVals [] f.salt f.sum := rfl

theorem finalVals_desextOut (f : Grammar.DesExt) :
    finalVals desextTI (desextOut f) = desextVals [95] (desDecodeInt f.rounds) f.salt f.sum := rfl

theorem finalVals_bcryptOut (f : Grammar.Bcrypt) :
    finalVals bcryptTI (bcryptOut f) = bcryptVals f.pfx f.cost f.salt f.sum := rfl

theorem finalVals_sunmd5Out (f : Grammar.SunMd5) :
    finalVals sunmd5TI (sunmd5Out f) =
      sunmd5Vals f.pfx f.rounds (f.salt.getD []) (if f.sep then .str [] else .nilPtr) f.sum := by
  obtain ⟨p, n, s, e, d⟩ := f
  cases s <;> cases e <;> rfl

theorem finalVals_argon2Out (f : Grammar.Argon2) :
    finalVals argon2TI (argon2Out f) =
      argon2Vals f.pfx (f.version.getD 0) f.memory f.time f.threads f.salt f.sum := by
  obtain ⟨p, v, m, t, pp, s, d⟩ := f
  cases v <;> rfl

theorem getD_eq_some {α : Type} (o : Option α) (d x : α) (h : o.getD d = x) (hx : x ≠ d) : o = some x := by
  cases o with
  | none => exact absurd h.symm hx
  | some y => exact congrArg some h

end GoCrypt.EndToEnd

namespace GoCrypt.EndToEnd.Proofs
open GoCrypt GoCrypt.Scheme GoCrypt.Codec GoCrypt.Codec.Shapes GoCrypt.Accept

/-! ## md5 -/

theorem newHash_canonical_md5 (r : NewHashReq) (h : Bytes) (used : Nat)
    (hent : Gen.md5.DefaultSaltLength ≤ r.entropy.length)
    (hn : newHash md5 r = .ok h used) (hne : h ≠ []) :
    ∃ f k, Grammar.md5 h = some f ∧
      h = Gen.md5.Prefix ++ f.salt ++ [36] ++ f.sum ∧
      f.salt = md5Salt r ∧ f.salt.length = Gen.md5.DefaultSaltLength ∧ Grammar.over Grammar.A f.salt = true ∧
      key md5 (md5Args r) = .ok k ∧ f.sum = md5.encodeSum k ∧
      f.sum.length = Gen.md5.sumLength ∧ Grammar.over Grammar.A f.sum = true ∧
      used = Gen.md5.DefaultSaltLength := by
  obtain ⟨k, hk, hm, hused⟩ := newHash_md5_inv r h used hn hne
  obtain ⟨out, hu, hf⟩ := Shapes.roundtrip_md5 _ _ _ _ rfl hm
  obtain ⟨hstr, hsa, hlen, hsu⟩ := marshal_md5_inv _ _ _ _ hm
  obtain ⟨f, hG, hfv⟩ := grammar_of_roundtrip md5TI _ md5Out h out _ (unmarshal_md5 h) hu hf
  rw [finalVals_md5Out] at hfv
  simp only [md5Vals, List.cons.injEq, Prod.mk.injEq, FVal.bytes.injEq, true_and, and_true] at hfv
  obtain ⟨hs, hd⟩ := hfv
  refine ⟨f, k, hG, ?_, hs, ?_, ?_, hk, hd, ?_, ?_, hused⟩
  · rw [hs, hd]; exact hstr
  · rw [hs, md5Salt, C15.randSymbols_length, take_length_of_le _ _ hent]
  · rw [hs]; exact over_of_overHash _ hsa
  · rw [hd]; exact hlen
  · rw [hd]; exact over_of_overHash _ hsu

theorem params_of_newHash_md5 (r : NewHashReq) (h : Bytes) (used : Nat)
    (hn : newHash md5 r = .ok h used) (hne : h ≠ []) :
    params md5 h = .ok { salt := md5Salt r } := by
  obtain ⟨k, hk, hm, -⟩ := newHash_md5_inv r h used hn hne
  obtain ⟨out, hu, hf⟩ := Shapes.roundtrip_md5 _ _ _ _ rfl hm
  rw [params_of_fields md5 md5TI h out _ tiOf_md5 hu hf, checkArgs_md5]

/-! ## sha256 / sha512 -/

theorem newHash_canonical_sha256 (r : NewHashReq) (h : Bytes) (used : Nat)
    (hent : Gen.sha256.DefaultSaltLength ≤ r.entropy.length)
    (hn : newHash sha256 r = .ok h used) :
    ∃ f k, Grammar.sha256 h = some f ∧
      h = Gen.sha256.Prefix ++ Grammar.kRounds ++ Strconv.formatUint r.rounds 10 ++ [36] ++ f.salt ++ [36] ++ f.sum ∧
      f.rounds = some r.rounds ∧ Gen.sha256.MinRounds ≤ r.rounds ∧ r.rounds ≤ Gen.sha256.MaxRounds ∧
      f.salt = sha256Salt r ∧ f.salt.length = Gen.sha256.DefaultSaltLength ∧ Grammar.over Grammar.A f.salt = true ∧
      key sha256 (sha256Args r) = .ok k ∧ f.sum = sha256.encodeSum k ∧
      f.sum.length = Gen.sha256.sumLength ∧ Grammar.over Grammar.A f.sum = true ∧
      used = Gen.sha256.DefaultSaltLength := by
  obtain ⟨k, hk, hm, hused⟩ := newHash_sha256_inv r h used hn
  obtain ⟨hlo, hhi⟩ := key_sha256_rounds _ k hk
  have hr0 : r.rounds ≠ 0 := by
    have : Gen.sha256.MinRounds ≤ r.rounds := hlo
    unfold Gen.sha256.MinRounds at this; omega
  have hr32 : r.rounds < 2 ^ 32 := by
    have : r.rounds ≤ Gen.sha256.MaxRounds := hhi
    unfold Gen.sha256.MaxRounds at this; omega
  obtain ⟨hstr, hsa, hlen, hsu⟩ := marshal_sha256_inv _ _ _ _ _ hr0 hm
  obtain ⟨out, hu, hf⟩ := Shapes.roundtrip_sha256 _ _ _ _ _ rfl hr32 hlen hm
  obtain ⟨f, hG, hfv⟩ := grammar_of_roundtrip sha256TI _ sha256Out h out _ (unmarshal_sha256 h) hu hf
  rw [finalVals_sha256Out] at hfv
  simp only [sha256Vals, List.cons.injEq, Prod.mk.injEq, FVal.bytes.injEq, FVal.uint.injEq, true_and, and_true] at hfv
  obtain ⟨hr, hs, hd⟩ := hfv
  refine ⟨f, k, hG, ?_, getD_eq_some _ _ _ hr hr0, hlo, hhi, hs, ?_, ?_, hk, hd, ?_, ?_, hused⟩
  · rw [hs, hd]; exact hstr
  · rw [hs, sha256Salt, C15.randSymbols_length, take_length_of_le _ _ hent]
  · rw [hs]; exact over_of_overHash _ hsa
  · rw [hd]; exact hlen
  · rw [hd]; exact over_of_overHash _ hsu

theorem params_of_newHash_sha256 (r : NewHashReq) (h : Bytes) (used : Nat)
    (hn : newHash sha256 r = .ok h used) :
    params sha256 h = .ok { salt := sha256Salt r, rounds := r.rounds } := by
  obtain ⟨k, hk, hm, -⟩ := newHash_sha256_inv r h used hn
  obtain ⟨hlo, hhi⟩ := key_sha256_rounds _ k hk
  have hr0 : r.rounds ≠ 0 := by
    have : Gen.sha256.MinRounds ≤ r.rounds := hlo
    unfold Gen.sha256.MinRounds at this; omega
  have hr32 : r.rounds < 2 ^ 32 := by
    have : r.rounds ≤ Gen.sha256.MaxRounds := hhi
    unfold Gen.sha256.MaxRounds at this; omega
  obtain ⟨-, -, hlen, -⟩ := marshal_sha256_inv _ _ _ _ _ hr0 hm
  obtain ⟨out, hu, hf⟩ := Shapes.roundtrip_sha256 _ _ _ _ _ rfl hr32 hlen hm
  rw [params_of_fields sha256 sha256TI h out _ tiOf_sha256 hu hf, checkArgs_sha256 _ _ _ _ _ _ hr0]



theorem newHash_canonical_sha512 (r : NewHashReq) (h : Bytes) (used : Nat)
    (hent : Gen.sha512.DefaultSaltLength ≤ r.entropy.length)
    (hn : newHash sha512 r = .ok h used) :
    ∃ f k, Grammar.sha512 h = some f ∧
      h = Gen.sha512.Prefix ++ Grammar.kRounds ++ Strconv.formatUint r.rounds 10 ++ [36] ++ f.salt ++ [36] ++ f.sum ∧
      f.rounds = some r.rounds ∧ Gen.sha512.MinRounds ≤ r.rounds ∧ r.rounds ≤ Gen.sha512.MaxRounds ∧
      f.salt = sha512Salt r ∧ f.salt.length = Gen.sha512.DefaultSaltLength ∧ Grammar.over Grammar.A f.salt = true ∧
      key sha512 (sha512Args r) = .ok k ∧ f.sum = sha512.encodeSum k ∧
      f.sum.length = Gen.sha512.sumLength ∧ Grammar.over Grammar.A f.sum = true ∧
      used = Gen.sha512.DefaultSaltLength := by
  obtain ⟨k, hk, hm, hused⟩ := newHash_sha512_inv r h used hn
  obtain ⟨hlo, hhi⟩ := key_sha512_rounds _ k hk
  have hr0 : r.rounds ≠ 0 := by
    have : Gen.sha512.MinRounds ≤ r.rounds := hlo
    unfold Gen.sha512.MinRounds at this; omega
  have hr32 : r.rounds < 2 ^ 32 := by
    have : r.rounds ≤ Gen.sha512.MaxRounds := hhi
    unfold Gen.sha512.MaxRounds at this; omega
  obtain ⟨hstr, hsa, hlen, hsu⟩ := marshal_sha512_inv _ _ _ _ _ hr0 hm
  obtain ⟨out, hu, hf⟩ := Shapes.roundtrip_sha512 _ _ _ _ _ rfl hr32 hlen hm
  obtain ⟨f, hG, hfv⟩ := grammar_of_roundtrip sha512TI _ sha512Out h out _ (unmarshal_sha512 h) hu hf
  rw [finalVals_sha512Out] at hfv
  simp only [sha512Vals, List.cons.injEq, Prod.mk.injEq, FVal.bytes.injEq, FVal.uint.injEq, true_and, and_true] at hfv
  obtain ⟨hr, hs, hd⟩ := hfv
  refine ⟨f, k, hG, ?_, getD_eq_some _ _ _ hr hr0, hlo, hhi, hs, ?_, ?_, hk, hd, ?_, ?_, hused⟩
  · rw [hs, hd]; exact hstr
  · rw [hs, sha512Salt, C15.randSymbols_length, take_length_of_le _ _ hent]
  · rw [hs]; exact over_of_overHash _ hsa
  · rw [hd]; exact hlen
  · rw [hd]; exact over_of_overHash _ hsu

theorem params_of_newHash_sha512 (r : NewHashReq) (h : Bytes) (used : Nat)
    (hn : newHash sha512 r = .ok h used) :
    params sha512 h = .ok { salt := sha512Salt r, rounds := r.rounds } := by
  obtain ⟨k, hk, hm, -⟩ := newHash_sha512_inv r h used hn
  obtain ⟨hlo, hhi⟩ := key_sha512_rounds _ k hk
  have hr0 : r.rounds ≠ 0 := by
    have : Gen.sha512.MinRounds ≤ r.rounds := hlo
    unfold Gen.sha512.MinRounds at this; omega
  have hr32 : r.rounds < 2 ^ 32 := by
    have : r.rounds ≤ Gen.sha512.MaxRounds := hhi
    unfold Gen.sha512.MaxRounds at this; omega
  obtain ⟨-, -, hlen, -⟩ := marshal_sha512_inv _ _ _ _ _ hr0 hm
  obtain ⟨out, hu, hf⟩ := Shapes.roundtrip_sha512 _ _ _ _ _ rfl hr32 hlen hm
  rw [params_of_fields sha512 sha512TI h out _ tiOf_sha512 hu hf, checkArgs_sha512 _ _ _ _ _ _ hr0]

/-! ## sha1 -/

theorem newHash_canonical_sha1 (r : NewHashReq) (h : Bytes) (used : Nat)
    (hr : r.rounds < 2 ^ 32) (hent : sha1Used r ≤ r.entropy.length)
    (hn : newHash sha1 r = .ok h used) :
    ∃ f k, Grammar.sha1 h = some f ∧
      h = Gen.sha1.Prefix ++ Strconv.formatUint (sha1Rounds r) 10 ++ [36] ++ f.salt ++ [36] ++ f.sum ∧
      f.rounds = sha1Rounds r ∧
      f.salt = sha1Salt r ∧ f.salt.length = Gen.sha1.DefaultSaltLength ∧ Grammar.over Grammar.A f.salt = true ∧
      key sha1 (sha1Args r) = .ok k ∧ f.sum = sha1.encodeSum k ∧
      f.sum.length = Gen.sha1.sumLength ∧ Grammar.over Grammar.A f.sum = true ∧
      used = sha1Used r := by
  obtain ⟨k, hk, hm, hused⟩ := newHash_sha1_inv r h used hn
  obtain ⟨hstr, hsa, hlen, hsu⟩ := marshal_sha1_inv _ _ _ _ _ hm
  obtain ⟨out, hu, hf⟩ := Shapes.roundtrip_sha1 _ _ _ _ _ rfl (sha1Rounds_lt r hr) hlen hm
  obtain ⟨f, hG, hfv⟩ := grammar_of_roundtrip sha1TI _ sha1Out h out _ (unmarshal_sha1 h) hu hf
  rw [finalVals_sha1Out] at hfv
  simp only [sha1Vals, List.cons.injEq, Prod.mk.injEq, FVal.bytes.injEq, FVal.uint.injEq, true_and, and_true] at hfv
  obtain ⟨hro, hs, hd⟩ := hfv
  refine ⟨f, k, hG, ?_, hro, hs, ?_, ?_, hk, hd, ?_, ?_, hused⟩
  · rw [hs, hd]; exact hstr
  · rw [hs, sha1Salt, C15.randSymbols_length]
    apply take_length_of_le
    unfold sha1Ent; unfold sha1Used at hent
    by_cases hx : r.rounds = Gen.sha1.RandomRounds
    · rw [if_pos hx] at hent ⊢; rw [List.length_drop]; unfold Gen.sha1.DefaultSaltLength; omega
    · rw [if_neg hx] at hent ⊢; unfold Gen.sha1.DefaultSaltLength; omega
  · rw [hs]; exact over_of_overHash _ hsa
  · rw [hd]; exact hlen
  · rw [hd]; exact over_of_overHash _ hsu

theorem params_of_newHash_sha1 (r : NewHashReq) (h : Bytes) (used : Nat)
    (hr : r.rounds < 2 ^ 32) (hn : newHash sha1 r = .ok h used) :
    params sha1 h = .ok { salt := sha1Salt r, rounds := sha1Rounds r } := by
  obtain ⟨k, hk, hm, -⟩ := newHash_sha1_inv r h used hn
  obtain ⟨-, -, hlen, -⟩ := marshal_sha1_inv _ _ _ _ _ hm
  obtain ⟨out, hu, hf⟩ := Shapes.roundtrip_sha1 _ _ _ _ _ rfl (sha1Rounds_lt r hr) hlen hm
  rw [params_of_fields sha1 sha1TI h out _ tiOf_sha1 hu hf, checkArgs_sha1]

/-! ## nthash -/

theorem newHash_canonical_nthash (r : NewHashReq) (h : Bytes) (used : Nat)
    (hn : newHash nthash r = .ok h used) :
    ∃ f k, Grammar.nthash h = some f ∧
      h = Gen.nthash.Prefix ++ [36] ++ f.sum ∧
      key nthash (nthashArgs r) = .ok k ∧ f.sum = nthash.encodeSum k ∧
      f.sum.length = Gen.nthash.sumLength ∧ Grammar.over Grammar.A f.sum = true ∧ used = 0 := by
  obtain ⟨k, hk, hm, hused⟩ := newHash_nthash_inv r h used hn
  obtain ⟨hstr, hlen, hsu⟩ := marshal_nthash_inv _ _ _ hm
  obtain ⟨out, hu, hf⟩ := Shapes.roundtrip_nthash _ _ _ _ rfl rfl hlen hm
  obtain ⟨f, hG, hfv⟩ := grammar_of_roundtrip nthashTI _ nthashOut h out _ (unmarshal_nthash h) hu hf
  rw [finalVals_nthashOut] at hfv
  simp only [nthashVals, List.cons.injEq, Prod.mk.injEq, FVal.bytes.injEq, true_and, and_true] at hfv
  have hd : f.sum = Kdf.hexLower k := by simpa using hfv
  refine ⟨f, k, hG, ?_, hk, hd, ?_, ?_, hused⟩
  · rw [hd]; exact hstr
  · rw [hd]; exact hlen
  · rw [hd]; exact over_of_overHash _ hsu

theorem params_of_newHash_nthash (r : NewHashReq) (h : Bytes) (used : Nat)
    (hn : newHash nthash r = .ok h used) :
    params nthash h = .ok { password := Kdf.utf16le [] } := by
  obtain ⟨k, hk, hm, -⟩ := newHash_nthash_inv r h used hn
  obtain ⟨-, hlen, -⟩ := marshal_nthash_inv _ _ _ hm
  obtain ⟨out, hu, hf⟩ := Shapes.roundtrip_nthash _ _ _ _ rfl rfl hlen hm
  rw [params_of_fields nthash nthashTI h out _ tiOf_nthash hu hf, checkArgs_nthash]

/-! ## des -/

theorem newHash_canonical_des (r : NewHashReq) (h : Bytes) (used : Nat)
    (hn : newHash des r = .ok h used) (hne : h ≠ []) :
    ∃ f k, Grammar.des h = some f ∧
      h = f.salt ++ f.sum ∧
      f.salt = desSalt r ∧ f.salt.length = Gen.des.SaltLength ∧ Grammar.over Grammar.A f.salt = true ∧
      key des (desArgs r) = .ok k ∧ f.sum = des.encodeSum k ∧
      f.sum.length = Gen.des.sumLength ∧ Grammar.over Grammar.A f.sum = true ∧ used = Gen.des.SaltLength := by
  obtain ⟨k, hk, hm, hused⟩ := newHash_des_inv r h used hn hne
  obtain ⟨hstr, hsl, hsa, hlen, hsu⟩ := marshal_des_inv _ _ _ _ hm
  obtain ⟨out, hu, hf⟩ := Shapes.roundtrip_des _ _ _ _ rfl hlen hm
  obtain ⟨f, hG, hfv⟩ := grammar_of_roundtrip desTI _ desOut h out _ (unmarshal_des h) hu hf
  rw [finalVals_desOut] at hfv
  simp only [desVals, List.cons.injEq, Prod.mk.injEq, FVal.bytes.injEq, true_and, and_true] at hfv
  obtain ⟨hs, hd⟩ := hfv
  refine ⟨f, k, hG, ?_, hs, ?_, ?_, hk, hd, ?_, ?_, hused⟩
  · rw [hs, hd]; exact hstr
  · rw [hs]; exact hsl
  · rw [hs]; exact over_of_overHash _ hsa
  · rw [hd]; exact hlen
  · rw [hd]; exact over_of_overHash _ hsu

theorem params_of_newHash_des (r : NewHashReq) (h : Bytes) (used : Nat)
    (hn : newHash des r = .ok h used) (hne : h ≠ []) :
    params des h = .ok { salt := desSalt r } := by
  obtain ⟨k, hk, hm, -⟩ := newHash_des_inv r h used hn hne
  obtain ⟨-, -, -, hlen, -⟩ := marshal_des_inv _ _ _ _ hm
  obtain ⟨out, hu, hf⟩ := Shapes.roundtrip_des _ _ _ _ rfl hlen hm
  rw [params_of_fields des desTI h out _ tiOf_des hu hf, checkArgs_des]

/-! ## desext -/

theorem newHash_canonical_desext (r : NewHashReq) (h : Bytes) (used : Nat)
    (hn : newHash desext r = .ok h used) :
    ∃ f k, Grammar.desext h = some f ∧
      h = Gen.desext.Prefix ++ f.rounds ++ f.salt ++ f.sum ∧
      f.rounds = desEncodeInt r.rounds ∧ desDecodeInt f.rounds = r.rounds ∧
      Gen.desext.MinRounds ≤ r.rounds ∧ r.rounds ≤ Gen.desext.MaxRounds ∧
      f.salt = desextSalt r ∧ f.salt.length = Gen.desext.SaltLength ∧ Grammar.over Grammar.A f.salt = true ∧
      key desext (desextArgs r) = .ok k ∧ f.sum = desext.encodeSum k ∧
      f.sum.length = Gen.desext.sumLength ∧ Grammar.over Grammar.A f.sum = true ∧
      used = Gen.desext.SaltLength := by
  obtain ⟨k, hk, hm, hused⟩ := newHash_desext_inv r h used hn
  obtain ⟨hlo, hhi⟩ := key_desext_rounds _ k hk
  have hr24 : r.rounds < 2 ^ 24 := by
    have : r.rounds ≤ Gen.desext.MaxRounds := hhi
    unfold Gen.desext.MaxRounds at this; omega
  have hmod : r.rounds % 4294967296 = r.rounds := by omega
  obtain ⟨hstr, hsl, hsa, hlen, hsu⟩ := marshal_desext_inv _ _ _ _ _ hm
  obtain ⟨out, hu, hf⟩ := Shapes.roundtrip_desext _ _ _ _ _ rfl hr24 hlen hm
  obtain ⟨f, hG, hfv⟩ := grammar_of_roundtrip desextTI _ desextOut h out _ (unmarshal_desext h) hu hf
  have hinv := desextFields_out h f hG
  rw [finalVals_desextOut] at hfv
  simp only [desextVals, List.cons.injEq, Prod.mk.injEq, FVal.bytes.injEq, FVal.uint.injEq, true_and, and_true] at hfv
  obtain ⟨hro, hs, hd⟩ := hfv
  have hrt : f.rounds = desEncodeInt r.rounds := by
    have : some (Grammar.DesExt.mk (desEncodeInt (desDecodeInt f.rounds % 4294967296)) f.salt f.sum) = some f := hinv
    rw [hro, hmod] at this
    have := congrArg (fun o => o.map Grammar.DesExt.rounds) this
    simpa using this.symm
  refine ⟨f, k, hG, ?_, hrt, hro, hlo, hhi, hs, ?_, ?_, hk, hd, ?_, ?_, hused⟩
  · rw [hmod] at hstr; rw [hrt, hs, hd]; exact hstr
  · rw [hs]; exact hsl
  · rw [hs]; exact over_of_overHash _ hsa
  · rw [hd]; exact hlen
  · rw [hd]; exact over_of_overHash _ hsu

theorem params_of_newHash_desext (r : NewHashReq) (h : Bytes) (used : Nat)
    (hn : newHash desext r = .ok h used) :
    params desext h = .ok { salt := desextSalt r, rounds := r.rounds } := by
  obtain ⟨k, hk, hm, -⟩ := newHash_desext_inv r h used hn
  obtain ⟨-, hhi⟩ := key_desext_rounds _ k hk
  have hr24 : r.rounds < 2 ^ 24 := by
    have : r.rounds ≤ Gen.desext.MaxRounds := hhi
    unfold Gen.desext.MaxRounds at this; omega
  obtain ⟨-, -, -, hlen, -⟩ := marshal_desext_inv _ _ _ _ _ hm
  obtain ⟨out, hu, hf⟩ := Shapes.roundtrip_desext _ _ _ _ _ rfl hr24 hlen hm
  rw [params_of_fields desext desextTI h out _ tiOf_desext hu hf, checkArgs_desext]

/-! ## bcrypt -/

theorem newHash_canonical_bcrypt (r : NewHashReq) (h : Bytes) (used : Nat)
    (hn : newHash bcrypt r = .ok h used) :
    ∃ f k, Grammar.bcrypt h = some f ∧
      h = Gen.bcrypt.Prefix2b ++ twoDigit r.rounds ++ [36] ++ f.salt ++ f.sum ∧
      f.pfx = Gen.bcrypt.Prefix2b ∧ f.cost = r.rounds ∧
      Gen.bcrypt.MinCost ≤ r.rounds ∧ r.rounds ≤ Gen.bcrypt.MaxCost ∧
      f.salt = bcryptSalt r ∧ f.salt.length = Gen.bcrypt.SaltLength ∧ Grammar.over Grammar.A f.salt = true ∧
      key bcrypt (bcryptArgs r) = .ok k ∧ f.sum = bcrypt.encodeSum k ∧
      f.sum.length = Gen.bcrypt.sumLength ∧ Grammar.over Grammar.A f.sum = true ∧ used = 16 := by
  obtain ⟨k, hk, hm, hused⟩ := newHash_bcrypt_inv r h used hn
  obtain ⟨hlo, hhi⟩ := key_bcrypt_cost _ k rfl hk
  have hc : r.rounds ≤ 31 := hhi
  obtain ⟨hstr, hsl, hsa, hlen, hsu⟩ := marshal_bcrypt_inv _ _ _ _ _ hm
  obtain ⟨out, hu, hf⟩ := Shapes.roundtrip_bcrypt _ _ _ _ _ (Or.inr (Or.inr rfl)) (by omega) hlen hm
  obtain ⟨f, hG, hfv⟩ := grammar_of_roundtrip bcryptTI _ bcryptOut h out _ (unmarshal_bcrypt h) hu hf
  rw [finalVals_bcryptOut] at hfv
  simp only [bcryptVals, List.cons.injEq, Prod.mk.injEq, FVal.bytes.injEq, FVal.uint.injEq, FVal.str.injEq,
    true_and, and_true] at hfv
  obtain ⟨hp, hco, hs, hd⟩ := hfv
  refine ⟨f, k, hG, ?_, hp, hco, hlo, hhi, hs, ?_, ?_, hk, hd, ?_, ?_, hused⟩
  · rw [hs, hd]; exact hstr
  · rw [hs]; exact hsl
  · rw [hs]; exact over_of_overHash _ hsa
  · rw [hd]; exact hlen
  · rw [hd]; exact over_of_overHash _ hsu

theorem params_of_newHash_bcrypt (r : NewHashReq) (h : Bytes) (used : Nat)
    (hn : newHash bcrypt r = .ok h used) :
    params bcrypt h = .ok { salt := bcryptSalt r, rounds := r.rounds, optsNil := false,
                            optPrefix := Gen.bcrypt.Prefix2b } := by
  obtain ⟨k, hk, hm, -⟩ := newHash_bcrypt_inv r h used hn
  obtain ⟨-, hhi⟩ := key_bcrypt_cost _ k rfl hk
  have hc : r.rounds ≤ 31 := hhi
  obtain ⟨-, -, -, hlen, -⟩ := marshal_bcrypt_inv _ _ _ _ _ hm
  obtain ⟨out, hu, hf⟩ := Shapes.roundtrip_bcrypt _ _ _ _ _ (Or.inr (Or.inr rfl)) (by omega) hlen hm
  rw [params_of_fields bcrypt bcryptTI h out _ tiOf_bcrypt hu hf, checkArgs_bcrypt _ _ _ _ _ _ (by omega)]
  rfl

/-! ## sunmd5 -/

theorem sunmd5Salt_length (r : NewHashReq) (hent : Gen.sunmd5.DefaultSaltLength ≤ r.entropy.length) :
    (sunmd5Salt r).length = Gen.sunmd5.DefaultSaltLength := by
  rw [sunmd5Salt, C15.randSymbols_length, take_length_of_le _ _ hent]

theorem sunmd5_side (r : NewHashReq) :
    (sunmd5Prefix r = [36, 109, 100, 53, 44] ∨ sunmd5Prefix r = [36, 109, 100, 53, 36]) ∧
    (sunmd5Sep r = .nilPtr ∨ sunmd5Sep r = .str []) := by
  unfold sunmd5Prefix sunmd5Sep
  by_cases h0 : r.rounds = 0
  · rw [if_pos h0, if_pos h0]; exact ⟨Or.inr rfl, Or.inl rfl⟩
  · rw [if_neg h0, if_neg h0]; exact ⟨Or.inl rfl, Or.inr rfl⟩

theorem newHash_canonical_sunmd5 (r : NewHashReq) (h : Bytes) (used : Nat)
    (hent : Gen.sunmd5.DefaultSaltLength ≤ r.entropy.length)
    (hn : newHash sunmd5 r = .ok h used) :
    ∃ f k, Grammar.sunmd5 h = some f ∧
      h = sunmd5Prefix r ++ Grammar.kRounds ++ Strconv.formatUint r.rounds 10 ++ [36] ++ sunmd5Salt r ++
            sunmd5SepText (sunmd5Sep r) ++ f.sum ∧
      f.pfx = sunmd5Prefix r ∧ f.rounds = r.rounds ∧ r.rounds ≤ Gen.sunmd5.MaxRounds ∧
      f.salt = some (sunmd5Salt r) ∧ (sunmd5Salt r).length = Gen.sunmd5.DefaultSaltLength ∧
      Grammar.over Grammar.A (sunmd5Salt r) = true ∧
      f.sep = !decide (r.rounds = 0) ∧
      key sunmd5 (sunmd5Args r) = .ok k ∧ f.sum = sunmd5.encodeSum k ∧
      f.sum.length = Gen.sunmd5.sumLength ∧ Grammar.over Grammar.A f.sum = true ∧
      used = Gen.sunmd5.DefaultSaltLength := by
  obtain ⟨k, hk, hm, hused⟩ := newHash_sunmd5_inv r h used hn
  have hhi : r.rounds ≤ Gen.sunmd5.MaxRounds := key_sunmd5_bounds _ k rfl hk
  have hr32 : r.rounds < 2 ^ 32 := by unfold Gen.sunmd5.MaxRounds at hhi; omega
  obtain ⟨hlen, hsu⟩ := marshal_sunmd5_sum _ _ _ _ _ _ hm
  obtain ⟨hp, hsep⟩ := sunmd5_side r
  have hsl := sunmd5Salt_length r hent
  have hsne : sunmd5Salt r ≠ [] := by
    intro he; rw [he] at hsl; simp [Gen.sunmd5.DefaultSaltLength] at hsl
  obtain ⟨hstr, hsa⟩ := marshal_sunmd5_inv _ _ _ _ _ _ hsne hsep hm
  obtain ⟨out, hu, hf⟩ := Shapes.roundtrip_sunmd5 _ _ _ _ _ _ hp hr32 hlen hsep (Or.inl hsne) hm
  obtain ⟨f, hG, hfv⟩ := grammar_of_roundtrip sunmd5TI _ sunmd5Out h out _ (unmarshal_sunmd5 h) hu hf
  rw [finalVals_sunmd5Out] at hfv
  simp only [sunmd5Vals, List.cons.injEq, Prod.mk.injEq, FVal.bytes.injEq, FVal.uint.injEq, FVal.str.injEq,
    true_and, and_true] at hfv
  obtain ⟨hpf, hro, hs, hse, hd⟩ := hfv
  have hsep' : f.sep = !decide (r.rounds = 0) := by
    unfold sunmd5Sep at hse
    by_cases h0 : r.rounds = 0
    · rw [if_pos h0] at hse
      cases hfs : f.sep with
      | false => simp [h0]
      | true => rw [hfs] at hse; simp at hse
    · rw [if_neg h0] at hse
      cases hfs : f.sep with
      | false => rw [hfs] at hse; simp at hse
      | true => simp [h0]
  refine ⟨f, k, hG, ?_, hpf, hro, hhi, getD_eq_some _ _ _ hs hsne, hsl, over_of_overHash _ hsa, hsep', hk, hd, ?_, ?_, hused⟩
  · rw [hd]; exact hstr
  · rw [hd]; exact hlen
  · rw [hd]; exact over_of_overHash _ hsu

theorem params_of_newHash_sunmd5 (r : NewHashReq) (h : Bytes) (used : Nat)
    (hent : r.rounds = 0 ∨ r.entropy ≠ []) (hn : newHash sunmd5 r = .ok h used) :
    params sunmd5 h = .ok { salt := sunmd5Salt r, rounds := r.rounds, optsNil := false,
                            optPrefix := sunmd5Prefix r, optFlag := decide (r.rounds = 0) } := by
  obtain ⟨k, hk, hm, -⟩ := newHash_sunmd5_inv r h used hn
  have hhi : r.rounds ≤ Gen.sunmd5.MaxRounds := key_sunmd5_bounds _ k rfl hk
  have hr32 : r.rounds < 2 ^ 32 := by unfold Gen.sunmd5.MaxRounds at hhi; omega
  obtain ⟨hlen, -⟩ := marshal_sunmd5_sum _ _ _ _ _ _ hm
  obtain ⟨hp, hsep⟩ := sunmd5_side r
  have hgreedy : sunmd5Salt r ≠ [] ∨ sunmd5Sep r = .nilPtr := by
    rcases hent with h0 | hne
    · right; unfold sunmd5Sep; rw [if_pos h0]
    · left
      intro he
      have := congrArg List.length he
      rw [sunmd5Salt, C15.randSymbols_length] at this
      cases hre : r.entropy with
      | nil => exact hne hre
      | cons c cs => rw [hre] at this; simp [Gen.sunmd5.DefaultSaltLength] at this
  obtain ⟨out, hu, hf⟩ := Shapes.roundtrip_sunmd5 _ _ _ _ _ _ hp hr32 hlen hsep hgreedy hm
  rw [params_of_fields sunmd5 sunmd5TI h out _ tiOf_sunmd5 hu hf, checkArgs_sunmd5, sunmd5Sep_flag]

/-! ## argon2 -/

/-- `argon2.Key` succeeded (explicit options): memory and time are at least the exported minima. -/
theorem key_argon2_bounds (a : KeyArgs) (k : Bytes) (ho : a.optsNil = false) (h : key argon2 a = .ok k) :
    Gen.argon2.MinMemory ≤ a.memory ∧ Gen.argon2.MinTime ≤ a.rounds := by
  obtain ⟨hc, -⟩ := key_ok_of_guards argon2 Accepts.argon2 _ argon2_guards' a k h
  have h1 := hc (.memoryMin Gen.argon2.MinMemory "InvalidMemoryError") (by simp [Accepts.argon2])
  have h2 := hc (.roundsMin Gen.argon2.MinTime "InvalidTimeError") (by simp [Accepts.argon2])
  have hd : Accepts.argon2.defaults a = a := by simp [Accepts.argon2, ho]
  rw [hd] at h1 h2
  exact ⟨memoryMin_ok h1, roundsMin_ok h2⟩

theorem argon2Salt_length (r : NewHashReq) (hent : 8 ≤ r.entropy.length) :
    (argon2Salt r).length = Gen.argon2.DefaultSaltLength := by
  rw [argon2Salt, C15.stdEncode_length, take_length_of_le _ _ hent]
  decide

theorem newHash_canonical_argon2 (r : NewHashReq) (h : Bytes) (used : Nat)
    (hmem : r.memory < 2 ^ 32) (htime : r.rounds < 2 ^ 32) (hent : 8 ≤ r.entropy.length)
    (hdigest : ∀ k, key argon2 (argon2Args r) = .ok k → (argon2.encodeSum k).length = 43)
    (hn : newHash argon2 r = .ok h used) :
    ∃ f k, Grammar.argon2 h = some f ∧
      h = Gen.argon2.Prefix2id ++ argon2ParamText Gen.argon2.Version13 r.memory r.rounds Gen.argon2.DefaultThreads ++
            f.salt ++ [36] ++ f.sum ∧
      f.pfx = Gen.argon2.Prefix2id ∧ f.version = some Gen.argon2.Version13 ∧
      f.memory = r.memory ∧ f.time = r.rounds ∧ f.threads = Gen.argon2.DefaultThreads ∧
      Gen.argon2.MinMemory ≤ r.memory ∧ Gen.argon2.MinTime ≤ r.rounds ∧
      f.salt = argon2Salt r ∧ f.salt.length = Gen.argon2.DefaultSaltLength ∧ Grammar.over Grammar.B f.salt = true ∧
      key argon2 (argon2Args r) = .ok k ∧ f.sum = argon2.encodeSum k ∧
      f.sum.length = 43 ∧ Grammar.over Grammar.B f.sum = true ∧ used = 8 := by
  obtain ⟨k, hk, hm, hused⟩ := newHash_argon2_inv r h used hn
  obtain ⟨hlo1, hlo2⟩ := key_argon2_bounds _ k rfl hk
  have hlen := hdigest k hk
  have hne : argon2.encodeSum k ≠ [] := by
    intro he; rw [he] at hlen; cases hlen
  obtain ⟨hstr, hsa, hsu⟩ := marshal_argon2_inv _ _ _ _ _ _ _ _ (by decide) hm
  obtain ⟨out, hu, hf⟩ := Shapes.roundtrip_argon2 _ _ _ _ _ _ _ _ (Or.inr (Or.inr rfl)) (by decide) hmem htime
    (by decide) hne hm
  obtain ⟨f, hG, hfv⟩ := grammar_of_roundtrip argon2TI _ argon2Out h out _ (unmarshal_argon2 h) hu hf
  rw [finalVals_argon2Out] at hfv
  simp only [argon2Vals, List.cons.injEq, Prod.mk.injEq, FVal.bytes.injEq, FVal.uint.injEq, FVal.str.injEq,
    true_and, and_true] at hfv
  obtain ⟨hpf, hv, hme, hti, hth, hs, hd⟩ := hfv
  refine ⟨f, k, hG, ?_, hpf, getD_eq_some _ _ _ hv (by decide), hme, hti, hth, hlo1, hlo2, hs, ?_, ?_, hk, hd, ?_, ?_,
    hused⟩
  · rw [hs, hd]; exact hstr
  · rw [hs]; exact argon2Salt_length r hent
  · rw [hs]; exact over_of_overBase64 _ hsa
  · rw [hd]; exact hlen
  · rw [hd]; exact over_of_overBase64 _ hsu

theorem params_of_newHash_argon2 (r : NewHashReq) (h : Bytes) (used : Nat)
    (hmem : r.memory < 2 ^ 32) (htime : r.rounds < 2 ^ 32)
    (hdigest : ∀ k, key argon2 (argon2Args r) = .ok k → argon2.encodeSum k ≠ [])
    (hn : newHash argon2 r = .ok h used) :
    params argon2 h = .ok { salt := argon2Salt r, memory := r.memory, rounds := r.rounds,
                            threads := Gen.argon2.DefaultThreads, optsNil := false,
                            optPrefix := Gen.argon2.Prefix2id, optVersion := Gen.argon2.Version13 } := by
  obtain ⟨k, hk, hm, -⟩ := newHash_argon2_inv r h used hn
  obtain ⟨out, hu, hf⟩ := Shapes.roundtrip_argon2 _ _ _ _ _ _ _ _ (Or.inr (Or.inr rfl)) (by decide) hmem htime
    (by decide) (hdigest k hk) hm
  rw [params_of_fields argon2 argon2TI h out _ tiOf_argon2 hu hf, checkArgs_argon2 _ _ _ _ _ _ _ _ _ (by decide)]
  rfl

end GoCrypt.EndToEnd.Proofs
