import GoCrypt.Proofs.Absorb2Des

/-!
# BSDi: every password has a twin of 8 bytes (helper lemmas for `Props/C02b.lean`)

The folded key is used as a DES key, and DES ignores the eight parity positions: the 8-byte password
made of the seven upper bits of each byte of the folded key has the same hash, for every salt and count.
-/

namespace GoCrypt.Absorb2
open GoCrypt GoCrypt.Kdf GoCrypt.CryptSpec2 GoCrypt.C03bProofs

/-- The 8 bytes `b >>> 1` for the bytes `b` of a 64-bit word, most significant first. -/
def twin8 (k : UInt64) : Bytes := (List.range 8).map fun i => UInt8.ofNat (k.toNat / 256 ^ (7 - i) % 256 / 2)

theorem twin8_length (k : UInt64) : (twin8 k).length = 8 := by simp [twin8]

theorem twin8_byte (n : Nat) : (UInt8.ofNat (n % 256 / 2)).toNat % 128 * 2 = n % 256 - n % 2 := by
  rw [toNat_ofNat_lt' _ (by omega)]; omega

theorem desKeyOf_twin8_toNat (k : UInt64) :
    (desKeyOf (twin8 k)).toNat =
      (k.toNat / 256 ^ 7 % 256 - k.toNat / 256 ^ 7 % 2) * 256 ^ 7 + (k.toNat / 256 ^ 6 % 256 - k.toNat / 256 ^ 6 % 2) * 256 ^ 6 +
      (k.toNat / 256 ^ 5 % 256 - k.toNat / 256 ^ 5 % 2) * 256 ^ 5 + (k.toNat / 256 ^ 4 % 256 - k.toNat / 256 ^ 4 % 2) * 256 ^ 4 +
      (k.toNat / 256 ^ 3 % 256 - k.toNat / 256 ^ 3 % 2) * 256 ^ 3 + (k.toNat / 256 ^ 2 % 256 - k.toNat / 256 ^ 2 % 2) * 256 ^ 2 +
      (k.toNat / 256 ^ 1 % 256 - k.toNat / 256 ^ 1 % 2) * 256 + (k.toNat / 256 ^ 0 % 256 - k.toNat / 256 ^ 0 % 2) := by
  rw [desKeyOf_toNat, beNat_desKeyBytes]
  simp only [twin8, range8', List.map_cons, List.map_nil, List.getD_cons_zero, List.getD_cons_succ, Nat.reduceSub, twin8_byte]

set_option maxRecDepth 100000 in
theorem byte_bits : ∀ b, b < 256 → ∀ r, r < 8 → r ≠ 0 → (b - b % 2).testBit r = b.testBit r := by decide +kernel

theorem testBit_byte (x q r : Nat) (hr : r < 8) : x.testBit (8 * q + r) = (x / 2 ^ (8 * q) % 2 ^ 8).testBit r := by
  rw [Nat.testBit_mod_two_pow, Nat.testBit_div_two_pow, Nat.add_comm]; simp [hr]

/-- base-256 digits -/
theorem digit256 (c0 c1 c2 c3 c4 c5 c6 c7 x : Nat) (h0 : c0 < 256) (h1 : c1 < 256) (h2 : c2 < 256) (h3 : c3 < 256)
    (h4 : c4 < 256) (h5 : c5 < 256) (h6 : c6 < 256) (h7 : c7 < 256)
    (hx : x = c7 * 256 ^ 7 + c6 * 256 ^ 6 + c5 * 256 ^ 5 + c4 * 256 ^ 4 + c3 * 256 ^ 3 + c2 * 256 ^ 2 + c1 * 256 + c0) :
    x / 2 ^ (8 * 0) % 2 ^ 8 = c0 ∧ x / 2 ^ (8 * 1) % 2 ^ 8 = c1 ∧ x / 2 ^ (8 * 2) % 2 ^ 8 = c2 ∧ x / 2 ^ (8 * 3) % 2 ^ 8 = c3 ∧
    x / 2 ^ (8 * 4) % 2 ^ 8 = c4 ∧ x / 2 ^ (8 * 5) % 2 ^ 8 = c5 ∧ x / 2 ^ (8 * 6) % 2 ^ 8 = c6 ∧ x / 2 ^ (8 * 7) % 2 ^ 8 = c7 := by
  simp only [Nat.reducePow, Nat.reduceMul] at hx ⊢
  refine ⟨?_, ?_, ?_, ?_, ?_, ?_, ?_, ?_⟩ <;> omega

theorem sub_lt256 (a b : Nat) : a % 256 - b < 256 := Nat.lt_of_le_of_lt (Nat.sub_le _ _) (Nat.mod_lt _ (by decide))

theorem twin_bits (k x : Nat)
    (hx : x = (k / 256 ^ 7 % 256 - k / 256 ^ 7 % 2) * 256 ^ 7 + (k / 256 ^ 6 % 256 - k / 256 ^ 6 % 2) * 256 ^ 6 +
      (k / 256 ^ 5 % 256 - k / 256 ^ 5 % 2) * 256 ^ 5 + (k / 256 ^ 4 % 256 - k / 256 ^ 4 % 2) * 256 ^ 4 +
      (k / 256 ^ 3 % 256 - k / 256 ^ 3 % 2) * 256 ^ 3 + (k / 256 ^ 2 % 256 - k / 256 ^ 2 % 2) * 256 ^ 2 +
      (k / 256 ^ 1 % 256 - k / 256 ^ 1 % 2) * 256 + (k / 256 ^ 0 % 256 - k / 256 ^ 0 % 2)) :
    ∀ i, i < 64 → i % 8 ≠ 0 → x.testBit i = k.testBit i := by
  intro i hi h8
  have hd := digit256 _ _ _ _ _ _ _ _ x (sub_lt256 _ _) (sub_lt256 _ _) (sub_lt256 _ _) (sub_lt256 _ _) (sub_lt256 _ _)
    (sub_lt256 _ _) (sub_lt256 _ _) (sub_lt256 _ _) hx
  have hi' : i = 8 * (i / 8) + i % 8 := by omega
  rw [hi', testBit_byte x _ _ (Nat.mod_lt _ (by decide)), testBit_byte k _ _ (Nat.mod_lt _ (by decide))]
  have hb : x / 2 ^ (8 * (i / 8)) % 2 ^ 8 = k / 2 ^ (8 * (i / 8)) % 2 ^ 8 - (k / 2 ^ (8 * (i / 8)) % 2 ^ 8) % 2 := by
    have hq : i / 8 = 0 ∨ i / 8 = 1 ∨ i / 8 = 2 ∨ i / 8 = 3 ∨ i / 8 = 4 ∨ i / 8 = 5 ∨ i / 8 = 6 ∨ i / 8 = 7 := by omega
    obtain ⟨d0, d1, d2, d3, d4, d5, d6, d7⟩ := hd
    rcases hq with e | e | e | e | e | e | e | e <;> rw [e]
    · rw [d0]; simp only [Nat.reducePow, Nat.reduceMul]; omega
    · rw [d1]; simp only [Nat.reducePow, Nat.reduceMul]; omega
    · rw [d2]; simp only [Nat.reducePow, Nat.reduceMul]; omega
    · rw [d3]; simp only [Nat.reducePow, Nat.reduceMul]; omega
    · rw [d4]; simp only [Nat.reducePow, Nat.reduceMul]; omega
    · rw [d5]; simp only [Nat.reducePow, Nat.reduceMul]; omega
    · rw [d6]; simp only [Nat.reducePow, Nat.reduceMul]; omega
    · rw [d7]; simp only [Nat.reducePow, Nat.reduceMul]; omega
  rw [hb]
  exact byte_bits _ (Nat.mod_lt _ (by decide)) _ (Nat.mod_lt _ (by decide)) h8

theorem twin8_or (k : UInt64) : desKeyOf (twin8 k) ||| 0x0101010101010101 = k ||| 0x0101010101010101 := by
  rw [← UInt64.toNat_inj, UInt64.toNat_or, UInt64.toNat_or]
  have hm : (0x0101010101010101 : UInt64).toNat = 0x0101010101010101 := rfl
  rw [hm]
  apply Nat.eq_of_testBit_eq
  intro i
  rw [Nat.testBit_or, Nat.testBit_or]
  by_cases hi : i < 64
  · by_cases h8 : i % 8 = 0
    · rw [mask_testBit i hi]; simp [h8]
    · rw [twin_bits k.toNat _ (desKeyOf_twin8_toNat k) i hi h8]
  · have hp : (2 : Nat) ^ 64 ≤ 2 ^ i := Nat.pow_le_pow_right (by decide) (by omega)
    rw [Nat.testBit_lt_two_pow (Nat.lt_of_lt_of_le (UInt64.toNat_lt _) hp),
      Nat.testBit_lt_two_pow (Nat.lt_of_lt_of_le (UInt64.toNat_lt k) hp)]

theorem desextKey_len8 (g : Bytes) (h : g.length ≤ 8) : Des.desextKey g = desKeyOf g := by
  rw [desextKey_eq_fold]
  have hd : g.drop 8 = [] := List.drop_eq_nil_of_le h
  simp only [desextBlockKeys, desextBlocks, hd, groups8_nil, List.map_cons, List.map_nil, bsdiFold_singleton, desKeyOf_take8]

/-- The 8-byte twin of a password: the seven upper bits of each byte of its folded key. -/
def desextTwin (pw : Bytes) : Bytes := twin8 (Des.desextKey pw)

theorem desextTwin_or (pw : Bytes) :
    Des.desextKey (desextTwin pw) ||| 0x0101010101010101 = Des.desextKey pw ||| 0x0101010101010101 := by
  unfold desextTwin
  rw [desextKey_len8 _ (by rw [twin8_length]; exact Nat.le_refl _), twin8_or]

theorem desextBlocks_length_long (pw : Bytes) (h : 8 < pw.length) : 2 ≤ (desextBlocks pw).length := by
  unfold desextBlocks
  have : pw.drop 8 ≠ [] := by
    intro e
    have := congrArg List.length e
    rw [List.length_drop] at this
    simp at this
    omega
  rw [groups8_cons _ this]
  simp

theorem desextTwin_not_equiv (pw : Bytes) (h : 8 < pw.length) : ¬ desextEquiv (desextTwin pw) pw := by
  intro he
  have := congrArg List.length he
  rw [List.length_map, List.length_map] at this
  have h2 := desextBlocks_length_long pw h
  have h1 : (desextBlocks (desextTwin pw)).length = 1 := by
    unfold desextBlocks
    have hd : (desextTwin pw).drop 8 = [] := List.drop_eq_nil_of_le (by unfold desextTwin; rw [twin8_length]; exact Nat.le_refl _)
    rw [hd, groups8_nil]
    rfl
  omega

end GoCrypt.Absorb2
