import GoCrypt.Proofs.SIRDecBuf

/-!
# Stream IR, decoder side: `(*newlineFilteringReader).Read`

The regenerated `newlineFilteringReader.Read` is `DecSt.filteredRead` of the model: the inner `range`
loop compacts the window in place, the outer loop reads again while a read delivered only newlines.
Helper lemmas only; the property theorems are in `Props/SIRDecoder.lean`.
-/

namespace GoCrypt.SIR
open GoCrypt.B64IR (Buf Heap Slice Res sliceBytes writeList writeList_size writeList_append heap_set_self heap_lt_of_get)
open GoCrypt.Base64LE GoCrypt.Stream GoCrypt.Gen.base64leStream

/-! ## The parts of the generated body -/

/-- `n, err := r.wrapped.Read(p)` -/
def nfrFirst : Stmt := nfrReadIR.body.head
/-- `for n > 0 { … }` -/
def nfrFor : Stmt := (nfrReadIR.body.drop 1).head
def nfrBody : Stmt := nfrFor.forBody
/-- `return n, err` -/
def nfrTail : Stmt := nfrReadIR.body.drop 2
/-- `offset := 0`; the operand of the `range` loop -/
def nfrPre : Stmt := nfrBody.take 2
/-- the `range` loop -/
def nfrInner : Stmt := (nfrBody.drop 2).head
def nfrInnerBody : Stmt := nfrInner.forBody
/-- `if offset > 0 { return offset, err }; n, err = r.wrapped.Read(p)` -/
def nfrPost : Stmt := nfrBody.drop 3

theorem nfrFor_eq : nfrFor = .for_ nfrFor.forFuel nfrFor.forCond .skip nfrBody := rfl
theorem nfrInner_eq : nfrInner = .for_ nfrInner.forFuel nfrInner.forCond nfrInner.forPost nfrInnerBody := rfl
theorem nfr_split : nfrReadIR.body = (nfrFirst ;; nfrFor ;; nfrTail) := rfl
theorem nfrBody_split : nfrBody.drop 2 = (nfrInner ;; nfrPost) := rfl

/-! ## One iteration of the `range` loop -/

theorem nfrInner_step (c : Ctx) (H : Heap) (O : List Obj) (X : List Ext) (bp off want cap n o j : Nat) (Bc : Buf)
    (v0 vn ve v5 v6 : Val)
    (hb : H[bp]? = some Bc) (hin : off + want ≤ Bc.size) (hn : n ≤ want) (hj : j < n) (ho : o ≤ j) (hw : want < 2 ^ 62) :
    exec c nfrInnerBody ⟨H, O, X⟩ [v0, .slice ⟨bp, off, want, cap⟩, vn, ve, .int o, v5, v6, .slice ⟨bp, off, n, cap⟩, .int j] =
      .norm ⟨H.set bp (if isNL (Bc[off + j]'(by omega)) then Bc else Bc.setIfInBounds (off + o) (Bc[off + j]'(by omega))), O, X⟩
        [v0, .slice ⟨bp, off, want, cap⟩, vn, ve, .int ((if isNL (Bc[off + j]'(by omega)) then o else o + 1 : Nat)), .int j,
          .int (Bc[off + j]'(by omega)).toNat, .slice ⟨bp, off, n, cap⟩, .int j] := by
  have hbl : bp < H.length := heap_lt_of_get hb
  by_cases hnl : isNL (Bc[off + j]'(by omega)) = true
  · rw [if_pos hnl, if_pos hnl, heap_set_self H bp Bc hb]
    rcases (isNL_iff _).mp hnl with h | h
    · simp only [nfrInnerBody, nfrInner, nfrBody, nfrFor, Stmt.forBody, Stmt.head, Stmt.drop, nfrReadIR]
      b64_simp [hb, h]
    · simp only [nfrInnerBody, nfrInner, nfrBody, nfrFor, Stmt.forBody, Stmt.head, Stmt.drop, nfrReadIR]
      b64_simp [hb, h]
  · rw [if_neg hnl, if_neg hnl]
    have h10 : ¬ ((Bc[off + j]'(by omega)).toNat = 10) := fun h => hnl ((isNL_iff _).mpr (Or.inl h))
    have h13 : ¬ ((Bc[off + j]'(by omega)).toNat = 13) := fun h => hnl ((isNL_iff _).mpr (Or.inr h))
    by_cases hjo : j = o
    · subst hjo
      rw [setIfInBounds_same, heap_set_self H bp Bc hb]
      simp only [nfrInnerBody, nfrInner, nfrBody, nfrFor, Stmt.forBody, Stmt.head, Stmt.drop, nfrReadIR]
      b64_simp [hb, h10, h13]
    · simp only [nfrInnerBody, nfrInner, nfrBody, nfrFor, Stmt.forBody, Stmt.head, Stmt.drop, nfrReadIR]
      b64_simp [hb, h10, h13, hjo]

/-! ## The `range` loop: after `j` iterations the kept bytes of the first `j` are at the front -/

def nfrV5 (v5 : Val) : Nat → Val
  | 0 => v5
  | j + 1 => .int j
def nfrV6 (v6 : Val) (data : Bytes) : Nat → Val
  | 0 => v6
  | j + 1 => .int (data.getD j 0).toNat

/-- World and frame at the start of iteration `j` of the `range` loop. -/
def nfrInnerSt (H : Heap) (O : List Obj) (X : List Ext) (bp off want cap : Nat) (B1 : Buf) (data : Bytes)
    (v0 vn ve v5 v6 : Val) (j : Nat) : World × Env :=
  (⟨H.set bp (cbuf B1 off data j), O, X⟩,
   [v0, .slice ⟨bp, off, want, cap⟩, vn, ve, .int (nfilt (data.take j)).length, nfrV5 v5 j, nfrV6 v6 data j,
    .slice ⟨bp, off, data.length, cap⟩, .int j])

theorem nfrInner_run (c : Ctx) (H : Heap) (O : List Obj) (X : List Ext) (bp off want cap : Nat) (B1 : Buf) (data : Bytes)
    (v0 vn ve v5 v6 : Val)
    (hbl : bp < H.length) (hin : off + want ≤ B1.size) (hn : data.length ≤ want) (hw : want < 2 ^ 62)
    (hwin : ∀ i (h : i < data.length), B1[off + i]? = some data[i]) :
    exec c nfrInner (nfrInnerSt H O X bp off want cap B1 data v0 vn ve v5 v6 0).1
        (nfrInnerSt H O X bp off want cap B1 data v0 vn ve v5 v6 0).2 =
      .norm (nfrInnerSt H O X bp off want cap B1 data v0 vn ve v5 v6 data.length).1
        (nfrInnerSt H O X bp off want cap B1 data v0 vn ve v5 v6 data.length).2 := by
  rw [nfrInner_eq, exec_for]
  have hfuel : (eval (nfrInnerSt H O X bp off want cap B1 data v0 vn ve v5 v6 0).1
      (nfrInnerSt H O X bp off want cap B1 data v0 vn ve v5 v6 0).2 nfrInner.forFuel >>= asInt) =
      .ok ((1 + data.length : Nat) : Int) := by
    simp only [nfrInner, nfrBody, nfrFor, Stmt.forFuel, Stmt.forBody, Stmt.head, Stmt.drop, nfrReadIR, nfrInnerSt]
    b64_simp []
    rfl
  rw [hfuel, bindR_ok, Int.toNat_natCast]
  have hstep : ∀ k, k < data.length →
      exec c nfrInnerBody (nfrInnerSt H O X bp off want cap B1 data v0 vn ve v5 v6 k).1
        (nfrInnerSt H O X bp off want cap B1 data v0 vn ve v5 v6 k).2 =
      .norm ⟨H.set bp (cbuf B1 off data (k + 1)), O, X⟩
        [v0, .slice ⟨bp, off, want, cap⟩, vn, ve, .int (nfilt (data.take (k + 1))).length, .int k, .int (data.getD k 0).toNat,
          .slice ⟨bp, off, data.length, cap⟩, .int k] := by
    intro k hk
    have hsz := cbuf_size B1 off data k
    have hget : (cbuf B1 off data k)[off + k]'(by omega) = data[k] := by
      have h1 := cbuf_get B1 off data k k (Nat.le_refl _)
      rw [hwin k hk, Array.getElem?_eq_getElem (by omega)] at h1
      exact Option.some.inj h1
    have := nfrInner_step c (H.set bp (cbuf B1 off data k)) O X bp off want cap data.length (nfilt (data.take k)).length k
      (cbuf B1 off data k) v0 vn ve (nfrV5 v5 k) (nfrV6 v6 data k) (List.getElem?_set_self hbl) (by omega) hn hk
      (nfilt_take_le data k) hw
    simp only [nfrInnerSt]
    rw [this, List.set_set, hget, cbuf_succ B1 off data k hk, nfilt_take_succ data k hk]
    have hd : data.getD k 0 = data[k] := by simp [List.getD_eq_getElem?_getD, hk]
    rw [hd]
    by_cases hnl : isNL data[k] = true <;> simp [hnl]
  refine loop_count _ _ _ (nfrInnerSt H O X bp off want cap B1 data v0 vn ve v5 v6) data.length ?_ ?_ ?_ ?_ _ 0 (Nat.zero_le _) (by omega)
  · intro k hk
    simp only [nfrInner, nfrBody, nfrFor, Stmt.forCond, Stmt.forBody, Stmt.head, Stmt.drop, nfrReadIR, nfrInnerSt]
    b64_simp []
    exact congrArg _ (decide_eq_true (by omega))
  · simp only [nfrInner, nfrBody, nfrFor, Stmt.forCond, Stmt.forBody, Stmt.head, Stmt.drop, nfrReadIR, nfrInnerSt]
    b64_simp []
    exact congrArg _ (decide_eq_false (by omega))
  · intro k hk
    rw [hstep k hk, andThen_norm]
    simp only [nfrInner, nfrBody, nfrFor, Stmt.forPost, Stmt.forBody, Stmt.head, Stmt.drop, nfrReadIR, nfrInnerSt, nfrV5, nfrV6]
    b64_simp []
  · intro k hk
    exact ⟨_, _, hstep k hk⟩

/-! ## One iteration of the outer loop -/

theorem nfrPre_run (c : Ctx) (H : Heap) (O : List Obj) (X : List Ext) (bp off want cap : Nat) (B1 : Buf) (data : Bytes)
    (v0 ve v4 v5 v6 v7 v8 : Val) (hb : H[bp]? = some B1) (hn : data.length ≤ want) (hcap : want ≤ cap) :
    exec c nfrPre ⟨H, O, X⟩ [v0, .slice ⟨bp, off, want, cap⟩, .int data.length, ve, v4, v5, v6, v7, v8] =
      .norm (nfrInnerSt H O X bp off want cap B1 data v0 (.int data.length) ve v5 v6 0).1
        (nfrInnerSt H O X bp off want cap B1 data v0 (.int data.length) ve v5 v6 0).2 := by
  simp only [nfrInnerSt, cbuf_zero, heap_set_self H bp B1 hb, nfrV5, nfrV6]
  simp only [nfrPre, nfrBody, nfrFor, Stmt.take, Stmt.forBody, Stmt.head, Stmt.drop, nfrReadIR]
  b64_simp []
  rfl

/-- The object of a `newlineFilteringReader` around external reader `k`. -/
def nfrObj (k : Nat) : Obj := ⟨"newlineFilteringReader", [.ext k]⟩

theorem nfrPost_ret (c : Ctx) (W : World) (o : Nat) (v0 v1 vn v5 v6 v7 v8 : Val) (ve : Option Nat) (ho : 0 < o) :
    exec c nfrPost W [v0, v1, vn, .err ve, .int o, v5, v6, v7, v8] = .ret W [.int o, .err ve] := by
  have h0 : ((0 : Int) < (o : Int)) = True := by simp; omega
  simp only [nfrPost, nfrBody, nfrFor, Stmt.forBody, Stmt.head, Stmt.drop, nfrReadIR]
  b64_simp [h0]

theorem nfrPost_again (c : Ctx) (H : Heap) (O : List Obj) (X : List Ext) (nf k bp off want cap : Nat) (B1 : Buf) (st : DecSt)
    (vn ve v5 v6 v7 v8 : Val) (ho : O[nf]? = some (nfrObj k)) (hk : X[k]? = some (readerOf st))
    (hb : H[bp]? = some B1) (hin : off + want ≤ B1.size) :
    exec c nfrPost ⟨H, O, X⟩ [.ptr nf, .slice ⟨bp, off, want, cap⟩, vn, ve, .int (0 : Nat), v5, v6, v7, v8] =
      .norm ⟨H.set bp (writeList B1 off (st.rawRead want).2.1), O, X.set k (readerOf (st.rawRead want).1)⟩
        [.ptr nf, .slice ⟨bp, off, want, cap⟩, .int (st.rawRead want).2.1.length, .err (st.rawRead want).2.2, .int (0 : Nat),
          v5, v6, v7, v8] := by
  have hx := extRead_rawRead H O X k st ⟨bp, off, want, cap⟩ B1 hk hb hin
  simp only [nfrPost, nfrBody, nfrFor, Stmt.forBody, Stmt.head, Stmt.drop, nfrReadIR]
  b64_simp [ho, nfrObj, hx]

theorem nfrBody_eq (c : Ctx) (W : World) (env : Env) :
    exec c nfrBody W env = ((exec c nfrPre W env).andThen (exec c nfrInner)).andThen (exec c nfrPost) := by
  rw [exec_take_drop c W env 2 nfrBody, nfrBody_split]
  show (exec c nfrPre W env).andThen (exec c (nfrInner ;; nfrPost)) = _
  cases exec c nfrPre W env <;> rfl

/-- An iteration that finds a byte to keep returns. -/
theorem nfrBody_ret (c : Ctx) (H : Heap) (O : List Obj) (X : List Ext) (bp off want cap : Nat) (B1 : Buf) (data : Bytes)
    (v0 v4 v5 v6 v7 v8 : Val) (ve : Option Nat)
    (hb : H[bp]? = some B1) (hin : off + want ≤ B1.size) (hn : data.length ≤ want) (hcap : want ≤ cap) (hw : want < 2 ^ 62)
    (hwin : ∀ i (h : i < data.length), B1[off + i]? = some data[i]) (hf : 0 < (nfilt data).length) :
    exec c nfrBody ⟨H, O, X⟩ [v0, .slice ⟨bp, off, want, cap⟩, .int data.length, .err ve, v4, v5, v6, v7, v8] =
      .ret ⟨H.set bp (writeList B1 off (nfilt data)), O, X⟩ [.int (nfilt data).length, .err ve] := by
  rw [nfrBody_eq, nfrPre_run c H O X bp off want cap B1 data v0 (.err ve) v4 v5 v6 v7 v8 hb hn hcap, andThen_norm,
    nfrInner_run c H O X bp off want cap B1 data v0 _ _ v5 v6 (heap_lt_of_get hb) hin hn hw hwin, andThen_norm]
  simp only [nfrInnerSt, List.take_length, cbuf_all B1 off data data.length (Nat.le_refl _)]
  exact nfrPost_ret c _ _ _ _ _ _ _ _ _ _ hf

/-- An iteration over newlines only reads again. -/
theorem nfrBody_again (c : Ctx) (H : Heap) (O : List Obj) (X : List Ext) (nf k bp off want cap : Nat) (B1 : Buf) (data : Bytes)
    (st : DecSt) (v4 v5 v6 v7 v8 : Val) (ve : Option Nat)
    (ho : O[nf]? = some (nfrObj k)) (hk : X[k]? = some (readerOf st))
    (hb : H[bp]? = some B1) (hin : off + want ≤ B1.size) (hn : data.length ≤ want) (hcap : want ≤ cap) (hw : want < 2 ^ 62)
    (hwin : ∀ i (h : i < data.length), B1[off + i]? = some data[i]) (hf : (nfilt data).length = 0) :
    exec c nfrBody ⟨H, O, X⟩ [.ptr nf, .slice ⟨bp, off, want, cap⟩, .int data.length, .err ve, v4, v5, v6, v7, v8] =
      .norm ⟨H.set bp (writeList B1 off (st.rawRead want).2.1), O, X.set k (readerOf (st.rawRead want).1)⟩
        [.ptr nf, .slice ⟨bp, off, want, cap⟩, .int (st.rawRead want).2.1.length, .err (st.rawRead want).2.2, .int (0 : Nat),
          nfrV5 v5 data.length, nfrV6 v6 data data.length, .slice ⟨bp, off, data.length, cap⟩, .int data.length] := by
  rw [nfrBody_eq, nfrPre_run c H O X bp off want cap B1 data (.ptr nf) (.err ve) v4 v5 v6 v7 v8 hb hn hcap, andThen_norm,
    nfrInner_run c H O X bp off want cap B1 data (.ptr nf) _ _ v5 v6 (heap_lt_of_get hb) hin hn hw hwin, andThen_norm]
  have hnil : nfilt data = [] := List.eq_nil_of_length_eq_zero hf
  simp only [nfrInnerSt, List.take_length, cbuf_all B1 off data data.length (Nat.le_refl _), hnil, writeList, List.length_nil,
    heap_set_self H bp B1 hb]
  exact nfrPost_again c H O X nf k bp off want cap B1 st _ _ _ _ _ _ ho hk hb hin

end GoCrypt.SIR
