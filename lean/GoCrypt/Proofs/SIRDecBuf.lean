import GoCrypt.Proofs.SIRDecExt

/-!
# Stream IR, decoder side: buffers

What `writeList` does to the bytes of a buffer, windows of a buffer as lists, and the in-place
compaction of `newlineFilteringReader.Read`. Helper lemmas only.
-/

namespace GoCrypt.SIR
open GoCrypt.B64IR (Buf Heap Slice Res sliceBytes writeList writeList_size writeList_append heap_set_self heap_lt_of_get)
open GoCrypt.Base64LE GoCrypt.Stream

theorem writeList_getElem? (B : Buf) (off : Nat) (l : List UInt8) (i : Nat) :
    (writeList B off l)[i]? = if off ≤ i ∧ i < off + l.length ∧ i < B.size then l[i - off]? else B[i]? := by
  induction l generalizing B off with
  | nil =>
    have : ¬ (off ≤ i ∧ i < off + ([] : List UInt8).length ∧ i < B.size) := by simp; omega
    rw [if_neg this]; rfl
  | cons b rest ih =>
    simp only [writeList]
    rw [ih, Array.size_setIfInBounds, Array.getElem?_setIfInBounds, List.length_cons]
    by_cases h1 : off + 1 ≤ i ∧ i < off + 1 + rest.length ∧ i < B.size
    · rw [if_pos h1, if_pos (by omega)]
      have : i - off = (i - (off + 1)) + 1 := by omega
      rw [this, List.getElem?_cons_succ]
    · rw [if_neg h1]
      by_cases h2 : off = i
      · subst h2
        by_cases h3 : off < B.size
        · rw [if_pos rfl, if_pos h3, if_pos (by omega)]; simp
        · rw [if_pos rfl, if_neg h3, if_neg (by omega)]
          rw [Array.getElem?_eq_none (by omega)]
      · rw [if_neg h2, if_neg (by omega)]

theorem writeList_getElem?_out (B : Buf) (off : Nat) (l : List UInt8) (i : Nat) (h : i < off ∨ off + l.length ≤ i) :
    (writeList B off l)[i]? = B[i]? := by
  rw [writeList_getElem?, if_neg (by omega)]

theorem writeList_getElem?_in (B : Buf) (off : Nat) (l : List UInt8) (i : Nat) (h : i < l.length) (hb : off + l.length ≤ B.size) :
    (writeList B off l)[off + i]? = l[i]? := by
  rw [writeList_getElem?, if_pos (by omega), Nat.add_sub_cancel_left]

/-- The bytes of a window after `writeList` at its start. -/
theorem window_writeList (B : Buf) (off : Nat) (l : List UInt8) (hb : off + l.length ≤ B.size) :
    ((writeList B off l).toList.drop off).take l.length = l := by
  apply List.ext_getElem?
  intro i
  by_cases hi : i < l.length
  · rw [List.getElem?_take_of_lt hi, List.getElem?_drop, Array.getElem?_toList, writeList_getElem?_in B off l i hi hb]
  · rw [List.getElem?_eq_none (by simp; omega), List.getElem?_eq_none (by omega)]

/-- The bytes before the write position are kept. -/
theorem prefix_writeList (B : Buf) (off : Nat) (l : List UInt8) (n : Nat) (hn : n ≤ off) :
    (writeList B off l).toList.take n = B.toList.take n := by
  apply List.ext_getElem?
  intro i
  by_cases hi : i < n
  · rw [List.getElem?_take_of_lt hi, List.getElem?_take_of_lt hi, Array.getElem?_toList, Array.getElem?_toList,
      writeList_getElem?_out B off l i (by omega)]
  · rw [List.getElem?_eq_none (by simp; omega), List.getElem?_eq_none (by simp; omega)]

theorem setIfInBounds_same (B : Buf) (i : Nat) (h : i < B.size) : B.setIfInBounds i B[i] = B := by
  apply Array.ext_getElem?
  intro j
  rw [Array.getElem?_setIfInBounds]
  by_cases hj : i = j
  · subst hj; rw [if_pos rfl, if_pos h]; simp
  · rw [if_neg hj]

/-! ## Newlines -/

/-- The bytes that are not `\n` or `\r`. -/
def nfilt (l : Bytes) : Bytes := l.filter (fun c => !isNL c)

theorem isNL_iff (x : UInt8) : isNL x = true ↔ (x.toNat = 10 ∨ x.toNat = 13) := by
  simp only [isNL, Bool.or_eq_true, beq_iff_eq]
  constructor
  · rintro (h | h) <;> subst h <;> simp
  · rintro (h | h)
    · left; exact UInt8.toNat_inj.mp h
    · right; exact UInt8.toNat_inj.mp h

theorem nfilt_length_le (l : Bytes) : (nfilt l).length ≤ l.length := List.length_filter_le _ _

theorem nfilt_take_succ (l : Bytes) (j : Nat) (hj : j < l.length) :
    nfilt (l.take (j + 1)) = nfilt (l.take j) ++ (if isNL l[j] then [] else [l[j]]) := by
  rw [List.take_succ_eq_append_getElem hj, nfilt, List.filter_append]
  congr 1
  by_cases h : isNL l[j] = true <;> simp [List.filter, h]

/-! ## The compaction loop of `newlineFilteringReader.Read` -/

/-- The buffer after `j` iterations of the `range` loop: the kept bytes of the first `j` have moved to the front
of the window, nothing else has changed. -/
def cbuf (B : Buf) (off : Nat) (data : Bytes) (j : Nat) : Buf := writeList B off (nfilt (data.take j))

theorem cbuf_zero (B : Buf) (off : Nat) (data : Bytes) : cbuf B off data 0 = B := by simp [cbuf, nfilt, writeList]

theorem cbuf_size (B : Buf) (off : Nat) (data : Bytes) (j : Nat) : (cbuf B off data j).size = B.size := by simp [cbuf]

theorem nfilt_take_le (data : Bytes) (j : Nat) : (nfilt (data.take j)).length ≤ j := by
  have := nfilt_length_le (data.take j)
  simp only [List.length_take] at this
  omega

/-- Byte `j` of the window has not been touched by the first `j` iterations. -/
theorem cbuf_get (B : Buf) (off : Nat) (data : Bytes) (j : Nat) (i : Nat) (hi : j ≤ i) :
    (cbuf B off data j)[off + i]? = B[off + i]? := by
  have := nfilt_take_le data j
  exact writeList_getElem?_out B off _ _ (by omega)

theorem cbuf_succ (B : Buf) (off : Nat) (data : Bytes) (j : Nat) (hj : j < data.length) :
    cbuf B off data (j + 1) =
      if isNL data[j] then cbuf B off data j
      else (cbuf B off data j).setIfInBounds (off + (nfilt (data.take j)).length) data[j] := by
  unfold cbuf
  rw [nfilt_take_succ data j hj, writeList_append]
  by_cases h : isNL data[j] = true
  · simp [h, writeList]
  · simp [h, writeList]

theorem cbuf_all (B : Buf) (off : Nat) (data : Bytes) (j : Nat) (hj : data.length ≤ j) :
    cbuf B off data j = writeList B off (nfilt data) := by
  unfold cbuf; rw [List.take_of_length_le hj]

end GoCrypt.SIR
