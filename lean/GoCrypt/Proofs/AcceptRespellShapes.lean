import GoCrypt.Proofs.AcceptRespell

/-!
# C20 for the shipped layouts: every accepted string is a tolerated respelling of the canonical string
-/

namespace GoCrypt.Accept
open Bytes GoCrypt.Parse GoCrypt.Codec GoCrypt.Codec.Shapes GoCrypt.Respell


/-! ## Field-class steps of `align` -/

theorem emitted_of_required (vals : Vals) (fi : FieldInfo) (ho : fi.opts.omitEmpty = false) :
    emitted vals fi = true := by simp [emitted, ho]

/-- A written `[]byte` / `[n]byte` field, not inline, unnamed: the fragment is the glue plus its text. -/
theorem align_bytes (vals : Vals) (fuel : Nat) (fi : FieldInfo) (rest : List FieldInfo) (m : Bytes)
    (frs : List (List Bytes)) (glue t a : Bytes)
    (hg : fi.opts.group = false) (hem : emitted vals fi = true) (hinl : fi.opts.inline = false)
    (hmt : fi.marshalText = .none) (hk : fi.kind = .bytes ∨ ∃ n, fi.kind = .byteArray n)
    (hpfx : fi.opts.isPrefix = false) (hp : fi.opts.param = []) (henc : alphabetOf fi.opts.enc = some a)
    (hv : fieldVal vals fi = .bytes t) (hl : fi.opts.hasLength = true → t.length = fi.opts.length)
    (hover : Grammar.over a t = true) (hm : m = glue ++ t)
    (h2 : align vals fuel rest frs [] = true) :
    align vals (fuel + 1) (fi :: rest) ([m] :: frs) glue = true := by
  subst hm
  refine align_req vals fuel fi rest _ frs glue t hg hem ?_ hinl (memberIs_plain fi glue t hp) h2
  rw [hv]
  exact accepts_bytes fi t hmt hk hpfx hl ((firstInvalid_over _ a henc t).2 hover)

/-- A written inline `[]byte` field, unnamed: its text joins the glue. -/
theorem align_bytes_inline (vals : Vals) (fuel : Nat) (fi : FieldInfo) (rest : List FieldInfo)
    (frags : List (List Bytes)) (glue t a : Bytes)
    (hg : fi.opts.group = false) (hem : emitted vals fi = true) (hinl : fi.opts.inline = true)
    (hmt : fi.marshalText = .none) (hk : fi.kind = .bytes ∨ ∃ n, fi.kind = .byteArray n)
    (hpfx : fi.opts.isPrefix = false) (hp : fi.opts.param = []) (henc : alphabetOf fi.opts.enc = some a)
    (hv : fieldVal vals fi = .bytes t) (hl : fi.opts.hasLength = true → t.length = fi.opts.length)
    (hover : Grammar.over a t = true)
    (h2 : align vals fuel rest frags (glue ++ t) = true) :
    align vals (fuel + 1) (fi :: rest) frags glue = true := by
  refine align_inline vals fuel fi rest frags glue t hg hem ?_ hinl ?_
  · rw [hv]
    exact accepts_bytes fi t hmt hk hpfx hl ((firstInvalid_over _ a henc t).2 hover)
  · have : named fi t = t := by simp [named, hp]
    rw [this]; exact h2

/-- A written decimal field (named or not), not inline, no declared length. -/
theorem align_uint (vals : Vals) (fuel : Nat) (fi : FieldInfo) (rest : List FieldInfo) (m : Bytes)
    (frs : List (List Bytes)) (key body : Bytes) (bits n : Nat)
    (hg : fi.opts.group = false) (hem : emitted vals fi = true) (hinl : fi.opts.inline = false)
    (hmt : fi.marshalText = .none) (hut : fi.unmarshalText = .none) (hk : fi.kind = .uint bits)
    (hpfx : fi.opts.isPrefix = false) (hl : fi.opts.hasLength = false) (hb : fi.opts.base = 10)
    (henc : fi.opts.enc = .hash)
    (hkey : key = if fi.opts.param = [] then [] else fi.opts.param ++ [equals])
    (hv : fieldVal vals fi = .uint n) (hparse : Grammar.num bits body = some n) (hm : m = key ++ body)
    (h2 : align vals fuel rest frs [] = true) :
    align vals (fuel + 1) (fi :: rest) ([m] :: frs) [] = true := by
  subst hm
  have hp := (num_some_iff _ _ _).1 hparse
  have hn := parseUint_lt _ _ _ _ hp
  refine align_req vals fuel fi rest _ frs [] (Strconv.formatUint n 10) hg hem ?_ hinl
    (memberIs_uint fi key body bits n hut hk hb hkey hp _
      (Strconv.format_parse_uint 10 bits n (by decide) (by decide) hn)) h2
  rw [hv]
  exact accepts_uint10 fi n bits hmt hk hpfx hl hb henc

theorem splitOn_comma_over_A (s : Bytes) (h : Grammar.over Grammar.A s = true) :
    Respell.splitOn comma s = [s] :=
  splitOn_plain comma s (fun c hc e => over_A_no_comma s h (e ▸ hc))

theorem splitOn_comma_over_B (s : Bytes) (h : Grammar.over Grammar.B s = true) :
    Respell.splitOn comma s = [s] :=
  splitOn_plain comma s (fun c hc e => over_B_no_comma s h (e ▸ hc))

theorem splitOn_comma_of (s : Bytes) (h : comma ∉ s) : Respell.splitOn comma s = [s] :=
  splitOn_plain comma s (fun c hc e => h (e ▸ hc))

theorem over_nil (a : Bytes) : Grammar.over a [] = true := rfl

theorem emitted_uint (vals : Vals) (fi : FieldInfo) (n : Nat) (hv : fieldVal vals fi = .uint n) (hn : n ≠ 0) :
    emitted vals fi = true := by
  unfold emitted; rw [hv]; simp [isEmptyVal, hn]

theorem not_emitted_uint0 (vals : Vals) (fi : FieldInfo) (ho : fi.opts.omitEmpty = true)
    (hptr : fi.ptrDepth = 0) (hv : fieldVal vals fi = .uint 0) : emitted vals fi = false := by
  unfold emitted; rw [hv]; simp [isEmptyVal, ho, hptr]

/-! ## md5 -/

theorem respell_md5 (h : Bytes) (out : Vals) (hu : unmarshal md5TI h = .ok out) :
    respell md5TI (finalVals md5TI out) h = true := by
  obtain ⟨f, hG, rfl⟩ := (unmarshal_md5 h out).1 hu
  unfold Grammar.md5 at hG
  cases hs : Grammar.strip [36, 49, 36] h with
  | none => simp [hs] at hG
  | some rest =>
    simp only [hs] at hG
    have hh := (strip_some_iff _ _ _).1 hs
    subst hh
    obtain ⟨hps, h1, h2, h3⟩ := (md5Body_some _ _).1 hG
    have hv : finalVals md5TI (md5Out f) = md5Out f := rfl
    rw [hv]
    refine respell_of_align md5TI _ _ rest _ (by rfl) hps (by simp) ?_
    simp only [List.map, splitOn_comma_over_A _ h1, splitOn_comma_over_A _ h2]
    refine align_bytes _ 3 md5_Salt _ _ _ [] f.salt Grammar.A rfl rfl rfl rfl (Or.inl rfl) rfl rfl rfl rfl
      (by intro h; cases h) h1 rfl ?_
    refine align_bytes _ 2 md5_Sum _ _ _ [] f.sum Grammar.A rfl rfl rfl rfl (Or.inl rfl) rfl rfl rfl rfl
      (fun _ => h3) h2 rfl ?_
    exact align_nil _ 1

/-! ## nthash -/

theorem respell_nthash (h : Bytes) (out : Vals) (hu : unmarshal nthashTI h = .ok out) :
    respell nthashTI (finalVals nthashTI out) h = true := by
  obtain ⟨f, hG, rfl⟩ := (unmarshal_nthash h out).1 hu
  unfold Grammar.nthash at hG
  cases hs : Grammar.strip [36, 51, 36] h with
  | none => simp [hs] at hG
  | some rest =>
    simp only [hs] at hG
    have hh := (strip_some_iff _ _ _).1 hs
    subst hh
    obtain ⟨hps, h2, h3⟩ := (nthashBody_some _ _).1 hG
    have hv : finalVals nthashTI (nthashOut f) = nthashOut f := rfl
    rw [hv]
    refine respell_of_align nthashTI _ _ rest _ (by rfl) hps (by simp) ?_
    simp only [List.map, splitOn_comma_over_A _ (over_nil _), splitOn_comma_over_A _ h2]
    refine align_bytes _ 3 nthash_Empty _ _ _ [] [] Grammar.A rfl rfl rfl rfl (Or.inr ⟨0, rfl⟩) rfl rfl rfl rfl
      (fun _ => rfl) rfl rfl ?_
    refine align_bytes _ 2 nthash_Sum _ _ _ [] f.sum Grammar.A rfl rfl rfl rfl (Or.inr ⟨32, rfl⟩) rfl rfl rfl rfl
      (fun _ => h3) h2 rfl ?_
    exact align_nil _ 1

/-! ## sha1 -/

theorem respell_sha1 (h : Bytes) (out : Vals) (hu : unmarshal sha1TI h = .ok out) :
    respell sha1TI (finalVals sha1TI out) h = true := by
  obtain ⟨f, hG, rfl⟩ := (unmarshal_sha1 h out).1 hu
  unfold Grammar.sha1 at hG
  cases hs : Grammar.strip [36, 115, 104, 97, 49, 36] h with
  | none => simp [hs] at hG
  | some rest =>
    simp only [hs] at hG
    have hh := (strip_some_iff _ _ _).1 hs
    subst hh
    obtain ⟨r, hps, h0, h1, h2, h3⟩ := (sha1Body_some _ _).1 hG
    have hv : finalVals sha1TI (sha1Out f) = sha1Out f := rfl
    rw [hv]
    have hr : Grammar.over Grammar.A r = true := parseUint10_over 32 r _ ((num_some_iff _ _ _).1 h0)
    refine respell_of_align sha1TI _ _ rest _ (by rfl) hps (by simp) ?_
    simp only [List.map, splitOn_comma_over_A _ hr, splitOn_comma_over_A _ h1, splitOn_comma_over_A _ h2]
    refine align_uint _ 4 sha1_Rounds _ _ _ [] r 32 f.rounds rfl rfl rfl rfl rfl rfl rfl rfl rfl rfl rfl rfl h0
      rfl ?_
    refine align_bytes _ 3 sha1_Salt _ _ _ [] f.salt Grammar.A rfl rfl rfl rfl (Or.inl rfl) rfl rfl rfl rfl
      (by intro h; cases h) h1 rfl ?_
    refine align_bytes _ 2 sha1_Sum _ _ _ [] f.sum Grammar.A rfl rfl rfl rfl (Or.inr ⟨28, rfl⟩) rfl rfl rfl rfl
      (fun _ => h3) h2 rfl ?_
    exact align_nil _ 1

/-! ## des -/

theorem respell_des (h : Bytes) (out : Vals) (hu : unmarshal desTI h = .ok out) :
    respell desTI (finalVals desTI out) h = true := by
  obtain ⟨f, hG, rfl⟩ := (unmarshal_des h out).1 hu
  unfold Grammar.des at hG
  split at hG
  · cases hG
  · obtain ⟨x, hps, hlen, hov, rfl⟩ := (desBody_some _ _).1 hG
    have hv : finalVals desTI (desOut ⟨x.take 2, x.drop 2⟩) =
        [([0], .str []), ([1], .bytes (x.take 2)), ([2], .bytes (x.drop 2))] := rfl
    rw [hv]
    have hov' := hov
    rw [over_take_drop _ _ 2, Bool.and_eq_true] at hov'
    have := respell_of_align desTI [([0], .str []), ([1], .bytes (x.take 2)), ([2], .bytes (x.drop 2))]
      [] h _ (by rfl) hps (by simp) ?_
    · simpa using this
    simp only [List.map, splitOn_comma_over_A _ hov]
    refine align_bytes_inline _ 3 des_Salt _ _ [] (x.take 2) Grammar.A rfl rfl rfl rfl (Or.inl rfl) rfl rfl rfl rfl
      (fun _ => by simp only [List.length_take]; show min 2 x.length = 2; omega) hov'.1 ?_
    refine align_bytes _ 2 des_Sum _ _ _ _ (x.drop 2) Grammar.A rfl rfl rfl rfl (Or.inr ⟨11, rfl⟩) rfl rfl rfl rfl
      (fun _ => by simp only [List.length_drop]; show x.length - 2 = 11; omega) hov'.2
      (by simp) ?_
    exact align_nil _ 1


/-! ## sha256 -/

theorem respell_sha256 (h : Bytes) (out : Vals) (hu : unmarshal sha256TI h = .ok out) :
    respell sha256TI (finalVals sha256TI out) h = true := by
  obtain ⟨f, hG, rfl⟩ := (unmarshal_sha256 h out).1 hu
  unfold Grammar.sha256 at hG
  cases hs : Grammar.strip [36, 53, 36] h with
  | none => simp [hs] at hG
  | some rest =>
    simp only [hs] at hG
    have hh := (strip_some_iff _ _ _).1 hs
    subst hh
    generalize hps : Grammar.fragments rest = ps at hG
    match ps, hG, hps with
    | [salt, sum], hG, hps =>
      simp only [Grammar.sha2Body, Bool.and_eq_true, beq_iff_eq] at hG
      split at hG
      · next hc =>
        cases hG
        obtain ⟨⟨h1, h2⟩, h3⟩ := hc
        have hv : finalVals sha256TI (sha256Out ⟨none, salt, sum⟩) =
          [([0], .str [36, 53, 36]), ([1], .uint 0), ([2], .bytes salt), ([3], .bytes sum)] := rfl
        rw [hv]
        refine respell_of_align sha256TI _ _ rest _ (by rfl) hps (by simp) ?_
        simp only [List.map, splitOn_comma_over_A _ h1, splitOn_comma_over_A _ h2]
        refine align_omit_absent _ 4 sha256_Rounds _ _ _ rfl rfl ?_
        refine align_bytes _ 3 sha256_Salt _ _ _ [] salt Grammar.A rfl rfl rfl rfl (Or.inl rfl) rfl rfl rfl rfl
          (by intro h; cases h) h1 rfl ?_
        refine align_bytes _ 2 sha256_Sum _ _ _ [] sum Grammar.A rfl rfl rfl rfl (Or.inr ⟨43, rfl⟩) rfl rfl rfl rfl
          (fun _ => h3) h2 rfl ?_
        exact align_nil _ 1
      · cases hG
    | [r, salt, sum], hG, hps =>
      simp only [Grammar.sha2Body] at hG
      cases hsr : Grammar.strip Grammar.kRounds r with
      | none => simp [hsr] at hG
      | some t =>
        simp only [hsr] at hG
        cases hn : Grammar.num 32 t with
        | none => simp [hn] at hG
        | some n =>
          simp only [hn, Bool.and_eq_true, beq_iff_eq] at hG
          split at hG
          · next hc =>
            cases hG
            obtain ⟨⟨h1, h2⟩, h3⟩ := hc
            have hr : comma ∉ r := no_comma_of_strip_num _ _ _ _ _ (by decide) hsr hn
            have hrt := (strip_some_iff _ _ _).1 hsr
            have hv : finalVals sha256TI (sha256Out ⟨some n, salt, sum⟩) =
              [([0], .str [36, 53, 36]), ([1], .uint n), ([2], .bytes salt), ([3], .bytes sum)] := rfl
            rw [hv]
            refine respell_of_align sha256TI _ _ rest _ (by rfl) hps (by simp) ?_
            simp only [List.map, splitOn_comma_of _ hr, splitOn_comma_over_A _ h1, splitOn_comma_over_A _ h2]
            have htail : align [([0], .str [36, 53, 36]), ([1], .uint n), ([2], .bytes salt), ([3], .bytes sum)] 3
                [sha256_Salt, sha256_Sum] [[salt], [sum]] [] = true := by
              refine align_bytes _ 2 sha256_Salt _ _ _ [] salt Grammar.A rfl rfl rfl rfl (Or.inl rfl) rfl rfl rfl rfl
                (by intro h; cases h) h1 rfl ?_
              refine align_bytes _ 1 sha256_Sum _ _ _ [] sum Grammar.A rfl rfl rfl rfl (Or.inr ⟨43, rfl⟩) rfl rfl rfl rfl
                (fun _ => h3) h2 rfl ?_
              exact align_nil _ 0
            by_cases hn0 : n = 0
            · subst hn0
              show align [([0], .str [36, 53, 36]), ([1], .uint 0), ([2], .bytes salt), ([3], .bytes sum)] 4 (sha256_Rounds :: [sha256_Salt, sha256_Sum]) ([r] :: [[salt], [sum]]) [] = true
              refine align_omit_zero _ 3 sha256_Rounds _ r _ ?_ ?_ ?_ htail
              · rfl
              · rfl
              · rw [hrt]
                exact memberIsZero_uint sha256_Rounds Grammar.kRounds t 32 rfl rfl rfl rfl rfl
                  ((num_some_iff _ _ _).1 hn)
            · show align [([0], .str [36, 53, 36]), ([1], .uint n), ([2], .bytes salt), ([3], .bytes sum)] 4 (sha256_Rounds :: [sha256_Salt, sha256_Sum]) ([r] :: [[salt], [sum]]) [] = true
              refine align_uint _ 3 sha256_Rounds _ _ _ Grammar.kRounds t 32 n ?_ ?_ ?_ ?_ ?_ ?_ ?_ ?_ ?_ ?_ ?_ ?_ hn hrt
                htail
              · rfl
              · exact emitted_uint _ _ n rfl hn0
              all_goals rfl
          · cases hG
    | [], hG, _ => simp [Grammar.sha2Body] at hG
    | [_], hG, _ => simp [Grammar.sha2Body] at hG
    | _ :: _ :: _ :: _ :: _, hG, _ => simp [Grammar.sha2Body] at hG

/-! ## sha512 -/

theorem respell_sha512 (h : Bytes) (out : Vals) (hu : unmarshal sha512TI h = .ok out) :
    respell sha512TI (finalVals sha512TI out) h = true := by
  obtain ⟨f, hG, rfl⟩ := (unmarshal_sha512 h out).1 hu
  unfold Grammar.sha512 at hG
  cases hs : Grammar.strip [36, 54, 36] h with
  | none => simp [hs] at hG
  | some rest =>
    simp only [hs] at hG
    have hh := (strip_some_iff _ _ _).1 hs
    subst hh
    generalize hps : Grammar.fragments rest = ps at hG
    match ps, hG, hps with
    | [salt, sum], hG, hps =>
      simp only [Grammar.sha2Body, Bool.and_eq_true, beq_iff_eq] at hG
      split at hG
      · next hc =>
        cases hG
        obtain ⟨⟨h1, h2⟩, h3⟩ := hc
        have hv : finalVals sha512TI (sha512Out ⟨none, salt, sum⟩) =
          [([0], .str [36, 54, 36]), ([1], .uint 0), ([2], .bytes salt), ([3], .bytes sum)] := rfl
        rw [hv]
        refine respell_of_align sha512TI _ _ rest _ (by rfl) hps (by simp) ?_
        simp only [List.map, splitOn_comma_over_A _ h1, splitOn_comma_over_A _ h2]
        refine align_omit_absent _ 4 sha512_Rounds _ _ _ rfl rfl ?_
        refine align_bytes _ 3 sha512_Salt _ _ _ [] salt Grammar.A rfl rfl rfl rfl (Or.inl rfl) rfl rfl rfl rfl
          (by intro h; cases h) h1 rfl ?_
        refine align_bytes _ 2 sha512_Sum _ _ _ [] sum Grammar.A rfl rfl rfl rfl (Or.inr ⟨86, rfl⟩) rfl rfl rfl rfl
          (fun _ => h3) h2 rfl ?_
        exact align_nil _ 1
      · cases hG
    | [r, salt, sum], hG, hps =>
      simp only [Grammar.sha2Body] at hG
      cases hsr : Grammar.strip Grammar.kRounds r with
      | none => simp [hsr] at hG
      | some t =>
        simp only [hsr] at hG
        cases hn : Grammar.num 32 t with
        | none => simp [hn] at hG
        | some n =>
          simp only [hn, Bool.and_eq_true, beq_iff_eq] at hG
          split at hG
          · next hc =>
            cases hG
            obtain ⟨⟨h1, h2⟩, h3⟩ := hc
            have hr : comma ∉ r := no_comma_of_strip_num _ _ _ _ _ (by decide) hsr hn
            have hrt := (strip_some_iff _ _ _).1 hsr
            have hv : finalVals sha512TI (sha512Out ⟨some n, salt, sum⟩) =
              [([0], .str [36, 54, 36]), ([1], .uint n), ([2], .bytes salt), ([3], .bytes sum)] := rfl
            rw [hv]
            refine respell_of_align sha512TI _ _ rest _ (by rfl) hps (by simp) ?_
            simp only [List.map, splitOn_comma_of _ hr, splitOn_comma_over_A _ h1, splitOn_comma_over_A _ h2]
            have htail : align [([0], .str [36, 54, 36]), ([1], .uint n), ([2], .bytes salt), ([3], .bytes sum)] 3
                [sha512_Salt, sha512_Sum] [[salt], [sum]] [] = true := by
              refine align_bytes _ 2 sha512_Salt _ _ _ [] salt Grammar.A rfl rfl rfl rfl (Or.inl rfl) rfl rfl rfl rfl
                (by intro h; cases h) h1 rfl ?_
              refine align_bytes _ 1 sha512_Sum _ _ _ [] sum Grammar.A rfl rfl rfl rfl (Or.inr ⟨86, rfl⟩) rfl rfl rfl rfl
                (fun _ => h3) h2 rfl ?_
              exact align_nil _ 0
            by_cases hn0 : n = 0
            · subst hn0
              show align [([0], .str [36, 54, 36]), ([1], .uint 0), ([2], .bytes salt), ([3], .bytes sum)] 4 (sha512_Rounds :: [sha512_Salt, sha512_Sum]) ([r] :: [[salt], [sum]]) [] = true
              refine align_omit_zero _ 3 sha512_Rounds _ r _ ?_ ?_ ?_ htail
              · rfl
              · rfl
              · rw [hrt]
                exact memberIsZero_uint sha512_Rounds Grammar.kRounds t 32 rfl rfl rfl rfl rfl
                  ((num_some_iff _ _ _).1 hn)
            · show align [([0], .str [36, 54, 36]), ([1], .uint n), ([2], .bytes salt), ([3], .bytes sum)] 4 (sha512_Rounds :: [sha512_Salt, sha512_Sum]) ([r] :: [[salt], [sum]]) [] = true
              refine align_uint _ 3 sha512_Rounds _ _ _ Grammar.kRounds t 32 n ?_ ?_ ?_ ?_ ?_ ?_ ?_ ?_ ?_ ?_ ?_ ?_ hn hrt
                htail
              · rfl
              · exact emitted_uint _ _ n rfl hn0
              all_goals rfl
          · cases hG
    | [], hG, _ => simp [Grammar.sha2Body] at hG
    | [_], hG, _ => simp [Grammar.sha2Body] at hG
    | _ :: _ :: _ :: _ :: _, hG, _ => simp [Grammar.sha2Body] at hG

/-! ## desext -/

theorem hashAlphabet_inv : ∀ n, n < 256 → hashAlphabet.contains (UInt8.ofNat n) = true →
    hashDecode (UInt8.ofNat n) < 64 ∧ hashAlphabet.getD (hashDecode (UInt8.ofNat n)) 255 = UInt8.ofNat n := by
  decide +kernel

theorem hashAlphabet_inv' (c : UInt8) (hc : c ∈ hashAlphabet) :
    hashDecode c < 64 ∧ hashAlphabet.getD (hashDecode c) 255 = c := by
  have := hashAlphabet_inv c.toNat (UInt8.toNat_lt c)
  rw [UInt8.ofNat_toNat] at this
  exact this (by simpa using hc)

/-- Four symbols of the alphabet are the canonical spelling of the number they denote. -/
theorem desEncode_decode (r : Bytes) (hlen : r.length = 4) (hov : Grammar.over Grammar.A r = true) :
    desEncodeInt (desDecodeInt r % 4294967296) = r := by
  match r, hlen with
  | [c0, c1, c2, c3], _ =>
    have hmem := (over_iff _ _).1 hov
    obtain ⟨h0, e0⟩ := hashAlphabet_inv' c0 (hmem c0 (by simp))
    obtain ⟨h1, e1⟩ := hashAlphabet_inv' c1 (hmem c1 (by simp))
    obtain ⟨h2, e2⟩ := hashAlphabet_inv' c2 (hmem c2 (by simp))
    obtain ⟨h3, e3⟩ := hashAlphabet_inv' c3 (hmem c3 (by simp))
    have hr : List.range 4 = [0, 1, 2, 3] := by decide
    unfold desEncodeInt desDecodeInt
    rw [hr]
    simp only [List.map, List.take, List.zipIdx, List.foldl]
    have h63 : ∀ x, x &&& 63 = x % 64 := fun x => Nat.and_two_pow_sub_one_eq_mod x 6
    simp only [h63, Nat.shiftRight_eq_div_pow, Nat.shiftLeft_eq]
    generalize hashDecode c0 = d0 at *
    generalize hashDecode c1 = d1 at *
    generalize hashDecode c2 = d2 at *
    generalize hashDecode c3 = d3 at *
    simp only [Nat.reduceMul, Nat.reduceAdd, Nat.reducePow, Nat.zero_add]
    have hv : (((d0 * 1 % 4294967296 % 4294967296 + d1 * 64 % 4294967296) % 4294967296 + d2 * 4096 % 4294967296) %
        4294967296 + d3 * 262144 % 4294967296) % 4294967296 % 4294967296 =
        d0 + 64 * d1 + 4096 * d2 + 262144 * d3 := by omega
    rw [hv]
    have i0 : (d0 + 64 * d1 + 4096 * d2 + 262144 * d3) / 1 % 64 = d0 := by omega
    have i1 : (d0 + 64 * d1 + 4096 * d2 + 262144 * d3) / 64 % 64 = d1 := by omega
    have i2 : (d0 + 64 * d1 + 4096 * d2 + 262144 * d3) / 4096 % 64 = d2 := by omega
    have i3 : (d0 + 64 * d1 + 4096 * d2 + 262144 * d3) / 262144 % 64 = d3 := by omega
    rw [i0, i1, i2, i3, e0, e1, e2, e3]

/-- A written inline crypt(3)-integer field, unnamed: four alphabet symbols join the glue. -/
theorem align_desint_inline (vals : Vals) (fuel : Nat) (fi : FieldInfo) (rest : List FieldInfo)
    (frags : List (List Bytes)) (glue r : Bytes)
    (hg : fi.opts.group = false) (hem : emitted vals fi = true) (hinl : fi.opts.inline = true)
    (hmt : fi.marshalText = .desInt) (hp : fi.opts.param = [])
    (henc : alphabetOf fi.opts.enc = some Grammar.A)
    (hv : fieldVal vals fi = .uint (desDecodeInt r)) (hl : fi.opts.hasLength = true → r.length = fi.opts.length)
    (hlen : r.length = 4) (hover : Grammar.over Grammar.A r = true)
    (h2 : align vals fuel rest frags (glue ++ r) = true) :
    align vals (fuel + 1) (fi :: rest) frags glue = true := by
  refine align_inline vals fuel fi rest frags glue r hg hem ?_ hinl ?_
  · rw [hv]
    apply marshalValue_of
    · unfold marshalRaw
      simp only [hmt]
      rw [desEncode_decode r hlen hover]
    · exact hl
    · exact (firstInvalid_over _ _ henc r).2 hover
  · have : named fi r = r := by simp [named, hp]
    rw [this]; exact h2

theorem respell_desext (h : Bytes) (out : Vals) (hu : unmarshal desextTI h = .ok out) :
    respell desextTI (finalVals desextTI out) h = true := by
  obtain ⟨f, hG, rfl⟩ := (unmarshal_desext h out).1 hu
  unfold Grammar.desext at hG
  cases hs : Grammar.strip [95] h with
  | none => simp [hs] at hG
  | some rest =>
    simp only [hs] at hG
    have hh := (strip_some_iff _ _ _).1 hs
    subst hh
    obtain ⟨x, hps, hlen, hov, rfl⟩ := (desextBody_some _ _).1 hG
    have hv : finalVals desextTI (desextOut ⟨x.take 4, (x.drop 4).take 4, x.drop 8⟩) =
        [([0], .str [95]), ([1], .uint (desDecodeInt (x.take 4))), ([2], .bytes ((x.drop 4).take 4)),
          ([3], .bytes (x.drop 8))] := rfl
    rw [hv]
    have hov' := hov
    rw [over_take_drop _ _ 4, over_take_drop _ (x.drop 4) 4, List.drop_drop, Bool.and_eq_true,
      Bool.and_eq_true] at hov'
    refine respell_of_align desextTI _ _ rest _ (by rfl) hps (by simp) ?_
    simp only [List.map, splitOn_comma_over_A _ hov]
    refine align_desint_inline _ 4 desext_Rounds _ _ [] (x.take 4) rfl rfl rfl rfl rfl rfl rfl
      (fun _ => by simp only [List.length_take]; show min 4 x.length = 4; omega)
      (by simp only [List.length_take]; omega) hov'.1 ?_
    refine align_bytes_inline _ 3 desext_Salt _ _ _ ((x.drop 4).take 4) Grammar.A rfl rfl rfl rfl (Or.inl rfl)
      rfl rfl rfl rfl
      (fun _ => by simp only [List.length_take, List.length_drop]; show min 4 (x.length - 4) = 4; omega)
      hov'.2.1 ?_
    refine align_bytes _ 2 desext_Sum _ _ _ _ (x.drop 8) Grammar.A rfl rfl rfl rfl (Or.inr ⟨11, rfl⟩) rfl rfl rfl rfl
      (fun _ => by simp only [List.length_drop]; show x.length - 8 = 11; omega) hov'.2.2 ?_ ?_
    · have e1 : x.drop 8 = (x.drop 4).drop 4 := by rw [List.drop_drop]
      rw [e1]
      simp only [List.nil_append, List.append_assoc, List.take_append_drop]
    · exact align_nil _ 1

/-! ## bcrypt -/

theorem marshal_cost : ∀ n, n < 100 → marshalValue bcrypt_Cost (.uint n) = .ok (twoDigit n) := by
  decide +kernel

theorem parse2_lt (c : Bytes) (n bits : Nat) (hl : c.length = 2)
    (h : Strconv.parseUint c 10 bits = .ok n) : n < 100 := by
  match c, hl with
  | [a, b], _ =>
    simp only [Strconv.parseUint, List.cons_ne_nil, if_false, Strconv.parseDigits] at h
    cases ha : Strconv.digitVal a with
    | none => simp [ha] at h
    | some da =>
      simp only [ha] at h
      split at h
      · split at h
        · cases hb : Strconv.digitVal b with
          | none => simp [hb] at h
          | some db =>
            simp only [hb] at h
            split at h
            · split at h
              · simp only [Except.ok.injEq] at h; omega
              · cases h
            · cases h
        · cases h
      · cases h

theorem respell_bcrypt (h : Bytes) (out : Vals) (hu : unmarshal bcryptTI h = .ok out) :
    respell bcryptTI (finalVals bcryptTI out) h = true := by
  obtain ⟨f, hG, rfl⟩ := (unmarshal_bcrypt h out).1 hu
  unfold Grammar.bcrypt at hG
  cases hs : Grammar.stripAny Grammar.bcryptPrefixes h with
  | none => simp [hs] at hG
  | some pr =>
    obtain ⟨p, rest⟩ := pr
    simp only [hs] at hG
    obtain ⟨-, hh⟩ := stripAny_some_of _ _ _ _ hs
    subst hh
    obtain ⟨c, x, n, hps, hcl, hco, hcn, hxl, hxo, rfl⟩ := (bcryptBody_some _ _ _).1 hG
    have hv : finalVals bcryptTI (bcryptOut ⟨p, n, x.take 22, x.drop 22⟩) =
        [([0], .str p), ([1], .uint n), ([2], .bytes (x.take 22)), ([3], .bytes (x.drop 22))] := rfl
    rw [hv]
    have hxo' := hxo
    rw [over_take_drop _ _ 22, Bool.and_eq_true] at hxo'
    have hcp := (num_some_iff _ _ _).1 hcn
    have hlt : n < 100 := parse2_lt c n 8 hcl hcp
    refine respell_of_align bcryptTI _ _ rest _ (by rfl) hps (by simp) ?_
    simp only [List.map, splitOn_comma_over_A _ hco, splitOn_comma_over_A _ hxo]
    refine align_req _ 4 bcrypt_Cost _ c _ [] (twoDigit n) rfl rfl (marshal_cost n hlt) rfl
      (memberIs_uint bcrypt_Cost [] c 8 n rfl rfl rfl rfl hcp (twoDigit n) (twoDigit_parse n hlt)) ?_
    refine align_bytes_inline _ 3 bcrypt_Salt _ _ [] (x.take 22) Grammar.A rfl rfl rfl rfl (Or.inl rfl)
      rfl rfl rfl rfl
      (fun _ => by simp only [List.length_take]; show min 22 x.length = 22; omega) hxo'.1 ?_
    refine align_bytes _ 2 bcrypt_Sum _ _ _ _ (x.drop 22) Grammar.A rfl rfl rfl rfl (Or.inr ⟨31, rfl⟩) rfl rfl rfl rfl
      (fun _ => by simp only [List.length_drop]; show x.length - 22 = 31; omega) hxo'.2 (by simp) ?_
    exact align_nil _ 1

/-! ## sunmd5 -/

theorem emitted_bytes (vals : Vals) (fi : FieldInfo) (t : Bytes) (hv : fieldVal vals fi = .bytes t) (ht : t ≠ []) :
    emitted vals fi = true := by
  unfold emitted; rw [hv]; simp [isEmptyVal, ht]

/-- The optional salt of sunmd5, written as a fragment (possibly the empty text). -/
theorem align_sunmd5_Salt (vals : Vals) (fuel : Nat) (rest : List FieldInfo) (salt : Bytes)
    (frs : List (List Bytes)) (hv : fieldVal vals sunmd5_Salt = .bytes salt)
    (hov : Grammar.over Grammar.A salt = true) (h2 : align vals fuel rest frs [] = true) :
    align vals (fuel + 1) (sunmd5_Salt :: rest) ([salt] :: frs) [] = true := by
  by_cases hs : salt = []
  · subst hs
    refine align_omit_zero vals fuel sunmd5_Salt rest [] frs rfl ?_ (by decide) h2
    unfold emitted; rw [hv]; rfl
  · exact align_bytes vals fuel sunmd5_Salt rest _ frs [] salt Grammar.A rfl (emitted_bytes _ _ salt hv hs) rfl rfl
      (Or.inl rfl) rfl rfl rfl hv (by intro h; cases h) hov rfl h2

theorem respell_sunmd5 (h : Bytes) (out : Vals) (hu : unmarshal sunmd5TI h = .ok out) :
    respell sunmd5TI (finalVals sunmd5TI out) h = true := by
  obtain ⟨f, hG, rfl⟩ := (unmarshal_sunmd5 h out).1 hu
  unfold Grammar.sunmd5 at hG
  cases hs : Grammar.stripAny Grammar.sunmd5Prefixes h with
  | none => simp [hs] at hG
  | some pr =>
    obtain ⟨p, rest⟩ := pr
    simp only [hs] at hG
    obtain ⟨-, hh⟩ := stripAny_some_of _ _ _ _ hs
    subst hh
    generalize hps : Grammar.fragments rest = ps at hG
    match ps, hG, hps with
    | [r, sum], hG, hps =>
      simp only [Grammar.sunmd5Body] at hG
      cases hsr : Grammar.sunRounds r with
      | none => simp [hsr] at hG
      | some n =>
        simp only [hsr, Bool.and_eq_true, beq_iff_eq] at hG
        split at hG
        · next hc =>
          cases hG
          obtain ⟨h2, h3⟩ := hc
          obtain ⟨hk, hn⟩ := (sunRounds_iff _ _).1 hsr
          have hv : finalVals sunmd5TI (sunmd5Out ⟨p, n, none, false, sum⟩) =
            [([0, 0], .str p), ([0, 1], .uint n), ([0, 2], .bytes []), ([0, 3], .nilPtr), ([1], .bytes sum)] := rfl
          rw [hv]
          refine respell_of_align sunmd5TI _ _ rest _ (by rfl) hps (by simp) ?_
          simp only [List.map, splitOn_comma_of _ (sunRounds_no_comma _ _ hsr), splitOn_comma_over_A _ h2]
          show align [([0, 0], .str p), ([0, 1], .uint n), ([0, 2], .bytes []), ([0, 3], .nilPtr), ([1], .bytes sum)] 6
            (sunmd5_Rounds :: [sunmd5_Salt, sunmd5_Separator, sunmd5_Sum]) ([r] :: [[sum]]) [] = true
          refine align_uint _ 5 sunmd5_Rounds _ _ _ Grammar.kRounds (r.drop 7) 32 n ?_ ?_ ?_ ?_ ?_ ?_ ?_ ?_ ?_ ?_ ?_ ?_
            hn (prefix_split _ _ hk) ?_
          rotate_right
          · refine align_omit_absent _ 4 sunmd5_Salt _ _ _ rfl rfl ?_
            refine align_omit_absent _ 3 sunmd5_Separator _ _ _ rfl rfl ?_
            refine align_bytes _ 2 sunmd5_Sum _ _ _ [] sum Grammar.A rfl rfl rfl rfl (Or.inr ⟨22, rfl⟩) rfl rfl rfl
              rfl (fun _ => h3) h2 rfl ?_
            exact align_nil _ 1
          all_goals rfl
        · cases hG
    | [r, salt, sum], hG, hps =>
      simp only [Grammar.sunmd5Body] at hG
      cases hsr : Grammar.sunRounds r with
      | none => simp [hsr] at hG
      | some n =>
        simp only [hsr, Bool.and_eq_true, beq_iff_eq] at hG
        split at hG
        · next hc =>
          cases hG
          obtain ⟨⟨h1, h2⟩, h3⟩ := hc
          obtain ⟨hk, hn⟩ := (sunRounds_iff _ _).1 hsr
          have hv : finalVals sunmd5TI (sunmd5Out ⟨p, n, some salt, false, sum⟩) =
            [([0, 0], .str p), ([0, 1], .uint n), ([0, 2], .bytes salt), ([0, 3], .nilPtr), ([1], .bytes sum)] := rfl
          rw [hv]
          refine respell_of_align sunmd5TI _ _ rest _ (by rfl) hps (by simp) ?_
          simp only [List.map, splitOn_comma_of _ (sunRounds_no_comma _ _ hsr), splitOn_comma_over_A _ h1,
            splitOn_comma_over_A _ h2]
          show align [([0, 0], .str p), ([0, 1], .uint n), ([0, 2], .bytes salt), ([0, 3], .nilPtr), ([1], .bytes sum)] 6
            (sunmd5_Rounds :: [sunmd5_Salt, sunmd5_Separator, sunmd5_Sum]) ([r] :: [[salt], [sum]]) [] = true
          refine align_uint _ 5 sunmd5_Rounds _ _ _ Grammar.kRounds (r.drop 7) 32 n ?_ ?_ ?_ ?_ ?_ ?_ ?_ ?_ ?_ ?_ ?_ ?_
            hn (prefix_split _ _ hk) ?_
          rotate_right
          · refine align_sunmd5_Salt _ 4 _ salt _ rfl h1 ?_
            refine align_omit_absent _ 3 sunmd5_Separator _ _ _ rfl rfl ?_
            refine align_bytes _ 2 sunmd5_Sum _ _ _ [] sum Grammar.A rfl rfl rfl rfl (Or.inr ⟨22, rfl⟩) rfl rfl rfl
              rfl (fun _ => h3) h2 rfl ?_
            exact align_nil _ 1
          all_goals rfl
        · cases hG
    | [r, salt, e, sum], hG, hps =>
      simp only [Grammar.sunmd5Body] at hG
      cases hsr : Grammar.sunRounds r with
      | none => simp [hsr] at hG
      | some n =>
        simp only [hsr, Bool.and_eq_true, beq_iff_eq, List.isEmpty_iff] at hG
        split at hG
        · next hc =>
          cases hG
          obtain ⟨⟨⟨h1, rfl⟩, h2⟩, h3⟩ := hc
          obtain ⟨hk, hn⟩ := (sunRounds_iff _ _).1 hsr
          have hv : finalVals sunmd5TI (sunmd5Out ⟨p, n, some salt, true, sum⟩) =
            [([0, 0], .str p), ([0, 1], .uint n), ([0, 2], .bytes salt), ([0, 3], .str []), ([1], .bytes sum)] := rfl
          rw [hv]
          refine respell_of_align sunmd5TI _ _ rest _ (by rfl) hps (by simp) ?_
          simp only [List.map, splitOn_comma_of _ (sunRounds_no_comma _ _ hsr), splitOn_comma_over_A _ h1,
            splitOn_comma_over_A _ h2, splitOn_comma_over_A _ (over_nil _)]
          show align [([0, 0], .str p), ([0, 1], .uint n), ([0, 2], .bytes salt), ([0, 3], .str []), ([1], .bytes sum)] 6
            (sunmd5_Rounds :: [sunmd5_Salt, sunmd5_Separator, sunmd5_Sum]) ([r] :: [[salt], [[]], [sum]]) [] = true
          refine align_uint _ 5 sunmd5_Rounds _ _ _ Grammar.kRounds (r.drop 7) 32 n ?_ ?_ ?_ ?_ ?_ ?_ ?_ ?_ ?_ ?_ ?_ ?_
            hn (prefix_split _ _ hk) ?_
          rotate_right
          · refine align_sunmd5_Salt _ 4 _ salt _ rfl h1 ?_
            refine align_req _ 3 sunmd5_Separator _ [] _ [] [] rfl rfl (by rfl) rfl
              (memberIs_plain sunmd5_Separator [] [] rfl) ?_
            refine align_bytes _ 2 sunmd5_Sum _ _ _ [] sum Grammar.A rfl rfl rfl rfl (Or.inr ⟨22, rfl⟩) rfl rfl rfl
              rfl (fun _ => h3) h2 rfl ?_
            exact align_nil _ 1
          all_goals rfl
        · cases hG
    | [], hG, _ => simp [Grammar.sunmd5Body] at hG
    | [_], hG, _ => simp [Grammar.sunmd5Body] at hG
    | _ :: _ :: _ :: _ :: _ :: _, hG, _ => simp [Grammar.sunmd5Body] at hG

/-! ## argon2 -/

theorem removeFirst_eq_eraseP (p q : Bytes → Bool) : ∀ (ms : List Bytes) (x : Bytes),
    (∀ y, p y = true → q y = true) → ms.find? q = some x → p x = true →
    removeFirst p ms = some (ms.eraseP q)
  | [], _, _, hf, _ => by simp at hf
  | y :: ys, x, hpq, hf, hpx => by
    by_cases hq : q y = true
    · simp only [List.find?_cons, hq, Option.some.injEq] at hf
      subst hf
      simp [removeFirst, hpx, List.eraseP_cons_of_pos hq]
    · have hpy : p y = false := by
        cases hpy : p y with
        | false => rfl
        | true => exact absurd (hpq y hpy) hq
      have hq' : q y = false := by simpa using hq
      simp only [List.find?_cons, hq'] at hf
      have ih := removeFirst_eq_eraseP p q ys x hpq hf hpx
      simp [removeFirst, hpy, ih, List.eraseP_cons_of_neg hq]

theorem find?_eraseP_other (q q' : Bytes → Bool) (hconf : ∀ y, q y = true → q' y = true → False) :
    ∀ (ms : List Bytes), (ms.eraseP q).find? q' = ms.find? q'
  | [] => rfl
  | y :: ys => by
    by_cases hq : q y = true
    · have hq' : q' y = false := by
        cases h : q' y with
        | false => rfl
        | true => exact (hconf y hq h).elim
      simp [List.eraseP_cons_of_pos hq, List.find?_cons, hq']
    · rw [List.eraseP_cons_of_neg hq]
      simp only [List.find?_cons]
      cases q' y with
      | true => rfl
      | false => exact find?_eraseP_other q q' hconf ys

theorem memberIs_key (fi : FieldInfo) (t y key : Bytes) (hp : fi.opts.param ≠ [])
    (hkey : fi.opts.param ++ [equals] = key) (h : memberIs [] fi t y = true) : key.isPrefixOf y = true := by
  unfold memberIs unname at h
  simp only [hp, if_false, hkey, List.length_nil, List.drop_zero, Bool.and_eq_true] at h
  by_cases hk : key.isPrefixOf y = true
  · exact hk
  · simp [hk] at h

/-- One required, written, named decimal field of a group run takes the first member carrying its name. -/
theorem matchGroup_step (vals : Vals) (fi : FieldInfo) (rest : List FieldInfo) (ms : List Bytes)
    (key x : Bytes) (bits n : Nat)
    (ho : fi.opts.omitEmpty = false) (hmt : fi.marshalText = .none) (hut : fi.unmarshalText = .none)
    (hk : fi.kind = .uint bits) (hpfx : fi.opts.isPrefix = false) (hl : fi.opts.hasLength = false)
    (hb : fi.opts.base = 10) (henc : fi.opts.enc = .hash) (hp : fi.opts.param ≠ [])
    (hkey : fi.opts.param ++ [equals] = key) (hv : fieldVal vals fi = .uint n)
    (hf : ms.find? (fun y => key.isPrefixOf y) = some x)
    (hnum : Grammar.num bits (x.drop key.length) = some n) :
    matchGroup vals [] (fi :: rest) ms = matchGroup vals [] rest (ms.eraseP fun y => key.isPrefixOf y) := by
  have hparse := (num_some_iff _ _ _).1 hnum
  have hn := parseUint_lt _ _ _ _ hparse
  have hkx : key.isPrefixOf x = true := List.find?_some (p := fun y => key.isPrefixOf y) hf
  have hmv : marshalValue fi ((getVal vals fi.index).getD (zeroOf fi.kind fi.ptrDepth)) =
      .ok (Strconv.formatUint n 10) := by
    have := accepts_uint10 fi n bits hmt hk hpfx hl hb henc
    rw [← hv] at this
    exact this
  have hmem : memberIs [] fi (Strconv.formatUint n 10) x = true := by
    rw [prefix_split key x hkx]
    exact memberIs_uint fi key _ bits n hut hk hb (by simp [hp, hkey]) hparse _
      (Strconv.format_parse_uint 10 bits n (by decide) (by decide) hn)
  have hrf := removeFirst_eq_eraseP (memberIs [] fi (Strconv.formatUint n 10)) (fun y => key.isPrefixOf y) ms x
    (fun y hy => memberIs_key fi _ y key hp hkey hy) hf hmem
  rw [matchGroup.eq_def]
  simp only [ho, Bool.false_and, Bool.false_eq_true, if_false, hmv, hrf]

theorem member_some (key : Bytes) (bits : Nat) (ms : List Bytes) (n : Nat)
    (h : Grammar.member key bits ms = some n) :
    ∃ x, ms.find? (fun y => key.isPrefixOf y) = some x ∧ Grammar.num bits (x.drop key.length) = some n := by
  unfold Grammar.member at h
  cases hf : ms.find? (fun m => key.isPrefixOf m) with
  | none => simp [hf] at h
  | some x => simp only [hf] at h; exact ⟨x, rfl, h⟩

theorem kconf (a b : UInt8) (hab : a ≠ b) :
    ∀ y : Bytes, List.isPrefixOf [a, 61] y = true → List.isPrefixOf [b, 61] y = true → False :=
  fun y h1 h2 => key_conflict a b hab y h1 h2

/-- The parameter group, salt and digest of argon2 against the canonical texts. -/
theorem align_argon2_tail (vals : Vals) (fuel : Nat) (g salt sum : Bytes) (m t p : Nat)
    (hvM : fieldVal vals argon2_Memory = .uint m) (hvT : fieldVal vals argon2_Time = .uint t)
    (hvP : fieldVal vals argon2_Threads = .uint p) (hvS : fieldVal vals argon2_Salt = .bytes salt)
    (hvD : fieldVal vals argon2_Sum = .bytes sum)
    (hpar : Grammar.argon2Params g = some (m, t, p))
    (ho1 : Grammar.over Grammar.B salt = true) (ho2 : Grammar.over Grammar.B sum = true) :
    align vals (fuel + 3 + 1) [argon2_Memory, argon2_Time, argon2_Threads, argon2_Salt, argon2_Sum]
      [RefParse.splitOn comma g, [salt], [sum]] [] = true := by
  obtain ⟨hlen, hM, hT, hP⟩ := (argon2Params_iff g m t p).1 hpar
  generalize RefParse.splitOn comma g = ms at *
  obtain ⟨xM, hfM, hnM⟩ := member_some _ _ _ _ hM
  obtain ⟨xT, hfT, hnT⟩ := member_some _ _ _ _ hT
  obtain ⟨xP, hfP, hnP⟩ := member_some _ _ _ _ hP
  have hmatch : matchGroup vals [] [argon2_Memory, argon2_Time, argon2_Threads] ms = true := by
    rw [matchGroup_step vals argon2_Memory _ ms Grammar.kM xM 32 m rfl rfl rfl rfl rfl rfl rfl rfl (by decide) rfl
      hvM hfM hnM]
    have hfT' : (ms.eraseP fun y => Grammar.kM.isPrefixOf y).find? (fun y => Grammar.kT.isPrefixOf y) = some xT := by
      rw [find?_eraseP_other (fun y => Grammar.kM.isPrefixOf y) (fun y => Grammar.kT.isPrefixOf y)
        (fun y h1 h2 => key_conflict 109 116 (by decide) y h1 h2)]
      exact hfT
    rw [matchGroup_step vals argon2_Time _ _ Grammar.kT xT 32 t rfl rfl rfl rfl rfl rfl rfl rfl (by decide) rfl
      hvT hfT' hnT]
    have hfP' : ((ms.eraseP fun y => Grammar.kM.isPrefixOf y).eraseP fun y => Grammar.kT.isPrefixOf y).find?
        (fun y => Grammar.kP.isPrefixOf y) = some xP := by
      rw [find?_eraseP_other (fun y => Grammar.kT.isPrefixOf y) (fun y => Grammar.kP.isPrefixOf y)
          (fun y h1 h2 => key_conflict 116 112 (by decide) y h1 h2),
        find?_eraseP_other (fun y => Grammar.kM.isPrefixOf y) (fun y => Grammar.kP.isPrefixOf y)
          (fun y h1 h2 => key_conflict 109 112 (by decide) y h1 h2)]
      exact hfP
    rw [matchGroup_step vals argon2_Threads _ _ Grammar.kP xP 8 p rfl rfl rfl rfl rfl rfl rfl rfl (by decide) rfl
      hvP hfP' hnP]
    have hl1 : (ms.eraseP fun y => Grammar.kM.isPrefixOf y).length = ms.length - 1 :=
      List.length_eraseP_of_mem (List.mem_of_find?_eq_some hfM)
        (List.find?_some (p := fun y => Grammar.kM.isPrefixOf y) hfM)
    have hl2 : ((ms.eraseP fun y => Grammar.kM.isPrefixOf y).eraseP fun y => Grammar.kT.isPrefixOf y).length =
        (ms.eraseP fun y => Grammar.kM.isPrefixOf y).length - 1 :=
      List.length_eraseP_of_mem (List.mem_of_find?_eq_some hfT')
        (List.find?_some (p := fun y => Grammar.kT.isPrefixOf y) hfT')
    have hl3 : (((ms.eraseP fun y => Grammar.kM.isPrefixOf y).eraseP fun y => Grammar.kT.isPrefixOf y).eraseP
        fun y => Grammar.kP.isPrefixOf y).length =
        ((ms.eraseP fun y => Grammar.kM.isPrefixOf y).eraseP fun y => Grammar.kT.isPrefixOf y).length - 1 :=
      List.length_eraseP_of_mem (List.mem_of_find?_eq_some hfP')
        (List.find?_some (p := fun y => Grammar.kP.isPrefixOf y) hfP')
    have : (((ms.eraseP fun y => Grammar.kM.isPrefixOf y).eraseP fun y => Grammar.kT.isPrefixOf y).eraseP
        fun y => Grammar.kP.isPrefixOf y) = [] := by
      apply List.eq_nil_of_length_eq_zero
      omega
    rw [this]
    rfl
  have htail : align vals (fuel + 3) [argon2_Salt, argon2_Sum] [[salt], [sum]] [] = true := by
    refine align_bytes _ (fuel + 2) argon2_Salt _ _ _ [] salt Grammar.B rfl rfl rfl rfl (Or.inl rfl) rfl rfl rfl hvS
      (by intro h; cases h) ho1 rfl ?_
    refine align_bytes _ (fuel + 1) argon2_Sum _ _ _ [] sum Grammar.B rfl rfl rfl rfl (Or.inl rfl) rfl rfl rfl hvD
      (by intro h; cases h) ho2 rfl ?_
    exact align_nil _ fuel
  rw [align.eq_def]
  have hrun : takeGroupRun [argon2_Memory, argon2_Time, argon2_Threads, argon2_Salt, argon2_Sum] =
      ([argon2_Memory, argon2_Time, argon2_Threads], [argon2_Salt, argon2_Sum]) := rfl
  have hany : anyEmitted vals [argon2_Memory, argon2_Time, argon2_Threads] = true := by
    simp [anyEmitted, show argon2_Memory.opts.omitEmpty = false from rfl]
  simp only [show argon2_Memory.opts.group = true from rfl, if_true, hrun, hmatch, hany, htail, Bool.and_self,
    Bool.true_or]

theorem respell_argon2 (h : Bytes) (out : Vals) (hu : unmarshal argon2TI h = .ok out) :
    respell argon2TI (finalVals argon2TI out) h = true := by
  obtain ⟨f, hG, rfl⟩ := (unmarshal_argon2 h out).1 hu
  unfold Grammar.argon2 at hG
  cases hs : Grammar.stripAny Grammar.argon2Prefixes h with
  | none => simp [hs] at hG
  | some pr =>
    obtain ⟨q, rest⟩ := pr
    simp only [hs] at hG
    obtain ⟨-, hh⟩ := stripAny_some_of _ _ _ _ hs
    subst hh
    generalize hps : Grammar.fragments rest = ps at hG
    rcases argon2Body_cases q ps f hG with
      ⟨g, salt, sum, m, t, p, rfl, hpar, ho1, ho2, rfl⟩ |
      ⟨v, g, salt, sum, ver, m, t, p, rfl, hkv, hver, hpar, ho1, ho2, rfl⟩
    · have hv : finalVals argon2TI (argon2Out ⟨q, none, m, t, p, salt, sum⟩) =
        [([0], .str q), ([1], .uint 0), ([2], .uint m), ([3], .uint t), ([4], .uint p), ([5], .bytes salt),
          ([6], .bytes sum)] := rfl
      rw [hv]
      refine respell_of_align argon2TI _ _ rest _ (by rfl) hps (by simp) ?_
      simp only [List.map, splitOn_comma_over_B _ ho1, splitOn_comma_over_B _ ho2]
      show align [([0], .str q), ([1], .uint 0), ([2], .uint m), ([3], .uint t), ([4], .uint p), ([5], .bytes salt),
          ([6], .bytes sum)] 8
        (argon2_Version :: [argon2_Memory, argon2_Time, argon2_Threads, argon2_Salt, argon2_Sum])
        [RefParse.splitOn comma g, [salt], [sum]] [] = true
      refine align_omit_absent _ 7 argon2_Version _ _ _ rfl rfl ?_
      exact align_argon2_tail [([0], .str q), ([1], .uint 0), ([2], .uint m), ([3], .uint t), ([4], .uint p),
        ([5], .bytes salt), ([6], .bytes sum)] 3 g salt sum m t p rfl rfl rfl rfl rfl hpar ho1 ho2
    · have hvc : comma ∉ v :=
        no_comma_of_strip_num Grammar.kV v _ 8 ver (by decide) (strip_of_prefix _ _ hkv) hver
      have hv : finalVals argon2TI (argon2Out ⟨q, some ver, m, t, p, salt, sum⟩) =
        [([0], .str q), ([1], .uint ver), ([2], .uint m), ([3], .uint t), ([4], .uint p), ([5], .bytes salt),
          ([6], .bytes sum)] := rfl
      rw [hv]
      refine respell_of_align argon2TI _ _ rest _ (by rfl) hps (by simp) ?_
      simp only [List.map, splitOn_comma_of _ hvc, splitOn_comma_over_B _ ho1, splitOn_comma_over_B _ ho2]
      show align [([0], .str q), ([1], .uint ver), ([2], .uint m), ([3], .uint t), ([4], .uint p), ([5], .bytes salt),
          ([6], .bytes sum)] 8
        (argon2_Version :: [argon2_Memory, argon2_Time, argon2_Threads, argon2_Salt, argon2_Sum])
        ([v] :: [RefParse.splitOn comma g, [salt], [sum]]) [] = true
      have htail := align_argon2_tail [([0], .str q), ([1], .uint ver), ([2], .uint m), ([3], .uint t), ([4], .uint p),
          ([5], .bytes salt), ([6], .bytes sum)] 3 g salt sum m t p rfl rfl rfl rfl rfl hpar ho1 ho2
      by_cases hv0 : ver = 0
      · subst hv0
        refine align_omit_zero _ 7 argon2_Version _ v _ ?_ ?_ ?_ htail
        · rfl
        · rfl
        · rw [prefix_split _ _ hkv]
          exact memberIsZero_uint argon2_Version Grammar.kV _ 8 rfl rfl rfl rfl rfl ((num_some_iff _ _ _).1 hver)
      · refine align_uint _ 7 argon2_Version _ _ _ Grammar.kV (v.drop Grammar.kV.length) 8 ver ?_ ?_ ?_ ?_ ?_ ?_ ?_
          ?_ ?_ ?_ ?_ ?_ hver (prefix_split _ _ hkv) htail
        · rfl
        · exact emitted_uint _ _ ver rfl hv0
        all_goals rfl

end GoCrypt.Accept
