import GoCrypt.Proofs.CodecIRUStore

/-!
# Codec IR: `newUnmarshalError` on any node, and the first half of `unmarshal` (= the model's `fieldText`) on a value OR prefix node

The lemmas of `CodecIRUText.lean` are stated for value nodes.  Here the node is described by what the program reads of it
(`NodeFacts`: its `String()`, and — only for an inline field, where Go asserts `*parse.ValueNode` — that it is a value node) and
by what `newUnmarshalError` returns for it (`ErrCalls`).  Helper lemmas only.
-/

namespace GoCrypt.CIR
open GoCrypt.Codec GoCrypt.Gen.codecIR
open GoCrypt.TIIR (RType Res kindNum fiType fiObj tiObj encVal optsVals)

/-- The error value `newUnmarshalError` builds for a node whose `Type().String()` is `kl`. -/
def errRecK (kl : Bytes) (fin : Nat) (fi : FieldInfo) (st : RType) (msg : Val) : Val :=
  .recd "UnmarshalTypeError" [.str kl, .rtype (fiType fi), .int fin, .msg [.typeStr st], .name fi.name, msg]

theorem absErrU_errRecK (heap : TIIR.Heap) (kl : Bytes) (kind : String) (fin : Nat) (fi : FieldInfo) (st : RType) (msg : Val)
    (cls : MsgClass) (hk : kindName kl = some kind) (h : msgClassU msg = some cls) :
    absErrU heap (errRecK kl fin fi st msg) = some (.ute kind fin fi.name cls) := by
  simp [errRecK, absErrU, hk, h]

section newErrG
variable (c : Ctx) (m : Mem) (na tia a : Nat) (kn : Int) (kl : Bytes) (fin : Nat) (fi : FieldInfo) (st t0 : RType) (hp : TIIR.Val)
  (addrs : List Nat) (n : Int)
  (hty : ext1M m .nodeType (.node na) = .ok (.int kn)) (hks : ext1 .ntypeString (.int kn) = .ok (.str kl))
  (hend : ext1M m .nodeEnd (.node na) = .ok (.int fin))
  (ha : m.heap[a]? = some (fiObj fi)) (hti : m.heap[tia]? = some (tiObj (.rtype st) t0 hp addrs n))
include hty hks hend ha hti

theorem newUnmarshalErrorG_str (b : Bytes) :
    execProc c newUnmarshalErrorIR m [.node na, .ptr tia, .ptr a, .str b] = .ok (m, [errRecK kl fin fi st (.str b)]) := by
  rw [execProc_eq _ _ _ _ (by rfl)]
  show procResult (exec c newUnmarshalErrorIR.body m [.node na, .ptr tia, .ptr a, .str b, .undef]) = _
  simp only [newUnmarshalErrorIR]
  ci_simp [hty, hend, hks, fi_type m a fi ha, fi_name m a fi ha, ti_struct m tia _ _ _ _ _ hti]
  rfl

theorem newUnmarshalErrorG_msg (ps : List MsgPart) :
    execProc c newUnmarshalErrorIR m [.node na, .ptr tia, .ptr a, .msg ps] = .ok (m, [errRecK kl fin fi st (.msg ps)]) := by
  rw [execProc_eq _ _ _ _ (by rfl)]
  show procResult (exec c newUnmarshalErrorIR.body m [.node na, .ptr tia, .ptr a, .msg ps, .undef]) = _
  simp only [newUnmarshalErrorIR]
  ci_simp [hty, hend, hks, fi_type m a fi ha, fi_name m a fi ha, ti_struct m tia _ _ _ _ _ hti]
  rfl
end newErrG

/-- What `c.call 7` must do (it is `newUnmarshalError`), for any node. -/
def NewErrSpecG (c : Ctx) : Prop :=
  ∀ (m : Mem) (na tia a : Nat) (kn : Int) (kl : Bytes) (fin : Nat) (fi : FieldInfo) (st t0 : RType) (hp : TIIR.Val) (addrs : List Nat) (n : Int),
    ext1M m .nodeType (.node na) = .ok (.int kn) → ext1 .ntypeString (.int kn) = .ok (.str kl) →
    ext1M m .nodeEnd (.node na) = .ok (.int fin) → m.heap[a]? = some (fiObj fi) →
    m.heap[tia]? = some (tiObj (.rtype st) t0 hp addrs n) →
    (∀ b, c.call 7 m [.node na, .ptr tia, .ptr a, .str b] = .ok (m, [errRecK kl fin fi st (.str b)])) ∧
    (∀ ps, c.call 7 m [.node na, .ptr tia, .ptr a, .msg ps] = .ok (m, [errRecK kl fin fi st (.msg ps)]))

theorem newErrSpecG_callIn (w : World) (d : Nat) : NewErrSpecG (w.ctx (callIn program w (d + 1))) := by
  intro m na tia a kn kl fin fi st t0 hp addrs n hty hks hend ha hti
  constructor
  · intro b
    simp only [World.ctx]
    rw [callIn_succ program w d 7 m _ newUnmarshalErrorIR (by rfl)]
    exact newUnmarshalErrorG_str _ m na tia a kn kl fin fi st t0 hp addrs n hty hks hend ha hti b
  · intro ps
    simp only [World.ctx]
    rw [callIn_succ program w d 7 m _ newUnmarshalErrorIR (by rfl)]
    exact newUnmarshalErrorG_msg _ m na tia a kn kl fin fi st t0 hp addrs n hty hks hend ha hti ps

theorem NewErrSpecG.toValue {c : Ctx} (h : NewErrSpecG c) : NewErrSpec c := by
  intro m na tia a s0 pos fin fi st t0 hp addrs n hn ha hti
  exact h m na tia a 2 valueLit fin fi st t0 hp addrs n (ext1M_nodeType m na s0 pos fin hn) ntypeString_2
    (ext1M_nodeEnd m na s0 pos fin hn) ha hti

/-- What the calls `newUnmarshalError(node, ti, fi, msg)` made by `unmarshal` return: the record `errRecK kl fin fi st msg`, which
abstracts to the model's error of that node (kind, end offset), field and message class. -/
structure ErrCalls (c : Ctx) (m : Mem) (na tia a : Nat) (kl : Bytes) (kind : String) (fin : Nat) (fi : FieldInfo) (st : RType) : Prop where
  str : ∀ b, c.call 7 m [.node na, .ptr tia, .ptr a, .str b] = .ok (m, [errRecK kl fin fi st (.str b)])
  msg : ∀ ps, c.call 7 m [.node na, .ptr tia, .ptr a, .msg ps] = .ok (m, [errRecK kl fin fi st (.msg ps)])
  kind : kindName kl = some kind

theorem ErrCalls.abs {c : Ctx} {m : Mem} {na tia a : Nat} {kl : Bytes} {kind : String} {fin : Nat} {fi : FieldInfo} {st : RType}
    (h : ErrCalls c m na tia a kl kind fin fi st) (v : Val) (cls : MsgClass) (hv : msgClassU v = some cls) :
    absErrU m.heap (errRecK kl fin fi st v) = some (.ute kind fin fi.name cls) :=
  absErrU_errRecK _ _ _ _ _ _ _ _ h.kind hv

theorem ErrCalls.of_spec {c : Ctx} (h : NewErrSpecG c) (m : Mem) (na tia a : Nat) (kn : Int) (kl : Bytes) (kind : String) (fin : Nat)
    (fi : FieldInfo) (st t0 : RType) (hp : TIIR.Val) (addrs : List Nat) (n : Int)
    (hty : ext1M m .nodeType (.node na) = .ok (.int kn)) (hks : ext1 .ntypeString (.int kn) = .ok (.str kl))
    (hkn : kindName kl = some kind)
    (hend : ext1M m .nodeEnd (.node na) = .ok (.int fin)) (ha : m.heap[a]? = some (fiObj fi))
    (hti : m.heap[tia]? = some (tiObj (.rtype st) t0 hp addrs n)) :
    ErrCalls c m na tia a kl kind fin fi st := by
  obtain ⟨h1, h2⟩ := h m na tia a kn kl fin fi st t0 hp addrs n hty hks hend ha hti
  exact ⟨h1, h2, hkn⟩

/-! ## Prefix nodes -/

section pfxOps
variable (m : Mem) (na : Nat) (s0 : Bytes) (hn : m.nodes[na]? = some (.pfx s0))
include hn
theorem ext1M_nodeType_pfx : ext1M m .nodeType (.node na) = .ok (.int 0) := by simp [ext1M, hn, nodeOp]
theorem ext1M_nodeEnd_pfx : ext1M m .nodeEnd (.node na) = .ok (.int s0.length) := by simp [ext1M, hn, nodeOp]
theorem ext1M_nodeString_pfx : ext1M m .nodeString (.node na) = .ok (.str s0) := by simp [ext1M, hn, nodeOp]
end pfxOps

theorem ntypeString_0 : ext1 .ntypeString (.int 0) = .ok (.str [112, 114, 101, 102, 105, 120]) := by simp [ext1]
theorem ntypeString_1 : ext1 .ntypeString (.int 1) = .ok (.str [103, 114, 111, 117, 112]) := by simp [ext1]

/-! ## The text phase, on any node -/

/-- The memory after the deferred `val.Value = val.Value[Length:]` (which runs on every return once the inline rule has applied). -/
def deferMem (m : Mem) (inl : Bool) (na : Nat) (s0 : Bytes) (pos fin len : Nat) : Mem :=
  if inl then { m with nodes := m.nodes.set na (.value (s0.drop len) pos fin) } else m

@[simp] theorem deferMem_false (m : Mem) (na : Nat) (s0 : Bytes) (pos fin len : Nat) : deferMem m false na s0 pos fin len = m := rfl
@[simp] theorem deferMem_heap (m : Mem) (inl : Bool) (na : Nat) (s0 : Bytes) (pos fin len : Nat) :
    (deferMem m inl na s0 pos fin len).heap = m.heap := by cases inl <;> rfl
@[simp] theorem deferMem_dest (m : Mem) (inl : Bool) (na : Nat) (s0 : Bytes) (pos fin len : Nat) :
    (deferMem m inl na s0 pos fin len).dest = m.dest := by cases inl <;> rfl

section textG
variable (c : Ctx) (m : Mem) (na tia a : Nat) (s0 : Bytes) (pos fin : Nat) (fi : FieldInfo) (kl : Bytes) (kind : String) (st : RType) (cv : Val)
  (hstr : ext1M m .nodeString (.node na) = .ok (.str s0)) (ha : m.heap[a]? = some (fiObj fi))
  (hec : ErrCalls c m na tia a kl kind fin fi st)
  (hval : (fi.opts.hasLength && fi.opts.inline) = true → m.nodes[na]? = some (.value s0 pos fin))

include hstr ha in
theorem gT1_spec (x4 x5 x6 x7 x8 x9 x10 x11 x12 x13 x14 x15 x16 x17 x18 x19 x20 x21 x22 x23 x24 x25 x26 x27 : Val) :
    exec c uT1 m [.node na, .ptr tia, .ptr a, cv, x4, x5, x6, x7, x8, x9, x10, x11, x12, x13, x14, x15, x16, x17, x18, x19, x20, x21, x22,
        x23, x24, x25, x26, x27] =
      .norm m [.node na, .ptr tia, .ptr a, cv, .str (trimmed fi s0), x5, x6, x7, x8, x9, x10, x11, x12, x13, x14, x15, .bool false, x17, x18,
        x19, x20, x21, x22, x23, x24, x25, x26, x27] := by
  simp only [uT1, unmarshalIR, Stmt.take]
  by_cases hpm : fi.opts.param = []
  · have : trimmed fi s0 = s0 := by simp [trimmed, hpm]
    rw [this]
    cases cv <;> ci_simp [hstr, fi_param m a fi ha, hpm]
  · have : trimmed fi s0 = if (fi.opts.param ++ [61]).isPrefixOf s0 then s0.drop (fi.opts.param ++ [61]).length else s0 := by
      simp [trimmed, hpm, Bytes.equals]
    rw [this]
    cases cv <;> ci_simp [hstr, fi_param m a fi ha, hpm, ext2]

include ha hec hval in
theorem gT2_spec (x5 x6 x7 x8 x9 x10 x11 x12 x13 x14 x15 x17 x18 x19 x20 x21 x22 x23 x24 x25 x26 x27 : Val) :
    match lenRule fi s0 with
    | none => ∃ v, exec c uT2 m [.node na, .ptr tia, .ptr a, cv, .str (trimmed fi s0), x5, x6, x7, x8, x9, x10, x11, x12, x13, x14, x15,
          .bool false, x17, x18, x19, x20, x21, x22, x23, x24, x25, x26, x27] = .ret m [v] ∧
        absErrU m.heap v = some (.ute kind fin fi.name .lengthMismatch)
    | some (s, inl) => ∃ y5, exec c uT2 m [.node na, .ptr tia, .ptr a, cv, .str (trimmed fi s0), x5, x6, x7, x8, x9, x10, x11, x12, x13, x14, x15,
          .bool false, x17, x18, x19, x20, x21, x22, x23, x24, x25, x26, x27] =
        .norm m [.node na, .ptr tia, .ptr a, cv, .str s, y5, x6, x7, x8, x9, x10, x11, x12, x13, x14, x15,
          .bool inl, x17, x18, x19, x20, x21, x22, x23, x24, x25, x26, x27] ∧
        (inl = true → y5 = .node na ∧ fi.opts.length ≤ s0.length ∧ m.nodes[na]? = some (.value s0 pos fin)) := by
  have hcall := hec.str lengthMismatchLit
  have herr : absErrU m.heap (errRecK kl fin fi st (.str lengthMismatchLit)) = some (.ute kind fin fi.name .lengthMismatch) :=
    hec.abs _ _ (by simp [msgClassU])
  simp only [uT2, unmarshalIR, Stmt.take, Stmt.drop, lenRule]
  simp only [lengthMismatchLit] at hcall
  cases hhl : fi.opts.hasLength
  · exact ⟨x5, by ci_simp [fi_hasLength m a fi ha, hhl], by simp⟩
  · cases hinl : fi.opts.inline
    · by_cases hlen : (trimmed fi s0).length = fi.opts.length
      · simp only [hlen, ne_eq, not_true_eq_false, if_false, if_true]
        exact ⟨x5, by ci_simp [fi_hasLength m a fi ha, hhl, fi_inline m a fi ha, hinl, fi_length m a fi ha, hlen], by simp⟩
      · simp only [hlen, ne_eq, not_false_eq_true, if_true]
        refine ⟨_, ?_, herr⟩
        ci_simp [fi_hasLength m a fi ha, hhl, fi_inline m a fi ha, hinl, fi_length m a fi ha, hlen, hcall, errRecK]
        rfl
    · have hn : m.nodes[na]? = some (.value s0 pos fin) := hval (by rw [hhl, hinl]; rfl)
      by_cases hlen : (trimmed fi s0).length < fi.opts.length
      · simp only [hlen, if_true]
        refine ⟨_, ?_, herr⟩
        ci_simp [fi_hasLength m a fi ha, hhl, fi_inline m a fi ha, hinl, fi_length m a fi ha, hlen, hcall, errRecK]
        rfl
      · simp only [hlen, if_false]
        have hle : fi.opts.length ≤ s0.length := by
          have : (trimmed fi s0).length ≤ s0.length := by
            unfold trimmed; split <;> simp
          omega
        have hle' : (0 : Int) ≤ (fi.opts.length : Int) ∧ (fi.opts.length : Int) ≤ (s0.length : Int) := by omega
        refine ⟨.node na, ?_, fun _ => ⟨rfl, hle, hn⟩⟩
        ci_simp [fi_hasLength m a fi ha, hhl, fi_inline m a fi ha, hinl, fi_length m a fi ha, hlen,
          ext1M_assertValue m na s0 pos fin hn, ext1M_nodeValue m na s0 pos fin hn, sliceToVal, hle']

include ha hec in
theorem gT3_spec (hidx : IndexAnyInvalidSpec c.indexAnyInvalid) (s : Bytes) (inl : Bool) (y5 : Val)
    (hy5 : inl = true → y5 = .node na ∧ fi.opts.length ≤ s0.length ∧ m.nodes[na]? = some (.value s0 pos fin))
    (x6 x7 x8 x9 x10 x11 x12 x13 x14 x15 x17 x18 x19 x20 x21 x22 x23 x24 x25 x26 x27 : Val) :
    match firstInvalid fi.opts.enc s with
    | some ch => ∃ m' v, exec c uT3 m [.node na, .ptr tia, .ptr a, cv, .str s, y5, x6, x7, x8, x9, x10, x11, x12, x13, x14, x15,
          .bool inl, x17, x18, x19, x20, x21, x22, x23, x24, x25, x26, x27] = .ret m' [v] ∧ m'.heap = m.heap ∧
        absErrU m.heap v = some (.ute kind fin fi.name (.invalidChar ch))
    | none => ∃ y6, exec c uT3 m [.node na, .ptr tia, .ptr a, cv, .str s, y5, x6, x7, x8, x9, x10, x11, x12, x13, x14, x15,
          .bool inl, x17, x18, x19, x20, x21, x22, x23, x24, x25, x26, x27] =
        .norm m [.node na, .ptr tia, .ptr a, cv, .str s, y5, y6, x7, x8, x9, x10, x11, x12, x13, x14, x15,
          .bool inl, x17, x18, x19, x20, x21, x22, x23, x24, x25, x26, x27] := by
  have hcm := hec.msg
  simp only [uT3, unmarshalIR, Stmt.take, Stmt.drop]
  have key : ∀ (e : EncKind) (nm : String), fi.opts.enc = e → encName e = some nm → encVal e = .global nm →
      (match firstInvalid e s with
      | some ch => ∃ m' v, exec c (.ite (.not (.isNil (.fld (.var 2) 7))) ((unmarshalIR.body.drop 4).head.iteThen') .skip ;;; .skip) m
            [.node na, .ptr tia, .ptr a, cv, .str s, y5, x6, x7, x8, x9, x10, x11, x12, x13, x14, x15,
            .bool inl, x17, x18, x19, x20, x21, x22, x23, x24, x25, x26, x27] = .ret m' [v] ∧ m'.heap = m.heap ∧
          absErrU m.heap v = some (.ute kind fin fi.name (.invalidChar ch))
      | none => ∃ y6, exec c (.ite (.not (.isNil (.fld (.var 2) 7))) ((unmarshalIR.body.drop 4).head.iteThen') .skip ;;; .skip) m
            [.node na, .ptr tia, .ptr a, cv, .str s, y5, x6, x7, x8, x9, x10, x11, x12, x13, x14, x15,
            .bool inl, x17, x18, x19, x20, x21, x22, x23, x24, x25, x26, x27] =
          .norm m [.node na, .ptr tia, .ptr a, cv, .str s, y5, y6, x7, x8, x9, x10, x11, x12, x13, x14, x15,
            .bool inl, x17, x18, x19, x20, x21, x22, x23, x24, x25, x26, x27]) := by
    intro e nm henc hnm hev
    cases hfi : firstInvalid e s with
    | none =>
      have hneg : ¬ (0 ≤ c.indexAnyInvalid nm s) := by have := hidx.allValid e nm s hnm hfi; omega
      refine ⟨.int (c.indexAnyInvalid nm s), ?_⟩
      simp only [unmarshalIR, Stmt.drop, Stmt.head, Stmt.iteThen']
      ci_simp [fi_enc m a fi ha, henc, hev, ext2_indexAnyInvalid, hneg]
    | some ch =>
      obtain ⟨h0, hi⟩ := hidx.firstBad e nm s ch hnm hfi
      have hcall := hcm [.lit invalidCharLit, .quotedRune (ch.toNat : Int)]
      have herr : absErrU m.heap (errRecK kl fin fi st (.msg [.lit invalidCharLit, .quotedRune (ch.toNat : Int)])) =
          some (.ute kind fin fi.name (.invalidChar ch)) :=
        hec.abs _ _ (by
          have h1 : (0 : Int) ≤ (ch.toNat : Int) := by omega
          have h2 : (ch.toNat : Int) < 256 := by have := ch.toNat_lt; omega
          simp [msgClassU, h1, h2])
      simp only [invalidCharLit] at hcall
      simp only [unmarshalIR, Stmt.drop, Stmt.head, Stmt.iteThen']
      cases inl
      · refine ⟨m, _, ?_, rfl, herr⟩
        ci_simp [fi_enc m a fi ha, henc, hev, ext2_indexAnyInvalid, h0, indexVal_str s _ ch h0 hi, hcall, errRecK]
        rfl
      · obtain ⟨rfl, hle, hn⟩ := hy5 rfl
        have hle' : (0 : Int) ≤ (fi.opts.length : Int) ∧ (fi.opts.length : Int) ≤ (s0.length : Int) := by omega
        refine ⟨{ m with nodes := m.nodes.set na (.value (s0.drop fi.opts.length) pos fin) }, _, ?_, rfl, herr⟩
        ci_simp [fi_enc m a fi ha, henc, hev, ext2_indexAnyInvalid, h0, indexVal_str s _ ch h0 hi, hcall,
          ext1M_nodeValue m na s0 pos fin hn, fi_length m a fi ha, sliceFromVal, hle', hn, errRecK]
        try rfl
  cases henc : fi.opts.enc with
  | none =>
    rw [firstInvalid_none]
    exact ⟨x6, by ci_simp [fi_enc m a fi ha, henc, encVal]⟩
  | hash => simpa [Stmt.iteThen', unmarshalIR, Stmt.drop, Stmt.head] using key .hash _ henc rfl rfl
  | base64 => simpa [Stmt.iteThen', unmarshalIR, Stmt.drop, Stmt.head] using key .base64 _ henc rfl rfl
end textG

end GoCrypt.CIR
