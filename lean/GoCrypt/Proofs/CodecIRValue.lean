import GoCrypt.Proofs.CodecIRMarshal

/-!
# Codec IR: `marshalValue` = the model's `marshalValue`

Helper lemmas only.
-/

namespace GoCrypt.CIR
open GoCrypt.Codec GoCrypt.Gen.codecIR
open GoCrypt.TIIR (RType Res kindNum fiType fiObj encVal optsVals)

/-- The length and alphabet checks of the model's `marshalValue`. -/
def checks (fi : FieldInfo) (s : Bytes) : Except MErr Bytes :=
  if fi.opts.hasLength ∧ s.length ≠ fi.opts.length then .error (.unsupportedValue fi.name .lengthMismatch) else
  match firstInvalid fi.opts.enc s with
  | some c => .error (.unsupportedValue fi.name (.invalidChar c))
  | none => .ok s

theorem marshalValue_eq_checks (fi : FieldInfo) (fv : FVal) :
    Codec.marshalValue fi fv = (match marshalRaw fi fv with | .ok s => checks fi s | .error e => .error e) := by
  unfold Codec.marshalValue checks
  cases marshalRaw fi fv with
  | error e => rfl
  | ok s =>
    simp only [bind, Except.bind, pure, Except.pure, throw, throwThe, MonadExceptOf.throw]
    by_cases hl : fi.opts.hasLength = true ∧ s.length ≠ fi.opts.length
    · simp [hl]
    · simp only [hl, if_false]
      cases firstInvalid fi.opts.enc s <;> rfl

theorem marshalValue_eq (c : Ctx) (m : Mem) (t fi v : Val) :
    execProc c marshalValueIR m [t, fi, v] =
      procResult (exec c marshalValueIR.body m [t, fi, v, .undef, .undef, .undef, .undef, .undef]) := by
  rw [execProc_eq _ _ _ _ (by rfl)]; rfl

theorem ext2_indexAnyInvalid (c : Ctx) (e : String) (s : Bytes) :
    ext2 c .indexAnyInvalid (.global e) (.bytes s) = .ok (.int (c.indexAnyInvalid e s)) := rfl

theorem firstInvalid_none (s : Bytes) : firstInvalid .none s = none := rfl

theorem msgClass_invalidChar (ch : UInt8) :
    msgClass (.msg [.lit invalidCharLit, .quotedRune (ch.toNat : Int)]) = some (.invalidChar ch) := by
  have h1 : (0 : Int) ≤ (ch.toNat : Int) := by omega
  have h2 : (ch.toNat : Int) < 256 := by have := ch.toNat_lt; omega
  simp [msgClass, h1, h2]

theorem msgClass_lengthMismatch : msgClass (.str lengthMismatchLit) = some .lengthMismatch := by
  simp [msgClass]

/-- The shapes of a `reflect.Value`. -/
def IsRV (v : Val) : Prop := v = .rvInvalid ∨ ∃ t0 g0 ro, v = .rv t0 g0 ro

/-- `marshal` failed: `marshalValue` passes the error on. -/
theorem marshalValue_of_call_err (c : Ctx) (m : Mem) (t : RType) (a : Nat) (v : Val) (hv : IsRV v) (n : String) (fs : List Val)
    (hcall : c.call 2 m [.rtype t, .ptr a, v] = .ok (m, [.str [], .recd n fs])) :
    execProc c marshalValueIR m [.rtype t, .ptr a, v] = .ok (m, [.str [], .recd n fs]) := by
  rw [marshalValue_eq]
  simp only [marshalValueIR]
  rcases hv with rfl | ⟨t0, g0, ro, rfl⟩ <;> ci_simp [hcall]

/-- `marshal` returned `s`: the length and alphabet checks. -/
theorem marshalValue_of_call_ok (c : Ctx) (hidx : IndexAnyInvalidSpec c.indexAnyInvalid) (m : Mem) (t : RType) (a : Nat)
    (fi : FieldInfo) (v : Val) (hv : IsRV v) (s : Bytes) (h : m.heap[a]? = some (fiObj fi))
    (hcall : c.call 2 m [.rtype t, .ptr a, v] = .ok (m, [.str s, .nil])) :
    MPost m (checks fi s) (execProc c marshalValueIR m [.rtype t, .ptr a, v]) := by
  rw [marshalValue_eq]
  simp only [marshalValueIR]
  unfold checks
  by_cases hl : fi.opts.hasLength = true ∧ s.length ≠ fi.opts.length
  · obtain ⟨hl1, hl2⟩ := hl
    have hl2' : ¬ (s.length = fi.opts.length) := hl2
    rcases hv with rfl | ⟨t0, g0, ro, rfl⟩ <;>
      ci_simp [hcall, fi_hasLength m a fi h, fi_length m a fi h, fi_name m a fi h, hl1, hl2'] <;>
      simp [MPost, hl1, hl2] <;>
      exact ⟨_, _, ⟨rfl, rfl⟩, by rw [absErr_unsupportedValue]; exact congrArg _ msgClass_lengthMismatch⟩
  · have hland : (fi.opts.hasLength && decide (¬ (s.length = fi.opts.length))) = false := by
      cases hh : fi.opts.hasLength
      · rfl
      · simp only [hh, true_and, Decidable.not_not] at hl; simp [hl]
    simp only [hl, if_false]
    have hlen : (fi.opts.hasLength = false ∧ s.length = s.length) ∨ (fi.opts.hasLength = true ∧ s.length = fi.opts.length) := by
      cases hh : fi.opts.hasLength
      · exact .inl ⟨rfl, rfl⟩
      · simp only [hh, true_and, Decidable.not_not] at hl; exact .inr ⟨rfl, hl⟩
    cases henc : fi.opts.enc with
    | none =>
      rw [firstInvalid_none]
      rcases hlen with ⟨hh, heq⟩ | ⟨hh, heq⟩ <;> rcases hv with rfl | ⟨t0, g0, ro, rfl⟩ <;>
        ci_simp [hcall, fi_hasLength m a fi h, fi_length m a fi h, fi_enc m a fi h, hh, henc, encVal, heq] <;>
        simp [MPost]
    | hash =>
      cases hfi : firstInvalid .hash s with
      | none =>
        have hneg : ¬ (0 ≤ c.indexAnyInvalid "hashutil.HashEncoding" s) := by
          have := hidx.allValid .hash _ s rfl hfi; omega
        rcases hlen with ⟨hh, heq⟩ | ⟨hh, heq⟩ <;> rcases hv with rfl | ⟨t0, g0, ro, rfl⟩ <;>
          ci_simp [hcall, fi_hasLength m a fi h, fi_length m a fi h, fi_enc m a fi h, hh, henc, encVal, heq,
            ext2_indexAnyInvalid, hneg] <;>
          simp [MPost]
      | some ch =>
        obtain ⟨h0, hi⟩ := hidx.firstBad .hash _ s ch rfl hfi
        rcases hlen with ⟨hh, heq⟩ | ⟨hh, heq⟩ <;> rcases hv with rfl | ⟨t0, g0, ro, rfl⟩ <;>
          ci_simp [hcall, fi_hasLength m a fi h, fi_length m a fi h, fi_enc m a fi h, fi_name m a fi h, hh, henc, encVal, heq,
            ext2_indexAnyInvalid, h0, indexVal_str s _ ch h0 hi] <;>
          simp [MPost] <;>
          exact ⟨_, _, ⟨rfl, rfl⟩, by rw [absErr_unsupportedValue]; exact congrArg _ (msgClass_invalidChar ch)⟩
    | base64 =>
      cases hfi : firstInvalid .base64 s with
      | none =>
        have hneg : ¬ (0 ≤ c.indexAnyInvalid "hashutil.Base64Encoding" s) := by
          have := hidx.allValid .base64 _ s rfl hfi; omega
        rcases hlen with ⟨hh, heq⟩ | ⟨hh, heq⟩ <;> rcases hv with rfl | ⟨t0, g0, ro, rfl⟩ <;>
          ci_simp [hcall, fi_hasLength m a fi h, fi_length m a fi h, fi_enc m a fi h, hh, henc, encVal, heq,
            ext2_indexAnyInvalid, hneg] <;>
          simp [MPost]
      | some ch =>
        obtain ⟨h0, hi⟩ := hidx.firstBad .base64 _ s ch rfl hfi
        rcases hlen with ⟨hh, heq⟩ | ⟨hh, heq⟩ <;> rcases hv with rfl | ⟨t0, g0, ro, rfl⟩ <;>
          ci_simp [hcall, fi_hasLength m a fi h, fi_length m a fi h, fi_enc m a fi h, fi_name m a fi h, hh, henc, encVal, heq,
            ext2_indexAnyInvalid, h0, indexVal_str s _ ch h0 hi] <;>
          simp [MPost] <;>
          exact ⟨_, _, ⟨rfl, rfl⟩, by rw [absErr_unsupportedValue]; exact congrArg _ (msgClass_invalidChar ch)⟩

end GoCrypt.CIR

namespace GoCrypt.CIR
open GoCrypt.Codec GoCrypt.Gen.codecIR
open GoCrypt.TIIR (RType Res kindNum fiType fiObj encVal optsVals)

/-- `marshalValue` on a dereferenced field value = the model's `marshalValue`. -/
theorem marshalValue_spec (c : Ctx) (hms : MarshalSpec c) (hidx : IndexAnyInvalidSpec c.indexAnyInvalid) (m : Mem)
    (t t0 : RType) (a : Nat) (fi : FieldInfo) (fv : FVal) (g0 : GVal) (h : m.heap[a]? = some (fiObj fi))
    (hd : t0.depth = 0) (hk0 : t0.kind = fi.kind) (hm0 : t0.mt = fi.marshalText)
    (hbase : 2 ≤ fi.opts.base ∧ fi.opts.base ≤ 36) (hv : RepV0 fi fv g0) (hc : mtCompat fi.marshalText fv) :
    MPost m (Codec.marshalValue fi fv) (execProc c marshalValueIR m [.rtype t, .ptr a, .rv t0 g0 false]) := by
  rw [marshalValue_eq_checks]
  have hcall := hms.1 m t t0 a fi fv g0 h hd hk0 hm0 hbase hv hc
  cases hr : marshalRaw fi fv with
  | ok s =>
    rw [hr] at hcall
    exact marshalValue_of_call_ok c hidx m t a fi _ (.inr ⟨_, _, _, rfl⟩) s h hcall
  | error e =>
    rw [hr] at hcall
    obtain ⟨n, fs, hcall, habs⟩ := hcall
    exact ⟨n, fs, marshalValue_of_call_err c m t a _ (.inr ⟨_, _, _, rfl⟩) n fs hcall, habs⟩

/-- `marshalValue` on the invalid `Value` (a nil pointer field). -/
theorem marshalValue_nil (c : Ctx) (hms : MarshalSpec c) (hidx : IndexAnyInvalidSpec c.indexAnyInvalid) (m : Mem)
    (t : RType) (a : Nat) (fi : FieldInfo) (h : m.heap[a]? = some (fiObj fi)) :
    MPost m (Codec.marshalValue fi .nilPtr) (execProc c marshalValueIR m [.rtype t, .ptr a, .rvInvalid]) := by
  rw [marshalValue_eq_checks]
  have hcall := hms.2 m (.rtype t) (.ptr a)
  have hr : marshalRaw fi .nilPtr = .ok [] := rfl
  rw [hr]
  exact marshalValue_of_call_ok c hidx m t a fi _ (.inl rfl) [] h hcall

/-- What `c.call 1` must do (it is `marshalValue`). -/
def MarshalValueSpec (c : Ctx) : Prop :=
  (∀ (m : Mem) (t t0 : RType) (a : Nat) (fi : FieldInfo) (fv : FVal) (g0 : GVal),
    m.heap[a]? = some (fiObj fi) → t0.depth = 0 → t0.kind = fi.kind → t0.mt = fi.marshalText →
    (2 ≤ fi.opts.base ∧ fi.opts.base ≤ 36) → RepV0 fi fv g0 → mtCompat fi.marshalText fv →
    MPost m (Codec.marshalValue fi fv) (c.call 1 m [.rtype t, .ptr a, .rv t0 g0 false])) ∧
  (∀ (m : Mem) (t : RType) (a : Nat) (fi : FieldInfo), m.heap[a]? = some (fiObj fi) →
    MPost m (Codec.marshalValue fi .nilPtr) (c.call 1 m [.rtype t, .ptr a, .rvInvalid]))

end GoCrypt.CIR
