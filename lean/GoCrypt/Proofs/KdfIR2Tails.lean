import GoCrypt.Proofs.KdfIR2Base
import GoCrypt.Gen.KdfIR2

/-!
# Second-generation IR: the tails of `md5.Key`, `sha256.Key`, `sha512.Key` after their guards

Each is one call into a function that the first-generation IR covers (`md5crypt.Encrypt`,
`sha2crypt.Encrypt`), LINKED from the regenerated program. The lemmas here are about the calling
procedure for an arbitrary meaning `R` of the callee; `Props/KdfIR2.lean` plugs in the linked
first-generation program and its equality-with-model theorem. Helper lemmas only.
-/

namespace GoCrypt.HashIR2
open GoCrypt.Gen.KdfIR2

set_option linter.unusedSimpArgs false

/-- Results of linked first-generation programs: `ofModel` commutes with the value embedding. -/
theorem ofOldRes_ofModel (r : Option Bytes) : ofOldRes (HashIR.ofModel r) = ofModel r := by
  cases r <;> rfl

theorem md5_key_tail_proc (c : Ctx) (pfx pw salt : Bytes) (r : Option Bytes)
    (hg : c.globals "md5.prefixBytes" = some (.bytes pfx))
    (hcall : c.call "md5crypt.Encrypt" [.bytes pw, .bytes salt, .bytes pfx] = ofModel r) :
    execProc c md5.proc_Key [.bytes pw, .bytes salt] = ofModel r := by
  cases r with
  | none =>
    apply execProc_of_panic _ _ _ rfl (by decide)
    simp only [md5.proc_Key, Env.init, List.map, List.length, List.replicate]
    ir_simp [hg, hcall, ofModel]
  | some r =>
    apply execProc_of_ret _ _ _ _ rfl (by decide)
    simp only [md5.proc_Key, Env.init, List.map, List.length, List.replicate]
    ir_simp [hg, hcall, ofModel]

theorem sha256_key_tail_proc (c : Ctx) (perm pw salt : Bytes) (rounds : Nat) (r : Option Bytes)
    (hg : c.globals "sha256.permFinal" = some (.bytes perm))
    (hcall : c.call "sha2crypt.Encrypt" [.int 5, .bytes pw, .bytes salt, nat rounds, .bytes perm] = ofModel r) :
    execProc c sha256.proc_Key [.bytes pw, .bytes salt, nat rounds] = ofModel r := by
  cases r with
  | none =>
    apply execProc_of_panic _ _ _ rfl (by decide)
    simp only [sha256.proc_Key, Env.init, List.map, List.length, List.replicate]
    ir_simp [hg, hcall, ofModel, sliceOf_full]
  | some r =>
    apply execProc_of_ret _ _ _ _ rfl (by decide)
    simp only [sha256.proc_Key, Env.init, List.map, List.length, List.replicate]
    ir_simp [hg, hcall, ofModel, sliceOf_full]

theorem sha512_key_tail_proc (c : Ctx) (perm pw salt : Bytes) (rounds : Nat) (r : Option Bytes)
    (hg : c.globals "sha512.permFinal" = some (.bytes perm))
    (hcall : c.call "sha2crypt.Encrypt" [.int 7, .bytes pw, .bytes salt, nat rounds, .bytes perm] = ofModel r) :
    execProc c sha512.proc_Key [.bytes pw, .bytes salt, nat rounds] = ofModel r := by
  cases r with
  | none =>
    apply execProc_of_panic _ _ _ rfl (by decide)
    simp only [sha512.proc_Key, Env.init, List.map, List.length, List.replicate]
    ir_simp [hg, hcall, ofModel, sliceOf_full]
  | some r =>
    apply execProc_of_ret _ _ _ _ rfl (by decide)
    simp only [sha512.proc_Key, Env.init, List.map, List.length, List.replicate]
    ir_simp [hg, hcall, ofModel, sliceOf_full]

end GoCrypt.HashIR2
