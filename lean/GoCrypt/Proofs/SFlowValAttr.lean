import Lean

/-! The simp set used to evaluate the structured-flow interpreter (`Spec/SFlowVal.lean`) symbolically. -/

/-- Equations that evaluate `SFlowVal.exec` / `SFlowVal.evalE` on a concrete statement. -/
register_simp_attr sflowval
