import GoCrypt.Proofs.CodecL2Loop

/-!
# The field loop over one run of grouped parameters

A maximal run of `param:x,group` fields is written as nothing (all members omitted), as a lone value
(one member written — it must be a required one), or as one group fragment (two or more members
written). `loop_run_none`, `loop_run_lone`, `loop_run_multi` describe the loop over the run in the
three cases.
-/

namespace GoCrypt.Codec
open Bytes GoCrypt.Parse Layers GoCrypt.Respell GoCrypt.CodecDomain GoCrypt.RefParse

/-! ## Finding a member by its key -/

theorem nt_named (vals : Vals) (f : FieldInfo) (hp : f.opts.param ≠ []) :
    nt vals f = f.opts.param ++ [equals] ++ textOf vals f := by
  simp [nt, namedText, hp]

theorem key_nt_eq (vals : Vals) (f g : FieldInfo) (hf : equals ∉ f.opts.param)
    (hg : equals ∉ g.opts.param) (hgp : g.opts.param ≠ [])
    (h : (f.opts.param ++ [equals]).isPrefixOf (nt vals g) = true) : f.opts.param = g.opts.param := by
  rw [nt_named vals g hgp] at h
  exact key_prefix_eq _ _ _ hf hg h

theorem find_hit (vals : Vals) (f : FieldInfo) (hfe : equals ∉ f.opts.param) :
    ∀ (E : List FieldInfo) (vs : List VNode), vs.map (·.val) = E.map (nt vals) →
    (∀ g ∈ E, g.opts.param ≠ [] ∧ equals ∉ g.opts.param) → f ∈ E →
    (∀ g ∈ E, g.opts.param = f.opts.param → g = f) →
    ∃ v, vs.find? (fun v => (f.opts.param ++ [equals]).isPrefixOf v.val) = some v ∧ v.val = nt vals f
  | [], _, _, _, hm, _ => by cases hm
  | g :: E, [], h, _, _, _ => by simp at h
  | g :: E, v :: vs, h, hE, hm, hinj => by
    simp only [List.map_cons, List.cons.injEq] at h
    obtain ⟨hv, hvs⟩ := h
    by_cases hk : (f.opts.param ++ [equals]).isPrefixOf v.val = true
    · have hgp := hE g (by simp)
      rw [hv] at hk
      have hpe := key_nt_eq vals f g hfe hgp.2 hgp.1 hk
      have hgf : g = f := hinj g (by simp) hpe.symm
      subst hgf
      exact ⟨v, by simp [List.find?, hv, hk], hv⟩
    · simp only [Bool.not_eq_true] at hk
      have hne : f ≠ g := by
        intro e; subst e
        rw [hv, nt_named vals f (hE f (by simp)).1, isPrefixOf_append_self] at hk
        cases hk
      have hm' : f ∈ E := by
        simp only [List.mem_cons] at hm
        rcases hm with hm | hm
        · exact absurd hm hne
        · exact hm
      obtain ⟨w, hw1, hw2⟩ := find_hit vals f hfe E vs hvs (fun x hx => hE x (by simp [hx])) hm'
        (fun x hx => hinj x (by simp [hx]))
      exact ⟨w, by simp [List.find?, hk, hw1], hw2⟩

theorem find_miss (vals : Vals) (f : FieldInfo) (hfe : equals ∉ f.opts.param) :
    ∀ (E : List FieldInfo) (vs : List VNode), vs.map (·.val) = E.map (nt vals) →
    (∀ g ∈ E, g.opts.param ≠ [] ∧ equals ∉ g.opts.param) →
    (∀ g ∈ E, g.opts.param ≠ f.opts.param) →
    vs.find? (fun v => (f.opts.param ++ [equals]).isPrefixOf v.val) = none
  | [], [], _, _, _ => rfl
  | [], _ :: _, h, _, _ => by simp at h
  | g :: E, [], h, _, _ => by simp at h
  | g :: E, v :: vs, h, hE, hne => by
    simp only [List.map_cons, List.cons.injEq] at h
    obtain ⟨hv, hvs⟩ := h
    have hk : (f.opts.param ++ [equals]).isPrefixOf v.val = false := by
      cases hk : (f.opts.param ++ [equals]).isPrefixOf v.val with
      | false => rfl
      | true =>
        rw [hv] at hk
        have hgp := hE g (by simp)
        exact absurd (key_nt_eq vals f g hfe hgp.2 hgp.1 hk).symm (hne g (by simp))
    simp only [List.find?, hk]
    exact find_miss vals f hfe E vs hvs (fun x hx => hE x (by simp [hx])) (fun x hx => hne x (by simp [hx]))

/-! ## A run none of whose members is written -/

theorem loop_run_none (hashLen : Nat) (vals : Vals) : ∀ (run : List FieldInfo) (st : LoopSt),
    (∀ f ∈ run, f.opts.group = true ∧ emitted vals f = false) → st.group = none →
    (st.frags = [] ∨ ∃ v rest, st.frags = .value v :: rest) →
    ∃ st', loopFields hashLen run st = .ok st' ∧ st'.frags = st.frags ∧ st'.group = none ∧
      st'.out = st.out ∧ st'.numReq = st.numReq ∧ st'.numValues ≤ st.numValues ∧
      (0 < st.numValues - st.numReq → st'.numValues = st.numValues)
  | [], st, _, hsg, _ => ⟨st, rfl, rfl, hsg, rfl, rfl, Int.le_refl _, fun _ => rfl⟩
  | f :: run, st, hrun, hsg, hfr => by
    obtain ⟨hg, hem⟩ := hrun f (by simp)
    have ho := omitEmpty_of_omitted vals f hem
    have hrun' : ∀ g ∈ run, g.opts.group = true ∧ emitted vals g = false :=
      fun g hg => hrun g (by simp [hg])
    rcases hfr with hfr | ⟨v, rest, hfr⟩
    · have hstep := stepField_eof_opt hashLen f st ho hsg hfr
      obtain ⟨st', h1, h2, h3, h4, h5, h6, h7⟩ := loop_run_none hashLen vals run st hrun' hsg (Or.inl hfr)
      exact ⟨st', by rw [loopFields_cons _ _ _ _ _ hstep]; exact h1, h2, h3, h4, h5, h6, h7⟩
    · by_cases hcnt : st.numValues - st.numReq ≤ 0
      · have hstep := stepField_skip hashLen f st _ rest ho hsg hfr hcnt
        obtain ⟨st', h1, h2, h3, h4, h5, h6, h7⟩ := loop_run_none hashLen vals run
          { st with numValues := st.numValues - 1 } hrun' hsg (Or.inr ⟨v, rest, hfr⟩)
        refine ⟨st', by rw [loopFields_cons _ _ _ _ _ hstep]; exact h1, h2, h3, h4, h5, ?_, ?_⟩
        · simp only at h6; omega
        · intro h; omega
      · have hstep := stepField_gopt_value hashLen f st v rest ho hg hsg hfr hcnt
        obtain ⟨st', h1, h2, h3, h4, h5, h6, h7⟩ := loop_run_none hashLen vals run st hrun' hsg
          (Or.inr ⟨v, rest, hfr⟩)
        exact ⟨st', by rw [loopFields_cons _ _ _ _ _ hstep]; exact h1, h2, h3, h4, h5, h6, h7⟩

/-! ## A run with one member written -/

theorem loop_run_open_tail (hashLen : Nat) (vals : Vals) : ∀ (post : List FieldInfo) (st : LoopSt)
    (g : List VNode) (v : VNode) (rest : List Frag),
    (∀ f ∈ post, f.opts.group = true ∧ emitted vals f = false) → st.group = some g →
    st.frags = .value v :: rest → loopFields hashLen post st = .ok st
  | [], _, _, _, _, _, _, _ => rfl
  | f :: post, st, g, v, rest, hpost, hsg, hfr => by
    obtain ⟨hg, hem⟩ := hpost f (by simp)
    have ho := omitEmpty_of_omitted vals f hem
    rw [loopFields_cons _ _ _ _ _ (stepField_gopt_value_open hashLen f st g v rest ho hg hsg hfr)]
    exact loop_run_open_tail hashLen vals post st g v rest (fun x hx => hpost x (by simp [hx])) hsg hfr

theorem loop_run_lone (hashLen : Nat) (vals : Vals) (r : FieldInfo) (hro : r.opts.omitEmpty = false)
    (hri : r.opts.inline = false) (hrp : r.opts.param ≠ []) (hF : FieldFacts vals r) :
    ∀ (run : List FieldInfo) (st : LoopSt) (v : VNode) (rest : List Frag),
    (∀ f ∈ run, f.opts.group = true) → run.filter (emitted vals) = [r] →
    st.group = none → st.frags = .value v :: rest → v.val = nt vals r →
    ¬ (st.numValues - st.numReq ≤ 0) →
    ∃ st', loopFields hashLen run st = .ok st' ∧ st'.frags = st.frags ∧ st'.group = some [v] ∧
      st'.numGroupValues = 0 ∧ st'.numValues = st.numValues ∧ st'.numReq = st.numReq ∧
      st'.out = st.out ++ [(r.index, fieldVal vals r)]
  | [], _, _, _, _, h, _, _, _, _ => by simp at h
  | f :: run, st, v, rest, hrun, hfil, hsg, hfr, hv, hcnt => by
    have hg := hrun f (by simp)
    by_cases hem : emitted vals f = true
    · simp only [List.filter_cons, hem, if_true, List.cons.injEq] at hfil
      obtain ⟨rfl, hrest⟩ := hfil
      have hkey : (f.opts.param ++ [equals]).isPrefixOf v.val = true := by
        rcases hF.key with h | h
        · exact absurd h hrp
        · rw [hv]; exact h
      have hft := hF.read hri "value" v.fin
      rw [← hv] at hft
      have hstep := stepField_group_lone hashLen f st v rest _ _ _ hg hro hri hsg hfr hkey hft
        (hF.store "value" v.fin)
      have hall : ∀ x ∈ run, x.opts.group = true ∧ emitted vals x = false := by
        intro x hx
        refine ⟨hrun x (by simp [hx]), ?_⟩
        cases hex : emitted vals x with
        | false => rfl
        | true =>
          have : x ∈ run.filter (emitted vals) := List.mem_filter.2 ⟨hx, hex⟩
          rw [hrest] at this; cases this
      refine ⟨{ st with group := some [v], numGroupValues := 0,
                        out := st.out ++ [(f.index, fieldVal vals f)] }, ?_, rfl, rfl, rfl, rfl, rfl, rfl⟩
      rw [loopFields_cons _ _ _ _ _ hstep]
      exact loop_run_open_tail hashLen vals run _ [v] v rest hall rfl hfr
    · simp only [Bool.not_eq_true] at hem
      have ho := omitEmpty_of_omitted vals f hem
      have hstep := stepField_gopt_value hashLen f st v rest ho hg hsg hfr hcnt
      simp only [List.filter_cons, hem, Bool.false_eq_true, if_false] at hfil
      obtain ⟨st', h1, h2⟩ := loop_run_lone hashLen vals r hro hri hrp hF run st v rest
        (fun x hx => hrun x (by simp [hx])) hfil hsg hfr hv hcnt
      exact ⟨st', by rw [loopFields_cons _ _ _ _ _ hstep]; exact h1, h2⟩

/-! ## A run with two or more members written -/

/-- What the loop needs to know about a member of the run facing the group fragment `vs`. -/
def MemberOk (vals : Vals) (vs : List VNode) (f : FieldInfo) : Prop :=
  f.opts.group = true ∧ f.opts.inline = false ∧
  (emitted vals f = true → FieldFacts vals f ∧
    ∃ v, vs.find? (fun v => (f.opts.param ++ [equals]).isPrefixOf v.val) = some v ∧ v.val = nt vals f) ∧
  (emitted vals f = false → vs.find? (fun v => (f.opts.param ++ [equals]).isPrefixOf v.val) = none)

theorem loop_run_rest (hashLen : Nat) (vals : Vals) (vs : List VNode) (rest : List Frag) :
    ∀ (run : List FieldInfo) (st : LoopSt), (∀ f ∈ run, MemberOk vals vs f) →
    st.group = some vs → st.frags = .group vs :: rest →
    ∃ st', loopFields hashLen run st = .ok st' ∧ st'.frags = st.frags ∧ st'.group = some vs ∧
      st'.numGroupValues = st.numGroupValues - (run.filter (emitted vals)).length ∧
      st'.numValues = st.numValues ∧ st'.numReq = st.numReq ∧
      st'.out = st.out ++ (run.filter (emitted vals)).map (fun f => (f.index, fieldVal vals f))
  | [], st, _, hsg, _ => ⟨st, rfl, rfl, hsg, by simp, rfl, rfl, by simp⟩
  | f :: run, st, hrun, hsg, hfr => by
    obtain ⟨hg, hi, hE, hO⟩ := hrun f (by simp)
    have hrun' : ∀ x ∈ run, MemberOk vals vs x := fun x hx => hrun x (by simp [hx])
    by_cases hem : emitted vals f = true
    · obtain ⟨hF, v, hfind, hv⟩ := hE hem
      have hft := hF.read hi "value" v.fin
      rw [← hv] at hft
      have hstep := stepField_group_next' hashLen f st vs vs rest v _ _ _ hg hi hsg hfr hfind hft
        (hF.store "value" v.fin)
      obtain ⟨st', h1, h2, h3, h4, h5, h6, h7⟩ := loop_run_rest hashLen vals vs rest run
        { st with frags := .group vs :: rest, numGroupValues := st.numGroupValues - 1,
                  out := st.out ++ [(f.index, fieldVal vals f)] } hrun' hsg rfl
      refine ⟨st', by rw [loopFields_cons _ _ _ _ _ hstep]; exact h1, ?_, h3, ?_, h5, h6, ?_⟩
      · rw [h2, hfr]
      · rw [h4]; simp only [List.filter_cons, hem, if_true, List.length_cons]; omega
      · rw [h7]; simp [hem]
    · simp only [Bool.not_eq_true] at hem
      have ho := omitEmpty_of_omitted vals f hem
      have hstep := stepField_group_next_miss hashLen f st vs vs rest hg ho hsg hfr (hO hem)
      obtain ⟨st', h1, h2, h3, h4, h5, h6, h7⟩ := loop_run_rest hashLen vals vs rest run st hrun' hsg hfr
      refine ⟨st', by rw [loopFields_cons _ _ _ _ _ hstep]; exact h1, h2, h3, ?_, h5, h6, ?_⟩
      · rw [h4]; simp [hem]
      · rw [h7]; simp [hem]

theorem loop_run_multi (hashLen : Nat) (vals : Vals) (vs : List VNode) (rest : List Frag)
    (run : List FieldInfo) (st : LoopSt) (hne : run ≠ []) (hrun : ∀ f ∈ run, MemberOk vals vs f)
    (hsg : st.group = none) (hfr : st.frags = .group vs :: rest)
    (hcnt : ¬ (st.numValues - st.numReq ≤ 0)) :
    ∃ st', loopFields hashLen run st = .ok st' ∧ st'.frags = st.frags ∧ st'.group = some vs ∧
      st'.numGroupValues = vs.length - (run.filter (emitted vals)).length ∧
      st'.numValues = st.numValues ∧ st'.numReq = st.numReq ∧
      st'.out = st.out ++ (run.filter (emitted vals)).map (fun f => (f.index, fieldVal vals f)) := by
  cases run with
  | nil => exact absurd rfl hne
  | cons f run =>
    obtain ⟨hg, hi, hE, hO⟩ := hrun f (by simp)
    have hrun' : ∀ x ∈ run, MemberOk vals vs x := fun x hx => hrun x (by simp [hx])
    by_cases hem : emitted vals f = true
    · obtain ⟨hF, v, hfind, hv⟩ := hE hem
      have hft := hF.read hi "value" v.fin
      rw [← hv] at hft
      have hstep := stepField_group_first' hashLen f st vs rest v _ _ _ hg hi (fun h => hcnt h.2) hsg hfr
        hfind hft (hF.store "value" v.fin)
      obtain ⟨st', h1, h2, h3, h4, h5, h6, h7⟩ := loop_run_rest hashLen vals vs rest run
        { st with group := some vs, numGroupValues := vs.length - 1,
                  out := st.out ++ [(f.index, fieldVal vals f)] } hrun' rfl hfr
      refine ⟨st', by rw [loopFields_cons _ _ _ _ _ hstep]; exact h1, h2, h3, ?_, h5, h6, ?_⟩
      · rw [h4]; simp only [List.filter_cons, hem, if_true, List.length_cons]; omega
      · rw [h7]; simp [hem]
    · simp only [Bool.not_eq_true] at hem
      have ho := omitEmpty_of_omitted vals f hem
      have hstep := stepField_group_open_miss hashLen f st vs rest hg ho hcnt hsg hfr (hO hem)
      obtain ⟨st', h1, h2, h3, h4, h5, h6, h7⟩ := loop_run_rest hashLen vals vs rest run
        { st with group := some vs, numGroupValues := vs.length } hrun' rfl hfr
      refine ⟨st', by rw [loopFields_cons _ _ _ _ _ hstep]; exact h1, h2, h3, ?_, h5, h6, ?_⟩
      · rw [h4]; simp [hem]
      · rw [h7]; simp [hem]

end GoCrypt.Codec
