import GoCrypt.Proofs.CodecIRUStep
import GoCrypt.Proofs.CodecIRUExamples

/-!
# Codec IR: the loop over `ti.Fields` in `Unmarshal` = the model's `stepField` / `loopFields`

`field_store`: `unmarshal(node, ti, fi, unmarshalIndirect(val.FieldByIndex(fi.Index)))` on a zero cell = the model's
`fieldText` + `storeValue` (used by the value clause, the group clause and the prefix).
`step_nogroup` / `loop_nogroup`: one iteration / the whole loop for struct descriptions WITHOUT grouped params
(`fi.Opts.Group = false` for every field): the model's `stepField` / `loopFields`, including optional fields, the param-name rule,
inline remainders staying in the node, group FRAGMENTS in the hash (they are `not found` for such a field).
The grouped-param clause is proved on the program side only (`CodecIRUStep.lean`: `uG1_*`, `uGLoop_*`, `uG5_spec`).
Helper lemmas only.
-/

namespace GoCrypt.CIR
open GoCrypt.Codec GoCrypt.Gen.codecIR GoCrypt.Parse
open GoCrypt.TIIR (RType Res kindNum fiType fiObj tiObj encVal optsVals Reps RepOpt)

/-- Two lists related element by element. -/
inductive All2 {α β : Type} (R : α → β → Prop) : List α → List β → Prop
  | nil : All2 R [] []
  | cons {a : α} {b : β} {l₁ : List α} {l₂ : List β} : R a b → All2 R l₁ l₂ → All2 R (a :: l₁) (b :: l₂)

/-- What the program's calls of `unmarshalIndirect` (8), `unmarshal` (6) and `newUnmarshalError` (7) are: the regenerated
functions, run in a context `c'` with the same primitives. -/
structure CallsU (c c' : Ctx) : Prop where
  call8 : ∀ mm args, c.call 8 mm args = execProc c' unmarshalIndirectIR mm args
  call6 : ∀ mm args, c.call 6 mm args = execProc c' unmarshalIR mm args
  err : NewErrSpecG c
  err' : NewErrSpecG c'
  idx : IndexAnyInvalidSpec c'.indexAnyInvalid
  it : IndirectTypeOk c'.ext
  ut : UnmarshalTextSpec c'.unmarshalText
  fs : FieldStringOk c.ext
  structs : c'.structs = c.structs

theorem ptrChain_fOfG (k : Nat) (g : GVal) : Examples.fOfG (ptrChain k g) = Examples.fOfG g := by
  induction k with
  | zero => rfl
  | succ k ih => simpa [ptrChain, Examples.fOfG] using ih

theorem storeValue_shape (fi : FieldInfo) (kind : String) (fin : Nat) (s : Bytes) (fv : FVal) (h : storeValue fi kind fin s = .ok fv) :
    Examples.fOfG (gOfF fv) = fv := by
  have key : ∀ fv : FVal, (∃ x, fv = .str x) ∨ (∃ x, fv = .bytes x) ∨ (∃ x, fv = .int x) ∨ (∃ x, fv = .uint x) → Examples.fOfG (gOfF fv) = fv := by
    rintro fv (⟨x, rfl⟩ | ⟨x, rfl⟩ | ⟨x, rfl⟩ | ⟨x, rfl⟩) <;> rfl
  apply key
  unfold storeValue at h
  cases hu : fi.unmarshalText <;> simp only [hu] at h
  · split at h
    · cases h
    · cases hk : fi.kind <;> simp only [hk] at h
      · cases h; exact Or.inl ⟨_, rfl⟩
      · cases h; exact Or.inr (Or.inl ⟨_, rfl⟩)
      · cases h; exact Or.inr (Or.inl ⟨_, rfl⟩)
      · split at h
        · cases h; exact Or.inr (Or.inr (Or.inl ⟨_, rfl⟩))
        · cases h
        · cases h
      · split at h
        · cases h; exact Or.inr (Or.inr (Or.inr ⟨_, rfl⟩))
        · cases h
        · cases h
      · cases h
      · cases h
  · split at h
    · cases h; exact Or.inl ⟨_, rfl⟩
    · cases h
  · cases h; exact Or.inr (Or.inr (Or.inr ⟨_, rfl⟩))
  · cases h
  · cases h

/-- What the loop needs to know about a field, once and for all. -/
structure FieldOk (c : Ctx) (t0 : RType) (fi : FieldInfo) : Prop where
  reach : ∀ mm : Mem, (cellRoot mm fi.index).isSome = true →
    rootFieldByIndex c.structs mm t0 (fi.index.map Int.ofNat) = .ok (.cell (fiType fi) fi.index 0 false)
  num : NumOk fi
  inl : fi.opts.inline = true → fi.opts.hasLength = true
  depth : fi.ptrDepth < c.fuel

section store
variable (c c' : Ctx) (hc : CallsU c c') (hfuel : c'.fuel = c.fuel)
include hc hfuel

/-- `unmarshal(node, ti, fi, unmarshalIndirect(val.FieldByIndex(fi.Index)))` on the zero cell of `fi`. -/
theorem field_store (mm : Mem) (na tia a : Nat) (s0 : Bytes) (pos fin : Nat) (fi : FieldInfo) (kl : Bytes) (kind : String) (st : RType)
    (t0 : RType) (hok : FieldOk c t0 fi)
    (hstr : ∀ m1 : Mem, m1.nodes = mm.nodes → ext1M m1 .nodeString (.node na) = .ok (.str s0))
    (hec : ∀ m1 : Mem, m1.nodes = mm.nodes → m1.heap = mm.heap → ErrCalls c' m1 na tia a kl kind fin fi st)
    (hval : (fi.opts.hasLength && fi.opts.inline) = true → mm.nodes[na]? = some (.value s0 pos fin))
    (ha : mm.heap[a]? = some (fiObj fi))
    (hzero : cellRoot mm fi.index = some (zeroG (fiType fi))) (hlen : s0.length ≤ c.fuel) :
    ∃ mm1 cv, c.call 8 mm [.cell (fiType fi) fi.index 0 false] = .ok (mm1, [cv]) ∧ (∃ tc ic kc, cv = .cell tc ic kc false) ∧
      match nodeModel fi kind fin s0 with
      | .error e => ∃ mm2 rv, c.call 6 mm1 [.node na, .ptr tia, .ptr a, cv] = .ok (mm2, [rv]) ∧ mm2.heap = mm.heap ∧
          absErrU mm.heap rv = some e
      | .ok fv => ∃ mm2, c.call 6 mm1 [.node na, .ptr tia, .ptr a, cv] =
            .ok (deferMem mm2 (fi.opts.hasLength && fi.opts.inline) na s0 pos fin fi.opts.length, [.nil]) ∧
          SameBut mm mm2 fi.index ∧ cellRoot mm2 fi.index = some (ptrChain fi.ptrDepth (gOfF fv)) := by
  obtain ⟨mm1, h8, hsame1, hroot1⟩ := unmarshalIndirect_zero c' mm (fiType fi) fi.index (by rw [hfuel]; exact hok.depth) hzero
  refine ⟨mm1, _, by rw [hc.call8]; exact h8, ⟨_, _, _, rfl⟩, ?_⟩
  have ha1 : mm1.heap[a]? = some (fiObj fi) := by rw [hsame1.heap]; exact ha
  have hspec := unmarshal_node_spec c' hc.idx hc.it hc.ut mm1 na tia a s0 pos fin fi kl kind st (ftOf fi) fi.index fi.ptrDepth
    (ptrChain fi.ptrDepth (zeroG (ftOf fi))) (zeroG (ftOf fi)) (hstr mm1 hsame1.nodes) ha1 (hec mm1 hsame1.nodes hsame1.heap)
    (by intro h; rw [hsame1.nodes]; exact hval h) rfl rfl rfl hroot1 (getDeep_ptrChain _ _) rfl hok.num (by rw [hfuel]; exact hlen)
  rw [hc.call6]
  show match nodeModel fi kind fin s0 with
    | .error e => ∃ mm2 rv, execProc c' unmarshalIR mm1 [.node na, .ptr tia, .ptr a, .cell (ftOf fi) fi.index fi.ptrDepth false] = .ok (mm2, [rv]) ∧ _
    | .ok fv => ∃ mm2, execProc c' unmarshalIR mm1 [.node na, .ptr tia, .ptr a, .cell (ftOf fi) fi.index fi.ptrDepth false] = _ ∧ _
  cases hm : nodeModel fi kind fin s0 with
  | error e =>
    rw [hm] at hspec
    obtain ⟨m', v, h1, h2, h3⟩ := hspec
    exact ⟨m', v, h1, by rw [h2, hsame1.heap], by rw [← hsame1.heap]; exact h3⟩
  | ok fv =>
    rw [hm] at hspec
    obtain ⟨mm2, h1, hat⟩ := hspec
    refine ⟨mm2, h1, hsame1.trans hat.same, ?_⟩
    rw [hat.root, reroot_ptrChain]
end store

/-! ## The parse tree in memory -/

/-- Where a fragment lives: a value node, or a group node with its member nodes. -/
inductive FA where
  | value (a : Nat)
  | group (ga : Nat) (ms : List Nat)

def FA.addr : FA → Nat
  | .value a => a
  | .group ga _ => ga

def FA.vaddrs : FA → List Nat
  | .value a => [a]
  | .group _ ms => ms

/-- The nodes at `fa` are the model's fragment `f` (a group has at least one member, as `parse.Parse` builds them). -/
def RepFA (mm : Mem) : FA → Frag → Prop
  | .value a, .value v => RepVNode mm a v
  | .group ga ms, .group vs => mm.nodes[ga]? = some (.group ms) ∧ ms ≠ [] ∧ All2 (RepVNode mm) ms vs
  | _, _ => False

theorem forall2_getLast {mm : Mem} : ∀ {ms : List Nat} {vs : List VNode}, All2 (RepVNode mm) ms vs → ms ≠ [] →
    ∃ l v, ms.getLast? = some l ∧ vs.getLast? = some v ∧ RepVNode mm l v
  | [], _, _, h => absurd rfl h
  | [a], _, .cons (b := v) hab .nil, _ => ⟨a, v, rfl, rfl, hab⟩
  | a :: b :: ms, _, .cons (b := v) hab (.cons (b := w) (l₂ := ws) hbw htl), _ => by
    obtain ⟨l, x, h1, h2, h3⟩ := forall2_getLast (ms := b :: ms) (vs := w :: ws) (.cons hbw htl) (by simp)
    exact ⟨l, x, by simpa [List.getLast?_cons_cons] using h1, by simpa [List.getLast?_cons_cons] using h2, h3⟩

/-- `Type()` and `End()` of a fragment's node. -/
theorem repFA_facts (mm : Mem) (fa : FA) (f : Frag) (h : RepFA mm fa f) :
    ext1M mm .nodeType (.node fa.addr) = .ok (.int (match f with | .group _ => 1 | .value _ => 2)) ∧
    ext1M mm .nodeEnd (.node fa.addr) = .ok (.int (fragEnd f)) := by
  cases fa with
  | value a =>
    cases f with
    | value v => exact ⟨ext1M_nodeType mm a _ _ _ h, ext1M_nodeEnd mm a _ _ _ h⟩
    | group vs => exact absurd h (by simp [RepFA])
  | group ga ms =>
    cases f with
    | value v => exact absurd h (by simp [RepFA])
    | group vs =>
      obtain ⟨hn, hne, hall⟩ := h
      obtain ⟨l, v, h1, h2, h3⟩ := forall2_getLast hall hne
      refine ⟨ext1M_nodeType_group mm ga ms hn, ?_⟩
      have h3' : mm.nodes[l]? = some (.value v.val v.pos v.fin) := h3
      simp [ext1M, hn, nodeOp, h1, h3', FA.addr, fragEnd, groupEnd, h2]

theorem repVNode_frame {mm mm' : Mem} {a : Nat} {v : VNode} (h : RepVNode mm a v) (hn : mm'.nodes[a]? = mm.nodes[a]?) : RepVNode mm' a v := by
  unfold RepVNode at *; rw [hn]; exact h

/-- Representation survives a change of one VALUE node that the fragment does not use. -/
theorem repFA_frame {mm mm' : Mem} (na : Nat) (hna : ∃ s p f, mm.nodes[na]? = some (.value s p f))
    (hsame : ∀ b, b ≠ na → mm'.nodes[b]? = mm.nodes[b]?) : ∀ (fa : FA) (f : Frag), RepFA mm fa f → na ∉ fa.vaddrs → RepFA mm' fa f
  | .value a, .value v, h, hni => repVNode_frame h (hsame a (by simpa [FA.vaddrs, eq_comm] using hni))
  | .group ga ms, .group vs, ⟨hn, hne, hall⟩, hni => by
    obtain ⟨s, p, f, hv⟩ := hna
    have hga : ga ≠ na := by rintro rfl; rw [hn] at hv; cases hv
    refine ⟨by rw [hsame ga hga]; exact hn, hne, ?_⟩
    have hni' : ∀ b ∈ ms, b ≠ na := fun b hb hbe => hni (by simpa [FA.vaddrs, hbe] using hb)
    clear hn hne
    induction hall with
    | nil => exact .nil
    | cons hab _ ih =>
      exact .cons (repVNode_frame hab (hsame _ (hni' _ (by simp)))) (ih (fun h => hni (by simp [FA.vaddrs] at h ⊢; exact Or.inr h))
        (fun b hb => hni' b (by simp [hb])))
  | .value _, .group _, h, _ => absurd h (by simp [RepFA])
  | .group _ _, .value _, h, _ => absurd h (by simp [RepFA])

theorem forall2_repFA_frame {mm mm' : Mem} (na : Nat) (hna : ∃ s p f, mm.nodes[na]? = some (.value s p f))
    (hsame : ∀ b, b ≠ na → mm'.nodes[b]? = mm.nodes[b]?) : ∀ (lay : List FA) (fs : List Frag), All2 (RepFA mm) lay fs →
    na ∉ lay.flatMap FA.vaddrs → All2 (RepFA mm') lay fs
  | _, _, .nil, _ => .nil
  | fa :: lay, _, .cons h htl, hni =>
    .cons (repFA_frame na hna hsame fa _ h (fun hm => hni (by simp [List.flatMap_cons, hm])))
      (forall2_repFA_frame na hna hsame lay _ htl (fun hm => hni (by simp only [List.flatMap_cons, List.mem_append]; exact Or.inr hm)))


/-! ## The model's step for a field that is not a grouped param, outside a group -/

theorem fieldText_rem (fi : FieldInfo) (kind : String) (fin : Nat) (s0 s r : Bytes) (h : fieldText fi kind fin s0 = .ok (s, r)) :
    r = if (fi.opts.hasLength && fi.opts.inline) then s0.drop fi.opts.length else [] := by
  rw [fieldText_eq] at h
  cases hl : lenRule fi s0 with
  | none => rw [hl] at h; cases h
  | some p =>
    obtain ⟨s', inl⟩ := p
    rw [hl] at h
    simp only at h
    have hinl := (lenRule_facts fi s0 s' inl hl).2
    cases hf : firstInvalid fi.opts.enc s' with
    | some ch => rw [hf] at h; cases h
    | none =>
      rw [hf] at h
      simp only [Except.ok.injEq, Prod.mk.injEq] at h
      rw [← h.2, hinl]

/-- What stays in the node after an inline field. -/
def remOf (fi : FieldInfo) (s0 : Bytes) : Bytes := if (fi.opts.hasLength && fi.opts.inline) then s0.drop fi.opts.length else []

theorem stepField_nogroup (hashLen : Nat) (fi : FieldInfo) (st : LoopSt) (hg : fi.opts.group = false) (hn : st.group = none) :
    stepField hashLen fi st =
      (match st.frags with
       | [] => if fi.opts.omitEmpty then .ok st else .error (.ute "EOF" hashLen fi.name .unexpectedEOF)
       | frag :: rest =>
         if fi.opts.omitEmpty = true ∧ st.numValues - st.numReq ≤ 0 then .ok { st with numValues := st.numValues - 1 }
         else match frag with
           | .value v =>
             if valueMatches fi v.val then
               (match nodeModel fi "value" v.fin v.val with
                | .error e => .error e
                | .ok fv => .ok { st with
                    frags := if fi.opts.inline then Frag.value { v with val := remOf fi v.val } :: rest else rest,
                    numValues := st.numValues - 1,
                    numReq := if fi.opts.omitEmpty then st.numReq else st.numReq - 1,
                    out := st.out ++ [(fi.index, fv)] })
             else if fi.opts.omitEmpty then .ok st
             else .error (.ute "value" v.fin fi.name (.notFound (fieldKindName fi)))
           | .group g => if fi.opts.omitEmpty then .ok st
             else .error (.ute "group" (groupEnd g) fi.name (.notFound (fieldKindName fi)))) := by
  unfold stepField
  simp only [hg, hn, Bool.not_false, Option.isSome_none, Bool.and_false, Bool.false_eq_true, if_false, bind, Except.bind, pure, Except.pure,
    Option.isNone_none, Bool.and_true, Bool.false_and, throw, throwThe, MonadExceptOf.throw]
  cases hfr : st.frags with
  | nil => simp only []
  | cons frag rest =>
    simp only []
    by_cases hskip : fi.opts.omitEmpty = true ∧ st.numValues - st.numReq ≤ 0
    · rw [if_pos hskip, if_pos (by simpa using hskip)]
    · rw [if_neg hskip, if_neg (by simpa using hskip)]
      cases frag with
      | group g =>
        simp only [Bool.not_true, Bool.and_false, Bool.false_eq_true, if_false, fragKind, fragEnd]
      | value v =>
        simp only [Bool.not_false, Bool.and_true, Bool.true_and, if_true, fragKind, fragEnd]
        by_cases hm : valueMatches fi v.val = true
        · have hm' : fi.opts.param = [] ∨ (fi.opts.param ++ [Bytes.equals]).isPrefixOf v.val = true := by
            simpa [valueMatches] using hm
          rw [if_pos hm', if_pos hm]
          unfold nodeModel
          cases hft : fieldText fi "value" v.fin v.val with
          | error e => rfl
          | ok p =>
            obtain ⟨s, r⟩ := p
            have hr := fieldText_rem fi _ _ _ _ _ hft
            simp only []
            cases hsv : storeValue fi "value" v.fin s with
            | error e => rfl
            | ok fv => simp only [remOf, hr]
        · have hm' : ¬ (fi.opts.param = [] ∨ (fi.opts.param ++ [Bytes.equals]).isPrefixOf v.val = true) := by
            simpa [valueMatches] using hm
          rw [if_neg hm', if_neg hm]

/-! ## The invariant and one iteration (descriptions without grouped params) -/

/-- The loop invariant: the fragments from `fragIdx` on are the model's `st.frags` (with their current texts), at pairwise
distinct value nodes; no group is open; value texts are within the loop bound `F`. -/
structure LInv (heap0 : TIIR.Heap) (as : List Nat) (F : Nat) (mm : Mem) (st : LoopSt) (fragIdx : Nat) (lay : List FA) : Prop where
  heap : mm.heap = heap0
  addr : as.drop fragIdx = lay.map FA.addr
  frags : All2 (RepFA mm) lay st.frags
  nodup : (lay.flatMap FA.vaddrs).Nodup
  nogroup : st.group = none
  short : ∀ v, Frag.value v ∈ st.frags → v.val.length ≤ F

/-- The model's view of the field after the assignments `out` (what `finalVals` lists). -/
def valOf (out : Vals) (fi : FieldInfo) : FVal :=
  ((out.reverse.find? (·.1 = fi.index)).map (·.2)).getD (zeroOf fi.kind fi.ptrDepth)
def CellsOk (mm : Mem) (allF : List FieldInfo) (out : Vals) : Prop :=
  ∀ fi ∈ allF, (cellRoot mm fi.index).map Examples.fOfG = some (valOf out fi)
def ZeroRest (mm : Mem) (rem : List FieldInfo) : Prop := ∀ fi ∈ rem, cellRoot mm fi.index = some (zeroG (fiType fi))

theorem repFA_nodes_eq {mm mm' : Mem} (h : mm'.nodes = mm.nodes) : RepFA mm' = RepFA mm := by
  funext fa f
  cases fa <;> cases f <;> simp only [RepFA, RepVNode, h]
  rename_i ga ms vs
  have : All2 (RepVNode mm') ms vs = All2 (RepVNode mm) ms vs := by
    have : RepVNode mm' = RepVNode mm := by funext a v; simp only [RepVNode, h]
    rw [this]
  rw [this]

theorem cellRoot_deferMem (m : Mem) (inl : Bool) (na : Nat) (s0 : Bytes) (pos fin len : Nat) (j : List Nat) :
    cellRoot (deferMem m inl na s0 pos fin len) j = cellRoot m j := by
  cases inl <;> rfl

theorem all2_cons_inv {α β : Type} {R : α → β → Prop} {a : α} {l : List α} {bs : List β} (h : All2 R (a :: l) bs) :
    ∃ b bs', bs = b :: bs' ∧ R a b ∧ All2 R l bs' := by
  cases h with
  | cons h1 h2 => exact ⟨_, _, rfl, h1, h2⟩

theorem all2_nil_left {α β : Type} {R : α → β → Prop} {bs : List β} (h : All2 R ([] : List α) bs) : bs = [] := by
  cases h; rfl

theorem all2_right_cons {α β : Type} {R : α → β → Prop} {as : List α} {b : β} {bs : List β} (h : All2 R as (b :: bs)) :
    ∃ a as', as = a :: as' ∧ R a b ∧ All2 R as' bs := by
  cases h with
  | cons h1 h2 => exact ⟨_, _, rfl, h1, h2⟩

theorem all2_right_nil {α β : Type} {R : α → β → Prop} {as : List α} (h : All2 R as ([] : List β)) : as = [] := by
  cases h; rfl

theorem valOf_append_same (out : Vals) (fi fi' : FieldInfo) (fv : FVal) (h : fi'.index = fi.index) :
    valOf (out ++ [(fi.index, fv)]) fi' = fv := by
  simp [valOf, List.find?_cons, h]

theorem valOf_append_other (out : Vals) (fi fi' : FieldInfo) (fv : FVal) (h : ¬ fi'.index = fi.index) :
    valOf (out ++ [(fi.index, fv)]) fi' = valOf out fi' := by
  have h' : ¬ fi.index = fi'.index := fun e => h e.symm
  simp [valOf, List.find?_cons, h']

section step
variable (c c' : Ctx) (hc : CallsU c c') (hfuel : c'.fuel = c.fuel)
  (hash : Bytes) (t t0 : RType) (pv : Val) (as : List Nat) (tia : Nat) (addrs : List Nat) (heap0 : TIIR.Heap)
  (st tt : RType) (hpv : TIIR.Val) (nreq : Int) (hti : heap0[tia]? = some (tiObj (.rtype st) tt hpv addrs nreq))
  (allF : List FieldInfo)

include hc hfuel hti in
/-- **One iteration of the loop over `ti.Fields` = the model's `stepField`**, for a field that is not a grouped param. -/
theorem step_nogroup (fi : FieldInfo) (rest : List FieldInfo) (a i : Nat) (hi : addrs[i]? = some a) (ha : heap0[a]? = some (fiObj fi))
    (hok : FieldOk c t0 fi) (hg : fi.opts.group = false) (hmem : fi ∈ allF) (hdist : ∀ fi' ∈ rest, ¬ fi'.index = fi.index)
    (mm : Mem) (s : LoopSt) (fragIdx : Nat) (lay : List FA) (hinv : LInv heap0 as c.fuel mm s fragIdx lay)
    (hcells : CellsOk mm allF s.out) (hzero : ZeroRest mm (fi :: rest)) (ngv : Int) (fiv fragv : Val) (j : List Val) :
    match stepField hash.length fi s with
    | .error e => ∃ m' v, exec c uBody mm (tEnv hash t t0 pv as tia addrs fragIdx ngv .nil s.numValues s.numReq i fiv fragv j) = .ret m' [v] ∧
        absErrU heap0 v = some e
    | .ok s' => ∃ (mm' : Mem) (env' : Env) (fragIdx' : Nat) (lay' : List FA) (fragv' : Val),
        (exec c uBody mm (tEnv hash t t0 pv as tia addrs fragIdx ngv .nil s.numValues s.numReq i fiv fragv j) = .norm mm' env' ∨
         exec c uBody mm (tEnv hash t t0 pv as tia addrs fragIdx ngv .nil s.numValues s.numReq i fiv fragv j) = .cont mm' env') ∧
        IsT env' hash t t0 pv as tia addrs fragIdx' ngv .nil s'.numValues s'.numReq i (.ptr a) fragv' ∧
        LInv heap0 as c.fuel mm' s' fragIdx' lay' ∧ CellsOk mm' allF s'.out ∧ ZeroRest mm' rest := by
  have ha' : mm.heap[a]? = some (fiObj fi) := by rw [hinv.heap]; exact ha
  have hti' : mm.heap[tia]? = some (tiObj (.rtype st) tt hpv addrs nreq) := by rw [hinv.heap]; exact hti
  have hzrest : ZeroRest mm rest := fun f hf => hzero f (List.mem_cons_of_mem _ hf)
  rw [stepField_nogroup hash.length fi s hg hinv.nogroup, uBody_split]
  have h1 : exec c uP1 mm (tEnv hash t t0 pv as tia addrs fragIdx ngv .nil s.numValues s.numReq i fiv fragv j) =
      .norm mm (tEnv hash t t0 pv as tia addrs fragIdx ngv .nil s.numValues s.numReq i (.ptr a) fragv j) := by
    rcases uP1_spec c hash t t0 pv as tia addrs mm st fi a ha' i hi fragIdx ngv .nil s.numValues s.numReq fiv fragv j (Or.inl rfl) with
      ⟨_, h1⟩ | ⟨_, ga, _, hgv, _⟩
    · exact h1
    · cases hgv
  rw [h1, andThen_norm, uP2_spec c hash t t0 pv as tia addrs mm st tt hpv nreq hti' fi a ha']
  cases hfr : s.frags with
  | nil =>
    have hlay : lay = [] := by have := hinv.frags; rw [hfr] at this; exact all2_right_nil this
    have hle : as.length ≤ fragIdx := by
      have := hinv.addr; rw [hlay, List.map_nil, List.drop_eq_nil_iff] at this; exact this
    simp only [hle, if_true]
    cases hom : fi.opts.omitEmpty
    · simp only [Bool.false_eq_true, if_false, andThen_ret]
      exact ⟨mm, _, rfl, by rw [← hinv.heap]; exact absErrU_eofRec _ _ _ _ _ _ (by decide)⟩
    · simp only [if_true, andThen_cont]
      exact ⟨mm, _, fragIdx, lay, fragv, Or.inr rfl, ⟨j, rfl⟩, hinv, hcells, hzrest⟩
  | cons frag frest =>
    have hfrags := hinv.frags
    rw [hfr] at hfrags
    obtain ⟨fa, lay', hlay, hrep, hreptl⟩ := all2_right_cons hfrags
    have haddr := hinv.addr
    rw [hlay, List.map_cons] at haddr
    have hlt : fragIdx < as.length := by
      rcases Nat.lt_or_ge fragIdx as.length with h | h
      · exact h
      · rw [List.drop_eq_nil_iff.mpr h] at haddr; cases haddr
    have hfa : as[fragIdx]? = some fa.addr := by
      rw [List.drop_eq_getElem_cons hlt] at haddr
      rw [List.getElem?_eq_getElem hlt]; congr 1; exact (List.cons.inj haddr).1
    have hdrop1 : as.drop (fragIdx + 1) = lay'.map FA.addr := by
      rw [List.drop_eq_getElem_cons hlt] at haddr; exact (List.cons.inj haddr).2
    have hnd := hinv.nodup
    rw [hlay, List.flatMap_cons, List.nodup_append] at hnd
    simp only [show ¬ as.length ≤ fragIdx by omega, if_false, andThen_norm]
    rw [uP3_spec c hash t t0 pv as tia addrs mm fi a ha' fragIdx ngv .nil (Or.inl rfl)]
    simp only [isNilV, true_and]
    by_cases hskip : fi.opts.omitEmpty = true ∧ s.numValues - s.numReq ≤ 0
    · rw [if_pos hskip, if_pos hskip, andThen_cont]
      refine ⟨mm, _, fragIdx, lay, fragv, Or.inr rfl, ⟨j, rfl⟩, ?_, hcells, hzrest⟩
      exact ⟨hinv.heap, hinv.addr, hfrags, hinv.nodup, hinv.nogroup, fun w hw => hinv.short w (by rw [hfr]; exact hw)⟩
    · rw [if_neg hskip, if_neg hskip, andThen_norm, uP4_spec c hash t t0 pv as tia addrs mm fragIdx fa.addr hfa, andThen_norm]
      obtain ⟨hnt, hend⟩ := repFA_facts mm fa frag hrep
      cases frag with
      | group g =>
        rw [uDisp_spec c hash t t0 pv as tia addrs mm fi a ha' fa.addr true hnt]
        have hpick : dispPick fi true = uE := by simp [dispPick, hg]
        have hec := ErrCalls.of_spec hc.err mm fa.addr tia a 1 _ "group" (groupEnd g) fi st tt hpv addrs nreq hnt ntypeString_1 (by decide)
          hend ha' hti'
        rw [hpick, uE_spec c hash t t0 pv as tia addrs mm st fi a ha' hc.fs fa.addr _ "group" (groupEnd g) hec]
        simp only []
        cases hom : fi.opts.omitEmpty
        · simp only [Bool.false_eq_true, if_false]
          exact ⟨mm, _, rfl, by rw [← hinv.heap]; exact hec.abs _ _ (msgClassU_notFound fi)⟩
        · simp only [if_true]
          exact ⟨mm, _, fragIdx, lay, _, Or.inr rfl, ⟨j, rfl⟩, hinv, hcells, hzrest⟩
      | value v =>
        rw [uDisp_spec c hash t t0 pv as tia addrs mm fi a ha' fa.addr false hnt]
        have hpick : dispPick fi false = uV := by simp [dispPick, hg]
        rw [hpick]
        cases fa with
        | group ga ms => exact absurd hrep (by simp [RepFA])
        | value na =>
          have hn : mm.nodes[na]? = some (.value v.val v.pos v.fin) := hrep
          have hecOf : ∀ (cc : Ctx), NewErrSpecG cc → ∀ m1 : Mem, m1.nodes = mm.nodes → m1.heap = mm.heap →
              ErrCalls cc m1 na tia a valueLit "value" v.fin fi st := by
            intro cc hcc m1 h1n h1h
            have hn1 : m1.nodes[na]? = some (.value v.val v.pos v.fin) := by rw [h1n]; exact hn
            exact ErrCalls.of_spec hcc m1 na tia a 2 valueLit "value" v.fin fi st tt hpv addrs nreq
              (ext1M_nodeType m1 na _ _ _ hn1) ntypeString_2 (by decide) (ext1M_nodeEnd m1 na _ _ _ hn1) (by rw [h1h]; exact ha')
              (by rw [h1h]; exact hti')
          simp only [FA.addr]
          by_cases hm : valueMatches fi v.val = true
          rotate_left
          · have hm' : valueMatches fi v.val = false := by simpa using hm
            rw [uV_nomatch c hash t t0 pv as tia addrs mm st fi a ha' hc.fs na v.val v.pos v.fin hn (hecOf c hc.err mm rfl rfl) hm']
            simp only [hm', Bool.false_eq_true, if_false]
            cases hom : fi.opts.omitEmpty
            · simp only [Bool.false_eq_true, if_false]
              exact ⟨mm, _, rfl, by rw [← hinv.heap]; exact (hecOf c hc.err mm rfl rfl).abs _ _ (msgClassU_notFound fi)⟩
            · simp only [if_true]
              exact ⟨mm, _, fragIdx, lay, _, Or.inr rfl, ⟨j, rfl⟩, hinv, hcells, hzrest⟩
          · simp only [hm, if_true]
            have hvshort : v.val.length ≤ c.fuel := hinv.short v (by rw [hfr]; simp)
            obtain ⟨mm1, cv, h8, hcv, hstore⟩ := field_store c c' hc hfuel mm na tia a v.val v.pos v.fin fi valueLit "value" st t0 hok
              (fun m1 h1 => ext1M_nodeString m1 na _ _ _ (by rw [h1]; exact hn)) (hecOf c' hc.err')
              (fun _ => hn) ha' (hzero fi (by simp)) hvshort
            have hfb := hok.reach mm (by rw [hzero fi (by simp)]; rfl)
            cases hnm : nodeModel fi "value" v.fin v.val with
            | error e =>
              rw [hnm] at hstore
              obtain ⟨mm2, rv, h6, hh2, habs⟩ := hstore
              rcases uV_match c hash t t0 pv as tia addrs mm fi a ha' na v.val v.pos v.fin hn hm hfb mm1 mm2 cv rv h8 hcv h6 hh2
                (Or.inr (by rw [habs]; rfl)) fragIdx ngv .nil s.numValues s.numReq i j with ⟨_, hx⟩ | ⟨hnil, _⟩
              · exact ⟨mm2, rv, hx, by rw [← hinv.heap]; exact habs⟩
              · rw [hnil] at habs; simp [absErrU] at habs
            | ok fv =>
              rw [hnm] at hstore
              obtain ⟨mm2, h6, hsame2, hroot2⟩ := hstore
              rcases uV_match c hash t t0 pv as tia addrs mm fi a ha' na v.val v.pos v.fin hn hm hfb mm1 _ cv .nil h8 hcv h6
                (by rw [deferMem_heap]; exact hsame2.heap) (Or.inl rfl) fragIdx ngv .nil s.numValues s.numReq i j with ⟨hne, _⟩ | ⟨_, env', hx, hT⟩
              · exact absurd rfl hne
              · -- the new state
                have hsv : ∃ s1, storeValue fi "value" v.fin s1 = .ok fv := by
                  unfold nodeModel at hnm
                  cases hft : fieldText fi "value" v.fin v.val with
                  | error e => rw [hft] at hnm; cases hnm
                  | ok p => rw [hft] at hnm; exact ⟨p.1, hnm⟩
                obtain ⟨s1, hs1⟩ := hsv
                have hfO : Examples.fOfG (gOfF fv) = fv := storeValue_shape fi _ _ _ _ hs1
                have hcells' : CellsOk (deferMem mm2 (fi.opts.hasLength && fi.opts.inline) na v.val v.pos v.fin fi.opts.length) allF
                    (s.out ++ [(fi.index, fv)]) := by
                  intro f hf
                  rw [cellRoot_deferMem]
                  by_cases hidx : f.index = fi.index
                  · rw [hidx, hroot2, valOf_append_same _ _ _ _ hidx]
                    simp [ptrChain_fOfG, hfO]
                  · rw [hsame2.other _ hidx, valOf_append_other _ _ _ _ hidx]
                    exact hcells f hf
                have hzero' : ZeroRest (deferMem mm2 (fi.opts.hasLength && fi.opts.inline) na v.val v.pos v.fin fi.opts.length) rest := by
                  intro f hf
                  rw [cellRoot_deferMem, hsame2.other _ (hdist f hf)]
                  exact hzrest f hf
                cases hinl : fi.opts.inline
                · -- the fragment is consumed
                  have hb : (fi.opts.hasLength && fi.opts.inline) = false := by simp [hinl]
                  rw [hb] at hx hcells' hzero'
                  simp only [hinl, Bool.false_eq_true, if_false] at hT ⊢
                  refine ⟨_, env', fragIdx + 1, lay', _, Or.inl hx, by simpa using hT, ?_, hcells', hzero'⟩
                  have hnodes : (deferMem mm2 false na v.val v.pos v.fin fi.opts.length).nodes = mm.nodes := hsame2.nodes
                  refine ⟨by rw [deferMem_heap, hsame2.heap]; exact hinv.heap, hdrop1, ?_, hnd.2.1, hinv.nogroup, ?_⟩
                  · rw [repFA_nodes_eq hnodes]; exact hreptl
                  · intro w hw; exact hinv.short w (by rw [hfr]; exact List.mem_cons_of_mem _ hw)
                · -- the remainder stays in the node
                  have hhl := hok.inl hinl
                  have hb : (fi.opts.hasLength && fi.opts.inline) = true := by simp [hinl, hhl]
                  rw [hb] at hx hcells' hzero'
                  simp only [hinl, if_true] at hT ⊢
                  refine ⟨_, env', fragIdx, lay, _, Or.inl hx, hT, ?_, hcells', hzero'⟩
                  have hnodes : (deferMem mm2 true na v.val v.pos v.fin fi.opts.length).nodes =
                      mm.nodes.set na (.value (v.val.drop fi.opts.length) v.pos v.fin) := by
                    rw [deferMem_true]; show mm2.nodes.set _ _ = _; rw [hsame2.nodes]
                  have hnalt : na < mm.nodes.length := by
                    rcases Nat.lt_or_ge na mm.nodes.length with h | h
                    · exact h
                    · rw [List.getElem?_eq_none h] at hn; cases hn
                  have hsame : ∀ b, b ≠ na → (deferMem mm2 true na v.val v.pos v.fin fi.opts.length).nodes[b]? = mm.nodes[b]? := by
                    intro b hb'; rw [hnodes, List.getElem?_set_ne (fun e => hb' e.symm)]
                  have hnotin : na ∉ lay'.flatMap FA.vaddrs := by
                    intro hmem'
                    exact hnd.2.2 na (by simp [FA.vaddrs]) na hmem' rfl
                  refine ⟨by rw [deferMem_heap, hsame2.heap]; exact hinv.heap, hinv.addr, ?_, hinv.nodup, hinv.nogroup, ?_⟩
                  · rw [hlay]
                    refine .cons ?_ (forall2_repFA_frame na ⟨_, _, _, hn⟩ hsame lay' frest hreptl hnotin)
                    show (deferMem mm2 true na v.val v.pos v.fin fi.opts.length).nodes[na]? = _
                    rw [hnodes, List.getElem?_set_self hnalt]
                    simp [remOf, hb]
                  · intro w hw
                    simp only [List.mem_cons] at hw
                    rcases hw with hw | hw
                    · have : w.val = remOf fi v.val := by cases hw; rfl
                      rw [this]; unfold remOf; rw [hb]; simp only [if_true, List.length_drop]
                      have := hinv.short v (by rw [hfr]; simp); omega
                    · exact hinv.short w (by rw [hfr]; exact List.mem_cons_of_mem _ hw)
end step

/-! ## The induction over the field list -/

section loopInd
variable (c c' : Ctx) (hc : CallsU c c') (hfuel : c'.fuel = c.fuel)
  (hash : Bytes) (t t0 : RType) (pv : Val) (as : List Nat) (tia : Nat) (addrs : List Nat) (heap0 : TIIR.Heap)
  (st tt : RType) (hpv : TIIR.Val) (nreq : Int) (hti : heap0[tia]? = some (tiObj (.rtype st) tt hpv addrs nreq))
  (allF : List FieldInfo)

omit hc hfuel hti in
theorem uLoop_cond (mm : Mem) (fragIdx ngv : Int) (gv : Val) (nv nr : Int) (i : Nat) (fiv fragv : Val) (j : List Val) :
    (fun m env => eval c m env uLoop.forCond >>= asBool) mm (tEnv hash t t0 pv as tia addrs fragIdx ngv gv nv nr i fiv fragv j) =
      .ok (decide (i < addrs.length)) := by
  simp only [uLoop, unmarshalTopIR, Stmt.drop, Stmt.head, Stmt.forCond, tEnv]
  ci_simp

omit hc hfuel hti in
theorem uLoop_post (mm : Mem) (fragIdx ngv : Int) (gv : Val) (nv nr : Int) (i : Nat) (fiv fragv : Val) (j : List Val) :
    exec c uLoop.forPost mm (tEnv hash t t0 pv as tia addrs fragIdx ngv gv nv nr i fiv fragv j) =
      .norm mm (tEnv hash t t0 pv as tia addrs fragIdx ngv gv nv nr (i + 1 : Nat) fiv fragv j) := by
  simp only [uLoop, unmarshalTopIR, Stmt.drop, Stmt.head, Stmt.forPost, tEnv]
  ci_simp

theorem loopFields_cons (hashLen : Nat) (f : FieldInfo) (fs : List FieldInfo) (s : LoopSt) :
    loopFields hashLen (f :: fs) s = (match stepField hashLen f s with | .error e => .error e | .ok s' => loopFields hashLen fs s') := by
  conv => lhs; unfold loopFields
  cases stepField hashLen f s <;> rfl

include hc hfuel hti in
/-- **The loop over `ti.Fields` = the model's `loopFields`**, for descriptions without grouped params. -/
theorem loop_nogroup (fields : List FieldInfo) (hreps : Reps heap0 addrs fields)
    (hok : ∀ fi ∈ fields, FieldOk c t0 fi ∧ fi.opts.group = false ∧ fi ∈ allF) (hnd : (fields.map (·.index)).Nodup) (ngv : Int) :
    ∀ (n i : Nat) (mm : Mem) (s : LoopSt) (fragIdx : Nat) (lay : List FA) (fiv fragv : Val) (j : List Val),
      i ≤ fields.length → fields.length - i < n → LInv heap0 as c.fuel mm s fragIdx lay → CellsOk mm allF s.out →
      ZeroRest mm (fields.drop i) →
      match loopFields hash.length (fields.drop i) s with
      | .error e => ∃ m' v, loop (fun m env => eval c m env uLoop.forCond >>= asBool) (exec c uBody) (exec c uLoop.forPost) n mm
            (tEnv hash t t0 pv as tia addrs fragIdx ngv .nil s.numValues s.numReq i fiv fragv j) = .ret m' [v] ∧ absErrU heap0 v = some e
      | .ok s' => ∃ (mm' : Mem) (env' : Env) (fragIdx' : Nat) (lay' : List FA) (fiv' fragv' : Val),
          loop (fun m env => eval c m env uLoop.forCond >>= asBool) (exec c uBody) (exec c uLoop.forPost) n mm
            (tEnv hash t t0 pv as tia addrs fragIdx ngv .nil s.numValues s.numReq i fiv fragv j) = .norm mm' env' ∧
          IsT env' hash t t0 pv as tia addrs fragIdx' ngv .nil s'.numValues s'.numReq (fields.length : Nat) fiv' fragv' ∧
          LInv heap0 as c.fuel mm' s' fragIdx' lay' ∧ CellsOk mm' allF s'.out := by
  have hlen := reps_len hreps
  intro n
  induction n with
  | zero => intro i _ _ _ _ _ _ _ _ hlt; omega
  | succ n ih =>
    intro i mm s fragIdx lay fiv fragv j hi hn hinv hcells hzero
    by_cases hend : i = fields.length
    · have hcnd := (uLoop_cond c hash t t0 pv as tia addrs mm fragIdx ngv .nil s.numValues s.numReq i fiv fragv j).trans
        (show Res.ok (decide (i < addrs.length)) = .ok false by simp; omega)
      rw [loop_false _ _ _ _ _ _ hcnd, hend, List.drop_length]
      simp only [loopFields, pure, Except.pure]
      exact ⟨mm, _, fragIdx, lay, fiv, fragv, rfl, ⟨j, rfl⟩, hinv, hcells⟩
    · have hilt : i < fields.length := by omega
      have hcnd := (uLoop_cond c hash t t0 pv as tia addrs mm fragIdx ngv .nil s.numValues s.numReq i fiv fragv j).trans
        (show Res.ok (decide (i < addrs.length)) = .ok true by simp; omega)
      rw [loop_step _ _ _ _ _ _ hcnd]
      obtain ⟨fi, hfi⟩ : ∃ fi, fields[i]? = some fi := ⟨fields[i], by simp [hilt]⟩
      obtain ⟨a, ha, hheap⟩ := reps_get hreps i fi hfi
      have hmemf : fi ∈ fields := List.mem_of_getElem? hfi
      obtain ⟨hfok, hgr, hall⟩ := hok fi hmemf
      have hdrop : fields.drop i = fi :: fields.drop (i + 1) := by
        rw [List.drop_eq_getElem_cons hilt]; congr 1
        have := List.getElem?_eq_getElem hilt; rw [this] at hfi; exact Option.some.inj hfi
      have hdist : ∀ fi' ∈ fields.drop (i + 1), ¬ fi'.index = fi.index := by
        have h2 : ((fields.drop i).map (·.index)).Nodup := by
          exact List.Nodup.sublist ((List.drop_sublist _ _).map _) hnd
        rw [hdrop, List.map_cons, List.nodup_cons] at h2
        intro fi' hfi' he
        exact h2.1 (by rw [← he]; exact List.mem_map_of_mem hfi')
      rw [hdrop] at hzero
      have hstep := step_nogroup c c' hc hfuel hash t t0 pv as tia addrs heap0 st tt hpv nreq hti allF fi (fields.drop (i + 1)) a i ha hheap
        hfok hgr hall hdist mm s fragIdx lay hinv hcells hzero ngv fiv fragv j
      rw [hdrop, loopFields_cons]
      cases hsf : stepField hash.length fi s with
      | error e =>
        rw [hsf] at hstep
        obtain ⟨m', v, hx, habs⟩ := hstep
        exact ⟨m', v, by rw [hx]; rfl, habs⟩
      | ok s' =>
        rw [hsf] at hstep
        obtain ⟨mm', env', fragIdx', lay', fragv', hx, ⟨j', rfl⟩, hinv', hcells', hzero'⟩ := hstep
        have hnext := ih (i + 1) mm' s' fragIdx' lay' (.ptr a) fragv' j' (by omega) (by omega) hinv' hcells' hzero'
        have hcont : afterBody (exec c uLoop.forPost)
            (loop (fun m env => eval c m env uLoop.forCond >>= asBool) (exec c uBody) (exec c uLoop.forPost) n)
            (exec c uBody mm (tEnv hash t t0 pv as tia addrs fragIdx ngv .nil s.numValues s.numReq i fiv fragv j)) =
            loop (fun m env => eval c m env uLoop.forCond >>= asBool) (exec c uBody) (exec c uLoop.forPost) n mm'
              (tEnv hash t t0 pv as tia addrs fragIdx' ngv .nil s'.numValues s'.numReq (i + 1 : Nat) (.ptr a) fragv' j') := by
          rcases hx with hx | hx <;> rw [hx] <;> simp only [afterBody_norm, afterBody_cont, uLoop_post, afterPost_norm]
        rw [hcont]
        exact hnext
end loopInd
end GoCrypt.CIR
