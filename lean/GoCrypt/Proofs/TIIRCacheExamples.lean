import GoCrypt.Proofs.TIIRCacheHist

/-!
# Type-info IR with cache state: running histories of calls on the example struct descriptions

Definitions only (for the `#guard` examples of `Props/TypeCacheIR.lean`): `step` runs the regenerated
`getTypeInfo` under the cache interpreter on `*…*root` from a given cache state and heap and CHECKS the result
against the model `typeInfoOf` and against the privacy / keying facts; `runAll` runs a history.
-/

namespace GoCrypt.TIIR.Cache.Examples
open GoCrypt.Codec GoCrypt.Gen.typeinfoIR GoCrypt.TIIR GoCrypt.TIIR.Examples

/-- The `reflect.Type` of the example struct named `n`. -/
def T0 (n : String) : RType := ⟨0, .structRef n, "", .none, .none⟩

/-- One call of the regenerated `getTypeInfo` on `*…*root` (merge sort as `sort.Slice`). -/
def call (K : CacheSt) (h : Heap) (root : String) (stars : Nat) : Res (CacheSt × Heap × List Val) :=
  callInC program (world sortByLen) 40 4 K h [.rtype (argType T0 root stars)]

/-- Run one call and check it: `none` when a check fails, else the new cache state and heap.
Checks: the old heap is a prefix of the new one; on success the returned record has `Struct` = the argument
type, `Type` = the dereferenced type, its fields / `HashPrefix` / `NumReqValues` are `typeInfoOf`'s, the returned
address is none of the cached addresses and every key of the cache is a dereferenced type; on error the
error is `typeInfoOf`'s and the cache state is unchanged. -/
def step (st : CacheSt × Heap) (root : String) (stars : Nat) : Option (CacheSt × Heap) :=
  match call st.1 st.2 root stars, typeInfoOf structs root with
  | .ok (K', h', [.ptr a, .nil]), .ok ti =>
    (match h'[a]? with
     | some [.rtype s, .rtype ty, hp, .ptrs addrs, .int n] =>
       if s == argType T0 root stars && ty == T0 root &&
          addrs.map (h'[·]?) == ti.fields.map (some ∘ fiObj) && n == ti.numReqValues &&
          (match hp, ti.hashPrefix with
           | .nil, none => true
           | .ptr p, some fi => h'[p]? == some (fiObj fi)
           | _, _ => false) &&
          !(K'.map (·.2)).contains a && K'.all (fun e => e.1.depth == 0) && h'.take st.2.length == st.2
       then some (K', h') else none
     | _ => none)
  | .ok (K', h', [.nil, v]), .error e =>
    if absErr h' v == some e && K' == st.1 && h'.take st.2.length == st.2 then some (K', h') else none
  | _, _ => none

/-- Run a history of calls from the empty cache and the empty heap; `none` when some check failed. -/
def runAll : List (String × Nat) → Option (CacheSt × Heap) :=
  List.foldl (fun st c => st.bind fun st => step st c.1 c.2) (some ([], []))

/-- The keys of the cache after a history. -/
def keysAfter (hist : List (String × Nat)) : Option (List RType) := (runAll hist).map fun st => st.1.map (·.1)

/-- The caller overwrites the record it got from the last call with garbage; then the history continues. -/
def runAllWithMutation (hist1 hist2 : List (String × Nat)) : Option (CacheSt × Heap) :=
  match runAll hist1 with
  | some (K, h) =>
    List.foldl (fun st c => st.bind fun st => step st c.1 c.2) (some (K, h.set (h.length - 1) [.int 0, .nil, .nil, .ptrs [], .int 99])) hist2
  | none => none

end GoCrypt.TIIR.Cache.Examples
