import GoCrypt.Proofs.CodecIRUIndirect
import GoCrypt.Proofs.CodecIRValue

/-!
# Codec IR: `newUnmarshalError`, and the first half of `unmarshal` = the model's `fieldText`

Helper lemmas only.
-/

namespace GoCrypt.CIR
open GoCrypt.Codec GoCrypt.Gen.codecIR
open GoCrypt.TIIR (RType Res kindNum fiType fiObj tiObj encVal optsVals)

/-- The error value `newUnmarshalError` builds for a value node. -/
def errRec (fin : Nat) (fi : FieldInfo) (st : RType) (msg : Val) : Val :=
  .recd "UnmarshalTypeError" [.str valueLit, .rtype (fiType fi), .int fin, .msg [.typeStr st], .name fi.name, msg]

theorem absErrU_errRec (heap : TIIR.Heap) (fin : Nat) (fi : FieldInfo) (st : RType) (msg : Val) (cls : MsgClass)
    (h : msgClassU msg = some cls) : absErrU heap (errRec fin fi st msg) = some (.ute "value" fin fi.name cls) := by
  simp [errRec, absErrU, kindName, valueLit, h]

theorem ti_struct (m : Mem) (a : Nat) (s : TIIR.Val) (t0 : RType) (hp : TIIR.Val) (addrs : List Nat) (n : Int)
    (h : m.heap[a]? = some (tiObj s t0 hp addrs n)) : fieldOf m (.ptr a) 0 = .ok (ofTI s) := by simp [fieldOf, h, tiObj]

section nodeOps
variable (m : Mem) (na : Nat) (s0 : Bytes) (pos fin : Nat) (hn : m.nodes[na]? = some (.value s0 pos fin))
include hn
theorem ext1M_nodeType : ext1M m .nodeType (.node na) = .ok (.int 2) := by simp [ext1M, hn, nodeOp]
theorem ext1M_nodeEnd : ext1M m .nodeEnd (.node na) = .ok (.int fin) := by simp [ext1M, hn, nodeOp]
theorem ext1M_nodeString : ext1M m .nodeString (.node na) = .ok (.str s0) := by simp [ext1M, hn, nodeOp]
theorem ext1M_nodeValue : ext1M m .nodeValue (.node na) = .ok (.str s0) := by simp [ext1M, hn, nodeOp]
theorem ext1M_assertValue : ext1M m .assertValue (.node na) = .ok (.node na) := by simp [ext1M, hn, nodeOp]
end nodeOps

theorem ntypeString_2 : ext1 .ntypeString (.int 2) = .ok (.str valueLit) := by simp [ext1, valueLit]

section newErr
variable (c : Ctx) (m : Mem) (na tia a : Nat) (s0 : Bytes) (pos fin : Nat) (fi : FieldInfo) (st t0 : RType) (hp : TIIR.Val)
  (addrs : List Nat) (n : Int)
  (hn : m.nodes[na]? = some (.value s0 pos fin)) (ha : m.heap[a]? = some (fiObj fi))
  (hti : m.heap[tia]? = some (tiObj (.rtype st) t0 hp addrs n))
include hn ha hti

theorem newUnmarshalError_str (b : Bytes) :
    execProc c newUnmarshalErrorIR m [.node na, .ptr tia, .ptr a, .str b] = .ok (m, [errRec fin fi st (.str b)]) := by
  rw [execProc_eq _ _ _ _ (by rfl)]
  show procResult (exec c newUnmarshalErrorIR.body m [.node na, .ptr tia, .ptr a, .str b, .undef]) = _
  simp only [newUnmarshalErrorIR]
  ci_simp [ext1M_nodeType m na s0 pos fin hn, ext1M_nodeEnd m na s0 pos fin hn, fi_type m a fi ha, fi_name m a fi ha,
    ti_struct m tia _ _ _ _ _ hti, ntypeString_2]
  rfl

theorem newUnmarshalError_msg (ps : List MsgPart) :
    execProc c newUnmarshalErrorIR m [.node na, .ptr tia, .ptr a, .msg ps] = .ok (m, [errRec fin fi st (.msg ps)]) := by
  rw [execProc_eq _ _ _ _ (by rfl)]
  show procResult (exec c newUnmarshalErrorIR.body m [.node na, .ptr tia, .ptr a, .msg ps, .undef]) = _
  simp only [newUnmarshalErrorIR]
  ci_simp [ext1M_nodeType m na s0 pos fin hn, ext1M_nodeEnd m na s0 pos fin hn, fi_type m a fi ha, fi_name m a fi ha,
    ti_struct m tia _ _ _ _ _ hti, ntypeString_2]
  rfl
end newErr

/-- What `c.call 7` must do (it is `newUnmarshalError`), for value nodes. -/
def NewErrSpec (c : Ctx) : Prop :=
  ∀ (m : Mem) (na tia a : Nat) (s0 : Bytes) (pos fin : Nat) (fi : FieldInfo) (st t0 : RType) (hp : TIIR.Val) (addrs : List Nat) (n : Int),
    m.nodes[na]? = some (.value s0 pos fin) → m.heap[a]? = some (fiObj fi) →
    m.heap[tia]? = some (tiObj (.rtype st) t0 hp addrs n) →
    (∀ b, c.call 7 m [.node na, .ptr tia, .ptr a, .str b] = .ok (m, [errRec fin fi st (.str b)])) ∧
    (∀ ps, c.call 7 m [.node na, .ptr tia, .ptr a, .msg ps] = .ok (m, [errRec fin fi st (.msg ps)]))

end GoCrypt.CIR

namespace GoCrypt.CIR
open GoCrypt.Codec GoCrypt.Gen.codecIR
open GoCrypt.TIIR (RType Res kindNum fiType fiObj tiObj encVal optsVals)

/-- `s` after `strings.TrimPrefix(s, param+"=")`. -/
def trimmed (fi : FieldInfo) (s0 : Bytes) : Bytes :=
  if fi.opts.param ≠ [] ∧ (fi.opts.param ++ [Bytes.equals]).isPrefixOf s0 then s0.drop (fi.opts.param ++ [Bytes.equals]).length else s0

/-- The length rule of `fieldText`: `none` = length mismatch; otherwise the text and whether the field is inline. -/
def lenRule (fi : FieldInfo) (s0 : Bytes) : Option (Bytes × Bool) :=
  if fi.opts.hasLength then
    if fi.opts.inline then
      (if (trimmed fi s0).length < fi.opts.length then none else some (s0.take fi.opts.length, true))
    else if (trimmed fi s0).length ≠ fi.opts.length then none else some (trimmed fi s0, false)
  else some (trimmed fi s0, false)

theorem fieldText_eq (fi : FieldInfo) (kind : String) (fin : Nat) (s0 : Bytes) :
    fieldText fi kind fin s0 =
      (match lenRule fi s0 with
       | none => .error (.ute kind fin fi.name .lengthMismatch)
       | some (s, inl) =>
         match firstInvalid fi.opts.enc s with
         | some ch => .error (.ute kind fin fi.name (.invalidChar ch))
         | none => .ok (s, if inl then s0.drop fi.opts.length else [])) := by
  unfold fieldText lenRule trimmed
  simp only [bind, Except.bind, pure, Except.pure, throw, throwThe, MonadExceptOf.throw]
  cases fi.opts.hasLength <;> cases fi.opts.inline <;> simp <;> (repeat' split) <;> simp_all

def Stmt.iteThen' : Stmt → Stmt
  | .ite _ t _ => t
  | s => s

def uT1 : Stmt := unmarshalIR.body.take 3
def uT2 : Stmt := (unmarshalIR.body.drop 3).take 1
def uT3 : Stmt := (unmarshalIR.body.drop 4).take 1
def uStore : Stmt := unmarshalIR.body.drop 5

theorem unmarshal_split (c : Ctx) (m : Mem) (env : Env) :
    exec c unmarshalIR.body m env =
      (exec c uT1 m env).andThen fun m env => (exec c uT2 m env).andThen fun m env => (exec c uT3 m env).andThen (exec c uStore) := by
  rw [exec_take_drop c m env 3 unmarshalIR.body]
  congr 1; funext m env
  rw [exec_take_drop c m env 1 (unmarshalIR.body.drop 3)]
  congr 1; funext m env
  show exec c (unmarshalIR.body.drop 4) m env = _
  rw [exec_take_drop c m env 1 (unmarshalIR.body.drop 4)]
  rfl

section text
variable (c : Ctx) (m : Mem) (na tia a : Nat) (s0 : Bytes) (pos fin : Nat) (fi : FieldInfo) (st t0 : RType) (hp : TIIR.Val)
  (addrs : List Nat) (n : Int) (cv : Val)
  (hn : m.nodes[na]? = some (.value s0 pos fin)) (ha : m.heap[a]? = some (fiObj fi))

include hn ha in
theorem uT1_spec (x4 x5 x6 x7 x8 x9 x10 x11 x12 x13 x14 x15 x16 x17 x18 x19 x20 x21 x22 x23 x24 x25 x26 x27 : Val) :
    exec c uT1 m [.node na, .ptr tia, .ptr a, cv, x4, x5, x6, x7, x8, x9, x10, x11, x12, x13, x14, x15, x16, x17, x18, x19, x20, x21, x22,
        x23, x24, x25, x26, x27] =
      .norm m [.node na, .ptr tia, .ptr a, cv, .str (trimmed fi s0), x5, x6, x7, x8, x9, x10, x11, x12, x13, x14, x15, .bool false, x17, x18,
        x19, x20, x21, x22, x23, x24, x25, x26, x27] := by
  simp only [uT1, unmarshalIR, Stmt.take]
  by_cases hpm : fi.opts.param = []
  · have : trimmed fi s0 = s0 := by simp [trimmed, hpm]
    rw [this]
    cases cv <;> ci_simp [ext1M_nodeString m na s0 pos fin hn, fi_param m a fi ha, hpm]
  · have : trimmed fi s0 = if (fi.opts.param ++ [61]).isPrefixOf s0 then s0.drop (fi.opts.param ++ [61]).length else s0 := by
      simp [trimmed, hpm, Bytes.equals]
    rw [this]
    cases cv <;> ci_simp [ext1M_nodeString m na s0 pos fin hn, fi_param m a fi ha, hpm, ext2]

include hn ha in
theorem uT2_spec (hne : NewErrSpec c) (hti : m.heap[tia]? = some (tiObj (.rtype st) t0 hp addrs n))
    (x5 x6 x7 x8 x9 x10 x11 x12 x13 x14 x15 x17 x18 x19 x20 x21 x22 x23 x24 x25 x26 x27 : Val) :
    match lenRule fi s0 with
    | none => ∃ v, exec c uT2 m [.node na, .ptr tia, .ptr a, cv, .str (trimmed fi s0), x5, x6, x7, x8, x9, x10, x11, x12, x13, x14, x15,
          .bool false, x17, x18, x19, x20, x21, x22, x23, x24, x25, x26, x27] = .ret m [v] ∧
        absErrU m.heap v = some (.ute "value" fin fi.name .lengthMismatch)
    | some (s, inl) => ∃ y5, exec c uT2 m [.node na, .ptr tia, .ptr a, cv, .str (trimmed fi s0), x5, x6, x7, x8, x9, x10, x11, x12, x13, x14, x15,
          .bool false, x17, x18, x19, x20, x21, x22, x23, x24, x25, x26, x27] =
        .norm m [.node na, .ptr tia, .ptr a, cv, .str s, y5, x6, x7, x8, x9, x10, x11, x12, x13, x14, x15,
          .bool inl, x17, x18, x19, x20, x21, x22, x23, x24, x25, x26, x27] ∧ (inl = true → y5 = .node na ∧ fi.opts.length ≤ s0.length) := by
  obtain ⟨hcs, _⟩ := hne m na tia a s0 pos fin fi st t0 hp addrs n hn ha hti
  have hcall := hcs lengthMismatchLit
  have herr : absErrU m.heap (errRec fin fi st (.str lengthMismatchLit)) = some (.ute "value" fin fi.name .lengthMismatch) :=
    absErrU_errRec _ _ _ _ _ _ (by simp [msgClassU])
  simp only [uT2, unmarshalIR, Stmt.take, Stmt.drop, lenRule]
  simp only [lengthMismatchLit] at hcall
  cases hhl : fi.opts.hasLength
  · exact ⟨x5, by ci_simp [fi_hasLength m a fi ha, hhl], by simp⟩
  · cases hinl : fi.opts.inline
    · by_cases hlen : (trimmed fi s0).length = fi.opts.length
      · simp only [hlen, ne_eq, not_true_eq_false, if_false, if_true]
        exact ⟨x5, by ci_simp [fi_hasLength m a fi ha, hhl, fi_inline m a fi ha, hinl, fi_length m a fi ha, hlen], by simp⟩
      · simp only [hlen, ne_eq, not_false_eq_true, if_true]
        refine ⟨_, ?_, herr⟩
        ci_simp [fi_hasLength m a fi ha, hhl, fi_inline m a fi ha, hinl, fi_length m a fi ha, hlen, hcall]
        rfl
    · by_cases hlen : (trimmed fi s0).length < fi.opts.length
      · simp only [hlen, if_true]
        refine ⟨_, ?_, herr⟩
        ci_simp [fi_hasLength m a fi ha, hhl, fi_inline m a fi ha, hinl, fi_length m a fi ha, hlen, hcall]
        rfl
      · simp only [hlen, if_false]
        have hle : fi.opts.length ≤ s0.length := by
          have : (trimmed fi s0).length ≤ s0.length := by
            unfold trimmed; split <;> simp
          omega
        have hle' : (0 : Int) ≤ (fi.opts.length : Int) ∧ (fi.opts.length : Int) ≤ (s0.length : Int) := by omega
        refine ⟨.node na, ?_, fun _ => ⟨rfl, hle⟩⟩
        ci_simp [fi_hasLength m a fi ha, hhl, fi_inline m a fi ha, hinl, fi_length m a fi ha, hlen,
          ext1M_assertValue m na s0 pos fin hn, ext1M_nodeValue m na s0 pos fin hn, sliceToVal, hle']

include hn ha in
theorem uT3_spec (hidx : IndexAnyInvalidSpec c.indexAnyInvalid) (hne : NewErrSpec c)
    (hti : m.heap[tia]? = some (tiObj (.rtype st) t0 hp addrs n)) (s : Bytes) (inl : Bool) (y5 : Val)
    (hy5 : inl = true → y5 = .node na ∧ fi.opts.length ≤ s0.length)
    (x6 x7 x8 x9 x10 x11 x12 x13 x14 x15 x17 x18 x19 x20 x21 x22 x23 x24 x25 x26 x27 : Val) :
    match firstInvalid fi.opts.enc s with
    | some ch => ∃ m' v, exec c uT3 m [.node na, .ptr tia, .ptr a, cv, .str s, y5, x6, x7, x8, x9, x10, x11, x12, x13, x14, x15,
          .bool inl, x17, x18, x19, x20, x21, x22, x23, x24, x25, x26, x27] = .ret m' [v] ∧ m'.heap = m.heap ∧
        absErrU m.heap v = some (.ute "value" fin fi.name (.invalidChar ch))
    | none => ∃ y6, exec c uT3 m [.node na, .ptr tia, .ptr a, cv, .str s, y5, x6, x7, x8, x9, x10, x11, x12, x13, x14, x15,
          .bool inl, x17, x18, x19, x20, x21, x22, x23, x24, x25, x26, x27] =
        .norm m [.node na, .ptr tia, .ptr a, cv, .str s, y5, y6, x7, x8, x9, x10, x11, x12, x13, x14, x15,
          .bool inl, x17, x18, x19, x20, x21, x22, x23, x24, x25, x26, x27] := by
  obtain ⟨_, hcm⟩ := hne m na tia a s0 pos fin fi st t0 hp addrs n hn ha hti
  simp only [uT3, unmarshalIR, Stmt.take, Stmt.drop]
  have key : ∀ (e : EncKind) (nm : String), fi.opts.enc = e → encName e = some nm → encVal e = .global nm →
      (match firstInvalid e s with
      | some ch => ∃ m' v, exec c (.ite (.not (.isNil (.fld (.var 2) 7))) ((unmarshalIR.body.drop 4).head.iteThen') .skip ;;; .skip) m
            [.node na, .ptr tia, .ptr a, cv, .str s, y5, x6, x7, x8, x9, x10, x11, x12, x13, x14, x15,
            .bool inl, x17, x18, x19, x20, x21, x22, x23, x24, x25, x26, x27] = .ret m' [v] ∧ m'.heap = m.heap ∧
          absErrU m.heap v = some (.ute "value" fin fi.name (.invalidChar ch))
      | none => ∃ y6, exec c (.ite (.not (.isNil (.fld (.var 2) 7))) ((unmarshalIR.body.drop 4).head.iteThen') .skip ;;; .skip) m
            [.node na, .ptr tia, .ptr a, cv, .str s, y5, x6, x7, x8, x9, x10, x11, x12, x13, x14, x15,
            .bool inl, x17, x18, x19, x20, x21, x22, x23, x24, x25, x26, x27] =
          .norm m [.node na, .ptr tia, .ptr a, cv, .str s, y5, y6, x7, x8, x9, x10, x11, x12, x13, x14, x15,
            .bool inl, x17, x18, x19, x20, x21, x22, x23, x24, x25, x26, x27]) := by
    intro e nm henc hnm hev
    cases hfi : firstInvalid e s with
    | none =>
      have hneg : ¬ (0 ≤ c.indexAnyInvalid nm s) := by have := hidx.allValid e nm s hnm hfi; omega
      refine ⟨.int (c.indexAnyInvalid nm s), ?_⟩
      simp only [unmarshalIR, Stmt.drop, Stmt.head, Stmt.iteThen']
      ci_simp [fi_enc m a fi ha, henc, hev, ext2_indexAnyInvalid, hneg]
    | some ch =>
      obtain ⟨h0, hi⟩ := hidx.firstBad e nm s ch hnm hfi
      have hcall := hcm [.lit invalidCharLit, .quotedRune (ch.toNat : Int)]
      have herr : absErrU m.heap (errRec fin fi st (.msg [.lit invalidCharLit, .quotedRune (ch.toNat : Int)])) =
          some (.ute "value" fin fi.name (.invalidChar ch)) :=
        absErrU_errRec _ _ _ _ _ _ (by
          have h1 : (0 : Int) ≤ (ch.toNat : Int) := by omega
          have h2 : (ch.toNat : Int) < 256 := by have := ch.toNat_lt; omega
          simp [msgClassU, h1, h2])
      simp only [invalidCharLit] at hcall
      simp only [unmarshalIR, Stmt.drop, Stmt.head, Stmt.iteThen']
      cases inl
      · refine ⟨m, _, ?_, rfl, herr⟩
        ci_simp [fi_enc m a fi ha, henc, hev, ext2_indexAnyInvalid, h0, indexVal_str s _ ch h0 hi, hcall]
        rfl
      · obtain ⟨rfl, hle⟩ := hy5 rfl
        have hle' : (0 : Int) ≤ (fi.opts.length : Int) ∧ (fi.opts.length : Int) ≤ (s0.length : Int) := by omega
        refine ⟨{ m with nodes := m.nodes.set na (.value (s0.drop fi.opts.length) pos fin) }, _, ?_, rfl, herr⟩
        ci_simp [fi_enc m a fi ha, henc, hev, ext2_indexAnyInvalid, h0, indexVal_str s _ ch h0 hi, hcall,
          ext1M_nodeValue m na s0 pos fin hn, fi_length m a fi ha, sliceFromVal, hle', hn, errRec]
        try rfl
  cases henc : fi.opts.enc with
  | none =>
    rw [firstInvalid_none]
    exact ⟨x6, by ci_simp [fi_enc m a fi ha, henc, encVal]⟩
  | hash => simpa [Stmt.iteThen', unmarshalIR, Stmt.drop, Stmt.head] using key .hash _ henc rfl rfl
  | base64 => simpa [Stmt.iteThen', unmarshalIR, Stmt.drop, Stmt.head] using key .base64 _ henc rfl rfl
end text

end GoCrypt.CIR
