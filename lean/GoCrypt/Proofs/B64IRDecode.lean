import GoCrypt.Proofs.B64IRDecodeModel

/-!
# Buffer IR of `hash/base64le`: `Decode`

The three loops of the regenerated `(*Encoding).Decode` against the model's `decodeLoop` (phases 0, 1,
2), for every context in which the callees behave like their translations. Helper lemmas only.
-/

namespace GoCrypt.B64IR
open GoCrypt.Base64LE GoCrypt.Gen.base64leIR GoCrypt.Gen.base64le GoCrypt.Spec.Base64Bits

/-! ## The parts of the generated body -/

/-- results, `if len(src) == 0 { return 0, nil }`, `si := 0` -/
def decPrefix : Stmt := decodeIR.body.take 5
/-- the 8-symbol loop -/
def decFor1 : Stmt := (decodeIR.body.drop 5).head
/-- the 4-symbol loop -/
def decFor2 : Stmt := (decodeIR.body.drop 6).head
/-- the quantum-by-quantum loop -/
def decFor3 : Stmt := (decodeIR.body.drop 7).head
/-- `return n, err` -/
def decRet : Stmt := decodeIR.body.drop 8

theorem decFor1_eq : decFor1 = .for_ decFor1.forFuel decFor1.forCond .skip decFor1.forBody := rfl
theorem decFor2_eq : decFor2 = .for_ decFor2.forFuel decFor2.forCond .skip decFor2.forBody := rfl
theorem decFor3_eq : decFor3 = .for_ decFor3.forFuel decFor3.forCond .skip decFor3.forBody := rfl
theorem decBody_split : decodeIR.body.drop 5 = (decFor1 ;; decFor2 ;; decFor3 ;; decRet) := rfl

/-- Frame of `Decode` between iterations: `n`, `err = nil`, `si`, and the block-local slots. -/
def dcEnv (e : Encoding) (d dn s sn n si : Nat) (v6 v7 v8 v9 v10 v11 v12 v13 v14 : Val) : Env :=
  [encVal e, .slice ⟨d, 0, dn, dn⟩, .slice ⟨s, 0, sn, sn⟩, .int n, .err none, .int si, v6, v7, v8, v9, v10, v11, v12, v13, v14]

/-- What the calls made by `Decode` return. -/
structure DecCtx (c : Ctx) (e : Encoding) (H : Heap) (d dn s : Nat) (src : Buf) : Prop where
  a32 : ∀ (h : Heap) (n1 n2 n3 n4 : Nat), c.call "assemble32" h [.int n1, .int n2, .int n3, .int n4] =
    .ok (h, [.int (assemble32 n1 n2 n3 n4).1, .bool (assemble32 n1 n2 n3 n4).2])
  a64 : ∀ (h : Heap) (n1 n2 n3 n4 n5 n6 n7 n8 : Nat),
    c.call "assemble64" h [.int n1, .int n2, .int n3, .int n4, .int n5, .int n6, .int n7, .int n8] =
    .ok (h, [.int (assemble64 n1 n2 n3 n4 n5 n6 n7 n8).1, .bool (assemble64 n1 n2 n3 n4 n5 n6 n7 n8).2])
  dq : ∀ (D : Buf) (n si : Nat), D.size = dn → n ≤ dn → si ≤ src.size →
    c.call "Encoding.decodeQuantum" (H.set d D) [encVal e, .slice ⟨d, n, dn - n, dn - n⟩,
      .slice ⟨s, 0, src.size, src.size⟩, .int si] = ofQ (H.set d D) d (decodeQuantum e D n src si)

/-- What `Decode` returns for a model result. -/
def ofD (H : Heap) (d : Nat) (r : DRes) : Res (Heap × List Val) :=
  if r.panic then .panic else .ok (H.set d r.dst, [.int (r.n : Nat), errVal r.err])

/-- What one iteration of a `Decode` loop must produce, given what the model's `decodeStep` returns. -/
def DecStepRel (e : Encoding) (H : Heap) (d dn s sn : Nat) : Sum DRes (Nat × Nat × Nat × Buf) → Out → Prop
  | .inl r, o => if r.panic = true then o = .panic else o = .ret (H.set d r.dst) [.int (r.n : Nat), errVal r.err]
  | .inr (_, si', n', D'), o => ∃ v6 v7 v8 v9 v10 v11 v12 v13 v14,
      o = .norm (H.set d D') (dcEnv e d dn s sn n' si' v6 v7 v8 v9 v10 v11 v12 v13 v14)

section loops
variable (c : Ctx) (e : Encoding) (hal : e.alphabet.length = 64) (H : Heap) (d dn s : Nat) (src : Buf)
  (hdl : d < H.length) (hs : H[s]? = some src) (hne : d ≠ s) (hdz : dn < 2 ^ 62) (hsz : src.size < 2 ^ 62)
  (hc : DecCtx c e H d dn s src)

/-- the `else` branch of the 8-symbol loop: one quantum -/
def decQ1 : Stmt := (decFor1.forBody.drop 2).head.iteElse
/-- the `else` branch of the 4-symbol loop: one quantum -/
def decQ2 : Stmt := (decFor2.forBody.drop 2).head.iteElse

include hdz hc in
theorem decQ3_rel (D : Buf) (hD : D.size = dn) (n si : Nat) (hn : n ≤ dn) (hsi : si ≤ src.size)
    (v6 v7 v8 v9 v10 v11 v12 v13 v14 : Val) (ph : Nat) :
    DecStepRel e H d dn s src.size (viaQ e src si n D ph)
      (exec c decFor3.forBody (H.set d D) (dcEnv e d dn s src.size n si v6 v7 v8 v9 v10 v11 v12 v13 v14)) := by
  have hcall := hc.dq D n si hD hn hsi
  rw [viaQ_eq]
  cases hq : decodeQuantum e D n src si with
  | none =>
    rw [hq] at hcall
    simp only [ofQ, encVal] at hcall
    simp only [decFor3, Stmt.forBody, Stmt.head, Stmt.drop, decodeIR, dcEnv, encVal, DecStepRel]
    b64_simp [hcall]
  | some q =>
    have hp := dq_props e D n src si q (by omega) hsi hq
    rw [hq] at hcall
    simp only [ofQ, encVal] at hcall
    simp only [decFor3, Stmt.forBody, Stmt.head, Stmt.drop, decodeIR, dcEnv, encVal]
    cases hqe : q.err with
    | none =>
      simp only [hqe, errVal, Option.map_none] at hcall
      simp only [DecStepRel]
      b64_simp [hcall, Option.isNone_none]
      exact ⟨_, _, _, _, _, _, _, _, _, rfl⟩
    | some off =>
      simp only [hqe, errVal, Option.map_some] at hcall
      simp only [DecStepRel]
      b64_simp [hcall, Option.isNone_some]
      rfl

include hdz hc in
theorem decQ2_rel (D : Buf) (hD : D.size = dn) (n si : Nat) (hn : n ≤ dn) (hsi : si ≤ src.size)
    (v6 v7 v8 v9 v10 v11 v12 v13 v14 : Val) (ph : Nat) :
    DecStepRel e H d dn s src.size (viaQ e src si n D ph)
      (exec c decQ2 (H.set d D) (dcEnv e d dn s src.size n si v6 v7 v8 v9 v10 v11 v12 v13 v14)) := by
  have hcall := hc.dq D n si hD hn hsi
  rw [viaQ_eq]
  cases hq : decodeQuantum e D n src si with
  | none =>
    rw [hq] at hcall
    simp only [ofQ, encVal] at hcall
    simp only [decQ2, decFor2, Stmt.forBody, Stmt.iteElse, Stmt.head, Stmt.drop, decodeIR, dcEnv, encVal, DecStepRel]
    b64_simp [hcall]
  | some q =>
    have hp := dq_props e D n src si q (by omega) hsi hq
    rw [hq] at hcall
    simp only [ofQ, encVal] at hcall
    simp only [decQ2, decFor2, Stmt.forBody, Stmt.iteElse, Stmt.head, Stmt.drop, decodeIR, dcEnv, encVal]
    cases hqe : q.err with
    | none =>
      simp only [hqe, errVal, Option.map_none] at hcall
      simp only [DecStepRel]
      b64_simp [hcall, Option.isNone_none]
      exact ⟨_, _, _, _, _, _, _, _, _, rfl⟩
    | some off =>
      simp only [hqe, errVal, Option.map_some] at hcall
      simp only [DecStepRel]
      b64_simp [hcall, Option.isNone_some]
      rfl

include hdz hc in
theorem decQ1_rel (D : Buf) (hD : D.size = dn) (n si : Nat) (hn : n ≤ dn) (hsi : si ≤ src.size)
    (v6 v7 v8 v9 v10 v11 v12 v13 v14 : Val) (ph : Nat) :
    DecStepRel e H d dn s src.size (viaQ e src si n D ph)
      (exec c decQ1 (H.set d D) (dcEnv e d dn s src.size n si v6 v7 v8 v9 v10 v11 v12 v13 v14)) := by
  have hcall := hc.dq D n si hD hn hsi
  rw [viaQ_eq]
  cases hq : decodeQuantum e D n src si with
  | none =>
    rw [hq] at hcall
    simp only [ofQ, encVal] at hcall
    simp only [decQ1, decFor1, Stmt.forBody, Stmt.iteElse, Stmt.head, Stmt.drop, decodeIR, dcEnv, encVal, DecStepRel]
    b64_simp [hcall]
  | some q =>
    have hp := dq_props e D n src si q (by omega) hsi hq
    rw [hq] at hcall
    simp only [ofQ, encVal] at hcall
    simp only [decQ1, decFor1, Stmt.forBody, Stmt.iteElse, Stmt.head, Stmt.drop, decodeIR, dcEnv, encVal]
    cases hqe : q.err with
    | none =>
      simp only [hqe, errVal, Option.map_none] at hcall
      simp only [DecStepRel]
      b64_simp [hcall, Option.isNone_none]
      exact ⟨_, _, _, _, _, _, _, _, _, rfl⟩
    | some off =>
      simp only [hqe, errVal, Option.map_some] at hcall
      simp only [DecStepRel]
      b64_simp [hcall, Option.isNone_some]
      rfl

/-- the `then` branch of the 4-symbol loop: three bytes at once -/
def decFast2 : Stmt := (decFor2.forBody.drop 2).head.iteThen
/-- the `then` branch of the 8-symbol loop: six bytes at once -/
def decFast1 : Stmt := (decFor1.forBody.drop 2).head.iteThen

theorem decBody2_split : decFor2.forBody.drop 2 = .ite (.var 12) decFast2 decQ2 := rfl
theorem decBody1_split : decFor1.forBody.drop 2 = .ite (.var 8) decFast1 decQ1 := rfl

theorem beBytes_eq (k v : Nat) : beBytes k v = be v k := rfl

include hal hdl hs hne hdz hsz hc in
/-- One iteration of the 4-symbol loop. -/
theorem decBody2_rel (D : Buf) (hD : D.size = dn) (n si : Nat) (hsi : src.size - si ≥ 4) (hn : dn - n ≥ 4)
    (v6 v7 v8 v9 v10 v11 v12 v13 v14 : Val) (phase : Nat) (hph : phase ≤ 1)
    (h8 : ¬ (phase = 0 ∧ src.size - si ≥ 8 ∧ D.size - n ≥ 8)) :
    DecStepRel e H d dn s src.size (decodeStep e src phase si n D)
      (exec c decFor2.forBody (H.set d D) (dcEnv e d dn s src.size n si v6 v7 v8 v9 v10 v11 v12 v13 v14)) := by
  rw [decodeStep_4 e src phase si n D hph h8 ⟨hsi, by omega⟩]
  rw [arr_getD_eq (show si < src.size by omega), arr_getD_eq (show si + 1 < src.size by omega),
    arr_getD_eq (show si + 2 < src.size by omega), arr_getD_eq (show si + 3 < src.size by omega)]
  have m0 := decodeMap_index e hal src[si]
  have m1 := decodeMap_index e hal src[si + 1]
  have m2 := decodeMap_index e hal src[si + 2]
  have m3 := decodeMap_index e hal src[si + 3]
  have ha := hc.a32
  have hss : (H.set d D)[s]? = some src := by rw [List.getElem?_set_ne hne]; exact hs
  have hdd : (H.set d D)[d]? = some D := List.getElem?_set_self hdl
  have hpre : exec c (decFor2.forBody.take 2) (H.set d D) (dcEnv e d dn s src.size n si v6 v7 v8 v9 v10 v11 v12 v13 v14) =
      .norm (H.set d D) (dcEnv e d dn s src.size n si v6 v7 v8 v9 (.slice ⟨s, si, 4, src.size - si⟩)
        (.int (assemble32 (e.dec src[si]) (e.dec src[si + 1]) (e.dec src[si + 2]) (e.dec src[si + 3])).1)
        (.bool (assemble32 (e.dec src[si]) (e.dec src[si + 1]) (e.dec src[si + 2]) (e.dec src[si + 3])).2) v13 v14) := by
    simp only [decFor2, Stmt.forBody, Stmt.take, Stmt.head, Stmt.drop, decodeIR, dcEnv, encVal]
    b64_simp [hss, m0, m1, m2, m3, ha, Nat.add_sub_cancel_left]
  rw [exec_take_drop c _ _ 2, hpre, andThen_norm, decBody2_split, exec_ite]
  cases hr : (assemble32 (e.dec src[si]) (e.dec src[si + 1]) (e.dec src[si + 2]) (e.dec src[si + 3])).2
  · -- a digit is missing: decode one quantum the slow way
    have : (eval (H.set d D) (dcEnv e d dn s src.size n si v6 v7 v8 v9 (.slice ⟨s, si, 4, src.size - si⟩)
        (.int (assemble32 (e.dec src[si]) (e.dec src[si + 1]) (e.dec src[si + 2]) (e.dec src[si + 3])).1)
        (.bool false) v13 v14) (.var 12) >>= asBool) = .ok false := by
      simp only [dcEnv]; b64_simp []
    rw [this, bindR_ok]
    simp only [Bool.false_eq_true, if_false]
    exact decQ2_rel c e H d dn s src hdz hc D hD n si (by omega) (by omega) _ _ _ _ _ _ _ _ _ 1
  · have : (eval (H.set d D) (dcEnv e d dn s src.size n si v6 v7 v8 v9 (.slice ⟨s, si, 4, src.size - si⟩)
        (.int (assemble32 (e.dec src[si]) (e.dec src[si + 1]) (e.dec src[si + 2]) (e.dec src[si + 3])).1)
        (.bool true) v13 v14) (.var 12) >>= asBool) = .ok true := by
      simp only [dcEnv]; b64_simp []
    rw [this, bindR_ok]
    simp only [if_true, DecStepRel]
    simp only [decFast2, decFor2, Stmt.forBody, Stmt.iteThen, Stmt.head, Stmt.drop, decodeIR, dcEnv, encVal]
    b64_simp [hdd, hD, putBE, beBytes_eq, writeList_eq_writeAt]
    exact ⟨_, _, _, _, _, _, _, _, _, rfl⟩

set_option maxHeartbeats 1000000 in
include hal hdl hs hne hdz hsz hc in
/-- One iteration of the 8-symbol loop. -/
theorem decBody1_rel (D : Buf) (hD : D.size = dn) (n si : Nat) (hsi : src.size - si ≥ 8) (hn : dn - n ≥ 8)
    (v6 v7 v8 v9 v10 v11 v12 v13 v14 : Val) :
    DecStepRel e H d dn s src.size (decodeStep e src 0 si n D)
      (exec c decFor1.forBody (H.set d D) (dcEnv e d dn s src.size n si v6 v7 v8 v9 v10 v11 v12 v13 v14)) := by
  rw [decodeStep_8 e src si n D ⟨hsi, by omega⟩]
  rw [arr_getD_eq (show si < src.size by omega), arr_getD_eq (show si + 1 < src.size by omega),
    arr_getD_eq (show si + 2 < src.size by omega), arr_getD_eq (show si + 3 < src.size by omega),
    arr_getD_eq (show si + 4 < src.size by omega), arr_getD_eq (show si + 5 < src.size by omega),
    arr_getD_eq (show si + 6 < src.size by omega), arr_getD_eq (show si + 7 < src.size by omega)]
  have m0 := decodeMap_index e hal src[si]
  have m1 := decodeMap_index e hal src[si + 1]
  have m2 := decodeMap_index e hal src[si + 2]
  have m3 := decodeMap_index e hal src[si + 3]
  have m4 := decodeMap_index e hal src[si + 4]
  have m5 := decodeMap_index e hal src[si + 5]
  have m6 := decodeMap_index e hal src[si + 6]
  have m7 := decodeMap_index e hal src[si + 7]
  have ha := hc.a64
  have hss : (H.set d D)[s]? = some src := by rw [List.getElem?_set_ne hne]; exact hs
  have hdd : (H.set d D)[d]? = some D := List.getElem?_set_self hdl
  have hpre : exec c (decFor1.forBody.take 2) (H.set d D) (dcEnv e d dn s src.size n si v6 v7 v8 v9 v10 v11 v12 v13 v14) =
      .norm (H.set d D) (dcEnv e d dn s src.size n si (.slice ⟨s, si, 8, src.size - si⟩)
        (.int (assemble64 (e.dec src[si]) (e.dec src[si + 1]) (e.dec src[si + 2]) (e.dec src[si + 3]) (e.dec src[si + 4]) (e.dec src[si + 5]) (e.dec src[si + 6]) (e.dec src[si + 7])).1)
        (.bool (assemble64 (e.dec src[si]) (e.dec src[si + 1]) (e.dec src[si + 2]) (e.dec src[si + 3]) (e.dec src[si + 4]) (e.dec src[si + 5]) (e.dec src[si + 6]) (e.dec src[si + 7])).2) v9 v10 v11 v12 v13 v14) := by
    simp only [decFor1, Stmt.forBody, Stmt.take, Stmt.head, Stmt.drop, decodeIR, dcEnv, encVal]
    b64_simp [hss, m0, m1, m2, m3, m4, m5, m6, m7, ha, Nat.add_sub_cancel_left]
  rw [exec_take_drop c _ _ 2, hpre, andThen_norm, decBody1_split, exec_ite]
  cases hr : (assemble64 (e.dec src[si]) (e.dec src[si + 1]) (e.dec src[si + 2]) (e.dec src[si + 3]) (e.dec src[si + 4]) (e.dec src[si + 5]) (e.dec src[si + 6]) (e.dec src[si + 7])).2
  · have : (eval (H.set d D) (dcEnv e d dn s src.size n si (.slice ⟨s, si, 8, src.size - si⟩)
        (.int (assemble64 (e.dec src[si]) (e.dec src[si + 1]) (e.dec src[si + 2]) (e.dec src[si + 3]) (e.dec src[si + 4]) (e.dec src[si + 5]) (e.dec src[si + 6]) (e.dec src[si + 7])).1)
        (.bool false) v9 v10 v11 v12 v13 v14) (.var 8) >>= asBool) = .ok false := by
      simp only [dcEnv]; b64_simp []
    rw [this, bindR_ok]
    simp only [Bool.false_eq_true, if_false]
    exact decQ1_rel c e H d dn s src hdz hc D hD n si (by omega) (by omega) (.slice ⟨s, si, 8, src.size - si⟩)
      (.int (assemble64 (e.dec src[si]) (e.dec src[si + 1]) (e.dec src[si + 2]) (e.dec src[si + 3]) (e.dec src[si + 4]) (e.dec src[si + 5]) (e.dec src[si + 6]) (e.dec src[si + 7])).1) (.bool false) v9 v10 v11 v12 v13 v14 0
  · have : (eval (H.set d D) (dcEnv e d dn s src.size n si (.slice ⟨s, si, 8, src.size - si⟩)
        (.int (assemble64 (e.dec src[si]) (e.dec src[si + 1]) (e.dec src[si + 2]) (e.dec src[si + 3]) (e.dec src[si + 4]) (e.dec src[si + 5]) (e.dec src[si + 6]) (e.dec src[si + 7])).1)
        (.bool true) v9 v10 v11 v12 v13 v14) (.var 8) >>= asBool) = .ok true := by
      simp only [dcEnv]; b64_simp []
    rw [this, bindR_ok]
    simp only [if_true, DecStepRel]
    simp only [decFast1, decFor1, Stmt.forBody, Stmt.iteThen, Stmt.head, Stmt.drop, decodeIR, dcEnv, encVal]
    b64_simp [hdd, hD, putBE, beBytes_eq, writeList_eq_writeAt]
    exact ⟨_, _, _, _, _, _, _, _, _, rfl⟩

end loops

end GoCrypt.B64IR
