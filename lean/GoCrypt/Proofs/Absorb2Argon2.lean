import GoCrypt.Proofs.Absorb2Defs
import GoCrypt.Proofs.Argon2Eq

/-!
# Absorption for Argon2 (helper lemmas for `Props/C02b.lean`)

`Key` = `argon2Core ∘ BLAKE2b-512 ∘ h0Preimage`; the pre-image layout is injective in the password
(its length word is 32 bits wide, hence the `< 2^32` hypotheses).
-/

namespace GoCrypt.Absorb2
open GoCrypt GoCrypt.Kdf GoCrypt.Kdf.Argon2 GoCrypt.Spec.Argon2Rfc GoCrypt.Argon2Eq GoCrypt.CryptSpec

/-- `Key` factors through the pre-hash. -/
theorem argon2_key_eq_core (y v : Nat) (P S : Bytes) (t m p T : Nat) (hp : p ≤ 255) (hm : m < 2 ^ 32) :
    key y v P S t m p T = argon2Core (blake2b512 (h0Preimage p T m t v y P S)) t (roundedMemory m p) p T y v := by
  rw [key_unfold y v P S t m p T hp hm, initHash_eq]
  rfl

/-- For fixed parameters and salt the pre-image determines the password (only the two password
lengths need to fit 32 bits). -/
theorem h0Preimage_password_inj (p T m t v y : Nat) (P P' S : Bytes) (hP : P.length < 2 ^ 32) (hP' : P'.length < 2 ^ 32)
    (h : h0Preimage p T m t v y P S = h0Preimage p T m t v y P' S) : P = P' := by
  simp only [h0Preimage, List.append_assoc, List.append_cancel_left_eq] at h
  obtain ⟨e, h⟩ := LE32_append_inj hP hP' h
  exact (List.append_inj h e).1

theorem blake2b512_length (x : Bytes) : (blake2b512 x).length = 64 := blake2b_length 64 x (Nat.le_refl _)

/-- Located form. -/
theorem argon2_absorbs' (y v : Nat) (P P' S : Bytes) (t m p T : Nat) (hp : p ≤ 255) (hm : m < 2 ^ 32)
    (hP : P.length < 2 ^ 32) (hP' : P'.length < 2 ^ 32)
    (h : key y v P S t m p T = key y v P' S t m p T) :
    P = P' ∨
    (h0Preimage p T m t v y P S ≠ h0Preimage p T m t v y P' S ∧
      blake2b512 (h0Preimage p T m t v y P S) = blake2b512 (h0Preimage p T m t v y P' S)) ∨
    (blake2b512 (h0Preimage p T m t v y P S) ≠ blake2b512 (h0Preimage p T m t v y P' S) ∧
      argon2Core (blake2b512 (h0Preimage p T m t v y P S)) t (roundedMemory m p) p T y v =
        argon2Core (blake2b512 (h0Preimage p T m t v y P' S)) t (roundedMemory m p) p T y v) := by
  rw [argon2_key_eq_core y v P S t m p T hp hm, argon2_key_eq_core y v P' S t m p T hp hm] at h
  by_cases hpre : h0Preimage p T m t v y P S = h0Preimage p T m t v y P' S
  · exact Or.inl (h0Preimage_password_inj p T m t v y P P' S hP hP' hpre)
  · by_cases hh : blake2b512 (h0Preimage p T m t v y P S) = blake2b512 (h0Preimage p T m t v y P' S)
    · exact Or.inr (Or.inl ⟨hpre, hh⟩)
    · exact Or.inr (Or.inr ⟨hh, h⟩)

theorem argon2_absorbs'' (y v : Nat) (P P' S : Bytes) (t m p T : Nat) (hp : p ≤ 255) (hm : m < 2 ^ 32)
    (hP : P.length < 2 ^ 32) (hP' : P'.length < 2 ^ 32)
    (h : key y v P S t m p T = key y v P' S t m p T) :
    P = P' ∨ Collision blake2b512 ∨ Argon2CoreCollision t (roundedMemory m p) p T y v := by
  rcases argon2_absorbs' y v P P' S t m p T hp hm hP hP' h with e | ⟨h1, h2⟩ | ⟨h1, h2⟩
  · exact Or.inl e
  · exact Or.inr (Or.inl ⟨_, _, h1, h2⟩)
  · exact Or.inr (Or.inr ⟨_, _, blake2b512_length _, blake2b512_length _, h1, h2⟩)

end GoCrypt.Absorb2
