import GoCrypt.Proofs.EndToEnd

/-!
# Proofs of the C01 family of `Props/EndToEnd`: a hash `NewHash` returns verifies with its password

Each proof: invert `NewHash` (`newHash_<S>_inv`: `Key` returned `k` on `<S>Args r`, `Marshal` wrote `h`),
read the bounds `Key` checked out of its success, apply the codec round trip of the layout
(`Shapes.roundtrip_<S>`), observe that `checkArgs` rebuilds the very arguments (`checkArgs_<S>`), conclude
with `C02.check_ok_iff` (`check_of_fields`). `key S _` is never unfolded below its guard clauses.
-/

namespace GoCrypt.EndToEnd.Proofs
open GoCrypt GoCrypt.Scheme GoCrypt.Codec GoCrypt.Codec.Shapes

theorem newHash_then_check_md5 (r : NewHashReq) (h : Bytes) (used rand : Nat)
    (hn : newHash md5 r = .ok h used) (hne : h ≠ []) : check md5 h r.password rand = .nil := by
  obtain ⟨k, hk, hm, -⟩ := newHash_md5_inv r h used hn hne
  obtain ⟨out, hu, hf⟩ := Shapes.roundtrip_md5 _ _ _ _ rfl hm
  exact check_of_fields md5 md5TI h r.password rand out _ _ k tiOf_md5 hu hf (checkArgs_md5 ..) hk (sum_md5 ..)

theorem newHash_then_check_sha256 (r : NewHashReq) (h : Bytes) (used rand : Nat)
    (hn : newHash sha256 r = .ok h used) : check sha256 h r.password rand = .nil := by
  obtain ⟨k, hk, hm, -⟩ := newHash_sha256_inv r h used hn
  obtain ⟨hlo, hhi⟩ := key_sha256_rounds _ k hk
  have hr0 : r.rounds ≠ 0 := by
    have : Gen.sha256.MinRounds ≤ r.rounds := hlo
    unfold Gen.sha256.MinRounds at this; omega
  have hr32 : r.rounds < 2 ^ 32 := by
    have : r.rounds ≤ Gen.sha256.MaxRounds := hhi
    unfold Gen.sha256.MaxRounds at this; omega
  obtain ⟨-, -, hlen, -⟩ := marshal_sha256_inv _ _ _ _ _ hr0 hm
  obtain ⟨out, hu, hf⟩ := Shapes.roundtrip_sha256 _ _ _ _ _ rfl hr32 hlen hm
  exact check_of_fields sha256 sha256TI h r.password rand out _ _ k tiOf_sha256 hu hf
    (checkArgs_sha256 _ _ _ _ _ _ hr0) hk (sum_sha256 ..)

theorem newHash_then_check_sha512 (r : NewHashReq) (h : Bytes) (used rand : Nat)
    (hn : newHash sha512 r = .ok h used) : check sha512 h r.password rand = .nil := by
  obtain ⟨k, hk, hm, -⟩ := newHash_sha512_inv r h used hn
  obtain ⟨hlo, hhi⟩ := key_sha512_rounds _ k hk
  have hr0 : r.rounds ≠ 0 := by
    have : Gen.sha512.MinRounds ≤ r.rounds := hlo
    unfold Gen.sha512.MinRounds at this; omega
  have hr32 : r.rounds < 2 ^ 32 := by
    have : r.rounds ≤ Gen.sha512.MaxRounds := hhi
    unfold Gen.sha512.MaxRounds at this; omega
  obtain ⟨-, -, hlen, -⟩ := marshal_sha512_inv _ _ _ _ _ hr0 hm
  obtain ⟨out, hu, hf⟩ := Shapes.roundtrip_sha512 _ _ _ _ _ rfl hr32 hlen hm
  exact check_of_fields sha512 sha512TI h r.password rand out _ _ k tiOf_sha512 hu hf
    (checkArgs_sha512 _ _ _ _ _ _ hr0) hk (sum_sha512 ..)

theorem newHash_then_check_sha1 (r : NewHashReq) (h : Bytes) (used rand : Nat)
    (hr : r.rounds < 2 ^ 32) (hn : newHash sha1 r = .ok h used) : check sha1 h r.password rand = .nil := by
  obtain ⟨k, hk, hm, -⟩ := newHash_sha1_inv r h used hn
  obtain ⟨-, -, hlen, -⟩ := marshal_sha1_inv _ _ _ _ _ hm
  obtain ⟨out, hu, hf⟩ := Shapes.roundtrip_sha1 _ _ _ _ _ rfl (sha1Rounds_lt r hr) hlen hm
  refine check_of_fields sha1 sha1TI h r.password rand out _ _ k tiOf_sha1 hu hf (checkArgs_sha1 ..) ?_ (sum_sha1 ..)
  have := key_sha1_rand (sha1Args r) rand (sha1Rounds_ne_random r)
  rw [hk] at this
  exact this

theorem newHash_then_check_nthash (r : NewHashReq) (h : Bytes) (used rand : Nat)
    (hn : newHash nthash r = .ok h used) : check nthash h r.password rand = .nil := by
  obtain ⟨k, hk, hm, -⟩ := newHash_nthash_inv r h used hn
  obtain ⟨-, hlen, -⟩ := marshal_nthash_inv _ _ _ hm
  obtain ⟨out, hu, hf⟩ := Shapes.roundtrip_nthash _ _ _ _ rfl rfl hlen hm
  exact check_of_fields nthash nthashTI h r.password rand out _ _ k tiOf_nthash hu hf (checkArgs_nthash ..) hk
    (sum_nthash ..)

theorem newHash_then_check_des (r : NewHashReq) (h : Bytes) (used rand : Nat)
    (hn : newHash des r = .ok h used) (hne : h ≠ []) : check des h r.password rand = .nil := by
  obtain ⟨k, hk, hm, -⟩ := newHash_des_inv r h used hn hne
  obtain ⟨-, -, -, hlen, -⟩ := marshal_des_inv _ _ _ _ hm
  obtain ⟨out, hu, hf⟩ := Shapes.roundtrip_des _ _ _ _ rfl hlen hm
  exact check_of_fields des desTI h r.password rand out _ _ k tiOf_des hu hf (checkArgs_des ..) hk (sum_des ..)

theorem newHash_then_check_desext (r : NewHashReq) (h : Bytes) (used rand : Nat)
    (hn : newHash desext r = .ok h used) : check desext h r.password rand = .nil := by
  obtain ⟨k, hk, hm, -⟩ := newHash_desext_inv r h used hn
  obtain ⟨-, hhi⟩ := key_desext_rounds _ k hk
  have hr24 : r.rounds < 2 ^ 24 := by
    have : r.rounds ≤ Gen.desext.MaxRounds := hhi
    unfold Gen.desext.MaxRounds at this; omega
  obtain ⟨-, -, -, hlen, -⟩ := marshal_desext_inv _ _ _ _ _ hm
  obtain ⟨out, hu, hf⟩ := Shapes.roundtrip_desext _ _ _ _ _ rfl hr24 hlen hm
  exact check_of_fields desext desextTI h r.password rand out _ _ k tiOf_desext hu hf (checkArgs_desext ..) hk
    (sum_desext ..)

theorem newHash_then_check_bcrypt (r : NewHashReq) (h : Bytes) (used rand : Nat)
    (hn : newHash bcrypt r = .ok h used) : check bcrypt h r.password rand = .nil := by
  obtain ⟨k, hk, hm, -⟩ := newHash_bcrypt_inv r h used hn
  obtain ⟨-, hhi⟩ := key_bcrypt_cost _ k rfl hk
  have hc : r.rounds ≤ 31 := hhi
  obtain ⟨-, -, -, hlen, -⟩ := marshal_bcrypt_inv _ _ _ _ _ hm
  obtain ⟨out, hu, hf⟩ := Shapes.roundtrip_bcrypt _ _ _ _ _ (Or.inr (Or.inr rfl)) (by omega) hlen hm
  exact check_of_fields bcrypt bcryptTI h r.password rand out _ _ k tiOf_bcrypt hu hf
    (checkArgs_bcrypt _ _ _ _ _ _ (by omega)) hk (sum_bcrypt ..)

theorem newHash_then_check_sunmd5 (r : NewHashReq) (h : Bytes) (used rand : Nat)
    (hent : r.rounds = 0 ∨ r.entropy ≠ []) (hn : newHash sunmd5 r = .ok h used) :
    check sunmd5 h r.password rand = .nil := by
  obtain ⟨k, hk, hm, -⟩ := newHash_sunmd5_inv r h used hn
  have hhi : r.rounds ≤ Gen.sunmd5.MaxRounds := key_sunmd5_bounds _ k rfl hk
  have hr32 : r.rounds < 2 ^ 32 := by unfold Gen.sunmd5.MaxRounds at hhi; omega
  obtain ⟨hlen, -⟩ := marshal_sunmd5_sum _ _ _ _ _ _ hm
  have hp : sunmd5Prefix r = [36, 109, 100, 53, 44] ∨ sunmd5Prefix r = [36, 109, 100, 53, 36] := by
    unfold sunmd5Prefix; by_cases h0 : r.rounds = 0
    · rw [if_pos h0]; exact Or.inr rfl
    · rw [if_neg h0]; exact Or.inl rfl
  have hsep : sunmd5Sep r = .nilPtr ∨ sunmd5Sep r = .str [] := by
    unfold sunmd5Sep; by_cases h0 : r.rounds = 0
    · rw [if_pos h0]; exact Or.inl rfl
    · rw [if_neg h0]; exact Or.inr rfl
  have hgreedy : sunmd5Salt r ≠ [] ∨ sunmd5Sep r = .nilPtr := by
    rcases hent with h0 | hne
    · right; unfold sunmd5Sep; rw [if_pos h0]
    · left
      intro he
      have := congrArg List.length he
      rw [sunmd5Salt, C15.randSymbols_length] at this
      cases hre : r.entropy with
      | nil => exact hne hre
      | cons c cs => rw [hre] at this; simp [Gen.sunmd5.DefaultSaltLength] at this
  obtain ⟨out, hu, hf⟩ := Shapes.roundtrip_sunmd5 _ _ _ _ _ _ hp hr32 hlen hsep hgreedy hm
  refine check_of_fields sunmd5 sunmd5TI h r.password rand out _ _ k tiOf_sunmd5 hu hf (checkArgs_sunmd5 ..) ?_
    (sum_sunmd5 ..)
  rw [sunmd5Sep_flag]; exact hk

theorem newHash_then_check_argon2 (r : NewHashReq) (h : Bytes) (used rand : Nat)
    (hmem : r.memory < 2 ^ 32) (htime : r.rounds < 2 ^ 32)
    (hdigest : ∀ k, key argon2 (argon2Args r) = .ok k → argon2.encodeSum k ≠ [])
    (hn : newHash argon2 r = .ok h used) : check argon2 h r.password rand = .nil := by
  obtain ⟨k, hk, hm, -⟩ := newHash_argon2_inv r h used hn
  obtain ⟨out, hu, hf⟩ := Shapes.roundtrip_argon2 _ _ _ _ _ _ _ _ (Or.inr (Or.inr rfl)) (by decide) hmem htime
    (by decide) (hdigest k hk) hm
  exact check_of_fields argon2 argon2TI h r.password rand out _ _ k tiOf_argon2 hu hf
    (checkArgs_argon2 _ _ _ _ _ _ _ _ _ (by decide)) hk (sum_argon2 ..)

end GoCrypt.EndToEnd.Proofs
