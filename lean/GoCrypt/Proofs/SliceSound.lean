import GoCrypt.Spec.SliceSem

/-!
# The points-to analysis of `Base/SliceIR.lean` is sound (and exact) for `Spec/SliceSem.lean`

* A `foldl` whose step only ever appends and whose result equals its input added nothing at any
  step (`foldl_append_fix`).  Hence a fixpoint of `pass` is closed under every transfer rule
  (`Closed`, `closed_of_fix`, `closed_of_stable`).
* `EnvOk r s`: every bound variable's origin is in the analysis' set.  Preserved by every step of a
  program whose rules `r` is closed under (`step_envOk`).
* `SerOk lo s`: every fresh array around has a serial in `[lo, s.next)`.
* `Realizable p r`: every fact of `r` happens in some run; preserved by `pass`, so `solve p` is
  exactly the set of (variable, origin) pairs that occur in some run (`solve_exact`).
-/

namespace GoCrypt.SliceSem
open GoCrypt.SliceIR

/-! ## Lists -/

theorem foldl_append_ext {α β : Type} (f : List α → β → List α)
    (hf : ∀ acc b, ∃ l, f acc b = acc ++ l) :
    ∀ (bs : List β) (r : List α), ∃ l, bs.foldl f r = r ++ l := by
  intro bs
  induction bs with
  | nil => intro r; exact ⟨[], by simp⟩
  | cons b bs ih =>
    intro r
    obtain ⟨l₁, h₁⟩ := hf r b
    obtain ⟨l₂, h₂⟩ := ih (f r b)
    exact ⟨l₁ ++ l₂, by rw [List.foldl_cons, h₂, h₁, List.append_assoc]⟩

/-- If every step only appends and the fold returns its input, every step returned its input. -/
theorem foldl_append_fix {α β : Type} (f : List α → β → List α)
    (hf : ∀ acc b, ∃ l, f acc b = acc ++ l) :
    ∀ (bs : List β) (r : List α), bs.foldl f r = r → ∀ b ∈ bs, f r b = r := by
  intro bs
  induction bs with
  | nil => intro r _ b hb; cases hb
  | cons b bs ih =>
    intro r h
    obtain ⟨l₁, h₁⟩ := hf r b
    obtain ⟨l₂, h₂⟩ := foldl_append_ext f hf bs (f r b)
    have hb : f r b = r := by
      rw [List.foldl_cons, h₂, h₁, List.append_assoc] at h
      have : l₁ ++ l₂ = [] := List.append_right_eq_self.mp h
      rw [h₁, (List.append_eq_nil_iff.mp this).1, List.append_nil]
    rw [List.foldl_cons, hb] at h
    intro c hc
    rcases List.mem_cons.mp hc with rfl | hc
    · exact hb
    · exact ih r h c hc

/-! ## The analysis -/

theorem mem_of {r : Roots} {x : Nat} {k : Root} : k ∈ r.of x ↔ (x, k) ∈ r := by
  unfold Roots.of
  simp only [List.mem_map, List.mem_filter, beq_iff_eq]
  constructor
  · rintro ⟨⟨y, k'⟩, ⟨hm, rfl⟩, rfl⟩; exact hm
  · intro h; exact ⟨(x, k), ⟨h, rfl⟩, rfl⟩

/-- The step of `addAll`. -/
def addOne (x : Nat) (acc : Roots) (k : Root) : Roots :=
  if acc.contains (x, k) then acc else acc ++ [(x, k)]

theorem addAll_eq (r : Roots) (x : Nat) (ks : List Root) : addAll r x ks = ks.foldl (addOne x) r :=
  rfl

theorem addOne_ext (x : Nat) (acc : Roots) (k : Root) : ∃ l, addOne x acc k = acc ++ l := by
  unfold addOne; split
  · exact ⟨[], by simp⟩
  · exact ⟨_, rfl⟩

theorem addAll_ext (r : Roots) (x : Nat) (ks : List Root) : ∃ l, addAll r x ks = r ++ l :=
  foldl_append_ext (addOne x) (addOne_ext x) ks r

theorem addAll_fix {r : Roots} {x : Nat} {ks : List Root} (h : addAll r x ks = r) :
    ∀ k ∈ ks, k ∈ r.of x := by
  intro k hk
  have := foldl_append_fix (addOne x) (addOne_ext x) ks r h k hk
  unfold addOne at this
  split at this
  · next hc => exact mem_of.mpr (List.contains_iff_mem.mp hc)
  · have := List.append_right_eq_self.mp this
    cases this

/-- The step of `pass`. -/
def xfer (acc : Roots) (s : SStmt) : Roots :=
  match s with
  | .fromParam x i => addAll acc x [.param i]
  | .alloc x => addAll acc x [.fresh]
  | .global x g => addAll acc x [.global g]
  | .alias x y => addAll acc x (acc.of y)
  | .appendTo x y => addAll acc x (.fresh :: acc.of y)
  | _ => acc

theorem pass_eq (p : Prog) (r : Roots) : pass p r = p.foldl xfer r := rfl

theorem xfer_ext (acc : Roots) (s : SStmt) : ∃ l, xfer acc s = acc ++ l := by
  cases s <;> first | exact addAll_ext _ _ _ | exact ⟨[], by simp [xfer]⟩

/-- `r` is closed under the transfer rule of every statement of `p`. -/
structure Closed (p : Prog) (r : Roots) : Prop where
  fromParam : ∀ {x i}, SStmt.fromParam x i ∈ p → Root.param i ∈ r.of x
  alloc : ∀ {x}, SStmt.alloc x ∈ p → Root.fresh ∈ r.of x
  global : ∀ {x g}, SStmt.global x g ∈ p → Root.global g ∈ r.of x
  alias : ∀ {x y}, SStmt.alias x y ∈ p → ∀ k ∈ r.of y, k ∈ r.of x
  appendNew : ∀ {x y}, SStmt.appendTo x y ∈ p → Root.fresh ∈ r.of x
  appendOld : ∀ {x y}, SStmt.appendTo x y ∈ p → ∀ k ∈ r.of y, k ∈ r.of x

theorem closed_of_fix {p : Prog} {r : Roots} (h : pass p r = r) : Closed p r := by
  have key : ∀ s ∈ p, xfer r s = r := foldl_append_fix xfer xfer_ext p r (by rw [← pass_eq]; exact h)
  refine ⟨?_, ?_, ?_, ?_, ?_, ?_⟩
  · intro x i hm; exact addAll_fix (key _ hm) _ (List.mem_singleton.mpr rfl)
  · intro x hm; exact addAll_fix (key _ hm) _ (List.mem_singleton.mpr rfl)
  · intro x g hm; exact addAll_fix (key _ hm) _ (List.mem_singleton.mpr rfl)
  · intro x y hm k hk; exact addAll_fix (key _ hm) k hk
  · intro x y hm; exact addAll_fix (key _ hm) _ (List.mem_cons_self ..)
  · intro x y hm k hk; exact addAll_fix (key _ hm) k (List.mem_cons_of_mem _ hk)

theorem closed_of_stable {p : Prog} (h : stable p = true) : Closed p (solve p) :=
  closed_of_fix (by unfold stable at h; exact eq_of_beq h)

theorem onlyFresh_iff {ks : List Root} : onlyFresh ks = true ↔ ∀ k ∈ ks, k = .fresh := by
  simp [onlyFresh]

/-! What the two booleans say, as propositions. -/

theorem argSafe_iff {p : Prog} : argSafe p = true ↔
    stable p = true ∧ NoUnknown p ∧
    (∀ x, SStmt.write x ∈ p → ∀ k ∈ (solve p).of x, k = .fresh) ∧
    (∀ x y, SStmt.appendTo x y ∈ p → ∀ k ∈ (solve p).of y, k = .fresh) := by
  simp only [argSafe, Bool.and_eq_true, List.all_eq_true]
  constructor
  · rintro ⟨hs, ha⟩
    refine ⟨hs, ?_, ?_, ?_⟩
    · intro d hm; simpa using ha _ hm
    · intro x hm; exact onlyFresh_iff.mp (ha _ hm)
    · intro x y hm; exact onlyFresh_iff.mp (ha _ hm)
  · rintro ⟨hs, hu, hw, hap⟩
    refine ⟨hs, ?_⟩
    intro s hm
    cases s with
    | write x => exact onlyFresh_iff.mpr (hw x hm)
    | appendTo x y => exact onlyFresh_iff.mpr (hap x y hm)
    | unknown d => exact absurd hm (hu d)
    | _ => rfl

theorem resultFresh_iff {p : Prog} : resultFresh p = true ↔
    stable p = true ∧ NoUnknown p ∧
    (∀ x, SStmt.ret x ∈ p → (∀ k ∈ (solve p).of x, k = .fresh) ∧ (solve p).of x ≠ []) := by
  simp only [resultFresh, Bool.and_eq_true, List.all_eq_true]
  constructor
  · rintro ⟨hs, ha⟩
    refine ⟨hs, ?_, ?_⟩
    · intro d hm; simpa using ha _ hm
    · intro x hm
      have := ha _ hm
      simp only [Bool.and_eq_true, Bool.not_eq_true', List.isEmpty_eq_false_iff] at this
      exact ⟨onlyFresh_iff.mp this.1, this.2⟩
  · rintro ⟨hs, hu, hr⟩
    refine ⟨hs, ?_⟩
    intro s hm
    cases s with
    | ret x =>
      simp only [Bool.and_eq_true, Bool.not_eq_true', List.isEmpty_eq_false_iff]
      exact ⟨onlyFresh_iff.mpr (hr x hm).1, (hr x hm).2⟩
    | unknown d => exact absurd hm (hu d)
    | _ => rfl

/-! ## Runs -/

theorem Run.trans {p : Prog} {s t u : State} (h₁ : Run p s t) (h₂ : Run p t u) : Run p s u := by
  induction h₂ with
  | refl => exact h₁
  | step _ mem h ih => exact ih.step mem h

/-- Invariants of steps are invariants of runs. -/
theorem Run.invariant {p : Prog} {I : State → Prop}
    (hstep : ∀ st ∈ p, ∀ t u, I t → Step st t u → I u) {s t : State}
    (h : Run p s t) (hs : I s) : I t := by
  induction h with
  | refl => exact hs
  | step _ mem h ih => exact hstep _ mem _ _ ih h

/-! ## Invariant 1: the environment stays inside the analysis -/

/-- Every bound variable's array has an origin the analysis lists for that variable. -/
def EnvOk (r : Roots) (s : State) : Prop := ∀ x a, s.env x = some a → a.origin ∈ r.of x

theorem envOk_init (r : Roots) (n : Nat) : EnvOk r (initAt n) := by
  intro x a h; cases h

theorem envOk_bind {r : Roots} {s : State} {x : Nat} {o : Option Arr} (hs : EnvOk r s)
    (ho : ∀ a, o = some a → a.origin ∈ r.of x) : EnvOk r (s.bind x o) := by
  intro v a h
  simp only [State.bind] at h
  split at h
  · next hv => subst hv; exact ho a h
  · exact hs v a h

theorem envOk_bindNew {r : Roots} {s : State} {x : Nat} (hs : EnvOk r s)
    (ho : Root.fresh ∈ r.of x) : EnvOk r (s.bindNew x) := by
  intro v a h
  simp only [State.bindNew] at h
  split at h
  · next hv => subst hv; cases h; exact ho
  · exact hs v a h

theorem step_envOk {p : Prog} {r : Roots} (hc : Closed p r) (hu : NoUnknown p)
    {st : SStmt} (hm : st ∈ p) {t u : State} (ht : EnvOk r t) (h : Step st t u) : EnvOk r u := by
  cases h with
  | fromParam => exact envOk_bind ht (by intro a e; cases e; exact hc.fromParam hm)
  | alloc => exact envOk_bindNew ht (hc.alloc hm)
  | global => exact envOk_bind ht (by intro a e; cases e; exact hc.global hm)
  | alias => exact envOk_bind ht (fun a e => hc.alias hm _ (ht _ a e))
  | appendNil _ => exact envOk_bindNew ht (hc.appendNew hm)
  | appendInPlace hy =>
    exact envOk_bind (s := t.store _) ht (by intro a e; cases e; exact hc.appendOld hm _ (ht _ _ hy))
  | appendGrow _ => exact envOk_bindNew (s := t.store _) ht (hc.appendNew hm)
  | writeNil _ => exact ht
  | write _ => exact ht
  | retNil _ => exact ht
  | ret _ => exact ht
  | unknown => exact absurd hm (hu _)

/-- **Key invariant.** Along every run of a program without `.unknown`, starting from an empty
environment, each variable points only into arrays whose origin the fixpoint `r` lists for it. -/
theorem run_envOk {p : Prog} {r : Roots} (hc : Closed p r) (hu : NoUnknown p)
    {s t : State} (h : Run p s t) (hs : EnvOk r s) : EnvOk r t :=
  Run.invariant (I := EnvOk r) (fun _ hm _ _ ht hst => step_envOk hc hu hm ht hst) h hs

/-! ## Invariant 2: stored / returned arrays stay inside the analysis -/

/-- Every array in the store log was stored into by a `write x` / `appendTo _ x` of the program
through a variable `x` for which the analysis lists the array's origin — or is a new array. -/
def LogOk (p : Prog) (r : Roots) (s : State) : Prop :=
  (∀ a ∈ s.stored, a.origin = .fresh ∨
      ∃ x, (SStmt.write x ∈ p ∨ ∃ z, SStmt.appendTo z x ∈ p) ∧ a.origin ∈ r.of x) ∧
  (∀ a ∈ s.returned, ∃ x, SStmt.ret x ∈ p ∧ a.origin ∈ r.of x)

theorem logOk_init (p : Prog) (r : Roots) (n : Nat) : LogOk p r (initAt n) :=
  ⟨fun _ h => (by cases h), fun _ h => (by cases h)⟩

theorem step_logOk {p : Prog} {r : Roots} (hu : NoUnknown p)
    {st : SStmt} (hm : st ∈ p) {t u : State} (he : EnvOk r t) (ht : LogOk p r t)
    (h : Step st t u) : LogOk p r u := by
  cases h with
  | fromParam => exact ht
  | alloc => exact ht
  | global => exact ht
  | alias => exact ht
  | appendNil _ => exact ht
  | appendInPlace hy =>
    refine ⟨?_, ht.2⟩
    intro a ha
    rcases List.mem_cons.mp ha with rfl | ha
    · exact .inr ⟨_, .inr ⟨_, hm⟩, he _ _ hy⟩
    · exact ht.1 a ha
  | appendGrow _ =>
    refine ⟨?_, ht.2⟩
    intro a ha
    rcases List.mem_cons.mp ha with rfl | ha
    · exact .inl rfl
    · exact ht.1 a ha
  | writeNil _ => exact ht
  | write hx =>
    refine ⟨?_, ht.2⟩
    intro a ha
    rcases List.mem_cons.mp ha with rfl | ha
    · exact .inr ⟨_, .inl hm, he _ _ hx⟩
    · exact ht.1 a ha
  | retNil _ => exact ht
  | ret hx =>
    refine ⟨ht.1, ?_⟩
    intro a ha
    rcases List.mem_cons.mp ha with rfl | ha
    · exact ⟨_, hm, he _ _ hx⟩
    · exact ht.2 a ha
  | unknown => exact absurd hm (hu _)

theorem run_logOk {p : Prog} {r : Roots} (hc : Closed p r) (hu : NoUnknown p)
    {s t : State} (h : Run p s t) (hs : EnvOk r s) (hl : LogOk p r s) : LogOk p r t :=
  (Run.invariant (I := fun s => EnvOk r s ∧ LogOk p r s)
    (fun _ hm _ _ ht hst => ⟨step_envOk hc hu hm ht.1 hst, step_logOk hu hm ht.1 ht.2 hst⟩)
    h ⟨hs, hl⟩).2

/-! ## Invariant 3: serial numbers -/

/-- A fresh array has a serial in `[lo, hi)`; nothing is said about non-fresh arrays. -/
def InRange (lo hi : Nat) (a : Arr) : Prop := a.origin = .fresh → lo ≤ a.serial ∧ a.serial < hi

theorem InRange.mono {lo hi hi' : Nat} {a : Arr} (h : InRange lo hi a) (hh : hi ≤ hi') :
    InRange lo hi' a := fun e => ⟨(h e).1, Nat.lt_of_lt_of_le (h e).2 hh⟩

/-- All fresh arrays a state knows about were allocated since the counter was `lo`. -/
structure SerOk (lo : Nat) (s : State) : Prop where
  le : lo ≤ s.next
  env : ∀ x a, s.env x = some a → InRange lo s.next a
  stored : ∀ a ∈ s.stored, InRange lo s.next a
  returned : ∀ a ∈ s.returned, InRange lo s.next a

theorem serOk_initAt (n : Nat) : SerOk n (initAt n) :=
  ⟨Nat.le_refl _, fun _ _ h => (by cases h), fun _ h => (by cases h), fun _ h => (by cases h)⟩

theorem inRange_nonfresh {lo hi : Nat} {a : Arr} (h : a.origin ≠ .fresh) : InRange lo hi a :=
  fun e => absurd e h

theorem serOk_bind {lo : Nat} {s : State} {x : Nat} {o : Option Arr} (hs : SerOk lo s)
    (ho : ∀ a, o = some a → InRange lo s.next a) : SerOk lo (s.bind x o) := by
  refine ⟨hs.le, ?_, hs.stored, hs.returned⟩
  intro v a h
  simp only [State.bind] at h
  split at h
  · exact ho a h
  · exact hs.env v a h

theorem serOk_bindNew {lo : Nat} {s : State} {x : Nat} (hs : SerOk lo s) :
    SerOk lo (s.bindNew x) := by
  have hle : s.next ≤ s.next + 1 := Nat.le_succ _
  refine ⟨Nat.le_trans hs.le hle, ?_, fun a h => (hs.stored a h).mono hle,
    fun a h => (hs.returned a h).mono hle⟩
  intro v a h
  simp only [State.bindNew] at h
  split at h
  · cases h; exact fun _ => ⟨hs.le, Nat.lt_succ_self _⟩
  · exact (hs.env v a h).mono hle

theorem serOk_store {lo : Nat} {s : State} {a : Arr} (hs : SerOk lo s)
    (ha : InRange lo s.next a) : SerOk lo (s.store a) := by
  refine ⟨hs.le, hs.env, ?_, hs.returned⟩
  intro b hb
  rcases List.mem_cons.mp hb with rfl | hb
  · exact ha
  · exact hs.stored b hb

theorem serOk_yield {lo : Nat} {s : State} {a : Arr} (hs : SerOk lo s)
    (ha : InRange lo s.next a) : SerOk lo (s.yield a) := by
  refine ⟨hs.le, hs.env, hs.stored, ?_⟩
  intro b hb
  rcases List.mem_cons.mp hb with rfl | hb
  · exact ha
  · exact hs.returned b hb

theorem step_serOk {p : Prog} (hu : NoUnknown p) {lo : Nat}
    {st : SStmt} (hm : st ∈ p) {t u : State} (ht : SerOk lo t) (h : Step st t u) : SerOk lo u := by
  cases h with
  | fromParam => exact serOk_bind ht (by intro a e; cases e; exact inRange_nonfresh (by simp))
  | alloc => exact serOk_bindNew ht
  | global => exact serOk_bind ht (by intro a e; cases e; exact inRange_nonfresh (by simp))
  | alias => exact serOk_bind ht (fun a e => ht.env _ a e)
  | appendNil _ => exact serOk_bindNew ht
  | appendInPlace hy =>
    exact serOk_bind (serOk_store ht (ht.env _ _ hy)) (by intro a e; cases e; exact ht.env _ _ hy)
  | appendGrow _ =>
    -- the new array's serial is `t.next`, which is in range only after the counter advances
    have hle : t.next ≤ t.next + 1 := Nat.le_succ _
    refine ⟨Nat.le_trans ht.le hle, ?_, ?_, fun a h => (ht.returned a h).mono hle⟩
    · intro v a h
      simp only [State.bindNew, State.store] at h
      split at h
      · cases h; exact fun _ => ⟨ht.le, Nat.lt_succ_self _⟩
      · exact (ht.env v a h).mono hle
    · intro b hb
      rcases List.mem_cons.mp hb with rfl | hb
      · exact fun _ => ⟨ht.le, Nat.lt_succ_self _⟩
      · exact (ht.stored b hb).mono hle
  | writeNil _ => exact ht
  | write hx => exact serOk_store ht (ht.env _ _ hx)
  | retNil _ => exact ht
  | ret hx => exact serOk_yield ht (ht.env _ _ hx)
  | unknown => exact absurd hm (hu _)

theorem run_serOk {p : Prog} (hu : NoUnknown p) {lo : Nat} {s t : State}
    (h : Run p s t) (hs : SerOk lo s) : SerOk lo t :=
  Run.invariant (I := SerOk lo) (fun _ hm _ _ ht hst => step_serOk hu hm ht hst) h hs

/-- The serial counter never goes down. -/
theorem run_next_le {p : Prog} (hu : NoUnknown p) {s t : State} (h : Run p s t) :
    s.next ≤ t.next := by
  refine Run.invariant (I := fun u => s.next ≤ u.next) ?_ h (Nat.le_refl _)
  intro st hm t u ht hst
  cases hst with
  | unknown => exact absurd hm (hu _)
  | alloc => exact Nat.le_succ_of_le ht
  | appendNil _ => exact Nat.le_succ_of_le ht
  | appendGrow _ => exact Nat.le_succ_of_le ht
  | _ => exact ht

/-! ## Exactness: every fact of `solve p` happens in some run -/

/-- Every (variable, origin) pair of `r` is reached by some run of `p` from the initial state. -/
def Realizable (p : Prog) (r : Roots) : Prop :=
  ∀ x k, (x, k) ∈ r → ∃ s a, Run p init s ∧ s.env x = some a ∧ a.origin = k

theorem realizable_addAll {p : Prog} {r : Roots} {x : Nat} {ks : List Root} (hr : Realizable p r)
    (hk : ∀ k ∈ ks, ∃ s a, Run p init s ∧ s.env x = some a ∧ a.origin = k) :
    Realizable p (addAll r x ks) := by
  rw [addAll_eq]
  induction ks generalizing r with
  | nil => exact hr
  | cons k ks ih =>
    rw [List.foldl_cons]
    refine ih ?_ (fun k' hk' => hk k' (List.mem_cons_of_mem _ hk'))
    intro y k' hm
    unfold addOne at hm
    split at hm
    · exact hr y k' hm
    · rcases List.mem_append.mp hm with hm | hm
      · exact hr y k' hm
      · cases List.mem_singleton.mp hm
        exact hk k (List.mem_cons_self ..)

theorem env_bind_self (s : State) (x : Nat) (o : Option Arr) : (s.bind x o).env x = o := by
  simp [State.bind]

theorem env_bindNew_self (s : State) (x : Nat) : (s.bindNew x).env x = some s.newArr := by
  simp [State.bindNew]

theorem realizable_xfer {p : Prog} {r : Roots} {st : SStmt} (hm : st ∈ p) (hr : Realizable p r) :
    Realizable p (xfer r st) := by
  cases st with
  | fromParam x i =>
    refine realizable_addAll hr ?_
    intro k hk; cases List.mem_singleton.mp hk
    exact ⟨_, _, Run.refl.step hm Step.fromParam, env_bind_self .., rfl⟩
  | alloc x =>
    refine realizable_addAll hr ?_
    intro k hk; cases List.mem_singleton.mp hk
    exact ⟨_, _, Run.refl.step hm Step.alloc, env_bindNew_self .., rfl⟩
  | global x g =>
    refine realizable_addAll hr ?_
    intro k hk; cases List.mem_singleton.mp hk
    exact ⟨_, _, Run.refl.step hm Step.global, env_bind_self .., rfl⟩
  | alias x y =>
    refine realizable_addAll hr ?_
    intro k hk
    obtain ⟨s, a, hrun, hy, ho⟩ := hr y k (mem_of.mp hk)
    exact ⟨_, a, hrun.step hm Step.alias, (env_bind_self ..).trans hy, ho⟩
  | appendTo x y =>
    refine realizable_addAll hr ?_
    intro k hk
    rcases List.mem_cons.mp hk with rfl | hk
    · exact ⟨_, _, Run.refl.step hm (Step.appendNil rfl), env_bindNew_self .., rfl⟩
    · obtain ⟨s, a, hrun, hy, ho⟩ := hr y k (mem_of.mp hk)
      exact ⟨_, a, hrun.step hm (Step.appendInPlace hy), env_bind_self .., ho⟩
  | write x => exact hr
  | ret x => exact hr
  | unknown d => exact hr

theorem realizable_foldl {p : Prog} (q : List SStmt) (hq : ∀ st ∈ q, st ∈ p) {r : Roots}
    (hr : Realizable p r) : Realizable p (q.foldl xfer r) := by
  induction q generalizing r with
  | nil => exact hr
  | cons st q ih =>
    rw [List.foldl_cons]
    exact ih (fun s hs => hq s (List.mem_cons_of_mem _ hs))
      (realizable_xfer (hq st (List.mem_cons_self ..)) hr)

theorem realizable_pass {p : Prog} {r : Roots} (hr : Realizable p r) : Realizable p (pass p r) := by
  rw [pass_eq]; exact realizable_foldl p (fun _ h => h) hr

theorem realizable_iterate {p : Prog} (n : Nat) {r : Roots} (hr : Realizable p r) :
    Realizable p (iterate p n r) := by
  induction n generalizing r with
  | zero => exact hr
  | succ n ih => exact ih (realizable_pass hr)

/-- Every origin the analysis lists for `x` is the origin of `x`'s array in some run: `solve p`
contains no spurious facts (for this flow-insensitive semantics). -/
theorem solve_realizable (p : Prog) : Realizable p (solve p) :=
  realizable_iterate passes (fun _ _ h => by cases h)

/-- **Exactness.** For a stable program without `.unknown`, `k ∈ (solve p).of x` iff some run binds
`x` to an array of origin `k`. -/
theorem solve_exact {p : Prog} (hs : stable p = true) (hu : NoUnknown p) (x : Nat) (k : Root) :
    k ∈ (solve p).of x ↔ ∃ s a, Run p init s ∧ s.env x = some a ∧ a.origin = k := by
  constructor
  · intro h; exact solve_realizable p x k (mem_of.mp h)
  · rintro ⟨s, a, hrun, hx, rfl⟩
    exact run_envOk (closed_of_stable hs) hu hrun (envOk_init _ _) x a hx

/-! ## Soundness of the two booleans (from any call entry `initAt n`) -/

/-- `argSafe`: every array stored into was allocated by this very call. -/
theorem stored_fresh_at {p : Prog} (h : argSafe p = true) {n : Nat} {s : State}
    (hr : Run p (initAt n) s) :
    ∀ a ∈ s.stored, a.origin = .fresh ∧ n ≤ a.serial ∧ a.serial < s.next := by
  obtain ⟨hs, hu, hw, hap⟩ := argSafe_iff.mp h
  have hl := run_logOk (closed_of_stable hs) hu hr (envOk_init _ _) (logOk_init _ _ _)
  have hser := run_serOk hu hr (serOk_initAt n)
  intro a ha
  have hf : a.origin = .fresh := by
    rcases hl.1 a ha with hf | ⟨x, hx | ⟨z, hz⟩, ho⟩
    · exact hf
    · exact hw x hx _ ho
    · exact hap z x hz _ ho
  exact ⟨hf, hser.stored a ha hf⟩

/-- `resultFresh`: every returned array was allocated by this very call. -/
theorem returned_fresh_at {p : Prog} (h : resultFresh p = true) {n : Nat} {s : State}
    (hr : Run p (initAt n) s) :
    ∀ a ∈ s.returned, a.origin = .fresh ∧ n ≤ a.serial ∧ a.serial < s.next := by
  obtain ⟨hs, hu, hret⟩ := resultFresh_iff.mp h
  have hl := run_logOk (closed_of_stable hs) hu hr (envOk_init _ _) (logOk_init _ _ _)
  have hser := run_serOk hu hr (serOk_initAt n)
  intro a ha
  obtain ⟨x, hx, ho⟩ := hl.2 a ha
  have hf : a.origin = .fresh := (hret x hx).1 _ ho
  exact ⟨hf, hser.returned a ha hf⟩

/-! ## Completeness: a stable program is rejected only for a reason that happens in some run -/

theorem onlyFresh_false {ks : List Root} (h : ¬ onlyFresh ks = true) : ∃ k ∈ ks, k ≠ .fresh := by
  simpa [onlyFresh] using h

/-- If a stable, fully translated program fails `argSafe`, some run stores into a non-fresh array. -/
theorem argSafe_complete {p : Prog} (hs : stable p = true) (hu : NoUnknown p)
    (h : argSafe p = false) : ∃ s a, Run p init s ∧ a ∈ s.stored ∧ a.origin ≠ .fresh := by
  simp only [argSafe, hs, Bool.true_and, List.all_eq_false] at h
  obtain ⟨st, hm, hf⟩ := h
  cases st with
  | write x =>
    obtain ⟨k, hk, hne⟩ := onlyFresh_false hf
    obtain ⟨s, a, hrun, hx, rfl⟩ := solve_realizable p x k (mem_of.mp hk)
    exact ⟨_, a, hrun.step hm (Step.write hx), List.mem_cons_self .., hne⟩
  | appendTo x y =>
    obtain ⟨k, hk, hne⟩ := onlyFresh_false hf
    obtain ⟨s, a, hrun, hy, rfl⟩ := solve_realizable p y k (mem_of.mp hk)
    exact ⟨_, a, hrun.step hm (Step.appendInPlace hy), List.mem_cons_self .., hne⟩
  | unknown d => exact absurd hm (hu d)
  | _ => exact absurd rfl hf

/-- If a stable, fully translated program fails `resultFresh`, some run returns a non-fresh array,
or some `ret x` returns a variable that no run ever binds (a translator gap: the definition of `x`
was lost). -/
theorem resultFresh_complete {p : Prog} (hs : stable p = true) (hu : NoUnknown p)
    (h : resultFresh p = false) :
    (∃ s a, Run p init s ∧ a ∈ s.returned ∧ a.origin ≠ .fresh) ∨
    (∃ x, SStmt.ret x ∈ p ∧ ∀ s, Run p init s → s.env x = none) := by
  simp only [resultFresh, hs, Bool.true_and, List.all_eq_false] at h
  obtain ⟨st, hm, hf⟩ := h
  cases st with
  | ret x =>
    simp only [Bool.and_eq_true, Bool.not_eq_true', List.isEmpty_eq_false_iff, not_and,
      Classical.not_not] at hf
    by_cases hof : onlyFresh ((solve p).of x) = true
    · right
      refine ⟨x, hm, ?_⟩
      intro s hrun
      have he := run_envOk (closed_of_stable hs) hu hrun (envOk_init _ _) x
      rw [hf hof] at he
      cases hx : s.env x with
      | none => rfl
      | some a => exact absurd (he a hx) (List.not_mem_nil)
    · left
      obtain ⟨k, hk, hne⟩ := onlyFresh_false hof
      obtain ⟨s, a, hrun, hx, rfl⟩ := solve_realizable p x k (mem_of.mp hk)
      exact ⟨_, a, hrun.step hm (Step.ret hx), List.mem_cons_self .., hne⟩
  | unknown d => exact absurd hm (hu d)
  | _ => exact absurd rfl hf

/-- The meaning of `resultFresh`'s non-emptiness clause: every `ret x` of an accepted program does
return an array in some run (it is not a `return` of a variable the translator lost track of). -/
theorem resultFresh_ret_happens {p : Prog} (h : resultFresh p = true) {x : Nat}
    (hm : SStmt.ret x ∈ p) : ∃ s a, Run p init s ∧ a ∈ s.returned ∧ s.env x = some a := by
  obtain ⟨_, _, hret⟩ := resultFresh_iff.mp h
  obtain ⟨k, hk⟩ := List.exists_mem_of_ne_nil _ (hret x hm).2
  obtain ⟨s, a, hrun, hx, _⟩ := solve_realizable p x k (mem_of.mp hk)
  exact ⟨_, a, hrun.step hm (Step.ret hx), List.mem_cons_self .., hx⟩

end GoCrypt.SliceSem
