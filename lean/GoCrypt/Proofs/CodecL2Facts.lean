import GoCrypt.Proofs.CodecL2

/-!
# What the calibrated hypotheses say, field by field

`representable_facts` / `unambiguous_facts` unfold `CodecDomain.representable` / `CodecDomain.unambiguous`
into the facts the round-trip proof uses; `field_facts` is what Unmarshal computes on the text Marshal
wrote for one emitted field.
-/

namespace GoCrypt.Codec
open Bytes GoCrypt.Parse Layers GoCrypt.Respell GoCrypt.CodecDomain

theorem emittedIn_eq (vals : Vals) (f : FieldInfo) : emittedIn vals f = emitted vals f := rfl

theorem pieces_spec (vals : Vals) : ∀ (fs : List FieldInfo) (ps : List Piece), pieces vals fs = some ps →
    ps = (fs.filter (emitted vals)).map (fun f => ⟨f, textOf vals f⟩) ∧
    ∀ f ∈ fs, emitted vals f = true → marshalValue f (fieldVal vals f) = .ok (textOf vals f) := by
  intro fs
  induction fs with
  | nil =>
    intro ps h
    simp only [pieces, Option.some.injEq] at h
    subst h
    simp
  | cons f rest ih =>
    intro ps h
    unfold pieces at h
    by_cases hem : emitted vals f = true
    · have hc : (f.opts.omitEmpty && isEmptyVal f ((getVal vals f.index).getD (zeroOf f.kind f.ptrDepth))) = false := by
        simpa only [emitted, fieldVal, Bool.not_eq_true'] using hem
      simp only [hc, Bool.false_eq_true, if_false] at h
      cases hmv : marshalValue f (fieldVal vals f) with
      | error e =>
        have hmv' : marshalValue f ((getVal vals f.index).getD (zeroOf f.kind f.ptrDepth)) = .error e := hmv
        simp [hmv'] at h
      | ok t =>
        have hmv' : marshalValue f ((getVal vals f.index).getD (zeroOf f.kind f.ptrDepth)) = .ok t := hmv
        have htx : textOf vals f = t := by simp [textOf, hmv]
        simp only [hmv', Option.map_eq_some_iff] at h
        obtain ⟨ps', hps', rfl⟩ := h
        obtain ⟨h1, h2⟩ := ih ps' hps'
        refine ⟨?_, ?_⟩
        · simp [hem, h1, htx]
        · intro g hg hge
          simp only [List.mem_cons] at hg
          rcases hg with rfl | hg
          · rw [htx]; exact hmv
          · exact h2 g hg hge
    · have hc : (f.opts.omitEmpty && isEmptyVal f ((getVal vals f.index).getD (zeroOf f.kind f.ptrDepth))) = true := by
        simpa only [emitted, fieldVal, Bool.not_eq_true', Bool.not_eq_false] using hem
      simp only [hc, if_true] at h
      obtain ⟨h1, h2⟩ := ih ps h
      refine ⟨?_, ?_⟩
      · simp [hem, h1]
      · intro g hg hge
        simp only [List.mem_cons] at hg
        rcases hg with rfl | hg
        · exact absurd hge hem
        · exact h2 g hg hge

/-- What `representable` says, field by field. -/
structure ReprFacts (ti : TypeInfo) (vals : Vals) : Prop where
  mv : ∀ f ∈ ti.fields, emitted vals f = true → marshalValue f (fieldVal vals f) = .ok (textOf vals f)
  pfx : ∀ hp, ti.hashPrefix = some hp → L1.prefixTextOk hp (textOf vals hp) = true
  wl : ∀ f ∈ ti.fields, emitted vals f = true → ∀ l, f.unmarshalText = .whitelist l →
    l.contains (textOf vals f) = true
  body : L1.prefixTextOf ti vals = [] → ∀ c, (renderFields vals ti.fields none).head? = some c →
    c ≠ dollar ∧ c ≠ underscore
  nd : ∀ f ∈ ti.fields, emitted vals f = true → NoDelim (textOf vals f)
  nil : ∀ f ∈ ti.fields, fieldVal vals f ≠ .nilPtr ∨ f.opts.omitEmpty = true
  des : ∀ f ∈ ti.fields, ∀ n, f.marshalText = .desInt → fieldVal vals f = .uint n → n < 16777216
  runs : groupRunsOk vals (ti.fields.length + 1) ti.fields = true
  greedy : greedyOptional vals ti.fields = true

theorem body_eq_render (vals : Vals) (fs : List FieldInfo)
    (hmv : ∀ f ∈ fs, emitted vals f = true → marshalValue f (fieldVal vals f) = .ok (textOf vals f)) :
    (marshalFields vals fs none []).toOption.getD [] = renderFields vals fs none := by
  obtain ⟨s, hs⟩ := marshalFields_accepts vals fs none [] (fun f hf he => ⟨_, hmv f hf he⟩)
  obtain ⟨h1, -⟩ := marshalFields_render vals fs none [] s hs
  rw [hs, h1]; rfl

theorem repr_common (ti : TypeInfo) (vals : Vals) (ps : List Piece) (p : Bytes)
    (hpe : ps = List.map (fun f => { fi := f, text := textOf vals f }) (List.filter (emitted vals) ti.fields))
    (hmv : ∀ f ∈ ti.fields, emitted vals f = true → marshalValue f (fieldVal vals f) = .ok (textOf vals f))
    (hpt : L1.prefixTextOf ti vals = p)
    (hpfx : ∀ hp, ti.hashPrefix = some hp → L1.prefixTextOk hp (textOf vals hp) = true)
    (h3 : (ps.all fun pc => match pc.fi.unmarshalText with | TextCodec.whitelist l => l.contains pc.text | _ => true) = true)
    (h4 : (!List.isEmpty p ||
        !(List.head? ((marshalFields vals ti.fields none []).toOption.getD []) == some dollar ||
          List.head? ((marshalFields vals ti.fields none []).toOption.getD []) == some underscore)) = true)
    (h5 : (ps.all fun pc => noDelim pc.text) = true)
    (h6 : (ti.fields.all fun f =>
        ((getVal vals f.index).getD (zeroOf f.kind f.ptrDepth) != FVal.nilPtr || f.opts.omitEmpty) &&
          match f.marshalText, (getVal vals f.index).getD (zeroOf f.kind f.ptrDepth) with
          | TextCodec.desInt, FVal.uint n => decide (n < 16777216)
          | _, _ => true) = true)
    (h7 : groupRunsOk vals (ti.fields.length + 1) ti.fields = true)
    (h8 : greedyOptional vals ti.fields = true) : ReprFacts ti vals := by
  subst hpe
  simp only [List.all_map, List.all_eq_true, List.mem_filter, Function.comp_def, and_imp] at h3 h5
  simp only [List.all_eq_true, Bool.and_eq_true, Bool.or_eq_true, bne_iff_ne, ne_eq] at h6
  refine ⟨hmv, hpfx, ?_, ?_, ?_, ?_, ?_, h7, h8⟩
  · intro f hf he l hl
    have := h3 f hf he
    simpa [hl] using this
  · intro hp0 c hc
    rw [body_eq_render vals ti.fields hmv] at h4
    rw [hpt] at hp0
    subst hp0
    simp only [List.isEmpty_nil, Bool.not_true, Bool.false_or, Bool.not_eq_eq_eq_not, Bool.not_true,
      Bool.or_eq_false_iff, beq_eq_false_iff_ne, ne_eq] at h4
    rw [hc] at h4
    exact ⟨fun e => h4.1 (by rw [e]), fun e => h4.2 (by rw [e])⟩
  · intro f hf he c hc
    have := h5 f hf he
    simp only [noDelim, List.all_eq_true, Bool.and_eq_true, ne_eq, decide_eq_true_eq] at this
    exact this c hc
  · intro f hf
    exact (h6 f hf).1
  · intro f hf n hm hv
    have := (h6 f hf).2
    have hv' : (getVal vals f.index).getD (zeroOf f.kind f.ptrDepth) = .uint n := hv
    simpa [hm, hv'] using this

theorem representable_facts (ti : TypeInfo) (vals : Vals) (h : representable ti vals = true) :
    ReprFacts ti vals := by
  unfold representable at h
  cases hps : pieces vals ti.fields with
  | none => simp [hps] at h
  | some ps =>
    obtain ⟨hpe, hmv⟩ := pieces_spec vals ti.fields ps hps
    simp only [hps] at h
    cases hhp : ti.hashPrefix with
    | none =>
      simp only [hhp, Bool.and_eq_true] at h
      obtain ⟨⟨⟨⟨⟨⟨-, h3⟩, h4⟩, h5⟩, h6⟩, h7⟩, h8⟩ := h
      exact repr_common ti vals ps [] hpe hmv (by simp [L1.prefixTextOf, hhp])
        (by intro hp hh; rw [hhp] at hh; cases hh) h3 h4 h5 h6 h7 h8
    | some hp =>
      simp only [hhp] at h
      cases hm : marshalValue hp ((getVal vals hp.index).getD (zeroOf hp.kind hp.ptrDepth)) with
      | error e => simp [hm] at h
      | ok t =>
        simp only [hm, Bool.and_eq_true] at h
        obtain ⟨⟨⟨⟨⟨⟨⟨h1, h2⟩, h3⟩, h4⟩, h5⟩, h6⟩, h7⟩, h8⟩ := h
        have htx : textOf vals hp = t := by simp [textOf, fieldVal, hm]
        refine repr_common ti vals ps t hpe hmv (by simp [L1.prefixTextOf, hhp, htx]) ?_ h3 h4 h5 h6 h7 h8
        intro hp' hh
        rw [hhp] at hh; cases hh
        rw [htx]
        unfold L1.prefixTextOk
        by_cases hemp : t.isEmpty = true
        · have hwf : wellFormedPrefix t = false := by
            rw [List.isEmpty_iff] at hemp; subst hemp; rfl
          simpa [hemp, hwf] using h1
        · simp only [hemp, Bool.false_eq_true, if_false, Bool.and_eq_true]
          simp only [Bool.not_eq_true] at hemp
          simp only [hemp, Bool.false_and, Bool.or_false] at h1 h2
          refine ⟨h1, ?_⟩
          cases hu : hp.unmarshalText <;> simp only [hu] at h2 ⊢
          exact h2


/-! ## `unambiguous` -/

structure UnambFacts (ti : TypeInfo) : Prop where
  alnum : ∀ f ∈ ti.fields, f.opts.param ≠ [] → f.opts.param.all isAlnum = true
  world : (∃ f ∈ ti.fields, isPositional f = true ∧ f.opts.omitEmpty = true) →
    ∀ f ∈ ti.fields, f.opts.group = false ∧ (f.opts.param ≠ [] → f.opts.omitEmpty = false)
  inl : inlineOk ti.fields = true

theorem unambiguous_facts (ti : TypeInfo) (h : unambiguous ti = true) : UnambFacts ti := by
  unfold unambiguous at h
  simp only [Bool.and_eq_true] at h
  obtain ⟨⟨⟨h1, h2⟩, h3⟩, -⟩ := h
  refine ⟨?_, ?_, h3⟩
  · intro f hf hp
    have := (List.all_eq_true.1 h1) f hf
    simp only [Bool.or_eq_true, decide_eq_true_eq] at this
    rcases this with h | h
    · exact absurd h hp
    · exact h
  · rintro ⟨g, hg, hpos, hom⟩ f hf
    simp only [Bool.or_eq_true, Bool.not_eq_eq_eq_not, Bool.not_true] at h2
    rcases h2 with h2 | h2
    · have := (List.any_eq_false.1 h2) g hg
      simp [hpos, hom] at this
    · have := (List.all_eq_true.1 h2) f hf
      simp only [Bool.and_eq_true, Bool.not_eq_eq_eq_not, Bool.not_true, Bool.and_eq_false_imp,
        decide_eq_true_eq, ne_eq] at this
      exact ⟨this.1, fun hp => this.2 hp⟩

/-! ## One emitted field -/

/-- What Unmarshal computes on the text Marshal wrote for one emitted field. -/
structure FieldFacts (vals : Vals) (f : FieldInfo) : Prop where
  mv : marshalValue f (fieldVal vals f) = .ok (textOf vals f)
  nd : NoDelim (nt vals f)
  key : f.opts.param = [] ∨ (f.opts.param ++ [equals]).isPrefixOf (nt vals f) = true
  read : f.opts.inline = false → ∀ k e, fieldText f k e (nt vals f) = .ok (textOf vals f, [])
  readInl : f.opts.inline = true → f.opts.param = [] →
    ∀ k e r, fieldText f k e (textOf vals f ++ r) = .ok (textOf vals f, r)
  store : ∀ k e, storeValue f k e (textOf vals f) = .ok (fieldVal vals f)

theorem typed_emitted_valOk (vals : Vals) (f : FieldInfo)
    (ht : typedField f (fieldVal vals f) = true) (he : emitted vals f = true)
    (hnil : fieldVal vals f ≠ .nilPtr ∨ f.opts.omitEmpty = true) : valOk f (fieldVal vals f) = true := by
  simp only [typedField, Bool.or_eq_true, Bool.and_eq_true, beq_iff_eq, decide_eq_true_eq] at ht
  rcases ht with ht | ht
  · exact ht
  · rcases hnil with hnil | hnil
    · exact absurd ht.1 hnil
    · simp [emitted, hnil, ht.1, isEmptyVal] at he

theorem field_facts (vals : Vals) (f : FieldInfo) (hwf : fieldWf f = true)
    (haln : f.opts.param ≠ [] → f.opts.param.all isAlnum = true)
    (hv : valOk f (fieldVal vals f) = true)
    (hmv : marshalValue f (fieldVal vals f) = .ok (textOf vals f))
    (hnd : NoDelim (textOf vals f))
    (hwl : ∀ l, f.unmarshalText = .whitelist l → l.contains (textOf vals f) = true)
    (hdes : ∀ n, f.marshalText = .desInt → fieldVal vals f = .uint n → n < 16777216) :
    FieldFacts vals f := by
  simp only [fieldWf, Bool.and_eq_true, Bool.or_eq_true, Bool.not_eq_eq_eq_not, Bool.not_true] at hwf
  obtain ⟨⟨⟨⟨-, hpfx⟩, hil⟩, hb⟩, hc⟩ := hwf
  obtain ⟨hraw, hlen, hfi⟩ := marshalValue_ok hmv
  refine ⟨hmv, ?_, ?_, ?_, ?_, ?_⟩
  · intro c hc
    unfold nt namedText at hc
    by_cases hp : f.opts.param = []
    · simp only [hp, ne_eq, not_true_eq_false, if_false] at hc
      exact hnd c hc
    · simp only [ne_eq, hp, not_false_eq_true, if_true, List.mem_append, List.mem_singleton] at hc
      rcases hc with (hc | rfl) | hc
      · exact (alnum_clean _ (haln hp)).2 c hc
      · decide
      · exact hnd c hc
  · by_cases hp : f.opts.param = []
    · exact Or.inl hp
    · right
      simp only [nt, namedText, ne_eq, hp, not_false_eq_true, if_true]
      exact isPrefixOf_append_self _ _
  · intro hinl k e
    exact fieldText_named f k e _ hinl hlen hfi
  · intro hinl hp k e r
    have hl : f.opts.hasLength = true := by
      rcases hil with h | h
      · rw [hinl] at h; cases h
      · exact h
    exact fieldText_inline f k e _ r hinl hp hl (hlen hl) hfi
  · intro k e
    exact storeValue_codec f k e _ _ hc hb hpfx hv hwl hdes hraw

end GoCrypt.Codec
