import GoCrypt.Proofs.TiWfNorm
import GoCrypt.Proofs.CodecL8Respell

/-!
# `typeInfoOf` builds a well-formed `TypeInfo` (`tiWf`)

`typeInfoOf_tiWf_iff`: for EVERY struct description, a `TypeInfo` returned by `typeInfoOf` satisfies `tiWf`
exactly when its field kinds / text codecs are the supported ones (`kindsOk`) — every other clause of
`tiWf` (valid tag combinations, inline ⇒ length, base in 2..36, no prefix among the fields, a prefix
without name and not inline, distinct index paths, distinct parameter names, `numReqValues`) is
established by `getTypeInfo` itself, with NO assumption on the struct description: not on field names
(index paths are positions), not on the embedding depth (running out of fuel only drops fields).

`supported structs root` / `structsSupported structs` are the decidable conditions on the struct
description that give `kindsOk`.
-/

namespace GoCrypt.Codec
open Bytes GoCrypt.Parse Layers GoCrypt.Respell GoCrypt.CodecDomain

namespace TiWf

/-- A raw field has a supported Go type: the `HashPrefix` field is a plain string, every other field has
a kind / text codec the codec model gives a meaning to. -/
def rawOk (fi : FieldInfo) : Bool := if fi.opts.isPrefix then prefixKindOk fi else codecOk fi

/-- The side condition of `typeInfoOf_tiWf`, on the struct description: every field `getRawTypeInfo`
collects for `root` has a supported type. -/
def supported (structs : List GoStruct) (root : String) : Bool :=
  match lookupStruct structs root with
  | none => true
  | some s => (rawFields structs 8 s).all rawOk

/-- The same, field by field: every field of every struct is skipped (unexported, `hash:"-"`), or an
embedded struct of the description, or has a supported type. -/
def goFieldOk (structs : List GoStruct) (f : GoField) : Bool :=
  skipped f || (embeddedOf structs f).isSome || rawOk (leaf f [])

def structsSupported (structs : List GoStruct) : Bool :=
  structs.all fun s => s.fields.all (goFieldOk structs)

theorem rawOk_index (fi : FieldInfo) (idx : List Nat) : rawOk { fi with index := idx } = rawOk fi := rfl

theorem supported_of_structsSupported (structs : List GoStruct) (root : String)
    (h : structsSupported structs = true) : supported structs root = true := by
  unfold supported
  split
  · rfl
  · rename_i s hs
    simp only [structsSupported, List.all_eq_true] at h
    rw [List.all_eq_true]
    refine raw_forall structs (fun fi => rawOk fi = true) (fun fi idx hfi => by rw [rawOk_index]; exact hfi)
      ?_ 8 s (lookupStruct_mem hs)
    intro s' hs' f hf hsk hemb i
    have := h s' hs' f hf
    simp only [goFieldOk, hsk, hemb, Option.isSome_none, Bool.false_or] at this
    exact this

/-- What `getTypeInfo` establishes for every struct description. -/
theorem typeInfoOf_final (structs : List GoStruct) (root : String) (ti : TypeInfo)
    (h : typeInfoOf structs root = .ok ti) :
    ∃ all : List FieldInfo, (lookupStruct structs root = none ∧ all = [] ∨
        ∃ s, lookupStruct structs root = some s ∧ all = rawFields structs 8 s) ∧
      (∀ f ∈ all, validOpts f.opts = true) ∧ (∀ f ∈ all, OptInv f.opts) ∧
      (all.map (·.index)).Nodup ∧ Final all ti := by
  unfold typeInfoOf at h
  split at h
  · rename_i hl
    simp only [Except.ok.injEq] at h
    subst h
    exact ⟨[], Or.inl ⟨hl, rfl⟩, fun f hf => (by cases hf), fun f hf => (by cases hf), (by simp),
      ⟨fun g hg => (by cases hg), (by simp), (by simp [paramNames]), fun hp e => (by cases e), rfl⟩⟩
  · rename_i s hl
    simp only at h
    have hnd := raw_index_nodup structs 8 s
    obtain ⟨hv, F⟩ := normalize_final _ hnd ti h
    exact ⟨_, Or.inr ⟨s, hl, rfl⟩, hv, raw_optInv structs 8 s, hnd, F⟩

/-- THE CHARACTERISATION: on the `TypeInfo`s `getTypeInfo` builds, `tiWf` is exactly "the field types are
supported". No hypothesis on the struct description. -/
theorem typeInfoOf_tiWf_iff (structs : List GoStruct) (root : String) (ti : TypeInfo)
    (h : typeInfoOf structs root = .ok ti) : tiWf ti = true ↔ kindsOk ti = true := by
  refine ⟨kindsOk_of_tiWf ti, fun hk => ?_⟩
  obtain ⟨all, -, hv, hi, hnd, F⟩ := typeInfoOf_final structs root ti h
  exact tiWf_of_final all ti hv hi hnd F hk

theorem kindsOk_of_supported (structs : List GoStruct) (root : String) (ti : TypeInfo)
    (h : typeInfoOf structs root = .ok ti) (hs : supported structs root = true) : kindsOk ti = true := by
  obtain ⟨all, hall, -, -, -, F⟩ := typeInfoOf_final structs root ti h
  have hraw : ∀ f ∈ all, rawOk f = true := by
    rcases hall with ⟨-, rfl⟩ | ⟨s, hl, rfl⟩
    · intro f hf; cases hf
    · simp only [supported, hl, List.all_eq_true] at hs
      exact hs
  simp only [kindsOk, Bool.and_eq_true, List.all_eq_true]
  refine ⟨fun g hg => ?_, ?_⟩
  · obtain ⟨hga, hgp⟩ := F.mem g hg
    have := hraw g hga
    simpa only [rawOk, hgp, Bool.false_eq_true, if_false] using this
  · cases hhp : ti.hashPrefix with
    | none => rfl
    | some hp =>
      obtain ⟨hpa, hpp⟩ := F.pfx hp hhp
      have := hraw hp hpa
      simpa only [rawOk, hpp, if_true] using this

theorem typeInfoOf_tiWf (structs : List GoStruct) (root : String) (ti : TypeInfo)
    (h : typeInfoOf structs root = .ok ti) (hs : supported structs root = true) : tiWf ti = true :=
  (typeInfoOf_tiWf_iff structs root ti h).2 (kindsOk_of_supported structs root ti h hs)

/-- `Accepts8.acceptOk_of_L6` without its (unused) hypothesis `groupsSeparated`. -/
theorem acceptOk_of_tiWf (ti : TypeInfo) (hwf : tiWf ti = true) (hu : unambiguous ti = true)
    (hx : Accepts8.extraOk ti = true) : Accepts8.acceptOk ti = true := by
  have U := unambiguous_facts ti hu
  have hio := U.inl
  have hnp := inlineOk_noParam ti.fields hio
  have hwf' := hwf
  simp only [tiWf, Bool.and_eq_true, List.all_eq_true, decide_eq_true_eq] at hwf'
  obtain ⟨⟨⟨⟨hfw, hpf⟩, hnd⟩, hpn⟩, -⟩ := hwf'
  simp only [Accepts8.extraOk, Accepts4.lengthsOk, Bool.and_eq_true, List.all_eq_true, Bool.or_eq_true,
    Bool.not_eq_eq_eq_not, Bool.not_true] at hx
  obtain ⟨⟨hlen, hpl⟩, hopt⟩ := hx
  simp only [Accepts8.acceptOk, Bool.and_eq_true, List.all_eq_true, decide_eq_true_eq]
  refine ⟨⟨⟨⟨fun f hf => ?_, hio⟩, ?_⟩, ?_⟩, hnd⟩
  · have h1 := hfw f hf
    have h3 := hlen f hf
    have ho := hopt f hf
    simp only [fieldWf, validOpts, Bool.and_eq_true, Bool.or_eq_true, Bool.not_eq_eq_eq_not, Bool.not_true,
      decide_eq_true_eq] at h1
    obtain ⟨⟨⟨⟨⟨⟨⟨hoi, hgp⟩, -⟩, -⟩, hpfx⟩, hil⟩, hb⟩, hc⟩ := h1
    have hinl : (!f.opts.inline || (f.opts.param == [] && f.opts.hasLength)) = true := by
      cases hi : f.opts.inline with
      | false => rfl
      | true =>
        have hp := hnp f hf hi
        rcases hil with h | h
        · rw [hi] at h; cases h
        · simp [hp, h]
    have hopt' : (!f.opts.omitEmpty || (!f.opts.inline && Accepts6.optOk f)) = true := by
      cases hom : f.opts.omitEmpty with
      | false => rfl
      | true =>
        rcases hoi with h | h
        · rw [hom] at h; cases h
        · rcases ho with h' | h'
          · rw [hom] at h'; cases h'
          · simp [h, h']
    have hgrp : (!f.opts.group || (f.opts.param != [] && !f.opts.inline && f.opts.param.all isAlnum)) = true := by
      cases hg : f.opts.group with
      | false => rfl
      | true =>
        have hp : f.opts.param ≠ [] := by
          rcases hgp with h | h
          · rw [hg] at h; cases h
          · exact h
        have hi : f.opts.inline = false := by
          cases hi : f.opts.inline with
          | false => rfl
          | true => exact absurd (hnp f hf hi) hp
        simp [hp, hi, U.alnum f hf hp]
    simp only [Accepts7.fieldOk, Accepts4.coreOk, hpfx, hb, hc, h3, hinl, hopt', hgrp, Bool.not_false,
      Bool.and_self]
  · have hsub : ((ti.fields.filter (·.opts.group)).map (·.opts.param)).Sublist (paramNames ti.fields) := by
      unfold paramNames
      apply List.Sublist.map
      have : ti.fields.filter (·.opts.group) =
          (ti.fields.filter (fun f => f.opts.param ≠ [])).filter (·.opts.group) := by
        rw [List.filter_filter]
        apply List.filter_congr
        intro f hf
        cases hg : f.opts.group with
        | false => simp
        | true =>
          have := group_param_ne f (hfw f hf) hg
          simp [this]
      rw [this]
      exact List.filter_sublist
    exact hsub.nodup hpn
  · cases hhp : ti.hashPrefix with
    | none => rfl
    | some hp =>
      simp only [hhp] at hpf hpl
      simp [hpf, hpl]

end TiWf

end GoCrypt.Codec
