import GoCrypt.Proofs.CodecIRUStore2

/-!
# Codec IR: `unmarshal(node, ti, fi, v)` as a whole = the model's `fieldText` then `storeValue`, for every field kind

On a value node or a prefix node (`NodeFacts` of `CodecIRUText2.lean`), into a zero cell.  Helper lemmas only.
-/

namespace GoCrypt.CIR
open GoCrypt.Codec GoCrypt.Gen.codecIR
open GoCrypt.TIIR (RType Res kindNum fiType fiObj tiObj encVal optsVals)

theorem trimmed_len (fi : FieldInfo) (s0 : Bytes) : (trimmed fi s0).length ≤ s0.length := by
  unfold trimmed; split <;> simp

theorem lenRule_facts (fi : FieldInfo) (s0 s : Bytes) (inl : Bool) (h : lenRule fi s0 = some (s, inl)) :
    s.length ≤ s0.length ∧ inl = (fi.opts.hasLength && fi.opts.inline) := by
  unfold lenRule at h
  have ht := trimmed_len fi s0
  cases hhl : fi.opts.hasLength <;> cases hinl : fi.opts.inline <;> simp only [hhl, hinl] at h <;>
    (repeat' split at h) <;> simp_all
  all_goals (obtain ⟨rfl, rfl⟩ := h; simp [List.length_take]; try omega)

/-- What the domain of the theorems asks of a field: integer kinds have a bit size `strconv` accepts and a base in 2..36
(`ParseInt`/`ParseUint` with another base read prefixes/underscores, which `Strconv` does not model). -/
def NumOk (fi : FieldInfo) : Prop :=
  ∀ bits, fi.kind = .int bits ∨ fi.kind = .uint bits → (0 < bits ∧ bits ≤ 64) ∧ 2 ≤ fi.opts.base ∧ fi.opts.base ≤ 36

/-- The result of `unmarshal` on a node, given the model's answer. -/
def UPost (m : Mem) (na : Nat) (s0 : Bytes) (pos fin : Nat) (fi : FieldInfo) (idx : List Nat) (k : Nat) (r : GVal)
    (model : Except UErr FVal) (res : Res (Mem × List Val)) : Prop :=
  match model with
  | .error e => ∃ m' v, res = .ok (m', [v]) ∧ m'.heap = m.heap ∧ absErrU m.heap v = some e
  | .ok fv => ∃ mm, res = .ok (deferMem mm (fi.opts.hasLength && fi.opts.inline) na s0 pos fin fi.opts.length, [.nil]) ∧
      At m mm idx k r (gOfF fv)

/-- The model's `unmarshal` of one node: the text rules, then the store. -/
def nodeModel (fi : FieldInfo) (kind : String) (fin : Nat) (s0 : Bytes) : Except UErr FVal :=
  match fieldText fi kind fin s0 with
  | .error e => .error e
  | .ok (s, _) => storeValue fi kind fin s

theorem unmarshal_node_spec (c : Ctx) (hidx : IndexAnyInvalidSpec c.indexAnyInvalid) (hit : IndirectTypeOk c.ext)
    (hut : UnmarshalTextSpec c.unmarshalText)
    (m : Mem) (na tia a : Nat) (s0 : Bytes) (pos fin : Nat) (fi : FieldInfo) (kl : Bytes) (kind : String) (st : RType)
    (t0 : RType) (idx : List Nat) (k : Nat) (r cur : GVal)
    (hstr : ext1M m .nodeString (.node na) = .ok (.str s0)) (ha : m.heap[a]? = some (fiObj fi))
    (hec : ErrCalls c m na tia a kl kind fin fi st)
    (hval : (fi.opts.hasLength && fi.opts.inline) = true → m.nodes[na]? = some (.value s0 pos fin))
    (hd : t0.depth = 0) (hk0 : t0.kind = fi.kind) (hu0 : t0.ut = fi.unmarshalText)
    (hr : cellRoot m idx = some r) (hg : getDeep k r = some cur) (hcur : cur = zeroG t0) (hnum : NumOk fi)
    (hfuel : s0.length ≤ c.fuel) :
    UPost m na s0 pos fin fi idx k r (nodeModel fi kind fin s0)
      (execProc c unmarshalIR m [.node na, .ptr tia, .ptr a, .cell t0 idx k false]) := by
  rw [execProc_eq _ _ _ _ (by rfl)]
  show UPost m na s0 pos fin fi idx k r (nodeModel fi kind fin s0)
    (procResult (exec c unmarshalIR.body m [.node na, .ptr tia, .ptr a, .cell t0 idx k false, .undef, .undef, .undef, .undef,
        .undef, .undef, .undef, .undef, .undef, .undef, .undef, .undef, .undef, .undef, .undef, .undef, .undef, .undef, .undef, .undef, .undef,
        .undef, .undef, .undef]))
  rw [unmarshal_split, gT1_spec c m na tia a s0 fi _ hstr ha]
  simp only [andThen_norm]
  have h2 := gT2_spec c m na tia a s0 pos fin fi kl kind st (.cell t0 idx k false) ha hec hval
    .undef .undef .undef .undef .undef .undef .undef .undef .undef .undef .undef .undef .undef .undef .undef .undef .undef .undef .undef
    .undef .undef .undef
  unfold nodeModel
  rw [fieldText_eq]
  cases hl : lenRule fi s0 with
  | none =>
    rw [hl] at h2
    obtain ⟨v, hx, habs⟩ := h2
    exact ⟨m, v, by rw [hx]; rfl, rfl, habs⟩
  | some p =>
    obtain ⟨s, inl⟩ := p
    rw [hl] at h2
    obtain ⟨y5, hx, hy5⟩ := h2
    obtain ⟨hslen, hinl⟩ := lenRule_facts fi s0 s inl hl
    rw [hx]
    simp only [andThen_norm]
    have h3 := gT3_spec c m na tia a s0 pos fin fi kl kind st (.cell t0 idx k false) ha hec hidx s inl y5 hy5
      .undef .undef .undef .undef .undef .undef .undef .undef .undef .undef .undef .undef .undef .undef .undef .undef .undef .undef
      .undef .undef .undef
    cases hf : firstInvalid fi.opts.enc s with
    | some ch =>
      rw [hf] at h3
      obtain ⟨m', v, hx3, hh, habs⟩ := h3
      exact ⟨m', v, by rw [hx3]; rfl, hh, habs⟩
    | none =>
      rw [hf] at h3
      obtain ⟨y6, hx3⟩ := h3
      rw [hx3]
      simp only [andThen_norm]
      have h4 := uStore_spec c m na tia a s0 pos fin fi kl kind st t0 idx k r cur s ha hec hit hd hk0 hu0 hr hg hut hcur hnum
        (by omega) inl y5 hy5 y6 .undef .undef .undef .undef .undef .undef .undef .undef .undef .undef .undef .undef .undef .undef
        .undef .undef .undef .undef .undef .undef
      cases hsv : storeValue fi kind fin s with
      | error e =>
        rw [hsv] at h4
        obtain ⟨m', v, hx4, hh, habs⟩ := h4
        exact ⟨m', v, by rw [hx4]; rfl, hh, habs⟩
      | ok fv =>
        rw [hsv] at h4
        obtain ⟨mm, hx4, hat⟩ := h4
        exact ⟨mm, by rw [hx4, hinl]; rfl, hat⟩

end GoCrypt.CIR
