import GoCrypt.Proofs.SIREncDefs

/-!
# Stream IR, decoder side: the external scripted reader is the model's scripted reader

`readerOf st` is the external object of the stream IR that behaves as the script of the model state
`st`; one `Read` on it is `DecSt.rawRead`. Helper lemmas only; the property theorems are in
`Props/SIRDecoder.lean`.
-/

namespace GoCrypt.SIR
open GoCrypt.B64IR (Buf Heap Slice Res sliceBytes writeList)
open GoCrypt.Base64LE GoCrypt.Stream GoCrypt.Gen.base64leStream

/-- The external reader that answers as the script of the model state `st`. -/
def readerOf (st : DecSt) : Ext :=
  .reader (st.script.map fun r => ⟨r.data, r.err⟩) st.sticky st.reads

theorem pending_readerOf (st : DecSt) : (readerOf st).pending = st.pending := by
  simp only [readerOf, Ext.pending, DecSt.pending, List.map_map]
  rfl

theorem pendingAll_single (st : DecSt) : pendingAll [readerOf st] = st.pending := by
  simp [pendingAll, pending_readerOf]

theorem list_sum_set_le (l : List Nat) (k x y : Nat) (hk : l[k]? = some x) :
    (l.set k y).sum + x = l.sum + y := by
  induction l generalizing k with
  | nil => simp at hk
  | cons a rest ih =>
    cases k with
    | zero =>
      simp only [List.getElem?_cons_zero, Option.some.injEq] at hk
      subst hk
      simp only [List.set_cons_zero, List.sum_cons]; omega
    | succ k =>
      simp only [List.getElem?_cons_succ] at hk
      have := ih k hk
      simp only [List.set_cons_succ, List.sum_cons]; omega

/-- Replacing reader `k` changes the total by the difference of the two readers. -/
theorem pendingAll_set (X : List Ext) (k : Nat) (a b : Ext) (hk : X[k]? = some a) :
    pendingAll (X.set k b) + a.pending = pendingAll X + b.pending := by
  unfold pendingAll
  rw [List.map_set]
  exact list_sum_set_le _ k _ _ (by simp [hk])

theorem pendingAll_ge (X : List Ext) (k : Nat) (a : Ext) (hk : X[k]? = some a) : a.pending ≤ pendingAll X := by
  have := pendingAll_set X k a (.writer [] []) hk
  have h0 : (Ext.writer [] []).pending = 0 := rfl
  omega

/-- A read that returns data or uses up an entry makes the script smaller. -/
theorem rawRead_pending_lt (st : DecSt) (want : Nat) (h : st.script ≠ []) (hw : 0 < want) :
    (st.rawRead want).1.pending < st.pending := by
  unfold DecSt.rawRead
  cases hs : st.script with
  | nil => exact absurd hs h
  | cons r rest =>
    simp only
    split
    · simp [DecSt.pending, hs]
    · simp only [DecSt.pending, hs, List.map_cons, List.sum_cons, List.length_drop]
      omega

theorem rawRead_pending_le (st : DecSt) (want : Nat) : (st.rawRead want).1.pending ≤ st.pending := by
  unfold DecSt.rawRead
  cases hs : st.script with
  | nil => simp [DecSt.pending, hs]
  | cons r rest =>
    simp only
    split
    · simp [DecSt.pending, hs]
    · simp only [DecSt.pending, hs, List.map_cons, List.sum_cons, List.length_drop]
      omega

/-- A read that delivers at least one byte makes the script smaller. -/
theorem rawRead_pending_lt_of_data (st : DecSt) (want : Nat) (h : 0 < (st.rawRead want).2.1.length) :
    (st.rawRead want).1.pending < st.pending := by
  unfold DecSt.rawRead at h ⊢
  cases hs : st.script with
  | nil => simp [hs] at h
  | cons r rest =>
    simp only [hs] at h ⊢
    split
    · simp [DecSt.pending, hs]
    · rename_i hlt
      rw [if_neg hlt] at h
      simp only [List.length_take] at h
      simp only [DecSt.pending, hs, List.map_cons, List.sum_cons, List.length_drop]
      omega

theorem rawRead_length_le (st : DecSt) (want : Nat) : (st.rawRead want).2.1.length ≤ want := by
  unfold DecSt.rawRead
  cases hs : st.script with
  | nil => simp
  | cons r rest =>
    simp only
    split
    · assumption
    · simp only [List.length_take]; omega

/-- One `Read` on the external reader of `st` is `st.rawRead`: the data lands at the start of the window. -/
theorem extRead_rawRead (H : Heap) (O : List Obj) (X : List Ext) (k : Nat) (st : DecSt) (s : Slice) (B : Buf)
    (hk : X[k]? = some (readerOf st)) (hb : H[s.buf]? = some B) (hin : s.off + s.len ≤ B.size) :
    extCall ⟨H, O, X⟩ k "Read" [.slice s] =
      .ok (⟨H.set s.buf (writeList B s.off (st.rawRead s.len).2.1), O, X.set k (readerOf (st.rawRead s.len).1)⟩,
        [.int (st.rawRead s.len).2.1.length, .err (st.rawRead s.len).2.2]) := by
  unfold extCall
  simp only [hk, readerOf]
  unfold DecSt.rawRead
  cases hs : st.script with
  | nil =>
    simp [writeList, B64IR.heap_set_self H s.buf B hb]
  | cons r rest =>
    simp only [List.map_cons, ne_eq, not_true_eq_false, if_false]
    by_cases hle : r.data.length ≤ s.len
    · simp only [hle, if_true, writeSlice, hb]
      rw [if_pos (by omega)]
    · simp only [hle, if_false, writeSlice, hb, List.length_take]
      rw [if_pos (by omega)]
      simp only [List.map_cons, Nat.min_eq_left (by omega : s.len ≤ r.data.length)]

end GoCrypt.SIR
