import GoCrypt.Proofs.TIIRCacheTop

/-!
# Type-info IR with cache state: one call of the regenerated `getTypeInfo` = `TypeCache.getTypeInfo`

`call_gen`: from a cache state and heap that represent the model cache `c`, the regenerated `getTypeInfo`
on `*…*T` does what the model `TypeCache.getTypeInfo (typeInfoOf structs) c ⟨T, depth⟩` does (`CallPost`).
Helper lemmas only; the results are stated in `Props/TypeCacheIR.lean`.
-/

namespace GoCrypt.TIIR.Cache
open GoCrypt.Codec GoCrypt.Gen.typeinfoIR GoCrypt.TIIR

/-- `normalize` called inside the program, with the heap of the error path (`NormF.NormPostF`); `B` as in
`Top.NormCalls`. -/
def NormCallsF (B : Prop) (w : World) : Prop :=
  ∀ (d : Nat) (h : Heap) (t : Nat) (st root : RType) (addrs : List Nat) (raw : List FieldInfo),
    h[t]? = some (tiObj (.rtype st) root .nil addrs 0) → Reps h addrs raw → TagsOk w.structs root raw →
    raw.length < w.fuel → (∀ fi ∈ raw, fi.index.length < w.fuel) →
    (B ∧ (callIn program w (d + 2) 1 h [.ptr t]).isStuck) ∨
      NormF.NormPostF h t (.rtype st) root raw (callIn program w (d + 2) 1 h [.ptr t])

theorem normCallsF_true (w : World) : NormCallsF True w := by
  intro d h t st root addrs raw h1 h2 h3 h4 h5
  rw [callIn_succ program w (d + 1) 1 h _ normalizeIR (by rfl)]
  have hcf : Norm.CallsFieldG True
      { structs := w.structs, fuel := w.fuel, sort := w.sort, call := callIn program w (d + 1) } :=
    fun h t s hp r n a f p g1 g2 g3 g4 g5 =>
      (Top.callsField_callIn Field.field_spec w d h t s hp r n a f p g1 g2 g3 g4 g5).imp (fun hs => ⟨trivial, hs⟩) id
  exact NormF.norm_spec_genF True _ h t st root addrs raw hcf h1 h2 h3 h4 h5

theorem normCallsF_false (w : World) (hgood : Field.GoodSort w.sort) : NormCallsF False w := by
  intro d h t st root addrs raw h1 h2 h3 h4 h5
  rw [callIn_succ program w (d + 1) 1 h _ normalizeIR (by rfl)]
  exact NormF.norm_spec_genF False _ h t st root addrs raw (Exact.callsFieldG_false w hgood d) h1 h2 h3 h4 h5

/-- What one call of the regenerated `getTypeInfo` on `*…*T` (`T` the struct named `n`, `d` stars) must look
like from cache state `K` and heap `h` representing the model cache `c`, given what the MODEL
`TypeCache.getTypeInfo (typeInfoOf structs) c ⟨n, d⟩` answers:

* the run ends normally; the old heap is a prefix of the new one (`h ++ ext`: no old record was modified);
* the new cache state over the new heap represents the model's new cache;
* model `ok res`: the returned pointer is the LAST record allocated (`ext = ext0 ++ [o]`), and the cache is already
  represented over the heap WITHOUT it (so the returned address is none of the cached ones, and nothing in
  the cache refers to it); the record has `Struct` = the argument type, `Type` = `T`, and represents `res.info`;
  the cache state is unchanged or got one entry under the key `T n` — the DEREFERENCED type — whose footprint
  (record, `HashPrefix`, `Fields`) consists of addresses allocated by this call;
* model `error e`: cache state unchanged, `nil` and an error value that denotes `e` are returned. -/
def CallPost (T : String → RType) (structs : List GoStruct) (h : Heap) (K : CacheSt) (c : TypeCache.Cache)
    (n : String) (d : Nat) (r : Res (CacheSt × Heap × List Val)) : Prop :=
  ∃ K' ext vals, r = .ok (K', h ++ ext, vals) ∧
    CacheRep T (h ++ ext) K' (TypeCache.getTypeInfo (typeInfoOf structs) c ⟨n, d⟩).1 ∧
    match (TypeCache.getTypeInfo (typeInfoOf structs) c ⟨n, d⟩).2 with
    | .ok res => ∃ ext0 o, ext = ext0 ++ [o] ∧ vals = [.ptr (h ++ ext0).length, .nil] ∧
        CacheRep T (h ++ ext0) K' (TypeCache.getTypeInfo (typeInfoOf structs) c ⟨n, d⟩).1 ∧
        ResultRep (h ++ ext0) o (argType T n d) (T n) res.info ∧ res.reportedStruct = ⟨n, d⟩ ∧
        (K' = K ∨ ∃ a, h.length ≤ a ∧ K' = K ++ [(T n, a)] ∧ ∀ x ∈ TiFoot (h ++ ext0) a, h.length ≤ x)
    | .error e => K' = K ∧ ∃ v, vals = [.nil, v] ∧ absErr (h ++ ext) v = some e

theorem liftRes_ok (k : CacheSt) (h : Heap) (vs : List Val) : liftRes k (.ok (h, vs)) = .ok (k, h, vs) := rfl

theorem tiObj_set0 (st : Val) (typ : RType) (hp : Val) (addrs : List Nat) (n : Int) (v : Val) :
    (tiObj st typ hp addrs n).set 0 v = tiObj v typ hp addrs n := rfl

theorem call_gen (B : Prop) (hrawS : RawSpec) (w : World) (hnormC : NormCallsF B w)
    (T : String → RType) (hT : KeyFn T) (depth : Nat) (h : Heap) (K : CacheSt) (c : TypeCache.Cache)
    (n : String) (d : Nat) (s : GoStruct) (hrep : CacheRep T h K c)
    (hl : Codec.lookupStruct w.structs n = some s)
    (hfit : fitsFuel w.structs 8 s = true) (hemb : Top.EmbedPtrOk w.structs)
    (hdepth : 18 < depth) (ht : d < w.fuel) (h8 : 8 < w.fuel)
    (hsz : ∀ s' ∈ w.structs, s'.fields.length < w.fuel ∧ ∀ f ∈ s'.fields, f.ptrDepth < w.fuel ∧ f.tag.length < w.fuel)
    (hlen : (rawFields w.structs 8 s).length < w.fuel) :
    (B ∧ (callInC program w depth 4 K h [.rtype (argType T n d)]).isStuck) ∨
      CallPost T w.structs h K c n d (callInC program w depth 4 K h [.rtype (argType T n d)]) := by
  obtain ⟨d', rfl⟩ : ∃ d', depth = d' + 3 := ⟨depth - 3, by omega⟩
  rw [callInC_succ program w (d' + 2) 4 K h _ getTypeInfoIR (by rfl)]
  let t : RType := argType T n d
  let typ : RType := T n
  let cc : CtxC := { structs := w.structs, fuel := w.fuel, sort := w.sort, call := callInC program w (d' + 2) }
  have htd : t.depth < w.fuel := ht
  have h3 : cc.call 3 K h [.rtype t] = .ok (K, h, [.rtype typ]) := by
    show callInC program w (d' + 2) 3 K h [.rtype t] = _
    have hi : callIn program w (d' + 2) 3 h [.rtype t] = .ok (h, [.rtype { t with depth := 0 }]) :=
      indirectSpec_callIn w (d' + 1) h t htd
    rw [callInC_pure w (d' + 2) 3 (by omega), hi, liftRes_ok]
    show Res.ok (K, h, [Val.rtype { argType T n d with depth := 0 }]) = _
    rw [argType_indirect hT n d]
  have hfind := CacheRep_find hT n hrep
  cases hload : c.load n with
  | some ti =>
    right
    rw [hload] at hfind
    obtain ⟨a0, hf, st, hp, addrs, ha0, hro, hre⟩ := hfind
    have hmodel : TypeCache.getTypeInfo (typeInfoOf w.structs) c ⟨n, d⟩ = (c, .ok ⟨ti, ⟨n, d⟩⟩) := by
      simp [TypeCache.getTypeInfo, hload]
    rw [body_hit cc K h t typ h3 a0 _ hf ha0 (by simp [tiObj]), tiObj_set0]
    unfold CallPost
    rw [hmodel]
    refine ⟨K, [tiObj (.rtype t) typ hp addrs ti.numReqValues], [.ptr h.length, .nil], rfl, CacheRep_append _ hrep, ?_⟩
    refine ⟨[], _, rfl, by simp, ?_, ⟨hp, addrs, rfl, ?_, ?_⟩, rfl, Or.inl rfl⟩
    · simpa using hrep
    · simpa using hro
    · simpa using hre
  | none =>
    rw [hload] at hfind
    have hf : K.find typ = none := hfind
    let raw := rawFields w.structs 8 s
    have hcompute : typeInfoOf w.structs n = normalizeLoop raw raw {} [] := by
      simp only [typeInfoOf, hl, raw]
    -- getRawTypeInfo
    obtain ⟨ext, a, addrs, hr, ha, hage, hreps, _, hfresh⟩ :=
      hrawS w 8 (d' + 2) h typ n s (hT n).1 (hT n).2 hl hfit (by omega) hsz hlen
    have hraw : cc.call 2 K h [.rtype typ] = .ok (K, h ++ ext, [.ptr a]) := by
      show callInC program w (d' + 2) 2 K h [.rtype typ] = _
      rw [callInC_pure w (d' + 2) 2 (by omega), hr, liftRes_ok]
    -- normalize
    let h1 := (h ++ ext).set a (tiObj (.rtype t) typ .nil addrs 0)
    have halt : a < (h ++ ext).length := Norm.lt_of_get ha
    have ha1 : h1[a]? = some (tiObj (.rtype t) typ .nil addrs 0) := by
      simp only [h1]; rw [List.getElem?_set_self halt]
    have hreps1 : Reps h1 addrs raw := Top.Reps_set_ti _ ha hreps
    have htags : TagsOk w.structs typ raw := Top.tagsOk_rawFields hemb 8 typ n s (hT n).1 (hT n).2 hl
    have hidx : ∀ fi ∈ raw, fi.index.length < w.fuel := fun fi hfi => by
      have := (Top.rawFields_index_ne_nil hfi).2; omega
    have hn := hnormC d' h1 a t typ addrs raw ha1 hreps1 htags hlen hidx
    have hcall1 : cc.call 1 K h1 [.ptr a] = liftRes K (callIn program w (d' + 2) 1 h1 [.ptr a]) := by
      show callInC program w (d' + 2) 1 K h1 [.ptr a] = _
      rw [callInC_pure w (d' + 2) 1 (by omega)]
    have hext : ∀ o', h1.set a o' = h ++ ext.set (a - h.length) o' := by
      intro o'
      simp only [h1, List.set_set]
      exact List.set_append_right a o' hage
    rcases hn with ⟨hB, hst⟩ | hpost
    · left
      refine ⟨hB, ?_⟩
      cases hres : callIn program w (d' + 2) 1 h1 [.ptr a] with
      | stuck why =>
        rw [hres] at hcall1
        rw [body_miss_stuck cc K h t typ h3 (h ++ ext) a addrs hf hraw ha why hcall1]; trivial
      | ok x => rw [hres] at hst; exact hst.elim
      | panic => rw [hres] at hst; exact hst.elim
    · right
      unfold NormF.NormPostF at hpost
      unfold CallPost
      cases hm : normalizeLoop raw raw {} [] with
      | ok out =>
        rw [hm] at hpost
        simp only at hpost
        obtain ⟨hp, outAddrs, hres, hrep1, hrepsOut, hsubO, hhpO⟩ := hpost
        rw [hres, liftRes_ok] at hcall1
        have hmodel : TypeCache.getTypeInfo (typeInfoOf w.structs) c ⟨n, d⟩ = (c ++ [(n, out)], .ok ⟨out, ⟨n, d⟩⟩) := by
          simp [TypeCache.getTypeInfo, hload, hcompute, hm, TypeCache.Cache.loadOrStore]
        rw [hmodel]
        let o := tiObj (.rtype t) typ hp outAddrs out.numReqValues
        let h2 := h1.set a o
        have hget : h2[a]? = some o := by
          simp only [h2]
          rw [List.getElem?_set_self (by simp only [h1, List.length_set]; exact halt)]
        rw [body_miss_ok cc K h t typ h3 (h ++ ext) a addrs hf hraw ha h2 o hcall1 hget (by simp [o, tiObj]), tiObj_set0]
        have hmono : ∀ (x : Nat) (fi : FieldInfo), h1[x]? = some (fiObj fi) → h2[x]? = some (fiObj fi) := by
          intro x fi hx
          have hne : a ≠ x := by
            intro e; subst e; rw [ha1] at hx
            exact Top.fiObj_ne_tiObj fi _ _ _ _ _ (Option.some.inj hx).symm
          simp only [h2]
          rw [List.getElem?_set_ne hne]
          exact hx
        have hro2 : RepOpt h2 hp out.hashPrefix := Top.RepOpt_mono hmono hrep1
        have hre2 : Reps h2 outAddrs out.fields := by
          refine Top.Reps_mono (fun x hx => ?_) hrepsOut
          obtain ⟨fi, _, hfx⟩ := Top.Reps_mem hrepsOut x hx
          rw [hmono x fi hfx, hfx]
        have hK2 : CacheRep T h2 (K ++ [(typ, a)]) (c ++ [(n, out)]) := by
          refine CacheRep_snoc ⟨_, hp, outAddrs, hget, hro2, hre2⟩ ?_
          simp only [h2, hext o]
          exact CacheRep_append _ hrep
        have h2e : h2 = h ++ ext.set (a - h.length) o := hext o
        refine ⟨K ++ [(typ, a)], ext.set (a - h.length) o ++ [o], [.ptr h2.length, .nil], ?_, ?_, ?_⟩
        · rw [h2e, List.append_assoc]
        · rw [← List.append_assoc, ← h2e]
          exact CacheRep_append _ hK2
        · refine ⟨ext.set (a - h.length) o, o, rfl, by rw [← h2e], ?_, ⟨hp, outAddrs, rfl, ?_, ?_⟩, rfl,
            Or.inr ⟨a, hage, rfl, ?_⟩⟩
          · rw [← h2e]; exact hK2
          · rw [← h2e]; exact hro2
          · rw [← h2e]; exact hre2
          · rw [← h2e, TiFoot_of_get hget]
            have haddrs : ∀ st' addrs0 n0, h1[a]? = some (tiObj st' typ .nil addrs0 n0) → addrs0 = addrs := by
              intro st' addrs0 n0 he
              rw [ha1] at he
              simp only [tiObj, Option.some.injEq, List.cons.injEq, Val.ptrs.injEq] at he
              exact he.2.2.2.1.symm
            intro x hx
            simp only [List.mem_cons, List.mem_append] at hx
            rcases hx with rfl | hx | hx
            · exact hage
            · rcases hhpO with rfl | ⟨y, st', addrs0, n0, he, hy, rfl⟩
              · simp [hpAddrs] at hx
              · simp only [hpAddrs, List.mem_singleton] at hx
                subst hx
                rw [haddrs st' addrs0 n0 he] at hy
                exact (hfresh x hy).1
            · obtain ⟨st', addrs0, n0, he, hy⟩ := hsubO x hx
              rw [haddrs st' addrs0 n0 he] at hy
              exact (hfresh x hy).1
      | error e =>
        rw [hm] at hpost
        simp only at hpost
        obtain ⟨o', ext2, v, hres, herr⟩ := hpost
        rw [hres, liftRes_ok] at hcall1
        have hmodel : TypeCache.getTypeInfo (typeInfoOf w.structs) c ⟨n, d⟩ = (c, .error e) := by
          simp [TypeCache.getTypeInfo, hload, hcompute, hm]
        rw [hmodel]
        rw [body_miss_err cc K h t typ h3 (h ++ ext) a addrs hf hraw ha _ v hcall1 (Top.isNilVal_of_absErr herr)]
        have he : h1.set a o' ++ ext2 = h ++ (ext.set (a - h.length) o' ++ ext2) := by
          rw [hext o', List.append_assoc]
        refine ⟨K, ext.set (a - h.length) o' ++ ext2, [.nil, v], by rw [he], ?_, rfl, v, rfl, ?_⟩
        · exact CacheRep_append _ hrep
        · rw [← he]; exact herr

end GoCrypt.TIIR.Cache
