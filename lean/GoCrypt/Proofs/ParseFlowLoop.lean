import GoCrypt.Proofs.ParseFlowInv

/-!
# `Parse`: every iteration preserves the representation invariant; the loop; the whole function
-/

namespace GoCrypt.SFlowVal2
open GoCrypt GoCrypt.Flow GoCrypt.SFlow GoCrypt.SFlow2 GoCrypt.SFlowVal GoCrypt.Parse

abbrev ploop (fuel : Nat) := loopOf (pp4 fuel) fuel "L1" none [] parseBody

theorem treeObj_ty (pv fv : Val PVal) : (treeObj pv fv).1 = "Tree" := rfl
theorem groupObj_ty (sl : Val PVal) : (groupObj sl).1 = "GroupNode" := rfl
theorem lexObj_ty (s : Bytes) (a b : Int) (c : Nat) : (lexObj s a b c).1 = "lexer" := rfl

/-! ## Value token -/

theorem step_value (fuel n : Nat) (H : List Obj) (s : Bytes) (r : List GoToken) (gv vv : Val PVal) (m : PState)
    (p : Nat) (v : Bytes) (h : Rel H s gv vv m) :
    ∃ H' vv', ploop fuel (n + 1) (penv s gv vv) (PS H (goTok (.value p v) :: r)) = ploop fuel n (penv s gv vv') (PS H' r) ∧
      Rel H' s gv vv' { m with value := some ⟨v, p, p + v.length⟩ } := by
  obtain ⟨pos, start, hlex⟩ := h.lex
  refine ⟨_, _, iter_value fuel n H s pos start r gv vv p v hlex, ?_⟩
  refine ⟨h.lex.alloc _, h.tree.alloc _, h.group.alloc _, Or.inr ⟨H.length, _, rfl, ?_, rfl⟩⟩
  have e1 : ((p : Int) + (v.length : Int)).toNat = p + v.length := by omega
  have e2 : (0 : Int) ≤ (p : Int) + (v.length : Int) := by omega
  simp [rdValue, valueOfObj, e1, e2]

/-! ## Prefix token -/

theorem step_prefix (fuel n : Nat) (H : List Obj) (s : Bytes) (r : List GoToken) (gv vv : Val PVal) (m : PState)
    (p : Nat) (v : Bytes) (h : Rel H s gv vv m) :
    ∃ H', ploop fuel (n + 1) (penv s gv vv) (PS H (goTok (.pfx p v) :: r)) = ploop fuel n (penv s gv vv) (PS H' r) ∧
      Rel H' s gv vv { m with pfx := some v } := by
  obtain ⟨pos, start, hlex⟩ := h.lex
  obtain ⟨pv, fv, fs, h0, hfv, hp, hf, hs⟩ := h.tree
  let pobj : Obj := ("PrefixNode", [("Text", .str v), ("end", .int (v.length : Int))])
  have h0' : lget (H ++ [pobj]) 0 = some (treeObj pv fv) := lget_append_left H 0 _ pobj h0
  obtain ⟨H2, hset⟩ := lset_some (H ++ [pobj]) 0 _ (treeObj (.ext (.ptr H.length)) fv) h0'
  have U : Upd (H ++ [pobj]) H2 0 := ⟨_, _, h0', hset, rfl, by simp [treeObj], by simp [treeObj]⟩
  refine ⟨H2, iter_prefix fuel n H H2 s pos start r gv vv pv fv p v hlex h0 hset, ?_⟩
  have hf1 := rdFrags_append H pobj fs m.frags hf
  refine ⟨(h.lex.alloc pobj).upd U (by decide), ?_, ?_, (h.value.alloc pobj).upd U⟩
  · refine ⟨_, fv, fs, Upd.lget_eq _ hset, hfv, ?_, ?_, hs⟩
    · rw [U.rdPrefix, rdPrefix_ptr]
      simp [pobj, prefixOfObj]
    · rw [U.rdFrags fs (rdFrags_not_mem _ fs _ 0 hf1 (rdFrag_tree _ 0 pv fv h0'))]
      exact hf1
  · apply (h.group.alloc pobj).upd U
    intro e
    rcases h.group with ⟨e', _⟩ | ⟨g, xs, vs, e', hg, _, _⟩
    · rw [e'] at e; cases e
    · rw [e'] at e
      cases e
      exact addr_ne H 0 0 _ _ hg h0 (by simp [groupObj, treeObj]) rfl

/-! ## Comma token (with a pending value: the only case the model does not flag `nilInGroup`) -/

theorem step_comma (fuel n : Nat) (H : List Obj) (s : Bytes) (r : List GoToken) (gv vv : Val PVal) (m : PState)
    (p : Nat) (v : VNode) (hmv : m.value = some v) (h : Rel H s gv vv m) :
    ∃ H' gv', ploop fuel (n + 1) (penv s gv vv) (PS H (goTok (.comma p) :: r)) = ploop fuel n (penv s gv' .nil) (PS H' r) ∧
      Rel H' s gv' .nil { m with group := some (m.group.getD [] ++ [v]), value := none } := by
  obtain ⟨pos, start, hlex⟩ := h.lex
  rcases h.value with ⟨_, hn⟩ | ⟨a, v', rfl, hva, hv'⟩
  · rw [hmv] at hn; cases hn
  · rw [hmv] at hv'; cases hv'
    rcases h.group with ⟨rfl, hmg⟩ | ⟨g, xs, vs, rfl, hg, hvs, hmg⟩
    · -- no pending group: a new one
      let gobj : Obj := groupObj (.ext (.slice [some a]))
      refine ⟨_, _, iter_comma_new fuel n H s pos start r a p hlex, ?_⟩
      obtain ⟨pv, fv, fs, h0, hfv, hp, hf, _⟩ := h.tree
      refine ⟨h.lex.alloc gobj, ?_, ?_, Or.inl ⟨rfl, rfl⟩⟩
      · refine ⟨pv, fv, fs, lget_append_left H 0 _ gobj h0, hfv, rdPrefix_append H gobj pv _ hp,
          rdFrags_append H gobj fs _ hf, ?_⟩
        intro g e
        cases e
        intro hm
        exact Nat.lt_irrefl _ (rdFrags_lt H fs _ _ hf hm)
      · refine Or.inr ⟨H.length, [some a], [v], rfl, lget_append_length H gobj, ?_, ?_⟩
        · have := rdValue_append H (groupObj (.ext (.slice [some a]))) a v hva
          simp [rdValues, allSome, this]
        · simp [hmg]
    · -- a pending group: the value joins it
      obtain ⟨H2, hset⟩ := lset_some H g _ (groupObj (.ext (.slice (xs ++ [some a])))) hg
      have U : Upd H H2 g := ⟨_, _, hg, hset, rfl, by simp [groupObj], by simp [groupObj]⟩
      refine ⟨H2, _, iter_comma_old fuel n H H2 s pos start r g a xs p hlex hg hset, ?_⟩
      obtain ⟨pv, fv, fs, h0, hfv, hp, hf, hs⟩ := h.tree
      have hg0 : g ≠ 0 := addr_ne H g 0 _ _ hg h0 (by simp [groupObj, treeObj])
      have hg1 : g ≠ 1 := addr_ne H g 1 _ _ hg hlex (by simp [groupObj, lexObj])
      refine ⟨h.lex.upd U hg1, h.tree.upd U hg0 rfl, ?_, Or.inl ⟨rfl, rfl⟩⟩
      refine Or.inr ⟨g, xs ++ [some a], vs ++ [v], rfl, Upd.lget_eq _ hset, ?_, ?_⟩
      · rw [U.rdValues]
        exact allSome_append _ xs a vs v hvs hva
      · simp [hmg]

/-! ## `$` and EOF tokens: the flush -/

theorem step_flush (fuel n : Nat) (H : List Obj) (s : Bytes) (r : List GoToken) (gv vv : Val PVal) (m : PState)
    (ty p : Int) (txt : Bytes) (hty : ty = 2 ∨ ty = 5) (h : Rel H s gv vv m) :
    ∃ H', ploop fuel (n + 1) (penv s gv vv) (PS H (⟨ty, p, txt⟩ :: r)) = afterFlush fuel n ty s H' r ∧
      Rel H' s .nil .nil m.flush := by
  obtain ⟨pos, start, hlex⟩ := h.lex
  obtain ⟨pv, fv, fs, h0, hfv, hp, hf, hs⟩ := h.tree
  have hnil : ∀ g : Nat, (Val.nil : Val PVal) = .ext (.ptr g) → some g ∉ fs ++ [some g] := fun _ e => by cases e
  rcases h.value with ⟨rfl, hmv⟩ | ⟨a, v, rfl, hva, hmv⟩
  · rcases h.group with ⟨rfl, hmg⟩ | ⟨g, xs, vs, rfl, hg, hvs, hmg⟩
    · -- nothing pending
      refine ⟨H, iter_flush_none fuel n H s pos start r ty p txt hty hlex, ?_⟩
      have : m.flush = m := by simp [PState.flush, hmv, hmg]
      rw [this]; exact h
    · -- a pending group only
      have hg0 : g ≠ 0 := addr_ne H g 0 _ _ hg h0 (by simp [groupObj, treeObj])
      obtain ⟨H2, hset⟩ := lset_some H 0 _ (treeObj pv (.ext (.slice (fs ++ [some g])))) h0
      have U : Upd H H2 0 := ⟨_, _, h0, hset, rfl, by simp [treeObj], by simp [treeObj]⟩
      refine ⟨H2, iter_flush_g fuel n H H2 s pos start r pv fv g fs ty p txt hty hlex h0 hfv hset, ?_⟩
      have hfl : m.flush = { m with frags := m.frags ++ [Frag.group vs], group := none } := by
        simp [PState.flush, hmv, hmg]
      rw [hfl]
      refine ⟨h.lex.upd U (by decide), ?_, Or.inl ⟨rfl, rfl⟩, Or.inl ⟨rfl, hmv⟩⟩
      refine ⟨pv, _, fs ++ [some g], Upd.lget_eq _ hset, Or.inr rfl, by rw [U.rdPrefix]; exact hp, ?_, fun _ e => by cases e⟩
      have h0n : some 0 ∉ fs ++ [some g] := by
        intro hm
        rcases List.mem_append.1 hm with hm | hm
        · exact rdFrags_not_mem H fs _ 0 hf (rdFrag_tree H 0 pv fv h0) hm
        · simp at hm; exact hg0 hm.symm
      rw [U.rdFrags _ h0n]
      refine allSome_append _ fs g _ _ hf ?_
      rw [rdFrag_group H g _ hg]
      simp [sliceOf, hvs]
  · rcases h.group with ⟨rfl, hmg⟩ | ⟨g, xs, vs, rfl, hg, hvs, hmg⟩
    · -- a pending value only
      obtain ⟨H2, hset⟩ := lset_some H 0 _ (treeObj pv (.ext (.slice (fs ++ [some a])))) h0
      have U : Upd H H2 0 := ⟨_, _, h0, hset, rfl, by simp [treeObj], by simp [treeObj]⟩
      refine ⟨H2, iter_flush_v fuel n H H2 s pos start r pv fv a fs ty p txt hty hlex h0 hfv hset, ?_⟩
      have hfl : m.flush = { m with frags := m.frags ++ [Frag.value v], value := none } := by
        simp [PState.flush, hmv, hmg]
      rw [hfl]
      refine ⟨h.lex.upd U (by decide), ?_, Or.inl ⟨rfl, hmg⟩, Or.inl ⟨rfl, rfl⟩⟩
      refine ⟨pv, _, fs ++ [some a], Upd.lget_eq _ hset, Or.inr rfl, by rw [U.rdPrefix]; exact hp, ?_, fun _ e => by cases e⟩
      have hfa := rdFrag_value H a v hva
      have ha0 : a ≠ 0 := by
        intro e; subst e
        rw [rdFrag_tree H 0 pv fv h0] at hfa; cases hfa
      have h0n : some 0 ∉ fs ++ [some a] := by
        intro hm
        rcases List.mem_append.1 hm with hm | hm
        · exact rdFrags_not_mem H fs _ 0 hf (rdFrag_tree H 0 pv fv h0) hm
        · simp at hm; exact ha0 hm.symm
      rw [U.rdFrags _ h0n]
      exact allSome_append _ fs a _ _ hf hfa
    · -- a pending value and a pending group
      have hg0 : g ≠ 0 := addr_ne H g 0 _ _ hg h0 (by simp [groupObj, treeObj])
      have hg1 : g ≠ 1 := addr_ne H g 1 _ _ hg hlex (by simp [groupObj, lexObj])
      obtain ⟨H1, hset1⟩ := lset_some H g _ (groupObj (.ext (.slice (xs ++ [some a])))) hg
      have U1 : Upd H H1 g := ⟨_, _, hg, hset1, rfl, by simp [groupObj], by simp [groupObj]⟩
      have h01 : lget H1 0 = some (treeObj pv fv) := by rw [U1.lget_ne 0 (fun e => hg0 e.symm)]; exact h0
      obtain ⟨H2, hset2⟩ := lset_some H1 0 _ (treeObj pv (.ext (.slice (fs ++ [some g])))) h01
      have U2 : Upd H1 H2 0 := ⟨_, _, h01, hset2, rfl, by simp [treeObj], by simp [treeObj]⟩
      refine ⟨H2, iter_flush_vg fuel n H H1 H2 s pos start r pv fv g a xs fs ty p txt hty hlex hg hset1 h01 hfv hset2, ?_⟩
      have hfl : m.flush = { m with frags := m.frags ++ [Frag.group (vs ++ [v])], group := none, value := none } := by
        simp [PState.flush, hmv, hmg]
      rw [hfl]
      refine ⟨(h.lex.upd U1 hg1).upd U2 (by decide), ?_, Or.inl ⟨rfl, rfl⟩, Or.inl ⟨rfl, rfl⟩⟩
      refine ⟨pv, _, fs ++ [some g], Upd.lget_eq _ hset2, Or.inr rfl, ?_, ?_, fun _ e => by cases e⟩
      · rw [U2.rdPrefix, U1.rdPrefix]; exact hp
      · have hf1 : rdFrags H1 fs = some m.frags := by rw [U1.rdFrags fs (hs g rfl)]; exact hf
        have h0n : some 0 ∉ fs ++ [some g] := by
          intro hm
          rcases List.mem_append.1 hm with hm | hm
          · exact rdFrags_not_mem H fs _ 0 hf (rdFrag_tree H 0 pv fv h0) hm
          · simp at hm; exact hg0 hm.symm
        rw [U2.rdFrags _ h0n]
        refine allSome_append _ fs g _ _ hf1 ?_
        rw [rdFrag_group H1 g _ (Upd.lget_eq _ hset1)]
        have : rdValues H1 (xs ++ [some a]) = some (vs ++ [v]) := by
          rw [U1.rdValues]
          exact allSome_append _ xs a vs v hvs hva
        simp [sliceOf, this]

/-! ## The loop -/

/-- Error tokens carry one of the two messages the lexer has. -/
def Good (ts : List Tok) : Prop := ∀ t ∈ ts, ∀ p c, t = .error p c → c = 1 ∨ c = 2

/-- How the outcome of the loop reads as the model's result; `rem` are the tokens left unreceived. -/
def LoopReads (s : Bytes) (out : Flow2 PSt PVal) (res : Result) (rem : List Tok) : Prop :=
  match res with
  | .ok t => ∃ H gv vv, out = .next (penv s gv vv) (PS H (rem.map goTok)) ∧ rdTree H 0 = some t
  | .err o c => ∃ H e, out = .ret [.nil, .ext (.ptr e)] (PS H (rem.map goTok)) ∧ rdError H e = some (.err o c)
  | .nilInGroup => False

theorem msgCode_1 : msgCode (ascii "missing prefix identifier") = some 1 := by decide
theorem msgCode_2 : msgCode (ascii "missing prefix end") = some 2 := by decide

theorem parse_loop (fuel : Nat) (s : Bytes) :
    ∀ (ts : List Tok) (m : PState) (H : List Obj) (gv vv : Val PVal) (N : Nat),
      Good ts → Rel H s gv vv m → parseToks m ts ≠ .nilInGroup → ts.length + 1 ≤ N →
      LoopReads s (ploop fuel N (penv s gv vv) (PS H (ts.map goTok))) (parseToks m ts) (ts.drop (consumed ts)) := by
  intro ts
  induction ts with
  | nil =>
    intro m H gv vv N _ h _ hN
    obtain ⟨n, rfl⟩ : ∃ n, N = n + 1 := ⟨N - 1, by simp at hN; omega⟩
    obtain ⟨pos, start, hlex⟩ := h.lex
    simp only [List.map_nil, parseToks, consumed, List.drop_nil, LoopReads]
    refine ⟨_, _, iter_closed fuel n H s pos start gv vv hlex, ?_⟩
    simp [rdError, msgCode]
  | cons t ts ih =>
    intro m H gv vv N hgood h hne hN
    obtain ⟨n, rfl⟩ : ∃ n, N = n + 1 := ⟨N - 1, by omega⟩
    have hgood' : Good ts := fun t' ht' => hgood t' (by simp [ht'])
    have hn : ts.length + 1 ≤ n := by simp at hN; omega
    cases t with
    | error p c =>
      obtain ⟨pos, start, hlex⟩ := h.lex
      simp only [List.map_cons, parseToks, consumed, Tok.isTerminal, if_true, List.drop_succ_cons, List.drop_zero,
        LoopReads]
      refine ⟨_, _, iter_error fuel n H s pos start (ts.map goTok) gv vv p _ hlex, ?_⟩
      have hp0 : (0 : Int) ≤ (p : Int) := by omega
      rcases hgood (.error p c) (by simp) p c rfl with rfl | rfl
      · simp [rdError, hp0, msgCode_1]
      · simp [rdError, hp0, msgCode_2]
    | pfx p v =>
      obtain ⟨H', hstep, hrel⟩ := step_prefix fuel n H s (ts.map goTok) gv vv m p v h
      have hc : consumed (Tok.pfx p v :: ts) = consumed ts + 1 := by simp [consumed, Tok.isTerminal]; omega
      simp only [List.map_cons, hstep, parseToks, hc, List.drop_succ_cons]
      exact ih _ H' gv vv n hgood' hrel (by simpa [parseToks] using hne) hn
    | dollar p =>
      obtain ⟨H', hstep, hrel⟩ := step_flush fuel n H s (ts.map goTok) gv vv m 2 p [36] (Or.inl rfl) h
      have hc : consumed (Tok.dollar p :: ts) = consumed ts + 1 := by simp [consumed, Tok.isTerminal]; omega
      have hg : goTok (.dollar p) = ⟨2, p, [36]⟩ := rfl
      have haf : afterFlush fuel n 2 s H' (ts.map goTok) = ploop fuel n (penv s .nil .nil) (PS H' (ts.map goTok)) := by
        simp [afterFlush]
      simp only [List.map_cons, hg, hstep, haf, parseToks, hc, List.drop_succ_cons]
      exact ih _ H' .nil .nil n hgood' hrel (by simpa [parseToks] using hne) hn
    | eof p =>
      obtain ⟨H', hstep, hrel⟩ := step_flush fuel n H s (ts.map goTok) gv vv m 5 p [] (Or.inr rfl) h
      have hg : goTok (.eof p) = ⟨5, p, []⟩ := rfl
      have haf : afterFlush fuel n 5 s H' (ts.map goTok) = .next (penv s .nil .nil) (PS H' (ts.map goTok)) := by
        simp [afterFlush]
      simp only [List.map_cons, hg, hstep, haf, parseToks, consumed, Tok.isTerminal, if_true, List.drop_succ_cons,
        List.drop_zero, LoopReads]
      exact ⟨H', .nil, .nil, rfl, rdTree_of_rel hrel⟩
    | comma p =>
      cases hmv : m.value with
      | none => simp [parseToks, hmv] at hne
      | some v =>
        obtain ⟨H', gv', hstep, hrel⟩ := step_comma fuel n H s (ts.map goTok) gv vv m p v hmv h
        have hc : consumed (Tok.comma p :: ts) = consumed ts + 1 := by simp [consumed, Tok.isTerminal]; omega
        have hpt : parseToks m (Tok.comma p :: ts) =
            parseToks { m with group := some (m.group.getD [] ++ [v]), value := none } ts := by
          simp [parseToks, hmv]
        simp only [List.map_cons, hstep, hpt, hc, List.drop_succ_cons]
        exact ih _ H' gv' .nil n hgood' hrel (by rw [← hpt]; exact hne) hn
    | value p v =>
      obtain ⟨H', vv', hstep, hrel⟩ := step_value fuel n H s (ts.map goTok) gv vv m p v h
      have hc : consumed (Tok.value p v :: ts) = consumed ts + 1 := by simp [consumed, Tok.isTerminal]; omega
      simp only [List.map_cons, hstep, parseToks, hc, List.drop_succ_cons]
      exact ih _ H' gv vv' n hgood' hrel (by simpa [parseToks] using hne) hn

/-! ## Facts about the model's token stream -/

theorem lexFrag_length (r : Bytes) (st : Nat) (acc : Bytes) : (lexFrag r st acc).length ≤ 2 * r.length + 2 := by
  induction r generalizing st acc with
  | nil => unfold lexFrag; by_cases h : acc = [] <;> simp [h]
  | cons c cs ih =>
    unfold lexFrag
    split
    · have := ih (st + acc.length + 1) []; simp; omega
    · split
      · have := ih (st + acc.length + 1) []; simp; omega
      · have := ih st (c :: acc); simp; omega

/-- `Parse` receives at most `2 n + 3` tokens for an input of `n` bytes. -/
theorem tokens_length (s : Bytes) : (tokens s).length ≤ 2 * s.length + 3 := by
  unfold tokens
  cases s with
  | nil => have := lexFrag_length [] 0 []; simp at this ⊢; omega
  | cons c rest =>
    by_cases hc : c = Bytes.dollar
    · subst hc
      simp only [if_true]
      cases hi : indexDelim rest with
      | none => simp
      | some i =>
        cases i with
        | zero => simp
        | succ i =>
          have := lexFrag_length ((Bytes.dollar :: rest).drop (i + 3)) (i + 3) []
          simp at this ⊢; omega
    · by_cases hu : c = Bytes.underscore
      · subst hu
        have hne : Bytes.underscore ≠ Bytes.dollar := by decide
        have := lexFrag_length rest 1 []
        simp [hne]; omega
      · simp only [hc, hu, if_false]
        have := lexFrag_length (c :: rest) 0 []
        simp at this ⊢; omega

/-- `Parse` stops on the last token the lexer sends (as `C11.lexer_never_blocked`). -/
theorem tokens_consumed (s : Bytes) : consumed (tokens s) = (tokens s).length := by
  unfold tokens
  cases s with
  | nil => exact lexFrag_consumed _ _ _
  | cons c rest =>
    by_cases hc : c = Bytes.dollar
    · subst hc
      simp only [if_true]
      cases hi : indexDelim rest with
      | none => simp [consumed, Tok.isTerminal]
      | some i =>
        cases i with
        | zero => simp [consumed, Tok.isTerminal]
        | succ i => simp [consumed, Tok.isTerminal, lexFrag_consumed]; omega
    · by_cases hu : c = Bytes.underscore
      · subst hu
        have hne : Bytes.underscore ≠ Bytes.dollar := by decide
        simp [hne, consumed, Tok.isTerminal, lexFrag_consumed]; omega
      · simp only [hc, hu, if_false]
        exact lexFrag_consumed _ _ _

/-- The model never stores a nil value in a group (`Proofs/Parse.lean`: `parse_cases`). -/
theorem parse_ne_nilInGroup (s : Bytes) : parse s ≠ .nilInGroup := by
  rcases parse_cases s with ⟨_, _, _, hp⟩ | ⟨_, _, _, hp⟩ | ⟨t, hp, _⟩ <;> rw [hp] <;> intro h <;> cases h

/-! ## The whole function -/

theorem pp4_new_Tree (fuel : Nat) (args : List (Val PVal)) (st : PSt) : (pp4 fuel).call "new:Tree" args st =
    match newObj "Tree" args with
    | some o => .ok (.ext (.ptr st.heap.length), { st with heap := st.heap ++ [o] })
    | none => .stuck ("composite literal " ++ "new:Tree") := rfl
theorem newObj_Tree : newObj "Tree" [] = some (treeObj .nil .nil) := rfl
theorem zeroOf_GroupPtr : zeroOf "*GroupNode" = some .nil := by decide
theorem zeroOf_ValuePtr : zeroOf "*ValueNode" = some .nil := by decide

/-- The initial state of the loop represents the model's initial state. -/
theorem rel_init (s : Bytes) (pos start : Int) :
    Rel [treeObj .nil .nil, lexObj s pos start 0] s .nil .nil {} := by
  refine ⟨⟨pos, start, rfl⟩, ⟨.nil, .nil, [], rfl, Or.inl ⟨rfl, rfl⟩, rfl, rfl, fun _ e => by cases e⟩,
    Or.inl ⟨rfl, rfl⟩, Or.inl ⟨rfl, rfl⟩⟩

/-- `evalParse` on the regenerated `Parse`: the model's result. -/
theorem evalParse_eq (s : Bytes) : evalParse Gen.hash_parse.parseFlow s = some (parse s) := by
  have hf : s.length + 3 ≤ fuelFor s := by unfold fuelFor; omega
  obtain ⟨pos, start, hl⟩ := lex_spec (fuelFor s) [treeObj .nil .nil] [] s hf
  have hlex : (pp4 (fuelFor s)).call "lex" [.str s] ⟨[treeObj .nil .nil], []⟩ =
      .ok (.ext (.ptr 1), PS [treeObj .nil .nil, lexObj s pos start 0] ((tokens s).map goTok)) := by
    rw [pp4_call]
    simp only [if_true, hl, callRes]
    rfl
  have hN : (tokens s).length + 1 ≤ fuelFor s := by have := tokens_length s; unfold fuelFor; omega
  have hloop := parse_loop (fuelFor s) s (tokens s) {} _ .nil .nil (fuelFor s) (tokens_err_codes s)
    (rel_init s pos start) (parse_ne_nilInGroup s) hN
  have hrem : (tokens s).drop (consumed (tokens s)) = [] := by rw [tokens_consumed]; exact List.drop_length
  rw [hrem] at hloop
  have hb := parseFlow_body
  have hp : Gen.hash_parse.parseFlow.params = [("p1", "string")] := rfl
  have hpre : parseToks {} (tokens s) = parse s := rfl
  rw [hpre] at hloop
  unfold evalParse runParse
  cases hres : parse s with
  | ok t =>
    rw [hres] at hloop
    obtain ⟨H, gv, vv, hout, htree⟩ := hloop
    simp only [ploop, penv, pframe, PS, List.map_nil, treeObj] at hout hlex
    simp [runFunc2, hb, hp, sflowval, pp4_new_Tree, newObj_Tree, zeroOf_GroupPtr, zeroOf_ValuePtr, hlex, hout,
      allDrained, htree, treeObj]
  | err o c =>
    rw [hres] at hloop
    obtain ⟨H, e, hout, herr⟩ := hloop
    simp only [ploop, penv, pframe, PS, List.map_nil, treeObj] at hout hlex
    simp [runFunc2, hb, hp, sflowval, pp4_new_Tree, newObj_Tree, zeroOf_GroupPtr, zeroOf_ValuePtr, hlex, hout,
      allDrained, herr, treeObj]
  | nilInGroup => exact absurd hres (parse_ne_nilInGroup s)

end GoCrypt.SFlowVal2
