import GoCrypt.Proofs.TiWfRaw

/-!
# `typeInfo.normalize` (`normalizeLoop`): the invariant behind `tiWf`

For a raw field list `all` whose options the tag loop can produce (`OptInv`) and whose index paths are
distinct, a successful `normalizeLoop all all {} []` returns a `TypeInfo` that satisfies every clause of
`tiWf` EXCEPT the two that speak about Go kinds / text codecs (`codecOk` of the fields, kind and codec of
the prefix field) — those are properties of the field TYPES, which `getTypeInfo` never looks at.
-/

namespace GoCrypt.Codec
open Bytes

namespace TiWf
open Layers

/-! ## `typeInfo.field` returns one of the candidates -/

theorem foldl_best_mem (step : Option FieldInfo → FieldInfo → Option FieldInfo)
    (hstep : ∀ b f r, step b f = some r → b = some r ∨ r = f) :
    ∀ (l : List FieldInfo) (b : Option FieldInfo) (r : FieldInfo), l.foldl step b = some r → b = some r ∨ r ∈ l
  | [], b, r, h => Or.inl h
  | f :: l, b, r, h => by
    rw [List.foldl_cons] at h
    rcases foldl_best_mem step hstep l (step b f) r h with h' | h'
    · rcases hstep b f r h' with h'' | h''
      · exact Or.inl h''
      · exact Or.inr (by simp [h''])
    · exact Or.inr (List.mem_cons_of_mem _ h')

theorem resolveParam_mem (all : List FieldInfo) (p : Bytes) (fi : FieldInfo)
    (h : resolveParam all p = .ok (some fi)) : fi ∈ all ∧ fi.opts.param = p := by
  unfold resolveParam at h
  simp only at h
  split at h
  · cases h
  · simp only [Except.ok.injEq] at h
    have := foldl_best_mem _ (by
      intro b f r hs
      cases b with
      | none => simp only [Option.some.injEq] at hs; exact Or.inr hs.symm
      | some b =>
        simp only at hs
        split at hs
        · simp only [Option.some.injEq] at hs; exact Or.inr hs.symm
        · exact Or.inl hs) _ _ _ h
    rcases this with h' | h'
    · cases h'
    · have := List.mem_filter.1 h'
      exact ⟨this.1, by simpa using this.2⟩

/-! ## A successful run has validated every field -/

theorem normalizeLoop_valid (all : List FieldInfo) : ∀ (rest : List FieldInfo) (ti : TypeInfo) (seen : List Bytes)
    (r : TypeInfo), normalizeLoop all rest ti seen = .ok r → ∀ f ∈ rest, validOpts f.opts = true
  | [], _, _, _, _, f, hf => by cases hf
  | g :: rest, ti, seen, r, h, f, hf => by
    rw [normalizeLoop] at h
    cases hv : validOpts g.opts with
    | false => simp [hv] at h
    | true =>
      rcases List.mem_cons.1 hf with rfl | hf'
      · exact hv
      · simp only [hv, Bool.not_true, Bool.false_eq_true, if_false] at h
        split at h
        · exact normalizeLoop_valid all rest _ _ r h f hf'
        · split at h
          · exact normalizeLoop_valid all rest _ _ r h f hf'
          · split at h
            · exact normalizeLoop_valid all rest _ _ r h f hf'
            · split at h
              · cases h
              · exact normalizeLoop_valid all rest _ _ r h f hf'
              · exact normalizeLoop_valid all rest _ _ r h f hf'

/-! ## The loop invariant -/

structure Inv (all done : List FieldInfo) (ti : TypeInfo) (seen : List Bytes) : Prop where
  mem : ∀ g ∈ ti.fields, g ∈ all ∧ g.opts.isPrefix = false
  direct : ∀ g ∈ ti.fields, g.opts.param = [] → g ∈ done
  named : ∀ g ∈ ti.fields, g.opts.param ≠ [] → g.opts.param ∈ seen
  idx : (ti.fields.map (·.index)).Nodup
  names : (paramNames ti.fields).Nodup
  pfx : ∀ hp, ti.hashPrefix = some hp → hp ∈ all ∧ hp.opts.isPrefix = true

/-- What holds of the result, whatever the field types. -/
structure Final (all : List FieldInfo) (r : TypeInfo) : Prop where
  mem : ∀ g ∈ r.fields, g ∈ all ∧ g.opts.isPrefix = false
  idx : (r.fields.map (·.index)).Nodup
  names : (paramNames r.fields).Nodup
  pfx : ∀ hp, r.hashPrefix = some hp → hp ∈ all ∧ hp.opts.isPrefix = true
  numReq : r.numReqValues = reqCount r.fields

theorem index_inj {all : List FieldInfo} (hnd : (all.map (·.index)).Nodup) :
    ∀ a ∈ all, ∀ b ∈ all, a.index = b.index → a = b := by
  induction all with
  | nil => intro a ha; cases ha
  | cons x xs ih =>
    rw [List.map_cons, List.nodup_cons] at hnd
    intro a ha b hb hab
    rcases List.mem_cons.1 ha with rfl | ha' <;> rcases List.mem_cons.1 hb with rfl | hb'
    · rfl
    · exact absurd (List.mem_map.2 ⟨b, hb', hab.symm⟩) hnd.1
    · exact absurd (List.mem_map.2 ⟨a, ha', hab⟩) hnd.1
    · exact ih hnd.2 a ha' b hb' hab

theorem paramNames_append_direct (fs : List FieldInfo) (f : FieldInfo) (h : f.opts.param = []) :
    paramNames (fs ++ [f]) = paramNames fs := by
  simp [paramNames, List.filter_append, h]

theorem paramNames_append_named (fs : List FieldInfo) (f : FieldInfo) (h : f.opts.param ≠ []) :
    paramNames (fs ++ [f]) = paramNames fs ++ [f.opts.param] := by
  simp [paramNames, List.filter_append, h]

theorem mem_paramNames {fs : List FieldInfo} {p : Bytes} (h : p ∈ paramNames fs) :
    ∃ g ∈ fs, g.opts.param ≠ [] ∧ g.opts.param = p := by
  unfold paramNames at h
  obtain ⟨g, hg, rfl⟩ := List.mem_map.1 h
  have := List.mem_filter.1 hg
  exact ⟨g, this.1, by simpa using this.2, rfl⟩

theorem normalizeLoop_inv (all : List FieldInfo) (hvalid : ∀ f ∈ all, validOpts f.opts = true)
    (hnd : (all.map (·.index)).Nodup) :
    ∀ (rest done : List FieldInfo) (ti : TypeInfo) (seen : List Bytes) (r : TypeInfo),
      all = done ++ rest → Inv all done ti seen → normalizeLoop all rest ti seen = .ok r → Final all r
  | [], done, ti, seen, r, _, I, h => by
    rw [normalizeLoop] at h
    simp only [Except.ok.injEq] at h
    subst h
    exact ⟨I.mem, I.idx, I.names, I.pfx, rfl⟩
  | f :: rest, done, ti, seen, r, hall, I, h => by
    have hfall : f ∈ all := by rw [hall]; simp
    have hall' : all = (done ++ [f]) ++ rest := by rw [hall]; simp
    have hdone_sub : ∀ g, g ∈ done → g ∈ done ++ [f] := fun g hg => List.mem_append_left _ hg
    rw [normalizeLoop] at h
    simp only [hvalid f hfall, Bool.not_true, Bool.false_eq_true, if_false] at h
    split at h
    · -- the prefix field
      rename_i hp
      refine normalizeLoop_inv all hvalid hnd rest (done ++ [f]) _ seen r hall' ?_ h
      exact ⟨I.mem, fun g hg hgp => hdone_sub g (I.direct g hg hgp), I.named, I.idx, I.names,
        fun hp' e => by
          simp only [Option.some.injEq] at e
          subst e
          exact ⟨hfall, hp⟩⟩
    · rename_i hp
      have hp' : f.opts.isPrefix = false := by simpa using hp
      split at h
      · -- a positional field
        rename_i hpar
        refine normalizeLoop_inv all hvalid hnd rest (done ++ [f]) _ seen r hall' ?_ h
        refine ⟨?_, ?_, ?_, ?_, ?_, I.pfx⟩
        · intro g hg
          rcases List.mem_append.1 hg with hg | hg
          · exact I.mem g hg
          · simp only [List.mem_singleton] at hg
            subst hg
            exact ⟨hfall, hp'⟩
        · intro g hg hgp
          rcases List.mem_append.1 hg with hg | hg
          · exact hdone_sub g (I.direct g hg hgp)
          · simp only [List.mem_singleton] at hg
            subst hg
            simp
        · intro g hg hgp
          rcases List.mem_append.1 hg with hg | hg
          · exact I.named g hg hgp
          · simp only [List.mem_singleton] at hg
            subst hg
            exact absurd hpar hgp
        · show ((ti.fields ++ [f]).map (·.index)).Nodup
          rw [List.map_append, List.nodup_append]
          refine ⟨I.idx, by simp, ?_⟩
          intro a ha b hb hab
          simp only [List.map_cons, List.map_nil, List.mem_singleton] at hb
          subst hb
          obtain ⟨g, hg, rfl⟩ := List.mem_map.1 ha
          have hgf : g = f := index_inj hnd g (I.mem g hg).1 f hfall hab
          subst hgf
          have hgd : g ∈ done := I.direct g hg hpar
          -- `g` occurs in `done` and right after it: the index paths of `all` would not be distinct
          rw [hall, List.map_append, List.nodup_append] at hnd
          exact hnd.2.2 g.index (List.mem_map.2 ⟨g, hgd, rfl⟩) g.index (by simp) rfl
        · show (paramNames (ti.fields ++ [f])).Nodup
          rw [paramNames_append_direct _ _ hpar]
          exact I.names
      · rename_i hpar
        split at h
        · -- a name already resolved
          refine normalizeLoop_inv all hvalid hnd rest (done ++ [f]) ti seen r hall' ?_ h
          exact ⟨I.mem, fun g hg hgp => hdone_sub g (I.direct g hg hgp), I.named, I.idx, I.names, I.pfx⟩
        · rename_i hseen
          have hseen' : f.opts.param ∉ seen := fun hm => hseen (List.contains_iff_mem.2 hm)
          split at h
          · cases h
          · refine normalizeLoop_inv all hvalid hnd rest (done ++ [f]) ti seen r hall' ?_ h
            exact ⟨I.mem, fun g hg hgp => hdone_sub g (I.direct g hg hgp), I.named, I.idx, I.names, I.pfx⟩
          · -- the dominant field of a new name
            rename_i fi hres
            obtain ⟨hfiall, hfip⟩ := resolveParam_mem all _ fi hres
            have hfine : fi.opts.param ≠ [] := by rw [hfip]; exact hpar
            have hfipfx : fi.opts.isPrefix = false := by
              have hv := hvalid fi hfiall
              simp only [validOpts, Bool.and_eq_true, Bool.or_eq_true, decide_eq_true_eq,
                Bool.not_eq_eq_eq_not, Bool.not_true] at hv
              rcases hv.1.2 with h1 | h1
              · exact absurd h1 hfine
              · exact h1
            refine normalizeLoop_inv all hvalid hnd rest (done ++ [f]) _ (f.opts.param :: seen) r hall' ?_ h
            refine ⟨?_, ?_, ?_, ?_, ?_, I.pfx⟩
            · intro g hg
              rcases List.mem_append.1 hg with hg | hg
              · exact I.mem g hg
              · simp only [List.mem_singleton] at hg
                subst hg
                exact ⟨hfiall, hfipfx⟩
            · intro g hg hgp
              rcases List.mem_append.1 hg with hg | hg
              · exact hdone_sub g (I.direct g hg hgp)
              · simp only [List.mem_singleton] at hg
                subst hg
                exact absurd hgp hfine
            · intro g hg hgp
              rcases List.mem_append.1 hg with hg | hg
              · exact List.mem_cons_of_mem _ (I.named g hg hgp)
              · simp only [List.mem_singleton] at hg
                subst hg
                rw [hfip]
                simp
            · show ((ti.fields ++ [fi]).map (·.index)).Nodup
              rw [List.map_append, List.nodup_append]
              refine ⟨I.idx, by simp, ?_⟩
              intro a ha b hb hab
              simp only [List.map_cons, List.map_nil, List.mem_singleton] at hb
              subst hb
              obtain ⟨g, hg, rfl⟩ := List.mem_map.1 ha
              have hgf : g = fi := index_inj hnd g (I.mem g hg).1 fi hfiall hab
              subst hgf
              exact hseen' (hfip ▸ I.named g hg hfine)
            · show (paramNames (ti.fields ++ [fi])).Nodup
              rw [paramNames_append_named _ _ hfine, List.nodup_append]
              refine ⟨I.names, by simp, ?_⟩
              intro a ha b hb hab
              simp only [List.mem_singleton] at hb
              subst hb
              obtain ⟨g, hg, hgne, rfl⟩ := mem_paramNames ha
              exact hseen' (hfip ▸ hab ▸ I.named g hg hgne)

/-- `normalize` on a raw field list with distinct index paths. -/
theorem normalize_final (all : List FieldInfo) (hnd : (all.map (·.index)).Nodup) (r : TypeInfo)
    (h : normalizeLoop all all {} [] = .ok r) : (∀ f ∈ all, validOpts f.opts = true) ∧ Final all r := by
  have hvalid := normalizeLoop_valid all all {} [] r h
  refine ⟨hvalid, normalizeLoop_inv all hvalid hnd all [] {} [] r (by simp) ?_ h⟩
  exact ⟨fun g hg => (by cases hg), fun g hg => (by cases hg), fun g hg => (by cases hg), (by simp),
    (by simp [paramNames]), fun hp e => (by cases e)⟩

/-! ## From `Final` to `tiWf` -/

/-- The part of `L1.prefixField` that speaks about the Go TYPE of the `HashPrefix` field: a plain `string`
(no pointer), no `MarshalText`, `UnmarshalText` absent or a whitelist. -/
def prefixKindOk (hp : FieldInfo) : Bool :=
  hp.kind == .string && hp.ptrDepth == 0 && hp.marshalText == .none &&
  (match hp.unmarshalText with | .none => true | .whitelist _ => true | _ => false)

/-- The part of `tiWf` that speaks about Go kinds and text codecs — properties of the field types, which
`getTypeInfo` does not inspect. -/
def kindsOk (ti : TypeInfo) : Bool :=
  ti.fields.all codecOk && (match ti.hashPrefix with | some hp => prefixKindOk hp | none => true)

theorem kindsOk_of_tiWf (ti : TypeInfo) (h : tiWf ti = true) : kindsOk ti = true := by
  simp only [tiWf, Bool.and_eq_true, List.all_eq_true] at h
  obtain ⟨⟨⟨⟨hf, hp⟩, -⟩, -⟩, -⟩ := h
  simp only [kindsOk, Bool.and_eq_true, List.all_eq_true]
  refine ⟨fun f hfm => ?_, ?_⟩
  · have := hf f hfm
    simp only [fieldWf, Bool.and_eq_true] at this
    exact this.2
  · cases hhp : ti.hashPrefix with
    | none => rfl
    | some hp' =>
      simp only [hhp, L1.prefixField, Bool.and_eq_true] at hp
      simp only [prefixKindOk, Bool.and_eq_true]
      exact ⟨⟨⟨hp.1.1.1.1.1, hp.1.1.1.1.2⟩, hp.1.2⟩, hp.2⟩

theorem tiWf_of_final (all : List FieldInfo) (r : TypeInfo) (hvalid : ∀ f ∈ all, validOpts f.opts = true)
    (hinv : ∀ f ∈ all, OptInv f.opts) (hnd : (all.map (·.index)).Nodup) (F : Final all r)
    (hk : kindsOk r = true) : tiWf r = true := by
  simp only [kindsOk, Bool.and_eq_true, List.all_eq_true] at hk
  obtain ⟨hkf, hkp⟩ := hk
  simp only [tiWf, Bool.and_eq_true, List.all_eq_true, decide_eq_true_eq, beq_iff_eq]
  refine ⟨⟨⟨⟨fun g hg => ?_, ?_⟩, ?_⟩, F.names⟩, F.numReq⟩
  · obtain ⟨hgall, hgp⟩ := F.mem g hg
    have hv := hvalid g hgall
    have hi := hinv g hgall
    have hinl : (!g.opts.inline || g.opts.hasLength) = true := by
      cases hin : g.opts.inline with
      | false => rfl
      | true =>
        have hv' := hv
        simp only [validOpts, hin, Bool.and_eq_true, Bool.or_eq_true, decide_eq_true_eq,
          Bool.not_true, Bool.false_eq_true, false_or] at hv'
        simp [hi.len hv'.2.2]
    have hb : baseOk g = true := by
      simp only [baseOk, Bool.and_eq_true, decide_eq_true_eq]
      exact ⟨hi.base_lo, hi.base_hi⟩
    simp only [fieldWf, hv, hgp, hinl, hb, hkf g hg, Bool.not_false, Bool.and_self]
  · cases hhp : r.hashPrefix with
    | none => rfl
    | some hp =>
      obtain ⟨hpall, hpp⟩ := F.pfx hp hhp
      have hv := hvalid hp hpall
      simp only [validOpts, hpp, Bool.and_eq_true, Bool.or_eq_true, decide_eq_true_eq,
        Bool.not_true, Bool.false_eq_true, or_false, false_and, Bool.not_eq_eq_eq_not] at hv
      simp only [hhp] at hkp
      simp only [prefixKindOk, Bool.and_eq_true] at hkp
      simp only [L1.prefixField, Bool.and_eq_true]
      refine ⟨⟨⟨⟨⟨hkp.1.1.1, hkp.1.1.2⟩, by simp [hv.1.2]⟩, by simp [hv.2]⟩, hkp.1.2⟩, hkp.2⟩
  · cases hhp : r.hashPrefix with
    | none => simpa using F.idx
    | some hp =>
      obtain ⟨hpall, hpp⟩ := F.pfx hp hhp
      simp only [Option.toList_some, List.cons_append, List.nil_append, List.map_cons, List.nodup_cons]
      refine ⟨fun hm => ?_, F.idx⟩
      obtain ⟨g, hg, hgi⟩ := List.mem_map.1 hm
      obtain ⟨hgall, hgp⟩ := F.mem g hg
      have : g = hp := index_inj hnd g hgall hp hpall hgi
      subst this
      rw [hgp] at hpp
      cases hpp

end TiWf

end GoCrypt.Codec
