import GoCrypt.Proofs.KdfIR2Base
import GoCrypt.Gen.KdfIR2

/-!
# Second-generation IR: the bcrypt glue

`bcrypt.setup`, `bcrypt.encode`, the tail of `bcrypt.Key` after its last guard and the password
rewriting between its first two guards, as regenerated in `Gen/KdfIR2.lean`. The Blowfish operations
are opaque primitives: the lemmas hold for EVERY cipher-state type `κ` (embedded in IR values by `enc`)
and every `newC`, `expand`, `enc8` on it; `Props/KdfIR2.lean` instantiates them with `Prim.Blowfish`.
Helper lemmas only.
-/

namespace GoCrypt.HashIR2
open GoCrypt.Gen.KdfIR2

set_option linter.unusedSimpArgs false

/-- `for i := 0; i < n; i++ { ExpandKey(key, c); ExpandKey(salt, c) }` -/
def expandLoopG {κ : Type} (expand : Bytes → κ → κ) (key salt : Bytes) : Nat → κ → κ
  | 0, c => c
  | n + 1, c => expand salt (expand key (expandLoopG expand key salt n c))

/-- `n` times `c.Encrypt(b, b)` -/
def encTimesG {κ : Type} (enc8 : κ → Bytes → Bytes) (c : κ) : Nat → Bytes → Bytes
  | 0, b => b
  | n + 1, b => enc8 c (encTimesG enc8 c n b)

structure BcryptCalls {κ : Type} (c : Ctx) (enc : κ → Val) (newC : Bytes → Bytes → κ) (expand : Bytes → κ → κ)
    (enc8 : κ → Bytes → Bytes) (errMsg : String) : Prop where
  enc_not_err : ∀ k, isErrOf (enc k) = false
  newCipher : ∀ key salt, key ≠ [] → c.call "blowfish.NewSaltedCipher" [.bytes key, .bytes salt] = .ok (enc (newC key salt))
  newCipher_empty : ∀ salt, c.call "blowfish.NewSaltedCipher" [.bytes [], .bytes salt] = .ok (.err errMsg)
  expandKey : ∀ key k, c.call "blowfish.ExpandKey" [.bytes key, enc k] = .ok (enc (expand key k))
  encrypt : ∀ k src, src.length = 8 → c.call "blowfish.Cipher.Encrypt" [enc k, .bytes src] = .ok (.bytes (enc8 k src))
  encrypt_length : ∀ k src, (enc8 k src).length = 8

/-! ## The password rewriting of `bcrypt.Key` (between its first two guards) -/

/-- 2b truncates to 72 bytes; older variants replace a password of 254 or more bytes by 72 `'0'`s. -/
def rewriteG (pfx pw : Bytes) : Bytes :=
  if pfx = [36, 50, 98, 36] ∧ pw.length > 72 then pw.take 72
  else if pw.length ≥ 254 then List.replicate 72 48
  else pw

theorem repeatBytes_single (x : UInt8) : ∀ n, repeatBytes [x] n = List.replicate n x
  | 0 => rfl
  | n + 1 => by rw [repeatBytes, repeatBytes_single x n, List.replicate_succ]; rfl

theorem bcrypt_rewrite_proc (c : Ctx) (pw pfx : Bytes) :
    execProc c bcrypt.proc_Key_between1 [.bytes pw, .bytes pfx] = .ok (.bytes (rewriteG pfx pw)) := by
  apply execProc_of_ret _ _ _ _ rfl (by decide)
  simp only [bcrypt.proc_Key_between1, Env.init, List.map, List.length, List.replicate]
  unfold rewriteG
  by_cases h1 : pfx = [36, 50, 98, 36]
  · by_cases h2 : pw.length > 72
    · have h2' : (72 : Int) < pw.length := by omega
      have h72 : (72 : Nat) ≤ pw.length := by omega
      have := sliceOf_zero_nat pw 72 h72
      simp only [Int.cast_ofNat_Int] at this
      ir_simp [h1, h2, h2', this]
    · have h2' : ¬ (72 : Int) < pw.length := by omega
      by_cases h3 : pw.length ≥ 254
      · omega
      · have h3' : ¬ (254 : Int) ≤ pw.length := by omega
        ir_simp [h1, h2, h2', h3, h3']
  · by_cases h3 : pw.length ≥ 254
    · have h3' : (254 : Int) ≤ pw.length := by omega
      ir_simp [h1, h3, h3', repeatBytes_single]
    · have h3' : ¬ (254 : Int) ≤ pw.length := by omega
      ir_simp [h1, h3, h3']

/-! ## `bcrypt.setup` -/

/-- The key handed to the key schedule: a NUL terminator unless the prefix is `$2$`. -/
def keyG (pfx key : Bytes) : Bytes := if pfx ≠ [36, 50, 36] then key ++ [0] else key

section
variable {κ : Type} {enc : κ → Val} {newC : Bytes → Bytes → κ} {expand : Bytes → κ → κ}
  {enc8 : κ → Bytes → Bytes} {errMsg : String}

/-- What `setup` returns: the error of an empty key, or the expanded cipher state. -/
def setupG (enc : κ → Val) (newC : Bytes → Bytes → κ) (expand : Bytes → κ → κ) (errMsg : String)
    (pfx key salt : Bytes) (cost : Nat) : Val :=
  if keyG pfx key = [] then .err ("failed to create blowfish cipher: " ++ errMsg)
  else enc (expandLoopG expand (keyG pfx key) salt (2 ^ cost) (newC (keyG pfx key) salt))

theorem bcrypt_setup_body (c : Ctx) (hc : BcryptCalls c enc newC expand enc8 errMsg) (key salt pfx : Bytes) (cost : Nat) :
    exec c bcrypt.proc_setup.body (Env.init 7 [.bytes key, .bytes salt, nat cost, .bytes pfx]) =
      .ret (setupG enc newC expand errMsg pfx key salt cost) := by
  simp only [bcrypt.proc_setup, Env.init, List.map, List.length, List.replicate, List.cons_append, List.nil_append]
  have hstep : ∀ key' : Bytes,
      exec c (Stmt.call 4 "blowfish.NewSaltedCipher" [Expr.var 0, Expr.var 1] ;;;
        Stmt.ite (Expr.isErr (Expr.var 4)) (Stmt.ret (Expr.errPrefix "failed to create blowfish cipher: " (Expr.var 4))) Stmt.skip ;;;
        Stmt.scoped [5, 6] (Stmt.assign 5 (Expr.int 0) ;;;
          Stmt.assign 6 (Expr.bin BinOp.shl (Expr.int 1) (Expr.var 2)) ;;;
          Stmt.for_ (Expr.bin BinOp.add (Expr.bin BinOp.sub (Expr.var 6) (Expr.var 5)) (Expr.int 1))
          (Expr.bin BinOp.lt (Expr.var 5) (Expr.var 6))
          (Stmt.assign 5 (Expr.bin BinOp.add (Expr.var 5) (Expr.int 1)))
          (Stmt.call 4 "blowfish.ExpandKey" [Expr.var 0, Expr.var 4] ;;;
            Stmt.call 4 "blowfish.ExpandKey" [Expr.var 1, Expr.var 4])) ;;;
        Stmt.ret (Expr.var 4))
        [some (.bytes key'), some (.bytes salt), some (nat cost), some (.bytes pfx), none, none, none] =
      .ret (if key' = [] then .err ("failed to create blowfish cipher: " ++ errMsg)
        else enc (expandLoopG expand key' salt (2 ^ cost) (newC key' salt))) := by
    intro key'
    by_cases hk : key' = []
    · subst hk
      ir_simp [hc.newCipher_empty, isErrOf]
    · ir_simp [hc.newCipher _ _ hk, hc.enc_not_err, hk]
      rw [exec_for_count c _ _ _ _ _ (fun i => [some (.bytes key'), some (.bytes salt), some (nat cost), some (.bytes pfx),
          some (enc (expandLoopG expand key' salt i (newC key' salt))), some (nat i), some (nat (1 <<< cost))])
        (1 <<< cost) ((1 <<< cost : Nat) + 1)]
      · ir_simp [Nat.shiftLeft_eq]
      · simp [expandLoopG]
      · ir_simp
      · omega
      · intro i hi
        ir_simp
        omega
      · ir_simp
      · intro i hi
        ir_simp [hc.expandKey, expandLoopG]
  rw [exec_seq]
  have h1 : exec c (Stmt.ite (Expr.not (Expr.beq (Expr.var 3) (Expr.bytes [36, 50, 36])))
        (Stmt.assign 0 (Expr.append (Expr.var 0) (Expr.bytes [0]))) Stmt.skip)
      [some (.bytes key), some (.bytes salt), some (nat cost), some (.bytes pfx), none, none, none] =
      .ok [some (.bytes (keyG pfx key)), some (.bytes salt), some (nat cost), some (.bytes pfx), none, none, none] := by
    unfold keyG
    by_cases hp : pfx = [36, 50, 36]
    · ir_simp [hp]
    · ir_simp [hp]
  rw [h1, ok_bind]
  exact hstep _

theorem bcrypt_setup_proc (c : Ctx) (hc : BcryptCalls c enc newC expand enc8 errMsg) (key salt pfx : Bytes) (cost : Nat) :
    execProc c bcrypt.proc_setup [.bytes key, .bytes salt, nat cost, .bytes pfx] =
      .ok (setupG enc newC expand errMsg pfx key salt cost) :=
  execProc_of_ret _ _ _ _ rfl (by decide) (bcrypt_setup_body c hc key salt pfx cost)

/-! ## `bcrypt.encode` -/

/-- Block `a` of the 24-byte magic string. -/
def blockG (o : Bytes) (a : Nat) : Bytes := (o.drop (8 * a)).take 8

/-- The first `a` blocks, each encrypted 64 times. -/
def prefixG (enc8 : κ → Bytes → Bytes) (k : κ) (o : Bytes) (a : Nat) : Bytes :=
  (List.range a).flatMap fun t => encTimesG enc8 k 64 (blockG o t)

theorem encTimesG_length (enc8 : κ → Bytes → Bytes) (h8 : ∀ k src, (enc8 k src).length = 8) (k : κ) (b : Bytes) (hb : b.length = 8) :
    ∀ n, (encTimesG enc8 k n b).length = 8
  | 0 => hb
  | _ + 1 => h8 _ _

theorem blockG_length (o : Bytes) (ho : o.length = 24) (a : Nat) (ha : a < 3) : (blockG o a).length = 8 := by
  simp only [blockG, List.length_take, List.length_drop]; omega

theorem prefixG_length (enc8 : κ → Bytes → Bytes) (h8 : ∀ k src, (enc8 k src).length = 8) (k : κ) (o : Bytes) (ho : o.length = 24) :
    ∀ a, a ≤ 3 → (prefixG enc8 k o a).length = 8 * a
  | 0, _ => rfl
  | a + 1, h => by
    unfold prefixG
    rw [List.range_succ, List.flatMap_append, List.length_append]
    have := prefixG_length enc8 h8 k o ho a (by omega)
    unfold prefixG at this
    rw [this]
    simp only [List.flatMap_cons, List.flatMap_nil, List.append_nil,
      encTimesG_length enc8 h8 k _ (blockG_length o ho a (by omega)) 64]
    omega

theorem sliceOf_mid (X Y Z : Bytes) (i i8 : Nat) (hX : X.length = i) (hY : Y.length = 8) (hi : i8 = i + 8) :
    sliceOf (X ++ (Y ++ Z)) (i : Int) (i8 : Int) = .ok (.bytes Y) := by
  subst hi hX
  rw [sliceOf_nat _ _ _ (by omega) (by simp only [List.length_append]; omega)]
  congr 2
  rw [List.take_length_add_append, List.drop_left, List.take_left' hY]

theorem setSliceAt_mid (X Y Z d : Bytes) (i i8 : Nat) (hX : X.length = i) (hY : Y.length = 8) (hd : d.length = 8)
    (hi : i8 = i + 8) : setSliceAt (X ++ (Y ++ Z)) (i : Int) (i8 : Int) d = .ok (.bytes (X ++ (d ++ Z))) := by
  subst hi hX
  have h1 : (0 : Int) ≤ (X.length : Int) ∧ (X.length : Int) ≤ ((X.length + 8 : Nat) : Int) ∧
      ((X.length + 8 : Nat) : Int) ≤ ((X ++ (Y ++ Z)).length : Int) := by
    simp only [List.length_append]; omega
  have h2 : (d.length : Int) ≤ ((X.length + 8 : Nat) : Int) - (X.length : Int) := by omega
  simp only [setSliceAt, h1, h2, and_self, if_true, Int.toNat_natCast]
  congr 2
  have e1 : List.take X.length (X ++ (Y ++ Z)) = X := List.take_left' rfl
  have e2 : List.drop (X.length + d.length) (X ++ (Y ++ Z)) = Z := by
    rw [List.drop_length_add_append, hd, ← hY, List.drop_left]
  rw [e1, e2, List.append_assoc]

theorem blockG_append_drop (o : Bytes) (a : Nat) : blockG o a ++ o.drop (8 * a + 8) = o.drop (8 * a) := by
  unfold blockG
  rw [← List.drop_drop, List.take_append_drop]

theorem prefixG_succ (enc8 : κ → Bytes → Bytes) (k : κ) (o : Bytes) (a : Nat) :
    prefixG enc8 k o (a + 1) = prefixG enc8 k o a ++ encTimesG enc8 k 64 (blockG o a) := by
  unfold prefixG
  rw [List.range_succ, List.flatMap_append]
  simp only [List.flatMap_cons, List.flatMap_nil, List.append_nil]

/-- The magic string of `encode`, as it appears in the regenerated program. -/
def orpheanG : Bytes := [79, 114, 112, 104, 101, 97, 110, 66, 101, 104, 111, 108, 100, 101, 114, 83, 99, 114, 121, 68, 111, 117, 98, 116]

/-- What `encode` returns: the error of `setup`, or the first 23 bytes of the three blocks encrypted 64 times. -/
def encodeG (enc8 : κ → Bytes → Bytes) (newC : Bytes → Bytes → κ) (expand : Bytes → κ → κ) (errMsg : String)
    (pfx key salt : Bytes) (cost : Nat) : Val :=
  if keyG pfx key = [] then .err ("failed to create blowfish cipher: " ++ errMsg)
  else .bytes ((prefixG enc8 (expandLoopG expand (keyG pfx key) salt (2 ^ cost) (newC (keyG pfx key) salt)) orpheanG 3).take 23)

theorem bcrypt_encode_body (c : Ctx) (hc : BcryptCalls c enc newC expand enc8 errMsg) (key salt pfx : Bytes) (cost : Nat)
    (hsetup : c.call "bcrypt.setup" [.bytes key, .bytes salt, nat cost, .bytes pfx] =
      .ok (setupG enc newC expand errMsg pfx key salt cost)) :
    exec c bcrypt.proc_encode.body (Env.init 9 [.bytes key, .bytes salt, nat cost, .bytes pfx]) =
      .ret (encodeG enc8 newC expand errMsg pfx key salt cost) := by
  simp only [bcrypt.proc_encode, Env.init, List.map, List.length, List.replicate, List.cons_append, List.nil_append]
  unfold encodeG
  unfold setupG at hsetup
  by_cases hk : keyG pfx key = []
  · rw [if_pos hk] at hsetup
    ir_simp [hsetup, hk, isErrOf]
  · rw [if_neg hk] at hsetup
    generalize expandLoopG expand (keyG pfx key) salt (2 ^ cost) (newC (keyG pfx key) salt) = k at hsetup
    have ho : orpheanG.length = 24 := rfl
    ir_simp [hsetup, hk, hc.enc_not_err]
    show (exec c _ [_, _, _, _, some (Val.bytes orpheanG), _, _, _, _] >>= _) >>= _ = _
    generalize orpheanG = o at ho
    have h8 := hc.encrypt_length
    rw [exec_for_count c _ _ _ _ _ (fun a => [some (.bytes key), some (.bytes salt), some (nat cost), some (.bytes pfx),
        some (.bytes (prefixG enc8 k o a ++ o.drop (8 * a))), some (enc k), some (nat (8 * a)), none, none]) 3 25]
    · have hd : o.drop 24 = [] := by rw [List.drop_eq_nil_iff]; omega
      have hl : (23 : Nat) ≤ (prefixG enc8 k o 3).length := by rw [prefixG_length enc8 h8 k o ho 3 (by omega)]; omega
      have := sliceOf_zero_nat (prefixG enc8 k o 3) 23 hl
      simp only [Int.cast_ofNat_Int] at this
      ir_simp [hd, this]
    · simp [prefixG]
    · ir_simp
    · decide
    · intro a ha
      ir_simp
      omega
    · ir_simp
    · intro a ha
      obtain ⟨i, hi⟩ : ∃ i : Nat, i = 8 * a := ⟨_, rfl⟩
      obtain ⟨i8, hi8⟩ : ∃ i8 : Nat, i8 = i + 8 := ⟨_, rfl⟩
      have e1 : (8 : Int) * (a : Int) = (i : Int) := by omega
      have e2 : (i : Int) + 8 = (i8 : Int) := by omega
      have hX : (prefixG enc8 k o a).length = i := by rw [prefixG_length enc8 h8 k o ho a (by omega), hi]
      have hblk : (blockG o a).length = 8 := blockG_length o ho a ha
      ir_simp [e1]
      rw [exec_for_count c _ _ _ _ _ (fun j => [some (.bytes key), some (.bytes salt), some (nat cost), some (.bytes pfx),
          some (.bytes (prefixG enc8 k o a ++ encTimesG enc8 k j (blockG o a) ++ o.drop (i + 8))), some (enc k),
          some (nat i), some (nat j), none]) 64 65]
      · have hb : prefixG enc8 k o a ++ encTimesG enc8 k 64 (blockG o a) ++ o.drop (i + 8) =
            prefixG enc8 k o (a + 1) ++ o.drop (8 * (a + 1)) := by
          rw [prefixG_succ, hi]; congr 2
        ir_simp [e2, hb]
        omega
      · have hb : prefixG enc8 k o a ++ blockG o a ++ o.drop (i + 8) = prefixG enc8 k o a ++ o.drop (8 * a) := by
          rw [List.append_assoc, hi, blockG_append_drop]
        have hb2 := (blockG_append_drop o a).symm
        simp [encTimesG, hi]
        exact hb2
      · ir_simp
      · decide
      · intro j hj
        ir_simp
        omega
      · ir_simp
      · intro j hj
        have hY : (encTimesG enc8 k j (blockG o a)).length = 8 := encTimesG_length enc8 h8 k _ hblk j
        ir_simp [e2, sliceOf_mid _ _ _ i i8 hX hY hi8, hc.encrypt _ _ hY,
          setSliceAt_mid _ _ _ _ i i8 hX hY (h8 _ _) hi8, encTimesG]

theorem bcrypt_encode_proc (c : Ctx) (hc : BcryptCalls c enc newC expand enc8 errMsg) (key salt pfx : Bytes) (cost : Nat)
    (hsetup : c.call "bcrypt.setup" [.bytes key, .bytes salt, nat cost, .bytes pfx] =
      .ok (setupG enc newC expand errMsg pfx key salt cost)) :
    execProc c bcrypt.proc_encode [.bytes key, .bytes salt, nat cost, .bytes pfx] =
      .ok (encodeG enc8 newC expand errMsg pfx key salt cost) :=
  execProc_of_ret _ _ _ _ rfl (by decide) (bcrypt_encode_body c hc key salt pfx cost hsetup)

/-- `bcrypt.Key` after its last guard: `return encode(password, decSalt, cost, opts.Prefix)`. -/
theorem bcrypt_key_tail_proc (c : Ctx) (pw decSalt pfx : Bytes) (cost : Nat) (r : Val)
    (hencode : c.call "bcrypt.encode" [.bytes pw, .bytes decSalt, nat cost, .bytes pfx] = .ok r) :
    execProc c bcrypt.proc_Key [.bytes pw, nat cost, .bytes pfx, .bytes decSalt] = .ok r := by
  apply execProc_of_ret _ _ _ _ rfl (by decide)
  simp only [bcrypt.proc_Key, Env.init, List.map, List.length, List.replicate]
  ir_simp [hencode]

/-! ## Linking -/

/-- The meaning the theorems assume for the three Blowfish primitives: `NewSaltedCipher` fails with
`errMsg` on an empty key and otherwise yields the state `newC key salt`; `ExpandKey` and `Encrypt` are
functions of the state. States are embedded in IR values by `enc`. -/
structure BcryptPrimSpec (prim : String → List Val → Res Val) (enc : κ → Val) (newC : Bytes → Bytes → κ)
    (expand : Bytes → κ → κ) (enc8 : κ → Bytes → Bytes) (errMsg : String) : Prop where
  enc_not_err : ∀ k, isErrOf (enc k) = false
  newCipher : ∀ key salt, key ≠ [] → prim "blowfish.NewSaltedCipher" [.bytes key, .bytes salt] = .ok (enc (newC key salt))
  newCipher_empty : ∀ salt, prim "blowfish.NewSaltedCipher" [.bytes [], .bytes salt] = .ok (.err errMsg)
  expandKey : ∀ key k, prim "blowfish.ExpandKey" [.bytes key, enc k] = .ok (enc (expand key k))
  encrypt : ∀ k src, src.length = 8 → prim "blowfish.Cipher.Encrypt" [enc k, .bytes src] = .ok (.bytes (enc8 k src))
  encrypt_length : ∀ k src, (enc8 k src).length = 8

theorem bcryptCalls_ctxOf (π : Params) (hπ : BcryptPrimSpec π.prim enc newC expand enc8 errMsg) (d : Nat) :
    BcryptCalls (ctxOf π bcrypt.program (d + 1)) enc newC expand enc8 errMsg where
  enc_not_err := hπ.enc_not_err
  newCipher key salt hk := by
    rw [ctxOf_call, callIn_prim π _ d _ _ rfl rfl]; exact hπ.newCipher key salt hk
  newCipher_empty salt := by
    rw [ctxOf_call, callIn_prim π _ d _ _ rfl rfl]; exact hπ.newCipher_empty salt
  expandKey key k := by
    rw [ctxOf_call, callIn_prim π _ d _ _ rfl rfl]; exact hπ.expandKey key k
  encrypt k src h := by
    rw [ctxOf_call, callIn_prim π _ d _ _ rfl rfl]; exact hπ.encrypt k src h
  encrypt_length := hπ.encrypt_length

theorem bcrypt_setup_call (π : Params) (hπ : BcryptPrimSpec π.prim enc newC expand enc8 errMsg) (d : Nat)
    (key salt pfx : Bytes) (cost : Nat) :
    (ctxOf π bcrypt.program (d + 2)).call "bcrypt.setup" [.bytes key, .bytes salt, nat cost, .bytes pfx] =
      .ok (setupG enc newC expand errMsg pfx key salt cost) := by
  rw [ctxOf_call, callIn_proc π _ (d + 1) "bcrypt.setup" bcrypt.proc_setup _ rfl]
  exact bcrypt_setup_proc _ (bcryptCalls_ctxOf π hπ d) key salt pfx cost

theorem bcrypt_encode_call (π : Params) (hπ : BcryptPrimSpec π.prim enc newC expand enc8 errMsg) (d : Nat)
    (key salt pfx : Bytes) (cost : Nat) :
    (ctxOf π bcrypt.program (d + 3)).call "bcrypt.encode" [.bytes key, .bytes salt, nat cost, .bytes pfx] =
      .ok (encodeG enc8 newC expand errMsg pfx key salt cost) := by
  rw [ctxOf_call, callIn_proc π _ (d + 2) "bcrypt.encode" bcrypt.proc_encode _ rfl]
  exact bcrypt_encode_proc _ (bcryptCalls_ctxOf π hπ (d + 1)) key salt pfx cost (bcrypt_setup_call π hπ d key salt pfx cost)
end

end GoCrypt.HashIR2
