import GoCrypt.Proofs.Base64
import GoCrypt.Spec.Base64Ref

/-!
# Decoder vs reference, part 1: significant bytes, newline skipping, the digit-collecting loop

`sigFrom`/`sigAt` are the recursive form of `Base64Ref.significant`; `collectS` is `collect` read
off the list of significant bytes (proof device only: the array, the indices and the newline
skipping are eliminated here once and for all).
-/

namespace GoCrypt.Base64LE
open GoCrypt.Gen.base64le GoCrypt.Spec.Base64Bits GoCrypt.Spec.Base64Ref

/-! ## Significant bytes -/

/-- Recursive form of `significant`, with the index of the first byte as a parameter. -/
def sigFrom : Nat → Bytes → List (UInt8 × Nat)
  | _, [] => []
  | off, c :: s => if isNewline c then sigFrom (off + 1) s else (c, off) :: sigFrom (off + 1) s

theorem zipIdx_filter_eq_sigFrom (s : Bytes) (off : Nat) :
    (s.zipIdx off).filter (fun x => !isNewline x.1) = sigFrom off s := by
  induction s generalizing off with
  | nil => rfl
  | cons c s ih =>
    simp only [List.zipIdx_cons, List.filter_cons, sigFrom, ih]
    cases isNewline c <;> simp

theorem significant_eq (text : Bytes) : significant text = sigFrom 0 text :=
  zipIdx_filter_eq_sigFrom text 0

theorem isNL_eq (c : UInt8) : isNL c = isNewline c := by
  unfold isNL isNewline
  by_cases h1 : c = 10 <;> by_cases h2 : c = 13 <;> simp [h1, h2]

/-- The significant bytes from index `si` on. -/
def sigAt (text : Bytes) (si : Nat) : List (UInt8 × Nat) := sigFrom si (text.drop si)

theorem sigAt_zero (text : Bytes) : sigAt text 0 = significant text := by
  simp [sigAt, significant_eq]

theorem sigAt_of_ge (text : Bytes) (si : Nat) (h : text.length ≤ si) : sigAt text si = [] := by
  simp [sigAt, List.drop_eq_nil_of_le h, sigFrom]

theorem sigAt_step (text : Bytes) (si : Nat) (h : si < text.length) :
    sigAt text si = if isNewline text[si] then sigAt text (si + 1)
      else (text[si], si) :: sigAt text (si + 1) := by
  unfold sigAt
  rw [List.drop_eq_getElem_cons h, sigFrom]

/-- Index of the next significant byte (the end of the text if there is none). -/
def nextIdx (len : Nat) : List (UInt8 × Nat) → Nat
  | [] => len
  | (_, i) :: _ => i

@[simp] theorem nextIdx_nil (len : Nat) : nextIdx len [] = len := rfl
@[simp] theorem nextIdx_cons (len : Nat) (c : UInt8) (i : Nat) (sg : List (UInt8 × Nat)) :
    nextIdx len ((c, i) :: sg) = i := rfl

/-- What `sigAt text si = (c, i) :: sg` says about the text. -/
theorem sigAt_cons {text : Bytes} : ∀ (m si : Nat) {c : UInt8} {i : Nat} {sg : List (UInt8 × Nat)},
    text.length - si ≤ m → sigAt text si = (c, i) :: sg →
    si ≤ i ∧ i < text.length ∧ text.getD i 0 = c ∧ isNewline c = false ∧ sigAt text (i + 1) = sg ∧
    sigAt text i = (c, i) :: sg := by
  intro m
  induction m with
  | zero =>
    intro si c i sg hm h
    rw [sigAt_of_ge text si (by omega)] at h; cases h
  | succ m ih =>
    intro si c i sg hm h
    by_cases hlt : si < text.length
    · have hst := sigAt_step text si hlt
      by_cases hnl : isNewline text[si] = true
      · rw [hst, if_pos hnl] at h
        have := ih (si := si + 1) (by omega) h
        exact ⟨by omega, this.2.1, this.2.2.1, this.2.2.2.1, this.2.2.2.2.1, this.2.2.2.2.2⟩
      · have h0 := h
        rw [hst, if_neg hnl] at h
        simp only [List.cons.injEq, Prod.mk.injEq] at h
        obtain ⟨⟨hc, hi⟩, hsg⟩ := h
        subst hi
        refine ⟨Nat.le_refl _, hlt, ?_, ?_, hsg, h0⟩
        · rw [← hc]; simp [List.getD_eq_getElem?_getD, hlt]
        · rw [← hc]; simpa using hnl
    · rw [sigAt_of_ge text si (by omega)] at h; cases h

theorem sigAt_length_le (text : Bytes) : ∀ (m si : Nat), text.length - si ≤ m →
    (sigAt text si).length + si ≤ max text.length si := by
  intro m
  induction m with
  | zero => intro si hm; rw [sigAt_of_ge text si (by omega)]; simp; omega
  | succ m ih =>
    intro si hm
    by_cases hlt : si < text.length
    · have := ih (si + 1) (by omega)
      rw [sigAt_step text si hlt]
      split <;> simp <;> omega
    · rw [sigAt_of_ge text si (by omega)]; simp; omega

theorem sigAt_length (text : Bytes) (si : Nat) (h : si ≤ text.length) :
    (sigAt text si).length + si ≤ text.length := by
  have := sigAt_length_le text _ si (Nat.le_refl _)
  omega

/-! ## The alphabet -/

theorem dec_newline {e : Encoding} (wf : WellFormed e) {c : UInt8} (h : isNewline c = true) :
    e.dec c = 255 := by
  have : c = 10 ∨ c = 13 := by simpa [isNewline] using h
  rcases this with rfl | rfl
  · exact dmPrefix_not_mem e.alphabet _ wf.noLF _ (Nat.le_refl _)
  · exact dmPrefix_not_mem e.alphabet _ wf.noCR _ (Nat.le_refl _)

theorem isSymbol_iff {e : Encoding} (wf : WellFormed e) (c : UInt8) :
    isSymbol e c = true ↔ e.dec c ≠ 255 := by
  unfold isSymbol
  rw [List.contains_iff_mem]
  constructor
  · intro hm
    obtain ⟨i, hi, rfl⟩ := List.getElem_of_mem hm
    have hi64 : i < 64 := by rw [← wf.length]; exact hi
    have := dec_sym wf hi64
    rw [Encoding.sym, List.getD_eq_getElem?_getD, List.getElem?_eq_getElem hi] at this
    simp only [Option.getD_some] at this
    rw [this]; omega
  · intro hd
    exact Classical.byContradiction fun hn => hd (dmPrefix_not_mem e.alphabet c hn _ (Nat.le_refl _))

theorem symbolValue_eq {e : Encoding} (wf : WellFormed e) {c : UInt8} (h : isSymbol e c = true) :
    symbolValue e c = e.dec c := by
  unfold isSymbol at h
  rw [List.contains_iff_mem] at h
  unfold symbolValue
  have hlt : e.alphabet.idxOf c < 64 := by rw [← wf.length]; exact List.idxOf_lt_length_of_mem h
  have := dec_sym wf hlt
  rw [Encoding.sym, List.getD_eq_getElem?_getD,
    List.getElem?_eq_getElem (by rw [wf.length]; exact hlt)] at this
  simp only [Option.getD_some, List.getElem_idxOf] at this
  exact this.symm

theorem dec_lt {e : Encoding} (wf : WellFormed e) {c : UInt8} (h : e.dec c ≠ 255) : e.dec c < 64 := by
  rcases dec_isDigit wf c with h' | h'
  · exact h'
  · exact absurd h' h

theorem sym_symbolValue {e : Encoding} {c : UInt8} (h : isSymbol e c = true) :
    e.sym (symbolValue e c) = c := by
  unfold isSymbol at h
  rw [List.contains_iff_mem] at h
  unfold symbolValue Encoding.sym
  rw [List.getD_eq_getElem?_getD, List.getElem?_eq_getElem (List.idxOf_lt_length_of_mem h)]
  simp

/-! ## Array access and newline skipping -/

theorem toArray_getD (text : Bytes) (i : Nat) (d : UInt8) : text.toArray.getD i d = text.getD i d := by
  rw [Array.getD_eq_getD_getElem?, List.getD_eq_getElem?_getD]; simp

theorem skipNL_eq (text : Bytes) : ∀ (m si : Nat), text.length - si ≤ m → si ≤ text.length →
    skipNL text.toArray si = nextIdx text.length (sigAt text si) := by
  intro m
  induction m with
  | zero =>
    intro si hm hle
    rw [skipNL_of_ge _ _ (by simp; omega), sigAt_of_ge text si (by omega)]
    simp [nextIdx]; omega
  | succ m ih =>
    intro si hm hle
    by_cases hlt : si < text.length
    · rw [sigAt_step text si hlt, skipNL]
      simp only [List.size_toArray, hlt, dite_true, List.getElem_toArray, isNL_eq]
      by_cases hnl : isNewline text[si] = true
      · rw [if_pos hnl, if_pos hnl]; exact ih (si + 1) (by omega) (by omega)
      · rw [if_neg hnl, if_neg hnl]; rfl
    · rw [skipNL_of_ge _ _ (by simp; omega), sigAt_of_ge text si (by omega)]
      simp [nextIdx]; omega

/-- `collect` skips newlines: it continues at the next significant byte. -/
theorem collect_skip {e : Encoding} (wf : WellFormed e) (text : Bytes) (j : Nat) (dbuf : List Nat)
    (hj : j < 4) : ∀ (m si : Nat), text.length - si ≤ m → si ≤ text.length →
    collect e text.toArray si j dbuf =
      collect e text.toArray (nextIdx text.length (sigAt text si)) j dbuf := by
  intro m
  induction m with
  | zero =>
    intro si hm hle
    rw [sigAt_of_ge text si (by omega)]
    simp only [nextIdx]
    have : si = text.length := by omega
    rw [this]
  | succ m ih =>
    intro si hm hle
    by_cases hlt : si < text.length
    · rw [sigAt_step text si hlt]
      by_cases hnl : isNewline text[si] = true
      · rw [if_pos hnl, ← ih (si + 1) (by omega) (by omega)]
        rw [collect]
        simp [hlt, Nat.not_le.2 hj, dec_newline wf hnl, isNL_eq, hnl]
      · rw [if_neg hnl]; rfl
    · have : si = text.length := by omega
      rw [sigAt_of_ge text si (by omega)]
      simp only [nextIdx]
      rw [this]

/-! ## `collect` on the list of significant bytes -/

/-- `collect` as a function of the significant bytes ahead. -/
def collectS (e : Encoding) (len : Nat) : List (UInt8 × Nat) → Nat → List Nat →
    Sum (Nat × Option Nat) (Nat × Nat × List Nat × Option Nat)
  | [], j, dbuf =>
    if j = 0 then .inl (len, none)
    else if j = 1 ∨ e.pad.isSome then .inl (len, some (len - j))
    else .inr (len, j, dbuf, none)
  | (c, i) :: sg, j, dbuf =>
    if e.dec c ≠ 255 then
      if j = 3 then .inr (i + 1, 4, e.dec c :: dbuf, none)
      else collectS e len sg (j + 1) (e.dec c :: dbuf)
    else if some c ≠ e.pad then .inl (i + 1, some i)
    else if j = 0 ∨ j = 1 then .inl (i + 1, some i)
    else if j = 2 then
      match sg with
      | [] => .inl (len, some len)
      | (c', i') :: sg' =>
        if some c' ≠ e.pad then .inl (i', some (i' - 1))
        else .inr (nextIdx len sg', j, dbuf, if nextIdx len sg' < len then some (nextIdx len sg') else none)
    else .inr (nextIdx len sg, j, dbuf, if nextIdx len sg < len then some (nextIdx len sg) else none)

theorem collect_at_end (e : Encoding) (text : Bytes) (j : Nat) (dbuf : List Nat) (hj : j < 4) :
    collect e text.toArray text.length j dbuf = collectS e text.length [] j dbuf := by
  rw [collect]
  simp [Nat.not_le.2 hj, collectS]

theorem collect_eq_collectS {e : Encoding} (wf : WellFormed e) (text : Bytes) :
    ∀ (sg : List (UInt8 × Nat)) (si j : Nat) (dbuf : List Nat), j < 4 → si ≤ text.length →
    sigAt text si = sg →
    collect e text.toArray si j dbuf = collectS e text.length sg j dbuf := by
  intro sg
  induction sg with
  | nil =>
    intro si j dbuf hj hle hsg
    rw [collect_skip wf text j dbuf hj _ si (Nat.le_refl _) hle, hsg]
    exact collect_at_end e text j dbuf hj
  | cons x sg ih =>
    intro si j dbuf hj hle hsg
    obtain ⟨c, i⟩ := x
    obtain ⟨hsi, hi, hc, hnl, hnext, _⟩ := sigAt_cons _ si (Nat.le_refl _) hsg
    rw [collect_skip wf text j dbuf hj _ si (Nat.le_refl _) hle, hsg]
    simp only [nextIdx]
    have hci : text[i] = c := by
      rw [← hc]; simp [List.getD_eq_getElem?_getD, hi]
    rw [collect, collectS.eq_def]
    simp only [List.size_toArray, hi, dite_true, List.getElem_toArray, hci, Nat.not_le.2 hj, if_false,
      isNL_eq, hnl, Bool.false_eq_true]
    by_cases hd : e.dec c ≠ 255
    · rw [if_pos hd, if_pos hd]
      by_cases hj3 : j = 3
      · subst hj3; rw [if_pos rfl]; exact collect_done e _ _ _
      · rw [if_neg hj3]; exact ih (i + 1) (j + 1) _ (by omega) (by omega) hnext
    · rw [if_neg hd, if_neg hd]
      by_cases hp : some c ≠ e.pad
      · rw [if_pos hp, if_pos hp]
      · rw [if_neg hp, if_neg hp]
        by_cases hj01 : j = 0 ∨ j = 1
        · rw [if_pos hj01, if_pos hj01, Nat.add_sub_cancel]
        · rw [if_neg hj01, if_neg hj01]
          have hs1 := skipNL_eq text _ (i + 1) (Nat.le_refl _) (by omega)
          rw [hnext] at hs1
          by_cases hj2 : j = 2
          · subst hj2
            simp only [if_true, hs1]
            match sg, hnext with
            | [], _ => simp
            | (c', i') :: sg', hnext =>
              obtain ⟨_, hi', hc', _, hnext', _⟩ := sigAt_cons _ (i + 1) (Nat.le_refl _) hnext
              have hs2 := skipNL_eq text _ (i' + 1) (Nat.le_refl _) (by omega)
              rw [hnext'] at hs2
              simp only [nextIdx_cons, toArray_getD, hc', Nat.ne_of_lt hi', if_false]
              by_cases hp' : some c' ≠ e.pad
              · rw [if_pos hp', if_pos hp']
              · rw [if_neg hp', if_neg hp']
                simp only [hs2]
          · simp only [hj2, if_false, hs1]

end GoCrypt.Base64LE
