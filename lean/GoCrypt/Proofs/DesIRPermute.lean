import GoCrypt.Proofs.DesIRBase
import GoCrypt.Gen.DesIR
import GoCrypt.Proofs.DesBits

/-!
# Word IR: `permute816` / `permute1616` as regenerated are `Des.permuteNib`

The loop `for _, r := range p { v |= r[c&0x0F]; c >>= 4 }` is run for an ARBITRARY number of rows by
induction on the rows that are left (`pnL` is the model's loop as a recursion); the two Go functions have
the same body, so one lemma serves both. Helper lemmas only.
-/

namespace GoCrypt.DesIR
open GoCrypt.Gen.DesIR GoCrypt.Kdf GoCrypt.Kdf.Des GoCrypt.Bits

/-- The body of the loop of `permute816` (statement 1 of the function). -/
def permBody : Stmt := (proc_permute816.body.nth 1).rangeBody

theorem permBody_1616 : (proc_permute1616.body.nth 1).rangeBody = permBody := rfl

theorem nib_lt (cw : UInt64) : (cw &&& UInt64.ofNat 15).toNat < 16 := by
  have := toNat_and_le cw (UInt64.ofNat 15)
  have e : (UInt64.ofNat 15).toNat = 15 := by decide
  omega

/-- One iteration: row `.tab [16] o t` in slot 3. -/
theorem permBody_step (c : Ctx) (g : Globals) (t : Array Nat) (o : Nat) (P : Val) (cw v : UInt64) :
    exec c g permBody [.u64 cw, P, .u64 v, .tab [16] o t] =
      .norm [.u64 (cw >>> 4), P, .u64 (v ||| tbl t (o + (cw &&& 0x0F).toNat)), .tab [16] o t] := by
  simp only [permBody, proc_permute816, Stmt.nth, Stmt.drop, Stmt.head, Stmt.rangeBody, desir,
    indexVal_tab _ _ _ _ _ (nib_lt cw), shr64_lt _ _ (by decide : 4 < 64)]
  rfl

/-- The loop over rows `r … r+k-1` of the table `t` is the model's loop `pnL`. -/
theorem perm_loop (c : Ctx) (g : Globals) (t : Array Nat) (P : Val) (k : Nat) :
    ∀ (r i : Nat) (cw v : UInt64) (R : Val),
      ∃ cw' R', rangeLoop none (some 3) (exec c g permBody) i ((List.range' r k).map (tabElem [16] 0 t))
          [.u64 cw, P, .u64 v, R] = .norm [.u64 cw', P, .u64 (pnL t r k v cw), R'] := by
  induction k with
  | zero => intro r i cw v R; exact ⟨cw, R, rfl⟩
  | succ k ih =>
    intro r i cw v R
    rw [List.range'_succ, List.map_cons, rangeLoop_cons]
    simp only [desir]
    rw [permBody_step, andThen_norm]
    obtain ⟨cw', R', h⟩ := ih (r + 1) (i + 1) (cw >>> 4) (v ||| tbl t (0 + r * (16 * 1) + (cw &&& 0x0F).toNat)) (.tab [16] (0 + r * (16 * 1)) t)
    refine ⟨cw', R', ?_⟩
    rw [h, pnL]
    simp only [Nat.zero_add, Nat.mul_one]

/-- `permute816(c, p)` / `permute1616(c, p)`, and any function with this body, on a `rows × 16` table. -/
theorem permute_body (c : Ctx) (g : Globals) (p : Proc) (hn : p.nparams = 2) (hs : p.nslots = 4)
    (hb : p.body = proc_permute816.body) (t : Array Nat) (rows : Nat) (cw : UInt64) :
    execProc c g p [.u64 cw, .tab [rows, 16] 0 t] = .ok (.u64 (permuteNib t rows cw)) := by
  apply execProc_of_ret _ _ _ _ _ (by rw [hn]; rfl)
  rw [hn, hs, hb]
  show exec c g proc_permute816.body [.u64 cw, .tab [rows, 16] 0 t, .undef, .undef] = _
  have hsplit : proc_permute816.body =
      (.decl 2 (.scalar .u64) ;;; .range none (some 3) (.var 1) permBody ;;; .ret (.var 2)) := rfl
  rw [hsplit]
  simp only [desir, zeroVal, elems, List.range_eq_range']
  obtain ⟨cw', R', h⟩ := perm_loop c g t (.tab [rows, 16] 0 t) rows 0 0 cw 0 .undef
  rw [h, permuteNib_eq_pnL]
  simp only [desir]

end GoCrypt.DesIR
