import GoCrypt.Proofs.CodecIRSmall

/-!
# Codec IR: `isEmpty` = the model's `isEmptyVal`

Helper lemmas only.
-/

namespace GoCrypt.CIR
open GoCrypt.Codec GoCrypt.Gen.codecIR
open GoCrypt.TIIR (RType Res kindNum fiType kindNum_ptr)

/-- Running the body of `isEmpty` on a value. -/
theorem isEmpty_eq (c : Ctx) (m : Mem) (v : Val) :
    execProc c isEmptyIR m [v] = procResult (exec c isEmptyIR.body m [v, .undef]) := by
  rw [execProc_eq _ _ _ _ (by rfl)]; rfl

theorem isEmpty_ptr_nil (c : Ctx) (m : Mem) (t : RType) (ro : Bool) (hd : 0 < t.depth) :
    execProc c isEmptyIR m [.rv t .nilPtr ro] = .ok (m, [.bool true]) := by
  rw [isEmpty_eq]
  simp only [isEmptyIR]
  ci_simp [valKindNum_ptr t _ hd, valIsNil_nil t ro hd]

theorem isEmpty_ptr_nonnil (c : Ctx) (m : Mem) (t : RType) (g : GVal) (ro : Bool) (hd : 0 < t.depth) :
    execProc c isEmptyIR m [.rv t (.ptr g) ro] = .ok (m, [.bool false]) := by
  rw [isEmpty_eq]
  simp only [isEmptyIR]
  ci_simp [valKindNum_ptr t _ hd, valIsNil_ptr t g ro hd]

theorem valLen_str (t : RType) (s : Bytes) (ro : Bool) (hd : t.depth = 0) :
    ext1 .valLen (.rv t (.str s) ro) = .ok (.int s.length) := by simp [ext1, hd]
theorem valLen_bytes (t : RType) (s : Bytes) (ro : Bool) (hd : t.depth = 0) :
    ext1 .valLen (.rv t (.bytes s) ro) = .ok (.int s.length) := by simp [ext1, hd]
theorem valInt_int (t : RType) (v : Int) (ro : Bool) (hd : t.depth = 0) :
    ext1 .valInt (.rv t (.int v) ro) = .ok (.int v) := by simp [ext1, hd]
theorem valUint_uint (t : RType) (v : Nat) (ro : Bool) (hd : t.depth = 0) :
    ext1 .valUint (.rv t (.uint v) ro) = .ok (.int v) := by simp [ext1, hd]
theorem valString_str (t : RType) (s : Bytes) (ro : Bool) (hd : t.depth = 0) :
    ext1 .valString (.rv t (.str s) ro) = .ok (.str s) := by simp [ext1, hd]

theorem isEmpty_str (c : Ctx) (m : Mem) (t : RType) (s : Bytes) (ro : Bool) (hd : t.depth = 0) (hk : t.kind = .string) :
    execProc c isEmptyIR m [.rv t (.str s) ro] = .ok (m, [.bool s.isEmpty]) := by
  rw [isEmpty_eq]
  simp only [isEmptyIR]
  have hkn : kindNum t = 24 := by simp [kindNum, hd, hk]
  ci_simp [valKindNum_plain t _ hd (by simp [hk]), hkn, valLen_str t s ro hd]
  cases s <;> simp

theorem isEmpty_bytes (c : Ctx) (m : Mem) (t : RType) (s : Bytes) (ro : Bool) (hd : t.depth = 0) (hk : t.kind = .bytes) :
    execProc c isEmptyIR m [.rv t (.bytes s) ro] = .ok (m, [.bool s.isEmpty]) := by
  rw [isEmpty_eq]
  simp only [isEmptyIR]
  have hkn : kindNum t = 23 := by simp [kindNum, hd, hk]
  ci_simp [valKindNum_plain t _ hd (by simp [hk]), hkn, valLen_bytes t s ro hd]
  cases s <;> simp

theorem isEmpty_arr (c : Ctx) (m : Mem) (t : RType) (s : Bytes) (n : Nat) (ro : Bool) (hd : t.depth = 0) (hk : t.kind = .byteArray n) :
    execProc c isEmptyIR m [.rv t (.bytes s) ro] = .ok (m, [.bool s.isEmpty]) := by
  rw [isEmpty_eq]
  simp only [isEmptyIR]
  have hkn : kindNum t = 17 := by simp [kindNum, hd, hk]
  ci_simp [valKindNum_plain t _ hd (by simp [hk]), hkn, valLen_bytes t s ro hd]
  cases s <;> simp

theorem isEmpty_int (c : Ctx) (m : Mem) (t : RType) (v : Int) (b : Nat) (ro : Bool) (hd : t.depth = 0) (hk : t.kind = .int b) :
    execProc c isEmptyIR m [.rv t (.int v) ro] = .ok (m, [.bool (v == 0)]) := by
  rw [isEmpty_eq]
  simp only [isEmptyIR]
  have hv : (v == 0) = decide (v = 0) := by
    by_cases h : v = 0 <;> simp [h]
  rw [hv]
  rcases kindNum_int t b hd hk with h | h | h | h | h <;>
    ci_simp [valKindNum_plain t _ hd (by simp [hk]), h, valInt_int t v ro hd]

theorem isEmpty_uint (c : Ctx) (m : Mem) (t : RType) (v : Nat) (b : Nat) (ro : Bool) (hd : t.depth = 0) (hk : t.kind = .uint b) :
    execProc c isEmptyIR m [.rv t (.uint v) ro] = .ok (m, [.bool (v == 0)]) := by
  rw [isEmpty_eq]
  simp only [isEmptyIR]
  have hv : (v == 0) = decide ((v : Int) = 0) := by
    cases v with
    | zero => simp
    | succ n => simp; omega
  rw [hv]
  rcases kindNum_uint t b hd hk with h | h | h | h | h <;>
    ci_simp [valKindNum_plain t _ hd (by simp [hk]), h, valUint_uint t v ro hd]

theorem isEmpty_struct (c : Ctx) (m : Mem) (t : RType) (fs : List GVal) (n : String) (ro : Bool) (hd : t.depth = 0)
    (hk : t.kind = .structRef n) :
    execProc c isEmptyIR m [.rv t (.struct fs) ro] = .ok (m, [.bool false]) := by
  rw [isEmpty_eq]
  simp only [isEmptyIR]
  have hkn : kindNum t = 25 := by simp [kindNum, hd, hk]
  ci_simp [valKindNum_plain t _ hd (by simp [hk]), hkn]

end GoCrypt.CIR

namespace GoCrypt.CIR
open GoCrypt.Codec GoCrypt.Gen.codecIR
open GoCrypt.TIIR (RType Res kindNum fiType kindNum_ptr)

theorem valLen_other (t : RType) (k n : Nat) (ro : Bool) (hd : t.depth = 0) (hk : k = 17 ∨ k = 21 ∨ k = 23) :
    ext1 .valLen (.rv t (.other k n) ro) = .ok (.int n) := by
  rcases hk with h | h | h <;> simp [ext1, hd, h]
theorem valBool_other (t : RType) (n : Nat) (ro : Bool) (hd : t.depth = 0) :
    ext1 .valBool (.rv t (.other 1 n) ro) = .ok (.bool (n != 0)) := by simp [ext1, hd]
theorem valUint_other (t : RType) (n : Nat) (ro : Bool) (hd : t.depth = 0) :
    ext1 .valUint (.rv t (.other 12 n) ro) = .ok (.int n) := by simp [ext1, hd]
theorem valFloat_other (t : RType) (k n : Nat) (ro : Bool) (hd : t.depth = 0) (hk : k = 13 ∨ k = 14) :
    ext1 .valFloat (.rv t (.other k n) ro) = .ok (.flt (n == 0)) := by
  rcases hk with h | h <;> simp [ext1, hd, h]

theorem natZero_decide (n : Nat) : decide ((n : Int) = 0) = (n == 0) := by
  cases n with
  | zero => simp
  | succ n => simp; omega

theorem isEmpty_other (c : Ctx) (m : Mem) (t : RType) (k n : Nat) (d : String) (ro : Bool) (hd : t.depth = 0)
    (hk : t.kind = .other d) (hok : okOtherKind k = true) :
    execProc c isEmptyIR m [.rv t (.other k n) ro] = .ok (m, [.bool (otherEmpty k n)]) := by
  rw [isEmpty_eq]
  simp only [isEmptyIR]
  have hkn := valKindNum_other t k n d hd hk
  by_cases h1 : k = 1
  · subst h1; ci_simp [hkn, valBool_other t n ro hd]; cases n <;> simp [otherEmpty]
  by_cases h12 : k = 12
  · subst h12; ci_simp [hkn, valUint_other t n ro hd, natZero_decide]; cases n <;> simp [otherEmpty]
  by_cases h13 : k = 13
  · subst h13; ci_simp [hkn, valFloat_other t 13 n ro hd (by simp)]; simp [otherEmpty]
  by_cases h14 : k = 14
  · subst h14; ci_simp [hkn, valFloat_other t 14 n ro hd (by simp)]; simp [otherEmpty]
  by_cases h17 : k = 17
  · subst h17; ci_simp [hkn, valLen_other t 17 n ro hd (by simp), natZero_decide]; cases n <;> simp [otherEmpty]
  by_cases h21 : k = 21
  · subst h21; ci_simp [hkn, valLen_other t 21 n ro hd (by simp), natZero_decide]; cases n <;> simp [otherEmpty]
  by_cases h23 : k = 23
  · subst h23; ci_simp [hkn, valLen_other t 23 n ro hd (by simp), natZero_decide]; cases n <;> simp [otherEmpty]
  simp [okOtherKind] at hok
  obtain ⟨h2, h3, h4, h5, h6, h7, h8, h9, h10, h11, h20, h22, h24⟩ := hok
  ci_simp [hkn, h1, h12, h13, h14, h17, h21, h23, h2, h3, h4, h5, h6, h7, h8, h9, h10, h11, h20, h22, h24]
  simp [otherEmpty, h1, h12, h13, h14, h17, h21, h23]

/-- `isEmpty` on a field value as `FieldByIndex` delivers it is the model's `isEmptyVal`
(for a field with `omitempty`: the only place `Marshal` asks). -/
theorem isEmpty_spec (c : Ctx) (m : Mem) (fi : FieldInfo) (fv : FVal) (g : GVal) (ro : Bool)
    (hrep : RepF fi fv g) (hom : fi.opts.omitEmpty = true) :
    execProc c isEmptyIR m [.rv (fiType fi) g ro] = .ok (m, [.bool (isEmptyVal fi fv)]) := by
  rcases hrep with ⟨hd, hfv, hg⟩ | ⟨g0, hg, hv, _⟩
  · subst hfv hg
    exact isEmpty_ptr_nil c m (fiType fi) ro hd
  · by_cases hd : fi.ptrDepth = 0
    · have hd' : (fiType fi).depth = 0 := hd
      rw [hd] at hg; simp only [ptrChain] at hg; subst hg
      cases hv with
      | str s hk => rw [isEmpty_str c m _ s ro hd' hk]; simp [isEmptyVal, hd]
      | bytes b hk => rw [isEmpty_bytes c m _ b ro hd' hk]; simp [isEmptyVal, hd]
      | arr b n hk hl => rw [isEmpty_arr c m _ b n ro hd' hk]; simp [isEmptyVal, hd]
      | int v bits hk => rw [isEmpty_int c m _ v bits ro hd' hk]; simp [isEmptyVal, hd]
      | uint v bits hk => rw [isEmpty_uint c m _ v bits ro hd' hk]; simp [isEmptyVal, hd]
      | strct fs n hk => rw [isEmpty_struct c m _ fs n ro hd' hk]; simp [isEmptyVal]
      | other k n d hk hok hem => rw [isEmpty_other c m _ k n d ro hd' hk hok, hem hom]; simp [isEmptyVal]
    · obtain ⟨d, hd'⟩ : ∃ d, fi.ptrDepth = d + 1 := ⟨fi.ptrDepth - 1, by omega⟩
      rw [hd'] at hg; simp only [ptrChain] at hg; subst hg
      rw [isEmpty_ptr_nonnil c m (fiType fi) _ ro (by show 0 < fi.ptrDepth; omega)]
      cases hv <;> simp [isEmptyVal, hd]

/-- What `c.call 4` must do (it is `isEmpty`). -/
def IsEmptySpec (c : Ctx) : Prop :=
  ∀ (m : Mem) (fi : FieldInfo) (fv : FVal) (g : GVal) (ro : Bool), RepF fi fv g → fi.opts.omitEmpty = true →
    c.call 4 m [.rv (fiType fi) g ro] = .ok (m, [.bool (isEmptyVal fi fv)])

end GoCrypt.CIR
