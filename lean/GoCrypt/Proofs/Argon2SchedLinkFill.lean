import GoCrypt.Proofs.Argon2SchedLink

/-!
# Argon2 lane scheduling, part 3 — the whole fill and the key (support for C09)

* `processBlocks_eq_cFill`: the model's `processBlocks` is the nested fold (pass, slice, lane,
  index) of the block operations `cStep`;
* `seqFill_eq_cFill`: the abstract sequential fill `Argon2Sched.seqFill` of the concrete system
  `modelPhases` (cells `Block`, `G := blockG version`, `rnd := rndWord time memory mode`), started
  from `memOf B`, is `memOf` of the same nested fold;
* `model_fill_eq_seqFill`: hence `memOf (processBlocks B …) = seqFill (modelPhases …) (memOf B)`;
* `runPhases_eq_processBlocks`: running the `4·time` phases under ARBITRARY complete schedules
  gives the array computed by `processBlocks`;
* `key_pipeline`, `modelMemory_eq`, `model_geom`, `initBlocks_size`: the glue for `Key`.
-/

namespace GoCrypt.Argon2SchedLink
open GoCrypt GoCrypt.Kdf.Argon2 GoCrypt.Argon2Sched GoCrypt.Argon2Eq
open GoCrypt.Gen.argon2crypto

/-! ## the sequential fill on the array -/

/-- phase `(n, slice)` on the array, lanes one after the other -/
def cPhase (t m' y v p q L n slice : Nat) (B : Array Block) : Array Block :=
  (List.range' 0 p).foldl (fun B lane => cSegment t m' y v p q L n slice lane B) B

/-- all passes and slices on the array -/
def cFill (t m' y v p q L : Nat) (B : Array Block) : Array Block :=
  (List.range' 0 t).foldl (fun B n => (List.range' 0 4).foldl (fun B slice =>
    cPhase t m' y v p q L n slice B) B) B

/-- **`processBlocks` = the nested fold of `cStep`**, and the size of the memory is preserved. -/
theorem processBlocks_eq_cFill {m' p q L : Nat} (hL : 2 ≤ L) (hq : q = 4 * L) (hm : m' = p * q)
    (hm32 : m' < 2 ^ 32) (hp : 1 ≤ p) (t y v : Nat) (B : Array Block) (hB : B.size = m') :
    processBlocks B t m' p y v = cFill t m' y v p q L B ∧ (cFill t m' y v p q L B).size = m' := by
  have hq' : m' / p = q := by rw [hm, Nat.mul_comm]; exact Nat.mul_div_cancel _ (by omega)
  have hL' : m' / p / 4 = L := by rw [hq', hq]; omega
  rw [processBlocks_eq_foldl, hL', hq']
  unfold cFill cPhase
  -- passes
  refine foldl_range'_inv
    (fun B n => (List.range' 0 4).foldl (fun B slice => (List.range' 0 p).foldl
        (fun B lane => processSegment B t m' p y v q L n slice lane) B) B)
    (fun B n => (List.range' 0 4).foldl (fun B slice => (List.range' 0 p).foldl
        (fun B lane => cSegment t m' y v p q L n slice lane B) B) B)
    (fun _ B => B.size = m') t 0 B hB ?_
  intro n B _ _ hn
  -- slices
  refine foldl_range'_inv
    (fun B slice => (List.range' 0 p).foldl (fun B lane => processSegment B t m' p y v q L n slice lane) B)
    (fun B slice => (List.range' 0 p).foldl (fun B lane => cSegment t m' y v p q L n slice lane B) B)
    (fun _ B => B.size = m') 4 0 B hn ?_
  intro slice B _ hslice hs
  -- lanes
  refine foldl_range'_inv
    (fun B lane => processSegment B t m' p y v q L n slice lane)
    (fun B lane => cSegment t m' y v p q L n slice lane B)
    (fun _ B => B.size = m') p 0 B hs ?_
  intro lane B _ hlane hl
  have D : SegDom m' p q L slice lane := ⟨hL, hq, hm, hm32, by omega, by omega⟩
  exact ⟨processSegment_eq_cSteps D t y v n B hl, (cSegment_size ..).trans hl⟩

/-! ## the abstract sequential fill -/

theorem foldl_finRange_val {σ : Type} (f : σ → Nat → σ) :
    ∀ (n : Nat) (s : σ),
      (List.finRange n).foldl (fun s (i : Fin n) => f s i.val) s = (List.range' 0 n).foldl f s := by
  intro n
  induction n with
  | zero => intro s; rfl
  | succ n ih =>
    intro s
    rw [List.finRange_succ_last, List.foldl_append, List.foldl_map, List.range'_1_concat,
      List.foldl_append]
    simp only [Fin.val_castSucc, List.foldl_cons, List.foldl_nil, Fin.val_last, Nat.zero_add]
    rw [ih]

theorem segDom_of_geom {m' p q L : Nat} (geo : Geom q L p) (hm : m' = p * q) (slice lane : Nat)
    (hslice : slice < 4) (hlane : lane < p) : SegDom m' p q L slice lane :=
  ⟨geo.seg, geo.lanes_eq, hm, by have := geo.mem; omega, hslice, hlane⟩

/-- The lane-goroutine systems of the `4·time` phases of the fill, with the MODEL's block function
and address source. -/
def modelPhases {lanes segments threads : Nat} (geo : Geom lanes segments threads)
    (mode version time memory : Nat) : List (Sys Block threads) :=
  argon2Phases geo (blockG version) (rndWord time memory mode) time

/-- one phase: the abstract sequential run (`lane = 0, 1, …`) of the concrete system on `memOf B`
is `memOf` of the array phase -/
theorem seqRun_phase {m' p q L : Nat} (geo : Geom q L p) (hm : m' = p * q) (t y v n : Nat)
    (s : Fin 4) (B : Array Block) (hB : B.size = m') :
    (argon2Phase geo (blockG v) (rndWord t m' y n s.val) n s).seqRun (List.finRange p) (memOf B)
        = memOf (cPhase t m' y v p q L n s.val B) ∧
      (cPhase t m' y v p q L n s.val B).size = m' := by
  unfold Sys.seqRun cPhase
  show (List.finRange p).foldl (fun m (l : Fin p) =>
      (fun m i => runList (argon2Tasks q L p (blockG v) (rndWord t m' y n s.val) n s.val i) m) m l.val)
      (memOf B) = _ ∧ _
  rw [foldl_finRange_val
    (fun m i => runList (argon2Tasks q L p (blockG v) (rndWord t m' y n s.val) n s.val i) m)]
  have key := foldl_rel
    (fun (m : Mem Block) i => runList (argon2Tasks q L p (blockG v) (rndWord t m' y n s.val) n s.val i) m)
    (fun (B : Array Block) lane => cSegment t m' y v p q L n s.val lane B)
    (fun _ m B => m = memOf B ∧ B.size = m') p 0 (memOf B) B ⟨rfl, hB⟩ ?_
  · exact key
  intro lane m B' _ hlane ⟨e, hsz⟩
  subst e
  have D := segDom_of_geom geo hm s.val lane s.isLt (by omega)
  exact ⟨(memOf_cSegment D t y v n B' hsz).symm, (cSegment_size ..).trans hsz⟩

/-- **The abstract sequential fill of the concrete system is the array fill.** -/
theorem seqFill_eq_cFill {m' p q L : Nat} (geo : Geom q L p) (hm : m' = p * q) (t y v : Nat)
    (B : Array Block) (hB : B.size = m') :
    seqFill (modelPhases geo y v t m') (memOf B) = memOf (cFill t m' y v p q L B) := by
  unfold seqFill modelPhases argon2Phases cFill
  rw [List.foldl_flatMap, List.range_eq_range']
  have key := foldl_rel
    (fun (m : Mem Block) n => List.foldl (fun m (S : Sys Block p) => S.seqRun (List.finRange p) m) m
      ((List.finRange 4).map fun s => argon2Phase geo (blockG v) (rndWord t m' y n s.val) n s))
    (fun (B : Array Block) n => (List.range' 0 4).foldl (fun B slice => cPhase t m' y v p q L n slice B) B)
    (fun _ m B => m = memOf B ∧ B.size = m') t 0 (memOf B) B ⟨rfl, hB⟩ ?_
  · exact key.1
  intro n m B' _ _ ⟨e, hsz⟩
  subst e
  have h4 : List.finRange 4 = [0, 1, 2, 3] := rfl
  have r4 : List.range' 0 4 = [0, 1, 2, 3] := rfl
  simp only [h4, r4, List.map_cons, List.map_nil, List.foldl_cons, List.foldl_nil]
  obtain ⟨e0, s0⟩ := seqRun_phase geo hm t y v n 0 B' hsz
  obtain ⟨e1, s1⟩ := seqRun_phase geo hm t y v n 1 _ s0
  obtain ⟨e2, s2⟩ := seqRun_phase geo hm t y v n 2 _ s1
  obtain ⟨e3, s3⟩ := seqRun_phase geo hm t y v n 3 _ s2
  rw [e0, e1, e2, e3]
  exact ⟨rfl, s3⟩

/-- **`model_fill_eq_seqFill`.**  The model's fill loop over `Array Block`
(index `= lane * laneLength + column`) computes, cell for cell, the abstract sequential fill of the
instantiated system started from the memory it is given — for EVERY memory `B` with `m'` entries
(in particular the one produced by `initBlocks`). -/
theorem model_fill_eq_seqFill {m' p q L : Nat} (geo : Geom q L p) (hm : m' = p * q) (t y v : Nat)
    (B : Array Block) (hB : B.size = m') :
    memOf (processBlocks B t m' p y v) = seqFill (modelPhases geo y v t m') (memOf B) ∧
      (processBlocks B t m' p y v).size = m' := by
  have hm32 : m' < 2 ^ 32 := by have := geo.mem; omega
  obtain ⟨e, hsz⟩ := processBlocks_eq_cFill geo.seg geo.lanes_eq hm hm32 geo.thr t y v B hB
  rw [e, seqFill_eq_cFill geo hm t y v B hB]
  exact ⟨rfl, hsz⟩

/-! ## arbitrary complete schedules -/

theorem argon2Phases_length {V : Type} {lanes segments threads : Nat} (geo : Geom lanes segments threads)
    (G : V → V → V → V) (rnd : Nat → Nat → Nat → Nat → V → Nat) (time : Nat) :
    (argon2Phases geo G rnd time).length = 4 * time := by
  unfold argon2Phases
  induction time with
  | zero => rfl
  | succ k ih =>
    rw [List.range_succ, List.flatMap_append, List.length_append, ih]
    simp [List.length_finRange]
    omega

theorem modelPhases_length {lanes segments threads : Nat} (geo : Geom lanes segments threads)
    (mode version time memory : Nat) : (modelPhases geo mode version time memory).length = 4 * time :=
  argon2Phases_length geo _ _ time

/-- Run the `4·time` phases of the fill on the array `B`, phase number `k` under the schedule
`scheds[k]` (a list of lane numbers: the lane named takes its next block operation; lanes that have
finished idle). -/
def runPhases {lanes segments threads : Nat} (geo : Geom lanes segments threads)
    (mode version time memory : Nat) (scheds : List (List (Fin threads))) (B : Array Block) : Array Block :=
  arrOf (parFill ((modelPhases geo mode version time memory).zip scheds) (memOf B)) B.size

/-- every phase gets a schedule, and every schedule lets every lane finish its segment -/
def CompleteScheds {lanes segments threads : Nat} (geo : Geom lanes segments threads)
    (mode version time memory : Nat) (scheds : List (List (Fin threads))) : Prop :=
  scheds.length = 4 * time ∧
    ∀ ps ∈ (modelPhases geo mode version time memory).zip scheds, ps.1.Complete ps.2

/-- **Any complete schedules compute the array of `processBlocks`.** -/
theorem runPhases_eq_processBlocks {m' p q L : Nat} (geo : Geom q L p) (hm : m' = p * q) (t y v : Nat)
    (B : Array Block) (hB : B.size = m') (scheds : List (List (Fin p)))
    (hc : CompleteScheds geo y v t m' scheds) :
    runPhases geo y v t m' scheds B = processBlocks B t m' p y v := by
  obtain ⟨e, hsz⟩ := model_fill_eq_seqFill geo hm t y v B hB
  unfold runPhases
  have hpar := parFill_eq_seqFill _ hc.2 (memOf B)
  rw [List.map_fst_zip (by rw [modelPhases_length, hc.1]; exact Nat.le_refl _)] at hpar
  have h := arrOf_memOf (processBlocks B t m' p y v)
  rw [hsz] at h
  rw [hpar, ← e, hB]
  exact h

/-! ## glue for `Key` -/

/-- the number of blocks `Key` works on (same text as in `key`) -/
def modelMemory (memory threads : Nat) : Nat :=
  let memory := u32 (memory / u32 (syncPoints * threads) * u32 (syncPoints * threads))
  if memory < u32 (2 * syncPoints * threads) then u32 (2 * syncPoints * threads) else memory

/-- `Key` is `extractKey ∘ processBlocks ∘ initBlocks` on `modelMemory` blocks (definitional) -/
theorem key_pipeline (mode version : Nat) (password salt : Bytes) (time memory threads keyLen : Nat) :
    key mode version password salt time memory threads keyLen =
      extractKey (processBlocks
          (initBlocks (initHash password salt time memory threads keyLen mode version)
            (modelMemory memory threads) threads)
          time (modelMemory memory threads) threads mode version)
        (modelMemory memory threads) threads keyLen := rfl

theorem modelMemory_eq (m p : Nat) (hp : p ≤ 255) (hm : m < 2 ^ 32) :
    modelMemory m p = roundedMemory m p := by
  have h1 : u32 (syncPoints * p) = 4 * p := by simp only [u32, syncPoints]; omega
  have h2 : u32 (2 * syncPoints * p) = 8 * p := by simp only [u32, syncPoints]; omega
  have h3 : m / (4 * p) * (4 * p) ≤ m := Nat.div_mul_le_self m (4 * p)
  have h4 : u32 (m / (4 * p) * (4 * p)) = m / (4 * p) * (4 * p) := by simp only [u32]; omega
  simp only [modelMemory, h1, h2, h4]
  unfold roundedMemory; split <;> omega

/-- the shape of the memory `Key` works on: `p` lanes of `4·L` blocks, `L ≥ 2`, `< 2^32` blocks -/
theorem roundedMemory_shape (m p : Nat) (hp1 : 1 ≤ p) (hp : p ≤ 255) (hm : m < 2 ^ 32) :
    ∃ L, 2 ≤ L ∧ roundedMemory m p = p * (4 * L) ∧ roundedMemory m p < 2 ^ 32 := by
  have h3 : m / (4 * p) * (4 * p) ≤ m := Nat.div_mul_le_self m (4 * p)
  unfold roundedMemory
  generalize m / (4 * p) = k at h3
  by_cases hk : 2 ≤ k
  · have h5 : 2 * (4 * p) ≤ k * (4 * p) := Nat.mul_le_mul_right _ hk
    refine ⟨k, hk, ?_, ?_⟩
    · rw [Nat.max_eq_left (by omega)]; ac_rfl
    · rw [Nat.max_eq_left (by omega)]; omega
  · have h5 : k * (4 * p) ≤ 1 * (4 * p) := Nat.mul_le_mul_right _ (by omega)
    refine ⟨2, Nat.le_refl _, ?_, ?_⟩
    · rw [Nat.max_eq_right (by omega)]; omega
    · rw [Nat.max_eq_right (by omega)]; omega

theorem shape_div {p L : Nat} (hp1 : 1 ≤ p) : p * (4 * L) / p = 4 * L ∧ p * (4 * L) / p / 4 = L := by
  have : p * (4 * L) / p = 4 * L := Nat.mul_div_cancel_left _ (by omega)
  rw [this]; exact ⟨rfl, by omega⟩

/-- **The geometry hypothesis holds for every `Key` call in the domain of the Go function**
(`1 ≤ threads ≤ 255`, `memory` a `uint32`), whatever the requested memory. -/
theorem model_geom (m p : Nat) (hp1 : 1 ≤ p) (hp : p ≤ 255) (hm : m < 2 ^ 32) :
    Geom (modelMemory m p / p) (modelMemory m p / p / 4) p := by
  rw [modelMemory_eq m p hp hm]
  obtain ⟨L, hL, e, h32⟩ := roundedMemory_shape m p hp1 hp hm
  rw [e] at h32 ⊢
  obtain ⟨d1, d2⟩ := shape_div (L := L) hp1
  rw [d2, d1]
  exact ⟨hL, rfl, hp1, by omega⟩

theorem modelMemory_mul (m p : Nat) (hp1 : 1 ≤ p) (hp : p ≤ 255) (hm : m < 2 ^ 32) :
    modelMemory m p = p * (modelMemory m p / p) := by
  rw [modelMemory_eq m p hp hm]
  obtain ⟨L, _, e, _⟩ := roundedMemory_shape m p hp1 hp hm
  rw [e, (shape_div (L := L) hp1).1]

/-- `initBlocks` returns `modelMemory` blocks -/
theorem initBlocks_size (P S : Bytes) (t m p T y v : Nat) (hp1 : 1 ≤ p) (hp : p ≤ 255) (hm : m < 2 ^ 32) :
    (initBlocks (initHash P S t m p T y v) (modelMemory m p) p).size = modelMemory m p := by
  rw [modelMemory_eq m p hp hm]
  obtain ⟨L, hL, e, h32⟩ := roundedMemory_shape m p hp1 hp hm
  rw [initHash_eq, initBlocks_eq (Spec.Argon2Rfc.H 64 (h0Preimage p T m t v y P S))
    (blake2b_length 64 _ (Nat.le_refl _)) p (4 * L) _ hp1 (by omega) e h32]
  exact (refInit_GInv _ p (4 * L) L _ rfl e).1.1

/-! ## schedule families indexed by (pass, slice) -/

/-- One schedule per phase, given as a function of the pass `n` and the slice. -/
def familyScheds {threads : Nat} (time : Nat) (sched : Nat → Fin 4 → List (Fin threads)) :
    List (List (Fin threads)) :=
  (List.range time).flatMap fun n => (List.finRange 4).map (sched n)

theorem zip_flatMap {α β γ : Type} (f : α → List β) (g : α → List γ)
    (h : ∀ a, (f a).length = (g a).length) :
    ∀ l : List α, (l.flatMap f).zip (l.flatMap g) = l.flatMap fun a => (f a).zip (g a) := by
  intro l
  induction l with
  | nil => rfl
  | cons a l ih => rw [List.flatMap_cons, List.flatMap_cons, List.flatMap_cons, List.zip_append (h a), ih]

theorem familyScheds_length {threads : Nat} (time : Nat) (sched : Nat → Fin 4 → List (Fin threads)) :
    (familyScheds time sched).length = 4 * time := by
  unfold familyScheds
  induction time with
  | zero => rfl
  | succ k ih =>
    rw [List.range_succ, List.flatMap_append, List.length_append, ih]
    simp [List.length_finRange]
    omega

/-- A family of schedules in which, for every pass `n < time` and every slice, the schedule of
phase `(n, slice)` is complete for that phase's system, is a complete family. -/
theorem completeScheds_of_family {lanes segments threads : Nat} (geo : Geom lanes segments threads)
    (mode version time memory : Nat) (sched : Nat → Fin 4 → List (Fin threads))
    (h : ∀ n, n < time → ∀ s : Fin 4,
      (argon2Phase geo (blockG version) (rndWord time memory mode n s.val) n s).Complete (sched n s)) :
    CompleteScheds geo mode version time memory (familyScheds time sched) := by
  refine ⟨familyScheds_length time sched, ?_⟩
  intro ps hps
  unfold modelPhases argon2Phases familyScheds at hps
  rw [zip_flatMap _ _ (fun a => by simp)] at hps
  obtain ⟨n, hn, hps⟩ := List.mem_flatMap.mp hps
  rw [List.zip_map'] at hps
  obtain ⟨s, _, rfl⟩ := List.mem_map.mp hps
  exact h n (List.mem_range.mp hn) s

/-- Every lane's goroutine in a phase has at most `segments` block operations, so a schedule that
names every lane at least `segments` times is complete. -/
theorem phase_complete_of_count {V : Type} {lanes segments threads : Nat} (geo : Geom lanes segments threads)
    (G : V → V → V → V) (rnd : Nat → Nat → V → Nat) (n : Nat) (s : Fin 4) (sched : List (Fin threads))
    (h : ∀ l, segments ≤ sched.count l) : (argon2Phase geo G rnd n s).Complete sched := by
  intro l
  have : ((argon2Phase geo G rnd n s).tasks l).length = segments - startIndex n s.val := by
    show (argon2Tasks lanes segments threads G rnd n s.val l.val).length = _
    simp [argon2Tasks]
  rw [this]
  exact Nat.le_trans (Nat.sub_le _ _) (h l)

end GoCrypt.Argon2SchedLink
