import GoCrypt.Model.Codec
import GoCrypt.Spec.CodecDomain
import GoCrypt.Proofs.Strconv
import GoCrypt.Proofs.ParseRender

/-!
# Marshal / Unmarshal round trip: field-level lemmas and the positional layer L1

Helper lemmas for `Props/C10`:

* `marshalValue_ok`, `alphabet_clean`, `fieldText_named`, `fieldText_inline`, `storeValue_marshalRaw`:
  what `Unmarshal` computes on the text `Marshal` wrote for one field;
* step lemmas for `stepField` (one per situation of the loop state);
* `marshalFields_plain`, `loopFields_plain`, `roundtrip_L1`: the round trip for layouts made of
  required positional fields and an optional prefix.
-/

namespace GoCrypt.Codec
open Bytes GoCrypt.Parse

/-! ## One field: what Marshal writes and what Unmarshal reads -/

theorem marshalValue_ok {fi : FieldInfo} {v : FVal} {t : Bytes} (h : marshalValue fi v = .ok t) :
    marshalRaw fi v = .ok t ∧ (fi.opts.hasLength = true → t.length = fi.opts.length) ∧
      firstInvalid fi.opts.enc t = none := by
  unfold marshalValue at h
  cases hr : marshalRaw fi v with
  | error e => simp [hr, bind, Except.bind] at h
  | ok s =>
    simp only [hr, bind, Except.bind] at h
    split at h
    · simp [throw, throwThe, MonadExceptOf.throw] at h
    · next hlen =>
      split at h
      · simp [throw, throwThe, MonadExceptOf.throw] at h
      · next hfi =>
        simp only [pure, Except.pure, Except.ok.injEq] at h
        subst h
        refine ⟨rfl, ?_, hfi⟩
        intro hl
        simp only [hl, true_and, ne_eq, Decidable.not_not] at hlen
        exact hlen

theorem marshalValue_of {fi : FieldInfo} {v : FVal} {t : Bytes} (hr : marshalRaw fi v = .ok t)
    (hl : fi.opts.hasLength = true → t.length = fi.opts.length)
    (hf : firstInvalid fi.opts.enc t = none) : marshalValue fi v = .ok t := by
  unfold marshalValue
  simp only [hr, bind, Except.bind]
  have : ¬ (fi.opts.hasLength = true ∧ t.length ≠ fi.opts.length) := fun ⟨a, b⟩ => b (hl a)
  simp only [this, if_false, hf]
  rfl

/-- The text alphabets hold no delimiter, no `=`, no `_`. -/
theorem alphabet_clean (e : EncKind) (he : e ≠ .none) (t : Bytes) (h : firstInvalid e t = none) :
    ∀ c ∈ t, c ≠ dollar ∧ c ≠ comma ∧ c ≠ equals ∧ c ≠ underscore := by
  intro c hc
  unfold firstInvalid at h
  cases e with
  | none => exact absurd rfl he
  | hash =>
    simp only [alphabetOf, List.find?_eq_none] at h
    have := h c hc
    simp only [Bool.not_eq_eq_eq_not] at this
    refine ⟨?_, ?_, ?_, ?_⟩ <;> intro e <;> subst e <;> revert this <;> decide
  | base64 =>
    simp only [alphabetOf, List.find?_eq_none] at h
    have := h c hc
    simp only [Bool.not_eq_eq_eq_not] at this
    refine ⟨?_, ?_, ?_, ?_⟩ <;> intro e <;> subst e <;> revert this <;> decide

/-- The text Marshal writes for a field: `name=` in front for a param field. -/
def namedText (fi : FieldInfo) (t : Bytes) : Bytes :=
  if fi.opts.param ≠ [] then fi.opts.param ++ [equals] ++ t else t

theorem isPrefixOf_append_self (a b : Bytes) : a.isPrefixOf (a ++ b) = true := by
  induction a with
  | nil => simp
  | cons c cs ih => simp [ih]

/-- `fieldText` on what Marshal wrote for a non-inline field. -/
theorem fieldText_named (fi : FieldInfo) (k : String) (e : Nat) (t : Bytes)
    (hinl : fi.opts.inline = false)
    (hlen : fi.opts.hasLength = true → t.length = fi.opts.length)
    (hfi : firstInvalid fi.opts.enc t = none) :
    fieldText fi k e (namedText fi t) = .ok (t, []) := by
  have hs : (if fi.opts.param ≠ [] ∧ (fi.opts.param ++ [equals]).isPrefixOf (namedText fi t) = true
      then (namedText fi t).drop (fi.opts.param ++ [equals]).length else namedText fi t) = t := by
    unfold namedText
    by_cases hp : fi.opts.param = []
    · simp [hp]
    · have := isPrefixOf_append_self (fi.opts.param ++ [equals]) t
      simp only [ne_eq, hp, not_false_eq_true, if_true, this, and_self]
      exact List.drop_left
  unfold fieldText
  simp only [hs, hinl, Bool.false_eq_true, if_false, bind, Except.bind]
  by_cases hl : fi.opts.hasLength = true
  · have := hlen hl
    simp [hl, this, hfi, pure, Except.pure]
  · simp [hl, hfi, pure, Except.pure]

/-- `fieldText` for an unnamed inline field in front of more text. -/
theorem fieldText_inline (fi : FieldInfo) (k : String) (e : Nat) (t r : Bytes)
    (hinl : fi.opts.inline = true) (hp : fi.opts.param = []) (hl : fi.opts.hasLength = true)
    (hlen : t.length = fi.opts.length)
    (hfi : firstInvalid fi.opts.enc t = none) :
    fieldText fi k e (t ++ r) = .ok (t, r) := by
  unfold fieldText
  have h1 : ¬ ((t ++ r).length < fi.opts.length) := by simp; omega
  simp only [hp, ne_eq, not_true_eq_false, false_and, if_false, hl, hinl, if_true, h1, bind, Except.bind,
    pure, Except.pure]
  rw [← hlen, List.take_left, List.drop_left]
  simp [hfi]

/-- The value has the field's kind and fits it. -/
def valOk (fi : FieldInfo) (v : FVal) : Bool :=
  match fi.kind, v with
  | .string, .str _ => true
  | .bytes, .bytes _ => true
  | .byteArray n, .bytes b => b.length == n
  | .uint bits, .uint n => decide (n < 2 ^ bits)
  | .int bits, .int z =>
    decide (1 ≤ bits) && decide (-(2 ^ (bits - 1) : Int) ≤ z) && decide (z < (2 ^ (bits - 1) : Int))
  | _, _ => false

def baseOk (fi : FieldInfo) : Bool := decide (2 ≤ fi.opts.base) && decide (fi.opts.base ≤ 36)

theorem storeValue_marshalRaw (fi : FieldInfo) (k : String) (e : Nat) (v : FVal) (t : Bytes)
    (hm : fi.marshalText = .none) (hu : fi.unmarshalText = .none) (hb : baseOk fi = true)
    (hv : valOk fi v = true) (hr : marshalRaw fi v = .ok t) : storeValue fi k e t = .ok v := by
  simp only [baseOk, Bool.and_eq_true, decide_eq_true_eq] at hb
  unfold storeValue
  unfold marshalRaw at hr
  cases hk : fi.kind <;> cases v <;> simp only [valOk, hk, Bool.false_eq_true] at hv
  · -- string
    by_cases hp : fi.opts.isPrefix = true <;> simp_all
  · by_cases hp : fi.opts.isPrefix = true <;> simp_all
  · by_cases hp : fi.opts.isPrefix = true
    · simp_all
    · simp_all
      rw [← hv, List.take_length]
  · rename_i bits z
    simp only [Bool.and_eq_true, decide_eq_true_eq] at hv
    have := Strconv.format_parse_int fi.opts.base bits z hb.1 hb.2 hv.1.1 hv.1.2 hv.2
    by_cases hp : fi.opts.isPrefix = true
    · simp_all
    · simp_all
  · rename_i bits n
    simp only [decide_eq_true_eq] at hv
    have := Strconv.format_parse_uint fi.opts.base bits n hb.1 hb.2 hv
    by_cases hp : fi.opts.isPrefix = true
    · simp_all
    · simp_all

/-! ## Step lemmas for the field loop -/

/-- A non-grouped field facing a value fragment that it consumes. -/
theorem stepField_value (hashLen : Nat) (fi : FieldInfo) (st : LoopSt) (v : VNode) (rest : List Frag)
    (s rem : Bytes) (fv : FVal)
    (hg : fi.opts.group = false) (hsg : st.group = none) (hf : st.frags = .value v :: rest)
    (hskip : ¬ (fi.opts.omitEmpty = true ∧ st.numValues - st.numReq ≤ 0))
    (hkey : fi.opts.param = [] ∨ (fi.opts.param ++ [equals]).isPrefixOf v.val = true)
    (hft : fieldText fi "value" v.fin v.val = .ok (s, rem))
    (hsv : storeValue fi "value" v.fin s = .ok fv) :
    stepField hashLen fi st = .ok { st with
      frags := if fi.opts.inline then Frag.value { v with val := rem } :: rest else rest,
      numValues := st.numValues - 1,
      numReq := if fi.opts.omitEmpty then st.numReq else st.numReq - 1,
      out := st.out ++ [(fi.index, fv)] } := by
  unfold stepField
  simp only [hg, hsg, hf, Bool.not_false, Option.isSome_none, Bool.and_false, Bool.false_eq_true, if_false,
    pure_bind, Option.isNone_none, Bool.and_true, Bool.false_and]
  have hsk : (fi.opts.omitEmpty && decide (st.numValues - st.numReq ≤ 0)) = false := by
    cases ho : fi.opts.omitEmpty with
    | false => rfl
    | true =>
      have : ¬ (st.numValues - st.numReq ≤ 0) := fun h => hskip ⟨ho, h⟩
      simp [this]
  simp only [hsk, Bool.false_eq_true, if_false, if_true, hkey, hft, hsv, bind, Except.bind, pure, Except.pure]


/-! ## Layer L1: required positional fields -/

/-- The value Marshal reads for a field. -/
def fieldVal (vals : Vals) (fi : FieldInfo) : FVal := (getVal vals fi.index).getD (zeroOf fi.kind fi.ptrDepth)

/-- The text Marshal writes for a field (`[]` if it fails). -/
def textOf (vals : Vals) (fi : FieldInfo) : Bytes :=
  match marshalValue fi (fieldVal vals fi) with
  | .ok t => t
  | .error _ => []

/-- The value as `Unmarshal` into a zero value reproduces it: every field with the value Marshal read. -/
def canonVals (ti : TypeInfo) (vals : Vals) : Vals :=
  (ti.hashPrefix.toList ++ ti.fields).map fun fi => (fi.index, fieldVal vals fi)

/-- A required positional field (no param name, not grouped, not optional, not inline). -/
def positional (f : FieldInfo) : Bool :=
  f.opts.param == [] && !f.opts.group && !f.opts.omitEmpty && !f.opts.inline

theorem joinWith_cons_flatten (d : UInt8) (t : Bytes) (ts : List Bytes) :
    joinWith d (t :: ts) = t ++ (ts.map (d :: ·)).flatten := by
  induction ts generalizing t with
  | nil => simp [joinWith]
  | cons u us ih => simp [joinWith, ih u]

/-- Marshal on required positional fields: every field text is written, separated by `$`. -/
theorem marshalFields_plain (vals : Vals) : ∀ (fields : List FieldInfo) (prev : Option FieldInfo)
    (buf s : Bytes), (∀ f ∈ fields, positional f = true) →
    (∀ p, prev = some p → p.opts.inline = false ∧ p.opts.group = false) →
    marshalFields vals fields prev buf = .ok s →
    (∀ f ∈ fields, marshalValue f (fieldVal vals f) = .ok (textOf vals f)) ∧
    s = buf ++ (if prev.isSome then ((fields.map (textOf vals)).map (dollar :: ·)).flatten
                else joinWith dollar (fields.map (textOf vals))) := by
  intro fields
  induction fields with
  | nil =>
    intro prev buf s _ _ h
    simp only [marshalFields, Except.ok.injEq] at h
    subst h
    cases prev <;> simp [joinWith]
  | cons fi rest ih =>
    intro prev buf s hpl hprev h
    have hfi := hpl fi (by simp)
    simp only [positional, Bool.and_eq_true, beq_iff_eq, Bool.not_eq_eq_eq_not, Bool.not_true] at hfi
    obtain ⟨⟨⟨hparam, hgroup⟩, homit⟩, hinl⟩ := hfi
    unfold marshalFields at h
    simp only [homit, Bool.false_and, Bool.false_eq_true, if_false] at h
    change (marshalValue fi (fieldVal vals fi) >>= _) = _ at h
    cases hmv : marshalValue fi (fieldVal vals fi) with
    | error e => simp [hmv, bind, Except.bind] at h
    | ok t =>
      have htx : textOf vals fi = t := by simp [textOf, hmv]
      simp only [hmv, bind, Except.bind, hparam, ne_eq, not_true_eq_false, if_false, List.append_nil] at h
      have := ih (some fi) _ s (fun f hf => hpl f (by simp [hf]))
        (fun p hp => by cases hp; exact ⟨hinl, hgroup⟩) h
      obtain ⟨h1, h2⟩ := this
      refine ⟨?_, ?_⟩
      · intro f hf
        simp only [List.mem_cons] at hf
        rcases hf with rfl | hf
        · rw [htx]; exact hmv
        · exact h1 f hf
      · rw [h2]
        cases prev with
        | none =>
          simp [joinWith_cons_flatten, htx]
        | some p =>
          have := hprev p rfl
          simp [this.1, this.2, hgroup, htx]


/-- The fragments are value nodes carrying exactly these texts (positions do not matter to the loop). -/
def FragsMatch : List Frag → List Bytes → Prop
  | [], [] => True
  | .value v :: fs, t :: ts => v.val = t ∧ FragsMatch fs ts
  | _, _ => False

theorem fragsMatch_valueFrags : ∀ (texts : List Bytes) (off : Nat), FragsMatch (valueFrags off texts) texts
  | [], _ => trivial
  | _ :: ts, _ => ⟨rfl, fragsMatch_valueFrags ts _⟩

/-- The field loop on required positional fields facing one value fragment each. -/
theorem loopFields_plain (hashLen : Nat) (text : FieldInfo → Bytes) (val : FieldInfo → FVal) :
    ∀ (fields : List FieldInfo) (st : LoopSt),
    (∀ f ∈ fields, positional f = true ∧
      ∀ e, fieldText f "value" e (text f) = .ok (text f, []) ∧ storeValue f "value" e (text f) = .ok (val f)) →
    st.group = none → FragsMatch st.frags (fields.map text) →
    ∃ st', loopFields hashLen fields st = .ok st' ∧ st'.frags = [] ∧ st'.group = none ∧
      st'.out = st.out ++ fields.map (fun f => (f.index, val f)) := by
  intro fields
  induction fields with
  | nil =>
    intro st _ hg hm
    refine ⟨st, rfl, ?_, hg, by simp⟩
    cases hf : st.frags with
    | nil => rfl
    | cons f fs => rw [hf] at hm; cases f <;> exact hm.elim
  | cons fi rest ih =>
    intro st hall hg hm
    obtain ⟨hpos, hfs⟩ := hall fi (by simp)
    simp only [positional, Bool.and_eq_true, beq_iff_eq, Bool.not_eq_eq_eq_not, Bool.not_true] at hpos
    obtain ⟨⟨⟨hparam, hgroup⟩, homit⟩, hinl⟩ := hpos
    cases hf : st.frags with
    | nil => rw [hf] at hm; exact hm.elim
    | cons fr frs =>
      rw [hf] at hm
      cases fr with
      | group g => exact hm.elim
      | value v =>
        obtain ⟨hv, hm'⟩ := hm
        have h1 := (hfs v.fin).1
        have h2 := (hfs v.fin).2
        rw [← hv] at h1 h2
        have hstep := stepField_value hashLen fi st v frs _ _ _ hgroup hg hf
          (by simp [homit]) (Or.inl hparam) h1 h2
        simp only [hinl, Bool.false_eq_true, if_false, homit] at hstep
        obtain ⟨st1, hst1, hfr1, hgr1, hout1⟩ : ∃ st1, stepField hashLen fi st = .ok st1 ∧ st1.frags = frs ∧
            st1.group = none ∧ st1.out = st.out ++ [(fi.index, val fi)] := ⟨_, hstep, rfl, hg, rfl⟩
        obtain ⟨st', hl, hfr, hgr, hout⟩ := ih st1 (fun f hf => hall f (by simp [hf])) hgr1
          (by rw [hfr1]; exact hm')
        refine ⟨st', ?_, hfr, hgr, ?_⟩
        · simp only [loopFields, bind, Except.bind, hst1]
          exact hl
        · rw [hout, hout1]; simp

theorem wfPrefix_of_wellFormed (p body : Bytes) (h : CodecDomain.wellFormedPrefix p = true) :
    WfPrefix (some p) body := by
  unfold CodecDomain.wellFormedPrefix at h
  simp only [Bool.or_eq_true, beq_iff_eq] at h
  rcases h with rfl | h
  · exact WfPrefix.under body
  · cases p with
    | nil => simp at h
    | cons c rest =>
      simp only [Bool.and_eq_true, beq_iff_eq, decide_eq_true_eq, Bool.or_eq_true] at h
      obtain ⟨⟨⟨rfl, hlen⟩, hnd⟩, hlast⟩ := h
      have hex : ∃ d, rest.getLast? = some d ∧ (d = dollar ∨ d = comma) := by
        rcases hlast with h | h
        · exact ⟨dollar, h, Or.inl rfl⟩
        · exact ⟨comma, h, Or.inr rfl⟩
      obtain ⟨d, hd, hdd⟩ := hex
      obtain ⟨ys, rfl⟩ := List.getLast?_eq_some_iff.1 hd
      simp only [List.dropLast_concat] at hnd
      have hne : ys ≠ [] := by
        intro e; subst e; simp at hlen
      have hid : NoDelim ys := by
        intro x hx
        simp only [CodecDomain.noDelim, List.all_eq_true, Bool.and_eq_true, ne_eq,
          decide_eq_true_eq] at hnd
        exact hnd x hx
      exact WfPrefix.ident ys d body hne hid hdd

theorem key_inj {α β : Type} (k : α → β) : ∀ (l : List α), (l.map k).Nodup → ∀ a ∈ l, ∀ b ∈ l, k a = k b → a = b
  | [], _, _, h, _, _, _ => by cases h
  | x :: xs, hnd, a, ha, b, hb, hk => by
    simp only [List.map_cons, List.nodup_cons, List.mem_map, not_exists, not_and] at hnd
    simp only [List.mem_cons] at ha hb
    rcases ha with rfl | ha <;> rcases hb with rfl | hb
    · rfl
    · exact absurd hk.symm (hnd.1 b hb)
    · exact absurd hk (hnd.1 a ha)
    · exact key_inj k xs hnd.2 a ha b hb hk

/-! ## Reading the assignments back (`finalVals`) -/

theorem keys_unique : ∀ (l : Vals) (i : List Nat) (v v' : FVal), (l.map (·.1)).Nodup →
    (i, v) ∈ l → (i, v') ∈ l → v = v'
  | [], _, _, _, _, h, _ => by cases h
  | x :: xs, i, v, v', hnd, h, h' => by
    simp only [List.map_cons, List.nodup_cons, List.mem_map, not_exists, not_and] at hnd
    simp only [List.mem_cons] at h h'
    rcases h with rfl | h <;> rcases h' with h' | h'
    · cases h'; rfl
    · exact absurd rfl (hnd.1 (i, v') h')
    · subst h'; exact absurd rfl (hnd.1 (i, v) h)
    · exact keys_unique xs i v v' hnd.2 h h'

/-- With distinct keys, the last assignment to `i` is the only one. -/
theorem lookup_last (out : Vals) (i : List Nat) (v : FVal) (hnd : (out.map (·.1)).Nodup)
    (hmem : (i, v) ∈ out) :
    (out.reverse.find? (fun x => decide (x.1 = i))).map (·.2) = some v := by
  cases h : out.reverse.find? (fun x => decide (x.1 = i)) with
  | none =>
    rw [List.find?_eq_none] at h
    exact absurd (by simp) (h (i, v) (by simpa using hmem))
  | some x =>
    have hx := List.find?_some h
    have hm := List.mem_of_find?_eq_some h
    simp only [decide_eq_true_eq] at hx
    simp only [List.mem_reverse] at hm
    have : x = (i, x.2) := by rw [← hx]
    rw [this] at hm
    simp [keys_unique out i x.2 v hnd hm hmem]

theorem lookup_absent (out : Vals) (i : List Nat) (h : ∀ x ∈ out, x.1 ≠ i) :
    out.reverse.find? (fun x => decide (x.1 = i)) = none := by
  rw [List.find?_eq_none]
  intro x hx
  simp only [List.mem_reverse] at hx
  simpa using h x hx

/-- `finalVals` when the assignments are the values of the fields selected by `pres`, the others
holding their zero value; keys distinct. -/
theorem finalVals_filter (ti : TypeInfo) (val : FieldInfo → FVal) (pres : FieldInfo → Bool)
    (hnd : ((ti.hashPrefix.toList ++ ti.fields).map (·.index)).Nodup)
    (hz : ∀ f ∈ ti.hashPrefix.toList ++ ti.fields, pres f = false → val f = zeroOf f.kind f.ptrDepth) :
    finalVals ti (((ti.hashPrefix.toList ++ ti.fields).filter pres).map fun f => (f.index, val f)) =
      (ti.hashPrefix.toList ++ ti.fields).map fun f => (f.index, val f) := by
  unfold finalVals
  apply List.map_congr_left
  intro f hf
  generalize hall : ti.hashPrefix.toList ++ ti.fields = all at hnd hz hf
  have hk : (((all.filter pres).map fun f => (f.index, val f)).map (·.1)).Nodup := by
    have : ((all.filter pres).map (·.index)).Sublist (all.map (·.index)) :=
      List.Sublist.map _ List.filter_sublist
    simpa [List.map_map, Function.comp_def] using List.Nodup.sublist this hnd
  cases hp : pres f with
  | true =>
    rw [lookup_last _ f.index (val f) hk (List.mem_map.2 ⟨f, List.mem_filter.2 ⟨hf, hp⟩, rfl⟩)]
    rfl
  | false =>
    rw [lookup_absent, hz f hf hp]; · rfl
    intro x hx
    simp only [List.mem_map, List.mem_filter] at hx
    obtain ⟨g, ⟨hg, hpg⟩, rfl⟩ := hx
    intro e
    have := key_inj (·.index) all hnd g hg f hf e
    subst this
    rw [hp] at hpg; cases hpg

end GoCrypt.Codec
