import GoCrypt.Proofs.DesBits
import GoCrypt.Spec.DesFips

/-!
# Bit lists ↔ 64-bit words

`Spec/DesFips.lean` computes on bit lists (bit 1 first), the Go code on 64-bit words in several
layouts. `lay ρ b` is the word whose bit `j` is element `ρ j` of the list `b`; list operations that
only move bits (`select`, `take`, `drop`, `rotl`, `++`) are *list routings* (`LR`), and every
composition `word → list → … → word` collapses to one index function, so that agreement with a word
routing (`Bits.IsRoute`) is again a finite check.
-/

namespace GoCrypt.Bits
open GoCrypt.DesFips

/-! ## Words from bit functions -/

/-- Number with the given binary digits, least significant first. -/
def natOfBits : List Bool → Nat
  | [] => 0
  | b :: bs => b.toNat + 2 * natOfBits bs

theorem natOfBits_testBit (l : List Bool) (j : Nat) : (natOfBits l).testBit j = l.getD j false := by
  induction l generalizing j with
  | nil => simp [natOfBits]
  | cons b bs ih =>
    cases j with
    | zero =>
      simp only [natOfBits, Nat.testBit_zero, List.getD_cons_zero]
      cases b <;> simp [Nat.add_mod]
    | succ j =>
      rw [Nat.testBit_succ, List.getD_cons_succ, ← ih j]
      congr 1
      simp only [natOfBits]
      cases b <;> simp <;> omega

def wordOfFn (p : Nat → Bool) : UInt64 := UInt64.ofNat (natOfBits ((List.range 64).map p))

theorem bit_wordOfFn (p : Nat → Bool) (j : Nat) (hj : j < 64) : bit (wordOfFn p) j = p j := by
  unfold wordOfFn
  rw [bit_ofNat, natOfBits_testBit]
  simp [hj, List.getD_eq_getElem?_getD]

/-- Layout: bit `j` of the word is element `ρ j` of the list. -/
def lay (ρ : Route) (b : Bits) : UInt64 :=
  wordOfFn fun j => match ρ j with | some m => b.getD m false | none => false

theorem bit_lay (ρ : Route) (b : Bits) (j : Nat) (hj : j < 64) :
    bit (lay ρ b) j = (match ρ j with | some m => b.getD m false | none => false) := bit_wordOfFn _ j hj

theorem lay_congr {ρ ρ' : Route} (h : ∀ j, j < 64 → ρ j = ρ' j) (b : Bits) : lay ρ b = lay ρ' b := by
  apply ext; intro j hj; rw [bit_lay _ _ j hj, bit_lay _ _ j hj, h j hj]

/-- A word routing after a layout is a layout. -/
theorem IsRoute.lay {F : UInt64 → UInt64} {σ : Route} (hF : IsRoute F σ) (ρ : Route) (b : Bits) :
    F (lay ρ b) = Bits.lay (rcomp σ ρ) b := by
  apply ext; intro j hj
  rw [hF _ j hj, bit_lay _ _ j hj]
  unfold Route.eval rcomp
  cases σ j with
  | none => rfl
  | some i =>
    by_cases hi : i < 64
    · simp only [if_pos hi]; exact bit_lay _ _ i hi
    · simp only [if_neg hi]; exact bit_ge _ (Nat.le_of_not_lt hi)

theorem xor_getD (a b : Bits) (h : a.length = b.length) (k : Nat) :
    (DesFips.xor a b).getD k false = (a.getD k false != b.getD k false) := by
  unfold DesFips.xor
  simp only [List.getD_eq_getElem?_getD, List.getElem?_zipWith]
  by_cases hk : k < a.length
  · have hk' : k < b.length := h ▸ hk
    simp [List.getElem?_eq_getElem hk, List.getElem?_eq_getElem hk']
  · have hk' : ¬ k < b.length := h ▸ hk
    simp [List.getElem?_eq_none (Nat.le_of_not_lt hk), List.getElem?_eq_none (Nat.le_of_not_lt hk')]

theorem xor_length (a b : Bits) (h : a.length = b.length) : (DesFips.xor a b).length = a.length := by
  unfold DesFips.xor; simp [h]

theorem lay_xor (ρ : Route) (a b : Bits) (h : a.length = b.length) : lay ρ (DesFips.xor a b) = lay ρ a ^^^ lay ρ b := by
  apply ext; intro j hj
  rw [bit_xor, bit_lay _ _ j hj, bit_lay _ _ j hj, bit_lay _ _ j hj]
  cases ρ j with
  | none => rfl
  | some m => show (DesFips.xor a b).getD m false = _; rw [xor_getD a b h]

/-! ## List routings -/

/-- `g` maps lists of length `N` to lists of length `M`, element `k` of the result being element
`τ k` of the argument (or `false`). -/
def LR (g : Bits → Bits) (τ : Route) (N M : Nat) : Prop :=
  ∀ b : Bits, b.length = N → (g b).length = M ∧
    ∀ k, k < M → (g b).getD k false = (match τ k with | some m => b.getD m false | none => false)

theorem LR.id (N : Nat) : LR (fun b => b) rid N N := fun _ h => ⟨h, fun _ _ => rfl⟩

theorem select_getD (T : List Nat) (b : Bits) (k : Nat) :
    (select T b).getD k false = if k < T.length then b.getD (T.getD k 0 - 1) false else false := by
  unfold select
  simp only [List.getD_eq_getElem?_getD, List.getElem?_map]
  by_cases hk : k < T.length
  · simp [hk]
  · simp [hk]

/-- `select T ∘ g` -/
def lsel (T : List Nat) (M : Nat) (τ : Route) : Route :=
  fun k => if k < T.length then (if T.getD k 0 - 1 < M then τ (T.getD k 0 - 1) else none) else none

theorem LR.select {g : Bits → Bits} {τ : Route} {N M : Nat} (h : LR g τ N M) (T : List Nat) :
    LR (fun b => select T (g b)) (lsel T M τ) N T.length := by
  intro b hb
  obtain ⟨hl, hg⟩ := h b hb
  refine ⟨by simp [DesFips.select], fun k hk => ?_⟩
  rw [select_getD, if_pos hk]
  unfold lsel
  rw [if_pos hk]
  by_cases hm : T.getD k 0 - 1 < M
  · rw [if_pos hm, hg _ hm]
  · rw [if_neg hm, List.getD_eq_getElem?_getD, List.getElem?_eq_none (by omega)]; rfl

def ltake (n : Nat) (τ : Route) : Route := fun k => if k < n then τ k else none
def ldrop (n : Nat) (τ : Route) : Route := fun k => τ (k + n)

theorem LR.take {g : Bits → Bits} {τ : Route} {N M : Nat} (h : LR g τ N M) (n : Nat) (hn : n ≤ M) :
    LR (fun b => (g b).take n) (ltake n τ) N n := by
  intro b hb
  obtain ⟨hl, hg⟩ := h b hb
  refine ⟨by simp [hl, hn], fun k hk => ?_⟩
  unfold ltake
  rw [if_pos hk, ← hg k (by omega)]
  simp [List.getD_eq_getElem?_getD, hk]

theorem LR.drop {g : Bits → Bits} {τ : Route} {N M : Nat} (h : LR g τ N M) (n : Nat) (hn : n ≤ M) :
    LR (fun b => (g b).drop n) (ldrop n τ) N (M - n) := by
  intro b hb
  obtain ⟨hl, hg⟩ := h b hb
  refine ⟨by simp [hl], fun k hk => ?_⟩
  unfold ldrop
  rw [← hg (k + n) (by omega)]
  simp [List.getD_eq_getElem?_getD, List.getElem?_drop, Nat.add_comm]

def lapp (M₁ : Nat) (τ₁ τ₂ : Route) : Route := fun k => if k < M₁ then τ₁ k else τ₂ (k - M₁)

theorem LR.append {g₁ g₂ : Bits → Bits} {τ₁ τ₂ : Route} {N M₁ M₂ : Nat} (h₁ : LR g₁ τ₁ N M₁) (h₂ : LR g₂ τ₂ N M₂) :
    LR (fun b => g₁ b ++ g₂ b) (lapp M₁ τ₁ τ₂) N (M₁ + M₂) := by
  intro b hb
  obtain ⟨hl₁, hg₁⟩ := h₁ b hb
  obtain ⟨hl₂, hg₂⟩ := h₂ b hb
  refine ⟨by simp [hl₁, hl₂], fun k hk => ?_⟩
  unfold lapp
  by_cases hk1 : k < M₁
  · rw [if_pos hk1, ← hg₁ k hk1]
    simp [List.getD_eq_getElem?_getD, List.getElem?_append_left (hl₁ ▸ hk1)]
  · rw [if_neg hk1, ← hg₂ (k - M₁) (by omega)]
    simp [List.getD_eq_getElem?_getD, List.getElem?_append_right (by omega : (g₁ b).length ≤ k), hl₁]

/-- `rotl n = drop n ++ take n` -/
theorem LR.rotl {g : Bits → Bits} {τ : Route} {N M : Nat} (h : LR g τ N M) (n : Nat) (hn : n ≤ M) :
    LR (fun b => DesFips.rotl n (g b)) (lapp (M - n) (ldrop n τ) (ltake n τ)) N M := by
  have := (h.drop n hn).append (h.take n hn)
  have e : M - n + n = M := by omega
  rw [e] at this
  exact this

theorem LR.congr {g : Bits → Bits} {τ τ' : Route} {N M : Nat} (h : LR g τ N M) (he : ∀ k, k < M → τ k = τ' k) :
    LR g τ' N M := by
  intro b hb
  obtain ⟨hl, hg⟩ := h b hb
  exact ⟨hl, fun k hk => by rw [hg k hk, he k hk]⟩

/-- A layout after a list routing is a layout. -/
def rlay (ρ : Route) (M : Nat) (τ : Route) : Route :=
  fun j => match ρ j with | some e => if e < M then τ e else none | none => none

theorem LR.lay {g : Bits → Bits} {τ : Route} {N M : Nat} (h : LR g τ N M) (ρ : Route) (b : Bits) (hb : b.length = N) :
    Bits.lay ρ (g b) = Bits.lay (rlay ρ M τ) b := by
  obtain ⟨hl, hg⟩ := h b hb
  apply ext; intro j hj
  rw [bit_lay _ _ j hj, bit_lay _ _ j hj]
  unfold rlay
  cases ρ j with
  | none => rfl
  | some e =>
    by_cases he : e < M
    · simp only [if_pos he]; exact hg e he
    · simp only [if_neg he]
      rw [List.getD_eq_getElem?_getD, List.getElem?_eq_none (by omega)]; rfl

/-! ## Words ↔ lists -/

theorem wordBits_length (x : UInt64) : (wordBits x).length = 64 := by simp [wordBits, DesFips.ofNat]

theorem wordBits_getD (x : UInt64) (k : Nat) (hk : k < 64) : (wordBits x).getD k false = bit x (63 - k) := by
  unfold wordBits DesFips.ofNat bit
  simp [List.getD_eq_getElem?_getD, List.getElem?_map, List.getElem?_range hk]

/-- Laying out the bit list of a word is a word routing. -/
def rword (ρ : Route) : Route := fun j => match ρ j with | some e => if e < 64 then some (63 - e) else none | none => none

theorem isRoute_lay_wordBits (ρ : Route) : IsRoute (fun x => lay ρ (wordBits x)) (rword ρ) := by
  intro x j hj
  rw [bit_lay _ _ j hj]
  unfold Route.eval rword
  cases ρ j with
  | none => rfl
  | some e =>
    by_cases he : e < 64
    · simp only [if_pos he]; exact wordBits_getD x e he
    · simp only [if_neg he]
      rw [List.getD_eq_getElem?_getD, List.getElem?_eq_none (by rw [wordBits_length]; omega)]; rfl

theorem toNat_eq_natOfBits (b : Bits) : DesFips.toNat b = natOfBits b.reverse := by
  unfold DesFips.toNat
  suffices h : ∀ acc, b.foldl (fun acc x => 2 * acc + x.toNat) acc = acc * 2 ^ b.length + natOfBits b.reverse by
    simpa using h 0
  induction b with
  | nil => intro acc; simp [natOfBits]
  | cons x xs ih =>
    intro acc
    rw [List.foldl_cons, ih, List.reverse_cons]
    have happ : ∀ (l : List Bool) (y : Bool), natOfBits (l ++ [y]) = natOfBits l + y.toNat * 2 ^ l.length := by
      intro l y
      induction l with
      | nil => simp [natOfBits]
      | cons z zs ihz =>
        simp only [List.cons_append, natOfBits, ihz, List.length_cons, Nat.pow_succ]
        have : y.toNat * (2 ^ zs.length * 2) = 2 * (y.toNat * 2 ^ zs.length) := by
          rw [Nat.mul_comm (2 ^ zs.length) 2, Nat.mul_left_comm]
        omega
    rw [happ, List.length_reverse, List.length_cons, Nat.pow_succ]
    have : (2 * acc + x.toNat) * 2 ^ xs.length = acc * (2 ^ xs.length * 2) + x.toNat * 2 ^ xs.length := by
      rw [Nat.add_mul]; congr 1; rw [Nat.mul_comm 2 acc, Nat.mul_assoc, Nat.mul_comm 2]
    omega

/-- `bitsWord`: element `k` of a 64-bit list is bit `63 - k` of the word. -/
theorem bitsWord_eq_lay (b : Bits) (h : b.length = 64) : bitsWord b = lay (fun j => some (63 - j)) b := by
  apply ext; intro j hj
  rw [bit_lay _ _ j hj]
  unfold bitsWord
  rw [bit_ofNat, toNat_eq_natOfBits, natOfBits_testBit]
  simp only [hj, decide_true, Bool.true_and, List.getD_eq_getElem?_getD]
  rw [List.getElem?_reverse (by omega), h]

/-- A layout of `a ++ b` splits into layouts of the parts. -/
theorem lay_append (ρ : Route) (a b : Bits) (n : Nat) (ha : a.length = n) :
    lay ρ (a ++ b) =
      lay (fun j => match ρ j with | some e => if e < n then some e else none | none => none) a |||
      lay (fun j => match ρ j with | some e => if n ≤ e then some (e - n) else none | none => none) b := by
  apply ext; intro j hj
  rw [bit_or, bit_lay _ _ j hj, bit_lay _ _ j hj, bit_lay _ _ j hj]
  cases ρ j with
  | none => rfl
  | some e =>
    by_cases he : e < n
    · have : ¬ n ≤ e := by omega
      simp only [if_pos he, if_neg this, Bool.or_false]
      simp [List.getD_eq_getElem?_getD, List.getElem?_append_left (ha ▸ he)]
    · have h2 : n ≤ e := by omega
      simp only [if_neg he, if_pos h2, Bool.false_or]
      simp [List.getD_eq_getElem?_getD, List.getElem?_append_right (by omega : a.length ≤ e), ha]

end GoCrypt.Bits
