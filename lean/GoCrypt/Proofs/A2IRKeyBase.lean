import GoCrypt.Proofs.A2IRSpecs2

/-!
# Block IR: helpers for the proofs about `Key`, `initBlocks`, `extractKey`

Loops with an invariant (when the state after `k` iterations is only known up to the values of dead
slots), and a few facts about `Array.set!` and the heap.
-/

namespace GoCrypt.A2IR.KeyIR

/-! ## loops with an invariant -/

theorem rangeLoop_inv (body : Nat → Heap → Env → Out) (P : Nat → Heap → Env → Prop) :
    ∀ (n i : Nat) (h : Heap) (env : Env), P i h env →
      (∀ k h env, i ≤ k → k < i + n → P k h env → ∃ h' env', body k h env = .norm h' env' ∧ P (k + 1) h' env') →
      ∃ h' env', rangeLoop body n i h env = .norm h' env' ∧ P (i + n) h' env' := by
  intro n
  induction n with
  | zero => intro i h env h0 _; exact ⟨h, env, rfl, h0⟩
  | succ n ih =>
    intro i h env h0 hs
    obtain ⟨h1, env1, e1, p1⟩ := hs i h env (Nat.le_refl _) (by omega) h0
    obtain ⟨h2, env2, e2, p2⟩ := ih (i + 1) h1 env1 p1 (fun k h env hk1 hk2 => hs k h env (by omega) (by omega))
    refine ⟨h2, env2, ?_, ?_⟩
    · rw [rangeLoop, e1, andThen_norm, e2]
    · rw [show i + (n + 1) = i + 1 + n by omega]; exact p2

theorem loop_inv (cond : Heap → Env → Res Bool) (step : Heap → Env → Out) (P : Nat → Heap → Env → Prop) (n : Nat)
    (hs : ∀ k h env, k < n → P k h env → cond h env = .ok true ∧ ∃ h' env', step h env = .norm h' env' ∧ P (k + 1) h' env')
    (hn : ∀ h env, P n h env → cond h env = .ok false) :
    ∀ (fuel k : Nat) (h : Heap) (env : Env), k ≤ n → n - k ≤ fuel → P k h env →
      ∃ h' env', loop cond step fuel h env = .norm h' env' ∧ P n h' env' := by
  intro fuel
  induction fuel with
  | zero =>
    intro k h env hk hf p
    have : k = n := by omega
    subst this
    exact ⟨h, env, loop_false _ _ _ _ _ (hn h env p), p⟩
  | succ fuel ih =>
    intro k h env hk hf p
    by_cases hkn : k = n
    · subst hkn; exact ⟨h, env, loop_false _ _ _ _ _ (hn h env p), p⟩
    · obtain ⟨hc, h1, env1, e1, p1⟩ := hs k h env (by omega) p
      obtain ⟨h2, env2, e2, p2⟩ := ih (k + 1) h1 env1 (by omega) (by omega) p1
      exact ⟨h2, env2, by rw [loop_step _ _ _ _ _ hc, e1, andThen_norm, e2], p2⟩

/-! ## arrays and the heap -/

theorem foldl_set!_size {α : Type} (g : Array α → Nat → α) (l : List Nat) : ∀ (a : Array α),
    (l.foldl (fun b i => b.set! i (g b i)) a).size = a.size := by
  induction l with
  | nil => intro a; rfl
  | cons x xs ih => intro a; rw [List.foldl_cons, ih]; simp

theorem getElem!_set!_self {α : Type} [Inhabited α] (A : Array α) (i : Nat) (x : α) (hi : i < A.size) :
    (A.set! i x)[i]! = x := by
  simp [Array.set!_eq_setIfInBounds, hi]

theorem set!_set!_self {α : Type} (A : Array α) (i : Nat) (x y : α) : (A.set! i x).set! i y = A.set! i y := by
  simp [Array.set!_eq_setIfInBounds]

theorem getElem!_set!_ne {α : Type} [Inhabited α] (A : Array α) (i j : Nat) (x : α) (hij : i ≠ j) :
    (A.set! i x)[j]! = A[j]! := by
  simp [Array.set!_eq_setIfInBounds, Array.getElem!_eq_getD, Array.getD_eq_getD_getElem?, Array.getElem?_setIfInBounds_ne hij]

def forBlkExpr : Stmt → Expr
  | .forBlk _ _ e _ => e
  | _ => .unknown "not a range loop"

theorem Heap.set_get_self {h : Heap} {r : Ref} {o : Obj} (hg : h.get r = some o) : h.set r o = h := by
  cases h with | mk m s =>
  cases r with
  | mem i =>
    simp only [Heap.get] at hg
    obtain ⟨hi, e⟩ := List.getElem?_eq_some_iff.mp hg
    simp only [Heap.set, ← e, List.set_getElem_self]
  | stk i =>
    simp only [Heap.get] at hg
    obtain ⟨hi, e⟩ := List.getElem?_eq_some_iff.mp hg
    simp only [Heap.set, ← e, List.set_getElem_self]

theorem set!_getElem!_self (A : Array Block) (i : Nat) (hi : i < A.size) : A.set! i A[i]! = A := by
  apply Array.ext
  · simp
  · intro j h1 h2
    by_cases e : i = j
    · subst e; simp [Array.set!_eq_setIfInBounds, getElem!_pos, hi]
    · simp only [Array.set!_eq_setIfInBounds]
      exact Array.getElem_setIfInBounds_ne _ e

theorem Heap.set_alloc_new (h : Heap) (o o' : Obj) : (h.alloc o).set (.mem h.mem.length) o' = h.alloc o' := by
  simp [Heap.set, Heap.alloc]


theorem Heap.popTo_push_alloc (G : Heap) (os : List Obj) (o : Obj) (n : Nat) (hn : n = G.stk.length) :
    ((G.push os).alloc o).popTo n = G.alloc o := by
  subst hn; cases G; simp [Heap.popTo, Heap.push, Heap.alloc]

end GoCrypt.A2IR.KeyIR
