import GoCrypt.Proofs.TIIRDefs
import GoCrypt.Proofs.TIIRIndirect

/-!
# Type-info IR: the cold-cache path of `getTypeInfo`

From the statements about `field`, `normalize`, `getRawTypeInfo` (`FieldSpec`, `NormSpec`, `RawSpec` of
`Proofs/TIIRDefs.lean`, taken here as hypotheses) to `getTypeInfo` = `typeInfoOf`.  Also: the index
paths `rawFields` produces are valid `FieldByIndex` paths carrying the recorded tags (`TagsOk`).
Helper lemmas only.
-/

namespace GoCrypt.TIIR.Top
open GoCrypt.Codec GoCrypt.Gen.typeinfoIR GoCrypt.TIIR

/-! ## Representation lemmas -/

theorem Reps_mono {h h' : Heap} : ∀ {addrs : List Nat} {fis : List FieldInfo},
    (∀ a ∈ addrs, h'[a]? = h[a]?) → Reps h addrs fis → Reps h' addrs fis
  | [], [], _, _ => trivial
  | a :: as, fi :: fis, hm, hr => by
    obtain ⟨h1, h2⟩ := hr
    refine ⟨by rw [hm a (List.mem_cons_self)]; exact h1, Reps_mono (fun x hx => hm x (List.mem_cons_of_mem _ hx)) h2⟩
  | [], _ :: _, _, hr => hr.elim
  | _ :: _, [], _, hr => hr.elim

theorem Reps_mem {h : Heap} : ∀ {addrs : List Nat} {fis : List FieldInfo}, Reps h addrs fis →
    ∀ a ∈ addrs, ∃ fi ∈ fis, h[a]? = some (fiObj fi)
  | [], [], _, a, ha => by cases ha
  | x :: as, fi :: fis, hr, a, ha => by
    obtain ⟨h1, h2⟩ := hr
    rcases List.mem_cons.mp ha with rfl | ha'
    · exact ⟨fi, List.mem_cons_self, h1⟩
    · obtain ⟨fi', hf, hx⟩ := Reps_mem h2 a ha'
      exact ⟨fi', List.mem_cons_of_mem _ hf, hx⟩
  | [], _ :: _, hr, _, _ => hr.elim
  | _ :: _, [], hr, _, _ => hr.elim

theorem fiObj_ne_tiObj (fi : FieldInfo) (s : Val) (t : RType) (hp : Val) (l : List Nat) (n : Int) :
    fiObj fi ≠ tiObj s t hp l n := by
  intro h
  have := congrArg List.length h
  simp [fiObj, tiObj, optsVals] at this

/-- Writing the `typeInfo` record at `a` does not disturb field records. -/
theorem Reps_set_ti {h : Heap} {a : Nat} {s : Val} {t : RType} {hp : Val} {l : List Nat} {n : Int} (o : Obj)
    (ha : h[a]? = some (tiObj s t hp l n)) {addrs : List Nat} {fis : List FieldInfo}
    (hr : Reps h addrs fis) : Reps (h.set a o) addrs fis := by
  refine Reps_mono (fun x hx => ?_) hr
  obtain ⟨fi, _, hfx⟩ := Reps_mem hr x hx
  have hne : a ≠ x := by
    intro e; subst e
    rw [ha] at hfx
    exact fiObj_ne_tiObj fi s t hp l n (Option.some.inj hfx).symm
  exact List.getElem?_set_ne hne

theorem Reps_append {h : Heap} (ext : List Obj) {addrs : List Nat} {fis : List FieldInfo}
    (hr : Reps h addrs fis) : Reps (h ++ ext) addrs fis := by
  refine Reps_mono (fun x hx => ?_) hr
  obtain ⟨fi, _, hfx⟩ := Reps_mem hr x hx
  have hlt : x < h.length := by
    rcases Nat.lt_or_ge x h.length with hlt | hge
    · exact hlt
    · rw [List.getElem?_eq_none hge] at hfx; cases hfx
  exact List.getElem?_append_left hlt

theorem RepOpt_mono {h h' : Heap} {v : Val} {o : Option FieldInfo}
    (hm : ∀ (a : Nat) (fi : FieldInfo), h[a]? = some (fiObj fi) → h'[a]? = some (fiObj fi)) (hr : RepOpt h v o) : RepOpt h' v o := by
  cases v <;> cases o <;> simp only [RepOpt] at hr ⊢ <;> first | exact hr | exact hm _ _ hr

/-! ## `rawFields`: index paths -/

theorem lookup_mem {structs : List GoStruct} {n : String} {s : GoStruct}
    (h : Codec.lookupStruct structs n = some s) : s ∈ structs := List.mem_of_find?_eq_some h

/-- The cases of one field in `rawFields`. -/
theorem mem_rawFields_succ {structs : List GoStruct} {fuel : Nat} {s : GoStruct} {fi : FieldInfo}
    (h : fi ∈ rawFields structs (fuel + 1) s) :
    ∃ f i, s.fields[i]? = some f ∧
      ((fi = fieldInfoOf f i) ∨
       (∃ n st fi', f.anonymous = true ∧ f.kind = .structRef n ∧ Codec.lookupStruct structs n = some st ∧
          fi' ∈ rawFields structs fuel st ∧ fi = { fi' with index := i :: fi'.index })) := by
  simp only [rawFields, List.mem_flatMap] at h
  obtain ⟨⟨f, i⟩, hmem, hfi⟩ := h
  have hget : s.fields[i]? = some f := List.mem_zipIdx_iff_getElem?.mp hmem
  refine ⟨f, i, hget, ?_⟩
  simp only at hfi
  split at hfi
  · cases hfi
  · split at hfi
    · rename_i st hst
      right
      simp only [List.mem_map] at hfi
      obtain ⟨fi', hfi', rfl⟩ := hfi
      by_cases hanon : f.anonymous = true
      · simp only [hanon, if_true] at hst
        split at hst
        · rename_i n hk
          exact ⟨n, st, fi', hanon, hk, hst, hfi', rfl⟩
        · cases hst
      · simp [hanon] at hst
    · left
      simp only [List.mem_singleton] at hfi
      rw [hfi]; rfl

theorem rawFields_index_ne_nil {structs : List GoStruct} : ∀ {fuel : Nat} {s : GoStruct} {fi : FieldInfo},
    fi ∈ rawFields structs fuel s → fi.index ≠ [] ∧ fi.index.length ≤ fuel
  | 0, _, _, h => by simp [rawFields] at h
  | fuel + 1, s, fi, h => by
    obtain ⟨f, i, _, hc⟩ := mem_rawFields_succ h
    rcases hc with rfl | ⟨n, st, fi', _, _, _, hfi', rfl⟩
    · simp [fieldInfoOf]
    · have := (rawFields_index_ne_nil hfi').2
      simp; omega

/-- Anonymous struct fields are `T` or `*T` (true of every Go struct type): `FieldByIndex` removes at
most one star per step. -/
def EmbedPtrOk (structs : List GoStruct) : Prop :=
  ∀ s ∈ structs, ∀ f ∈ s.fields, f.anonymous = true → (∃ n, f.kind = .structRef n) → f.ptrDepth ≤ 1

theorem fieldByIndex_deref (structs : List GoStruct) (t : RType) (x : Int) (rest : List Int) :
    fieldByIndex structs t false (x :: rest) = fieldByIndex structs (derefStruct t) true (x :: rest) := by
  simp [fieldByIndex]

theorem structOf_ok {structs : List GoStruct} {t : RType} {n : String} {s : GoStruct}
    (hd : t.depth = 0) (hk : t.kind = .structRef n) (hl : Codec.lookupStruct structs n = some s) :
    structOf structs t = .ok s := by
  have hl' : TIIR.lookupStruct structs n = some s := hl
  simp [structOf, hd, hk, hl']

theorem fieldAt_ok {structs : List GoStruct} {t : RType} {n : String} {s : GoStruct} {i : Nat} {f : GoField}
    (hd : t.depth = 0) (hk : t.kind = .structRef n) (hl : Codec.lookupStruct structs n = some s)
    (hf : s.fields[i]? = some f) : fieldAt structs t (Int.ofNat i) = .ok f := by
  have : ¬ (Int.ofNat i < 0) := by simp
  simp [fieldAt, structOf_ok hd hk hl, hf]

theorem tagsOk_rawFields {structs : List GoStruct} (hemb : EmbedPtrOk structs) :
    ∀ (fuel : Nat) (t : RType) (n : String) (s : GoStruct), t.depth = 0 → t.kind = .structRef n →
      Codec.lookupStruct structs n = some s → TagsOk structs t (rawFields structs fuel s)
  | 0, _, _, _, _, _, _ => by intro fi h; simp [rawFields] at h
  | fuel + 1, t, n, s, hd, hk, hl => by
    intro fi hfi
    obtain ⟨f, i, hget, hc⟩ := mem_rawFields_succ hfi
    rcases hc with rfl | ⟨n', st, fi', hanon, hkf, hl', hfi', rfl⟩
    · refine ⟨f, i, ?_, rfl⟩
      have := fieldAt_ok hd hk hl hget
      simp only [fieldInfoOf, List.map_cons, List.map_nil, fieldByIndex, if_true, this]
      rfl
    · obtain ⟨x, rest, hidx⟩ : ∃ x rest, fi'.index = x :: rest := by
        have := (rawFields_index_ne_nil hfi').1
        cases hi : fi'.index with
        | nil => exact absurd hi this
        | cons x rest => exact ⟨x, rest, rfl⟩
      have hfmem : f ∈ s.fields := List.mem_of_getElem? hget
      have hpd : f.ptrDepth ≤ 1 := hemb s (lookup_mem hl) f hfmem hanon ⟨n', hkf⟩
      have hd' : (derefStruct (fieldType f)).depth = 0 ∧ (derefStruct (fieldType f)).kind = .structRef n' := by
        unfold derefStruct fieldType
        rcases Nat.lt_or_ge f.ptrDepth 1 with h0 | h1
        · have : f.ptrDepth = 0 := by omega
          simp [this, hkf]
        · have : f.ptrDepth = 1 := by omega
          simp [this, hkf]
      obtain ⟨f2, i2, hf2, htag⟩ := tagsOk_rawFields hemb fuel (derefStruct (fieldType f)) n' st hd'.1 hd'.2 hl' fi' hfi'
      refine ⟨f2, i2, ?_, htag⟩
      rw [hidx] at hf2
      simp only [List.map_cons] at hf2 ⊢
      rw [hidx]
      simp only [List.map_cons]
      rw [fieldByIndex]
      simp only [if_true]
      rw [fieldAt_ok hd hk hl hget]
      simp only []
      rw [fieldByIndex_deref]
      exact hf2

/-! ## `c.call 0` inside a call of the program is `field` -/

theorem callsField_callIn (hf : FieldSpec) (w : World) (d : Nat) :
    CallsField { structs := w.structs, fuel := w.fuel, sort := w.sort, call := callIn program w (d + 1) } := by
  intro h t strct hp root n addrs fields param h1 h2 h3 h4 h5
  show (callIn program w (d + 1) 0 h [.ptr t, .str param]).isStuck ∨
    FieldPost h addrs fields param (callIn program w (d + 1) 0 h [.ptr t, .str param])
  rw [callIn_succ program w d 0 h _ fieldIR (by rfl)]
  exact hf { structs := w.structs, fuel := w.fuel, sort := w.sort, call := callIn program w d } h t strct hp root n addrs
    fields param h1 h2 h3 h4 h5

/-! ## The body of `getTypeInfo` on a cold cache, for an arbitrary calling context -/

theorem isNilVal_of_absErr {h : Heap} {v : Val} {e : TagErr} (he : absErr h v = some e) : isNilVal v = .ok false := by
  cases v <;> simp [absErr] at he <;> rfl

section body
variable (c : Ctx) (h h1 h2 : Heap) (t typ : RType) (a : Nat) (addrs : List Nat)
  (h3 : c.call 3 h [.rtype t] = .ok (h, [.rtype typ]))
  (hraw : c.call 2 h [.rtype typ] = .ok (h1, [.ptr a]))
  (ha : h1[a]? = some (tiObj .nil typ .nil addrs 0))
include h3 hraw ha

theorem getTypeInfo_body_ok (o : Obj)
    (hn : c.call 1 (h1.set a (tiObj (.rtype t) typ .nil addrs 0)) [.ptr a] = .ok (h2, [.nil]))
    (ho : h2[a]? = some o) (hol : 0 < o.length) :
    execProc c getTypeInfoIR h [.rtype t] = .ok (h2 ++ [o.set 0 (.rtype t)], [.ptr h2.length, .nil]) := by
  rw [execProc_eq _ _ _ _ (by rfl)]
  have hset : (tiObj .nil typ .nil addrs 0).set 0 (.rtype t) = tiObj (.rtype t) typ .nil addrs 0 := rfl
  have hlen : 0 < (tiObj .nil typ .nil addrs 0).length := by simp [tiObj]
  simp only [getTypeInfoIR]
  ti_simp [h3, hraw, ha, hset, hlen, hn, extN, exec_copyObj, ho, hol]

theorem getTypeInfo_body_err (v : Val)
    (hn : c.call 1 (h1.set a (tiObj (.rtype t) typ .nil addrs 0)) [.ptr a] = .ok (h2, [v]))
    (hv : isNilVal v = .ok false) :
    execProc c getTypeInfoIR h [.rtype t] = .ok (h2, [.nil, v]) := by
  rw [execProc_eq _ _ _ _ (by rfl)]
  have hset : (tiObj .nil typ .nil addrs 0).set 0 (.rtype t) = tiObj (.rtype t) typ .nil addrs 0 := rfl
  have hlen : 0 < (tiObj .nil typ .nil addrs 0).length := by simp [tiObj]
  cases v <;> (first | (simp [isNilVal] at hv; done) | skip)
  all_goals (simp only [getTypeInfoIR]; ti_simp [h3, hraw, ha, hset, hlen, hn, extN])

theorem getTypeInfo_body_stuck (why : String)
    (hn : c.call 1 (h1.set a (tiObj (.rtype t) typ .nil addrs 0)) [.ptr a] = .stuck why) :
    execProc c getTypeInfoIR h [.rtype t] = .stuck why := by
  rw [execProc_eq _ _ _ _ (by rfl)]
  have hset : (tiObj .nil typ .nil addrs 0).set 0 (.rtype t) = tiObj (.rtype t) typ .nil addrs 0 := rfl
  have hlen : 0 < (tiObj .nil typ .nil addrs 0).length := by simp [tiObj]
  simp only [getTypeInfoIR]
  ti_simp [h3, hraw, ha, hset, hlen, hn, extN]

end body

/-! ## `getTypeInfo` on a cold cache = `typeInfoOf` -/

/-- What a cold-cache run of `getTypeInfo` on type `t` must look like, given the model's answer: a fresh
copy of the normalized `typeInfo` with `Struct = t`, `Type` = `t` without its stars; or the model's error. -/
def ColdPost (t : RType) (m : Except TagErr TypeInfo) (r : Res (Heap × List Val)) : Prop :=
  match m with
  | .ok out => ∃ h' a hp addrs, r = .ok (h', [.ptr a, .nil]) ∧
      h'[a]? = some (tiObj (.rtype t) { t with depth := 0 } hp addrs out.numReqValues) ∧
      RepOpt h' hp out.hashPrefix ∧ Reps h' addrs out.fields
  | .error e => ∃ h' v, r = .ok (h', [.nil, v]) ∧ absErr h' v = some e

/-- `normalize` called inside the program at any depth behaves as `NormPost` says, with the side condition
`B` on the `stuck` alternative (`B := True`: may be stuck; `B := False`: never stuck). -/
def NormCalls (B : Prop) (w : World) : Prop :=
  ∀ (d : Nat) (h : Heap) (t : Nat) (st root : RType) (addrs : List Nat) (raw : List FieldInfo),
    h[t]? = some (tiObj (.rtype st) root .nil addrs 0) → Reps h addrs raw → TagsOk w.structs root raw →
    raw.length < w.fuel → (∀ fi ∈ raw, fi.index.length < w.fuel) →
    (B ∧ (callIn program w (d + 2) 1 h [.ptr t]).isStuck) ∨
      NormPost h t (.rtype st) root raw (callIn program w (d + 2) 1 h [.ptr t])

theorem getTypeInfo_cold_gen (B : Prop) (hrawS : RawSpec)
    (w : World) (hnormC : NormCalls B w) (depth : Nat) (h : Heap) (t : RType) (n : String) (s : GoStruct)
    (hk : t.kind = .structRef n) (hl : Codec.lookupStruct w.structs n = some s)
    (hfit : fitsFuel w.structs 8 s = true) (hemb : EmbedPtrOk w.structs)
    (hdepth : 18 < depth) (ht : t.depth < w.fuel) (h8 : 8 < w.fuel)
    (hsz : ∀ s' ∈ w.structs, s'.fields.length < w.fuel ∧ ∀ f ∈ s'.fields, f.ptrDepth < w.fuel ∧ f.tag.length < w.fuel)
    (hlen : (rawFields w.structs 8 s).length < w.fuel) :
    (B ∧ (callIn program w depth 4 h [.rtype t]).isStuck) ∨
      ColdPost t (typeInfoOf w.structs n) (callIn program w depth 4 h [.rtype t]) := by
  obtain ⟨d, rfl⟩ : ∃ d, depth = d + 3 := ⟨depth - 3, by omega⟩
  rw [callIn_succ program w (d + 2) 4 h _ getTypeInfoIR (by rfl)]
  let typ : RType := { t with depth := 0 }
  let raw := rawFields w.structs 8 s
  have hmodel : typeInfoOf w.structs n = normalizeLoop raw raw {} [] := by
    simp only [typeInfoOf, hl, raw]
  rw [hmodel]
  -- indirectType
  have h3 := indirectSpec_callIn w (d + 1) h t ht
  -- getRawTypeInfo
  obtain ⟨ext, a, addrs, hr, ha, _, hreps, _, hfresh⟩ :=
    hrawS w 8 (d + 2) h typ n s rfl hk hl hfit (by omega) hsz hlen
  -- normalize
  let h1 := (h ++ ext).set a (tiObj (.rtype t) typ .nil addrs 0)
  have halt : a < (h ++ ext).length := by
    rcases Nat.lt_or_ge a (h ++ ext).length with hlt | hge
    · exact hlt
    · rw [List.getElem?_eq_none hge] at ha; cases ha
  have ha1 : h1[a]? = some (tiObj (.rtype t) typ .nil addrs 0) := by
    simp only [h1]; rw [List.getElem?_set_self halt]
  have hreps1 : Reps h1 addrs raw := Reps_set_ti _ ha hreps
  have htags : TagsOk w.structs typ raw := tagsOk_rawFields hemb 8 typ n s rfl hk hl
  have hidx : ∀ fi ∈ raw, fi.index.length < w.fuel := fun fi hfi => by
    have := (rawFields_index_ne_nil hfi).2; omega
  have hn := hnormC d h1 a t typ addrs raw ha1 hreps1 htags hlen hidx
  rcases hn with ⟨hB, hst⟩ | hpost
  · left
    refine ⟨hB, ?_⟩
    cases hres : callIn program w (d + 2) 1 h1 [.ptr a] with
    | stuck why =>
      rw [getTypeInfo_body_stuck _ h (h ++ ext) t typ a addrs h3 hr ha why hres]; trivial
    | ok x => rw [hres] at hst; exact hst.elim
    | panic => rw [hres] at hst; exact hst.elim
  · right
    unfold NormPost at hpost
    unfold ColdPost
    cases hm : normalizeLoop raw raw {} [] with
    | ok out =>
      rw [hm] at hpost
      simp only at hpost ⊢
      obtain ⟨hp, outAddrs, hres, hrep, hrepsOut⟩ := hpost
      have hget : (h1.set a (tiObj (.rtype t) typ hp outAddrs out.numReqValues))[a]? =
          some (tiObj (.rtype t) typ hp outAddrs out.numReqValues) := by
        rw [List.getElem?_set_self (by simp only [h1, List.length_set]; exact halt)]
      rw [getTypeInfo_body_ok _ h (h ++ ext) _ t typ a addrs h3 hr ha _ hres hget (by simp [tiObj])]
      have hmono : ∀ (x : Nat) (fi : FieldInfo), h1[x]? = some (fiObj fi) →
          (h1.set a (tiObj (.rtype t) typ hp outAddrs out.numReqValues) ++
            [(tiObj (.rtype t) typ hp outAddrs out.numReqValues).set 0 (.rtype t)])[x]? = some (fiObj fi) := by
        intro x fi hx
        have hne : a ≠ x := by
          intro e; subst e; rw [ha1] at hx
          exact fiObj_ne_tiObj fi _ _ _ _ _ (Option.some.inj hx).symm
        have hxlt : x < h1.length := by
          rcases Nat.lt_or_ge x h1.length with hlt | hge
          · exact hlt
          · rw [List.getElem?_eq_none hge] at hx; cases hx
        rw [List.getElem?_append_left (by simp only [List.length_set]; exact hxlt), List.getElem?_set_ne hne]
        exact hx
      refine ⟨_, _, hp, outAddrs, rfl, ?_, RepOpt_mono hmono hrep, ?_⟩
      · simp [tiObj, typ]
      · refine Reps_mono (fun x hx => ?_) hrepsOut
        obtain ⟨fi, _, hfx⟩ := Reps_mem hrepsOut x hx
        rw [hmono x fi hfx, hfx]
    | error e =>
      rw [hm] at hpost
      simp only at hpost ⊢
      obtain ⟨h', v, hres, herr⟩ := hpost
      rw [getTypeInfo_body_err _ h (h ++ ext) h' t typ a addrs h3 hr ha v hres (isNilVal_of_absErr herr)]
      exact ⟨h', v, rfl, herr⟩

/-- From the statements about `field` and `normalize`: `normalize` inside the program (may be stuck). -/
theorem normCalls_true (hnormS : NormSpec) (hfieldS : FieldSpec) (w : World) : NormCalls True w := by
  intro d h t st root addrs raw h1 h2 h3 h4 h5
  rw [callIn_succ program w (d + 1) 1 h _ normalizeIR (by rfl)]
  exact (hnormS { structs := w.structs, fuel := w.fuel, sort := w.sort, call := callIn program w (d + 1) }
    h t st root addrs raw (callsField_callIn hfieldS w d) h1 h2 h3 h4 h5).imp (fun hs => ⟨trivial, hs⟩) id

theorem getTypeInfo_cold (hrawS : RawSpec) (hnormS : NormSpec) (hfieldS : FieldSpec)
    (w : World) (depth : Nat) (h : Heap) (t : RType) (n : String) (s : GoStruct)
    (hk : t.kind = .structRef n) (hl : Codec.lookupStruct w.structs n = some s)
    (hfit : fitsFuel w.structs 8 s = true) (hemb : EmbedPtrOk w.structs)
    (hdepth : 18 < depth) (ht : t.depth < w.fuel) (h8 : 8 < w.fuel)
    (hsz : ∀ s' ∈ w.structs, s'.fields.length < w.fuel ∧ ∀ f ∈ s'.fields, f.ptrDepth < w.fuel ∧ f.tag.length < w.fuel)
    (hlen : (rawFields w.structs 8 s).length < w.fuel) :
    (callIn program w depth 4 h [.rtype t]).isStuck ∨
      ColdPost t (typeInfoOf w.structs n) (callIn program w depth 4 h [.rtype t]) :=
  (getTypeInfo_cold_gen True hrawS w (normCalls_true hnormS hfieldS w) depth h t n s hk hl hfit hemb hdepth ht h8 hsz
    hlen).imp (fun hs => hs.2) id

end GoCrypt.TIIR.Top
