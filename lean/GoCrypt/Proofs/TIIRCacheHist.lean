import GoCrypt.Proofs.TIIRCacheCall

/-!
# Type-info IR with cache state: footprint of the cache, what callers may do, histories of calls

* `footprint h K`: the addresses the representation of the cache depends on (the cached `typeInfo` records,
  their `HashPrefix` and `Fields` records).  `CacheRep` depends on the heap only through them (`CacheRep_congr`).
* `CallerStep K h h'`: between two calls the rest of the program may do anything to the heap except shrink it or
  change a record of the footprint.  The pointer `getTypeInfo` returns is outside the footprint
  (`callerStep_set_last`), so overwriting the returned record is such a step; `run_footprint`: the footprint only
  grows by addresses allocated by the storing call, so an old address outside it stays outside.
* `Run`: a history of calls of the regenerated `getTypeInfo`, with arbitrary caller steps in between;
  `run_rep`: the final state represents `TypeCache.runHistory`.
Definitions and helper lemmas; the results are stated in `Props/TypeCacheIR.lean`.
-/

namespace GoCrypt.TIIR.Cache
open GoCrypt.Codec GoCrypt.Gen.typeinfoIR GoCrypt.TIIR

/-! ## Domain -/

/-- Size conditions on the run that do not depend on the type asked for: embedded structs are `T` or `*T`
(true in Go), the loop bound exceeds the model's embedding fuel and the sizes of all struct descriptions. -/
structure WorldOk (w : World) : Prop where
  emb : Top.EmbedPtrOk w.structs
  h8 : 8 < w.fuel
  sz : ∀ s' ∈ w.structs, s'.fields.length < w.fuel ∧ ∀ f ∈ s'.fields, f.ptrDepth < w.fuel ∧ f.tag.length < w.fuel

/-- The argument type `*…*T` is in the domain of the theorems: `T` has a description, its embedding depth is
below the model's fuel 8 with every embedded struct described, and the loop bound exceeds the number of stars
and of flattened fields. -/
def InDomain (w : World) (t : TypeCache.ArgType) : Prop :=
  t.ptrDepth < w.fuel ∧ ∃ s, Codec.lookupStruct w.structs t.key = some s ∧ fitsFuel w.structs 8 s = true ∧
    (rawFields w.structs 8 s).length < w.fuel

/-- The regenerated `getTypeInfo(t)` run from cache state `K` and heap `h`. -/
def getTI (w : World) (depth : Nat) (T : String → RType) (K : CacheSt) (h : Heap) (t : TypeCache.ArgType) :
    Res (CacheSt × Heap × List Val) :=
  callInC program w depth 4 K h [.rtype (argType T t.key t.ptrDepth)]

theorem call_post (w : World) (hw : WorldOk w) (T : String → RType) (hT : KeyFn T) (depth : Nat) (hdepth : 18 < depth)
    (h : Heap) (K : CacheSt) (c : TypeCache.Cache) (t : TypeCache.ArgType) (hd : InDomain w t) (hrep : CacheRep T h K c) :
    (getTI w depth T K h t).isStuck ∨ CallPost T w.structs h K c t.key t.ptrDepth (getTI w depth T K h t) := by
  obtain ⟨hpd, s, hl, hfit, hlen⟩ := hd
  exact (call_gen True (Raw.raw_spec Tag.fieldPart_spec) w (normCallsF_true w) T hT depth h K c t.key t.ptrDepth s hrep hl
    hfit hw.emb hdepth hpd hw.h8 hw.sz hlen).imp (fun hs => hs.2) id

theorem call_post_exact (w : World) (hw : WorldOk w) (hgood : Field.GoodSort w.sort) (T : String → RType) (hT : KeyFn T)
    (depth : Nat) (hdepth : 18 < depth)
    (h : Heap) (K : CacheSt) (c : TypeCache.Cache) (t : TypeCache.ArgType) (hd : InDomain w t) (hrep : CacheRep T h K c) :
    CallPost T w.structs h K c t.key t.ptrDepth (getTI w depth T K h t) := by
  obtain ⟨hpd, s, hl, hfit, hlen⟩ := hd
  exact (call_gen False (Raw.raw_spec Tag.fieldPart_spec) w (normCallsF_false w hgood) T hT depth h K c t.key t.ptrDepth s
    hrep hl hfit hw.emb hdepth hpd hw.h8 hw.sz hlen).elim (fun hs => hs.1.elim) id

/-! ## Footprint -/

theorem TiRep_congr {h h' : Heap} {a : Nat} {typ : RType} {ti : TypeInfo} (hr : TiRep h a typ ti)
    (hag : ∀ x ∈ TiFoot h a, h'[x]? = h[x]?) : TiRep h' a typ ti ∧ TiFoot h' a = TiFoot h a := by
  obtain ⟨st, hp, addrs, ha, hro, hre⟩ := hr
  have hf := TiFoot_of_get ha
  rw [hf] at hag
  have ha' : h'[a]? = some (tiObj st typ hp addrs ti.numReqValues) := by
    rw [hag a (List.mem_cons_self)]; exact ha
  refine ⟨⟨st, hp, addrs, ha', ?_, ?_⟩, by rw [hf, TiFoot_of_get ha']⟩
  · cases hp <;> cases hhp : ti.hashPrefix <;> simp only [RepOpt, hhp] at hro ⊢ <;> try exact hro
    rename_i p fi
    rw [hag p (by simp [hpAddrs])]; exact hro
  · exact Top.Reps_mono (fun x hx => hag x (by simp [hx])) hre

theorem CacheRep_congr {T : String → RType} {h h' : Heap} :
    ∀ {K : CacheSt} {c : TypeCache.Cache}, CacheRep T h K c → (∀ x ∈ footprint h K, h'[x]? = h[x]?) →
      CacheRep T h' K c ∧ footprint h' K = footprint h K
  | [], [], _, _ => ⟨trivial, rfl⟩
  | (k, a) :: ks, (n, ti) :: c, hr, hag => by
    have hag1 : ∀ x ∈ TiFoot h a, h'[x]? = h[x]? := fun x hx => hag x (by simp [footprint, hx])
    have hag2 : ∀ x ∈ footprint h ks, h'[x]? = h[x]? := fun x hx => hag x (by
      simp only [footprint, List.flatMap_cons, List.mem_append]; exact Or.inr hx)
    obtain ⟨h1, h2⟩ := TiRep_congr hr.2.1 hag1
    obtain ⟨h3, h4⟩ := CacheRep_congr hr.2.2 hag2
    refine ⟨⟨hr.1, h1, h3⟩, ?_⟩
    simp only [footprint, List.flatMap_cons] at h4 ⊢
    rw [h2, h4]
  | [], _ :: _, hr, _ => hr.elim
  | _ :: _, [], hr, _ => hr.elim

theorem TiFoot_lt {h : Heap} {a : Nat} {typ : RType} {ti : TypeInfo} (hr : TiRep h a typ ti) :
    ∀ x ∈ TiFoot h a, x < h.length := by
  obtain ⟨st, hp, addrs, ha, hro, hre⟩ := hr
  rw [TiFoot_of_get ha]
  intro x hx
  simp only [List.mem_cons, List.mem_append] at hx
  rcases hx with rfl | hx | hx
  · exact Norm.lt_of_get ha
  · cases hp <;> simp [hpAddrs] at hx
    subst hx
    cases hhp : ti.hashPrefix <;> simp only [RepOpt, hhp] at hro
    exact Norm.lt_of_get hro
  · obtain ⟨fi, _, hfx⟩ := Top.Reps_mem hre x hx
    exact Norm.lt_of_get hfx

/-- Every footprint address holds a record. -/
theorem footprint_lt {T : String → RType} {h : Heap} :
    ∀ {K : CacheSt} {c : TypeCache.Cache}, CacheRep T h K c → ∀ x ∈ footprint h K, x < h.length
  | [], [], _, x, hx => by simp [footprint] at hx
  | (k, a) :: ks, (n, ti) :: c, hr, x, hx => by
    simp only [footprint, List.flatMap_cons, List.mem_append] at hx
    rcases hx with hx | hx
    · exact TiFoot_lt hr.2.1 x hx
    · exact footprint_lt hr.2.2 x hx
  | [], _ :: _, hr, _, _ => hr.elim
  | _ :: _, [], hr, _, _ => hr.elim

/-- Between two calls of `getTypeInfo` the rest of the program may change the heap in any way (allocate,
overwrite records) that does not shrink it (an address is never reused) and leaves the records of the cache's
footprint as they are. -/
def CallerStep (K : CacheSt) (h h' : Heap) : Prop := h.length ≤ h'.length ∧ ∀ x ∈ footprint h K, h'[x]? = h[x]?

theorem CallerStep.refl (K : CacheSt) (h : Heap) : CallerStep K h h := ⟨Nat.le_refl _, fun _ _ => rfl⟩

/-- Appending a record, or overwriting the record at an address `a` that is not below the heap size the cache
was represented over, is a caller step. -/
theorem callerStep_set_last {T : String → RType} {h0 : Heap} {K : CacheSt} {c : TypeCache.Cache} (hrep : CacheRep T h0 K c)
    (o o' : Obj) : CallerStep K (h0 ++ [o]) ((h0 ++ [o]).set h0.length o') ∧ h0.length ∉ footprint (h0 ++ [o]) K := by
  have hfp : footprint (h0 ++ [o]) K = footprint h0 K :=
    (CacheRep_congr hrep (fun x hx => by
      rw [List.getElem?_append_left (footprint_lt hrep x hx)])).2
  have hnot : h0.length ∉ footprint (h0 ++ [o]) K := by
    rw [hfp]; intro hx; exact Nat.lt_irrefl _ (footprint_lt hrep _ hx)
  refine ⟨⟨by simp, fun x hx => ?_⟩, hnot⟩
  have hne : h0.length ≠ x := fun e => hnot (e ▸ hx)
  exact List.getElem?_set_ne hne

/-! ## Histories -/

/-- A history of calls of the regenerated `getTypeInfo` from `(K, h)`: every call ends normally, and between
two calls the rest of the program takes an arbitrary `CallerStep`. -/
inductive Run (w : World) (depth : Nat) (T : String → RType) :
    CacheSt → Heap → List TypeCache.ArgType → CacheSt → Heap → Prop
  | nil (K : CacheSt) (h : Heap) : Run w depth T K h [] K h
  | cons {K : CacheSt} {h : Heap} {t : TypeCache.ArgType} {ts : List TypeCache.ArgType} {K1 : CacheSt} {h1 : Heap}
      {vals : List Val} {h2 : Heap} {K3 : CacheSt} {h3 : Heap} :
      getTI w depth T K h t = .ok (K1, h1, vals) → CallerStep K1 h1 h2 → Run w depth T K1 h2 ts K3 h3 →
      Run w depth T K h (t :: ts) K3 h3

/-- After any history of calls (with arbitrary caller steps in between) the cache state represents what the
model's `runHistory` computes. -/
theorem run_rep (w : World) (hw : WorldOk w) (T : String → RType) (hT : KeyFn T) (depth : Nat) (hdepth : 18 < depth) :
    ∀ {K : CacheSt} {h : Heap} {ts : List TypeCache.ArgType} {K' : CacheSt} {h' : Heap},
      Run w depth T K h ts K' h' → ∀ (c : TypeCache.Cache), CacheRep T h K c → (∀ t ∈ ts, InDomain w t) →
      CacheRep T h' K' (TypeCache.runHistory (typeInfoOf w.structs) c ts) := by
  intro K h ts K' h' hrun
  induction hrun with
  | nil K h => intro c hrep _; exact hrep
  | @cons K h t ts K1 h1 vals h2 K3 h3 hcall hstep _ ih =>
    intro c hrep hdom
    have hp := call_post w hw T hT depth hdepth h K c t (hdom t (List.mem_cons_self)) hrep
    rw [hcall] at hp
    rcases hp with hs | hp
    · exact hs.elim
    · obtain ⟨K', ext, vals', heq, hrep', _⟩ := hp
      injection heq with heq
      injection heq with hK hrest
      injection hrest with hh _
      subst hK hh
      exact ih _ (CacheRep_congr hrep' hstep.2).1 (fun t' ht' => hdom t' (List.mem_cons_of_mem _ ht'))

/-! ## The footprint only grows, and only by fresh addresses -/

theorem footprint_append_heap {T : String → RType} {h : Heap} {K : CacheSt} {c : TypeCache.Cache} (hrep : CacheRep T h K c)
    (ext : List Obj) : footprint (h ++ ext) K = footprint h K :=
  (CacheRep_congr hrep (fun x hx => by rw [List.getElem?_append_left (footprint_lt hrep x hx)])).2

/-- After a call the footprint of the cache consists of the old footprint and addresses the call allocated. -/
theorem call_footprint {T : String → RType} {structs : List GoStruct} {h : Heap} {K : CacheSt} {c : TypeCache.Cache}
    {n : String} {d : Nat} {K' : CacheSt} {h' : Heap} {vals : List Val} (hrep : CacheRep T h K c)
    (hp : CallPost T structs h K c n d (.ok (K', h', vals))) :
    h.length ≤ h'.length ∧ ∀ x ∈ footprint h' K', x ∈ footprint h K ∨ h.length ≤ x := by
  obtain ⟨K1, ext, vals1, heq, hrepAll, hmatch⟩ := hp
  injection heq with heq
  injection heq with hK hrest
  injection hrest with hh _
  subst hK hh
  refine ⟨by simp, ?_⟩
  cases hm : (TypeCache.getTypeInfo (typeInfoOf structs) c ⟨n, d⟩).2 with
  | error e =>
    rw [hm] at hmatch
    rw [hmatch.1, footprint_append_heap hrep]
    exact fun x hx => Or.inl hx
  | ok res =>
    rw [hm] at hmatch
    obtain ⟨ext0, o, rfl, _, hrep0, _, _, hk⟩ := hmatch
    rcases hk with rfl | ⟨a, _, rfl, hfresh⟩
    · rw [footprint_append_heap hrep]
      exact fun x hx => Or.inl hx
    · rw [← List.append_assoc, footprint_append_heap hrep0]
      intro x hx
      simp only [footprint, List.flatMap_append, List.flatMap_cons, List.flatMap_nil, List.append_nil, List.mem_append] at hx
      rcases hx with hx | hx
      · left
        have := footprint_append_heap hrep ext0
        simp only [footprint] at this
        rw [this] at hx
        exact hx
      · exact Or.inr (hfresh x hx)

/-- Along any history the footprint of the cache consists of the initial footprint and addresses that did not
exist at the start: an old address outside the footprint never becomes part of the cache. -/
theorem run_footprint (w : World) (hw : WorldOk w) (T : String → RType) (hT : KeyFn T) (depth : Nat) (hdepth : 18 < depth) :
    ∀ {K : CacheSt} {h : Heap} {ts : List TypeCache.ArgType} {K' : CacheSt} {h' : Heap},
      Run w depth T K h ts K' h' → ∀ (c : TypeCache.Cache), CacheRep T h K c → (∀ t ∈ ts, InDomain w t) →
      h.length ≤ h'.length ∧ ∀ x ∈ footprint h' K', x ∈ footprint h K ∨ h.length ≤ x := by
  intro K h ts K' h' hrun
  induction hrun with
  | nil K h => intro c _ _; exact ⟨Nat.le_refl _, fun x hx => Or.inl hx⟩
  | @cons K h t ts K1 h1 vals h2 K3 h3 hcall hstep _ ih =>
    intro c hrep hdom
    have hp := call_post w hw T hT depth hdepth h K c t (hdom t (List.mem_cons_self)) hrep
    rw [hcall] at hp
    rcases hp with hs | hp
    · exact hs.elim
    · obtain ⟨hl1, hf1⟩ := call_footprint hrep hp
      obtain ⟨K', ext, vals', heq, hrep', _⟩ := hp
      injection heq with heq
      injection heq with hK hrest
      injection hrest with hh _
      subst hK hh
      obtain ⟨hrep2, hfp2⟩ := CacheRep_congr hrep' hstep.2
      obtain ⟨hl3, hf3⟩ := ih _ hrep2 (fun t' ht' => hdom t' (List.mem_cons_of_mem _ ht'))
      have hl2 := hstep.1
      refine ⟨by omega, fun x hx => ?_⟩
      rcases hf3 x hx with hx2 | hge
      · rw [hfp2] at hx2
        exact hf1 x hx2
      · right; omega

end GoCrypt.TIIR.Cache
