import GoCrypt.Proofs.CodecIRUMem

/-!
# Codec IR: `unmarshalIndirect` allocates every pointer of a zero field and returns the value at the end; `newUnmarshalError`

Helper lemmas only.
-/

namespace GoCrypt.CIR
open GoCrypt.Codec GoCrypt.Gen.codecIR
open GoCrypt.TIIR (RType Res kindNum fiType kindNum_ptr)

/-- `m'` is `m` except for the cell `idx`. -/
structure SameBut (m m' : Mem) (idx : List Nat) : Prop where
  heap : m'.heap = m.heap
  nodes : m'.nodes = m.nodes
  other : ∀ j, j ≠ idx → cellRoot m' j = cellRoot m j

theorem SameBut.rfl' (m : Mem) (idx : List Nat) : SameBut m m idx := ⟨rfl, rfl, fun _ _ => rfl⟩
theorem SameBut.trans {m m' m'' : Mem} {idx : List Nat} (a : SameBut m m' idx) (b : SameBut m' m'' idx) : SameBut m m'' idx :=
  ⟨b.heap.trans a.heap, b.nodes.trans a.nodes, fun j hj => (b.other j hj).trans (a.other j hj)⟩
theorem SameBut.withCell (m : Mem) (idx : List Nat) (r : GVal) : SameBut m (m.withCell idx r) idx :=
  ⟨rfl, rfl, fun j hj => cellRoot_withCell_other m idx j r hj⟩

theorem zeroG_ptr (t : RType) (h : 0 < t.depth) : zeroG t = .nilPtr := by simp [zeroG, h]

/-- The kind of a zero value of a type without pointer stars is neither `Interface` nor `Ptr`. -/
theorem valKindNum_zero (t : RType) (hd : t.depth = 0) : ∃ k : Int, valKindNum t (zeroG t) = .ok k ∧ k ≠ 20 ∧ k ≠ 22 := by
  cases hk : t.kind with
  | other d => exact ⟨0, by simp [valKindNum, zeroG, hd, hk], by decide, by decide⟩
  | _ =>
    refine ⟨kindNum t, valKindNum_plain t _ hd (by simp [hk]), kindNum_ne_20 t, ?_⟩
    intro h22; rw [kindNum_ptr] at h22; omega

theorem typeElem_ptr (t : RType) (d : Nat) (hd : t.depth = d + 1) :
    ext1 .typeElem (.rtype t) = .ok (.rtype { t with depth := d }) := by
  simp [ext1, hd, TIIR.elemOf]

def uindLoop : Stmt := (unmarshalIndirectIR.body.drop 1).head

theorem uind_cond (c : Ctx) (m : Mem) (v x2 x3 : Val) (b : Bool) :
    (fun m env => eval c m env uindLoop.forCond >>= asBool) m [v, .bool b, x2, x3] = .ok (!b) := by
  simp only [uindLoop, unmarshalIndirectIR, Stmt.drop, Stmt.head, Stmt.forCond]
  ci_simp

theorem uind_post (c : Ctx) (m : Mem) (env : Env) : exec c uindLoop.forPost m env = .norm m env := rfl

/-- One iteration at a value that is not a pointer: `done = true`. -/
theorem uind_body_base (c : Ctx) (idx : List Nat) (k : Nat) (t : RType) (m : Mem) (x2 x3 : Val) (hd : t.depth = 0)
    (hroot : cellRoot m idx = some (ptrChain k (zeroG t))) :
    ∃ y3, exec c uindLoop.forBody m [.cell t idx k false, .bool false, x2, x3] =
      .norm m [.cell t idx k false, .bool true, x2, y3] := by
  have hget : cellGet m idx k = .ok (zeroG t) := cellGet_of_root m idx k _ _ hroot (getDeep_ptrChain k _)
  obtain ⟨kn, hkn, h20, h22⟩ := valKindNum_zero t hd
  refine ⟨.int kn, ?_⟩
  simp only [uindLoop, unmarshalIndirectIR, Stmt.drop, Stmt.head, Stmt.forBody]
  ci_simp [ext1M_cell_read m .valKind t idx k false _ (by simp) hget, hkn, h20, h22]

/-- One iteration at a nil pointer: allocate, step down. -/
theorem uind_body_ptr (c : Ctx) (idx : List Nat) (k d : Nat) (t : RType) (m : Mem) (x2 x3 : Val) (hd : t.depth = d + 1)
    (hroot : cellRoot m idx = some (ptrChain k (zeroG t))) :
    exec c uindLoop.forBody m [.cell t idx k false, .bool false, x2, x3] =
      .norm (m.withCell idx (ptrChain (k + 1) (zeroG { t with depth := d })))
        [.cell { t with depth := d } idx (k + 1) false, .bool false, x2, .int 22] := by
  have hz : zeroG t = .nilPtr := zeroG_ptr t (by omega)
  rw [hz] at hroot
  have hget : cellGet m idx k = .ok .nilPtr := cellGet_of_root m idx k _ _ hroot (getDeep_ptrChain k _)
  have hkn : valKindNum t .nilPtr = .ok 22 := valKindNum_ptr t _ (by omega)
  have hset : cellSet m idx k (.ptr (zeroG { t with depth := d })) =
      .ok (m.withCell idx (ptrChain (k + 1) (zeroG { t with depth := d }))) := by
    rw [cellSet_of_root m idx k _ _ _ hroot (setDeep_ptrChain k _ _), ptrChain_succ']
  have hroot1 := cellRoot_withCell_same m idx _ (ptrChain (k + 1) (zeroG { t with depth := d })) hroot
  have hget1 : cellGet (m.withCell idx (ptrChain (k + 1) (zeroG { t with depth := d }))) idx k =
      .ok (.ptr (zeroG { t with depth := d })) := by
    apply cellGet_of_root _ idx k _ _ hroot1
    rw [← ptrChain_succ']; exact getDeep_ptrChain k _
  have hstore : cellStore m .setNew (.cell t idx k false) [.rtype { t with depth := d }] =
      .ok (m.withCell idx (ptrChain (k + 1) (zeroG { t with depth := d }))) := by
    have : t.depth > 0 := by omega
    simp [cellStore, this, hset]
  simp only [uindLoop, unmarshalIndirectIR, Stmt.drop, Stmt.head, Stmt.forBody]
  ci_simp [ext1M_cell_read m .valKind t idx k false _ (by simp) hget, hkn,
    ext1M_cell_read m .valIsNil t idx k false _ (by simp) hget, valIsNil_nil t false (by omega),
    ext1M_cell_read m .valType t idx k false _ (by simp) hget, typeElem_ptr t d hd, hstore,
    ext1M_cell_elem _ t idx k false _ d hd hget1]

theorem uind_loop (c : Ctx) (idx : List Nat) : ∀ (d fuel k : Nat) (t : RType) (m : Mem) (x2 x3 : Val), t.depth = d → d < fuel →
    cellRoot m idx = some (ptrChain k (zeroG t)) →
    ∃ m' y2 y3, loop (fun m env => eval c m env uindLoop.forCond >>= asBool) (exec c uindLoop.forBody) (exec c uindLoop.forPost)
        fuel m [.cell t idx k false, .bool false, x2, x3] =
      .norm m' [.cell { t with depth := 0 } idx (k + d) false, .bool true, y2, y3] ∧
      SameBut m m' idx ∧ cellRoot m' idx = some (ptrChain (k + d) (zeroG { t with depth := 0 })) := by
  intro d
  induction d with
  | zero =>
    intro fuel k t m x2 x3 hd hf hroot
    obtain ⟨f, rfl⟩ : ∃ f, fuel = f + 1 := ⟨fuel - 1, by omega⟩
    have ht0 : ({ t with depth := 0 } : RType) = t := by cases t; simp_all
    obtain ⟨y3, hbody⟩ := uind_body_base c idx k t m x2 x3 hd hroot
    refine ⟨m, x2, y3, ?_, SameBut.rfl' m idx, by rw [ht0]; exact hroot⟩
    rw [loop_step _ _ _ _ _ _ (uind_cond c m _ x2 x3 false), hbody]
    simp only [afterBody_norm, uind_post, afterPost_norm]
    rw [loop_false _ _ _ _ _ _ (uind_cond c m _ x2 y3 true), ht0]
    rfl
  | succ d ih =>
    intro fuel k t m x2 x3 hd hf hroot
    obtain ⟨f, rfl⟩ : ∃ f, fuel = f + 1 := ⟨fuel - 1, by omega⟩
    have hz : zeroG t = .nilPtr := zeroG_ptr t (by omega)
    have hroot1 := cellRoot_withCell_same m idx _ (ptrChain (k + 1) (zeroG { t with depth := d })) hroot
    obtain ⟨m', y2, y3, hloop, hsame, hroot'⟩ := ih f (k + 1) { t with depth := d } (m.withCell idx (ptrChain (k + 1) (zeroG { t with depth := d })))
      x2 (.int 22) rfl (by omega) hroot1
    refine ⟨m', y2, y3, ?_, (SameBut.withCell m idx _).trans hsame, by rw [show k + (d + 1) = k + 1 + d by omega]; exact hroot'⟩
    rw [loop_step _ _ _ _ _ _ (uind_cond c m _ x2 x3 false), uind_body_ptr c idx k d t m x2 x3 hd hroot]
    simp only [afterBody_norm, uind_post, afterPost_norm]
    rw [show k + (d + 1) = k + 1 + d by omega]
    exact hloop

/-- `unmarshalIndirect` on a zero field: every pointer allocated, the value at the end returned. -/
theorem unmarshalIndirect_zero (c : Ctx) (m : Mem) (t : RType) (idx : List Nat) (hf : t.depth < c.fuel)
    (hroot : cellRoot m idx = some (zeroG t)) :
    ∃ m', execProc c unmarshalIndirectIR m [.cell t idx 0 false] = .ok (m', [.cell { t with depth := 0 } idx t.depth false]) ∧
      SameBut m m' idx ∧ cellRoot m' idx = some (ptrChain t.depth (zeroG { t with depth := 0 })) := by
  rw [execProc_eq _ _ _ _ (by rfl)]
  show ∃ m', procResult (exec c unmarshalIndirectIR.body m [.cell t idx 0 false, .undef, .undef, .undef]) = _ ∧ _
  obtain ⟨m', y2, y3, hloop, hsame, hroot'⟩ := uind_loop c idx t.depth c.fuel 0 t m .undef .undef rfl hf hroot
  refine ⟨m', ?_, hsame, by simpa using hroot'⟩
  have hsplit : exec c unmarshalIndirectIR.body m [.cell t idx 0 false, .undef, .undef, .undef] =
      (exec c (unmarshalIndirectIR.body.take 1) m [.cell t idx 0 false, .undef, .undef, .undef]).andThen fun m env =>
        (loop (fun m env => eval c m env uindLoop.forCond >>= asBool) (exec c uindLoop.forBody) (exec c uindLoop.forPost) c.fuel m env).andThen
          (exec c (unmarshalIndirectIR.body.drop 2)) := by
    rw [exec_take_drop c m _ 1 unmarshalIndirectIR.body]; rfl
  rw [hsplit]
  have h1 : exec c (unmarshalIndirectIR.body.take 1) m [.cell t idx 0 false, .undef, .undef, .undef] =
      .norm m [.cell t idx 0 false, .bool false, .undef, .undef] := by
    simp only [unmarshalIndirectIR, Stmt.take]; ci_simp
  rw [h1, andThen_norm, hloop, andThen_norm]
  simp only [unmarshalIndirectIR, Stmt.drop]
  ci_simp

end GoCrypt.CIR
