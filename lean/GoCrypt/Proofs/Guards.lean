import GoCrypt.Gen.Guards
import GoCrypt.Spec.Accepts

/-!
# Helpers for C14: generated `keyGuards` versus the declarative `Accepts` specs

The central notion is `outcome v r`: "reject with `e` when the verdict is `some e`, otherwise hand on
`r`". For every package we prove `Gen.<pkg>.keyGuards a = outcome (Accepts.<pkg>.verdict a) (nf a)`,
from which both the error side (`errOf`) and the result side of C14 follow.
-/

namespace GoCrypt.Guards
open GoCrypt GoCrypt.Accepts

/-- The error of a guard run, if any. -/
def errOf {α : Type} : Except KeyErr α → Option KeyErr
  | .error e => some e
  | .ok _ => none

@[simp] theorem errOf_error {α : Type} (e : KeyErr) : errOf (Except.error e : Except KeyErr α) = some e := rfl
@[simp] theorem errOf_ok {α : Type} (x : α) : errOf (Except.ok x : Except KeyErr α) = none := rfl

/-- Reject with the verdict's error, or hand on `r`. -/
def outcome (v : Option KeyErr) (r : KeyArgs) : Except KeyErr KeyArgs :=
  match v with
  | some e => .error e
  | none => .ok r

@[simp] theorem outcome_some (e : KeyErr) (r : KeyArgs) : outcome (some e) r = .error e := rfl
@[simp] theorem outcome_none (r : KeyArgs) : outcome none r = .ok r := rfl

theorem errOf_outcome (v : Option KeyErr) (r : KeyArgs) : errOf (outcome v r) = v := by
  cases v <;> rfl

theorem outcome_ok (v : Option KeyErr) (r a' : KeyArgs) (h : outcome v r = .ok a') : a' = r := by
  cases v with
  | none => injection h with h; exact h.symm
  | some e => cases h

theorem outcome_ok_verdict (v : Option KeyErr) (r a' : KeyArgs) (h : outcome v r = .ok a') : v = none := by
  cases v with
  | none => rfl
  | some e => cases h

/-! ## One step of `firstViolation` per clause shape, in the `if … then throw … else …` form the
generated guards have. -/

section steps
variable (n lo hi : Nat) (e : String) (cs : List Clause) (a r : KeyArgs)

theorem outcome_nil : outcome (firstViolation [] a) r = .ok r := rfl

theorem outcome_pwMax : outcome (firstViolation (.pwMax n e :: cs) a) r =
    if a.password.length > n then .error { type := e, num := a.password.length }
    else outcome (firstViolation cs a) r := by
  simp only [firstViolation, Clause.violation]
  by_cases h : a.password.length > n
  · rw [if_pos h, if_pos h]; rfl
  · rw [if_neg h, if_neg h]

theorem outcome_pwEvenMax : outcome (firstViolation (.pwEvenMax n e :: cs) a) r =
    if a.password.length % 2 ≠ 0 ∨ a.password.length > n then .error { type := e, num := a.password.length }
    else outcome (firstViolation cs a) r := by
  simp only [firstViolation, Clause.violation]
  by_cases h : a.password.length % 2 ≠ 0 ∨ a.password.length > n
  · rw [if_pos h, if_pos h]; rfl
  · rw [if_neg h, if_neg h]

theorem outcome_saltMax : outcome (firstViolation (.saltMax n e :: cs) a) r =
    if a.salt.length > n then .error { type := e, num := a.salt.length }
    else outcome (firstViolation cs a) r := by
  simp only [firstViolation, Clause.violation]
  by_cases h : a.salt.length > n
  · rw [if_pos h, if_pos h]; rfl
  · rw [if_neg h, if_neg h]

theorem outcome_saltExact : outcome (firstViolation (.saltExact n e :: cs) a) r =
    if a.salt.length ≠ n then .error { type := e, num := a.salt.length }
    else outcome (firstViolation cs a) r := by
  simp only [firstViolation, Clause.violation]
  by_cases h : a.salt.length ≠ n
  · rw [if_pos h, if_pos h]; rfl
  · rw [if_neg h, if_neg h]

theorem outcome_saltMin : outcome (firstViolation (.saltMin n e :: cs) a) r =
    if a.salt.length < n then .error { type := e, num := a.salt.length }
    else outcome (firstViolation cs a) r := by
  simp only [firstViolation, Clause.violation]
  by_cases h : a.salt.length < n
  · rw [if_pos h, if_pos h]; rfl
  · rw [if_neg h, if_neg h]

theorem outcome_saltAlphabet (al : Bytes) : outcome (firstViolation (.saltAlphabet al e :: cs) a) r =
    match Gen.firstOutside al a.salt with
    | some c => .error { type := e, num := c.toNat }
    | none => outcome (firstViolation cs a) r := by
  simp only [firstViolation, Clause.violation, Gen.firstOutside]
  cases List.find? (fun c => !al.contains c) a.salt <;> rfl

theorem outcome_roundsRange : outcome (firstViolation (.roundsRange lo hi e :: cs) a) r =
    if a.rounds < lo ∨ a.rounds > hi then .error { type := e, num := a.rounds }
    else outcome (firstViolation cs a) r := by
  simp only [firstViolation, Clause.violation]
  by_cases h : a.rounds < lo ∨ a.rounds > hi
  · rw [if_pos h, if_pos h]; rfl
  · rw [if_neg h, if_neg h]

theorem outcome_roundsMin : outcome (firstViolation (.roundsMin lo e :: cs) a) r =
    if a.rounds < lo then .error { type := e, num := a.rounds }
    else outcome (firstViolation cs a) r := by
  simp only [firstViolation, Clause.violation]
  by_cases h : a.rounds < lo
  · rw [if_pos h, if_pos h]; rfl
  · rw [if_neg h, if_neg h]

theorem outcome_roundsMax : outcome (firstViolation (.roundsMax hi e :: cs) a) r =
    if a.rounds > hi then .error { type := e, num := a.rounds }
    else outcome (firstViolation cs a) r := by
  simp only [firstViolation, Clause.violation]
  by_cases h : a.rounds > hi
  · rw [if_pos h, if_pos h]; rfl
  · rw [if_neg h, if_neg h]

theorem outcome_memoryMin : outcome (firstViolation (.memoryMin lo e :: cs) a) r =
    if a.memory < lo then .error { type := e, num := a.memory }
    else outcome (firstViolation cs a) r := by
  simp only [firstViolation, Clause.violation]
  by_cases h : a.memory < lo
  · rw [if_pos h, if_pos h]; rfl
  · rw [if_neg h, if_neg h]

theorem outcome_threadsMin : outcome (firstViolation (.threadsMin lo e :: cs) a) r =
    if a.threads < lo then .error { type := e, num := a.threads }
    else outcome (firstViolation cs a) r := by
  simp only [firstViolation, Clause.violation]
  by_cases h : a.threads < lo
  · rw [if_pos h, if_pos h]; rfl
  · rw [if_neg h, if_neg h]

theorem outcome_prefixIn (al : List Bytes) : outcome (firstViolation (.prefixIn al e :: cs) a) r =
    if al.contains a.optPrefix then outcome (firstViolation cs a) r
    else .error { type := e, str := a.optPrefix } := by
  simp only [firstViolation, Clause.violation]
  by_cases h : al.contains a.optPrefix = true
  · rw [if_pos h, if_pos h]
  · rw [if_neg h, if_neg h]; rfl

theorem outcome_versionIn (al : List Nat) : outcome (firstViolation (.versionIn al e :: cs) a) r =
    if al.contains a.optVersion then outcome (firstViolation cs a) r
    else .error { type := e, num := a.optVersion } := by
  simp only [firstViolation, Clause.violation]
  by_cases h : al.contains a.optVersion = true
  · rw [if_pos h, if_pos h]
  · rw [if_neg h, if_neg h]; rfl

end steps

/-! ## What "no clause is violated" means -/

theorem firstViolation_none_iff (cs : List Clause) (a : KeyArgs) :
    firstViolation cs a = none ↔ ∀ c ∈ cs, c.violation a = none := by
  induction cs with
  | nil => simp [firstViolation]
  | cons c cs ih =>
    simp only [firstViolation, List.mem_cons, forall_eq_or_imp]
    cases h : c.violation a with
    | none => simpa using ih
    | some e => simp

/-- The alphabet clause is satisfied exactly when every salt byte is a symbol of the alphabet. -/
theorem saltAlphabet_ok_iff (al : Bytes) (e : String) (a : KeyArgs) :
    (Clause.saltAlphabet al e).violation a = none ↔ ∀ c ∈ a.salt, c ∈ al := by
  simp [Clause.violation]

/-- When the alphabet clause is violated, the payload is the first salt byte outside the alphabet. -/
theorem saltAlphabet_violation (al : Bytes) (e : String) (a : KeyArgs) (err : KeyErr)
    (h : (Clause.saltAlphabet al e).violation a = some err) :
    ∃ pre c post, a.salt = pre ++ c :: post ∧ (∀ x ∈ pre, x ∈ al) ∧ c ∉ al ∧
      err = { type := e, num := c.toNat } := by
  simp only [Clause.violation, Option.map_eq_some_iff] at h
  obtain ⟨c, hc, rfl⟩ := h
  obtain ⟨hp, pre, post, hs, hpre⟩ := List.find?_eq_some_iff_append.1 hc
  refine ⟨pre, c, post, hs, ?_, ?_, rfl⟩
  · intro x hx
    have := hpre x hx
    simpa using this
  · simpa using hp

/-! ## The generated guards, package by package

`Gen.<pkg>.keyGuards a = outcome (Accepts.<pkg>.verdict a) (normal form)`. -/

set_option linter.unusedSimpArgs false

theorem md5_guards (a : KeyArgs) : Gen.md5.keyGuards a = outcome (Accepts.md5.verdict a) a := by
  unfold Gen.md5.keyGuards
  simp only [bind, Except.bind, pure, Except.pure, throw, throwThe, MonadExceptOf.throw,
    Spec.verdict, Accepts.md5, id, hashAlpha, outcome_saltMax, outcome_saltAlphabet, outcome_nil,
    Gen.md5.MaxSaltLength, decide_eq_true_eq]
  rfl

theorem sha256_guards (a : KeyArgs) : Gen.sha256.keyGuards a = outcome (Accepts.sha256.verdict a) a := by
  unfold Gen.sha256.keyGuards
  simp only [bind, Except.bind, pure, Except.pure, throw, throwThe, MonadExceptOf.throw,
    Spec.verdict, Accepts.sha256, id, hashAlpha, outcome_saltMax, outcome_saltAlphabet, outcome_roundsRange,
    outcome_nil, Gen.sha256.MaxSaltLength, Gen.sha256.MinRounds, Gen.sha256.MaxRounds, decide_eq_true_eq,
    Bool.or_eq_true]
  rfl

theorem sha512_guards (a : KeyArgs) : Gen.sha512.keyGuards a = outcome (Accepts.sha512.verdict a) a := by
  unfold Gen.sha512.keyGuards
  simp only [bind, Except.bind, pure, Except.pure, throw, throwThe, MonadExceptOf.throw,
    Spec.verdict, Accepts.sha512, id, hashAlpha, outcome_saltMax, outcome_saltAlphabet, outcome_roundsRange,
    outcome_nil, Gen.sha512.MaxSaltLength, Gen.sha512.MinRounds, Gen.sha512.MaxRounds, decide_eq_true_eq,
    Bool.or_eq_true]
  rfl

theorem des_guards (a : KeyArgs) : Gen.des.keyGuards a = outcome (Accepts.des.verdict a) a := by
  unfold Gen.des.keyGuards
  simp only [bind, Except.bind, pure, Except.pure, throw, throwThe, MonadExceptOf.throw,
    Spec.verdict, Accepts.des, id, hashAlpha, outcome_pwMax, outcome_saltExact, outcome_saltAlphabet, outcome_nil,
    Gen.des.MaxPasswordLength, Gen.des.SaltLength, decide_eq_true_eq, bne_iff_ne]
  rfl

theorem desext_guards (a : KeyArgs) : Gen.desext.keyGuards a = outcome (Accepts.desext.verdict a) a := by
  unfold Gen.desext.keyGuards
  simp only [bind, Except.bind, pure, Except.pure, throw, throwThe, MonadExceptOf.throw,
    Spec.verdict, Accepts.desext, id, hashAlpha, outcome_saltExact, outcome_saltAlphabet, outcome_roundsRange,
    outcome_nil, Gen.desext.SaltLength, Gen.desext.MinRounds, Gen.desext.MaxRounds, decide_eq_true_eq,
    Bool.or_eq_true, bne_iff_ne]
  rfl

theorem nthash_guards (a : KeyArgs) : Gen.nthash.keyGuards a = outcome (Accepts.nthash.verdict a) a := by
  unfold Gen.nthash.keyGuards
  simp only [bind, Except.bind, pure, Except.pure, throw, throwThe, MonadExceptOf.throw,
    Spec.verdict, Accepts.nthash, id, outcome_pwEvenMax, outcome_nil,
    Gen.nthash.MaxPasswordLength, decide_eq_true_eq, Bool.or_eq_true, bne_iff_ne]

/-! ### sha1: the "random rounds" request -/

/-- The uint32 arithmetic of `randRounds` never wraps. -/
theorem randRounds_eq (x : Nat) : Gen.sha1.randRounds x = 24680 - x % 6170 := by
  unfold Gen.sha1.randRounds; omega

theorem sha1_defaults_random (a : KeyArgs) (h : a.rounds = 4294967295) :
    Accepts.sha1.defaults a = { a with rounds := Gen.sha1.randRounds a.rand } := by
  simp only [Accepts.sha1, Gen.sha1.RandomRounds, Gen.sha1.randomHint, h, if_true, randRounds_eq]

theorem sha1_defaults_other (a : KeyArgs) (h : a.rounds ≠ 4294967295) :
    Accepts.sha1.defaults a = a := by
  simp only [Accepts.sha1, Gen.sha1.RandomRounds, h, if_false]

theorem sha1_guards (a : KeyArgs) :
    Gen.sha1.keyGuards a = outcome (Accepts.sha1.verdict a) (Accepts.sha1.defaults a) := by
  unfold Gen.sha1.keyGuards Spec.verdict
  by_cases h : a.rounds = 4294967295
  · rw [sha1_defaults_random a h]
    simp only [bind, Except.bind, pure, Except.pure, throw, throwThe, MonadExceptOf.throw,
      Accepts.sha1, hashAlpha, outcome_saltMax, outcome_saltAlphabet, outcome_roundsMin, outcome_nil,
      Gen.sha1.MaxSaltLength, Gen.sha1.MinRounds, decide_eq_true_eq, beq_iff_eq, h, if_true]
    rfl
  · rw [sha1_defaults_other a h]
    simp only [bind, Except.bind, pure, Except.pure, throw, throwThe, MonadExceptOf.throw,
      Accepts.sha1, hashAlpha, outcome_saltMax, outcome_saltAlphabet, outcome_roundsMin, outcome_nil,
      Gen.sha1.MaxSaltLength, Gen.sha1.MinRounds, decide_eq_true_eq, beq_iff_eq, h, if_false]
    rfl

/-! ### Packages with an `opts` argument -/

theorem sunmd5_guards (a : KeyArgs) :
    Gen.sunmd5.keyGuards a = outcome (Accepts.sunmd5.verdict a) (Accepts.sunmd5.defaults a) := by
  unfold Gen.sunmd5.keyGuards Spec.verdict
  cases a with
  | mk pw salt rounds memory threads optsNil optPrefix optVersion optFlag rand =>
  cases optsNil
  · simp only [bind, Except.bind, pure, Except.pure, throw, throwThe, MonadExceptOf.throw,
      Accepts.sunmd5, hashAlpha, outcome_pwMax, outcome_saltMax, outcome_saltAlphabet, outcome_roundsMax,
      outcome_prefixIn, outcome_nil, Gen.sunmd5.MaxSaltLength, Gen.sunmd5.MaxPasswordLength, Gen.sunmd5.MaxRounds,
      Gen.sunmd5.PrefixNonZeroRounds, Gen.sunmd5.PrefixZeroRounds, decide_eq_true_eq, beq_iff_eq, if_false,
      Bool.false_eq_true, List.contains_cons, List.contains_nil, Bool.or_false, Bool.or_eq_true]
    rfl
  · by_cases h : rounds = 0 <;>
    simp only [bind, Except.bind, pure, Except.pure, throw, throwThe, MonadExceptOf.throw,
      Accepts.sunmd5, hashAlpha, outcome_pwMax, outcome_saltMax, outcome_saltAlphabet, outcome_roundsMax,
      outcome_prefixIn, outcome_nil, Gen.sunmd5.MaxSaltLength, Gen.sunmd5.MaxPasswordLength, Gen.sunmd5.MaxRounds,
      Gen.sunmd5.PrefixNonZeroRounds, Gen.sunmd5.PrefixZeroRounds, decide_eq_true_eq, beq_iff_eq, if_true, if_false,
      List.contains_cons, List.contains_nil, Bool.or_false, Bool.or_eq_true, h, or_true, true_or] <;> rfl

/-- The password bcrypt hands on to the key schedule: `$2b$` truncates to 72 bytes; the older prefixes
keep the historical wrap-around substitute for passwords of 254 bytes and more. -/
def bcryptPassword (pfx pw : Bytes) : Bytes :=
  if pfx = Gen.bcrypt.Prefix2b ∧ pw.length > 72 then pw.take 72
  else if pw.length ≥ 254 then List.replicate 72 48 else pw

theorem bcrypt_guards (a : KeyArgs) : Gen.bcrypt.keyGuards a = outcome (Accepts.bcrypt.verdict a)
    { Accepts.bcrypt.defaults a with
      password := bcryptPassword (Accepts.bcrypt.defaults a).optPrefix a.password } := by
  unfold Gen.bcrypt.keyGuards Spec.verdict
  cases a with
  | mk pw salt rounds memory threads optsNil optPrefix optVersion optFlag rand =>
  cases optsNil
  · by_cases h72 : pw.length > 72 <;> by_cases h254 : pw.length ≥ 254 <;>
    by_cases hp : optPrefix = [36, 50, 98, 36] <;>
    simp only [bind, Except.bind, pure, Except.pure, throw, throwThe, MonadExceptOf.throw,
      Accepts.bcrypt, hashAlpha, outcome_saltExact, outcome_saltAlphabet, outcome_roundsRange, outcome_prefixIn,
      outcome_nil, Gen.bcrypt.SaltLength, Gen.bcrypt.MinCost, Gen.bcrypt.MaxCost, Gen.bcrypt.Prefix2,
      Gen.bcrypt.Prefix2a, Gen.bcrypt.Prefix2b, decide_eq_true_eq, beq_iff_eq, bne_iff_ne, if_false,
      Bool.false_eq_true, List.contains_cons, List.contains_nil, Bool.or_false, Bool.or_eq_true, Bool.and_eq_true,
      bcryptPassword, h72, h254, hp, or_assoc, and_true, and_false, true_and, false_and, if_true] <;> rfl
  · by_cases h72 : pw.length > 72 <;> by_cases h254 : pw.length ≥ 254 <;>
    simp only [bind, Except.bind, pure, Except.pure, throw, throwThe, MonadExceptOf.throw,
      Accepts.bcrypt, hashAlpha, outcome_saltExact, outcome_saltAlphabet, outcome_roundsRange, outcome_prefixIn,
      outcome_nil, Gen.bcrypt.SaltLength, Gen.bcrypt.MinCost, Gen.bcrypt.MaxCost, Gen.bcrypt.Prefix2,
      Gen.bcrypt.Prefix2a, Gen.bcrypt.Prefix2b, decide_eq_true_eq, beq_iff_eq, bne_iff_ne, if_true,
      List.contains_cons, List.contains_nil, Bool.or_false, Bool.or_eq_true, Bool.and_eq_true, or_true,
      bcryptPassword, h72, h254, and_true, and_false, true_and, false_and, if_false] <;> rfl

theorem argon2_guards (a : KeyArgs) :
    Gen.argon2.keyGuards a = outcome (Accepts.argon2.verdict a) (Accepts.argon2.defaults a) := by
  unfold Gen.argon2.keyGuards Spec.verdict
  cases a with
  | mk pw salt rounds memory threads optsNil optPrefix optVersion optFlag rand =>
  cases optsNil
  · by_cases hp1 : optPrefix = [36, 97, 114, 103, 111, 110, 50, 100, 36] <;>
    by_cases hp2 : optPrefix = [36, 97, 114, 103, 111, 110, 50, 105, 36] <;>
    by_cases hp3 : optPrefix = [36, 97, 114, 103, 111, 110, 50, 105, 100, 36] <;>
    by_cases hv1 : optVersion = 16 <;> by_cases hv2 : optVersion = 19 <;>
    simp only [bind, Except.bind, pure, Except.pure, throw, throwThe, MonadExceptOf.throw,
      Accepts.argon2, b64Alpha, outcome_saltMin, outcome_saltAlphabet, outcome_roundsMin, outcome_memoryMin,
      outcome_threadsMin, outcome_prefixIn, outcome_versionIn, outcome_nil,
      Gen.argon2.MinSaltLength, Gen.argon2.MinMemory, Gen.argon2.MinTime, Gen.argon2.MinThreads,
      Gen.argon2.Prefix2d, Gen.argon2.Prefix2i, Gen.argon2.Prefix2id, Gen.argon2.Version10, Gen.argon2.Version13,
      decide_eq_true_eq, beq_iff_eq, bne_iff_ne, if_false, Bool.false_eq_true, List.contains_cons,
      List.contains_nil, Bool.or_false, Bool.or_eq_true, Bool.and_eq_true,
      hp1, hp2, hp3, hv1, hv2, or_true, true_or, or_false, false_or, if_true] <;> first | rfl | skip
  · have e1 : (([36, 97, 114, 103, 111, 110, 50, 105, 100, 36] : Bytes) =
        [36, 97, 114, 103, 111, 110, 50, 100, 36]) = False := by decide
    have e2 : (([36, 97, 114, 103, 111, 110, 50, 105, 100, 36] : Bytes) =
        [36, 97, 114, 103, 111, 110, 50, 105, 36]) = False := by decide
    have e3 : ((19 : Nat) = 16) = False := by decide
    simp only [bind, Except.bind, pure, Except.pure, throw, throwThe, MonadExceptOf.throw,
      Accepts.argon2, b64Alpha, outcome_saltMin, outcome_saltAlphabet, outcome_roundsMin, outcome_memoryMin,
      outcome_threadsMin, outcome_prefixIn, outcome_versionIn, outcome_nil,
      Gen.argon2.MinSaltLength, Gen.argon2.MinMemory, Gen.argon2.MinTime, Gen.argon2.MinThreads,
      Gen.argon2.Prefix2d, Gen.argon2.Prefix2i, Gen.argon2.Prefix2id, Gen.argon2.Version10, Gen.argon2.Version13,
      decide_eq_true_eq, beq_iff_eq, bne_iff_ne, if_true, List.contains_cons, List.contains_nil, Bool.or_false,
      Bool.or_eq_true, Bool.and_eq_true, e1, e2, e3, if_false, or_true, false_or]
    rfl

end GoCrypt.Guards
