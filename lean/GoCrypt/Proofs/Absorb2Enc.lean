import GoCrypt.Model.Scheme
import GoCrypt.Proofs.CryptSpecs2Des

/-!
# The digest encoders are injective (helper lemmas for `Props/C02b.lean`)

`Check` compares *encoded* digests; two keys with the same text are the same key. Big-endian base-64
without padding over any duplicate-free 64-symbol alphabet (`hash.BigEndianEncoding` of DES,
`bcrypt.Encoding`, `base64.RawStdEncoding` of Argon2), and the 8 result bytes of a DES block.
-/

namespace GoCrypt.Absorb2
open GoCrypt GoCrypt.Kdf GoCrypt.C03bProofs

theorem getD_inj_of_nodup (al : Bytes) (hn : al.Nodup) (i j : Nat) (hi : i < al.length) (hj : j < al.length)
    (h : al.getD i 0 = al.getD j 0) : i = j := by
  rw [List.getD_eq_getElem?_getD, List.getD_eq_getElem?_getD, List.getElem?_eq_getElem hi, List.getElem?_eq_getElem hj] at h
  exact (List.getElem_inj hn).1 (by simpa using h)

theorem sextet_inj (al : Bytes) (hn : al.Nodup) (hl : al.length = 64) (x y : Nat)
    (h : al.getD (x &&& 63) 0 = al.getD (y &&& 63) 0) : x % 64 = y % 64 := by
  rw [and63', and63'] at h
  exact getD_inj_of_nodup al hn _ _ (by rw [hl]; exact Nat.mod_lt _ (by decide)) (by rw [hl]; exact Nat.mod_lt _ (by decide)) h

theorem or1 (a : Nat) : a <<< 16 = a * 65536 := by rw [Nat.shiftLeft_eq]

/-- Unpadded big-endian base-64 over a duplicate-free 64-symbol alphabet is injective. -/
theorem stdEncode_inj (al : Bytes) (hn : al.Nodup) (hl : al.length = 64) :
    ∀ (b b' : Bytes), stdEncode al b = stdEncode al b' → b = b'
  | [], [], _ => rfl
  | [], [_], h => by simp [stdEncode] at h
  | [], [_, _], h => by simp [stdEncode] at h
  | [], _ :: _ :: _ :: _, h => by simp [stdEncode] at h
  | [_], [], h => by simp [stdEncode] at h
  | [_, _], [], h => by simp [stdEncode] at h
  | _ :: _ :: _ :: _, [], h => by simp [stdEncode] at h
  | [_], [_, _], h => by simp [stdEncode] at h
  | [_, _], [_], h => by simp [stdEncode] at h
  | [_], _ :: _ :: _ :: _, h => by simp [stdEncode] at h
  | _ :: _ :: _ :: _, [_], h => by simp [stdEncode] at h
  | [_, _], _ :: _ :: _ :: _, h => by simp [stdEncode] at h
  | _ :: _ :: _ :: _, [_, _], h => by simp [stdEncode] at h
  | [b0], [c0], h => by
    have hb := UInt8.toNat_lt b0
    have hc := UInt8.toNat_lt c0
    simp only [stdEncode, List.cons.injEq, and_true] at h
    have e1 := sextet_inj al hn hl _ _ h.1
    have e2 := sextet_inj al hn hl _ _ h.2
    rw [or1, or1, Nat.shiftRight_eq_div_pow, Nat.shiftRight_eq_div_pow] at e1 e2
    have : b0 = c0 := by rw [← UInt8.toNat_inj]; omega
    rw [this]
  | [b0, b1], [c0, c1], h => by
    have hb0 := UInt8.toNat_lt b0
    have hb1 := UInt8.toNat_lt b1
    have hc0 := UInt8.toNat_lt c0
    have hc1 := UInt8.toNat_lt c1
    simp only [stdEncode, List.cons.injEq, and_true] at h
    have e1 := sextet_inj al hn hl _ _ h.1
    have e2 := sextet_inj al hn hl _ _ h.2.1
    have e3 := sextet_inj al hn hl _ _ h.2.2
    rw [or2 _ _ hb1, or2 _ _ hc1, Nat.shiftRight_eq_div_pow, Nat.shiftRight_eq_div_pow] at e1 e2 e3
    have h0 : b0 = c0 := by rw [← UInt8.toNat_inj]; omega
    have h1 : b1 = c1 := by rw [← UInt8.toNat_inj]; omega
    rw [h0, h1]
  | b0 :: b1 :: b2 :: rest, c0 :: c1 :: c2 :: rest', h => by
    have hb0 := UInt8.toNat_lt b0
    have hb1 := UInt8.toNat_lt b1
    have hb2 := UInt8.toNat_lt b2
    have hc0 := UInt8.toNat_lt c0
    have hc1 := UInt8.toNat_lt c1
    have hc2 := UInt8.toNat_lt c2
    simp only [stdEncode, List.cons.injEq] at h
    have e1 := sextet_inj al hn hl _ _ h.1
    have e2 := sextet_inj al hn hl _ _ h.2.1
    have e3 := sextet_inj al hn hl _ _ h.2.2.1
    have e4 := sextet_inj al hn hl _ _ h.2.2.2.1
    rw [or3 _ _ _ hb1 hb2, or3 _ _ _ hc1 hc2] at e1 e2 e3 e4
    rw [Nat.shiftRight_eq_div_pow, Nat.shiftRight_eq_div_pow] at e1 e2 e3
    have h0 : b0 = c0 := by rw [← UInt8.toNat_inj]; omega
    have h1 : b1 = c1 := by rw [← UInt8.toNat_inj]; omega
    have h2 : b2 = c2 := by rw [← UInt8.toNat_inj]; omega
    rw [h0, h1, h2, stdEncode_inj al hn hl rest rest' h.2.2.2.2]

theorem hashAlphabet_nodup : Codec.hashAlphabet.Nodup ∧ Codec.hashAlphabet.length = 64 := by decide
theorem bcryptAlphabet_nodup : Scheme.bcryptAlphabet.Nodup ∧ Scheme.bcryptAlphabet.length = 64 := by decide
theorem stdAlphabet_nodup : Scheme.stdAlphabet.Nodup ∧ Scheme.stdAlphabet.length = 64 := by decide

theorem beEncode_inj (k k' : Bytes) (h : Scheme.beEncode k = Scheme.beEncode k') : k = k' :=
  stdEncode_inj _ hashAlphabet_nodup.1 hashAlphabet_nodup.2 k k' h

theorem be64_inj (v v' : UInt64) (h : Des.be64 v = Des.be64 v') : v = v' := by
  rw [be64_eq, be64_eq] at h
  have := congrArg CryptSpec2.beNat h
  rw [beNat_blockBytes, beNat_blockBytes] at this
  exact UInt64.toNat_inj.1 this

end GoCrypt.Absorb2
