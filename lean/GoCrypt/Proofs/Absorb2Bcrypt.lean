import GoCrypt.Proofs.Absorb2Defs
import GoCrypt.Proofs.CryptSpecs2Bcrypt
import GoCrypt.Proofs.Kdf

/-!
# Absorption for bcrypt: the Blowfish key schedule reads 72 key bytes cyclically (helper lemmas for `Props/C02b.lean`)

`ExpandKey` / `expandKeyWithSalt` of `Prim/Blowfish.lean` use the key only in their first loop
(18 × `getNextWord`); everything after it is a function of the XORed `P` array. Hence two keys with the
same 72-byte cyclic expansion give the same cipher state, and bcrypt's result is a function of that
expansion.
-/

namespace GoCrypt.Absorb2
open GoCrypt GoCrypt.Kdf GoCrypt.CryptSpec GoCrypt.Prim GoCrypt.Prim.Blowfish

/-! ## `ByteArray` boundary -/

theorem foldl_push (b : Bytes) (acc : ByteArray) : b.foldl (fun acc x => acc.push x) acc = ⟨acc.data ++ b.toArray⟩ := by
  induction b generalizing acc with
  | nil => simp
  | cons x l ih => rw [List.foldl_cons, ih]; simp [ByteArray.push]

theorem bytesToByteArray_eq (b : Bytes) : bytesToByteArray b = ⟨b.toArray⟩ := by
  unfold bytesToByteArray
  rw [foldl_push]
  simp [ByteArray.emptyWithCapacity]
  rfl

theorem ba_size (b : Bytes) : (bytesToByteArray b).size = b.length := by
  rw [bytesToByteArray_eq]; simp [ByteArray.size]

theorem ba_get (b : Bytes) (j : Nat) : (bytesToByteArray b).get! j = b.getD j 0 := by
  rw [bytesToByteArray_eq]
  simp [ByteArray.get!]
  rfl

/-! ## `getNextWord` -/

theorem range_size' (n : Nat) : [:n].size = n := by simp [Std.Legacy.Range.size]

/-- big-endian word, in the shape the loop of `getNextWord` builds it -/
def be32 (a b c d : UInt8) : UInt32 :=
  (((((0 : UInt32) <<< 8 ||| a.toUInt32) <<< 8 ||| b.toUInt32) <<< 8 ||| c.toUInt32) <<< 8 ||| d.toUInt32)

theorem adv (len j0 : Nat) (h : 0 < len) : (if j0 % len + 1 ≥ len then 0 else j0 % len + 1) = (j0 + 1) % len := by
  have := Nat.mod_lt j0 h
  have e : (j0 + 1) % len = (j0 % len + 1) % len := (Nat.mod_add_mod j0 len 1).symm
  rw [e]
  split
  · have : j0 % len + 1 = len := by omega
    rw [this, Nat.mod_self]
  · exact (Nat.mod_eq_of_lt (by omega)).symm

def gnwStep (key : ByteArray) (s : UInt32 × Nat) : UInt32 × Nat :=
  (s.1 <<< 8 ||| (key.get! s.2).toUInt32, if s.2 + 1 ≥ key.size then 0 else s.2 + 1)

theorem ite_pure_yield (key : ByteArray) (s : UInt32 × Nat) :
    (if s.snd + 1 ≥ key.size then (pure (ForInStep.yield (s.fst <<< 8 ||| (key.get! s.snd).toUInt32, 0)) : Id _)
      else pure (ForInStep.yield (s.fst <<< 8 ||| (key.get! s.snd).toUInt32, s.snd + 1))) =
      pure (ForInStep.yield (gnwStep key s)) := by unfold gnwStep; split <;> rfl

theorem gnwStep_mod (key : ByteArray) (w : UInt32) (j0 : Nat) (h : 0 < key.size) :
    gnwStep key (w, j0 % key.size) = (w <<< 8 ||| (key.get! (j0 % key.size)).toUInt32, (j0 + 1) % key.size) := by
  unfold gnwStep; simp only [adv _ _ h]

theorem gnw (key : ByteArray) (j0 : Nat) (h : 0 < key.size) :
    getNextWord key (j0 % key.size) =
      (be32 (key.get! (j0 % key.size)) (key.get! ((j0 + 1) % key.size)) (key.get! ((j0 + 2) % key.size))
        (key.get! ((j0 + 3) % key.size)), (j0 + 4) % key.size) := by
  unfold getNextWord
  simp only [Id.run, Std.Legacy.Range.forIn_eq_forIn_range', range_size', ite_pure_yield, List.forIn_pure_yield_eq_foldl,
    pure_bind]
  simp only [List.range', List.foldl_cons, List.foldl_nil, gnwStep_mod _ _ _ h]
  rfl

/-! ## the key schedules factor through their first loop -/

/-- The first loop of `ExpandKey` / `expandKeyWithSalt`: `p[i] ^= getNextWord(key, &j)`, `i < 18`. -/
def keyLoop (key : ByteArray) (p0 : Array UInt32) : Array UInt32 × Nat := Id.run do
  let mut p := p0
  let mut j := 0
  for i in [0:18] do
    let (d, j') := getNextWord key j
    j := j'
    p := p.set! i (p[i]! ^^^ d)
  return (p, j)

/-- `ExpandKey` after its first loop (a copy of the rest of `expandKeyBA`). -/
def expandRest (p : Array UInt32) (c : Blowfish) : Blowfish := Id.run do
  let ⟨_, s00, s10, s20, s30⟩ := c
  let mut p := p
  let mut s0 := s00
  let mut s1 := s10
  let mut s2 := s20
  let mut s3 := s30
  let mut l : UInt32 := 0
  let mut r : UInt32 := 0
  for k in [0:9] do
    let i := 2 * k
    let (l', r') := encryptBlockT p s0 s1 s2 s3 l r
    l := l'; r := r'
    p := (p.set! i l).set! (i + 1) r
  for k in [0:128] do
    let i := 2 * k
    let (l', r') := encryptBlockT p s0 s1 s2 s3 l r
    l := l'; r := r'
    s0 := (s0.set! i l).set! (i + 1) r
  for k in [0:128] do
    let i := 2 * k
    let (l', r') := encryptBlockT p s0 s1 s2 s3 l r
    l := l'; r := r'
    s1 := (s1.set! i l).set! (i + 1) r
  for k in [0:128] do
    let i := 2 * k
    let (l', r') := encryptBlockT p s0 s1 s2 s3 l r
    l := l'; r := r'
    s2 := (s2.set! i l).set! (i + 1) r
  for k in [0:128] do
    let i := 2 * k
    let (l', r') := encryptBlockT p s0 s1 s2 s3 l r
    l := l'; r := r'
    s3 := (s3.set! i l).set! (i + 1) r
  return { p := p, s0 := s0, s1 := s1, s2 := s2, s3 := s3 }

/-- `expandKeyWithSalt` after its first loop (a copy of the rest of `expandKeyWithSaltBA`). -/
def expandRestSalt (p : Array UInt32) (salt : ByteArray) (c : Blowfish) : Blowfish := Id.run do
  let ⟨_, s00, s10, s20, s30⟩ := c
  let mut p := p
  let mut s0 := s00
  let mut s1 := s10
  let mut s2 := s20
  let mut s3 := s30
  let mut j := 0
  let mut l : UInt32 := 0
  let mut r : UInt32 := 0
  for k in [0:9] do
    let i := 2 * k
    let (w1, j1) := getNextWord salt j
    let (w2, j2) := getNextWord salt j1
    j := j2
    let (l', r') := encryptBlockT p s0 s1 s2 s3 (l ^^^ w1) (r ^^^ w2)
    l := l'; r := r'
    p := (p.set! i l).set! (i + 1) r
  for k in [0:128] do
    let i := 2 * k
    let (w1, j1) := getNextWord salt j
    let (w2, j2) := getNextWord salt j1
    j := j2
    let (l', r') := encryptBlockT p s0 s1 s2 s3 (l ^^^ w1) (r ^^^ w2)
    l := l'; r := r'
    s0 := (s0.set! i l).set! (i + 1) r
  for k in [0:128] do
    let i := 2 * k
    let (w1, j1) := getNextWord salt j
    let (w2, j2) := getNextWord salt j1
    j := j2
    let (l', r') := encryptBlockT p s0 s1 s2 s3 (l ^^^ w1) (r ^^^ w2)
    l := l'; r := r'
    s1 := (s1.set! i l).set! (i + 1) r
  for k in [0:128] do
    let i := 2 * k
    let (w1, j1) := getNextWord salt j
    let (w2, j2) := getNextWord salt j1
    j := j2
    let (l', r') := encryptBlockT p s0 s1 s2 s3 (l ^^^ w1) (r ^^^ w2)
    l := l'; r := r'
    s2 := (s2.set! i l).set! (i + 1) r
  for k in [0:128] do
    let i := 2 * k
    let (w1, j1) := getNextWord salt j
    let (w2, j2) := getNextWord salt j1
    j := j2
    let (l', r') := encryptBlockT p s0 s1 s2 s3 (l ^^^ w1) (r ^^^ w2)
    l := l'; r := r'
    s3 := (s3.set! i l).set! (i + 1) r
  return { p := p, s0 := s0, s1 := s1, s2 := s2, s3 := s3 }

theorem expandKeyBA_eq (key : ByteArray) (c : Blowfish) : expandKeyBA key c = expandRest (keyLoop key c.p).1 c := by
  cases c
  rfl

theorem expandKeyWithSaltBA_eq (key salt : ByteArray) (c : Blowfish) :
    expandKeyWithSaltBA key salt c = expandRestSalt (keyLoop key c.p).1 salt c := by
  cases c
  rfl

/-! ## the first loop reads the 72-byte cyclic expansion of the key -/

/-- word `n` of a byte stream -/
def wordAt (stream : Bytes) (n : Nat) : UInt32 :=
  be32 (stream.getD (4 * n) 0) (stream.getD (4 * n + 1) 0) (stream.getD (4 * n + 2) 0) (stream.getD (4 * n + 3) 0)

/-- `p[i] ^= word i` for `i < n` -/
def xorWords (stream : Bytes) (p0 : Array UInt32) : Nat → Array UInt32
  | 0 => p0
  | n + 1 => (xorWords stream p0 n).set! n ((xorWords stream p0 n)[n]! ^^^ wordAt stream n)

theorem cycleTake_getD (ks : Bytes) (n i : Nat) (h : i < n) : (cycleTake ks n).getD i 0 = ks.getD (i % ks.length) 0 := by
  unfold cycleTake
  rw [List.getD_eq_getElem?_getD, List.getElem?_map, List.getElem?_range h]
  rfl

theorem keyLoop_foldl (key : ByteArray) (p0 : Array UInt32) :
    keyLoop key p0 = (List.range' 0 18).foldl
      (fun (s : Array UInt32 × Nat) i => (s.1.set! i (s.1[i]! ^^^ (getNextWord key s.2).1), (getNextWord key s.2).2)) (p0, 0) := by
  unfold keyLoop
  simp only [Id.run, Std.Legacy.Range.forIn_eq_forIn_range', range_size', List.forIn_pure_yield_eq_foldl, pure_bind]
  generalize List.foldl _ _ _ = x
  rfl

theorem keyLoop_prefix (ks : Bytes) (hk : ks ≠ []) (p0 : Array UInt32) : ∀ n, n ≤ 18 →
    (List.range' 0 n).foldl
      (fun (s : Array UInt32 × Nat) i => (s.1.set! i (s.1[i]! ^^^ (getNextWord (bytesToByteArray ks) s.2).1),
        (getNextWord (bytesToByteArray ks) s.2).2)) (p0, 0) =
      (xorWords (cycleTake ks 72) p0 n, (4 * n) % ks.length) := by
  have hpos : 0 < (bytesToByteArray ks).size := by rw [ba_size]; exact List.length_pos_iff.2 hk
  intro n
  induction n with
  | zero => intro _; simp [xorWords]
  | succ n ih =>
    intro hn
    rw [List.range'_1_concat, List.foldl_append, ih (by omega)]
    simp only [List.foldl_cons, List.foldl_nil, Nat.zero_add]
    have hg := gnw (bytesToByteArray ks) (4 * n) hpos
    rw [ba_size] at hg
    rw [hg]
    simp only [xorWords, wordAt, ba_get]
    rw [cycleTake_getD ks 72 _ (by omega), cycleTake_getD ks 72 _ (by omega), cycleTake_getD ks 72 _ (by omega),
      cycleTake_getD ks 72 _ (by omega)]
    have : (4 * n + 4) = 4 * (n + 1) := by omega
    rw [this]

theorem keyLoop_eq (ks : Bytes) (hk : ks ≠ []) (p0 : Array UInt32) :
    (keyLoop (bytesToByteArray ks) p0).1 = xorWords (bfKeyStream ks) p0 18 := by
  rw [keyLoop_foldl, keyLoop_prefix ks hk p0 18 (Nat.le_refl _)]
  simp only [bfKeyStream]

/-! ## consequences -/

theorem expandKey_stream (ks ks' : Bytes) (hk : ks ≠ []) (hk' : ks' ≠ []) (h : bfKeyStream ks = bfKeyStream ks')
    (c : Blowfish) : expandKey ks c = expandKey ks' c := by
  unfold expandKey
  rw [expandKeyBA_eq, expandKeyBA_eq, keyLoop_eq ks hk, keyLoop_eq ks' hk', h]

theorem expandKeyWithSalt_stream (ks ks' : Bytes) (hk : ks ≠ []) (hk' : ks' ≠ []) (h : bfKeyStream ks = bfKeyStream ks')
    (salt : Bytes) (c : Blowfish) : expandKeyWithSalt ks salt c = expandKeyWithSalt ks' salt c := by
  unfold expandKeyWithSalt
  rw [expandKeyWithSaltBA_eq, expandKeyWithSaltBA_eq, keyLoop_eq ks hk, keyLoop_eq ks' hk', h]

theorem newSaltedCipher_stream (ks ks' : Bytes) (hk : ks ≠ []) (hk' : ks' ≠ []) (h : bfKeyStream ks = bfKeyStream ks')
    (salt : Bytes) : newSaltedCipher ks salt = newSaltedCipher ks' salt := by
  unfold newSaltedCipher
  split
  · exact expandKey_stream ks ks' hk hk' h _
  · exact expandKeyWithSalt_stream ks ks' hk hk' h _ _

theorem expandLoop_stream (ks ks' : Bytes) (hk : ks ≠ []) (hk' : ks' ≠ []) (h : bfKeyStream ks = bfKeyStream ks')
    (salt : Bytes) (n : Nat) (c : Blowfish) : expandLoop ks salt n c = expandLoop ks' salt n c := by
  induction n generalizing c with
  | zero => rfl
  | succ n ih => simp only [expandLoop]; rw [expandKey_stream ks ks' hk hk' h, ih]

/-- bcrypt's core is a function of the 72-byte key stream. -/
theorem bcryptCore_stream (ks ks' : Bytes) (hk : ks ≠ []) (hk' : ks' ≠ []) (h : bfKeyStream ks = bfKeyStream ks')
    (salt : Bytes) (cost : Nat) : bcryptCore ks salt cost = bcryptCore ks' salt cost := by
  unfold bcryptCore
  rw [newSaltedCipher_stream ks ks' hk hk' h, expandLoop_stream ks ks' hk hk' h]

theorem bfKeyStream_length (ks : Bytes) : (bfKeyStream ks).length = 72 := Kdf.cycleTake_length ks 72

theorem bfKeyStream_idem (ks : Bytes) : bfKeyStream (bfKeyStream ks) = bfKeyStream ks := by
  unfold bfKeyStream
  rw [Kdf.cycleTake_of_le (by rw [Kdf.cycleTake_length]; exact Nat.le_refl _)]
  exact List.take_of_length_le (by rw [Kdf.cycleTake_length]; exact Nat.le_refl _)

theorem bfKeyStream_ne_nil (ks : Bytes) : bfKeyStream ks ≠ [] := by
  intro h
  have := bfKeyStream_length ks
  rw [h] at this
  simp at this

theorem bcryptCore_of_stream (ks : Bytes) (hk : ks ≠ []) (salt : Bytes) (cost : Nat) :
    bcryptCore ks salt cost = bcryptCore (bfKeyStream ks) salt cost :=
  bcryptCore_stream ks _ hk (bfKeyStream_ne_nil ks) (bfKeyStream_idem ks).symm salt cost

/-- `bcryptDerive` is the core on the key bytes. -/
theorem bcryptDerive_eq_core (pfx pw decSalt : Bytes) (cost : Nat) :
    bcryptDerive pfx pw decSalt cost =
      if (bcryptKeyBytes pfx pw).isEmpty then none else some (bcryptCore (bcryptKeyBytes pfx pw) decSalt cost) := rfl

theorem isEmpty_false_ne_nil {l : Bytes} (h : l.isEmpty = false) : l ≠ [] := by
  intro e; rw [e] at h; cases h

theorem bcryptDerive_of_equiv (pfx pw pw' decSalt : Bytes) (cost : Nat) (h : bcryptEquiv pfx pw pw') :
    bcryptDerive pfx pw decSalt cost = bcryptDerive pfx pw' decSalt cost := by
  rw [bcryptDerive_eq_core, bcryptDerive_eq_core]
  obtain ⟨he, hs⟩ := h
  cases hk : (bcryptKeyBytes pfx pw).isEmpty with
  | true => rw [hk] at he; rw [← he]; simp only [if_true]
  | false =>
    rw [hk] at he
    rw [← he]
    simp only [Bool.false_eq_true, if_false]
    rw [bcryptCore_stream _ _ (isEmpty_false_ne_nil hk) (isEmpty_false_ne_nil he.symm) hs]

/-- Located form of the reduction. -/
theorem bcrypt_absorbs' (pfx pw pw' decSalt : Bytes) (cost : Nat)
    (h : bcryptDerive pfx pw decSalt cost = bcryptDerive pfx pw' decSalt cost) :
    bcryptEquiv pfx pw pw' ∨
      (bfKeyStream (bcryptKeyBytes pfx pw) ≠ bfKeyStream (bcryptKeyBytes pfx pw') ∧
        bcryptCore (bfKeyStream (bcryptKeyBytes pfx pw)) decSalt cost =
          bcryptCore (bfKeyStream (bcryptKeyBytes pfx pw')) decSalt cost) := by
  rw [bcryptDerive_eq_core, bcryptDerive_eq_core] at h
  cases hk : (bcryptKeyBytes pfx pw).isEmpty <;> cases hk' : (bcryptKeyBytes pfx pw').isEmpty <;>
    simp only [hk, hk', Bool.false_eq_true, if_false, if_true, Option.some.injEq, reduceCtorEq] at h
  · by_cases hs : bfKeyStream (bcryptKeyBytes pfx pw) = bfKeyStream (bcryptKeyBytes pfx pw')
    · exact Or.inl ⟨by rw [hk, hk'], hs⟩
    · refine Or.inr ⟨hs, ?_⟩
      rw [← bcryptCore_of_stream _ (isEmpty_false_ne_nil hk), ← bcryptCore_of_stream _ (isEmpty_false_ne_nil hk')]
      exact h
  · left
    refine ⟨by rw [hk, hk'], ?_⟩
    have e1 : bcryptKeyBytes pfx pw = [] := List.isEmpty_iff.1 hk
    have e2 : bcryptKeyBytes pfx pw' = [] := List.isEmpty_iff.1 hk'
    rw [e1, e2]

theorem bcrypt_absorbs'' (pfx pw pw' decSalt : Bytes) (cost : Nat)
    (h : bcryptDerive pfx pw decSalt cost = bcryptDerive pfx pw' decSalt cost) :
    bcryptEquiv pfx pw pw' ∨ BcryptCollision decSalt cost := by
  rcases bcrypt_absorbs' pfx pw pw' decSalt cost h with e | ⟨h1, h2⟩
  · exact Or.inl e
  · exact Or.inr ⟨_, _, bfKeyStream_length _, bfKeyStream_length _, h1, h2⟩

/-! ## the documented rules -/

def prefix2a : Bytes := [36, 50, 97, 36]   -- "$2a$"

theorem takeWhile_all (l : Bytes) (h : ∀ x ∈ l, x ≠ 0) : l.takeWhile (· != 0) = l := by
  induction l with
  | nil => rfl
  | cons a l ih =>
    have ha : (a != 0) = true := by simpa using h a (List.mem_cons_self ..)
    rw [List.takeWhile_cons, ha]
    simp only [if_true]
    rw [ih (fun x hx => h x (List.mem_cons_of_mem _ hx))]

theorem takeWhile_append_nul (q t : Bytes) (h : ∀ x ∈ q, x ≠ 0) : (q ++ 0 :: t).takeWhile (· != 0) = q := by
  induction q with
  | nil => simp
  | cons a l ih =>
    have ha : (a != 0) = true := by simpa using h a (List.mem_cons_self ..)
    rw [List.cons_append, List.takeWhile_cons, ha]
    simp only [if_true]
    rw [ih (fun x hx => h x (List.mem_cons_of_mem _ hx))]

/-- For a NUL-free `q`, the key stream of `q ++ [0]` up to its first NUL is `q.take 72`. -/
theorem stream_takeWhile (q : Bytes) (h : ∀ x ∈ q, x ≠ 0) : (bfKeyStream (q ++ [0])).takeWhile (· != 0) = q.take 72 := by
  unfold bfKeyStream
  by_cases hl : q.length < 72
  · have e : 72 = (q ++ [0]).length + (72 - q.length - 1) := by simp; omega
    rw [e, Kdf.cycleTake_add_length, List.append_assoc, List.singleton_append, takeWhile_append_nul q _ h, ← e,
      List.take_of_length_le (by omega)]
  · rw [Kdf.cycleTake_of_le (by simp; omega), List.take_append_of_le_length (by omega)]
    exact takeWhile_all _ (fun x hx => h x (List.mem_of_mem_take hx))

theorem stream_of_take (q q' : Bytes) (h : q.take 72 = q'.take 72) : bfKeyStream (q ++ [0]) = bfKeyStream (q' ++ [0]) := by
  have hlen := congrArg List.length h
  simp only [List.length_take] at hlen
  by_cases hl : q.length < 72
  · have e1 : q.take 72 = q := List.take_of_length_le (by omega)
    have e2 : q'.take 72 = q' := List.take_of_length_le (by omega)
    rw [e1, e2] at h
    rw [h]
  · unfold bfKeyStream
    rw [Kdf.cycleTake_of_le (by simp; omega), Kdf.cycleTake_of_le (by simp; omega),
      List.take_append_of_le_length (by omega), List.take_append_of_le_length (by omega), h]

/-- The rewritten password, outside the historic ≥ 254-byte rule: `$2b$` keeps 72 bytes. -/
theorem bcryptPassword_take (pfx pw : Bytes) (hl : pfx = prefix2b ∨ pw.length < 254) :
    (bcryptPassword pfx pw).take 72 = pw.take 72 ∧ ∀ x ∈ bcryptPassword pfx pw, x ∈ pw := by
  unfold bcryptPassword
  by_cases h1 : pfx = prefix2b ∧ pw.length > 72
  · rw [if_pos h1]
    exact ⟨by rw [List.take_take, Nat.min_self], fun x hx => List.mem_of_mem_take hx⟩
  · rw [if_neg h1]
    by_cases h2 : pw.length ≥ 254
    · exfalso
      rcases hl with hl | hl
      · exact h1 ⟨hl, by omega⟩
      · omega
    · rw [if_neg h2]
      exact ⟨rfl, fun x hx => hx⟩

/-- **`$2a$` / `$2b$`, NUL-free passwords** (for `$2a$`: shorter than 254 bytes): equivalent iff the
first 72 bytes agree — a shorter password is distinguished by the position of its terminating NUL. -/
theorem bcryptEquiv_iff_take72 (pfx pw pw' : Bytes) (hp : pfx ≠ prefix2)
    (hl : pfx = prefix2b ∨ (pw.length < 254 ∧ pw'.length < 254))
    (h0 : ∀ x ∈ pw, x ≠ 0) (h0' : ∀ x ∈ pw', x ≠ 0) :
    bcryptEquiv pfx pw pw' ↔ pw.take 72 = pw'.take 72 := by
  obtain ⟨t1, m1⟩ := bcryptPassword_take pfx pw (hl.imp id And.left)
  obtain ⟨t2, m2⟩ := bcryptPassword_take pfx pw' (hl.imp id And.right)
  unfold bcryptEquiv bcryptKeyBytes
  rw [if_pos hp, if_pos hp]
  constructor
  · rintro ⟨-, hs⟩
    have := congrArg (List.takeWhile (· != 0)) hs
    rw [stream_takeWhile _ (fun x hx => h0 x (m1 x hx)), stream_takeWhile _ (fun x hx => h0' x (m2 x hx)), t1, t2] at this
    exact this
  · intro h
    refine ⟨?_, stream_of_take _ _ (by rw [t1, t2, h])⟩
    rw [List.isEmpty_eq_false_iff.2 (by simp), List.isEmpty_eq_false_iff.2 (by simp)]

/-- **The pre-2b rule**: under `$2$` / `$2a$` all passwords of 254 bytes or more are equivalent (each is
replaced by seventy-two `'0'`). -/
theorem bcryptEquiv_long (pfx pw pw' : Bytes) (hp : pfx ≠ prefix2b) (h : 254 ≤ pw.length) (h' : 254 ≤ pw'.length) :
    bcryptEquiv pfx pw pw' := by
  have e : bcryptPassword pfx pw = bcryptPassword pfx pw' := by
    unfold bcryptPassword
    have hn : ∀ n : Nat, ¬ (pfx = prefix2b ∧ n > 72) := fun _ c => hp c.1
    rw [if_neg (hn _), if_neg (hn _), if_pos h, if_pos h']
  unfold bcryptEquiv bcryptKeyBytes
  rw [e]
  exact ⟨rfl, rfl⟩

/-- … and equivalent to the literal password `"000…0"` (72 times). -/
theorem bcryptEquiv_long_zeros (pfx pw : Bytes) (hp : pfx ≠ prefix2b) (h : 254 ≤ pw.length) :
    bcryptEquiv pfx pw (List.replicate 72 48) := by
  have e : bcryptPassword pfx pw = bcryptPassword pfx (List.replicate 72 48) := by
    unfold bcryptPassword
    have hn : ∀ n : Nat, ¬ (pfx = prefix2b ∧ n > 72) := fun _ c => hp c.1
    have h72 : ¬ (List.replicate 72 (48 : UInt8)).length ≥ 254 := by simp
    rw [if_neg (hn _), if_neg (hn _), if_pos h, if_neg h72]
  unfold bcryptEquiv bcryptKeyBytes
  rw [e]
  exact ⟨rfl, rfl⟩

/-- Equal rewritten passwords are equivalent (the converse fails: `bcryptEquiv_coarser`). -/
theorem bcryptEquiv_of_password_eq (pfx pw pw' : Bytes) (h : bcryptPassword pfx pw = bcryptPassword pfx pw') :
    bcryptEquiv pfx pw pw' := by
  unfold bcryptEquiv bcryptKeyBytes
  rw [h]
  exact ⟨rfl, rfl⟩

/-- `$2$` (no terminator), passwords shorter than 254 bytes: equivalent iff both are empty or both are
not, and their 72-byte cyclic repetitions agree. -/
theorem bcryptEquiv_v2_iff (pw pw' : Bytes) (hl : pw.length < 254) (hl' : pw'.length < 254) :
    bcryptEquiv prefix2 pw pw' ↔ (pw.isEmpty = pw'.isEmpty ∧ cycleTake pw 72 = cycleTake pw' 72) := by
  have e : ∀ p : Bytes, p.length < 254 → bcryptKeyBytes prefix2 p = p := by
    intro p hp
    unfold bcryptKeyBytes bcryptPassword
    rw [if_neg (by simp), if_neg (fun c => absurd c.1 (by decide)), if_neg (by omega)]
  unfold bcryptEquiv
  rw [e pw hl, e pw' hl']
  rfl

/-- bcrypt's core is the Provos–Mazières construction over the Blowfish operations of
`Prim/Blowfish.lean`: `EksBlowfishSetup`, then 64 ECB encryptions of `"OrpheanBeholderScryDoubt"`, 23 bytes. -/
theorem bcryptCore_eq_spec (key decSalt : Bytes) (cost : Nat) (hs : decSalt ≠ []) :
    bcryptCore key decSalt cost =
      (CryptSpec2.iterate (CryptSpec2.encryptECB C03bProofs.primBlowfish
        (CryptSpec2.eksBlowfishSetup C03bProofs.primBlowfish cost decSalt key)) 64 CryptSpec2.orpheanBeholder).take 23 := by
  have hs' : decSalt.isEmpty = false := by cases decSalt; exact absurd rfl hs; rfl
  unfold bcryptCore
  rw [C03bProofs.orphean_split, C03bProofs.iterate_ecb3 C03bProofs.primBlowfish _ (C03bProofs.encrypt8_length _) 64 _ _ _
    (by decide) (by decide) (by decide)]
  simp only [C03bProofs.expandLoop_eq_iterate, C03bProofs.encryptTimes_eq_iterate, Prim.Blowfish.newSaltedCipher, hs',
    Bool.false_eq_true, if_false]
  rfl

end GoCrypt.Absorb2
